"""./check audit : forbidden-construct grep, Print Assumptions of every property theorem,
and (thorough) coqchk -o over the property modules.  Writes evidence/audit.json."""
import glob
import json
import os
import re
import sys
import time
import vcore


def main():
  t0 = time.time()
  out = dict(grep=[], assumptions={}, coqchk=None)
  bad = vcore.audit_grep()
  out['grep'] = bad
  rc = 0
  if bad:
    print("AUDIT: forbidden constructs:\n" + "\n".join(bad))
    rc = 1
  with vcore.Lock():
    vcore.regenerate()
    r, o = vcore.make([])
    if r != 0:
      print(o[-2000:])
      rc = 1
    for f in sorted(glob.glob(os.path.join(vcore.COQ, 'Properties', 'C*.v'))):
      name = os.path.basename(f)[:-2]
      r, o = vcore.run(['coqc'] + vcore.QFLAGS + ['Properties/%s.v' % name], cwd=vcore.COQ, timeout=600)
      ax = vcore.parse_assumptions(o)
      out['assumptions'][name] = ax or ['Closed under the global context']
      extra = [a for a in ax if a not in vcore.STD_AXIOMS]
      if r != 0 or extra:
        print("AUDIT: %s: rc=%d non-standard axioms=%s" % (name, r, extra))
        rc = 1
    if '--coqchk' in sys.argv or os.environ.get('VERIF_TIER') == 'thorough':
      mods = ['ML.' + os.path.basename(f)[:-2] for f in sorted(glob.glob(os.path.join(vcore.COQ, 'Properties', 'C*.v')))]
      r, o = vcore.run(['coqchk', '-silent', '-o', '-Q', 'Base', 'ML', '-Q', 'Model', 'ML', '-Q', 'Proofs', 'ML',
                        '-Q', 'Properties', 'ML', '-Q', 'gen', 'MLgen'] + mods, cwd=vcore.COQ, timeout=3000)
      out['coqchk'] = dict(rc=r, output=o[-6000:])
      if r != 0:
        print("AUDIT: coqchk failed:\n" + o[-1500:])
        rc = 1
  out['wall_s'] = round(time.time() - t0, 1)
  os.makedirs(os.path.join(vcore.VERIF, 'evidence'), exist_ok=True)
  json.dump(out, open(os.path.join(vcore.VERIF, 'evidence', 'audit.json'), 'w'), indent=1)
  print("audit %s (%.0fs)" % ("ok" if rc == 0 else "FAILED", time.time() - t0))
  return rc
