#!/bin/bash
# usage: tools/unchanged_seeds.sh [seeds...]  -- every quick check on the unchanged tree for the given seeds (default 1 2 3 4 5)
HERE=$(cd "$(dirname "$0")/.." && pwd)
cd $HERE && ./check setup > /dev/null 2>&1 || { echo "setup failed"; exit 2; }
for sd in ${@:-1 2 3 4 5}; do
  for c in C01 C02 C03 C04 C05 C06 C07 C08 C09 C10 C11 C12 C13 C14 C15 C16 C17 C18 C19 C20; do
    s=$(date +%s)
    out=$(VERIF_SEED=$sd ./check $c 2>&1 | grep -E "VIOLATION|Traceback" | cut -c1-160 | tail -1)
    echo "seed=$sd $c :: ${out:-quiet} ($(( $(date +%s) - s )) s)"
  done
done
