"""./check <Cxx|setup|audit|all> [--tier quick|thorough] [--replay path]"""
import argparse
import importlib
import json
import os
import sys
import time
import traceback

import vcore


def setup():
  with vcore.Lock():
    st = vcore.regenerate()
    bad = {k: v for k, v in st.items() if v}
    if bad:
      print("translator failures:", bad)
    rc, out = vcore.make([])
    print(out[-3000:])
    if rc != 0:
      return rc
  bad = vcore.audit_grep()
  if bad:
    print("AUDIT: forbidden constructs:\n" + "\n".join(bad))
    return 1
  print("setup ok")
  return 0


def main():
  ap = argparse.ArgumentParser()
  ap.add_argument('what')
  ap.add_argument('--tier', default=os.environ.get('VERIF_TIER', 'quick'))
  ap.add_argument('--replay', default=None)
  a = ap.parse_args()
  if a.tier not in ('quick', 'thorough'):
    a.tier = 'quick'
  seed = int(os.environ.get('VERIF_SEED', '0') or 0)
  if a.what == 'setup':
    return setup()
  if a.what == 'audit':
    import audit
    return audit.main()
  vcore.impl_python_ok()
  mod = importlib.import_module('props.' + a.what.lower())
  if a.replay:
    return mod.replay(json.load(open(a.replay)))
  ctx = vcore.Ctx(a.what, a.tier, seed)
  # watchdog: a call into the library that does not return (a solver that loops on a degenerate input) must not leave the
  # check without a verdict
  import signal

  class CheckTimeout(Exception):
    pass

  def on_alarm(signum, frame):
    raise CheckTimeout("no verdict after %d s: a call into the implementation under check did not return" % budget)
  budget = int(os.environ.get('VERIF_TIMEOUT', '1500' if a.tier == 'quick' else '7200'))
  signal.signal(signal.SIGALRM, on_alarm)
  signal.alarm(budget)
  try:
    mod.run(ctx)
    signal.alarm(0)
  except Exception as e:   # a crash of the machinery is a broken tie, never a pass
    signal.alarm(0)
    traceback.print_exc()
    ctx.break_tie('correspondence', 'harness', "harness crashed: %s: %s" % (type(e).__name__, e))
  return ctx.finish()


if __name__ == '__main__':
  sys.exit(main())
