"""Translate every estimator constructor (MRO flattened, base-class __init__ calls inlined)
into a table attr -> expr in coq/gen/Src_init.v.  Fail-closed.

expr ::= Param p            the object passed for constructor parameter p
       | Const "repr"       a constant (or a base-class default the subclass did not forward)
       | Alias old e        `old` if it differs from the 'deprecated' sentinel, else e
"""
import ast
import os
from pyx import Untranslatable, is_name, is_attr

FILES = ['base_metric', 'covariance', 'lfda', 'lmnn', 'nca', 'mlkr', 'rca', 'itml', 'mmc', 'sdml', 'lsml', 'scml']
ESTIMATORS = ['Covariance', 'LFDA', 'LMNN', 'NCA', 'MLKR', 'RCA', 'RCA_Supervised', 'ITML',
              'ITML_Supervised', 'MMC', 'MMC_Supervised', 'SDML', 'SDML_Supervised', 'LSML',
              'LSML_Supervised', 'SCML', 'SCML_Supervised']


def load_classes(repo):
  classes = {}
  for f in FILES:
    tree = ast.parse(open(os.path.join(repo, 'metric_learn', f + '.py')).read())
    for n in tree.body:
      if isinstance(n, ast.ClassDef):
        classes[n.name] = n
  return classes


def base_names(cls):
  out = []
  for b in cls.bases:
    if isinstance(b, ast.Name):
      out.append(b.id)
    elif isinstance(b, ast.Attribute):
      out.append(b.attr)
  return out


def find_init(classes, name):
  """first __init__ along a left-to-right depth-first walk (adequate for this hierarchy: checked
  dynamically against the real MRO by the harness)"""
  if name not in classes:
    return None, None
  for n in classes[name].body:
    if isinstance(n, ast.FunctionDef) and n.name == '__init__':
      return name, n
  for b in base_names(classes[name]):
    r = find_init(classes, b)
    if r[1] is not None:
      return r
  return None, None


def cexpr(n, env):
  if isinstance(n, ast.Name):
    if n.id in env:
      return env[n.id]
    raise Untranslatable(n, "constructor uses an unknown name")
  if isinstance(n, ast.Constant):
    return ('Const', repr(n.value))
  if isinstance(n, ast.UnaryOp) and isinstance(n.op, ast.USub) and isinstance(n.operand, ast.Constant):
    return ('Const', repr(-n.operand.value))
  # old if old == 'deprecated' else 'deprecated': the sentinel kept as the object given
  if isinstance(n, ast.IfExp) and isinstance(n.test, ast.Compare) and len(n.test.ops) == 1 \
      and isinstance(n.test.ops[0], ast.Eq) and isinstance(n.test.left, ast.Name) \
      and isinstance(n.test.comparators[0], ast.Constant) and n.test.comparators[0].value == 'deprecated' \
      and isinstance(n.body, ast.Name) and n.body.id == n.test.left.id \
      and isinstance(n.orelse, ast.Constant) and n.orelse.value == 'deprecated' \
      and env.get(n.body.id) == ('Param', n.body.id):
    return ('Sentinel', n.body.id)
  raise Untranslatable(n, "constructor stores a computed value")


def is_deprecated_test(t):
  return (isinstance(t, ast.Compare) and len(t.ops) == 1 and isinstance(t.ops[0], ast.NotEq)
          and isinstance(t.left, ast.Name) and isinstance(t.comparators[0], ast.Constant)
          and t.comparators[0].value == 'deprecated')


def run_init(classes, cname, fn, env, stores, guards, warns, depth=0):
  if depth > 4:
    raise Untranslatable(fn, "constructor chain too deep")
  body = fn.body
  if body and isinstance(body[0], ast.Expr) and isinstance(body[0].value, ast.Constant):
    body = body[1:]
  for s in body:
    exec_stmt(classes, cname, s, env, stores, guards, warns, depth)


def exec_stmt(classes, cname, s, env, stores, guards, warns, depth):
  # self.x = e
  if isinstance(s, ast.Assign) and len(s.targets) == 1 and isinstance(s.targets[0], ast.Attribute) \
      and is_name(s.targets[0].value, 'self'):
    stores[s.targets[0].attr] = cexpr(s.value, env)
    return
  # x = e   (rebinding a local)
  if isinstance(s, ast.Assign) and len(s.targets) == 1 and isinstance(s.targets[0], ast.Name):
    env[s.targets[0].id] = cexpr(s.value, env)
    return
  # warnings.warn(...)
  if isinstance(s, ast.Expr) and isinstance(s.value, ast.Call) and is_attr(s.value.func, 'warnings', 'warn'):
    cat = [a for a in s.value.args[1:]] + [k.value for k in s.value.keywords if k.arg == 'category']
    warns.append(ast.unparse(cat[0]) if cat else 'UserWarning')
    return
  # if old != 'deprecated': ... [else: ...]
  if isinstance(s, ast.If) and is_deprecated_test(s.test):
    old = s.test.left.id
    env_t, st_t, w_t = dict(env), dict(stores), []
    for b in s.body:
      exec_stmt(classes, cname, b, env_t, st_t, guards, w_t, depth)
    env_f, st_f = dict(env), dict(stores)
    for b in s.orelse:
      exec_stmt(classes, cname, b, env_f, st_f, guards, [], depth)
    if 'FutureWarning' not in w_t:
      raise Untranslatable(s, "deprecated alias without FutureWarning")
    warns.append('FutureWarning:' + old)
    for k in set(env_t) | set(env_f):
      a, b = env_t.get(k), env_f.get(k)
      if a != b:
        if a != env[old] or b is None:
          raise Untranslatable(s, "deprecated branch binds something other than the old parameter")
        env[k] = ('Alias', old, b)
    for k in set(st_t) | set(st_f):
      a, b = st_t.get(k), st_f.get(k)
      if a != b:
        if a != env[old] or b is None:
          raise Untranslatable(s, "deprecated branch stores something other than the old parameter")
        stores[k] = ('Alias', old, b)
      else:
        stores[k] = a
    return
  # if cond: raise ValueError   (constructor-time validation)
  if isinstance(s, ast.If) and not s.orelse and len(s.body) == 1 and isinstance(s.body[0], ast.Raise):
    guards.append(ast.unparse(s.test))
    return
  # super(C, self).__init__(args) / Base.__init__(self, args)
  if isinstance(s, ast.Expr) and isinstance(s.value, ast.Call) and isinstance(s.value.func, ast.Attribute) \
      and s.value.func.attr == '__init__':
    call = s.value
    tgt = call.func.value
    if isinstance(tgt, ast.Call) and is_name(tgt.func, 'super'):
      # super(C, self): next class after C with an __init__, searching C's bases
      if len(tgt.args) == 2 and isinstance(tgt.args[0], ast.Name):
        start = tgt.args[0].id
      else:
        start = cname
      owner, fn = None, None
      for b in base_names(classes[start]):
        owner, fn = find_init(classes, b)
        if fn is not None:
          break
      args = list(call.args)
    elif isinstance(tgt, ast.Name):
      owner, fn = find_init(classes, tgt.id)
      if not call.args or not is_name(call.args[0], 'self'):
        raise Untranslatable(s, "explicit base __init__ without self")
      args = list(call.args[1:])
    else:
      raise Untranslatable(s, "unrecognised base-class constructor call")
    if fn is None:
      raise Untranslatable(s, "base-class constructor not found")
    params = [a.arg for a in fn.args.args if a.arg != 'self']
    defaults = fn.args.defaults
    dmap = {}
    for p, dflt in zip(params[len(params) - len(defaults):], defaults):
      dmap[p] = cexpr(dflt, {})
    benv = {}
    for p, a in zip(params, args):
      benv[p] = cexpr(a, env)
    for k in call.keywords:
      if k.arg is None or k.arg not in params:
        raise Untranslatable(s, "unknown keyword in base constructor call")
      benv[k.arg] = cexpr(k.value, env)
    for p in params:
      if p not in benv:
        if p not in dmap:
          raise Untranslatable(s, "missing argument %s" % p)
        benv[p] = dmap[p]
    run_init(classes, owner, fn, benv, stores, guards, warns, depth + 1)
    return
  raise Untranslatable(s, "constructor statement not in the accepted subset")


def gexpr(e):
  if e[0] == 'Param':
    return '(Param "%s")' % e[1]
  if e[0] == 'Const':
    return '(Const "%s")' % e[1].replace('"', "'")
  if e[0] == 'Alias':
    return '(Alias "%s" %s)' % (e[1], gexpr(e[2]))
  if e[0] == 'Sentinel':
    return '(Sentinel "%s")' % e[1]
  raise ValueError(e)


def translate(repo='/repo'):
  classes = load_classes(repo)
  rows = []
  for name in ESTIMATORS:
    if name not in classes:
      raise Untranslatable(ast.parse('pass'), "estimator class %s not found" % name)
    owner, fn = find_init(classes, name)
    if fn is None:
      raise Untranslatable(classes[name], "no constructor")
    if fn.args.vararg or fn.args.kwarg or fn.args.kwonlyargs or fn.args.posonlyargs:
      raise Untranslatable(fn, "constructor with *args/**kwargs")
    params = [a.arg for a in fn.args.args if a.arg != 'self']
    defaults = fn.args.defaults
    dflt = {}
    for p, dv in zip(params[len(params) - len(defaults):], defaults):
      dflt[p] = cexpr(dv, {})
    if set(params) != set(dflt):
      raise Untranslatable(fn, "constructor parameter without default")
    env = {p: ('Param', p) for p in params}
    stores, guards, warns = {}, [], []
    run_init(classes, owner, fn, env, stores, guards, warns)
    deprecated = [p for p in params if dflt[p] == ('Const', "'deprecated'")]
    rows.append((name, params, deprecated, stores, guards, warns))
  out = ["(* GENERATED by tools/translate_init.py from %s/metric_learn/*.py -- do not edit *)" % repo,
         "From Coq Require Import List String.", "From ML Require Import InitModel.",
         "Import ListNotations.", "Open Scope string_scope.", "",
         "Definition inits : list class_init := ["]
  items = []
  for name, params, deprecated, stores, guards, warns in rows:
    items.append('  {| cname := "%s";\n     cparams := [%s];\n     cdeprecated := [%s];\n     cstores := [%s];\n     cguards := [%s];\n     cwarns := [%s] |}' % (
        name, "; ".join('"%s"' % p for p in params), "; ".join('"%s"' % p for p in deprecated),
        ";\n                 ".join('("%s", %s)' % (k, gexpr(v)) for k, v in stores.items()),
        "; ".join('"%s"' % g.replace('"', "'") for g in guards),
        "; ".join('"%s"' % w for w in warns)))
  out.append(";\n".join(items))
  out.append("].\n")
  return "\n".join(out)


if __name__ == '__main__':
  print(translate())
