"""Fail-closed translator core: Python `ast` expressions over a small, typed NumPy
subset -> Gallina text using the combinators of coq/Base/NP.v (the idiom table).

Types ("shapes") of values:
  S  scalar in the carrier          V  1-D array (list t)
  M  2-D array (list of rows)       MT a 2-D array used transposed (value = the untransposed rows)
  T3 3-D array of tuples            VB 1-D bool array     VZ 1-D integer array
  B  Python bool                    Zs Python int literal
Anything outside the table raises Untranslatable (the tie is then broken, never passed).
"""
import ast


class Untranslatable(Exception):
  def __init__(self, node, why):
    self.node = node
    self.why = why
    line = getattr(node, 'lineno', '?')
    try:
      src = ast.unparse(node)
    except Exception:
      src = repr(node)
    super().__init__("line %s: %s: %s" % (line, why, src[:200]))


def is_name(n, s):
  return isinstance(n, ast.Name) and n.id == s


def is_attr(n, obj, attr):
  return (isinstance(n, ast.Attribute) and n.attr == attr and
          isinstance(n.value, ast.Name) and n.value.id == obj)


def np_call(n, fname):
  return (isinstance(n, ast.Call) and is_attr(n.func, 'np', fname))


def const_int(n):
  if isinstance(n, ast.Constant) and isinstance(n.value, int) and not isinstance(n.value, bool):
    return n.value
  if isinstance(n, ast.UnaryOp) and isinstance(n.op, ast.USub):
    v = const_int(n.operand)
    return None if v is None else -v
  return None


def zlit(v):
  return "(%d)%%Z" % v


def full_slice(s):
  return isinstance(s, ast.Slice) and s.lower is None and s.upper is None and s.step is None


class Env:
  """variable name -> (type, gallina term); self attributes and methods."""

  def __init__(self, vars=None, self_attrs=None, self_methods=None):
    self.vars = dict(vars or {})
    self.self_attrs = dict(self_attrs or {})
    self.self_methods = dict(self_methods or {})  # name -> (argtypes, rettype, gallina fn)

  def copy(self):
    return Env(self.vars, self.self_attrs, self.self_methods)


def compile_expr(n, env):
  """returns (type, term)"""
  # names
  if isinstance(n, ast.Name):
    if n.id in env.vars:
      return env.vars[n.id]
    raise Untranslatable(n, "unknown variable")
  # self.attr
  if isinstance(n, ast.Attribute) and is_name(n.value, 'self'):
    if n.attr in env.self_attrs:
      return env.self_attrs[n.attr]
    raise Untranslatable(n, "unknown attribute of self")
  # E.T
  if isinstance(n, ast.Attribute) and n.attr == 'T':
    ty, tm = compile_expr(n.value, env)
    if ty == 'M':
      return ('MT', tm)
    if ty == 'MT':
      return ('M', tm)
    if ty == 'V':
      return ('V', tm)   # .T is the identity on 1-D arrays
    raise Untranslatable(n, ".T on type " + ty)
  # calls
  if isinstance(n, ast.Call):
    f = n.func
    # E.copy()
    if isinstance(f, ast.Attribute) and f.attr == 'copy' and not n.args and not n.keywords:
      return compile_expr(f.value, env)
    # E.mean()
    if isinstance(f, ast.Attribute) and f.attr == 'mean' and not n.args and not n.keywords:
      ty, tm = compile_expr(f.value, env)
      if ty == 'VZ':
        return ('S', "(np_mean_z %s)" % tm)
      raise Untranslatable(n, ".mean() on type " + ty)
    # self.method(args)
    if isinstance(f, ast.Attribute) and is_name(f.value, 'self'):
      if f.attr not in env.self_methods or n.keywords:
        raise Untranslatable(n, "unknown method of self")
      argtys, rty, g = env.self_methods[f.attr]
      if len(n.args) != len(argtys):
        raise Untranslatable(n, "arity")
      args = []
      for a, want in zip(n.args, argtys):
        ty, tm = compile_expr(a, env)
        if ty != want:
          raise Untranslatable(a, "argument type %s, expected %s" % (ty, want))
        args.append(tm)
      return (rty, "(%s %s)" % (g, " ".join(args)))
    # A.dot(B)
    if isinstance(f, ast.Attribute) and f.attr == 'dot' and len(n.args) == 1 and not n.keywords:
      return compile_dot(n, f.value, n.args[0], env)
    # np.dot(a, b)
    if np_call(n, 'dot') and len(n.args) == 2 and not n.keywords:
      return compile_dot(n, n.args[0], n.args[1], env)
    # np.sqrt(E)
    if np_call(n, 'sqrt') and len(n.args) == 1 and not n.keywords:
      ty, tm = compile_expr(n.args[0], env)
      if ty == 'V':
        return ('V', "(np_sqrt_v %s)" % tm)
      if ty == 'S':
        return ('S', "(np_sqrt_s %s)" % tm)
      raise Untranslatable(n, "np.sqrt on type " + ty)
    # np.sum(E, axis=-1)
    if np_call(n, 'sum') and len(n.args) == 1 and len(n.keywords) == 1 \
        and n.keywords[0].arg == 'axis' and const_int(n.keywords[0].value) == -1:
      ty, tm = compile_expr(n.args[0], env)
      if ty == 'M':
        return ('V', "(np_sum_last_m %s)" % tm)
      raise Untranslatable(n, "np.sum(axis=-1) on type " + ty)
    # np.sign(E)
    if np_call(n, 'sign') and len(n.args) == 1 and not n.keywords:
      ty, tm = compile_expr(n.args[0], env)
      if ty == 'V':
        return ('VZ', "(np_sign_v %s)" % tm)
      raise Untranslatable(n, "np.sign on type " + ty)
    raise Untranslatable(n, "call not in the idiom table")
  # E ** 2
  if isinstance(n, ast.BinOp) and isinstance(n.op, ast.Pow) and const_int(n.right) == 2:
    ty, tm = compile_expr(n.left, env)
    if ty == 'M':
      return ('M', "(np_sq_m %s)" % tm)
    raise Untranslatable(n, "**2 on type " + ty)
  # subtraction
  if isinstance(n, ast.BinOp) and isinstance(n.op, ast.Sub):
    # 2 * (bools) - 1
    if const_int(n.right) == 1 and isinstance(n.left, ast.BinOp) and isinstance(n.left.op, ast.Mult) \
        and const_int(n.left.left) == 2:
      ty, tm = compile_expr(n.left.right, env)
      if ty == 'VB':
        return ('VZ', "(np_pm1 %s)" % tm)
      raise Untranslatable(n, "2*E-1 on type " + ty)
    lt, l = compile_expr(n.left, env)
    rt, r = compile_expr(n.right, env)
    if lt == rt == 'M':
      return ('M', "(np_sub_mm %s %s)" % (l, r))
    if lt == rt == 'V':
      return ('V', "(np_sub_vv %s %s)" % (l, r))
    raise Untranslatable(n, "subtraction of types %s, %s" % (lt, rt))
  # c * E with an integer literal
  if isinstance(n, ast.BinOp) and isinstance(n.op, ast.Mult) and const_int(n.left) is not None:
    ty, tm = compile_expr(n.right, env)
    if ty == 'V':
      return ('V', "(np_zmul_v %s %s)" % (zlit(const_int(n.left)), tm))
    raise Untranslatable(n, "int * E on type " + ty)
  # E / 2 + 0.5
  if isinstance(n, ast.BinOp) and isinstance(n.op, ast.Add) and isinstance(n.right, ast.Constant) \
      and n.right.value == 0.5 and isinstance(n.left, ast.BinOp) and isinstance(n.left.op, ast.Div) \
      and const_int(n.left.right) == 2:
    ty, tm = compile_expr(n.left.left, env)
    if ty == 'S':
      return ('S', "(oadd O (odiv O %s (oofZ O 2%%Z)) ohalf)" % tm)
    raise Untranslatable(n, "E/2+0.5 on type " + ty)
  # - E
  if isinstance(n, ast.UnaryOp) and isinstance(n.op, ast.USub):
    ty, tm = compile_expr(n.operand, env)
    if ty == 'V':
      return ('V', "(np_neg_v %s)" % tm)
    raise Untranslatable(n, "unary minus on type " + ty)
  # comparisons  E <= s,  E > 0
  if isinstance(n, ast.Compare) and len(n.ops) == 1:
    lt, l = compile_expr(n.left, env)
    op = n.ops[0]
    c = n.comparators[0]
    if lt == 'V' and isinstance(op, ast.LtE):
      rt, r = compile_expr(c, env)
      if rt == 'S':
        return ('VB', "(np_le_vs %s %s)" % (l, r))
    if lt == 'V' and isinstance(op, ast.Gt) and const_int(c) == 0:
      return ('VB', "(np_gt_vs %s (o0 O))" % l)
    raise Untranslatable(n, "comparison not in the idiom table")
  # subscripts on tuples
  if isinstance(n, ast.Subscript):
    ty, tm = compile_expr(n.value, env)
    s = n.slice
    if ty == 'T3' and isinstance(s, ast.Tuple):
      el = s.elts
      # T[:, i, :]
      if len(el) == 3 and full_slice(el[0]) and full_slice(el[2]) and const_int(el[1]) is not None \
          and const_int(el[1]) >= 0:
        return ('M', "(tup_col %d %s)" % (const_int(el[1]), tm))
      if len(el) == 2 and full_slice(el[0]):
        e1 = el[1]
        # T[:, :n]
        if isinstance(e1, ast.Slice) and e1.lower is None and e1.step is None and \
            const_int(e1.upper) is not None and const_int(e1.upper) >= 0:
          return ('T3', "(tup_firstn %d %s)" % (const_int(e1.upper), tm))
        # T[:, n:]
        if isinstance(e1, ast.Slice) and e1.upper is None and e1.step is None and \
            const_int(e1.lower) is not None and const_int(e1.lower) >= 0:
          return ('T3', "(tup_skipn %d %s)" % (const_int(e1.lower), tm))
        # T[:, [i, j]]
        if isinstance(e1, ast.List) and all(const_int(x) is not None and const_int(x) >= 0
                                            for x in e1.elts):
          return ('T3', "(tup_pick [%s]%%nat %s)" % ("; ".join(str(const_int(x)) for x in e1.elts), tm))
    raise Untranslatable(n, "subscript not in the idiom table")
  raise Untranslatable(n, "expression form not in the idiom table")


def compile_dot(n, a, b, env):
  at, atm = compile_expr(a, env)
  bt, btm = compile_expr(b, env)
  if at == 'M' and bt == 'MT':
    return ('M', "(np_dotT_mm %s %s)" % (atm, btm))
  if at == 'V' and bt == 'MT':
    return ('V', "(np_dotT_vm %s %s)" % (atm, btm))
  if at == 'V' and bt == 'V':
    return ('S', "(np_dot_vv %s %s)" % (atm, btm))
  if at == 'MT' and bt == 'M' and atm == btm:
    return ('M', "(np_gram d %s)" % atm)
  raise Untranslatable(n, "dot of types %s, %s" % (at, bt))
