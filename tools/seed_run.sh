#!/bin/bash
# usage: tools/seed_run.sh <patch.diff (absolute path)> <Cxx> [Cxx ...]   -- apply a seeded change, run checks, undo it
# works on $VERIF_REPO (default /repo)
HERE=$(cd "$(dirname "$0")/.." && pwd)
R=${VERIF_REPO:-/repo}
patch=$1; shift
if ! git -C $R diff --quiet; then echo "$R has uncommitted changes"; exit 2; fi
git -C $R apply "$patch" || { echo "patch does not apply"; exit 2; }
trap "git -C $R checkout -- ." EXIT
for c in "$@"; do
  out=$(cd $HERE && ./check $c --tier ${TIER:-quick} 2>&1 | grep -E "VIOLATION|Traceback" | tail -2)
  echo "[$c] :: $out"
done
