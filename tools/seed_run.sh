#!/bin/bash
# usage: tools/seed_run.sh <patch.diff> <Cxx> [Cxx ...]   -- apply a seeded change to /repo, run checks, undo it
patch=$1; shift
if ! git -C /repo diff --quiet; then echo "/repo has uncommitted changes"; exit 2; fi
git -C /repo apply "$patch" || { echo "patch does not apply"; exit 2; }
trap 'git -C /repo checkout -- . ' EXIT
for c in "$@"; do
  out=$(cd /verif && ./check $c --tier ${TIER:-quick} 2>&1 | grep -v KNOWN-FINDING | tail -3)
  echo "[$c] rc=$? :: $out"
done
