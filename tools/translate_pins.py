"""Text-level tie for the functions whose models are written by hand: the normalised source of each function
(docstring, verbose-only printing and comments removed; `ast.unparse`) is digested into coq/gen/Src_pins.v on every
run; the static files coq/Proofs/PinsCxx.v state the digests the hand-written model of property Cxx was written from
(proved by reflexivity), and /verif/pins/*.txt keep the normalised text itself so that a broken pin is reported with a diff.

usage:  translate_pins.py [repo]            print the generated Coq file
        translate_pins.py --update [repo]   rewrite pins/*.txt and coq/Proofs/PinsCxx.v from the given tree (after a repair)
"""
import ast, hashlib, os, sys, difflib

HERE = os.path.dirname(os.path.dirname(os.path.abspath(__file__)))

PINS = {
    'C05': [('_util.py', 'preprocess_tuples'), ('_util.py', 'preprocess_points'), ('_util.py', 'ArrayIndexer.__init__'),
            ('_util.py', 'ArrayIndexer.__call__'), ('base_metric.py', 'BaseMetricLearner._check_preprocessor')],
    'C06': [('_util.py', 'check_input'), ('_util.py', 'check_input_tuples'), ('_util.py', 'check_input_classic'),
            ('_util.py', 'check_tuple_size'), ('_util.py', 'check_y_valid_values_for_pairs'), ('_util.py', 'make_context'),
            ('_util.py', 'check_collapsed_pairs'), ('_util.py', 'validate_vector'), ('_util.py', '_check_n_components')],
    'C07': [('constraints.py', 'Constraints.__init__'), ('constraints.py', 'Constraints.positive_negative_pairs'),
            ('constraints.py', 'Constraints.generate_knntriplets'), ('constraints.py', 'Constraints._pairs'),
            ('constraints.py', 'Constraints.chunks'), ('constraints.py', 'comb'), ('constraints.py', 'wrap_pairs')],
    'C09': [('covariance.py', 'Covariance.fit'), ('rca.py', '_chunk_mean_centering'), ('rca.py', 'RCA._check_dimension'),
            ('rca.py', 'RCA.fit'), ('rca.py', '_inv_sqrtm'), ('lfda.py', 'LFDA.fit'), ('lfda.py', '_sum_outer'), ('lfda.py', '_eigh')],
    'C10': [('nca.py', 'NCA.fit'), ('nca.py', 'NCA._loss_grad_lbfgs'), ('mlkr.py', 'MLKR.fit'), ('mlkr.py', 'MLKR._loss'),
            ('lmnn.py', 'LMNN.fit'), ('lmnn.py', 'LMNN._loss_grad'), ('lmnn.py', 'LMNN._select_targets'),
            ('lmnn.py', 'LMNN._find_impostors'), ('lmnn.py', '_inplace_paired_L2'), ('lmnn.py', '_count_edges'),
            ('lmnn.py', '_sum_outer_products')],
    'C11': [('itml.py', 'ITML.fit'), ('itml.py', 'ITML_Supervised.fit')],
    'C12': [('lsml.py', 'LSML.fit'), ('lsml.py', 'LSML_Supervised.fit')],
    'C13': [('sdml.py', '_BaseSDML._fit'), ('_util.py', '_pseudo_inverse_from_eig')],
    'C14': [('mmc.py', '_BaseMMC._fit'), ('mmc.py', '_BaseMMC._fit_full'), ('mmc.py', '_BaseMMC._fit_diag'), ('mmc.py', '_BaseMMC._fD'),
            ('mmc.py', '_BaseMMC._fD1'), ('mmc.py', '_BaseMMC._fS1'), ('mmc.py', '_BaseMMC._grad_projection'),
            ('mmc.py', '_BaseMMC._D_objective'), ('mmc.py', '_BaseMMC._D_constraint')],
    'C15': [('scml.py', '_BaseSCML._components_from_basis_weights'), ('scml.py', '_BaseSCML._compute_dist_diff'),
            ('scml.py', '_BaseSCML._to_index_points'), ('scml.py', '_BaseSCML._initialize_basis'),
            ('scml.py', '_BaseSCML._generate_bases_dist_diff'), ('scml.py', 'SCML_Supervised._generate_bases_LDA')],
    'C16': [('base_metric.py', '_PairsClassifierMixin.calibrate_threshold'),
            ('base_metric.py', '_PairsClassifierMixin._validate_calibration_params')],
    'C20': [('_util.py', 'components_from_metric'), ('_util.py', '_check_sdp_from_eigen'),
            ('_util.py', '_initialize_metric_mahalanobis'), ('_util.py', '_initialize_components'),
            ('_util.py', '_auto_select_init'), ('_util.py', '_pseudo_inverse_from_eig')],
}


def ident(fname, qual):
  return 'pin_' + (fname[:-3] + '__' + qual).replace('.', '__').strip('_').replace('___', '__')


def find(tree, qual):
  node = tree
  for part in qual.split('.'):
    nxt = [n for n in node.body if isinstance(n, (ast.FunctionDef, ast.ClassDef)) and n.name == part]
    if len(nxt) != 1:
      return None
    node = nxt[0]
  return node if isinstance(node, ast.FunctionDef) else None


class Strip(ast.NodeTransformer):
  """drop docstrings, `if self.verbose: <prints / print-only bindings>` and bare print statements"""

  def _clean(self, body):
    out = []
    for k, s in enumerate(body):
      if k == 0 and isinstance(s, ast.Expr) and isinstance(s.value, ast.Constant) and isinstance(s.value.value, str):
        continue
      if isinstance(s, ast.Expr) and isinstance(s.value, ast.Call) and isinstance(s.value.func, ast.Name) and s.value.func.id == 'print':
        continue
      if isinstance(s, ast.If) and ast.unparse(s.test) in ('self.verbose', 'verbose') and not s.orelse and all(
          (isinstance(b, ast.Expr) and isinstance(b.value, ast.Call) and
           (ast.unparse(b.value.func) in ('print', 'sys.stdout.flush')))
          for b in s.body):
        continue
      out.append(s)
    return out or [ast.Pass()]

  def generic_visit(self, node):
    super().generic_visit(node)
    for field in ('body', 'orelse', 'finalbody'):
      v = getattr(node, field, None)
      if isinstance(v, list) and v and isinstance(v[0], ast.stmt):
        setattr(node, field, self._clean(v) if field == 'body' or v else v)
    return node


def normalised(repo, fname, qual):
  path = os.path.join(repo, 'metric_learn', fname)
  try:
    tree = ast.parse(open(path).read())
  except Exception as e:
    return None
  fn = find(tree, qual)
  if fn is None:
    return None
  fn = Strip().visit(fn)
  ast.fix_missing_locations(fn)
  return ast.unparse(fn) + "\n"


def digest(text):
  return 'missing' if text is None else hashlib.sha256(text.encode()).hexdigest()


def all_pins():
  seen = []
  for prop in sorted(PINS):
    for fq in PINS[prop]:
      if fq not in seen:
        seen.append(fq)
  return seen


def translate(repo):
  out = ["(* GENERATED by tools/translate_pins.py from %s/metric_learn -- do not edit *)" % os.path.basename(repo.rstrip('/')),
         "From Coq Require Import String.", "Open Scope string_scope.", ""]
  for fname, qual in all_pins():
    out.append('Definition %s : string := "%s".   (* %s: %s *)' % (ident(fname, qual), digest(normalised(repo, fname, qual)), fname, qual))
  return "\n".join(out) + "\n"


def pin_path(fname, qual):
  return os.path.join(HERE, 'pins', ident(fname, qual)[4:] + '.txt')


def diff_report(repo, prop):
  """unified diffs between the stored normalised text and the current one, for the pins of `prop`"""
  chunks = []
  for fname, qual in PINS.get(prop, []):
    cur = normalised(repo, fname, qual)
    try:
      old = open(pin_path(fname, qual)).read()
    except OSError:
      old = ''
    if cur != old:
      d = difflib.unified_diff(old.splitlines(), (cur or '<function not found>').splitlines(), 'pinned ' + qual, 'current ' + qual, lineterm='', n=1)
      chunks.append("\n".join(list(d)[:40]))
  return "\n".join(chunks)


def update(repo):
  os.makedirs(os.path.join(HERE, 'pins'), exist_ok=True)
  for fname, qual in all_pins():
    t = normalised(repo, fname, qual)
    if t is None:
      raise SystemExit("cannot pin %s:%s (not found)" % (fname, qual))
    open(pin_path(fname, qual), 'w').write(t)
  for prop in sorted(PINS):
    names = [ident(f, q) for f, q in PINS[prop]]
    digs = [digest(normalised(repo, f, q)) for f, q in PINS[prop]]
    text = ("(* Text-level tie of %s: the hand-written model / harness of this property was written from exactly these versions of the\n"
            "   functions below (normalised source, digests regenerated from /repo on every run in gen/Src_pins.v; the text itself is in\n"
            "   /verif/pins/).  A function that changes breaks this lemma; the check then looks for a failing input and reports the\n"
            "   obligation with a diff.  Rewritten by `tools/translate_pins.py --update` after a repair of /repo. *)\n"
            "From Coq Require Import String List.\nFrom MLgen Require Import Src_pins.\nImport ListNotations.\nOpen Scope string_scope.\n\n"
            "Lemma pins_%s_ok :\n  [ %s ] =\n  [ %s ].\nProof. reflexivity. Qed.\n"
            % (prop, prop, "\n  ; ".join(names), "\n  ; ".join('"%s"   (* %s: %s *)' % (d, f, q) for d, (f, q) in zip(digs, PINS[prop]))))
    open(os.path.join(HERE, 'coq', 'Proofs', 'Pins%s.v' % prop), 'w').write(text)
  print("pinned %d functions for %d properties" % (len(all_pins()), len(PINS)))


if __name__ == '__main__':
  args = [a for a in sys.argv[1:] if not a.startswith('--')]
  repo = args[0] if args else '/repo'
  if '--update' in sys.argv:
    update(repo)
  else:
    print(translate(repo))
