#!/usr/bin/env python3
"""usage: suite_check.py <tree>  -- run the pinned suite in <tree> (a worktree of /repo) and compare with /root/.vp/BASELINE.json"""
import json, os, subprocess, sys, tempfile
sys.path.insert(0, '/w/lib')
import parse_tests
tree = sys.argv[1]
base = json.load(open('/root/.vp/BASELINE.json'))
with tempfile.TemporaryDirectory() as td:
    xml = os.path.join(td, 'r.xml')
    env = dict(os.environ, PYTHONPATH=tree, PYTHONHASHSEED='0')
    subprocess.run(['/venv/bin/python', '-m', 'pytest', '-q', '-p', 'no:cacheprovider', '--timeout=900',
                    '--continue-on-collection-errors', '-x' if False else '-q', '--junitxml=' + xml],
                   cwd=tree, env=env, stdout=subprocess.DEVNULL, stderr=subprocess.DEVNULL)
    passed, failed, other, _ = parse_tests.parse_junit([xml])
stable = set(base['stable_pass'])
missing = sorted(t for t in stable if t not in passed and t not in failed and t not in other)
notpass = sorted(t for t in stable if t in failed or t in other)
print('stable %d passed_now %d missing %d notpass %d' % (len(stable), len(passed), len(missing), len(notpass)))
for t in (missing + notpass)[:10]: print('  ', t)
sys.exit(0 if not missing and not notpass else 1)
