#!/bin/bash
# every check in the thorough tier on the unchanged tree (seed given or 0); prints one line per check
HERE=$(cd "$(dirname "$0")/.." && pwd)
cd $HERE && ./check setup > /dev/null 2>&1 || { echo "setup failed"; exit 2; }
for c in C01 C02 C03 C04 C05 C06 C07 C08 C09 C10 C11 C12 C13 C14 C15 C16 C17 C18 C19 C20; do
  s=$(date +%s)
  out=$(VERIF_SEED=${1:-0} ./check $c --tier thorough 2>&1 | grep -E "VIOLATION|KNOWN-FINDING|Traceback" | cut -c1-200 | tail -2)
  echo "$c thorough rc-line: ${out:-quiet} ($(( $(date +%s) - s )) s)"
done
