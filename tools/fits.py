"""Well-formed training data and the 17 estimators with their documented option values.
Every random choice comes from the numpy Generator passed in."""
import warnings
import numpy as np
import metric_learn

NAMES = ['Covariance', 'LFDA', 'LMNN', 'NCA', 'MLKR', 'RCA', 'RCA_Supervised', 'ITML',
         'ITML_Supervised', 'MMC', 'MMC_Supervised', 'SDML', 'SDML_Supervised', 'LSML',
         'LSML_Supervised', 'SCML', 'SCML_Supervised']

KIND = {'Covariance': 'unsup', 'LFDA': 'class', 'LMNN': 'class', 'NCA': 'class', 'MLKR': 'reg',
        'RCA': 'chunks', 'RCA_Supervised': 'class', 'ITML': 'pairs', 'ITML_Supervised': 'class',
        'MMC': 'pairs', 'MMC_Supervised': 'class', 'SDML': 'pairs', 'SDML_Supervised': 'class',
        'LSML': 'quads', 'LSML_Supervised': 'class', 'SCML': 'triplets', 'SCML_Supervised': 'class'}

TUPLE_SIZE = {'ITML': 2, 'MMC': 2, 'SDML': 2, 'SCML': 3, 'LSML': 4}


def check_estimator_set():
  have = sorted(n for n in metric_learn.__all__ if n not in ('Constraints', '__version__'))
  if have != sorted(NAMES):
    raise RuntimeError("estimator set changed: %s" % have)


def grid(x, bits=10):
  return np.round(np.asarray(x, dtype=float) * 2 ** bits) / 2 ** bits


def make_data(rng, d=None, n_classes=None, n_per_class=None, n_tuples=None, sep=2.0):
  """class-structured points on a 2^-10 grid; tuples consistent with the labels,
  without collapsed pairs"""
  d = int(rng.integers(2, 6)) if d is None else d
  n_classes = int(rng.integers(2, 4)) if n_classes is None else n_classes
  if n_per_class is None:
    n_per_class = [int(rng.integers(max(4, (4 * d) // n_classes + 1), max(4, (4 * d) // n_classes + 1) + 6))
                   for _ in range(n_classes)]
  n = sum(n_per_class)
  y = np.repeat(np.arange(n_classes), n_per_class)
  centers = rng.standard_normal((n_classes, d)) * sep
  A = rng.standard_normal((d, d)) * 0.5 + np.eye(d)
  X = grid(rng.standard_normal((n, d)).dot(A) + centers[y])
  perm = rng.permutation(n)
  X, y = X[perm], y[perm]
  # distinct rows (continuous distribution => distinct; enforce after rounding)
  assert len(np.unique(X, axis=0)) == n
  n_tuples = int(n_tuples or rng.integers(3 * d + 6, 3 * d + 20))
  pos, neg = [], []
  while len(pos) < n_tuples // 2 + 1 or len(neg) < n_tuples // 2 + 1:
    a, b = rng.integers(0, n, size=2)
    if a == b:
      continue
    (pos if y[a] == y[b] else neg).append((int(a), int(b)))
  pos, neg = pos[:n_tuples // 2 + 1], neg[:n_tuples // 2 + 1]
  pidx = np.array(pos + neg)
  ypairs = np.array([1] * len(pos) + [-1] * len(neg))
  pp = rng.permutation(len(pidx))
  pidx, ypairs = pidx[pp], ypairs[pp]
  trip = []
  while len(trip) < max(n_tuples, d + 2):
    a, b, c = rng.integers(0, n, size=3)
    if a != b and y[a] == y[b] and y[a] != y[c]:
      trip.append((int(a), int(b), int(c)))
  quad = []
  while len(quad) < n_tuples:
    a, b, c, e = rng.integers(0, n, size=4)
    if a != b and c != e and y[a] == y[b] and y[c] != y[e]:
      quad.append((int(a), int(b), int(c), int(e)))
  # chunks: a few chunklets per class, -1 for unchunked points
  chunks = -np.ones(n, dtype=int)
  cid = 0
  for c in range(n_classes):
    idx = np.flatnonzero(y == c)
    rng.shuffle(idx)
    for k in range(0, len(idx) - 1, 3):
      m = idx[k:k + 3]
      if len(m) >= 2 and rng.random() < 0.85:
        chunks[m] = cid
        cid += 1
  yreg = grid(X.dot(rng.standard_normal(d)) + 0.1 * rng.standard_normal(n))
  return dict(X=X, y=y, yreg=yreg, d=d, n=n, n_classes=n_classes,
              pairs_idx=pidx, ypairs=ypairs, trip_idx=np.array(trip), quad_idx=np.array(quad),
              chunks=chunks)


def encode_labels(rng, data):
  """the same data with class labels / chunk ids renamed by a strictly increasing map (1-based, gapped, large):
  labels are names, not indices 0..C-1; unknown (-1) entries stay -1"""
  out = dict(data)
  mode = int(rng.integers(0, 3))
  if mode == 0:
    enc = lambda v: v + 1
  elif mode == 1:
    enc = lambda v: 10 * (v + 1)
  else:
    step = int(rng.integers(2, 5))
    off = int(rng.integers(0, 3))
    enc = lambda v: step * v + off
  y = np.asarray(data['y'])
  out['y'] = np.where(y >= 0, enc(y), y)
  ch = np.asarray(data['chunks'])
  out['chunks'] = np.where(ch >= 0, enc(ch), ch)
  out['label_encoding'] = ['1-based', 'tens', 'affine'][mode]
  return out


def relayout(a, kind):
  """the same numbers in another memory layout (a fresh array every time): 'C', 'F' (column-major), 'tuple_outer'
  (built as np.stack of the per-position point arrays and transposed: the tuple axis is outermost in memory),
  'strided' (every second element of a larger buffer)"""
  a = np.asarray(a)
  if kind in (None, 'C') or a.ndim < 2:
    return np.array(a, order='C')
  if kind == 'F':
    return np.array(a, order='F')
  if kind == 'tuple_outer' and a.ndim == 3:
    return np.stack([np.array(a[:, j]) for j in range(a.shape[1])]).transpose(1, 0, 2)
  if kind == 'strided' or kind == 'tuple_outer':
    big = np.zeros(tuple(2 * n for n in a.shape), dtype=a.dtype)
    view = big[tuple(slice(None, None, 2) for _ in a.shape)]
    view[...] = a
    return view
  raise KeyError(kind)


LAYOUTS = ('C', 'F', 'tuple_outer', 'strided')


def fit_args(name, data):
  args = _fit_args(name, data)
  lay = data.get('layout')
  if lay:
    args = (relayout(args[0], lay),) + tuple(args[1:])
  return args


def _fit_args(name, data):
  k = KIND[name]
  X = data['X']
  if k == 'unsup':
    return (X,)
  if k == 'class':
    return (X, data['y'])
  if k == 'reg':
    return (X, data['yreg'])
  if k == 'chunks':
    if data.get('all_chunked') and name == 'RCA':     # opt-in (C17): RCA called without its unchunked points
      keep = data['chunks'] >= 0
      return (np.ascontiguousarray(X[keep]), data['chunks'][keep])
    return (X, data['chunks'])
  if k == 'pairs':
    return (X[data['pairs_idx']], data['ypairs'])
  if k == 'triplets':
    return (X[data['trip_idx']],)
  if k == 'quads':
    return (X[data['quad_idx']],)
  raise KeyError(name)


def sdml_balance(data, prior_inv_min=1.0):
  P = data['X'][data['pairs_idx']]
  diff = P[:, 0] - P[:, 1]
  loss = (diff.T * data['ypairs']).dot(diff)
  return float(2.0 ** np.floor(np.log2(0.4 * prior_inv_min / max(np.linalg.norm(loss, 2), 1e-12))))


def base_kwargs(name, data, fast=True):
  """small iteration budgets: the properties that use these fits look at the fitted
  model's structure, not at convergence"""
  d = data['d']
  kw = {}
  if name == 'LMNN':
    kw = dict(max_iter=15, n_neighbors=2, learn_rate=1e-6)
  elif name == 'NCA':
    kw = dict(max_iter=8)
  elif name == 'MLKR':
    kw = dict(max_iter=8)
  elif name in ('ITML', 'ITML_Supervised'):
    kw = dict(max_iter=30)
  elif name in ('MMC', 'MMC_Supervised'):
    kw = dict(max_iter=8, max_proj=2000)
  elif name in ('SDML', 'SDML_Supervised'):
    kw = dict(balance_param=sdml_balance(data), sparsity_param=0.01)
  elif name in ('LSML', 'LSML_Supervised'):
    kw = dict(max_iter=15)
  elif name in ('SCML', 'SCML_Supervised'):
    kw = dict(max_iter=200, output_iter=50, n_basis=4 * d, batch_size=5)
  if name == 'SCML_Supervised':
    kw.update(k_genuine=2, k_impostor=3)
  if name == 'RCA_Supervised':
    kw.update(n_chunks=max(4, data['n'] // 4), chunk_size=2)
  if name.endswith('_Supervised') and name not in ('RCA_Supervised', 'SCML_Supervised'):
    kw.update(n_constraints=6 * d + 10)
  if name in ('LMNN', 'NCA', 'MLKR', 'ITML', 'ITML_Supervised', 'MMC', 'MMC_Supervised', 'SDML',
              'SDML_Supervised', 'LSML', 'LSML_Supervised', 'SCML', 'SCML_Supervised', 'RCA_Supervised'):
    kw['random_state'] = 0
  return kw


def spd_array(rng, d):
  """a symmetric positive definite array in one of the memory layouts a caller may legally pass:
  C-ordered, Fortran-ordered (e.g. the transpose of a C array), or a strided view"""
  B = grid(rng.standard_normal((d, d)), 4)
  A = B.T.dot(B) + np.eye(d)
  layout = int(rng.integers(0, 3))
  if layout == 1:
    A = np.asfortranarray(A)
  elif layout == 2:
    big = np.zeros((2 * d, 2 * d))
    big[::2, ::2] = A
    A = big[::2, ::2]
  return A


def option_variants(name, data, rng):
  """documented option values (one dict of overrides per variant)"""
  d, ncls = data['d'], data['n_classes']
  out = [dict()]
  if name in ('LMNN', 'NCA', 'MLKR'):
    for init in ('auto', 'pca', 'identity', 'random'):
      out.append(dict(init=init))
    out.append(dict(init=grid(rng.standard_normal((d, d)), 4)))
    for nc in range(1, d + 1):
      out.append(dict(n_components=nc))
      out.append(dict(n_components=nc, init=grid(rng.standard_normal((nc, d)), 4)))
      if name != 'MLKR' and nc <= min(d, ncls - 1):
        out.append(dict(n_components=nc, init='lda'))
      out.append(dict(n_components=nc, init='pca'))
      out.append(dict(n_components=nc, init='identity'))
      out.append(dict(n_components=nc, init='random'))
  if name in ('ITML', 'ITML_Supervised', 'LSML', 'LSML_Supervised', 'SDML', 'SDML_Supervised'):
    for prior in ('identity', 'covariance', 'random'):
      out.append(dict(prior=prior))
    out.append(dict(prior=spd_array(rng, d)))
    out.append(dict(prior=np.ascontiguousarray(spd_array(rng, d)).astype(np.float32)))     # an SPD array in single precision
  if name in ('MMC', 'MMC_Supervised'):
    for init in ('identity', 'covariance', 'random'):
      out.append(dict(init=init))
    out.append(dict(init=spd_array(rng, d)))
    out.append(dict(init=np.ascontiguousarray(spd_array(rng, d)).astype(np.float32)))
  if name == 'LFDA':
    for et in ('weighted', 'orthonormalized', 'plain'):
      for k in (None, 1, 2, d - 1, d + 1):
        out.append(dict(embedding_type=et, k=k))
    for nc in range(1, d + 1):
      out.append(dict(n_components=nc))
      # the product embedding_type x n_components (k drawn)
      for et in ('weighted', 'orthonormalized', 'plain'):
        out.append(dict(n_components=nc, embedding_type=et, k=[None, 1, 2, 3][int(rng.integers(0, 4))]))
  if name in ('RCA', 'RCA_Supervised'):
    for nc in range(1, d + 1):
      out.append(dict(n_components=nc))
  if name == 'SCML':
    out.append(dict(basis='triplet_diffs'))
    B = rng.standard_normal((3 * d, d))
    out.append(dict(basis=B / np.linalg.norm(B, axis=1)[:, None], n_basis=None))
  if name in ('SCML', 'SCML_Supervised') and d >= 2:
    # bases given as arrays that do not span the space: more rows than features, rank below n_features
    B = rng.standard_normal((3 * d, d))
    B[:, int(rng.integers(0, d))] = 0.0
    out.append(dict(basis=B / np.linalg.norm(B, axis=1)[:, None], n_basis=None))
    E = np.eye(d)
    B = np.array([E[i] - E[j] for i in range(d) for j in range(d) if i != j])
    out.append(dict(basis=B / np.linalg.norm(B, axis=1)[:, None], n_basis=None))
  if name in ('SCML', 'SCML_Supervised') and d >= 2:
    # a dictionary of coordinate axes held in an integer type, with fewer elements than features (the low-rank case as soon as
    # every element is active) and with as many
    out.append(dict(basis=np.eye(d, dtype=int)[:d - 1], n_basis=None))
    out.append(dict(basis=np.eye(d, dtype=np.int32), n_basis=None))
  if name == 'SCML_Supervised':
    out.append(dict(basis='lda'))
    out.append(dict(basis='triplet_diffs'))
    B = rng.standard_normal((3 * d, d))
    out.append(dict(basis=B / np.linalg.norm(B, axis=1)[:, None], n_basis=None))
  return out


def make_estimator(name, kw):
  return getattr(metric_learn, name)(**kw)


def sdml_fix_balance(name, kw, data):
  """keep the graphical-lasso input positive definite (the property's premise)"""
  if name not in ('SDML', 'SDML_Supervised'):
    return kw
  prior = kw.get('prior', 'identity')
  from metric_learn._util import _initialize_metric_mahalanobis
  kw = dict(kw)
  X = data['X']
  if isinstance(prior, str) and prior == 'identity':
    lam = 1.0
  else:
    src = fit_args(name, data)[0] if name == 'SDML' else X
    with warnings.catch_warnings():
      warnings.simplefilter('ignore')
      _, pinv = _initialize_metric_mahalanobis(src, prior, return_inverse=True, strict_pd=True,
                                               random_state=kw.get('random_state'))
    lam = float(np.linalg.eigvalsh(pinv).min())
  if name == 'SDML':
    kw['balance_param'] = sdml_balance(data, lam)
  else:
    diam2 = float(((X.max(axis=0) - X.min(axis=0)) ** 2).sum())
    npairs = 2 * (kw.get('n_constraints') or 20 * (data['n_classes'] + 1) ** 2)
    kw['balance_param'] = float(2.0 ** np.floor(np.log2(0.2 * lam / (npairs * diam2))))
  return kw


def fit(name, kw, data):
  est = make_estimator(name, kw)
  with warnings.catch_warnings():
    warnings.simplefilter('ignore')
    est.fit(*fit_args(name, data))
  return est


def zoo_specs(rng, variants=False, names=None):
  """yields (name, kwargs, data)"""
  for name in (names or NAMES):
    data = make_data(rng)
    base = base_kwargs(name, data)
    vs = option_variants(name, data, rng) if variants else [dict()]
    for v in vs:
      kw = dict(base)
      kw.update(v)
      yield name, sdml_fix_balance(name, kw, data), data


def fitted_zoo(rng, variants=False, names=None):
  """yields (name, kwargs, data, fitted estimator)"""
  for name, kw, data in zoo_specs(rng, variants, names):
    yield name, kw, data, fit(name, kw, data)
