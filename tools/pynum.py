"""Fail-closed compiler for the numeric statements of the solver loops: Python `ast` over a typed
NumPy subset -> Gallina text using the idiom table coq/Base/NPNum.v.

Types:  S scalar   SX scalar that may be +inf (option)   V 1-D array   M 2-D array   B bool   VB 1-D bool array
A *cell* is an indexed element of loop-carried state (e.g. `_lambda[i]`), declared by the unit that
is being translated; it is read and written like a scalar variable.
Anything outside the table raises Untranslatable."""
import ast
from fractions import Fraction
from pyx import Untranslatable, is_name, is_attr, np_call, const_int


class NEnv:
  def __init__(self, vars=None, cells=None, self_attrs=None):
    self.vars = dict(vars or {})          # name -> (type, term)
    self.cells = dict(cells or {})        # unparsed subscript -> variable name
    self.self_attrs = dict(self_attrs or {})

  def copy(self):
    return NEnv(self.vars, self.cells, self.self_attrs)


def lit(v):
  if isinstance(v, bool):
    raise ValueError
  if isinstance(v, int):
    return "(oint (%d)%%Z)" % v
  f = Fraction(repr(v))          # the decimal numeral written in the source
  if f.denominator == 1:
    return "(oint (%d)%%Z)" % f.numerator
  if f.numerator >= 2 ** 53 or f.denominator >= 2 ** 53:
    raise ValueError
  return "(olit (%d)%%Z (%d)%%Z)" % (f.numerator, f.denominator)


def num_const(n):
  if isinstance(n, ast.Constant) and isinstance(n.value, (int, float)) and not isinstance(n.value, bool):
    return n.value
  if isinstance(n, ast.UnaryOp) and isinstance(n.op, ast.USub):
    v = num_const(n.operand)
    return None if v is None else -v
  return None


BIN = {
    (ast.Add, 'S', 'S'): ('S', "(oadd O %s %s)"), (ast.Sub, 'S', 'S'): ('S', "(osub O %s %s)"),
    (ast.Mult, 'S', 'S'): ('S', "(omul O %s %s)"), (ast.Div, 'S', 'S'): ('S', "(odiv O %s %s)"),
    (ast.Div, 'S', 'SX'): ('S', "(nn_div_sx %s %s)"),
    (ast.Add, 'V', 'V'): ('V', "(nn_add_vv %s %s)"), (ast.Sub, 'V', 'V'): ('V', "(nn_sub_vv %s %s)"),
    (ast.Mult, 'V', 'V'): ('V', "(nn_mul_vv %s %s)"), (ast.Div, 'V', 'V'): ('V', "(nn_div_vv %s %s)"),
    (ast.Mult, 'V', 'S'): ('V', "(nn_mul_vs %s %s)"), (ast.Mult, 'S', 'V'): ('V', "(nn_mul_sv %s %s)"),
    (ast.Add, 'V', 'S'): ('V', "(nn_add_vs %s %s)"), (ast.Add, 'S', 'V'): ('V', "(nn_add_sv %s %s)"),
    (ast.Div, 'V', 'S'): ('V', "(nn_div_vs %s %s)"), (ast.Div, 'S', 'V'): ('V', "(nn_div_sv %s %s)"),
    (ast.Add, 'M', 'M'): ('M', "(nn_add_mm %s %s)"), (ast.Sub, 'M', 'M'): ('M', "(nn_sub_mm %s %s)"),
    (ast.Mult, 'M', 'M'): ('M', "(nn_mul_mm %s %s)"),
    (ast.Mult, 'S', 'M'): ('M', "(nn_mul_sm %s %s)"), (ast.Mult, 'M', 'S'): ('M', "(nn_mul_ms %s %s)"),
}


def as_scalar(ty, tm):
  """a Python int (type N: a nat-valued variable such as the iteration counter) used in float arithmetic"""
  return ('S', "(ofnat %s)" % tm) if ty == 'N' else (ty, tm)


def cexpr(n, env):
  """-> (type, term)"""
  c = num_const(n)
  if c is not None:
    try:
      return ('S', lit(c))
    except ValueError:
      raise Untranslatable(n, "numeral not exactly representable as a quotient of small integers")
  if isinstance(n, ast.Name):
    if n.id in env.vars:
      return env.vars[n.id]
    raise Untranslatable(n, "unknown variable")
  if isinstance(n, ast.Attribute) and is_name(n.value, 'self'):
    if n.attr in env.self_attrs:
      return env.self_attrs[n.attr]
    raise Untranslatable(n, "unknown attribute of self")
  if isinstance(n, ast.Subscript):
    key = ast.unparse(n)
    if key in env.cells:
      return env.vars[env.cells[key]]
    # a[mask]
    ty, tm = cexpr(n.value, env)
    if not isinstance(n.slice, (ast.Tuple, ast.Slice)):
      sty, stm = cexpr(n.slice, env)
      if sty == 'VB' and ty in ('V', 'M', 'VI'):
        return (ty, "(nn_mask %s %s)" % (stm, tm))
    if isinstance(n.slice, ast.Tuple) and len(n.slice.elts) == 2 and ty == 'M':
      s1 = n.slice.elts[1]
      if isinstance(s1, ast.Slice) and s1.lower is None and s1.upper is None and s1.step is None:
        ity, itm = cexpr(n.slice.elts[0], env)
        if ity == 'VI':
          return ('M', "(nn_take_rows %s %s)" % (itm, tm))
    raise Untranslatable(n, "subscript is not a declared cell of the loop state")
  if isinstance(n, ast.Attribute) and n.attr == 'T':
    ty, tm = cexpr(n.value, env)
    if ty == 'V':
      return ('V', tm)          # a (1, n) row and its (n, 1) transpose hold the same numbers in the same order
    if ty == 'M':
      return ('MT', tm)         # the transpose of a 2-D array: kept as the untransposed rows
    raise Untranslatable(n, ".T on type " + ty)
  if isinstance(n, ast.IfExp):
    # 1. if gamma is np.inf else gamma / (gamma + 1.)   (`==` as well: the value, not the object)
    t = n.test
    if isinstance(t, ast.Compare) and len(t.ops) == 1 and isinstance(t.ops[0], (ast.Is, ast.Eq)) \
        and isinstance(t.left, ast.Name) and is_attr(t.comparators[0], 'np', 'inf') \
        and env.vars.get(t.left.id, (None,))[0] == 'SX':
      x = t.left.id
      bty, btm = cexpr(n.body, env)
      e2 = env.copy()
      e2.vars[x] = ('S', 'gm_')
      oty, otm = cexpr(n.orelse, e2)
      if bty == oty == 'S':
        return ('S', "(match %s with None => %s | Some gm_ => %s end)" % (env.vars[x][1], btm, otm))
    raise Untranslatable(n, "conditional expression not in the idiom table")
  if isinstance(n, ast.UnaryOp) and isinstance(n.op, ast.USub):
    ty, tm = as_scalar(*cexpr(n.operand, env))
    if ty == 'S':
      return ('S', "(oopp O %s)" % tm)
    if ty == 'V':
      return ('V', "(nn_neg_v %s)" % tm)
    raise Untranslatable(n, "unary minus on type " + ty)
  if isinstance(n, ast.BinOp):
    if isinstance(n.op, ast.Pow) and const_int(n.right) == 2:
      ty, tm = cexpr(n.left, env)
      if ty == 'S':
        return ('S', "(let sq_ := %s in omul O sq_ sq_)" % tm)
      if ty == 'V':
        return ('V', "(nn_square_v %s)" % tm)
      raise Untranslatable(n, "**2 on type " + ty)
    lt, l = cexpr(n.left, env)
    rt, r = cexpr(n.right, env)
    # integers: iter + 1, (iter + 1) % output_iter stay integers; an integer meeting a float is converted
    if lt == 'N' and const_int(n.right) is not None and const_int(n.right) >= 0 and isinstance(n.op, ast.Add):
      return ('N', "(%s + %d)%%nat" % (l, const_int(n.right)))
    if lt == 'N' and rt == 'N' and isinstance(n.op, ast.Mod):
      return ('N', "(Nat.modulo %s %s)" % (l, r))
    if lt == 'N' and rt != 'N':
      lt, l = as_scalar(lt, l)
    if rt == 'N' and lt != 'N':
      rt, r = as_scalar(rt, r)
    if isinstance(n.op, ast.Mult) and lt == 'MT' and rt == 'V':
      return ('MT', "(nn_scale_rows %s %s)" % (r, l))      # X.T * y scales column i of X.T, i.e. row i of X, by y_i
    key = (type(n.op), lt, rt)
    if key in BIN:
      ty, fmt = BIN[key]
      return (ty, fmt % (l, r))
    raise Untranslatable(n, "operator %s on types %s, %s" % (type(n.op).__name__, lt, rt))
  if isinstance(n, ast.Compare) and len(n.ops) == 1:
    lt, l = cexpr(n.left, env)
    if lt == 'N' and isinstance(n.ops[0], ast.Eq) and const_int(n.comparators[0]) is not None and const_int(n.comparators[0]) >= 0:
      return ('B', "(Nat.eqb %s %d)" % (l, const_int(n.comparators[0])))
    rt, r = cexpr(n.comparators[0], env)
    op = type(n.ops[0])
    if lt == rt == 'S':
      fmt = {ast.Lt: "(oltb O %s %s)", ast.LtE: "(oleb O %s %s)", ast.Eq: "(oeqb O %s %s)"}.get(op)
      if fmt:
        return ('B', fmt % (l, r))
      fmt = {ast.Gt: "(oltb O %s %s)", ast.GtE: "(oleb O %s %s)"}.get(op)
      if fmt:
        return ('B', fmt % (r, l))
    if lt == 'V' and rt == 'S' and op is ast.Lt:
      return ('VB', "(nn_lt_vs %s %s)" % (l, r))
    if lt == 'V' and rt == 'S' and op is ast.LtE:
      return ('VB', "(nn_le_vs %s %s)" % (l, r))
    if lt == rt == 'V' and op is ast.Gt:
      return ('VB', "(nn_gt_vv %s %s)" % (l, r))
    if lt == 'V' and rt == 'S' and op is ast.Gt:
      return ('VB', "(nn_gt_vs %s %s)" % (l, r))
    raise Untranslatable(n, "comparison not in the idiom table")
  if isinstance(n, ast.Call):
    f = n.func
    if isinstance(f, ast.Name) and f.id == 'any' and len(n.args) == 1 and not n.keywords:
      ty, tm = cexpr(n.args[0], env)
      if ty == 'VB':
        return ('B', "(nn_any %s)" % tm)
      raise Untranslatable(n, "any() on type " + ty)
    if isinstance(f, ast.Name) and f.id == 'abs' and len(n.args) == 1 and not n.keywords:
      ty, tm = cexpr(n.args[0], env)
      if ty == 'V':
        return ('V', "(nn_abs_v %s)" % tm)
      if ty == 'S':
        return ('S', "(oabs O %s)" % tm)
      raise Untranslatable(n, "abs() on type " + ty)
    if isinstance(f, ast.Name) and f.id == 'len' and len(n.args) == 1 and not n.keywords:
      ty, tm = cexpr(n.args[0], env)
      if ty in ('V', 'M'):
        return ('N', "(length %s)" % tm)
      raise Untranslatable(n, "len() on type " + ty)
    if isinstance(f, ast.Attribute) and f.attr == 'max' and not n.args and not n.keywords and not is_name(f.value, 'np'):
      ty, tm = cexpr(f.value, env)
      if ty == 'V':
        return ('S', "(nn_max_v %s)" % tm)
      raise Untranslatable(n, ".max() on type " + ty)
    if isinstance(f, ast.Name) and f.id in ('min', 'max') and len(n.args) == 2 and not n.keywords:
      (at, a), (bt, b) = cexpr(n.args[0], env), cexpr(n.args[1], env)
      if at == bt == 'S':
        return ('S', "(%s O %s %s)" % ('omin' if f.id == 'min' else 'omax', a, b))
      raise Untranslatable(n, "min/max on types %s, %s" % (at, bt))
    if isinstance(f, ast.Attribute) and f.attr == 'copy' and not n.args and not n.keywords:
      return cexpr(f.value, env)
    if isinstance(f, ast.Attribute) and f.attr == 'ravel' and not n.args and not n.keywords:
      ty, tm = cexpr(f.value, env)
      if ty == 'M':
        return ('V', "(nn_ravel %s)" % tm)        # row-major unrolling
      if ty == 'V':
        return ('V', tm)
      raise Untranslatable(n, ".ravel() on type " + ty)
    if np_call(n, 'einsum') and len(n.args) == 3 and not n.keywords and isinstance(n.args[0], ast.Constant) \
        and n.args[0].value == 'ij,ik->jk' and env.vars.get('__dim__', (None,))[0] == 'N':
      (at, a), (bt, b) = cexpr(n.args[1], env), cexpr(n.args[2], env)
      if at == bt == 'M':
        return ('M', "(nn_einsum_ij_ik_jk %s %s %s)" % (env.vars['__dim__'][1], a, b))     # sum_i outer(a_i, b_i)
      raise Untranslatable(n, "einsum operands")
    if isinstance(f, ast.Attribute) and f.attr == 'dot' and len(n.args) == 1 and not n.keywords:
      return cdot(n, f.value, n.args[0], env)
    if np_call(n, 'dot') and len(n.args) == 2 and not n.keywords:
      return cdot(n, n.args[0], n.args[1], env)
    if np_call(n, 'atleast_2d') and len(n.args) == 1 and not n.keywords:
      ty, tm = cexpr(n.args[0], env)
      if ty == 'M':
        return (ty, tm)
      raise Untranslatable(n, "np.atleast_2d on type " + ty)
    if isinstance(f, ast.Name) and f.id in getattr(env, 'oracles', {}) and len(n.args) == 1 and not n.keywords:
      ty, tm = cexpr(n.args[0], env)
      key = (f.id, tm)
      if key not in env.oracles[f.id]:
        raise Untranslatable(n, "oracle call on an unexpected argument")
      return env.oracles[f.id][key]
    if np_call(n, 'matmul') and len(n.args) == 2 and not n.keywords:
      return cdot(n, n.args[0], n.args[1], env)
    if np_call(n, 'squeeze') and len(n.args) == 1 and len(n.keywords) == 1 and n.keywords[0].arg == 'axis' \
        and const_int(n.keywords[0].value) == 1:
      ty, tm = cexpr(n.args[0], env)
      if ty in ('V', 'VB'):
        return (ty, tm)         # dropping the unit axis of an (n, 1) column
      raise Untranslatable(n, "np.squeeze on type " + ty)
    if np_call(n, 'sum') and len(n.args) == 1 and sorted(k.arg for k in n.keywords) == ['axis', 'keepdims']:
      kws = {k.arg: k.value for k in n.keywords}
      ty, tm = cexpr(n.args[0], env)
      if ty == 'M' and const_int(kws['axis']) == 0 and isinstance(kws['keepdims'], ast.Constant) and kws['keepdims'].value is True \
          and env.vars.get('__ncols__', (None,))[0] == 'N':
        return ('V', "(nn_sum_cols %s %s)" % (env.vars['__ncols__'][1], tm))      # column sums as a (1, n) row
      raise Untranslatable(n, "np.sum(axis=0, keepdims=True) form")
    if np_call(n, 'outer') and len(n.args) == 2 and not n.keywords:
      (at, a), (bt, b) = cexpr(n.args[0], env), cexpr(n.args[1], env)
      if at == bt == 'V':
        return ('M', "(nn_outer %s %s)" % (a, b))
      raise Untranslatable(n, "np.outer on types %s, %s" % (at, bt))
    if isinstance(f, ast.Attribute) and f.attr == 'sum' and not n.args and not n.keywords \
        and not is_name(f.value, 'np'):
      ty, tm = cexpr(f.value, env)
      if ty == 'V':
        return ('S', "(nn_sum_v %s)" % tm)
      if ty == 'M':
        return ('S', "(nn_sum_m %s)" % tm)
      raise Untranslatable(n, ".sum() on type " + ty)
    if np_call(n, 'sum') and len(n.args) == 1:
      ty, tm = cexpr(n.args[0], env)
      if not n.keywords:
        if ty == 'V':
          return ('S', "(nn_sum_v %s)" % tm)
        if ty == 'M':
          return ('S', "(nn_sum_m %s)" % tm)
      if len(n.keywords) == 1 and n.keywords[0].arg == 'axis' and const_int(n.keywords[0].value) == 1 and ty == 'M':
        return ('V', "(nn_sum_rows %s)" % tm)
      raise Untranslatable(n, "np.sum form not in the idiom table")
    for name, table in (('abs', {'V': ('V', "(nn_abs_v %s)"), 'S': ('S', "(oabs O %s)")}),
                        ('sqrt', {'V': ('V', "(nn_sqrt_v %s)"), 'S': ('S', "(osqrt O %s)")}),
                        ('square', {'V': ('V', "(nn_square_v %s)")})):
      if np_call(n, name) and len(n.args) == 1 and not n.keywords:
        ty, tm = cexpr(n.args[0], env)
        if ty in table:
          return (table[ty][0], table[ty][1] % tm)
        raise Untranslatable(n, "np.%s on type %s" % (name, ty))
    if isinstance(f, ast.Attribute) and f.attr == 'norm' and is_attr(f.value, 'np', 'linalg') \
        and len(n.args) == 1 and not n.keywords:
      ty, tm = cexpr(n.args[0], env)
      if ty == 'V':
        return ('S', "(nn_norm_v %s)" % tm)
      if ty == 'M':
        return ('S', "(nn_norm_m %s)" % tm)
      raise Untranslatable(n, "norm on type " + ty)
    for name, g in (('minimum', 'nn_minimum_vs'), ('maximum', 'nn_maximum_vs')):
      if np_call(n, name) and len(n.args) == 2 and not n.keywords:
        (at, a), (bt, b) = cexpr(n.args[0], env), cexpr(n.args[1], env)
        if at == 'V' and bt == 'S':
          return ('V', "(%s %s %s)" % (g, a, b))
        if at == 'S' and bt == 'V':
          return ('V', "(%s %s %s)" % (g, b, a))
        raise Untranslatable(n, "np.%s on types %s, %s" % (name, at, bt))
    raise Untranslatable(n, "call not in the idiom table")
  raise Untranslatable(n, "expression form not in the idiom table")


def cdot(n, a, b, env):
  (at, atm), (bt, btm) = cexpr(a, env), cexpr(b, env)
  if (at, bt) == ('MT', 'M'):
    return ('M', "(nn_dot_tm %s %s)" % (atm, btm))          # A.T.dot(B)
  if (at, bt) == ('M', 'MT'):
    return ('M', "(nn_dot_mt %s %s)" % (atm, btm))          # A.dot(B.T)
  g = {('V', 'V'): ('S', 'nn_dot_vv'), ('M', 'V'): ('V', 'nn_dot_mv'),
       ('V', 'M'): ('V', 'nn_dot_vm'), ('M', 'M'): ('M', 'nn_dot_mm')}.get((at, bt))
  if g is None:
    raise Untranslatable(n, "dot of types %s, %s" % (at, bt))
  return (g[0], "(%s %s %s)" % (g[1], atm, btm))


AUG = {ast.Add: ast.Add, ast.Sub: ast.Sub, ast.Mult: ast.Mult, ast.Div: ast.Div}


class Block:
  """straight-line numeric statements -> a chain of lets; every assignment (also to a cell or an
  augmented one) rebinds a fresh Gallina name."""

  def __init__(self, env):
    self.env = env
    self.lets = []
    self.n = 0

  def fresh(self, base):
    self.n += 1
    return "%s_%d" % (base.strip('_') or 'x', self.n)

  def target_name(self, tg):
    if isinstance(tg, ast.Name):
      return tg.id
    if isinstance(tg, ast.Subscript) and ast.unparse(tg) in self.env.cells:
      return self.env.cells[ast.unparse(tg)]
    raise Untranslatable(tg, "assignment target is neither a local nor a declared cell")

  def bind(self, name, ty, tm):
    g = self.fresh(name)
    self.lets.append("let %s := %s in" % (g, tm))
    self.env.vars[name] = (ty, g)

  def stmt(self, s):
    if isinstance(s, ast.Assign) and len(s.targets) == 1:
      name = self.target_name(s.targets[0])
      ty, tm = cexpr(s.value, self.env)
      if name in self.env.vars and isinstance(s.targets[0], ast.Subscript) and self.env.vars[name][0] != ty:
        raise Untranslatable(s, "cell changes type")
      self.bind(name, ty, tm)
      return
    if isinstance(s, ast.AugAssign) and type(s.op) in AUG:
      name = self.target_name(s.target)
      if name not in self.env.vars:
        raise Untranslatable(s, "augmented assignment to an unbound name")
      e = ast.BinOp(left=s.target, op=s.op, right=s.value)
      ast.copy_location(e, s)
      ast.fix_missing_locations(e)
      ty, tm = cexpr(e, self.env)
      if ty != self.env.vars[name][0]:
        raise Untranslatable(s, "augmented assignment changes the type")
      self.bind(name, ty, tm)
      return
    raise Untranslatable(s, "statement form not in the numeric subset")

  def text(self, result):
    return "\n    ".join(self.lets + [result])
