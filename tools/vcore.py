"""Shared machinery of every check: Coq build (under a lock), generated sources,
case files evaluated with vm_compute, verdicts, known findings, evidence."""
import fcntl
import glob
import hashlib
import json
import math
import os
import re
import shutil
import subprocess
import sys
import time
import traceback
from concurrent.futures import ThreadPoolExecutor
from fractions import Fraction

import numpy as np

# the tree this file lives in (a snapshot made by `vp run` works on its own copy) and the repository under check
VERIF = os.path.dirname(os.path.dirname(os.path.abspath(__file__)))
COQ = os.path.join(VERIF, 'coq')
GEN = os.path.join(COQ, 'gen')
BUILD = os.path.join(VERIF, 'build')
REPO = os.environ.get('VERIF_REPO') or '/repo'
QFLAGS = ['-Q', 'Base', 'ML', '-Q', 'Model', 'ML', '-Q', 'Proofs', 'ML', '-Q', 'Properties', 'ML',
          '-Q', 'gen', 'MLgen', '-w', '-notation-overridden,-deprecated-syntactic-definition,-deprecated-hint-without-locality,-abstract-large-number']

STD_AXIOMS = {
    'ClassicalDedekindReals.sig_not_dec', 'ClassicalDedekindReals.sig_forall_dec',
    'FunctionalExtensionality.functional_extensionality_dep', 'Classical_Prop.classic',
    'Eqdep.Eq_rect_eq.eq_rect_eq', 'JMeq.JMeq_eq', 'ProofIrrelevance.proof_irrelevance',
    'ClassicalEpsilon.constructive_indefinite_description',
    'PropExtensionality.propositional_extensionality',
}


# ----------------------------------------------------------------------------- locking / running
class Lock:
  def __init__(self, name='coq'):
    os.makedirs(BUILD, exist_ok=True)
    self.path = os.path.join(BUILD, '.%s.lock' % name)

  def __enter__(self):
    self.f = open(self.path, 'w')
    fcntl.flock(self.f, fcntl.LOCK_EX)
    return self

  def __exit__(self, *a):
    fcntl.flock(self.f, fcntl.LOCK_UN)
    self.f.close()


def run(cmd, cwd=None, timeout=1200, env=None):
  try:
    p = subprocess.run(cmd, cwd=cwd, stdout=subprocess.PIPE, stderr=subprocess.STDOUT, timeout=timeout,
                       env=env, text=True)
    return p.returncode, p.stdout
  except subprocess.TimeoutExpired as e:
    return 124, (e.stdout or '') + '\nTIMEOUT'


# ----------------------------------------------------------------------------- translators
def translators():
  """name -> (callable producing the text, properties that depend on it)"""
  import translate_query
  import translate_init
  out = {'Src_query': lambda: translate_query.translate(os.path.join(REPO, 'metric_learn', 'base_metric.py')),
         'Src_init': lambda: translate_init.translate(REPO)}
  import translate_prepare
  out['Src_prepare'] = lambda: translate_prepare.translate(REPO)
  import translate_supervised
  out['Src_supervised'] = lambda: translate_supervised.translate(REPO)
  import translate_itml
  out['Src_itml'] = lambda: translate_itml.translate(REPO)
  import translate_lsml
  out['Src_lsml'] = lambda: translate_lsml.translate(REPO)
  import translate_scml
  out['Src_scml'] = lambda: translate_scml.translate(REPO)
  import translate_mmc
  out['Src_mmc'] = lambda: translate_mmc.translate(REPO)
  import translate_sdml
  out['Src_sdml'] = lambda: translate_sdml.translate(REPO)
  import translate_rca
  out['Src_rca'] = lambda: translate_rca.translate(REPO)
  import translate_psd
  out['Src_psd'] = lambda: translate_psd.translate(REPO)
  import translate_nca
  out['Src_nca'] = lambda: translate_nca.translate(REPO)
  import translate_calib
  out['Src_calib'] = lambda: translate_calib.translate(REPO)
  import translate_lfda
  out['Src_lfda'] = lambda: translate_lfda.translate(REPO)
  import translate_mlkr
  out['Src_mlkr'] = lambda: translate_mlkr.translate(REPO)
  import translate_pins
  out['Src_pins'] = lambda: translate_pins.translate(REPO)
  try:
    import translate_all
    out.update(translate_all.TRANSLATORS)
  except ImportError:
    pass
  return out


PARTIAL = {}   # translator name -> {unit: reason}: units the translator left out (their dependents do not compile)


def regenerate():
  """re-run every translator on /repo's working tree.  Returns {name: None | error string}."""
  os.makedirs(GEN, exist_ok=True)
  status = {}
  PARTIAL.clear()
  for name, fn in translators().items():
    path = os.path.join(GEN, name + '.v')
    try:
      text = fn()
    except Exception as e:  # fail closed: no stale file may survive
      status[name] = "%s: %s" % (type(e).__name__, e)
      for ext in ('.v', '.vo', '.glob', '.vok', '.vos'):
        try:
          os.remove(os.path.join(GEN, name + ext))
        except OSError:
          pass
      continue
    old = open(path).read() if os.path.exists(path) else None
    if old != text:
      with open(path, 'w') as f:
        f.write(text)
    status[name] = None
    mod = sys.modules.get('translate_' + name[4:])
    if mod is not None and getattr(mod, 'FAILED', None):
      PARTIAL[name] = dict(mod.FAILED)
  return status


def write_coqproject():
  files = []
  for sub in ('Base', 'Model', 'Proofs', 'Properties'):
    files += sorted(glob.glob(os.path.join(COQ, sub, '*.v')))
  files += sorted(glob.glob(os.path.join(GEN, 'Src_*.v')))
  rel = [os.path.relpath(f, COQ) for f in files]
  text = ("-Q Base ML\n-Q Model ML\n-Q Proofs ML\n-Q Properties ML\n-Q gen MLgen\n"
          "-arg -w -arg -notation-overridden,-deprecated-syntactic-definition,-deprecated-hint-without-locality,-abstract-large-number\n"
          + "\n".join(rel) + "\n")
  path = os.path.join(COQ, '_CoqProject')
  old = open(path).read() if os.path.exists(path) else None
  changed = old != text
  if changed:
    with open(path, 'w') as f:
      f.write(text)
  return changed


def make(targets, jobs=16, timeout=1500):
  """(re)build the given .vo targets and whatever they depend on"""
  changed = write_coqproject()
  if changed or not os.path.exists(os.path.join(COQ, 'Makefile')):
    rc, out = run(['coq_makefile', '-f', '_CoqProject', '-o', 'Makefile'], cwd=COQ)
    if rc != 0:
      return rc, out
  return run(['make', '-j%d' % jobs] + targets, cwd=COQ, timeout=timeout)


def audit_grep():
  pat = re.compile(r'\b(Admitted|admit|Axiom|Axioms|Parameter|Parameters|Conjecture|Conjectures)\b|Unset Guard|bypass_check|type-in-type|impredicative-set|Admit Obligations')
  bad = []
  for sub in ('Base', 'Model', 'Proofs', 'Properties', 'gen'):
    for f in sorted(glob.glob(os.path.join(COQ, sub, '*.v'))):
      text = open(f).read()
      text = re.sub(r'\(\*.*?\*\)', '', text, flags=re.S)
      for i, line in enumerate(text.split('\n'), 1):
        if pat.search(line):
          bad.append("%s:%d: %s" % (os.path.relpath(f, COQ), i, line.strip()))
  return bad


# ----------------------------------------------------------------------------- numbers -> Gallina
def fhex(x):
  """float -> Coq PrimFloat literal"""
  x = float(x)
  if math.isnan(x):
    return "PrimFloat.nan"
  if math.isinf(x):
    return "PrimFloat.infinity" if x > 0 else "PrimFloat.neg_infinity"
  h = x.hex()
  if h.startswith('-'):
    return "(-%s)%%float" % h[1:]
  return "(%s)%%float" % h


def qdy(x):
  """finite float (or int / Fraction with power-of-two denominator) -> exact dyadic rational literal"""
  if isinstance(x, np.floating):
    x = float(x)               # (float32 / float16 values are exactly representable in binary64)
  elif isinstance(x, np.integer):
    x = int(x)
  fr = Fraction(x)
  n, dn = fr.numerator, fr.denominator
  e = dn.bit_length() - 1
  assert dn == 1 << e
  if n != 0 and e == 0:
    while n % 2 == 0:
      n //= 2
      e -= 1
  return "(dy (%d) (%d))" % (n, -e)


def qopt(x):
  x = float(x)
  if not math.isfinite(x):
    return "None"
  return "(Some %s)" % qdy(x)


def glist(items):
  return "[" + "; ".join(items) + "]"


def gvec(v, f=fhex):
  return glist([f(x) for x in np.asarray(v).ravel()])


def gmat(M, f=fhex):
  return glist([gvec(r, f) for r in np.asarray(M)])


def gtup(T, f=fhex):
  return glist([gmat(t, f) for t in np.asarray(T)])


def gzlist(zs):
  return glist(["(%d)%%Z" % int(z) for z in zs])


def gnlist(ns):
  return glist(["%d%%nat" % int(z) for z in ns])


def gbool(b):
  return "true" if b else "false"


# ----------------------------------------------------------------------------- context
class Ctx:
  def __init__(self, prop, tier, seed):
    self.prop = prop
    self.tier = tier
    self.seed = seed
    self.rng = np.random.default_rng(seed)
    self.t0 = time.time()
    self.sub = {}            # sub_check -> dict(evaluations, failures, skipped)
    self.samples = []
    self.obligations = []    # (name, ok)
    self.assumptions = []
    self.trusted = []
    self.broken = []         # dicts: kind ('obligation'|'correspondence'|'translator'), name, detail
    self.found = []          # dicts: sub_check, site, input, observed, expected  (concrete failing inputs)
    self.hashes = set()
    self.nontrivial = 0
    self.rule = ''
    self.notes = []
    self.dist = {}
    self.rundir = os.path.join(BUILD, 'run-%s-%d' % (prop, os.getpid()))
    os.makedirs(self.rundir, exist_ok=True)
    self.checker_cmd = ''

  # ---- bookkeeping
  def count(self, sub, n=1, failures=0, skipped=0):
    d = self.sub.setdefault(sub, dict(evaluations=0, failures=0, skipped=0))
    d['evaluations'] += n
    d['failures'] += failures
    d['skipped'] += skipped

  def seen(self, obj, nontrivial=True):
    """count distinct non-trivial cases by hashing a canonical form"""
    h = hashlib.sha1(repr(obj).encode()).hexdigest()
    if h in self.hashes:
      return False
    self.hashes.add(h)
    if nontrivial:
      self.nontrivial += 1
    return True

  def hist(self, key, val):
    d = self.dist.setdefault(key, {})
    d[str(val)] = d.get(str(val), 0) + 1

  def sample(self, obj, limit=4):
    if len(self.samples) < limit:
      self.samples.append(obj)

  def fail_input(self, sub_check, site, input, observed=None, expected=None):
    self.count(sub_check, 0, failures=1)
    self.found.append(dict(sub_check=sub_check, site=site, input=input, observed=observed, expected=expected))

  def break_tie(self, kind, name, detail):
    self.broken.append(dict(kind=kind, name=name, detail=str(detail)[-3000:]))

  # ---- Coq: property file
  def build_property(self, gen_needed=(), case_libs=('Model/CaseDefs.vo',)):
    """regenerate translated sources, build, compile Properties/<prop>.v; records obligations.
    Returns whether the case libraries are available (self.property_ok says whether the obligations hold)."""
    self.property_ok = True
    r = self._build_property(gen_needed, case_libs)
    if not r:
      self.property_ok = False
    return r

  def _build_property(self, gen_needed=(), case_libs=('Model/CaseDefs.vo',)):
    prop_v = os.path.join(COQ, 'Properties', self.prop + '.v')
    thms = lemma_closure(prop_v)
    self.checker_cmd = "cd /verif/coq && make Properties/%s.vo (coqc 8.16.1, full .vo build) ; coqc Properties/%s.v" % (self.prop, self.prop)
    with Lock():
      status = regenerate()
      bad_gen = [g for g in gen_needed if status.get(g) is not None]
      for g in bad_gen:
        self.break_tie('translator', g, status[g])
      if bad_gen:
        self.obligations = [(t, False) for t in thms]
        # the case libraries may not need the untranslatable file: if they build, the correspondence cases still run
        self.property_ok = False
        rc2, out2 = make(list(case_libs))
        return rc2 == 0
      rc, out = make(['Properties/%s.vo' % self.prop] + list(case_libs))
      if rc != 0:
        self.obligations = [(t, False) for t in thms]
        m = re.findall(r'File "([^"]+)", line (\d+)[^\n]*\n(Error:[^\n]*(?:\n[^\n]+){0,6})', out)
        where = "; ".join("%s:%s %s" % (os.path.basename(f), l, e.replace('\n', ' ')[:300]) for f, l, e in m[:2])
        for g, units in PARTIAL.items():
          for u, why in units.items():
            self.break_tie('translator', '%s: %s' % (g, u), "not in the translated subset (definition left out of gen/%s.v): %s" % (g, why))
        try:
          import translate_pins
          pdiff = translate_pins.diff_report(REPO, self.prop)
        except Exception:
          pdiff = ''
        if pdiff and 'Pins%s' % self.prop in out:
          self.break_tie('obligation', 'Proofs/Pins%s.v: a function this property\'s hand-written model was written from has changed' % self.prop, pdiff)
        self.break_tie('obligation', 'Properties/%s.v (or a lemma it depends on)' % self.prop, where or out[-1500:])
        # the obligations are broken (recorded above: the verdict is a violation whatever follows); the executable model and the
        # certificate checkers may still build, in which case the correspondence cases are run all the same -- they are the
        # sharpest oracle for finding the failing input
        self.property_ok = False
        rc2, out2 = make(list(case_libs))
        return rc2 == 0
      # recompile the property file itself to capture Print Assumptions
      rc, out = run(['coqc'] + QFLAGS + ['Properties/%s.v' % self.prop], cwd=COQ, timeout=600)
    if rc != 0:
      self.obligations = [(t, False) for t in thms]
      self.break_tie('obligation', 'Properties/%s.v' % self.prop, out[-1500:])
      return False
    self.obligations = [(t, True) for t in thms]
    for g, units in PARTIAL.items():
      for u, why in units.items():
        self.notes.append("translator %s left out %s (%s); nothing this property's theorems or cases use depends on it" % (g, u, why))
    self.assumptions = parse_assumptions(out)
    extra = [a for a in self.assumptions if a not in STD_AXIOMS]
    if extra:
      self.break_tie('obligation', 'axiom audit', "non-standard-library axioms: %s" % extra)
      return False
    return True

  # ---- Coq: case files
  def run_cases(self, name, header, cases, per_file=300, timeout=900):
    """cases: list of Gallina boolean terms.  Returns list of bools (None when a file failed)."""
    if not cases:
      return []
    files = []
    for k in range(0, len(cases), per_file):
      chunk = cases[k:k + per_file]
      fn = os.path.join(self.rundir, 'Cases_%s_%d.v' % (name, k // per_file))
      with open(fn, 'w') as f:
        f.write(header + "\n")
        f.write("Definition results : list bool :=\n  [ %s ].\n" % "\n  ; ".join(chunk))
        f.write("Definition bad_indices (l : list bool) : list nat :=\n"
                "  map fst (filter (fun p => negb (snd p)) (combine (seq 0 (length l)) l)).\n")
        f.write("Eval vm_compute in (length results, bad_indices results).\n")
      files.append((fn, k, len(chunk)))

    def one(job):
      fn, k, n = job
      rc, out = run(['coqc'] + QFLAGS + ['-Q', self.rundir, 'MLcases', fn], cwd=COQ, timeout=timeout)
      return job, rc, out

    res = [None] * len(cases)
    with ThreadPoolExecutor(max_workers=12) as ex:
      for (fn, k, n), rc, out in ex.map(one, files):
        flat = " ".join(out.split())
        m = re.search(r'= \((\d+)(?:%nat)?, (?:\[([^\]]*)\]|nil)(?:%list)?\)', flat)
        if rc != 0 or not m or int(m.group(1)) != n:
          self.break_tie('correspondence', name, "case file %s did not evaluate: %s" % (os.path.basename(fn), out[-800:]))
          continue
        bad = set(int(x.replace('%nat', '')) for x in (m.group(2) or '').replace(' ', '').split(';') if x)
        for i in range(n):
          res[k + i] = i not in bad
    return res

  # ---- verdict
  def finish(self):
    known = load_known()
    wall = time.time() - self.t0
    lines = []
    violations = []
    # concrete failing inputs
    for f in self.found:
      kf = match_known(known, self.prop, f['sub_check'], f['site'])
      if kf is not None:
        lines.append("KNOWN-FINDING: property=%s %s: %s" % (self.prop, f['sub_check'], kf['what']))
      else:
        violations.append(('input', f))
    # broken ties without a concrete input
    if self.broken and not any(k == 'input' for k, _ in violations):
      # a broken tie whose every disagreement is a known finding is not a new violation
      unexplained = [b for b in self.broken if not b.get('explained_by_known')]
      for b in unexplained:
        violations.append(('obligation', b))
    seen_kf = set()
    for l in lines:
      if l not in seen_kf:
        print(l)
        seen_kf.add(l)
    rc = 0
    if violations:
      rc = 1
      os.makedirs(os.path.join(VERIF, 'replays'), exist_ok=True)
      have_input = [v for k, v in violations if k == 'input']
      path = os.path.join(VERIF, 'replays', '%s-%d-%d.json' % (self.prop, self.seed, int(time.time())))
      payload = dict(property=self.prop, seed=self.seed, tier=self.tier,
                     kind='input' if have_input else 'obligation',
                     failing_inputs=have_input[:10], broken=self.broken[:10])
      with open(path, 'w') as f:
        json.dump(payload, f, indent=1, default=jdefault)
      if have_input:
        print("VIOLATION property=%s replay=%s" % (self.prop, path))
      else:
        print("VIOLATION property=%s replay=%s no-failing-input-found" % (self.prop, path))
    self.write_evidence(wall, len(violations))
    shutil.rmtree(self.rundir, ignore_errors=True)
    return rc

  def write_evidence(self, wall, nviol):
    evals = sum(d['evaluations'] for d in self.sub.values())
    ob = len(self.obligations)
    dis = sum(1 for _, ok in self.obligations if ok)
    cov = dict(
        obligations=max(ob, 1), discharged=dis if ob else 0,
        checker_cmd=self.checker_cmd or 'coqc',
        trusted_base=self.trusted + ["Print Assumptions: " + (", ".join(self.assumptions) or "Closed under the global context")],
        explanation="proof obligations not discharged on this run: see 'broken'" if dis == 0 else "all obligations discharged",
        evaluations=max(evals, 1), distinct_nontrivial=self.nontrivial,
        rule=self.rule, samples=self.samples or [dict(note='no case generated')],
        sub_checks=self.sub, input_distribution=self.dist,
        theorems=[t for t, _ in self.obligations],
        broken=self.broken, notes=self.notes)
    if dis == 0:   # nothing was proved on this run: do not present proof keys
      del cov['obligations'], cov['discharged']
      cov['distinct_nontrivial'] = max(cov['distinct_nontrivial'], 2) if evals >= 2 else cov['distinct_nontrivial']
    ev = dict(property_id=self.prop, tier=self.tier, seed=self.seed, level='proof', coverage=cov,
              assumptions=self.trusted, wall_s=round(wall, 2), violations=nviol)
    os.makedirs(os.path.join(VERIF, 'evidence'), exist_ok=True)
    with open(os.path.join(VERIF, 'evidence', self.prop + '.json'), 'w') as f:
      json.dump(ev, f, indent=1, default=jdefault)


def lemma_closure(prop_v):
  """names of every Theorem/Lemma/Example in the property file and in the files of this
  development that it (transitively) requires: all of them are re-checked by the build"""
  seen, todo, names = set(), [prop_v], []
  index = {}
  for sub in ('Base', 'Model', 'Proofs', 'Properties', 'gen'):
    for f in glob.glob(os.path.join(COQ, sub, '*.v')):
      index[os.path.basename(f)[:-2]] = f
  while todo:
    f = todo.pop()
    if f in seen or not os.path.exists(f):
      continue
    seen.add(f)
    text = re.sub(r'\(\*.*?\*\)', '', open(f).read(), flags=re.S)
    base = os.path.basename(f)[:-2]
    for nm in re.findall(r'^\s*(?:Theorem|Lemma|Example|Corollary)\s+(\w+)', text, flags=re.M):
      names.append(base + '.' + nm)
    for m in re.finditer(r'From\s+(?:ML|MLgen)\s+Require\s+(?:Import|Export)?\s*([^.]*)\.', text):
      for mod in m.group(1).split():
        if mod in index:
          todo.append(index[mod])
  return sorted(names)


def jdefault(o):
  if isinstance(o, np.ndarray):
    return o.tolist()
  if isinstance(o, (np.integer,)):
    return int(o)
  if isinstance(o, (np.floating,)):
    return float(o)
  if isinstance(o, (np.bool_,)):
    return bool(o)
  if isinstance(o, Fraction):
    return str(o)
  return repr(o)


def parse_assumptions(out):
  ax = []
  for m in re.finditer(r'^([A-Za-z_][\w\.]*)\s*(?::|$)', out, flags=re.M):
    nm = m.group(1)
    if '.' in nm and nm not in ax and not nm.startswith('File'):
      ax.append(nm)
  return ax


def load_known():
  p = os.path.join(VERIF, 'known_findings.json')
  if not os.path.exists(p):
    return []
  return json.load(open(p)).get('findings', [])


def match_known(known, prop, sub_check, site):
  for k in known:
    if k.get('status') == 'known' and k['property'] == prop and k['sub_check'] == sub_check \
        and k['site'] == site:
      return k
  return None


def impl_python_ok():
  import metric_learn
  if not os.path.realpath(metric_learn.__file__).startswith(REPO + '/'):
    raise RuntimeError("metric_learn imported from %s, not from /repo" % metric_learn.__file__)
