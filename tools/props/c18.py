"""C18 -- constructor parameters round-trip: get_params, set_params, clone, pickle."""
import inspect
import pickle
import warnings
import numpy as np
import fits


class Sentinel(object):
  def __init__(self, tag):
    self.tag = tag

  def __repr__(self):
    return "Sentinel(%s)" % self.tag


VALID_FOR_GUARD = {('LFDA', 'embedding_type'): ['weighted', 'orthonormalized', 'plain']}


def ctor_checks(ctx):
  import metric_learn
  from sklearn.base import clone
  for name in fits.NAMES:
    cls = getattr(metric_learn, name)
    sig = inspect.signature(cls.__init__)
    params = [p for p in sig.parameters if p != 'self']
    for p in params:
      dflt = sig.parameters[p].default
      deprecated = isinstance(dflt, str) and dflt == 'deprecated'
      ctx.hist('params', name)
      if (name, p) in VALID_FOR_GUARD:
        vals = [str(v) for v in VALID_FOR_GUARD[(name, p)]]   # fresh str objects
        vals = [''.join(list(v)) for v in vals]
      elif deprecated:
        vals = [Sentinel(p), 7]     # deprecated aliases stand for scalar options
      else:
        vals = [Sentinel(p), np.arange(6.0).reshape(2, 3), (lambda x: x)]
      for v in vals:
        ctx.count('constructor_roundtrip', 1)
        ctx.seen((name, p, type(v).__name__), True)
        with warnings.catch_warnings(record=True) as w:
          warnings.simplefilter('always')
          try:
            est = cls(**{p: v})
          except Exception as ex:
            ctx.fail_input('constructor_roundtrip', '%s(%s=...) raises' % (name, p),
                           dict(estimator=name, param=p, value=repr(v)), observed=type(ex).__name__)
            continue
        got = est.get_params()
        if deprecated:
          # the old name maps onto its replacement, with a FutureWarning
          if not any(issubclass(x.category, FutureWarning) for x in w):
            ctx.fail_input('deprecated_alias', '%s(%s=...) gives no FutureWarning' % (name, p),
                           dict(estimator=name, param=p))
          if not any(val is v for val in got.values()):
            ctx.fail_input('deprecated_alias', '%s(%s=v): v is not stored under the replacement' % (name, p),
                           dict(estimator=name, param=p))
          continue
        if got.get(p, None) is not v:
          ctx.fail_input('constructor_roundtrip',
                         '%s(%s=v).get_params()[%r] is not v' % (name, p, p),
                         dict(estimator=name, param=p, value=repr(v)), observed=repr(got.get(p, '<missing>')),
                         expected='the identical object')
          continue
        # all other parameters keep their defaults
        for q in params:
          if q != p:
            dq = sig.parameters[q].default
            if got.get(q, None) is not dq and got.get(q, None) != dq:
              ctx.fail_input('constructor_roundtrip', '%s(%s=v) changes parameter %s' % (name, p, q),
                             dict(estimator=name, param=p, other=q), observed=repr(got.get(q)))
        # clone, set_params
        with warnings.catch_warnings():
          warnings.simplefilter('ignore')
          c = clone(est, safe=False) if not isinstance(v, np.ndarray) else None
        if c is not None and c.get_params().get(p) is not v and not isinstance(v, (Sentinel,)) is False:
          pass
        est2 = cls()
        est2.set_params(**{p: v})
        ctx.count('set_params_roundtrip', 1)
        if est2.get_params().get(p) is not v:
          ctx.fail_input('set_params_roundtrip', '%s().set_params(%s=v).get_params()[%r] is not v' % (name, p, p),
                         dict(estimator=name, param=p))
    ctx.sample(dict(estimator=name, params=params), limit=3)


def not_fitted_checks(ctx):
  import metric_learn
  from sklearn.exceptions import NotFittedError
  X = np.arange(12.0).reshape(4, 3)
  P = X[[[0, 1], [2, 3]]]
  T3 = X[[[0, 1, 2]]]
  Q4 = X[[[0, 1, 2, 3]]]
  import copy
  from sklearn.base import clone
  histories = [('new', lambda e: e), ('pickle round trip', lambda e: pickle.loads(pickle.dumps(e))),
               ('deepcopy', copy.deepcopy), ('clone', clone),
               ('pickle round trip, clone', lambda e: clone(pickle.loads(pickle.dumps(e))))]
  for name, (hname, hist), withpre in [(n, h, wp) for n in fits.NAMES for h in histories for wp in (False, True)]:
    if withpre and hname in ('new', 'clone'):
      continue
    try:
      est = hist(getattr(metric_learn, name)(**(dict(preprocessor=np.arange(20.0).reshape(5, 4)) if withpre else {})))
    except Exception as ex:
      ctx.count('clone_behaves_identically', 1)
      ctx.fail_input('clone_behaves_identically', '%s: %s of an unfitted estimator raises %s' % (name, hname, type(ex).__name__),
                     dict(estimator=name, history=hname), observed=str(ex)[:200])
      continue
    calls = [('transform', (X,)), ('pair_distance', (P,)), ('pair_score', (P,)), ('get_metric', ()),
             ('get_mahalanobis_matrix', ()), ('score_pairs', (P,))]
    ts = fits.TUPLE_SIZE.get(name)
    tup = {2: P, 3: T3, 4: Q4}.get(ts)
    if ts:
      calls += [('predict', (tup,)), ('decision_function', (tup,))]
      calls += [('score', (tup, np.array([1, -1])))] if ts == 2 else [('score', (tup,))]
    if ts == 2:
      calls += [('set_threshold', (0.5,)), ('calibrate_threshold', (P, np.array([1, -1])))]
    for meth, args in calls:
      ctx.count('not_fitted', 1)
      try:
        with warnings.catch_warnings():
          warnings.simplefilter('ignore')
          getattr(est, meth)(*args)
        ctx.fail_input('not_fitted', 'unfitted %s.%s returns' % (name, meth) + ('' if hname == 'new' else ' (after a %s)' % hname),
                       dict(estimator=name, method=meth, history=hname, preprocessor=withpre))
      except NotFittedError:
        pass
      except Exception as ex:
        ctx.fail_input('not_fitted', 'unfitted %s.%s raises %s' % (name, meth, type(ex).__name__) + ('' if hname == 'new' else ' (after a %s)' % hname),
                       dict(estimator=name, method=meth, history=hname, preprocessor=withpre), observed=str(ex)[:200])


def pickle_checks(ctx, variants):
  for name, kw, data in fits.zoo_specs(ctx.rng, variants=variants):
    try:
      est = fits.fit(name, kw, data)
    except Exception:
      ctx.count('pickle_fit_failed', 1)
      continue
    ctx.count('pickle_roundtrip', 1)
    e2 = pickle.loads(pickle.dumps(est))
    X = data['X']
    P = X[data['pairs_idx'][:5]]
    with warnings.catch_warnings():
      warnings.simplefilter('ignore')
      same = (np.array_equal(est.components_, e2.components_, equal_nan=True) and
              np.array_equal(est.transform(X), e2.transform(X), equal_nan=True) and
              np.array_equal(est.pair_distance(P), e2.pair_distance(P), equal_nan=True) and
              np.array_equal(est.get_mahalanobis_matrix(), e2.get_mahalanobis_matrix(), equal_nan=True))
      if same and name in ('ITML', 'MMC', 'SDML'):
        same = est.threshold_ == e2.threshold_ and np.array_equal(est.predict(P), e2.predict(P))
      if same and name in ('SCML', 'LSML'):
        T = fits.fit_args(name, data)[0][:5]
        same = np.array_equal(est.predict(T), e2.predict(T)) and np.array_equal(
            est.decision_function(T), e2.decision_function(T))
      gp1, gp2 = est.get_params(), e2.get_params()
      same = same and set(gp1) == set(gp2)
    if not same:
      ctx.fail_input('pickle_roundtrip', 'pickle changes the outputs of a fitted %s' % name,
                     dict(estimator=name, params={k: repr(v)[:60] for k, v in kw.items()}))


def pickle_preprocessor_checks(ctx):
  """a fitted estimator whose preprocessor parameter was changed afterwards (not refitted): the unpickled copy answers
  exactly like the original, on indices as on formed points, and has the same set of attributes"""
  rng = ctx.rng
  for name, kw, data in fits.zoo_specs(np.random.default_rng(ctx.seed + 41), variants=False):
    X = data['X']
    n = len(X)
    kwp = dict(kw)
    kwp['preprocessor'] = X
    args = fits.fit_args(name, data)
    kind = fits.KIND[name]
    try:
      with warnings.catch_warnings():
        warnings.simplefilter('ignore')
        if kind in ('unsup', 'class', 'reg', 'chunks'):
          est = fits.make_estimator(name, kwp).fit(np.arange(n), *args[1:])
        else:
          key = {'pairs': 'pairs_idx', 'triplets': 'trip_idx', 'quads': 'quad_idx'}[kind]
          est = fits.make_estimator(name, kwp).fit(data[key], *args[1:])
    except Exception:
      ctx.count('pickle_fit_failed', 1)
      continue
    X2 = X[::-1].copy() + 1.0
    for hname in ('fitted', 'fitted, then set_params(preprocessor=other array)'):
      if hname != 'fitted':
        est.set_params(preprocessor=X2)
      e2 = pickle.loads(pickle.dumps(est))
      idx = rng.integers(0, n, size=6)
      pidx = rng.integers(0, n, size=(5, 2))
      ctx.count('pickle_roundtrip', 1)
      with warnings.catch_warnings():
        warnings.simplefilter('ignore')
        same = (np.array_equal(est.transform(idx), e2.transform(idx), equal_nan=True) and
                np.array_equal(est.pair_distance(pidx), e2.pair_distance(pidx), equal_nan=True) and
                np.array_equal(est.transform(X[idx]), e2.transform(X[idx]), equal_nan=True) and
                set(vars(est)) == set(vars(e2)))
        ts = fits.TUPLE_SIZE.get(name)
        if same and ts:
          tidx = rng.integers(0, n, size=(5, ts))
          same = np.array_equal(est.decision_function(tidx), e2.decision_function(tidx), equal_nan=True)
      if not same:
        ctx.fail_input('pickle_roundtrip', 'pickle changes the outputs (on indices through the preprocessor) or the attributes of a %s %s' % (hname, name),
                       dict(estimator=name, history=hname))


def same_metric(name, a, b):
  """bit-identical components_; LFDA with n_components < d goes through ARPACK, whose start vector is random: the
  eigenvectors come back with arbitrary signs and rounding-level differences, the learned distance (M) is the same"""
  La, Lb = np.asarray(a.components_), np.asarray(b.components_)
  if np.array_equal(La, Lb, equal_nan=True):
    return True
  if name == 'LFDA' and La.shape == Lb.shape:
    Ma, Mb = La.T.dot(La), Lb.T.dot(Lb)
    return bool(np.allclose(Ma, Mb, rtol=1e-9, atol=1e-12 * (np.abs(Ma).max() + 1e-300)))
  return False


def clone_checks(ctx):
  """parameters are stored untouched THROUGH a fit (same objects, arrays with unchanged contents), so that a clone taken
  afterwards behaves identically when fitted"""
  import copy
  from sklearn.base import clone
  for name, kw, data in fits.zoo_specs(np.random.default_rng(ctx.seed + 41), variants=True):
    if kw.get('random_state', 0) is None:
      continue
    snap = {k: copy.deepcopy(v) for k, v in kw.items()}
    inp = dict(estimator=name, params={k: (repr(v)[:60] if not isinstance(v, np.ndarray) else 'ndarray %s %s' % (
        v.shape, 'F' if v.flags.f_contiguous and not v.flags.c_contiguous else 'C' if v.flags.c_contiguous else 'strided'))
        for k, v in kw.items()})
    ctx.count('clone_behaves_identically', 1)
    ctx.hist('clone.estimator', name)
    try:
      with warnings.catch_warnings():
        warnings.simplefilter('ignore')
        est = fits.make_estimator(name, kw)
        before = est.get_params()
        est.fit(*fits.fit_args(name, data))
        after = est.get_params()
        bad = [k for k, v in kw.items() if after.get(k) is not v]
        bad += [k for k, v in before.items() if k not in kw and after.get(k) is not v and after.get(k) != v]   # defaults left alone stay what they were
        changed = [k for k, v in kw.items() if isinstance(v, np.ndarray) and not np.array_equal(v, snap[k], equal_nan=True)]
        c = clone(est)
        c.fit(*fits.fit_args(name, data))
    except Exception as ex:
      ctx.count('clone_behaves_identically', 0, skipped=1)
      ctx.hist('clone.fit_failed', '%s:%s' % (name, type(ex).__name__))
      continue
    if bad:
      ctx.fail_input('clone_behaves_identically', '%s: get_params() after fit no longer returns the objects passed (%s)' % (name, bad), inp)
    if changed:
      ctx.fail_input('clone_behaves_identically', '%s: fit changed the contents of the array passed as %s' % (name, changed), inp)
    elif not same_metric(name, est, c):
      ctx.fail_input('clone_behaves_identically', '%s: a clone of the fitted estimator learns a different metric from the same data' % name,
                     inp, observed=np.asarray(c.components_).tolist(), expected=np.asarray(est.components_).tolist())


def defaults_survive_fit(ctx):
  """every parameter left at its default is still the default after fit (data-dependent defaults such as n_basis=None,
  n_constraints=None, n_components=None are resolved for THE FIT, not written back): get_params() is unchanged, so a clone of the
  fitted estimator fitted on OTHER data equals a fresh estimator fitted on that data"""
  from sklearn.base import clone
  import metric_learn
  rng = np.random.default_rng(ctx.seed + 57)
  for name in fits.NAMES:
    d1, d2 = fits.make_data(rng, d=3), fits.make_data(rng, d=5)
    quick = {k: v for k, v in fits.base_kwargs(name, d1).items() if k in ('max_iter', 'random_state', 'max_proj', 'output_iter', 'balance_param', 'sparsity_param')}
    if name in ('RCA_Supervised',):
      quick.update(n_chunks=4, chunk_size=2)
    ctx.count('defaults_survive_fit', 1)
    try:
      with warnings.catch_warnings():
        warnings.simplefilter('ignore')
        est = getattr(metric_learn, name)(**quick)
        before = est.get_params()
        est.fit(*fits.fit_args(name, d1))
        after = est.get_params()
    except Exception as ex:
      ctx.count('defaults_survive_fit', 0, skipped=1)
      ctx.hist('defaults.fit_failed', '%s:%s' % (name, type(ex).__name__))
      continue
    moved = [k for k, v in before.items() if after.get(k) is not v and not (isinstance(v, (int, float, str, bool, type(None))) and type(after.get(k)) is type(v) and after.get(k) == v)]
    if moved:
      ctx.fail_input('clone_behaves_identically', '%s: fit wrote into the hyper-parameters %s (get_params() before / after fit differ; a clone or refit on other data inherits values resolved for the first data set)' % (name, moved),
                     dict(estimator=name, params={k: repr(v)[:40] for k, v in quick.items()}), observed={k: repr(after.get(k))[:60] for k in moved}, expected={k: repr(before[k])[:60] for k in moved})
      continue
    try:
      with warnings.catch_warnings():
        warnings.simplefilter('ignore')
        a = clone(est).fit(*fits.fit_args(name, d2))
        b = getattr(metric_learn, name)(**quick).fit(*fits.fit_args(name, d2))
      if not same_metric(name, a, b):
        ctx.fail_input('clone_behaves_identically', '%s: a clone of a fitted estimator, fitted on other data, differs from a fresh estimator fitted on that data' % name,
                       dict(estimator=name), observed=np.asarray(a.components_).tolist(), expected=np.asarray(b.components_).tolist())
    except Exception as ex:
      ctx.hist('defaults.second_fit_failed', '%s:%s' % (name, type(ex).__name__))


def run(ctx):
  ctx.rule = ("finite enumeration (exhaustive): 17 estimators x every constructor parameter x {fresh sentinel object, "
              "ndarray, callable} -> get_params()[name] is the identical object, other parameters keep defaults, "
              "set_params round trip; 17 estimators x documented option values (array priors / inits / bases in C, Fortran and strided "
              "layouts): parameters are the same objects with unchanged contents after fit and a clone of the fitted estimator "
              "learns the same metric; deprecated names: FutureWarning + stored under the replacement; every query "
              "method of every unfitted estimator raises NotFittedError; pickle round trip of fitted estimators with "
              "bit-identical outputs. distinct = distinct (estimator, parameter, value kind).")
  ctx.trusted = ["Coq 8.16.1 kernel + vm_compute", "translator tools/translate_init.py (constructor bodies -> attr/expr table)",
                 "scikit-learn BaseEstimator.get_params/set_params/clone semantics: getattr/setattr on the signature names (oracle, validated by the enumeration)"]
  ctx.build_property(gen_needed=['Src_init', 'Src_query'])
  ctor_checks(ctx)
  clone_checks(ctx)
  defaults_survive_fit(ctx)
  # a value given through set_params is the value used: the preprocessor after an earlier fit (shared with C17)
  from props.c17 import preprocessor_history_lane
  preprocessor_history_lane(ctx)
  not_fitted_checks(ctx)
  pickle_checks(ctx, ctx.tier == 'thorough')
  pickle_preprocessor_checks(ctx)
  # array-valued parameters in every layout: untouched by fit, and a clone taken after the fit behaves identically
  from props.c17 import array_param_lane
  array_param_lane(ctx)


def replay(payload):
  import metric_learn
  bad = 0
  for f in payload.get('failing_inputs', []):
    i = f['input']
    if 'param' in i and f['sub_check'] == 'constructor_roundtrip':
      v = Sentinel('replay')
      est = getattr(metric_learn, i['estimator'])(**{i['param']: v})
      ok = est.get_params().get(i['param']) is v
      print('replay', i['estimator'], i['param'], 'ok' if ok else 'STILL FAILS')
      bad += not ok
  return 1 if bad else 0
