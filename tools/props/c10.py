"""C10 -- gradient-based learners optimise the objective they document."""
import warnings
import numpy as np
import fits
from vcore import fhex, glist, gvec, gmat, gzlist, gnlist
from props.c20 import HEADER


# ---- independent NumPy evaluations of the documented objectives (used for gradients / replays)
def kernel_doc(L, X):
  """e_ij / sum_k e_ik with e_ij = exp(-|L x_i - L x_j|^2), j != i: the ratio does not change when every e_ik of a
  row is divided by the row's largest one, which keeps the evaluation finite at every scale of L"""
  Z = X.dot(L.T)
  D = np.sum((Z[:, None, :] - Z[None, :, :]) ** 2, axis=2)
  np.fill_diagonal(D, np.inf)
  E = np.exp(-(D - D.min(axis=1, keepdims=True)))
  return E / E.sum(axis=1, keepdims=True)


def nca_doc(L, X, y):
  P = kernel_doc(L, X)
  return float(np.sum(P * (y[:, None] == y[None, :])))


def mlkr_doc(L, X, y):
  yhat = kernel_doc(L, X).dot(y)
  return float(np.sum((yhat - y) ** 2))


def lmnn_targets(X, y, k):
  T = np.zeros((len(X), k), dtype=int)
  for i in range(len(X)):
    same = np.flatnonzero((y == y[i]) & (np.arange(len(X)) != i))
    dd = np.sum((X[same] - X[i]) ** 2, axis=1)
    T[i] = same[np.argsort(dd, kind='stable')[:k]]
  return T


def lmnn_doc(L, X, y, T, reg):
  Z = X.dot(L.T)
  D = np.sum((Z[:, None, :] - Z[None, :, :]) ** 2, axis=2)
  pull = sum(D[i, j] for i in range(len(X)) for j in T[i])
  push = 0.0
  for i in range(len(X)):
    for j in T[i]:
      for l in range(len(X)):
        if y[l] != y[i]:
          push += max(0.0, 1 + D[i, j] - D[i, l])
  return float(reg * pull + (1 - reg) * push)


def num_grad(f, L, h=1e-6):
  G = np.zeros_like(L)
  for a in range(L.shape[0]):
    for b in range(L.shape[1]):
      E = np.zeros_like(L)
      E[a, b] = h
      G[a, b] = (f(L + E) - f(L - E)) / (2 * h)
  return G


def run(ctx):
  from metric_learn import NCA, MLKR, LMNN
  from metric_learn import nca as nca_mod, mlkr as mlkr_mod
  from metric_learn.lmnn import _sum_outer_products
  thorough = ctx.tier == 'thorough'
  rng = ctx.rng
  ctx.rule = ("(a) the code's own loss functions (NCA._loss_grad_lbfgs, MLKR._loss, LMNN._loss_grad) called on random "
              "(L, X, y) with k x d transformations incl. low rank k < d: value compared with the documented objective "
              "evaluated in Coq on binary64 (1e-9), gradient compared with central differences of an independent evaluation, and for NCA and MLKR with the Coq gradient models of Model/NCAGrad.v (the ones C10_nca_gradient / C10_mlkr_gradient are about) on binary64; "
              "(b) fits with every init option: objective(result) not worse than objective(init) as recorded at the optimiser "
              "call, LMNN accepted objectives non-increasing, zero iterations return the initialisation.  non-trivial = more "
              "than one class / non-constant targets.")
  ctx.trusted = ["text pins tools/translate_pins.py (NCA / MLKR / LMNN fit, loss and gradient functions)", "Coq 8.16.1 kernel + vm_compute", "documented objectives Model/Objectives.v", "Base/FExp.v: exp on binary64 (accuracy ~1e-12, validated against numpy per run)",
                 "oracle: scipy L-BFGS-B; target neighbours (Euclidean k-NN within class) recomputed by brute force",
                 "gradients are certified per instance by finite differences, not by a theorem"]
  ok = ctx.build_property(gen_needed=['Src_nca', 'Src_mlkr'])
  terms, recs = [], []
  n = 90 if thorough else 24
  for i in range(n):
    kind = ['nca', 'mlkr', 'lmnn'][i % 3]
    d = int(rng.integers(2, 5))
    ncls = int(rng.integers(2, 4))
    sizes = [int(rng.integers(3, 6)) for _ in range(ncls)]
    data = fits.make_data(rng, d=d, n_classes=ncls, n_per_class=sizes, sep=1.0)
    X = fits.grid(data['X'] * 0.5, 8)
    y = data['y']
    k = int(rng.integers(1, d + 1))
    L = fits.grid(rng.standard_normal((k, d)) * 0.7, 8)
    # transformations of larger scale (raw-unit data, late optimiser iterates): embedded squared distances of several
    # hundreds, where exp(-d) underflows unless the softmax is evaluated relative to the nearest neighbour
    cscale = float([1, 1, 4, 16, 48][int(rng.integers(0, 5))]) if kind != 'lmnn' else 1.0
    if kind != 'lmnn' and (i // 3) % 3 == 1:
      # two DIFFERENT samples (other class / other target) whose embeddings coincide: they differ only along a feature the
      # transformation ignores (rank-deficient L, e.g. a truncated identity on coded features); every second time the rows are equal
      ii, jj = 0, len(X) - 1
      c0 = int(rng.integers(0, d))
      X = X.copy()
      X[jj] = X[ii]
      if (i // 9) % 2 == 0:
        X[jj, c0] += 1.0
        L = L.copy()
        L[:, c0] = 0.0
      ctx.hist('coinciding_embeddings', kind)
    L = L * cscale
    ctx.hist('scale_of_L', cscale)
    if kind == 'nca':
      est = NCA()
      est.n_iter_ = 1
      mask = y[:, None] == y[None, :]
      loss, grad = est._loss_grad_lbfgs(L.ravel(), X, mask, 1.0)
      terms.append("(c10_nca %s %s %s %s)" % (gmat(L), gmat(X), gzlist(y), fhex(loss)) if cscale == 1 else "true")
      recs.append(dict(kind=kind, L=L, X=X, y=y, loss=float(loss), grad=np.array(grad).reshape(L.shape), cscale=cscale))
      if cscale == 1 and len(X) <= 15:
        # the gradient itself against the Coq model the derivative theorem is about (Model/NCAGrad.v)
        terms.append("(c10_nca_grad %d%%nat %d%%nat %s %s %s %s %s)" % (k, d, gmat(L), gmat(X), gzlist(y), fhex(loss),
                                                              gmat(np.array(grad).reshape(L.shape))))
        recs.append(dict(kind='nca_grad', L=L, X=X, y=y, loss=float(loss), grad=np.array(grad).reshape(L.shape), cscale=cscale))
    elif kind == 'mlkr':
      est = MLKR()
      est.n_iter_ = 1
      yr = fits.grid(data['yreg'], 6)
      loss, grad = est._loss(L.ravel(), X, yr)
      terms.append("(c10_mlkr %s %s %s %s)" % (gmat(L), gmat(X), gvec(yr), fhex(loss)) if cscale == 1 else "true")
      recs.append(dict(kind=kind, L=L, X=X, y=yr, loss=float(loss), grad=np.array(grad).reshape(L.shape), cscale=cscale))
    else:
      kk = int(rng.integers(1, min(sizes)))
      reg = float(rng.choice([0.25, 0.5, 0.75]))
      est = LMNN(n_neighbors=kk, regularization=reg)
      uniq, label_inds = np.unique(y, return_inverse=True)
      est.labels_ = np.arange(len(uniq))
      T = est._select_targets(X, label_inds)
      dfG = _sum_outer_products(X, T.flatten(), np.repeat(np.arange(len(X)), kk))
      G, obj, _ = est._loss_grad(X, L, dfG, kk, reg, T, label_inds)
      Tref = lmnn_targets(X, y, kk)
      if sorted(map(tuple, np.sort(T, axis=1).tolist())) != sorted(map(tuple, np.sort(Tref, axis=1).tolist())):
        # ties between equally distant neighbours may be resolved differently: only a difference in distances matters
        dT = np.sort(np.sum((X[T] - X[:, None, :]) ** 2, axis=2), axis=1)
        dR = np.sort(np.sum((X[Tref] - X[:, None, :]) ** 2, axis=2), axis=1)
        if not np.array_equal(dT, dR):
          ctx.fail_input('lmnn_targets', 'target neighbours are not the k nearest same-class points', dict(X=X.tolist(), y=y.tolist(), k=kk))
      terms.append("(c10_lmnn %s %s %s %s %s %s)" % (fhex(reg), gmat(L), gmat(X), gzlist(y), glist([gnlist(r) for r in T]), fhex(obj)))
      recs.append(dict(kind=kind, L=L, X=X, y=y, T=T, reg=reg, loss=float(obj), grad=np.array(G)))
    ctx.seen((kind, L.tolist(), X.tolist()), True)
    ctx.hist('kind', kind)
    ctx.hist('rank', 'k<d' if k < d else 'k=d')
  # LMNN with several target neighbours on nearly separable classes whose Euclidean neighbourhoods are decided by a nuisance
  # feature that the transformation down-weights, removes or rotates away: under L the order of the target neighbours by
  # distance changes, and whole target columns have no active impostor while others do
  base = np.array([[0., 0.], [0., 3.], [2., 0.], [2., 3.], [0., 6.5], [2., 6.5]])
  for j, Lg in enumerate([np.diag([1., 0.0625]), np.array([[1., 0.]]), np.array([[0.75, 0.5], [-0.5, 0.75]]), np.diag([1., 0.25])]):
    jit = fits.grid(0.02 * rng.standard_normal((12, 2)), 10)
    Xg = np.vstack([base, base + np.array([4.0, 0.])]) + jit
    yg = np.repeat([0, 1], 6)
    pg = rng.permutation(12)
    Xg, yg = Xg[pg], yg[pg]
    kk, reg = 2, 0.5
    est = LMNN(n_neighbors=kk, regularization=reg)
    est.labels_ = np.arange(2)
    T = est._select_targets(Xg, yg)
    dfG = _sum_outer_products(Xg, T.flatten(), np.repeat(np.arange(12), kk))
    G, obj, _ = est._loss_grad(Xg, Lg, dfG, kk, reg, T, yg)
    terms.append("(c10_lmnn %s %s %s %s %s %s)" % (fhex(reg), gmat(Lg), gmat(Xg), gzlist(yg), glist([gnlist(r) for r in T]), fhex(obj)))
    recs.append(dict(kind='lmnn', L=Lg, X=Xg, y=yg, T=T, reg=reg, loss=float(obj), grad=np.array(G)))
    ctx.hist('kind', 'lmnn (nuisance feature)')
  # the gradient handed to the optimiser against the Coq model that the derivative theorem C10_nca_gradient is about
  for i in range(20 if thorough else 6):
    d = int(rng.integers(2, 5))
    ncls = int(rng.integers(2, 4))
    sizes = [int(rng.integers(2, 5)) for _ in range(ncls)]
    data = fits.make_data(rng, d=d, n_classes=ncls, n_per_class=sizes, sep=1.0)
    X = fits.grid(data['X'] * 0.5, 8)
    y = fits.encode_labels(rng, data)['y'] if rng.random() < 0.5 else data['y']
    k = int(rng.integers(1, d + 1))
    L = fits.grid(rng.standard_normal((k, d)) * 0.7, 8)
    est = NCA()
    est.n_iter_ = 1
    loss, grad = est._loss_grad_lbfgs(L.ravel(), X, y[:, None] == y[None, :], 1.0)
    terms.append("(c10_nca_grad %d%%nat %d%%nat %s %s %s %s %s)" % (k, d, gmat(L), gmat(X), gzlist(y), fhex(loss),
                                                          gmat(np.array(grad).reshape(L.shape))))
    recs.append(dict(kind='nca_grad', L=L, X=X, y=y, loss=float(loss), grad=np.array(grad).reshape(L.shape), cscale=1.0))
    ctx.seen(('nca_grad', L.tolist(), X.tolist()), True)
    # MLKR on the same points with real-valued targets
    yr = fits.grid(data['yreg'], 6)
    est = MLKR()
    est.n_iter_ = 1
    loss, grad = est._loss(L.ravel(), X, yr)
    terms.append("(c10_mlkr_grad %d%%nat %d%%nat %s %s %s %s %s)" % (k, d, gmat(L), gmat(X), gvec(yr), fhex(loss),
                                                           gmat(np.array(grad).reshape(L.shape))))
    recs.append(dict(kind='mlkr_grad', L=L, X=X, y=yr, loss=float(loss), grad=np.array(grad).reshape(L.shape), cscale=1.0))
  ctx.sample(dict(kind=recs[0]['kind'], L=recs[0]['L'].tolist(), X=recs[0]['X'].tolist()[:3], impl_loss=recs[0]['loss']))

  def falsify(rec):
    L, X, y = rec['L'], rec['X'], rec['y']
    if rec['kind'] in ('nca', 'nca_grad'):
      f = lambda A: nca_doc(A, X, y)
    elif rec['kind'] in ('mlkr', 'mlkr_grad'):
      f = lambda A: mlkr_doc(A, X, y)
    else:
      f = lambda A: lmnn_doc(A, X, y, rec['T'], rec['reg'])
    v = f(L)
    if not (np.isfinite(rec['loss']) and np.isfinite(rec['grad']).all()):
      return 'value or gradient handed to the optimiser is not finite (documented objective: %r)' % v
    if abs(v - rec['loss']) > 1e-8 * (1 + abs(v)):
      return 'loss value differs from the documented objective (%r vs %r)' % (rec['loss'], v)
    if rec['kind'] == 'lmnn':
      # skip gradient check near hinge kinks
      Z = X.dot(L.T)
      D = np.sum((Z[:, None, :] - Z[None, :, :]) ** 2, axis=2)
      m = min(abs(1 + D[i, j] - D[i, l]) for i in range(len(X)) for j in rec['T'][i] for l in range(len(X)) if y[l] != y[i])
      if m < 1e-4:
        return None
    big = rec.get('cscale', 1.0) > 1
    G = num_grad(f, L, h=1e-6 if not big else 1e-5)
    if np.abs(G - rec['grad']).max() > (1e-4 if not big else 1e-3) * (1 + np.abs(G).max()):
      return 'gradient is not the derivative of the documented objective'
    return None

  found = False
  if ok:
    res = ctx.run_cases('c10', HEADER, terms, per_file=5, timeout=1200)
    for r, rec in zip(res, recs):
      ctx.count('correspondence_gradient' if rec['kind'] in ('nca_grad', 'mlkr_grad') else 'correspondence_value', 1)
      if r is False:
        why = falsify(rec)
        if why:
          found = True
          ctx.fail_input('objective', rec['kind'] + ': ' + why, dict(kind=rec['kind'], L=rec['L'].tolist(), X=rec['X'].tolist(), y=np.asarray(rec['y']).tolist()))
        else:
          ctx.count('correspondence_value', 0, failures=1)
          ctx.break_tie('correspondence', 'c10_' + rec['kind'], "Coq evaluation of the documented objective%s differs from the code's value on L=%s" % (
              ' / of the gradient model' if rec['kind'] in ('nca_grad', 'mlkr_grad') else '', rec['L'].tolist()))
  for rec in recs:
    if found:
      break
    why = falsify(rec)
    ctx.count('gradient_fd', 1)
    if why:
      found = True
      ctx.fail_input('objective', rec['kind'] + ': ' + why, dict(kind=rec['kind'], L=rec['L'].tolist(), X=rec['X'].tolist(), y=np.asarray(rec['y']).tolist()))
  # ---- fits: never worse than the initial transformation
  import scipy.optimize
  for i in range(36 if thorough else 12):
    kind = ['nca', 'mlkr', 'lmnn', 'lmnn'][i % 4]
    data = fits.make_data(rng, d=int(rng.integers(2, 5)))
    X, y, d = data['X'] * 0.5, data['y'], data['d']
    init = ['auto', 'pca', 'identity', 'random', 'array', 'lda'][i % 6]
    nc = int(rng.integers(1, d + 1))
    if kind == 'mlkr' and init == 'lda':
      init = 'pca'
    if init == 'lda':
      nc = min(nc, data['n_classes'] - 1)
    kw = dict(init=init if init != 'array' else fits.grid(rng.standard_normal((nc, d)), 4), n_components=nc, random_state=2)
    cap = {}
    if kind == 'nca' and i % 8 == 0:
      # a class with a single member: that sample has no same-class neighbour (its own term is 0), but it is a
      # candidate neighbour of every other sample
      X = np.vstack([X, X.mean(axis=0) + fits.grid(rng.standard_normal(d), 4)])
      y = np.append(y, y.max() + 1)
      ctx.hist('nca.singleton_class', True)
    if kind in ('nca', 'mlkr'):
      mod = nca_mod if kind == 'nca' else mlkr_mod
      orig = mod.minimize

      def spy(*a, **k):
        cap['x0'] = np.array(k['x0'] if 'x0' in k else a[1])
        fun = k['fun'] if 'fun' in k else a[0]
        fargs = k.get('args', a[2] if len(a) > 2 else ())
        cap['f0'] = fun(cap['x0'].copy(), *fargs)          # what the optimiser is given, at the starting point
        r = orig(*a, **k)
        cap['x'] = np.array(r.x)
        return r
      try:
        mod.minimize = spy
        with warnings.catch_warnings():
          warnings.simplefilter('ignore')
          if kind == 'nca':
            e = NCA(max_iter=15, **kw).fit(X, y)
            f = lambda A: -nca_doc(A, X, y)
          else:
            e = MLKR(max_iter=15, **kw).fit(X, data['yreg'])
            f = lambda A: mlkr_doc(A, X, data['yreg'])
      except Exception as ex:
        ctx.fail_input('fit_runs', '%s(init=%s) raises %s' % (kind, init, type(ex).__name__), dict(kind=kind, init=init), observed=str(ex)[:200])
        continue
      finally:
        mod.minimize = orig
      L0 = cap['x0'].reshape(-1, d)
      v0 = float(cap['f0'][0])
      g0 = np.asarray(cap['f0'][1], dtype=float).reshape(L0.shape)
      ctx.count('optimiser_value', 1)
      if not abs(abs(v0) - abs(f(L0))) <= 1e-8 * (1 + abs(f(L0))):
        ctx.fail_input('objective', kind + ': the value handed to the optimiser during fit is not the documented objective of the training set',
                       dict(kind=kind, init=init, X=X.tolist(), y=np.asarray(y if kind == 'nca' else data['yreg']).tolist()), observed=[v0, f(L0)])
      else:
        E = fits.grid(rng.standard_normal(L0.shape), 4)
        h = 1e-5
        num = (f(L0 + h * E) - f(L0 - h * E)) / (2 * h)
        ana = float(np.sum(g0 * E)) * (1.0 if v0 * f(L0) >= 0 else -1.0)
        if not abs(num - ana) <= 1e-4 * (1 + abs(num) + float(np.abs(g0).max())):
          ctx.fail_input('objective', kind + ': the gradient handed to the optimiser during fit is not the derivative of the documented objective of the training set',
                         dict(kind=kind, init=init, X=X.tolist()), observed=[ana, num])
      ctx.count('not_worse_than_init', 1)
      if f(e.components_) > f(L0) + 1e-9 * (1 + abs(f(L0))):
        ctx.fail_input('not_worse_than_init', kind + ': the returned transformation has a worse documented objective than the initialisation',
                       dict(kind=kind, init=init, X=X.tolist()), observed=[f(e.components_), f(L0)])
    else:
      objs = []
      orig = LMNN._loss_grad

      def spy(self, Xa, La, *a):
        r = orig(self, Xa, La, *a)
        objs.append((float(r[1]), np.array(La)))
        return r
      try:
        LMNN._loss_grad = spy
        with warnings.catch_warnings():
          warnings.simplefilter('ignore')
          lr = float([1e-7, 1e-3, 1.0, 100.0, 1e4][int(rng.integers(0, 5))])
          mi = int([3, 4, 8, 30][int(rng.integers(0, 4))])      # the descent loop runs for max_iter >= 3
          units = float([1.0, 1.0, 10.0, 100.0][int(rng.integers(0, 4))])
          X = X * units
          ctx.hist('lmnn.learn_rate', lr)
          ctx.hist('lmnn.units', units)
          e = LMNN(max_iter=mi, n_neighbors=2, learn_rate=lr, **kw).fit(X, y)
      except Exception as ex:
        ctx.fail_input('fit_runs', 'lmnn(init=%s) raises %s' % (init, type(ex).__name__), dict(kind=kind, init=init), observed=str(ex)[:200])
        continue
      finally:
        LMNN._loss_grad = orig
      T = lmnn_targets(X, y, 2)
      f = lambda A: lmnn_doc(A, X, y, T, 0.5)
      ctx.count('not_worse_than_init', 1)
      L0 = objs[0][1]
      if f(e.components_) > f(L0) + 1e-9 * (1 + abs(f(L0))):
        ctx.fail_input('not_worse_than_init', 'lmnn: the returned transformation has a worse documented objective than the initialisation',
                       dict(kind=kind, init=init, X=X.tolist(), learn_rate=lr, max_iter=mi), observed=[f(e.components_), f(L0)])
      # accepted iterates: objective of every kept point (the one the next gradient step starts from) non-increasing
      acc = [objs[0][0]]
      for o, La in objs[1:]:
        if o <= acc[-1]:
          acc.append(o)
      ctx.count('lmnn_monotone', 1)
      if abs(acc[-1] - [o for o, La in objs if np.array_equal(La, e.components_)][-1]) > 1e-9 * (1 + abs(acc[-1])):
        ctx.fail_input('lmnn_monotone', 'the returned LMNN transformation is not the last accepted (non-increasing) iterate', dict(init=init, X=X.tolist()))
  # ---- LMNN's step-size search: learning rates far too large for the data's units (the first trial steps overshoot
  # by many orders of magnitude): whatever the number of reductions needed, the result is never worse than the start
  for i in range(16 if thorough else 6):
    data = fits.make_data(rng, d=int(rng.integers(2, 5)))
    units = float([10.0, 100.0, 1000.0][i % 3])
    X, y, d = data['X'] * units, data['y'], data['d']
    lr = float([1.0, 100.0, 1e4][int(rng.integers(0, 3))])
    mi = int(rng.integers(3, 7))
    kk = int(rng.integers(1, 3))
    reg = float(rng.choice([0.2, 0.5, 0.8]))
    ctx.count('not_worse_than_init', 1)
    ctx.hist('lmnn.learn_rate', lr)
    ctx.hist('lmnn.units', units)
    try:
      with warnings.catch_warnings():
        warnings.simplefilter('ignore')
        e = LMNN(max_iter=mi, n_neighbors=kk, learn_rate=lr, regularization=reg, init='identity').fit(X, y)
    except Exception as ex:
      ctx.fail_input('fit_runs', 'lmnn(learn_rate=%g) raises %s' % (lr, type(ex).__name__), dict(kind='lmnn', learn_rate=lr, X=X.tolist()), observed=str(ex)[:200])
      continue
    T = lmnn_targets(X, y, kk)
    f0, f1 = lmnn_doc(np.eye(d), X, y, T, reg), lmnn_doc(e.components_, X, y, T, reg)
    if not (f1 <= f0 + 1e-9 * (1 + abs(f0))):
      ctx.fail_input('not_worse_than_init', 'lmnn: the returned transformation has a worse documented objective than the initialisation',
                     dict(kind='lmnn', init='identity', X=X.tolist(), y=y.tolist(), learn_rate=lr, max_iter=mi, n_neighbors=kk, regularization=reg),
                     observed=[f1, f0])
  # ---- zero optimiser iterations return the initialisation
  data = fits.make_data(rng, d=3)
  X, y = data['X'] * 0.5, data['y']
  for name, cls, args in (('NCA', NCA, (X, y)), ('MLKR', MLKR, (X, data['yreg'])), ('LMNN', LMNN, (X, y))):
    ctx.count('zero_iterations', 1)
    with warnings.catch_warnings():
      warnings.simplefilter('ignore')
      e = cls(max_iter=0, init='identity', **({'n_neighbors': 2} if name == 'LMNN' else {})).fit(*args)
    if not np.array_equal(e.components_, np.eye(3)):
      ctx.fail_input('zero_iterations', '%s(max_iter=0) does not return the initialisation' % name,
                     dict(estimator=name, X=X.tolist()), observed=np.abs(e.components_ - np.eye(3)).max())


def replay(payload):
  print('replay: re-run ./check C10 with VERIF_SEED=%s' % payload.get('seed'))
  return 1
