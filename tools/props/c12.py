"""C12 -- LSML descends its convex objective from the prior to a stationary point."""
import warnings
import numpy as np
import fits
from vcore import fhex, qdy, glist, gvec, gmat
from props.c20 import HEADER


def objective(M, P, vab, vcd, w):
  """the documented objective, independently: weighted squared hinge on sqrt distances + tr(M P) - logdet M"""
  dab = np.einsum('ij,jk,ik->i', vab, M, vab)
  dcd = np.einsum('ij,jk,ik->i', vcd, M, vcd)
  viol = dab > dcd
  sign, ld = np.linalg.slogdet(M)
  return float(np.sum(w[viol] * (np.sqrt(dab[viol]) - np.sqrt(dcd[viol])) ** 2) + np.sum(M * P) - ld)


def run(ctx):
  from metric_learn import LSML, LSML_Supervised
  from metric_learn._util import _initialize_metric_mahalanobis
  thorough = ctx.tier == 'thorough'
  rng = ctx.rng
  ctx.rule = ("(a) LSML._total_loss / _gradient called on random SPD M, quadruplet differences, prior inverse and positive "
              "weights (uniform and non-uniform, scales 1e-3..1e3): value and gradient compared on binary64 with the documented "
              "weighted formulas evaluated in Coq (log det and inverse as oracle inputs); (b) fits of LSML / LSML_Supervised x "
              "prior in {identity, covariance, random, SPD array} x weights in {None, list, int array, float array}: M SPD, "
              "objective(M) <= objective(prior), gradient norm < tol when stopped before max_iter, prior returned when all "
              "constraints hold, weights x c leaves the result unchanged.")
  ctx.trusted = ["translator tools/translate_lsml.py + tools/pynum.py / Base/NPNum.v (_comparison_loss, _total_loss, _gradient; zip loop as a left fold), text pins (public fit wrappers)", "Coq 8.16.1 kernel + vm_compute", "model Model/LSML.v tied by the loss/gradient correspondence",
                 "oracles: numpy slogdet / inv / scipy eigh", "convexity (stationary => optimal) not mechanised"]
  ok = ctx.build_property(gen_needed=['Src_lsml'])
  terms, recs = [], []
  n = 150 if thorough else 30
  est = LSML()
  for i in range(n):
    d = int(rng.integers(2, 6))
    m = int(rng.integers(1, 9))
    B = rng.standard_normal((d, d))
    M = fits.grid(B.T.dot(B) + 0.5 * np.eye(d), 8)
    P = fits.grid(fits.spd_array(rng, d), 8)
    vab = fits.grid(rng.standard_normal((m, d)), 6)
    vcd = fits.grid(rng.standard_normal((m, d)), 6)
    w = np.ones(m) if i % 3 == 0 else rng.uniform(0.1, 3.0, size=m) * 10.0 ** int(rng.integers(-3, 4))
    w = w / w.sum()
    est.w_ = w.copy()
    try:
      with warnings.catch_warnings():
        warnings.simplefilter('ignore')
        loss = est._total_loss(M, vab, vcd, P)
        grad = est._gradient(M, vab, vcd, P)
    except TypeError as ex:
      # the private functions no longer have the signature the model was written from: their correspondence cannot be run
      # (the fits below still are); once is enough
      ctx.break_tie('correspondence', 'c12_loss_grad', '_total_loss / _gradient cannot be called as (metric, vab, vcd, prior_inv): %s' % str(ex)[:200])
      break
    sign, logdet = np.linalg.slogdet(M)
    Minv = np.linalg.inv(M)
    # skip cases where a hinge test is within rounding of its boundary
    dab = np.einsum('ij,jk,ik->i', vab, M, vab)
    dcd = np.einsum('ij,jk,ik->i', vcd, M, vcd)
    if np.min(np.abs(dab - dcd) / (dab + dcd)) < 1e-9:
      ctx.count('correspondence_loss_grad', 1, skipped=1)
      continue
    qs = glist(["(%s, %s, %s)" % (gvec(a), gvec(c), fhex(ww)) for a, c, ww in zip(vab, vcd, w)])
    terms.append("(c12_loss_grad %d%%nat %s %s %s %s %s %s %s)" % (d, gmat(M), gmat(P), gmat(Minv), fhex(logdet), qs,
                                                                 fhex(loss), gmat(grad)))
    recs.append(dict(M=M, P=P, vab=vab, vcd=vcd, w=w, loss=loss, grad=grad))
    ctx.seen(('lg', M.tolist(), vab.tolist(), w.tolist()), bool(np.any(dab > dcd)))
    ctx.hist('weights', 'uniform' if i % 3 == 0 else 'non-uniform')
  if recs:
    ctx.sample(dict(M=recs[0]['M'].tolist(), vab=recs[0]['vab'].tolist(), w=recs[0]['w'].tolist(), impl_loss=recs[0]['loss']))

  def falsify_lg(rec):
    """finite differences of the independent objective vs the implementation's gradient; weights must matter"""
    M, P, vab, vcd, w = rec['M'], rec['P'], rec['vab'], rec['vcd'], rec['w']
    if abs(objective(M, P, vab, vcd, w) - rec['loss']) > 1e-8 * (1 + abs(rec['loss'])):
      return 'loss differs from the documented objective'
    d = len(M)
    for _ in range(3):
      E = np.random.default_rng(0).standard_normal((d, d))
      E = (E + E.T) / 2
      h = 1e-6
      fd = (objective(M + h * E, P, vab, vcd, w) - objective(M - h * E, P, vab, vcd, w)) / (2 * h)
      an = float(np.sum(rec['grad'] * E))
      if abs(fd - an) > 1e-4 * (1 + abs(fd) + abs(an)):
        return 'gradient is not the derivative of the documented (weighted) objective'
    return None

  if ok:
    res = ctx.run_cases('c12', HEADER, terms, per_file=10)
    found = False
    for r, rec in zip(res, recs):
      ctx.count('correspondence_loss_grad', 1)
      if r is False:
        why = falsify_lg(rec)
        if why and not found:
          found = True
          ctx.fail_input('loss_gradient', why, dict(M=rec['M'].tolist(), P=rec['P'].tolist(), vab=rec['vab'].tolist(),
                                                    vcd=rec['vcd'].tolist(), w=rec['w'].tolist()),
                         observed=dict(loss=rec['loss'], grad=rec['grad'].tolist()))
        elif not why:
          ctx.count('correspondence_loss_grad', 0, failures=1)
          ctx.break_tie('correspondence', 'c12_loss_grad', "model and _total_loss/_gradient disagree on M=%s" % rec['M'].tolist())
  for rec in recs[:10]:
    why = falsify_lg(rec)
    ctx.count('falsifier', 1)
    if why:
      ctx.fail_input('loss_gradient', why, dict(M=rec['M'].tolist(), P=rec['P'].tolist(), vab=rec['vab'].tolist(),
                                                vcd=rec['vcd'].tolist(), w=rec['w'].tolist()))
      break
  # ---- fits
  for i in range(48 if thorough else 16):
    data = fits.make_data(rng, d=int(rng.integers(2, 5)))
    d = data['d']
    Q = data['X'][data['quad_idx']]
    # quadruplets whose first pair is one point twice (a == b): d(a,b) = 0 <= d(c,d) under every metric, so they
    # contribute nothing to the residual -- but they carry their share of the (normalised) weights
    trivial = 0
    if rng.random() < 0.5:
      Q = Q.copy()
      for j in rng.choice(len(Q), size=int(rng.integers(1, max(2, len(Q) // 3))), replace=False):
        Q[j, 1] = Q[j, 0]
        trivial += 1
    ctx.hist('trivially_satisfied_quadruplets', trivial)
    prior = ['identity', 'covariance', 'random', 'array'][i % 4]
    kw = dict(prior=prior if prior != 'array' else fits.spd_array(rng, d), max_iter=int(rng.choice([5, 50, 300])), tol=1e-3, random_state=3)
    wkind = ['none', 'list', 'int', 'float'][i % 4 if i % 5 else 0]
    m = len(Q)
    wts = None if wkind == 'none' else [1.0 + (j % 3) for j in range(m)] if wkind == 'list' else \
        np.arange(1, m + 1) if wkind == 'int' else rng.uniform(0.5, 2.0, size=m) * 100.0
    inp = dict(prior=prior, weights=wkind, quadruplets=Q.tolist(),
               params={k: (v if not isinstance(v, np.ndarray) else 'ndarray') for k, v in kw.items()})
    ctx.count('fit_runs', 1)
    try:
      with warnings.catch_warnings():
        warnings.simplefilter('ignore')
        e = LSML(**kw).fit(Q, weights=wts)
        M0, P = _initialize_metric_mahalanobis(Q, kw['prior'], return_inverse=True, strict_pd=True, random_state=3)
    except Exception as ex:
      ctx.fail_input('fit_runs', 'LSML.fit(weights=%s) raises %s' % (wkind, type(ex).__name__), inp, observed=str(ex)[:200])
      continue
    M = e.get_mahalanobis_matrix()
    vab, vcd = Q[:, 0] - Q[:, 1], Q[:, 2] - Q[:, 3]
    w = np.ones(m) if wts is None else np.asarray(wts, dtype=float)
    w = w / w.sum()
    if np.linalg.eigvalsh((M + M.T) / 2).min() <= 0:
      ctx.fail_input('result_pd', 'learned M is not positive definite', inp, observed=M.tolist())
    f1, f0 = objective(M, P, vab, vcd, w), objective(M0, P, vab, vcd, w)
    ctx.count('descends', 1)
    if f1 > f0 + 1e-9 * (1 + abs(f0)):
      ctx.fail_input('descends', 'objective at the result is larger than at the prior', inp, observed=[f1, f0])
    if e.n_iter_ < kw['max_iter']:
      with warnings.catch_warnings():
        warnings.simplefilter('ignore')
        e.w_ = w
        # stationarity of the DOCUMENTED objective: central differences
        dd = len(M)
        g = np.zeros((dd, dd))
        for a in range(dd):
          for b in range(a, dd):
            E = np.zeros((dd, dd))
            E[a, b] = E[b, a] = 1.0
            h = 1e-6
            g[a, b] = g[b, a] = (objective(M + h * E, P, vab, vcd, w) - objective(M - h * E, P, vab, vcd, w)) / (2 * h) / (1 if a == b else 2)
      ctx.count('stationary', 1)
      ctx.hist('stop', 'before max_iter')
      # the solver also stops when no step improves the loss; only flag clear non-stationarity with improving direction
      if np.linalg.norm(g) > 50 * kw['tol'] and objective(M - 1e-4 * g / np.linalg.norm(g), P, vab, vcd, w) < f1 - 1e-7:
        lam = np.linalg.eigvalsh(M).min()
        if lam > 1e-6:
          ctx.fail_input('stationary', 'stopped before max_iter at a point that is not stationary for the documented objective', inp,
                         observed=float(np.linalg.norm(g)))
    # scaling all weights by a constant changes nothing
    if wts is not None:
      # powers of two: the normalised weights are bit-identical, so no step decision can flip on rounding; "any positive scale"
      # includes weights far below and above 1
      for c in (8.0, 2.0 ** -70, 2.0 ** -400, 2.0 ** 300):
        try:
          with warnings.catch_warnings():
            warnings.simplefilter('ignore')
            e2 = LSML(**kw).fit(Q, weights=np.asarray(wts, dtype=float) * c)
        except Exception as ex:
          ctx.fail_input('weight_scale', 'weights multiplied by 2^%d: fit raises %s' % (int(np.log2(c)), type(ex).__name__), inp, observed=str(ex)[:200])
          continue
        ctx.count('weight_scale', 1)
        if not np.allclose(e2.get_mahalanobis_matrix(), M, rtol=1e-6, atol=1e-9):
          ctx.fail_input('weight_scale', 'multiplying all weights by a constant (2^%d) changes the result' % int(np.log2(c)), inp)
    ctx.seen(('fit', i, prior, wkind), True)
  # prior returned when every constraint already holds
  for rep in range(6 if thorough else 2):
    data = fits.make_data(rng, d=3)
    X = data['X']
    qi = data['quad_idx']
    Q = X[qi]
    dab = np.sum((Q[:, 0] - Q[:, 1]) ** 2, axis=1)
    dcd = np.sum((Q[:, 2] - Q[:, 3]) ** 2, axis=1)
    Qs = Q[dab < dcd]
    if len(Qs) < 2:
      continue
    with warnings.catch_warnings():
      warnings.simplefilter('ignore')
      e = LSML(prior='identity').fit(Qs)
    ctx.count('prior_returned', 1)
    if not np.allclose(e.get_mahalanobis_matrix(), np.eye(3), atol=1e-9):
      ctx.fail_input('prior_returned', 'all constraints hold under the prior but the prior is not returned', dict(Q=Qs.tolist()))

  # ---- small tolerances (deterministic inputs): stopping before max_iter means ||gradient of the documented objective||_F < tol.
  def doc_grad(M, vab, vcd, w):
    g = np.eye(len(M)) - np.linalg.inv(M)
    dab = np.einsum('ij,jk,ik->i', vab, M, vab)
    dcd = np.einsum('ij,jk,ik->i', vcd, M, vcd)
    for i in np.nonzero(dab > dcd)[0]:
      g = g + w[i] * ((1 - np.sqrt(dcd[i] / dab[i])) * np.outer(vab[i], vab[i]) + (1 - np.sqrt(dab[i] / dcd[i])) * np.outer(vcd[i], vcd[i]))
    return g
  # ---- many features and a prior far from unit scale: det(M) itself is outside the binary64 range (log det ~ 830) while every
  # quantity of the documented objective is ordinary; a run that stops before max_iter must still be stationary
  def doc_grad_prior(M, Pinv, vab, vcd, w):
    g = Pinv - np.linalg.inv(M)
    dab = np.einsum('ij,jk,ik->i', vab, M, vab)
    dcd = np.einsum('ij,jk,ik->i', vcd, M, vcd)
    for i in np.nonzero(dab > dcd)[0]:
      g = g + w[i] * ((1 - np.sqrt(dcd[i] / dab[i])) * np.outer(vab[i], vab[i]) + (1 - np.sqrt(dab[i] / dcd[i])) * np.outer(vcd[i], vcd[i]))
    return g
  for d_big, c_big, sd in ((60, 1e6, 0), (40, 1e8, 1)) + (((50, 1e7, 2),) if thorough else ()):
    Qb = np.random.RandomState(sd).randn(100, 4, d_big)
    Pb = c_big * np.eye(d_big)
    ctx.count('large_determinant', 1)
    inp = dict(quadruplets='np.random.RandomState(%d).randn(100, 4, %d)' % (sd, d_big), prior='%g * I' % c_big, max_iter=50)
    try:
      with warnings.catch_warnings():
        warnings.simplefilter('ignore')
        eb = LSML(prior=Pb, max_iter=50).fit(Qb)
      Mb = eb.get_mahalanobis_matrix()
    except Exception as ex:
      ctx.fail_input('fit_runs', 'LSML with %d features and prior %g * I raises %s' % (d_big, c_big, type(ex).__name__), inp, observed=str(ex)[:200])
      continue
    gnb = float(np.linalg.norm(doc_grad_prior(Mb, np.eye(d_big) / c_big, Qb[:, 0] - Qb[:, 1], Qb[:, 2] - Qb[:, 3], np.ones(100) / 100)))
    if eb.n_iter_ < 50 and not gnb < 1.5 * 1e-3:
      ctx.fail_input('stationary', 'stopped before max_iter at a point that is not stationary (many features, prior of large scale: det M overflows, log det does not)',
                     inp, observed=dict(n_iter=int(eb.n_iter_), grad_norm=gnb))
  # ---- few, mutually consistent comparisons (one metric satisfies them all, the prior does not) on data in units of 5: the
  # iterates become feasible long before the LogDet term is stationary; a run that stops before max_iter must be stationary
  for sd, d_c, n_c in ((1, 3, 3), (2, 5, 3), (3, 8, 3), (4, 2, 1)) + (((5, 8, 20), (6, 5, 2)) if thorough else ()):
    rs = np.random.RandomState(100 + sd)
    Xc = rs.randn(100, d_c) * 5.0
    Ac = rs.randn(d_c, d_c)
    Qc = Xc[np.array([rs.choice(100, 4, replace=False) for _ in range(n_c)])]
    Mt = Ac.dot(Ac.T)
    dab = np.einsum('ij,jk,ik->i', Qc[:, 0] - Qc[:, 1], Mt, Qc[:, 0] - Qc[:, 1])
    dcd = np.einsum('ij,jk,ik->i', Qc[:, 2] - Qc[:, 3], Mt, Qc[:, 2] - Qc[:, 3])
    Qc[dab > dcd] = Qc[dab > dcd][:, [2, 3, 0, 1]]
    ctx.count('consistent_comparisons', 1)
    inp = dict(quadruplets=Qc.tolist(), prior='identity', tol=1e-3, max_iter=1000)
    try:
      with warnings.catch_warnings():
        warnings.simplefilter('ignore')
        ec = LSML(tol=1e-3, max_iter=1000).fit(Qc)
      Mc = ec.get_mahalanobis_matrix()
    except Exception as ex:
      ctx.fail_input('fit_runs', 'LSML on consistent comparisons raises %s' % type(ex).__name__, inp, observed=str(ex)[:200])
      continue
    gc = doc_grad_prior(Mc, np.eye(d_c), Qc[:, 0] - Qc[:, 1], Qc[:, 2] - Qc[:, 3], np.ones(n_c) / n_c)
    gnc = float(np.linalg.norm(gc))
    if ec.n_iter_ < 1000 and not gnc < 1.5 * 1e-3:
      ctx.fail_input('stationary', 'stopped before max_iter at a point that is not stationary (few consistent comparisons: the iterate satisfies them all, the LogDet term is not at rest)',
                     inp, observed=dict(n_iter=int(ec.n_iter_), grad_norm=gnc))
  # ---- a handful of strongly violated comparisons between points in raw units (scale 10 .. 100), priors s * I: the first
  # accepted steps are large (candidates at the eigenvalue floor can be accepted); a run that stops before max_iter is stationary
  for sd, d_r, scale_r, s_r, tol_r in ((2, 2, 10.0, 1.0, 1e-3), (2, 2, 30.0, 0.1, 1e-3), (1, 2, 100.0, 0.1, 1e-1), (5, 3, 100.0, 0.1, 1e-3)):
    rs = np.random.RandomState(sd)
    Xr = scale_r * rs.randn(12, d_r)
    Qr = Xr[np.array([rs.permutation(12)[:4] for _ in range(4)])]
    Pr = s_r * np.eye(d_r)
    ctx.count('raw_units', 1)
    inp = dict(quadruplets=Qr.tolist(), prior='%g * I' % s_r, tol=tol_r, max_iter=5000)
    try:
      with warnings.catch_warnings():
        warnings.simplefilter('ignore')
        er = LSML(prior=Pr, tol=tol_r, max_iter=5000).fit(Qr)
      Mr = er.get_mahalanobis_matrix()
    except Exception as ex:
      ctx.fail_input('fit_runs', 'LSML on raw-unit comparisons raises %s' % type(ex).__name__, inp, observed=str(ex)[:200])
      continue
    gr = float(np.linalg.norm(doc_grad_prior(Mr, np.eye(d_r) / s_r, Qr[:, 0] - Qr[:, 1], Qr[:, 2] - Qr[:, 3], np.ones(4) / 4)))
    if er.n_iter_ < 5000 and not gr < 1.5 * tol_r:
      ctx.fail_input('stationary', 'stopped before max_iter at a point that is not stationary (few strongly violated comparisons between points in raw units)',
                     inp, observed=dict(n_iter=int(er.n_iter_), grad_norm=gr))
  cases = [(sd, d, 1.0, tol) for sd in (0, 1, 2) for d in (3, 4) for tol in (1e-5, 1e-6)] + [(0, 4, 30.0, 1e-5)]
  for sd, d, scale, tol in (cases if thorough else cases[1:-1:2] + cases[-1:]):
    Q = scale * np.random.RandomState(sd).randn(40, 4, d)
    with warnings.catch_warnings():
      warnings.simplefilter('ignore')
      e = LSML(tol=tol, max_iter=20000).fit(Q)
    M = e.get_mahalanobis_matrix()
    gn = float(np.linalg.norm(doc_grad(M, Q[:, 0] - Q[:, 1], Q[:, 2] - Q[:, 3], np.ones(40) / 40)))
    ctx.count('stationary_small_tol', 1)
    if e.n_iter_ < 20000 and not gn < 1.5 * tol:
      if scale == 30.0:
        ctx.fail_input('stationary', 'LSML(tol=1e-5, max_iter=20000) on 30*RandomState(0).randn(40,4,4) stops at a non-stationary point (no grid step gives a representable decrease)',
                       dict(seed=sd, d=d, scale=scale, tol=tol), observed=dict(n_iter=int(e.n_iter_), grad_norm=gn))
      else:
        ctx.fail_input('stationary', 'stopped before max_iter with a gradient norm above tol (unit-scale data, small tol)',
                       dict(quadruplets='%g * np.random.RandomState(%d).randn(40, 4, %d)' % (scale, sd, d), tol=tol, max_iter=20000),
                       observed=dict(n_iter=int(e.n_iter_), grad_norm=gn))


def replay(payload):
  print('replay: re-run ./check C12 with VERIF_SEED=%s' % payload.get('seed'))
  return 1
