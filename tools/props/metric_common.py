"""Harness shared by C01 and C02: exact lane (dyadic L, bit-exact against FOps),
tolerance lane (fitted estimators, exact rationals), falsifiers."""
import warnings
import numpy as np

import fits
from vcore import fhex, qdy, qopt, glist, gvec, gmat, gtup

HEADER = """From Coq Require Import List ZArith QArith Bool.
From Coq Require Import PrimFloat.
From ML Require Import Ops Vec NP QIO FloatIO CaseDefs CaseDefsQuery.
Import ListNotations.
Local Open Scope Z_scope.
"""


def host(d):
  """a fitted estimator whose components_ we overwrite (the query API is the same object code
  for all 17 estimators: MahalanobisMixin)"""
  from metric_learn import Covariance
  X = np.vstack([np.eye(d), -np.eye(d), np.ones((1, d))])
  with warnings.catch_warnings():
    warnings.simplefilter('ignore')
    est = Covariance().fit(X)
  return est


def gen_exact_case(rng):
  d = int(rng.integers(1, 9))
  k = int(rng.integers(1, d + 1))
  L = rng.integers(-32, 33, size=(k, d)) / 4.0
  mode = rng.integers(0, 6)
  if mode == 0 and k > 1:
    L[k - 1] = L[0] * 2                       # rank deficient
  elif mode == 1:
    L[int(rng.integers(0, k))] = 0.0        # zero row
  elif mode == 2:
    L[:] = 0.0                               # zero metric
  npairs = int(rng.integers(1, 5))
  pts = rng.integers(-64, 65, size=(npairs, 2, d)).astype(float)
  if rng.random() < 0.3:
    pts[0, 1] = pts[0, 0]                    # identical points
  e = int(rng.choice([-332, -64, 0, 0, 64, 332]))
  pts = pts * 2.0 ** e
  return d, k, L, pts, e


def impl_query(est, L, pts):
  est.components_ = L
  with warnings.catch_warnings():
    warnings.simplefilter('ignore')
    dist = est.pair_distance(pts)
    score = est.pair_score(pts)
    f = est.get_metric()
    mf = np.array([f(p[0], p[1]) for p in pts])
    mfsq = np.array([f(p[0], p[1], squared=True) for p in pts])
    X = pts.reshape(-1, pts.shape[-1])
    tr = est.transform(X)
    M = est.get_mahalanobis_matrix()
    sp = est.score_pairs(pts)
  return dict(dist=dist, score=score, mf=mf, mfsq=mfsq, X=X, tr=tr, M=M, sp=sp)


def exact_cases(ctx, n, which):
  """returns (case terms, python-side case records)"""
  terms, recs = [], []
  for i in range(n):
    d, k, L, pts, e = gen_exact_case(ctx.rng)
    est = host(d)
    o = impl_query(est, L, pts)
    nontriv = bool(np.any(L != 0) and np.any(pts[:, 0] != pts[:, 1]))
    ctx.seen(('exact', which, L.tolist(), pts.tolist()), nontriv)
    ctx.hist('exact.d', d)
    ctx.hist('exact.k', k)
    ctx.hist('exact.scale_exp', e)
    if which == 'C01':
      t = "c01_exact %s %s %s %s %s %s" % (gmat(L), gtup(pts), gvec(o['dist']), gvec(o['score']),
                                          gvec(o['mf']), gvec(o['mfsq']))
    else:
      t = "c02_exact %d%%nat %s %s %s %s %s %s" % (d, gmat(L), gmat(o['X']), gtup(pts), gmat(o['tr']),
                                                gmat(o['M']), gvec(o['sp']))
    terms.append("(" + t + ")")
    recs.append(dict(lane='exact', d=d, k=k, L=L, pts=pts, scale_exp=e))
    ctx.sample(dict(lane='exact', L=L.tolist(), pairs=pts.tolist(), impl_pair_distance=o['dist'].tolist()))
  return terms, recs


def query_points(rng, data, L):
  """pairs of query points for a fitted model: training rows, duplicates, far points, extreme magnitudes"""
  X = data['X']
  n, d = X.shape
  diam = float(np.abs(X).max()) + 1.0
  out = []
  i, j = rng.integers(0, n, size=2)
  out.append((X[i], X[j]))
  out.append((X[i], X[i].copy()))                                   # duplicated point
  out.append((X[i] + 1e6 * diam * rng.standard_normal(d), X[j]))    # far outside the training range
  out.append((rng.standard_normal(d), rng.standard_normal(d)))
  s = 10.0 ** int(rng.integers(-100, 101))
  out.append((X[i] * s, X[j] * s))                                   # magnitudes 1e-100 .. 1e100
  out.append((rng.standard_normal(d) * 1e100, rng.standard_normal(d) * 1e100))
  out.append((rng.standard_normal(d) * 1e-100, rng.standard_normal(d) * 1e-100))
  return np.array([[a, b] for a, b in out])


def tol_cases(ctx, which, variants, names=None):
  terms, recs = [], []
  for name, kw, data in fits.zoo_specs(ctx.rng, variants=variants, names=names):
    try:
      est = fits.fit(name, kw, data)
    except Exception as ex:
      ctx.count('fit_failed', 1)
      ctx.hist('fit_failed', "%s:%s" % (name, type(ex).__name__))
      continue
    L = np.array(est.components_)
    if L.dtype.kind != 'f' or not np.isfinite(L).all():
      ctx.count('fit_not_real_finite', 1)
      ctx.hist('fit_not_real_finite', name)
      continue
    pts = query_points(ctx.rng, data, L)
    o = impl_query(est, L, pts)
    ctx.seen(('tol', which, name, L.tolist(), pts.tolist()), True)
    ctx.hist('tol.estimator', name)
    ctx.hist('tol.shape', L.shape)
    if which == 'C01':
      t = "c01_tol %s %s %s %s" % (gmat(L, qdy), gtup(pts, qdy), gvec(o['dist'], qopt), gvec(o['mf'], qopt))
    else:
      t = "c02_tol %d%%nat %s %s %s %s" % (L.shape[1], gmat(L, qdy), gmat(o['X'], qdy),
                                         gmat(o['tr'], qopt), gmat(o['M'], qopt))
    terms.append("(" + t + ")")
    recs.append(dict(lane='tol', estimator=name, params=kw, L=L, pts=pts, est=est))
    ctx.sample(dict(lane='tol', estimator=name, components_shape=list(L.shape),
                    pair=pts[0].tolist(), impl_pair_distance=float(o['dist'][0])), limit=6)
  return terms, recs


def nullspace_cases(rng, n):
  """rank-deficient L (real-valued and dyadic) with query points that differ along directions L collapses:
  the distance is ~0 and any formula that is not a sum of squares can round below zero"""
  recs = []
  for i in range(n):
    d = int(rng.integers(2, 7))
    k = int(rng.integers(1, d))
    if i % 3 == 2:
      L = rng.integers(-32, 33, size=(k, d)) / 4.0
    else:
      L = rng.standard_normal((k, d)) * float(rng.choice([1.0, 1e-3, 1e3]))
    _, _, Vt = np.linalg.svd(L)
    nb = Vt[np.linalg.matrix_rank(L):]
    pts = []
    for _ in range(4):
      a = rng.standard_normal(d) * float(rng.choice([1.0, 10.0, 1e3, 1e6]))
      b = a + rng.standard_normal(len(nb)).dot(nb) * float(rng.choice([1.0, 1e-3, 10.0]))
      pts.append([a, b])
    recs.append(dict(lane='nullspace', L=L, pts=np.array(pts)))
  return recs


def scaled_L_cases(rng, n):
  """transformations learned on data in very large / very small units: every entry of L tiny (<= 1e-8) or huge, square and
  rectangular, nothing special about the diagonal"""
  recs = []
  for i in range(n):
    d = int(rng.integers(2, 6))
    k = d if i % 2 == 0 else int(rng.integers(1, d + 1))
    s = float([1e-9, 1e-12, 1e-10, 1e9][i % 4])
    L = rng.standard_normal((k, d)) * s
    unit = 1.0 / s
    pts = [[rng.standard_normal(d) * unit, rng.standard_normal(d) * unit] for _ in range(3)]
    recs.append(dict(lane='scaled_L', L=L, pts=np.array(pts)))
  return recs


def float32_cases(rng, n):
  """query points held in single precision, at magnitudes whose squares neither overflow nor vanish in DOUBLE precision
  (and whose coordinates are finite float32 numbers): the distances are computed from the numbers, whatever type holds them"""
  recs = []
  for i in range(n):
    d = int(rng.integers(2, 6))
    k = int(rng.integers(1, d + 1))
    L = rng.standard_normal((k, d))
    pts = []
    for _ in range(3):
      if i % 2 == 0:
        s = float(rng.choice([1.5e19, 3e18, 1e10]))
        a = (rng.standard_normal(d) * s).astype(np.float32)
        b = (rng.standard_normal(d) * s).astype(np.float32)
      else:
        s = float(rng.choice([1e-23, 1e-25, 1e-12]))
        a = (rng.standard_normal(d) * s).astype(np.float32)
        b = (a * np.float32(2.0)).astype(np.float32)              # 0, y, 2y are collinear: d(0, 2y) = 2 d(0, y)
      pts.append([a, b])
    P = np.array(pts, dtype=np.float32)
    if i % 2 == 1:
      P[-1, 0] = 0.0                                              # the origin, so that (0, y, 2y) triples are drawn
    recs.append(dict(lane='float32', L=L, pts=P))
  return recs


# ----------------------------------------------------------------------------- falsifiers
def falsify_metric(est, L, trip):
  """property oracle of C01 on the implementation, for one triple (x, y, z).
  Returns None or (what, observed)"""
  est.components_ = L
  x, y, z = trip

  def d1(a, b):
    with warnings.catch_warnings():
      warnings.simplefilter('ignore')
      return float(est.pair_distance(np.array([[a, b]]))[0])
  dxy, dyx, dxx, dyz, dxz = d1(x, y), d1(y, x), d1(x, x), d1(y, z), d1(x, z)
  for nm, v in (('d(x,y)', dxy), ('d(y,z)', dyz), ('d(x,z)', dxz), ('d(x,x)', dxx)):
    if not np.isfinite(v):
      return ('not finite: ' + nm, v)
    if v < 0:
      return ('negative: ' + nm, v)
  if dxx != 0.0:
    return ('d(x,x) != 0', dxx)
  if dxy != dyx:
    return ('d(x,y) != d(y,x)', (dxy, dyx))
  # rounding of the computed distances is bounded relative to |L| (|x| + |y| + |z|), not to the distances themselves;
  # points held in a narrow float type are subtracted in that type (one rounding of relative size eps(type) per coordinate)
  xt = np.asarray(x).dtype
  epsq = float(np.finfo(xt).eps) if xt.kind == 'f' and xt.itemsize < 8 else 0.0
  x64, y64, z64 = (np.asarray(v, dtype=float) for v in (x, y, z))
  mag = float(np.sqrt(np.sum(np.abs(L).dot(np.abs(x64) + np.abs(y64) + np.abs(z64)) ** 2)))
  if dxz > dxy + dyz + 1e-9 * (dxy + dyz) + (1e-12 + 8 * epsq) * mag + 1e-300:
    return ('triangle inequality', (dxz, dxy, dyz))
  with warnings.catch_warnings():
    warnings.simplefilter('ignore')
    P = np.array([[x, y], [y, z]])
    s = est.pair_score(P)
    dd = est.pair_distance(P)
    f = est.get_metric()
    m = f(x, y)
    msq = f(x, y, squared=True)
    mrev = f(y, x)
    mxx = f(x, x)
  for nm, v in (('get_metric()(x,y)', m), ('get_metric()(x,y,squared=True)', msq), ('get_metric()(x,x)', mxx)):
    if not np.isfinite(v):
      return ('not finite: ' + nm, float(v))
    if v < 0:
      return ('negative: ' + nm, float(v))
  if mxx != 0.0:
    return ('get_metric()(x,x) != 0', float(mxx))
  if m != mrev:
    return ('get_metric()(x,y) != get_metric()(y,x)', (float(m), float(mrev)))
  if not np.array_equal(s, -dd):
    return ('pair_score != -pair_distance', (s.tolist(), dd.tolist()))
  bound = 1e-9 * float(np.sum((np.abs(L).dot(np.abs(y64 - x64))) ** 2)) ** 0.5 + 1e-300 + \
      8 * epsq * float(np.sqrt(np.sum(np.abs(L).dot(np.abs(x64) + np.abs(y64)) ** 2)))
  if not (abs(m - dxy) <= 1e-6 * max(dxy, m) + bound):
    return ('get_metric()(x,y) != pair_distance', (m, dxy))
  if not (abs(msq - dxy * dxy) <= 1e-6 * max(dxy * dxy, msq) + bound * bound + 2 * bound * dxy):
    return ('get_metric()(x,y,squared=True) != pair_distance**2', (msq, dxy * dxy))
  return None


def falsify_views(est, L, P):
  """property oracle of C02: all views agree, M = L^T L symmetric PSD"""
  est.components_ = L
  with warnings.catch_warnings():
    warnings.simplefilter('ignore')
    dist = est.pair_distance(P)
    tr0 = est.transform(P[:, 0, :])
    tr1 = est.transform(P[:, 1, :])
    M = est.get_mahalanobis_matrix()
    sp = est.score_pairs(P)
    f = est.get_metric()
  if not np.array_equal(sp, dist):
    return ('score_pairs != pair_distance', None)
  if M.shape != (L.shape[1],) * 2:
    return ('M has the wrong shape', M.shape)
  aL = np.abs(L)
  for i in range(len(P)):
    dl = P[i, 1] - P[i, 0]
    bound2 = float(np.sum(aL.dot(np.abs(dl)) ** 2))
    bx = float(np.sum(aL.dot(np.abs(P[i, 0])) ** 2) + np.sum(aL.dot(np.abs(P[i, 1])) ** 2))
    eu = float(np.sqrt(np.sum((tr1[i] - tr0[i]) ** 2)))
    if abs(eu ** 2 - dist[i] ** 2) > 1e-9 * (bound2 + bx) + 1e-300:
      return ('pair_distance != euclid(transform)', (float(dist[i]), eu))
    qf = float(dl.dot(M).dot(dl))
    if abs(qf - dist[i] ** 2) > 1e-9 * bound2 + 1e-300:
      return ('pair_distance**2 != quadratic form of M', (float(dist[i]) ** 2, qf))
    m = f(P[i, 0], P[i, 1])
    if not np.isfinite(m) or m < 0 or abs(m ** 2 - dist[i] ** 2) > 1e-9 * bound2 + 1e-300:
      return ('get_metric != pair_distance', (float(m), float(dist[i])))
    m2 = f(P[i, 0], P[i, 1], squared=True)
    if not np.isfinite(m2) or m2 < 0 or abs(m2 - dist[i] ** 2) > 1e-9 * bound2 + 1e-300:
      return ('get_metric(squared=True) != pair_distance**2 (a squared distance is a sum of squares: never negative)', (float(m2), float(dist[i]) ** 2))
  if not np.allclose(tr0, P[:, 0, :].dot(L.T), rtol=1e-9, atol=1e-9 * float(np.abs(tr0).max() + 1e-300)):
    return ('transform != X L^T', None)
  nM = float(np.abs(M).max()) + 1e-300
  if np.abs(M - M.T).max() > 1e-12 * nM:
    return ('M not symmetric', float(np.abs(M - M.T).max()))
  if np.abs(M - L.T.dot(L)).max() > 1e-9 * nM:
    return ('M != L^T L', None)
  if np.linalg.eigvalsh((M + M.T) / 2).min() < -1e-10 * nM:
    return ('M not PSD', float(np.linalg.eigvalsh((M + M.T) / 2).min()))
  return None


class _SubArray(np.ndarray):
  """an ndarray subclass (as pandas / astropy / user code hand them over)"""


class _ArrayWrapper:
  """an object that exposes its buffer through __array__ (no copy)"""
  def __init__(self, a):
    self.a = a
  def __array__(self, dtype=None, copy=None):
    return self.a if dtype is None else self.a.astype(dtype)
  def __len__(self):
    return len(self.a)


def container_lane(ctx, n, sub):
  """pairs held in legal array-likes that validation turns into a NEW ndarray object over the SAME memory (memory-mapped file,
  masked array, ndarray subclass, __array__ wrapper): the distances are those of the plain array, a second call on the same
  collection gives the same values (d(x, x') is a function of the points), scores are their negation, and the caller's memory is
  left as it was"""
  import os, warnings
  from metric_learn import Covariance
  rng = ctx.rng
  for rep in range(n):
    d = int(rng.integers(2, 6))
    k = int(rng.integers(1, d + 1))
    L = rng.integers(-8, 9, size=(k, d)) / 4.0
    with warnings.catch_warnings():
      warnings.simplefilter('ignore')
      est = Covariance().fit(np.vstack([np.eye(d), -np.eye(d), np.ones((1, d))]))
    est.components_ = L
    P = rng.integers(-16, 17, size=(6, 2, d)) / 2.0
    P[0, 1] = P[0, 0]                                     # a pair (x, x)
    ref = np.sqrt((((P[:, 0] - P[:, 1]).dot(L.T)) ** 2).sum(axis=1))
    mm_path = os.path.join(ctx.rundir, 'pairs_%d.mm' % rep)
    mm = np.memmap(mm_path, dtype=float, mode='w+', shape=P.shape)
    mm[:] = P
    forms = [('numpy.memmap', mm, lambda: np.array(mm)), ('masked array', np.ma.masked_array(P.copy()), None),
             ('ndarray subclass', P.copy().view(_SubArray), None), ('__array__ wrapper', _ArrayWrapper(P.copy()), None)]
    for nm, obj, _ in forms:
      ctx.count(sub, 1)
      ctx.hist('container', nm)
      raw = (lambda o: np.array(o.a) if isinstance(o, _ArrayWrapper) else np.array(np.ma.getdata(o)))
      inp = dict(L=L.tolist(), pairs=P.tolist(), container=nm)
      try:
        with warnings.catch_warnings():
          warnings.simplefilter('ignore')
          d1 = np.asarray(est.pair_distance(obj))
          d2 = np.asarray(est.pair_distance(obj))
          s3 = np.asarray(est.pair_score(obj))
      except Exception as ex:
        ctx.fail_input(sub, 'pair_distance on pairs held in a %s raises %s' % (nm, type(ex).__name__), inp, observed=str(ex)[:200])
        continue
      tol = 1e-12 * (1 + np.abs(ref).max())
      if np.abs(d1 - ref).max() > tol:
        ctx.fail_input(sub, 'pair_distance on pairs held in a %s differs from the distance of the same numbers' % nm, inp, observed=d1.tolist(), expected=ref.tolist())
      elif np.abs(d2 - ref).max() > tol or np.abs(s3 + ref).max() > tol:
        ctx.fail_input(sub, 'a second call on the same %s gives other distances (d(x, x) = %r for the pair (x, x); pair_score is not -pair_distance)' % (nm, float(d2[0])),
                       inp, observed=dict(second_call=d2.tolist(), pair_score=s3.tolist()), expected=ref.tolist())
      elif not np.array_equal(raw(obj), P):
        ctx.fail_input(sub, 'pair_distance modified the pairs of the caller (held in a %s)' % nm, inp, observed=raw(obj).tolist(), expected=P.tolist())
    del mm
    try:
      os.remove(mm_path)
    except OSError:
      pass
