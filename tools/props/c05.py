"""C05 -- indices + preprocessor are interchangeable with formed points / tuples."""
import warnings
import numpy as np
import fits


class Counting(object):
  def __init__(self, X):
    self.X = np.asarray(X)
    self.calls = 0

  def __call__(self, idx):
    self.calls += 1
    return self.X[np.asarray(idx)]


def raising(idx):
  raise KeyError("no such sample")


def index_variants(rng, idx, n=None):
  """the same indices as other integer dtypes / nested list / (when the number n of points is given) counted from the end"""
  out = [('int64', idx.astype(np.int64)), ('int32', idx.astype(np.int32)), ('list', idx.tolist())]
  if n is not None:
    out.append(('negative', idx.astype(np.int64) - n))                                  # X[i - n] is X[i]
    out.append(('mixed sign', np.where(idx % 2 == 0, idx, idx.astype(np.int64) - n)))
  if idx.max() < 127:
    out.append(('int8', idx.astype(np.int8)))
    out.append(('uint8', idx.astype(np.uint8)))
  # memory layouts of the index array itself: column-major, strided view, transposed stack of columns
  if idx.ndim == 2:
    big = np.zeros((2 * idx.shape[0], 2 * idx.shape[1]), dtype=idx.dtype)
    big[::2, ::2] = idx
    out.append(('fortran', np.asfortranarray(idx)))
    out.append(('strided', big[::2, ::2]))
    out.append(('columns_T', np.array([idx[:, j] for j in range(idx.shape[1])]).T))
  else:
    out.append(('strided', np.repeat(idx, 2)[::2]))
  return out


def same(a, b):
  if isinstance(a, tuple):
    return all(same(x, y) for x, y in zip(a, b))
  if a is None or b is None:
    return a is b
  return np.array_equal(np.asarray(a), np.asarray(b), equal_nan=True)


def fitted_state(est, name):
  out = [np.array(est.components_)]
  if hasattr(est, 'threshold_'):
    out.append(np.array(est.threshold_))
  return tuple(out)


def one_spec(ctx, name, kw, data, pkinds, tag):
  from metric_learn.exceptions import PreprocessorError
  thorough = ctx.tier == 'thorough'
  rng = ctx.rng
  X = data['X']
  n, d = X.shape
  kind = fits.KIND[name]
  args = fits.fit_args(name, data)
  # indicators for the training call
  if kind in ('unsup', 'class', 'reg', 'chunks'):
    train_idx = rng.permutation(n)
    extra = tuple(np.asarray(a)[train_idx] for a in args[1:])
    formed_train = (X[train_idx],) + extra
  else:
    key = {'pairs': 'pairs_idx', 'triplets': 'trip_idx', 'quads': 'quad_idx'}[kind]
    train_idx = data[key]
    formed_train = args
    extra = args[1:]
  try:
    with warnings.catch_warnings():
      warnings.simplefilter('ignore')
      ref = fits.make_estimator(name, kw).fit(*formed_train)
  except Exception as ex:
    ctx.count('fit_failed', 1)
    return
  ref_state = fitted_state(ref, name)
  # query data
  pts_idx = rng.integers(0, n, size=7)
  pair_idx = rng.integers(0, n, size=(6, 2))
  ts = fits.TUPLE_SIZE.get(name)
  tup_idx = rng.integers(0, n, size=(6, ts)) if ts else None
  ypm = np.where(np.arange(6) % 2 == 0, 1, -1)
  for pkind in pkinds:
    counting = Counting(X)
    pre = X if pkind == 'ndarray' else X.tolist() if pkind == 'list' else counting
    kwp = dict(kw)
    kwp['preprocessor'] = pre
    for iname, tidx in ([('int64', train_idx)] + (index_variants(rng, train_idx, len(X))[1:] if thorough or pkind == 'ndarray' else [])):
      ctx.count('fit_indices_vs_formed', 1)
      ctx.seen((name, 'fit', pkind, iname, tag), True)
      try:
        with warnings.catch_warnings():
          warnings.simplefilter('ignore')
          est = fits.make_estimator(name, kwp).fit(tidx, *extra)
      except Exception as ex:
        ctx.fail_input('fit_indices_vs_formed', '%s.fit on indices raises %s' % (name, type(ex).__name__),
                       dict(estimator=name, preprocessor=pkind, index_repr=iname), observed=str(ex)[:200])
        continue
      if not same(fitted_state(est, name), ref_state):
        ctx.fail_input('fit_indices_vs_formed', 'fit on indices + preprocessor gives a different model than fit on formed data',
                       dict(estimator=name, preprocessor=pkind, preprocessor_dtype=tag, index_repr=iname, X=X.tolist(),
                            indices=np.asarray(tidx).tolist()),
                       observed=[s.tolist() for s in fitted_state(est, name)], expected=[s.tolist() for s in ref_state])
    if kind in ('unsup', 'class', 'reg', 'chunks') and pkind in ('ndarray', 'list'):
      tb = np.sort(rng.integers(0, n, size=n))
      tb[0], tb[-1] = 0, n - 1
      extra_b = tuple(np.asarray(a)[tb] for a in args[1:])
      ctx.count('fit_indices_vs_formed', 1)
      try:
        with warnings.catch_warnings():
          warnings.simplefilter('ignore')
          ref_b = fitted_state(fits.make_estimator(name, kw).fit(X[tb], *extra_b), name)
          got_b = fitted_state(fits.make_estimator(name, kwp).fit(tb, *extra_b), name)
        if not same(got_b, ref_b):
          ctx.fail_input('fit_indices_vs_formed', 'fit on ascending indicators with repeats (sorted bootstrap sample) gives a different model than fit on formed data',
                         dict(estimator=name, preprocessor=pkind, preprocessor_dtype=tag, X=X.tolist(), indices=tb.tolist()))
      except Exception:
        pass           # (a bootstrap sample may be degenerate for the learner; both sides see the same data)
    # query methods on the estimator fitted with a preprocessor
    with warnings.catch_warnings():
      warnings.simplefilter('ignore')
      est = fits.make_estimator(name, kwp).fit(train_idx, *extra)
    calls = [('transform', pts_idx, X[pts_idx], ()), ('pair_distance', pair_idx, X[pair_idx], ()),
             ('pair_score', pair_idx, X[pair_idx], ())]
    # ascending indicators with repeats that span a contiguous range (a sorted bootstrap sample: as many entries as the range is
    # long, both ends present) -- 1-D for points, column by column for tuples
    def sorted_boot(m):
      lo = int(rng.integers(0, max(1, n - m)))
      v = np.sort(rng.integers(0, m, size=m))
      v[0], v[-1] = 0, m - 1
      if len(np.unique(v)) == m and m > 2:
        v[1] = v[0]
      return lo + np.sort(v)
    mb = min(7, n)
    sb_pts = sorted_boot(mb)
    sb_pairs = np.column_stack([sorted_boot(mb), sorted_boot(mb)])
    calls += [('transform', sb_pts, X[sb_pts], ()), ('pair_distance', sb_pairs, X[sb_pairs], ())]
    if ts:
      calls += [('predict', tup_idx, X[tup_idx], ()), ('decision_function', tup_idx, X[tup_idx], ())]
      calls += [('score', tup_idx, X[tup_idx], (ypm,) if ts == 2 else ())]
    for meth, idx, formed, more in calls:
      for iname, iv in index_variants(rng, idx, len(X) if pkind != 'callable' or True else None):
        ctx.count('query_indices_vs_formed', 1)
        ctx.seen((name, meth, pkind, iname, tag), True)
        ctx.hist('method', meth)
        try:
          with warnings.catch_warnings():
            warnings.simplefilter('ignore')
            a = getattr(est, meth)(iv, *more)
            before = counting.calls
            b = getattr(est, meth)(formed, *more)
            consulted = counting.calls != before
        except Exception as ex:
          ctx.fail_input('query_indices_vs_formed', '%s on indices raises %s' % (meth, type(ex).__name__),
                         dict(estimator=name, method=meth, preprocessor=pkind, index_repr=iname), observed=str(ex)[:200])
          continue
        if not same(a, b):
          ctx.fail_input('query_indices_vs_formed', '%s: indices + preprocessor differ from formed data' % meth,
                         dict(estimator=name, method=meth, preprocessor=pkind, preprocessor_dtype=tag, index_repr=iname, X=X.tolist(),
                              indices=np.asarray(iv).tolist()),
                         observed=np.asarray(a).tolist(), expected=np.asarray(b).tolist())
        if pkind == 'callable' and consulted:
          ctx.fail_input('formed_ignores_preprocessor', '%s consults the preprocessor although formed data is passed' % meth,
                         dict(estimator=name, method=meth))
    if ts == 2:
      with warnings.catch_warnings():
        warnings.simplefilter('ignore')
        e1 = fits.make_estimator(name, kwp).fit(train_idx, *extra)
        e1.calibrate_threshold(pair_idx, ypm)
        t1 = e1.threshold_
        e1.calibrate_threshold(X[pair_idx], ypm)
      ctx.count('query_indices_vs_formed', 1)
      if t1 != e1.threshold_:
        ctx.fail_input('query_indices_vs_formed', 'calibrate_threshold: indices + preprocessor differ from formed data',
                       dict(estimator=name, preprocessor=pkind), observed=t1, expected=e1.threshold_)
  # an exception inside the preprocessor surfaces as PreprocessorError
  kwr = dict(kw)
  kwr['preprocessor'] = raising
  for what in ('fit', 'transform', 'pair_distance'):
    ctx.count('preprocessor_error_wrapped', 1)
    try:
      with warnings.catch_warnings():
        warnings.simplefilter('ignore')
        if what == 'fit':
          fits.make_estimator(name, kwr).fit(train_idx, *extra)
        else:
          e = fits.make_estimator(name, kw).fit(*formed_train)
          e.preprocessor_ = raising
          getattr(e, what)(pts_idx if what == 'transform' else pair_idx)
      ctx.fail_input('preprocessor_error_wrapped', '%s returns although the preprocessor raises' % what, dict(estimator=name, method=what))
    except PreprocessorError:
      pass
    except Exception as ex:
      ctx.fail_input('preprocessor_error_wrapped', '%s: preprocessor exception surfaces as %s' % (what, type(ex).__name__),
                     dict(estimator=name, method=what), observed=str(ex)[:200])
  # ... also when the preprocessor is an array / a nested list that does not hold the point asked for (numpy's IndexError)
  for pk in ('ndarray', 'list'):
    kwa = dict(kw)
    kwa['preprocessor'] = np.array(X) if pk == 'ndarray' else np.array(X).tolist()
    bad_train = np.array(train_idx).copy()
    bad_train.flat[0] = n + 3                                  # one indicator beyond the bank
    bad_pairs = np.array(pair_idx).copy()
    bad_pairs.flat[-1] = n + 3
    bad_pts = np.array(pts_idx).copy()
    bad_pts.flat[0] = n + 3
    for what in ('fit', 'transform', 'pair_distance', 'pair_score'):
      ctx.count('preprocessor_error_wrapped', 1)
      try:
        with warnings.catch_warnings():
          warnings.simplefilter('ignore')
          if what == 'fit':
            fits.make_estimator(name, kwa).fit(bad_train, *extra)
          else:
            e = fits.make_estimator(name, kwa).fit(train_idx, *extra)
            getattr(e, what)(bad_pts if what == 'transform' else bad_pairs)
        ctx.fail_input('preprocessor_error_wrapped', '%s returns although an indicator is beyond the %s preprocessor' % (what, pk),
                       dict(estimator=name, method=what, preprocessor=pk))
      except PreprocessorError:
        pass
      except Exception as ex:
        ctx.fail_input('preprocessor_error_wrapped', '%s: an indicator beyond the %s preprocessor surfaces as %s' % (what, pk, type(ex).__name__),
                       dict(estimator=name, method=what, preprocessor=pk), observed=str(ex)[:200])
  ctx.sample(dict(estimator=name, train_indices=np.asarray(train_idx)[:5].tolist(), query_pair_indices=pair_idx[:2].tolist()), limit=3)


def special_preprocessor_lanes(ctx):
  """(a) formed points with exactly ONE integer-valued feature, given while a preprocessor is set, are points - not a column of
  indicators: the preprocessor is not consulted and the model is the one learned without preprocessor.  (b) a callable
  preprocessor whose output dtype depends on the rows asked for (all-integer rows come back as integers, others as floats):
  the tuples formed column by column hold the same numbers as X[idx] - nothing is truncated to the type of the first column"""
  from metric_learn import NCA, MLKR, ITML, LSML, SCML
  rng = np.random.default_rng(ctx.seed + 501)
  for rep in range(3):
    n = 24
    y = np.arange(n) % 3
    x1 = (rng.integers(0, 6, size=(n, 1)) + 6 * y[:, None]).astype([np.int64, np.int32, np.int16][rep])
    bank = rng.standard_normal((40, 1)) * 7
    for nm, cls, target in (('NCA', NCA, y), ('MLKR', MLKR, y * 1.0 + rng.standard_normal(n) * 0.1)):
      ctx.count('one_integer_feature', 1)
      counting = Counting(bank)
      try:
        with warnings.catch_warnings():
          warnings.simplefilter('ignore')
          ref = cls(max_iter=5).fit(x1, target)
          for pre, what in ((bank, 'array'), (counting, 'callable')):
            e = cls(max_iter=5, preprocessor=pre).fit(x1, target)
            t_ref, t_e = ref.transform(x1[:5]), e.transform(x1[:5])
            if counting.calls or not same(ref.components_, e.components_) or not same(t_ref, t_e):
              ctx.fail_input('formed_ignores_preprocessor', '%s: formed points with one integer-valued feature are read as indicators when a preprocessor (%s) is set' % (nm, what),
                             dict(estimator=nm, X=x1.tolist(), dtype=str(x1.dtype), preprocessor=what), observed=np.asarray(e.components_).tolist(), expected=np.asarray(ref.components_).tolist())
              break
      except Exception as ex:
        ctx.fail_input('formed_ignores_preprocessor', '%s on formed one-feature integer points with a preprocessor raises %s' % (nm, type(ex).__name__),
                       dict(estimator=nm, X=x1.tolist()), observed=str(ex)[:200])
  for rep in range(4):
    d = 3
    rows = [[float(v) for v in rng.integers(-5, 6, size=d)] for _ in range(10)] + [list(np.round(rng.standard_normal(d) * 3, 3)) for _ in range(14)]
    rows_i = [[int(v) for v in r] if k < 10 else r for k, r in enumerate(rows)]      # the first ten rows hold Python ints
    Xf = np.array(rows, dtype=float)
    pre = (lambda table: (lambda idx: np.array([table[int(i)] for i in idx])))(rows_i)
    for nm, cls, width in (('ITML', ITML, 2), ('SCML', SCML, 3), ('LSML', LSML, 4)):
      # column 0: integer rows only; the points of a tuple are distinct (no collapsed pair inside a tuple)
      idx = np.array([[int(rng.integers(0, 10))] + [0] * (width - 1) for _ in range(16)])
      for r_ in idx:
        others = [k for k in range(24) if k != r_[0]]
        r_[1:] = rng.choice(others, size=width - 1, replace=False)
      ctx.count('mixed_dtype_columns', 1)
      kw = dict(max_iter=10) if nm != 'SCML' else dict(max_iter=50, output_iter=10, n_basis=8, random_state=0)
      extra = (np.where(np.arange(16) % 2 == 0, 1, -1),) if width == 2 else ()
      try:
        with warnings.catch_warnings():
          warnings.simplefilter('ignore')
          a = cls(**kw).fit(Xf[idx], *extra)
          b = cls(preprocessor=pre, **kw).fit(idx, *extra)
          da, db = a.pair_distance(Xf[idx[:, :2]]), b.pair_distance(idx[:, :2])
      except Exception as ex:
        ctx.fail_input('fit_indices_vs_formed', '%s with a callable preprocessor of row-dependent dtype raises %s' % (nm, type(ex).__name__),
                       dict(estimator=nm, indices=idx.tolist()), observed=str(ex)[:200])
        continue
      if not same(a.components_, b.components_) or not same(da, db):
        ctx.fail_input('fit_indices_vs_formed', '%s: tuples formed through a callable preprocessor whose output type depends on the rows differ from the formed tuples (fractions lost in the columns after the first)' % nm,
                       dict(estimator=nm, indices=idx.tolist(), rows=rows), observed=np.asarray(b.components_).tolist(), expected=np.asarray(a.components_).tolist())


def run(ctx):
  from metric_learn.exceptions import PreprocessorError
  thorough = ctx.tier == 'thorough'
  rng = ctx.rng
  ctx.rule = ("17 estimators x every data-taking method (fit, transform, pair_distance, pair_score, predict, "
              "decision_function, score, calibrate_threshold) x preprocessor in {ndarray, nested list, callable} x index "
              "arrays with repeats, arbitrary order, dtypes int8/uint8/int32/int64/list, index arrays in C / Fortran / strided / transposed layout, the preprocessor holding float64 data and "
              "the same run again with integer-valued data held as uint8/int16/uint16/int64: fitted model (components_, threshold_) "
              "and outputs must be bit-identical to the call on formed data; a counting callable must not be consulted for "
              "formed data; a raising callable must surface as PreprocessorError.  distinct = distinct (estimator, method, "
              "preprocessor kind, index representation).")
  ctx.trusted = ["text pins tools/translate_pins.py (preprocessing helpers)", "Coq 8.16.1 kernel", "hand-written models Model/Preproc.v, Model/Validate.v tied by this differential and by C06",
                 "translator tools/translate_query.py for the per-method table", "numpy fancy indexing X[idx] (oracle)"]
  ctx.build_property(gen_needed=['Src_query'])
  # the preprocessor in force is the one given last (set_params between two fits, overlapping views, through pickle): shared with C17
  from props.c17 import preprocessor_history_lane
  preprocessor_history_lane(ctx)
  special_preprocessor_lanes(ctx)
  for name, kw, data in fits.zoo_specs(np.random.default_rng(ctx.seed + 23), variants=False):
    one_spec(ctx, name, kw, data, ('ndarray', 'list', 'callable'), 'float64')
    # the preprocessor holds some points under several indicators (repeated rows) and the tuples use either indicator;
    # options that look at the distinct training POINTS (covariance prior / init) must see the same points both ways
    if fits.KIND[name] in ('pairs', 'triplets', 'quads'):
      key = {'pairs': 'pairs_idx', 'triplets': 'trip_idx', 'quads': 'quad_idx'}[fits.KIND[name]]
      dd = dict(data)
      n0 = len(data['X'])
      dd['X'] = np.vstack([data['X'], data['X']])            # indicator i + n0 names the same point as i
      ti = data[key].copy()
      flip = ctx.rng.random(ti.shape) < 0.5
      ti[flip] += n0
      dd[key] = ti
      kwd = dict(kw)
      if name in ('ITML', 'LSML', 'SDML'):
        kwd['prior'] = 'covariance'
      elif name == 'MMC':
        kwd['init'] = 'covariance'
      if name in ('ITML', 'LSML', 'SDML', 'MMC', 'SCML'):
        ctx.hist('repeated_rows_in_preprocessor', name)
        try:
          kwd = fits.sdml_fix_balance(name, kwd, dd)
          one_spec(ctx, name, kwd, dd, ('ndarray', 'callable'), 'repeated rows')
        except Exception as ex:
          ctx.break_tie('correspondence', 'c05_repeated_rows', '%s: %s' % (name, str(ex)[:200]))
    # the same numbers held in a narrow / unsigned integer type by the preprocessor (e.g. 8-bit image data)
    dt = [np.uint8, np.int16, np.uint16, np.int64][int(ctx.rng.integers(0, 4))]
    di = dict(data)
    Xi = np.round(data['X'] * 4)
    Xi = Xi - Xi.min()
    if Xi.max() > 250 or len(np.unique(Xi, axis=0)) != len(Xi):
      continue
    di['X'] = Xi
    di['yreg'] = np.round(data['yreg'] * 4)
    try:
      kwi = fits.sdml_fix_balance(name, fits.base_kwargs(name, di), di)
    except Exception:
      continue
    di['X'] = Xi.astype(dt)
    ctx.hist('integer_preprocessor_dtype', np.dtype(dt).name)
    one_spec(ctx, name, kwi, di, ('ndarray', 'callable'), np.dtype(dt).name)


def replay(payload):
  print('replay: re-run ./check C05 with the same VERIF_SEED (%s)' % payload.get('seed'))
  return 1
