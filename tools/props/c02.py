"""C02 -- all views of the learned metric agree with M = L^T L."""
import warnings
import numpy as np
from props import metric_common as mc


def falsify_rec(ctx, rec, sub):
  est = rec.get('est') or mc.host(rec['L'].shape[1])
  r = mc.falsify_views(est, rec['L'], rec['pts'])
  ctx.count('falsifier', 1)
  if r is not None:
    ctx.fail_input(sub, 'views of the metric: ' + r[0],
                   dict(estimator=rec.get('estimator', 'components_ assigned'), L=rec['L'].tolist(),
                        pairs=rec['pts'].tolist()), observed=r[1], expected=r[0])
    return True
  return False


def representations(ctx, n):
  """the same numbers as list / integer dtypes / Fortran order / non-contiguous view / single-pair
  batch / indices through a preprocessor must give bit-identical outputs"""
  from metric_learn import Covariance
  rng = ctx.rng
  for _ in range(n):
    d = int(rng.integers(1, 7))
    k = int(rng.integers(1, d + 1))
    L = rng.integers(-32, 33, size=(k, d)) / 4.0
    npts = int(rng.integers(3, 8))
    Xi = rng.integers(-64, 65, size=(npts, d))
    # for unsigned dtypes use non-negative coordinates (same numbers must be representable)
    idx = rng.integers(0, npts, size=(int(rng.integers(1, 5)), 2))
    with warnings.catch_warnings():
      warnings.simplefilter('ignore')
      est = Covariance(preprocessor=Xi.astype(float)).fit(np.vstack([np.eye(d), -np.eye(d), np.ones((1, d))]))
    est.components_ = L
    P = Xi.astype(float)[idx]
    ref_d = est.pair_distance(P)
    ref_t = est.transform(Xi.astype(float))
    big = np.zeros((2 * len(P), 2, 2 * d))
    big[::2, :, ::2] = P
    F3 = np.asfortranarray(P)
    variants = [('list', P.tolist(), Xi.astype(float).tolist()),
                ('int64', Xi[idx].astype(np.int64), Xi.astype(np.int64)),
                ('int32', Xi[idx].astype(np.int32), Xi.astype(np.int32)),
                ('int16', Xi[idx].astype(np.int16), Xi.astype(np.int16)),
                ('fortran', F3, np.asfortranarray(Xi.astype(float))),
                ('noncontiguous', big[::2, :, ::2], np.repeat(Xi.astype(float), 2, axis=0)[::2]),
                ('float32', P.astype(np.float32), Xi.astype(np.float32)),
                ('indices_int64', idx.astype(np.int64), np.arange(npts)),
                ('indices_int8', idx.astype(np.int8), np.arange(npts, dtype=np.int8)),
                ('indices_list', idx.tolist(), list(range(npts)))]
    Xa = np.abs(Xi)
    Pa = Xa.astype(float)[idx]
    ref_da = None
    for nm, pv, xv in variants + [('int8', None, None), ('uint8', None, None), ('uint32', None, None)]:
      ctx.count('representation', 1)
      ctx.hist('representation', nm)
      site = 'query arrays of dtype ' + nm if nm in ('int8', 'uint8', 'uint32', 'int16', 'int32', 'int64') else 'query arrays as ' + nm
      try:
        with warnings.catch_warnings():
          warnings.simplefilter('ignore')
          if nm in ('int8', 'uint8', 'uint32'):
            # non-negative coordinates so that unsigned types hold the same numbers
            if ref_da is None:
              ref_da = est.pair_distance(Pa)
            got_d = est.pair_distance(Xa[idx].astype(nm))
            want_d = ref_da
            got_t, want_t = est.transform(Xa.astype(nm)), est.transform(Xa.astype(float))
          else:
            got_d, want_d = est.pair_distance(pv), ref_d
            got_t, want_t = est.transform(xv), ref_t
      except Exception as ex:
        ctx.fail_input('representation', site + ' raise ' + type(ex).__name__,
                       dict(kind=nm, L=L.tolist(), X=Xi.tolist(), idx=idx.tolist()), observed=str(ex)[:200])
        continue
      # the function handed out by get_metric on vectors held in the same representation
      if not nm.startswith('indices'):
        f = est.get_metric()
        src = np.asarray(Xa if nm in ('int8', 'uint8', 'uint32') else Xi)
        for (i, j) in idx[:2]:
          if nm == 'list':
            u, v = src[i].astype(float).tolist(), src[j].astype(float).tolist()
          elif nm == 'fortran':
            u, v = np.asfortranarray(src.astype(float))[i], np.asfortranarray(src.astype(float))[j]
          elif nm == 'noncontiguous':
            u, v = np.repeat(src[i].astype(float), 2)[::2], np.repeat(src[j].astype(float), 2)[::2]
          else:
            u, v = src[i].astype(nm), src[j].astype(nm)
          ctx.count('representation', 1)
          try:
            with warnings.catch_warnings():
              warnings.simplefilter('ignore')
              g, g2 = f(u, v), f(u, v, squared=True)
              w, w2 = f(src[i].astype(float), src[j].astype(float)), f(src[i].astype(float), src[j].astype(float), squared=True)
          except Exception as ex:
            ctx.fail_input('representation', 'get_metric()(u, v) with ' + site + ' raise ' + type(ex).__name__,
                           dict(kind=nm, L=L.tolist(), u=src[i].tolist(), v=src[j].tolist()), observed=str(ex)[:200])
            break
          if not (g == w and g2 == w2):
            ctx.fail_input('representation', 'get_metric()(u, v) with ' + site + ' give different results',
                           dict(kind=nm, L=L.tolist(), u=src[i].tolist(), v=src[j].tolist()),
                           observed=[float(g), float(g2)], expected=[float(w), float(w2)])
            break
      if not (np.array_equal(got_d, want_d) and np.array_equal(got_t, want_t)):
        ctx.fail_input('representation', site + ' give different results',
                       dict(kind=nm, L=L.tolist(), X=(Xa if nm in ('int8', 'uint8', 'uint32') else Xi).tolist(),
                            idx=idx.tolist()),
                       observed=np.asarray(got_d).tolist(), expected=np.asarray(want_d).tolist())
    # indicators of points held by the preprocessor in a narrow / unsigned integer type (e.g. 8-bit data): same numbers
    for bt in ('uint8', 'int16', 'uint16', 'int64'):
      ctx.count('representation', 1)
      ctx.hist('representation', 'indices into a %s bank' % bt)
      try:
        with warnings.catch_warnings():
          warnings.simplefilter('ignore')
          eb = Covariance(preprocessor=Xa.astype(bt)).fit(np.arange(min(npts, 6)))
          eb.components_ = L
          if ref_da is None:
            ref_da = est.pair_distance(Pa)
          got = eb.pair_distance(idx)
          got_s = eb.pair_score(idx)
          got_r = eb.pair_distance(idx[:, ::-1])
      except Exception as ex:
        ctx.fail_input('representation', 'indicators into a %s preprocessor raise %s' % (bt, type(ex).__name__),
                       dict(kind=bt, L=L.tolist(), X=Xa.tolist(), idx=idx.tolist()), observed=str(ex)[:200])
        continue
      if not (np.array_equal(got, ref_da) and np.array_equal(got_s, -ref_da) and np.array_equal(got_r, ref_da)):
        ctx.fail_input('representation', 'indicators into a preprocessor of dtype %s give different results (or d(i,j) != d(j,i))' % bt,
                       dict(kind=bt, L=L.tolist(), X=Xa.tolist(), idx=idx.tolist()),
                       observed=[np.asarray(got).tolist(), np.asarray(got_r).tolist()], expected=np.asarray(ref_da).tolist())
    # single-pair batch
    one = est.pair_distance(P[:1])
    ctx.count('representation', 1)
    if one.shape != (1,) or one[0] != ref_d[0]:
      ctx.fail_input('representation', 'single-pair batch differs', dict(L=L.tolist(), P=P[:1].tolist()),
                     observed=one.tolist(), expected=ref_d[:1].tolist())


def returned_arrays_are_private(ctx, n):
  """the views keep agreeing after the caller has modified, in place, every array the estimator handed out (the Mahalanobis
  matrix - documented as a copy -, transformed points, distances): M is L^T L again on the next call, and the distances, the
  metric function and the scores are those of L"""
  from metric_learn import Covariance, NCA
  rng = ctx.rng
  for rep in range(n):
    d = int(rng.integers(2, 6))
    k = int(rng.integers(1, d + 1))
    X = rng.integers(-16, 17, size=(12, d)) / 4.0
    with warnings.catch_warnings():
      warnings.simplefilter('ignore')
      if rep % 2 == 0:
        est = Covariance().fit(np.vstack([np.eye(d), -np.eye(d), np.ones((1, d))]))
        est.components_ = rng.integers(-8, 9, size=(k, d)) / 2.0
      else:
        est = NCA(max_iter=3, n_components=k).fit(X, np.arange(12) % 3)
    L = np.array(est.components_, dtype=float)
    M_true = L.T.dot(L)
    P = X[rng.integers(0, 12, size=(5, 2))]
    ctx.count('returned_arrays_private', 1)
    for step in range(3):
      M = est.get_mahalanobis_matrix()
      T = est.transform(X)
      D = est.pair_distance(P)
      f = est.get_metric()
      want = np.sqrt(np.einsum('ij,jk,ik->i', P[:, 0] - P[:, 1], M_true, P[:, 0] - P[:, 1]))
      bad = None
      if not np.allclose(M, M_true, rtol=1e-12, atol=1e-12 * (np.abs(M_true).max() + 1e-300)):
        bad = ('get_mahalanobis_matrix() is not L^T L', M.tolist(), M_true.tolist())
      elif not np.allclose(D, want, rtol=1e-9, atol=1e-12):
        bad = ('pair_distance differs from sqrt(diff^T M diff)', D.tolist(), want.tolist())
      elif not np.allclose([f(a, b) for a, b in P], want, rtol=1e-9, atol=1e-12):
        bad = ('get_metric() differs from sqrt(diff^T M diff)', [float(f(a, b)) for a, b in P], want.tolist())
      elif not np.allclose(T, X.dot(L.T), rtol=1e-12, atol=1e-12):
        bad = ('transform is not X L^T', T.tolist(), X.dot(L.T).tolist())
      if bad:
        ctx.fail_input('returned_arrays_private', 'after the caller modified in place the arrays returned by earlier calls (call %d): %s' % (step, bad[0]),
                       dict(estimator=type(est).__name__, L=L.tolist(), pairs=P.tolist(), history='get_mahalanobis_matrix / transform / pair_distance, results modified in place, same calls again'),
                       observed=bad[1], expected=bad[2])
        break
      # the caller rescales / clears what it received
      M /= (np.trace(M) + 1.0)
      M[0, 0] = -7.0
      T *= 0.0
      D += 1.0


def run(ctx):
  thorough = ctx.tier == 'thorough'
  ctx.rule = ("exact lane: as C01, observables transform / get_mahalanobis_matrix / score_pairs compared bit-exactly "
              "with the translated definitions on binary64, plus sqrt(quadform(M_impl, x'-x)) == pair_distance; "
              "tolerance lane: real fits, transform and M entries vs exact rationals (1e-12 * sum of absolute products); "
              "representation lane: list/int64/int32/int16/int8/uint8/uint32/float32-exact/Fortran/strided/single-pair/indices "
              "give bit-identical outputs. non-trivial = L != 0 and points differ.")
  ctx.trusted = ["Coq 8.16.1 kernel + vm_compute", "translator tools/translate_query.py + idiom table coq/Base/NP.v",
                 "binary64 rounding is not modelled in the theorems", "harness passes identical numbers to both sides"]
  ok = ctx.build_property(gen_needed=['Src_query'], case_libs=('Model/CaseDefs.vo', 'Model/CaseDefsQuery.vo'))
  terms, recs = mc.exact_cases(ctx, 2500 if thorough else 300, 'C02')
  tterms, trecs = mc.tol_cases(ctx, 'C02', variants=thorough)
  if ok:
    for lane, tt, rr in (('exact', terms, recs), ('tolerance', tterms, trecs)):
      res = ctx.run_cases('c02_' + lane, mc.HEADER, tt, per_file=100 if lane == 'exact' else 12)
      for r, rec in zip(res, rr):
        ctx.count('correspondence_' + lane, 1)
        if r is False:
          if not falsify_rec(ctx, rec, 'correspondence_' + lane):
            ctx.count('correspondence_' + lane, 0, failures=1)
            ctx.break_tie('correspondence', 'c02_' + lane,
                          "model and implementation disagree on %s" % dict(
                              estimator=rec.get('estimator'), L=rec['L'].tolist(), pairs=rec['pts'].tolist()))
  for rec in recs[:(len(recs) if thorough or not ctx.property_ok else 150)] + trecs:
    if falsify_rec(ctx, rec, 'views_agree'):
      break
  for rec in mc.nullspace_cases(ctx.rng, 200 if thorough else 40):     # rank-deficient L, query pairs that differ along directions L collapses
    if falsify_rec(ctx, rec, 'views_agree'):
      break
  for rec in mc.scaled_L_cases(ctx.rng, 160 if thorough else 32):      # transformations learned in very large / small units
    if falsify_rec(ctx, rec, 'views_agree'):
      break
  representations(ctx, 60 if thorough else 12)
  returned_arrays_are_private(ctx, 24 if thorough else 6)
  mc.container_lane(ctx, 12 if thorough else 3, 'containers')


def replay(payload):
  bad = 0
  for f in payload.get('failing_inputs', []):
    inp = f['input']
    if 'pairs' in inp:
      L = np.array(inp['L'], dtype=float)
      r = mc.falsify_views(mc.host(L.shape[1]), L, np.array(inp['pairs']))
      print('replay:', r)
      bad += r is not None
  return 1 if bad else 0
