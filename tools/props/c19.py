"""C19 -- the learned distance depends on the data only through its geometry."""
import warnings
import numpy as np
import fits


def probe_pairs(rng, X, n=8):
  idx = rng.integers(0, len(X), size=(n, 2))
  return idx


def dists(est, Xq, idx):
  with warnings.catch_warnings():
    warnings.simplefilter('ignore')
    return est.pair_distance(Xq[idx])


def close(a, b, rtol):
  return np.allclose(a, b, rtol=rtol, atol=rtol * (np.abs(a).max() + 1e-300))


def rotation(rng, d):
  """an orthogonal matrix with dyadic-friendly entries: signed permutation times one (3/5, 4/5) Givens block"""
  P = np.eye(d)[rng.permutation(d)] * rng.choice([-1.0, 1.0], size=d)[:, None]
  G = np.eye(d)
  if d >= 2:
    a, b = rng.choice(d, size=2, replace=False)
    G[a, a], G[a, b], G[b, a], G[b, b] = 0.6, -0.8, 0.8, 0.6
  return P.dot(G)


def run(ctx):
  thorough = ctx.tier == 'thorough'
  rng = ctx.rng
  ctx.rule = ("data on a 2^-10 grid; translation by a dyadic vector (all 17 estimators), swap of the two points inside any "
              "training pair / both pairs of a quadruplet (ITML, MMC, SDML, LSML), permutation of the samples (Covariance, RCA), "
              "orthogonal map Q = signed permutation x (3/5, 4/5) rotation (Covariance, RCA, LFDA, LMNN identity init, ITML, "
              "LSML, MMC with identity / covariance prior), scaling by c = 2^-30 .. 2^30 (Covariance, RCA with and without n_components); training arrays in C / Fortran / tuple-axis-outermost / strided layout; covariance prior / init for ITML, LSML, MMC in half of the runs: learned distances on "
              "corresponding probe pairs compared: bit-identical where the implementation only touches differences and the "
              "prior is data independent, 1e-6 relative otherwise, 1e-4 for L-BFGS learners with few iterations.")
  ctx.trusted = ["Coq 8.16.1 kernel", "models of C09-C15 (no new definitions)", "invariance of the optimum of external optimisers is explored, not proved"]
  ctx.build_property(gen_needed=['Src_itml', 'Src_lsml'])
  reps = 8 if thorough else 3
  EXACT_TRANSLATION = {'ITML', 'MMC', 'SDML', 'LSML'}     # tuple learners with identity prior: differences only
  for rep in range(reps):
    for name in fits.NAMES:
      data = fits.make_data(rng, d=int(rng.integers(2, 5)))
      if name == 'RCA' or rng.random() < 0.5:    # (contiguous chunk ids are what RCA_Supervised generates)
        data = fits.encode_labels(rng, data)       # class labels / chunk ids are names (1-based, gapped)
      ctx.hist('label_encoding', data.get('label_encoding', '0..C-1'))
      X, d = data['X'], data['d']
      kw = fits.sdml_fix_balance(name, fits.base_kwargs(name, data), data)
      # memory layout of the training array (a fresh array for every fit) and, for the tuple learners whose prior can
      # be computed from the data, the covariance prior
      data['layout'] = fits.LAYOUTS[int(rng.integers(0, len(fits.LAYOUTS)))]
      ctx.hist('layout', data['layout'])
      if name in ('ITML', 'LSML') and rng.random() < 0.5:
        kw['prior'] = 'covariance'
      if name == 'MMC' and rng.random() < 0.5:
        kw['init'] = 'covariance'
      if name in ('NCA', 'MLKR'):
        kw['max_iter'] = 30
      idx = probe_pairs(rng, X)
      try:
        ref = fits.fit(name, kw, data)
      except Exception:
        ctx.count('fit_failed', 1)
        continue
      dref = dists(ref, X, idx)
      tol = 1e-4 if name in ('NCA', 'MLKR', 'LMNN') else 1e-6
      # ---- translation
      t = fits.grid(rng.standard_normal(d) * 4, 6)
      data_t = dict(data)
      data_t['X'] = X + t
      ctx.count('translation', 1)
      ctx.seen((name, 'translation', rep), True)
      try:
        e = fits.fit(name, kw, data_t)
        dt = dists(e, X + t, idx)
        same = np.array_equal(dt, dref) if (name in EXACT_TRANSLATION and kw.get('prior', 'identity') == 'identity' and kw.get('init', 'identity') == 'identity') else close(dt, dref, tol)
        if not same:
          ctx.fail_input('translation', name + ': translating all points changes the learned distances',
                         dict(estimator=name, X=X.tolist(), t=t.tolist()), observed=dt.tolist(), expected=dref.tolist())
      except Exception as ex:
        ctx.fail_input('translation', name + ': fit on translated data raises ' + type(ex).__name__, dict(estimator=name), observed=str(ex)[:200])
      # ---- within-tuple swap
      if name in ('ITML', 'MMC', 'SDML', 'LSML'):
        data_s = dict(data)
        key = 'quad_idx' if name == 'LSML' else 'pairs_idx'
        ti = data[key].copy()
        which = rng.random(len(ti)) < 0.5
        if name == 'LSML':
          ti[which] = ti[which][:, [1, 0, 3, 2]]
        else:
          ti[which] = ti[which][:, ::-1]
        data_s[key] = ti
        ctx.count('swap', 1)
        ctx.seen((name, 'swap', rep), True)
        e = fits.fit(name, kw, data_s)
        ds = dists(e, X, idx)
        if not close(ds, dref, 1e-9):
          ctx.fail_input('swap', name + ': swapping the points inside training tuples changes the learned distances',
                         dict(estimator=name, X=X.tolist(), swapped=which.tolist()), observed=ds.tolist(), expected=dref.tolist())
      # ---- sample permutation
      if name in ('Covariance', 'RCA'):
        perm = rng.permutation(len(X))
        data_p = dict(data)
        data_p['X'] = X[perm]
        data_p['chunks'] = data['chunks'][perm]
        ctx.count('permutation', 1)
        ctx.seen((name, 'permutation', rep), True)
        e = fits.fit(name, kw, data_p)
        dp = dists(e, X, idx)
        if not close(dp, dref, 1e-9):
          ctx.fail_input('permutation', name + ': listing the samples in another order changes the learned distances',
                         dict(estimator=name, X=X.tolist(), perm=perm.tolist()), observed=dp.tolist(), expected=dref.tolist())
        for c in [float(2.0 ** int(k)) for k in rng.choice([-30, -20, -10, -2, -1, 1, 3, 10, 20, 30], size=3, replace=False)]:
          for kwc in ([kw] if name == 'Covariance' else [kw, dict(kw, n_components=int(rng.integers(1, d + 1)))]):
            data_c = dict(data)
            data_c['X'] = X * c
            ctx.count('scaling', 1)
            ctx.hist('scaling.log2c', int(np.log2(c)))
            r0 = fits.fit(name, kwc, data)
            e = fits.fit(name, kwc, data_c)
            dc = dists(e, X * c, idx)
            d0 = dists(r0, X, idx)
            if not close(dc, d0, 1e-9):     # distances in the scaled data between scaled points: (x c) M/c^2 (x c) = same
              ctx.fail_input('scaling', name + ': scaling all features by c does not scale the learned distance by 1/c',
                             dict(estimator=name, X=X.tolist(), c=c, params={k: str(v)[:30] for k, v in kwc.items()}),
                             observed=dc.tolist(), expected=d0.tolist())
      # ---- rotation
      rot_ok = name in ('Covariance', 'RCA', 'LFDA', 'ITML', 'LSML', 'MMC', 'LMNN')
      if rot_ok:
        Q = rotation(rng, d)
        data_r = dict(data)
        data_r['X'] = X.dot(Q)
        kwr = dict(kw)
        if name == 'LMNN':
          kwr['init'] = 'identity'
        variants = [kwr]
        if name in ('ITML', 'LSML'):
          variants.append(dict(kwr, prior='covariance'))
        if name == 'MMC':
          variants.append(dict(kwr, init='covariance'))
        if name in ('RCA', 'LFDA') and d >= 2:
          # the dimension-reducing branches (generalised eigenproblem): every n_components below d
          variants += [dict(kwr, n_components=k) for k in range(1, d)]
        for kv in variants:
          ctx.count('rotation', 1)
          ctx.seen((name, 'rotation', rep, repr(sorted((k, str(v)) for k, v in kv.items()))), True)
          try:
            r0 = fits.fit(name, kv, data)
            e = fits.fit(name, kv, data_r)
          except Exception as ex:
            ctx.fail_input('rotation', name + ': fit raises ' + type(ex).__name__, dict(estimator=name), observed=str(ex)[:200])
            continue
          d0 = dists(r0, X, idx)
          dr = dists(e, X.dot(Q), idx)
          rt = 1e-4 if name == 'LMNN' else 1e-6
          if not close(dr, d0, rt):
            M0, Mr = r0.get_mahalanobis_matrix(), e.get_mahalanobis_matrix()
            ctx.fail_input('rotation', name + ': mapping all points through an orthogonal Q does not map M to Q^T M Q',
                           dict(estimator=name, X=X.tolist(), Q=Q.tolist(), params={k: str(v)[:30] for k, v in kv.items()}),
                           observed=dr.tolist(), expected=d0.tolist())
      # ---- tuple learners: every memory layout of the tuple array x {data-independent, covariance} prior, under
      # translation and within-tuple swap (the reference fit gets a fresh C-ordered array)
      if name in ('ITML', 'MMC', 'SDML', 'LSML') and rep == 0:
        pkey = 'init' if name == 'MMC' else 'prior'
        for pv in ('identity', 'covariance'):
          kwl = dict(kw)
          kwl[pkey] = pv
          if name == 'SDML':
            try:
              kwl = fits.sdml_fix_balance(name, {k: v for k, v in kwl.items() if k != 'balance_param'}, data)
            except Exception:
              continue
          d_c = dict(data)
          d_c['layout'] = 'C'
          try:
            r0 = fits.fit(name, kwl, d_c)
          except Exception:
            ctx.count('fit_failed', 1)
            continue
          d0 = dists(r0, X, idx)
          for lay in fits.LAYOUTS:
            d_l = dict(data)
            d_l['layout'] = lay
            d_l['X'] = X + t
            key = 'quad_idx' if name == 'LSML' else 'pairs_idx'
            ti = data[key].copy()
            ti[::2] = ti[::2][:, [1, 0, 3, 2]] if name == 'LSML' else ti[::2][:, ::-1]
            d_l[key] = ti
            ctx.count('layout_translation_swap', 1)
            ctx.seen((name, 'layout', lay, pv), True)
            try:
              e = fits.fit(name, kwl, d_l)
              dl = dists(e, X + t, idx)
            except Exception as ex:
              ctx.fail_input('translation', '%s(%s=%s): fit on a translated %s-layout tuple array raises %s' % (name, pkey, pv, lay, type(ex).__name__),
                             dict(estimator=name, layout=lay), observed=str(ex)[:200])
              continue
            if not close(dl, d0, 1e-6):
              ctx.fail_input('translation', '%s(%s=%s): translating all points and swapping within tuples changes the learned distances when the tuple array has layout %s' % (name, pkey, pv, lay),
                             dict(estimator=name, X=X.tolist(), t=t.tolist(), layout=lay, params={k: str(v)[:30] for k, v in kwl.items()}),
                             observed=dl.tolist(), expected=d0.tolist())
      ctx.sample(dict(estimator=name, probes=idx[:2].tolist(), distances=dref[:2].tolist()), limit=3)

  # ---- Covariance on rank-deficient data (a duplicated / collinear / constant feature, or fewer samples than features), probed
  # with FRESH query pairs that leave the span of the training data: the pseudo-inverse is the Moore-Penrose one, which is
  # equivariant under orthogonal maps, translations and sample permutations (any other generalised inverse agrees with it
  # only inside the span)
  from metric_learn import Covariance
  for rep in range(12 if thorough else 4):
    d = int(rng.integers(3, 6))
    kind = rep % 4
    n = d - 1 if kind == 3 else int(rng.integers(2 * d, 3 * d))
    X = np.round(rng.standard_normal((n, d)) * 8) / 4
    if kind == 0:
      X[:, 1] = X[:, 0]
    elif kind == 1:
      X[:, 2] = 2 * X[:, 0] - X[:, 1]
    elif kind == 2:
      X[:, d - 1] = 1.5
    Xq = np.round(rng.standard_normal((8, d)) * 8) / 4
    qi = np.array([[0, 1], [2, 3], [4, 5], [6, 7], [0, 7]])
    Q = rotation(rng, d)
    t = np.round(rng.standard_normal(d) * 4)
    perm = rng.permutation(n)
    ctx.count('covariance_rank_deficient', 1)
    ctx.hist('covariance_rank_deficient', ['duplicated feature', 'collinear feature', 'constant feature', 'fewer samples than features'][kind])
    try:
      with warnings.catch_warnings():
        warnings.simplefilter('ignore')
        d0 = Covariance().fit(X).pair_distance(Xq[qi])
        dq = Covariance().fit(X.dot(Q)).pair_distance(Xq.dot(Q)[qi])
        dt = Covariance().fit(X[perm] + t).pair_distance((Xq + t)[qi])
    except Exception as ex:
      ctx.fail_input('rotation', 'Covariance on rank-deficient data raises ' + type(ex).__name__, dict(X=X.tolist()), observed=str(ex)[:200])
      continue
    if not close(dq, d0, 1e-6):
      ctx.fail_input('rotation', 'Covariance (rank-deficient data, fresh queries): mapping all points through an orthogonal Q does not map M to Q^T M Q',
                     dict(estimator='Covariance', X=X.tolist(), Q=Q.tolist(), queries=Xq.tolist()), observed=dq.tolist(), expected=d0.tolist())
    if not close(dt, d0, 1e-6):
      ctx.fail_input('translation', 'Covariance (rank-deficient data, fresh queries): translating and permuting the samples changes the learned distances',
                     dict(estimator='Covariance', X=X.tolist(), t=t.tolist(), queries=Xq.tolist()), observed=dt.tolist(), expected=d0.tolist())


def replay(payload):
  print('replay: re-run ./check C19 with VERIF_SEED=%s' % payload.get('seed'))
  return 1
