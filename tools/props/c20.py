"""C20 -- PSD matrices are converted, validated and initialised as documented."""
import warnings
import numpy as np
import fits
from vcore import fhex, qdy, glist, gvec, gmat

HEADER = """From Coq Require Import List ZArith QArith Bool.
From Coq Require Import PrimFloat.
From ML Require Import Ops Vec NP QIO FloatIO CaseDefs.
Import ListNotations.
Local Open Scope Z_scope.
"""


def outcome(f):
  from metric_learn.exceptions import NonPSDError
  try:
    with warnings.catch_warnings():
      warnings.simplefilter('ignore')
      return 'ok', f()
  except NonPSDError as e:
    return 'NonPSDError', e
  except np.linalg.LinAlgError as e:
    return 'LinAlgError', e
  except ValueError as e:
    return 'ValueError', e
  except Exception as e:
    return type(e).__name__, e


def sym_matrix(rng, d, kind):
  """B^T D B with integer B and a chosen spectrum-like diagonal"""
  B = rng.integers(-3, 4, size=(d, d)).astype(float)
  while abs(np.linalg.det(B)) < 0.5:
    B = rng.integers(-3, 4, size=(d, d)).astype(float)
  if kind == 'pd':
    D = 10.0 ** rng.integers(-6, 7, size=d)
  elif kind == 'psd':
    D = 10.0 ** rng.integers(-3, 4, size=d)
    D[rng.integers(0, d, size=max(1, d // 2))] = 0.0
  elif kind == 'indefinite':
    D = rng.standard_normal(d)
    D[0] = -abs(D[0]) - 0.5
  elif kind == 'diag':
    return np.diag(np.abs(rng.standard_normal(d)) * (rng.random(d) < 0.7))
  elif kind == 'diag_neg':
    v = np.abs(rng.standard_normal(d))
    v[0] = -1.0
    return np.diag(v)
  M = B.T.dot(np.diag(D)).dot(B)
  return (M + M.T) / 2


def run(ctx):
  from metric_learn._util import (components_from_metric, _check_sdp_from_eigen, _auto_select_init,
                                  _initialize_metric_mahalanobis, _initialize_components)
  thorough = ctx.tier == 'thorough'
  rng = ctx.rng
  ctx.rule = ("_check_sdp_from_eigen: random spectra of length 1..8 spanning 1e-12..1e12 with the most negative eigenvalue at "
              "{0.5, 0.99, 1.01, 2} x tol of the boundary, default and explicit tol (incl. negative): outcome compared "
              "bit-exactly with the model on binary64. components_from_metric: symmetric matrices of size 1..8 (PD, PSD of "
              "every rank, diagonal, indefinite, non-symmetric): exception class exact, L^T L vs M on exact rationals; with an explicit tol: diagonal and dense matrices "
              "with the same spectrum, most negative eigenvalue at 0.5 x / 2 x tol. "
              "_auto_select_init: exhaustive for n_features, n_samples, n_components, n_classes <= 6. initialisers: "
              "identity / covariance (Penrose equations against the exact covariance of the distinct points) / random "
              "(reproducible, SPD by exact LDL^T) / array (shape, symmetry, PSD, strict-PD checks) and transformation inits.")
  ctx.trusted = ["translator tools/translate_psd.py + tools/pynum.py / Base/NPNum.v (_check_sdp_from_eigen, branches of components_from_metric), text pins (initialisers)", "Coq 8.16.1 kernel + vm_compute", "hand-written model Model/PSDConv.v tied by this correspondence",
                 "oracles: numpy eigh / cholesky, scipy pinvh, sklearn make_spd_matrix / PCA / LDA (outputs certified per run)",
                 "exact LDL^T positive-definiteness certificate: sound by Proofs/Hom.cert_pd_sound (Q2R homomorphism + sum-of-squares)"]
  ok = ctx.build_property(gen_needed=['Src_psd'])
  terms, recs = [], []
  # ---- 1. eigenvalue sign test, bit-exact
  N = 1500 if thorough else 250
  for i in range(N):
    n = int(rng.integers(1, 9))
    w = rng.standard_normal(n) * 10.0 ** rng.integers(-12, 13, size=n)
    mode = int(rng.integers(0, 6))
    tol = None
    if mode == 1:
      tol = float(abs(rng.standard_normal()) * 10.0 ** int(rng.integers(-10, 3)))
    elif mode == 2:
      tol = -1.0
    elif mode == 3:
      tol = 0.0
    if mode in (4, 5) or rng.random() < 0.5:
      w = np.abs(w)
      t = tol if (tol is not None and tol > 0) else float(np.abs(w).max() * n * np.finfo(float).eps)
      w[int(rng.integers(0, n))] = -t * float(rng.choice([0.5, 0.99, 1.0, 1.01, 2.0]))
      if mode == 5:
        w[int(rng.integers(0, n))] = t * float(rng.choice([0.5, 0.99, 1.0, 1.01]))
    oc, r = outcome(lambda: _check_sdp_from_eigen(w, tol))
    code = {'ok': 0 if r is True else 1, 'NonPSDError': 2, 'ValueError': 3}.get(oc, 9)
    terms.append("(c20_sdp %s %s %d%%nat)" % (gvec(w), "None" if tol is None else "(Some %s)" % fhex(tol), code))
    recs.append(dict(kind='sdp', w=w.tolist(), tol=tol, impl=oc if oc != 'ok' else bool(r)))
    ctx.seen(('sdp', w.tolist(), tol), True)
    ctx.hist('sdp.outcome', recs[-1]['impl'])
  # ---- 2. auto rule, exhaustive
  R = range(1, 7)
  for has in (True, False):
    for d in R:
      for n in (1, 3, 6):
        for nc in range(1, d + 1):
          for ncls in (range(1, 7) if has else [-1]):
            k = _auto_select_init(has, d, n, nc, ncls)
            terms.append("(c20_auto %s %d%%nat %d%%nat %d%%nat (%d) %d%%nat)" % (
                'true' if has else 'false', d, n, nc, ncls, {'lda': 0, 'pca': 1, 'identity': 2}[k]))
            recs.append(dict(kind='auto', has_classes=has, d=d, n=n, nc=nc, ncls=ncls, impl=k))
            ctx.seen(('auto', has, d, n, nc, ncls), True)
  # ---- 3. components_from_metric
  # recorded finding: the symmetry test has numpy's absolute tolerance 1e-8, so a non-symmetric matrix with entries below it passes
  ctx.count('components_from_metric', 1)
  oc_small, _ = outcome(lambda: components_from_metric(2.0 ** -34 * np.array([[2.0, 1.0], [0.5, 2.0]])))
  if oc_small != 'ValueError':
    ctx.fail_input('components_from_metric', 'components_from_metric(2**-34 * [[2, 1], [0.5, 2]]) accepts a non-symmetric matrix',
                   dict(M=(2.0 ** -34 * np.array([[2.0, 1.0], [0.5, 2.0]])).tolist()), observed=oc_small)
  kinds = ['pd', 'psd', 'indefinite', 'diag', 'diag_neg', 'nonsym', 'diag_near', 'dense_near']
  for i in range(600 if thorough else 120):
    d = int(rng.integers(1, 9))
    kind = kinds[i % len(kinds)]
    if kind == 'nonsym':
      M = sym_matrix(rng, d, 'pd')
      if d == 1:
        continue
      M[0, d - 1] += 1.0 + abs(M[0, d - 1])
      # ... in any unit: being symmetric does not depend on the scale of the entries (covariances of data in small units are 1e-10)
      unit = 2.0 ** int([0, -10, -20, 30, 60, 10][(i // len(kinds)) % 6])     # (entries below 1e-8: the recorded finding, tested once below)
      M = M * unit
      ctx.hist('cfm.nonsym_unit', 'unit 2^%d' % int(np.log2(unit)))
    elif kind in ('diag_near', 'dense_near'):
      # PSD up to rounding: the most negative eigenvalue is a fraction of the default tolerance |w|max * d * eps
      wv = np.abs(rng.standard_normal(d)) + 0.25
      wv[int(rng.integers(0, d))] = -np.abs(wv).max() * d * np.finfo(float).eps * float(rng.choice([0.05, 0.2, 0.4])) if d > 1 else 0.0
      if kind == 'diag_near':
        M = np.diag(wv)
      else:
        Qm, _ = np.linalg.qr(rng.standard_normal((d, d)))
        M = (Qm * wv).dot(Qm.T)
        M = (M + M.T) / 2
    else:
      M = sym_matrix(rng, d, kind)
    oc, L = outcome(lambda: components_from_metric(M.copy()))
    ctx.count('components_from_metric', 1)
    ctx.seen(('cfm', M.tolist()), True)
    ctx.hist('cfm.kind', kind)
    ctx.hist('cfm.outcome', oc)
    w = np.linalg.eigvalsh((M + M.T) / 2)
    tol = np.abs(w).max() * d * np.finfo(float).eps
    inp = dict(kind=kind, M=M.tolist())
    if kind == 'nonsym':
      if oc != 'ValueError':
        ctx.fail_input('components_from_metric', 'non-symmetric matrix not rejected with ValueError', inp, observed=oc)
      continue
    if w.min() < -100 * tol - 1e-300:
      if oc != 'NonPSDError':
        ctx.fail_input('components_from_metric', 'matrix with an eigenvalue below -tol not rejected with NonPSDError', inp, observed=oc)
      continue
    if w.min() < -0.5 * tol and w.min() > -100 * tol:
      ctx.count('components_from_metric', 0, skipped=1)     # within rounding of the tolerance boundary
      continue
    if oc != 'ok':
      ctx.fail_input('components_from_metric', 'PSD matrix rejected: ' + oc, inp, observed=str(L)[:200])
      continue
    if L.shape != (d, d) or L.dtype.kind != 'f' or not np.isfinite(L).all():
      ctx.fail_input('components_from_metric', 'returned factor is not a finite real d x d array', inp, observed=str(L.shape))
      continue
    terms.append("(c20_factor %d%%nat tol_1e9 0 %s %s)" % (d, gmat(M, qdy), gmat(L, qdy)))
    recs.append(dict(kind='cfm', M=M.tolist(), L=L.tolist(), mkind=kind))
    if not np.allclose(L.T.dot(L), M, rtol=0, atol=1e-8 * np.abs(M).max() + 1e-300):
      ctx.fail_input('components_from_metric', 'L^T L differs from M', inp, observed=L.tolist())
  # ---- 3b. components_from_metric with the caller's tolerance: diagonal and dense matrices with the same spectrum
  for i in range(240 if thorough else 60):
    d = int(rng.integers(2, 7))
    t = float(rng.choice([1e-2, 1e-3, 1e-6]))
    f = float(rng.choice([0.5, 2.0]))
    w = np.abs(rng.standard_normal(d)) + 0.5
    w[int(rng.integers(0, d))] = -t * f
    for shape in ('diagonal', 'dense'):
      if shape == 'diagonal':
        M = np.diag(w)
      else:
        Qm, _ = np.linalg.qr(rng.standard_normal((d, d)))
        M = (Qm * w).dot(Qm.T)
        M = (M + M.T) / 2
      oc, L = outcome(lambda: components_from_metric(M.copy(), tol=t))
      ctx.count('components_from_metric_tol', 1)
      ctx.hist('cfm_tol.case', '%s, most negative eigenvalue = -%g tol' % (shape, f))
      inp = dict(shape=shape, M=M.tolist(), tol=t, spectrum=w.tolist())
      if f > 1:
        if oc != 'NonPSDError':
          ctx.fail_input('components_from_metric_tol', '%s matrix with an eigenvalue below -tol (explicit tol) not rejected with NonPSDError' % shape,
                         inp, observed=oc)
      else:
        Mc = M if shape == 'diagonal' else None
        if oc != 'ok':
          ctx.fail_input('components_from_metric_tol', '%s matrix whose negative eigenvalue is within the explicit tol is rejected' % shape,
                         inp, observed=oc)
        elif not np.isfinite(L).all() or not (np.abs(L.T.dot(L) - M).max() <= 2 * t):
          ctx.fail_input('components_from_metric_tol', 'L^T L differs from M by more than the tolerance', inp, observed=L.tolist())
  # ---- 3b'. tol = 0 is a tolerance like any other: an eigenvalue below -0, however small, is rejected (exact spectra:
  # diagonal matrices, and block matrices [[1,1],[1,1]] + (-e) whose eigenvalues 0, 2, -e LAPACK returns exactly decoupled)
  from metric_learn._util import _check_sdp_from_eigen
  for e_neg in (1e-18, 1e-30, 2.0 ** -60, 1e-300):
    for w0 in ([1.98, -e_neg], [3.0, 0.0, -e_neg], [1e6, 1.0, -e_neg]):
      wv = np.array(w0)
      ctx.count('components_from_metric_tol', 2)
      oc0, _ = outcome(lambda: _check_sdp_from_eigen(wv, tol=0))
      oc1, _ = outcome(lambda: components_from_metric(np.diag(wv), tol=0.0))
      if oc0 != 'NonPSDError' or oc1 != 'NonPSDError':
        ctx.fail_input('components_from_metric_tol', 'an eigenvalue below -tol with the explicit tol = 0 is not rejected with NonPSDError',
                       dict(spectrum=wv.tolist(), tol=0, M=np.diag(wv).tolist()), observed=dict(_check_sdp_from_eigen=oc0, components_from_metric=oc1))
      ocd, _ = outcome(lambda: _check_sdp_from_eigen(wv))          # the default tolerance is relative: the same spectrum passes
      if ocd != 'ok':
        ctx.fail_input('components_from_metric_tol', 'a negative eigenvalue far inside the default tolerance is rejected', dict(spectrum=wv.tolist()), observed=ocd)
  # ---- 3c. an explicit tolerance only concerns NEGATIVE eigenvalues: a singular PSD matrix (Cholesky fails) whose positive
  # eigenvalues include one below the caller's tol is still factored exactly
  for i in range(120 if thorough else 30):
    d = int(rng.integers(2, 7))
    t = float(rng.choice([1e-1, 1e-2, 1e-3]))
    w = np.abs(rng.standard_normal(d)) + 0.5
    w[0] = 0.0
    if d > 2 or i % 2:
      w[1] = t * float(rng.choice([0.1, 0.3, 0.9]))
    Qm, _ = np.linalg.qr(rng.standard_normal((d, d)))
    for shape in ('dense', 'diagonal'):
      M = (Qm * w).dot(Qm.T) if shape == 'dense' else np.diag(w)
      M = (M + M.T) / 2
      oc, L = outcome(lambda: components_from_metric(M.copy(), tol=t))
      ctx.count('components_from_metric_tol', 1)
      ctx.hist('cfm_tol.case', '%s singular PSD, small positive eigenvalue below tol' % shape)
      inp = dict(shape=shape, M=M.tolist(), tol=t, spectrum=w.tolist())
      if oc != 'ok':
        ctx.fail_input('components_from_metric_tol', '%s singular PSD matrix rejected with an explicit tol: %s' % (shape, oc), inp)
      elif not np.isfinite(L).all() or not np.abs(L.T.dot(L) - M).max() <= 1e-9 * np.abs(M).max():
        ctx.fail_input('components_from_metric_tol', 'PSD matrix with a positive eigenvalue below the explicit tol: L^T L differs from M', inp,
                       observed=float(np.abs(L.T.dot(L) - M).max()))
  # ---- 4. metric initialisers
  for rep in range(10 if thorough else 4):
    data = fits.make_data(rng)
    X, d = data['X'], data['d']
    pairs = X[data['pairs_idx']]
    Xpts = X
    if rep % 2:
      # coarse data with zero coordinates, points shared by several tuples, and the two spellings of zero (0.0, -0.0):
      # the distinct training POINTS are distinct as numbers
      Xr = np.round(X)
      Xr[:, int(rng.integers(0, d))] *= (rng.random(len(X)) < 0.6)
      pairs = Xr[data['pairs_idx']].copy()
      flip = (pairs == 0) & (rng.random(pairs.shape) < 0.5)
      pairs[flip] = -0.0
      if np.linalg.matrix_rank(np.unique(np.vstack(pairs), axis=0) - np.vstack(pairs).mean(axis=0)) < d:
        pairs = X[data['pairs_idx']]
      else:
        ctx.hist('init_metric.signed_zeros', True)
        Xpts = np.unique(Xr, axis=0)     # a 2-D input is used as it is (no tuples to flatten): give it distinct rows
    for inp_arr, label in ((Xpts, 'points'), (pairs, 'tuples')):
      oc, M = outcome(lambda: _initialize_metric_mahalanobis(inp_arr, 'identity'))
      ctx.count('init_metric', 1)
      if oc != 'ok' or not np.array_equal(M, np.eye(d)):
        ctx.fail_input('init_metric', "'identity' is not the identity", dict(input=label, d=d))
      oc, r = outcome(lambda: _initialize_metric_mahalanobis(inp_arr, 'covariance', return_inverse=True, strict_pd=True))
      ctx.count('init_metric', 1)
      if oc != 'ok':
        ctx.fail_input('init_metric', "'covariance' raises " + oc, dict(input=label, X=X.tolist()))
      else:
        M, Minv = r
        pts = inp_arr if inp_arr.ndim == 2 else np.vstack(inp_arr)
        terms.append("(c20_cov_pinv tol_1e9 %s %s)" % (gmat(pts, qdy), gmat(M, qdy)))
        recs.append(dict(kind='init_cov', input=label, pts=pts.tolist(), M=M.tolist()))
        terms.append("(c20_inverse tol_1e9 %s %s)" % (gmat(M, qdy), gmat(Minv, qdy)))
        recs.append(dict(kind='init_cov_inverse', M=M.tolist(), Minv=Minv.tolist()))
      seed = int(rng.integers(0, 1000))
      oc1, M1 = outcome(lambda: _initialize_metric_mahalanobis(inp_arr, 'random', random_state=seed))
      oc2, M2 = outcome(lambda: _initialize_metric_mahalanobis(inp_arr, 'random', random_state=seed))
      oc3, M3 = outcome(lambda: _initialize_metric_mahalanobis(inp_arr, 'random', random_state=seed + 1))
      ctx.count('init_metric', 1)
      if oc1 != 'ok' or not np.array_equal(M1, M2) or np.array_equal(M1, M3) or M1.shape != (d, d):
        ctx.fail_input('init_metric', "'random' is not reproducible from the seed", dict(input=label, seed=seed))
      else:
        terms.append("(c_spd tol_1e12 %s)" % gmat(M1, qdy))
        recs.append(dict(kind='init_random_spd', M=M1.tolist()))
      A = fits.spd_array(rng, d)
      A0 = A.copy()
      oc, M = outcome(lambda: _initialize_metric_mahalanobis(inp_arr, A, strict_pd=True))
      ctx.count('init_metric', 1)
      if oc != 'ok' or not np.array_equal(M, A0) or not np.array_equal(A, A0) or M is A:
        ctx.fail_input('init_metric', 'an SPD array is not used as given (as a copy)', dict(input=label, A=A0.tolist()))
      S = A0.copy()
      S[0, :] = 0
      S[:, 0] = 0                                  # singular PSD
      for bad, want, what in ((S, 'LinAlgError', 'singular matrix accepted although strict_pd'),
                              (A0 + np.triu(np.ones((d, d)), 1), 'ValueError', 'non-symmetric matrix accepted'),
                              ((A0 + np.triu(np.ones((d, d)), 1)) * 2.0 ** -40, 'ValueError', 'non-symmetric matrix (entries of the order 1e-12) accepted'),
                              (A0[:d - 1, :d - 1] if d > 1 else np.eye(2), 'ValueError', 'wrong shape accepted'),
                              (-A0, 'NonPSDError', 'negative definite matrix accepted')):
        oc, M = outcome(lambda: _initialize_metric_mahalanobis(inp_arr, bad, strict_pd=True))
        ctx.count('init_metric', 1)
        if oc != want:
          ctx.fail_input('init_metric', what + ' (got %s)' % oc, dict(input=label, matrix=np.asarray(bad).tolist()))
      oc, M = outcome(lambda: _initialize_metric_mahalanobis(inp_arr, S, strict_pd=False))
      if oc != 'ok':
        ctx.fail_input('init_metric', 'singular PSD array rejected although strict_pd=False', dict(input=label))
    # the (pseudo-)inverse covariance of the same points in a tiny unit is the same matrix in that unit: M(c X) = M(X) / c^2
    c = 2.0 ** -30
    oc, r = outcome(lambda: _initialize_metric_mahalanobis(Xpts, 'covariance', return_inverse=True))
    oc2, r2 = outcome(lambda: _initialize_metric_mahalanobis(Xpts * c, 'covariance', return_inverse=True))
    ctx.count('init_metric', 1)
    if oc == 'ok' and (oc2 != 'ok' or not np.allclose(r2[0] * c * c, r[0], rtol=1e-6, atol=1e-9 * np.abs(r[0]).max())
                       or not np.allclose(r2[1] / (c * c), r[1], rtol=1e-6, atol=1e-9 * np.abs(r[1]).max())):
      ctx.fail_input('init_metric', "'covariance' of data in units of 2^-30 is not the (pseudo-)inverse covariance (M(cX) != M(X) / c^2)",
                     dict(X=Xpts.tolist(), c=c), observed=str(oc2) if oc2 != 'ok' else r2[0].tolist())
    # the zero matrix is singular
    oc, M = outcome(lambda: _initialize_metric_mahalanobis(Xpts, np.zeros((d, d)), strict_pd=True))
    ctx.count('strict_pd', 1)
    if oc != 'LinAlgError':
      ctx.fail_input('strict_pd', 'the zero matrix is accepted as a strictly positive definite prior (got %s)' % oc, dict(d=d))
    # learners that need a strictly PD prior reject a singular one
    import metric_learn
    for name in ('ITML', 'LSML', 'SDML'):
      S = np.eye(d)
      S[0, 0] = 0.0
      kw = fits.base_kwargs(name, data)
      kw['prior'] = S
      oc, r = outcome(lambda: fits.fit(name, kw, data))
      ctx.count('strict_pd', 1)
      if oc == 'ok':
        ctx.fail_input('strict_pd', name + ' accepts a singular prior', dict(estimator=name, prior=S.tolist()))
    # ---- 4b. an array prior / init means its numbers, whatever its dtype or layout (int64, int32, float32, Fortran)
    Bi = rng.integers(-2, 3, size=(d, d)).astype(float)
    Ai = Bi.T.dot(Bi) + 2 * np.eye(d)               # integer-valued SPD
    Li = np.eye(d) + np.triu(rng.integers(-1, 2, size=(d, d)).astype(float), 1)   # integer-valued transformation
    for name in ('ITML', 'LSML', 'SDML', 'MMC', 'LMNN', 'NCA', 'MLKR'):
      key = 'init' if name in ('MMC', 'LMNN', 'NCA', 'MLKR') else 'prior'
      base = Li if name in ('LMNN', 'NCA', 'MLKR') else Ai
      kw0 = fits.base_kwargs(name, data)
      if 'max_iter' in kw0 or name in ('ITML', 'LSML', 'MMC', 'LMNN', 'NCA', 'MLKR'):
        kw0['max_iter'] = 5
      ref = None
      for vname, arr in (('float64', base.copy()), ('int64', base.astype(np.int64)), ('int32', base.astype(np.int32)),
                         ('fortran', np.asfortranarray(base)), ('float32', base.astype(np.float32))):
        kw = dict(kw0)
        kw[key] = arr
        with warnings.catch_warnings():
          warnings.simplefilter('ignore')
          oc, r = outcome(lambda: fits.fit(name, kw, data))
        ctx.count('array_dtype', 1)
        if vname == 'float64':
          ref = r.components_ if oc == 'ok' else None
          if oc != 'ok':
            break                                    # (the float64 fit itself is C03's business)
          continue
        if oc != 'ok':
          ctx.fail_input('array_dtype', '%s: %s array given as %s raises %s' % (name, key, vname, oc),
                         dict(estimator=name, option=key, dtype=vname, array=base.tolist()))
        elif vname == 'float32' or (vname == 'fortran' and name not in ('ITML', 'SDML')):
          # single precision is kept (the iterations then run in it); another memory layout changes the summation order of
          # BLAS calls by a few ulps, which solvers with discrete decisions (MMC's accept / reject and projection count, LSML's
          # step choice, LMNN's active sets, L-BFGS line searches) may amplify: only "fit returns a finite model of the right shape"
          # (that the array is used as given, as a copy, is checked on the initialiser itself above, in every layout)
          if r.components_.shape != ref.shape or r.components_.dtype.kind != 'f' or not np.isfinite(r.components_).all():
            ctx.fail_input('array_dtype', '%s: %s array given as %s: components_ is not a finite float array of the right shape' % (name, key, vname),
                           dict(estimator=name, option=key, dtype=vname, array=base.tolist()))
        elif r.components_.shape != ref.shape or r.components_.dtype.kind != 'f' or \
            not np.allclose(r.components_, ref, rtol=1e-5, atol=1e-7 * (1 + np.abs(ref).max())):
          ctx.fail_input('array_dtype', '%s: %s array given as %s learns a different model than the same numbers as float64' % (name, key, vname),
                         dict(estimator=name, option=key, dtype=vname, array=base.tolist()),
                         observed=float(np.abs(r.components_ - ref).max()) if r.components_.shape == ref.shape else str(r.components_.shape))
    for vname, Mi in (('int64 diagonal', np.diag(np.arange(1, d + 1)).astype(np.int64)), ('int64 dense', Ai.astype(np.int64)),
                      ('int32 diagonal with a zero', np.diag(np.arange(0, d)).astype(np.int32)), ('float32 dense', Ai.astype(np.float32))):
      oc, L = outcome(lambda: components_from_metric(Mi))
      ctx.count('array_dtype', 1)
      if oc != 'ok' or not np.allclose(L.T.dot(L), Mi, rtol=1e-5, atol=1e-6):
        ctx.fail_input('array_dtype', 'components_from_metric on a PSD matrix of type %s: %s' % (vname, oc if oc != 'ok' else 'L^T L != M'),
                       dict(matrix=Mi.tolist(), dtype=vname))
      # ---- 4c. single-precision arrays: "PSD up to rounding" is relative to the type of the array
    for rank in range(1, d):
      Bf = rng.standard_normal((d, rank)).astype(np.float32)
      Mf = Bf.dot(Bf.T)
      Mf = ((Mf + Mf.T) / 2).astype(np.float32)
      ev = np.linalg.eigvalsh(Mf.astype(float))
      import scipy.linalg as _sl
      ev32 = np.asarray(_sl.eigh(Mf, check_finite=False)[0], dtype=float)      # what the code sees: SciPy's eigh in single precision
      tol32 = float(np.abs(ev32).max() * d * np.finfo(np.float32).eps)
      noise = max(np.abs(ev32[:d - rank]).max(), np.abs(np.linalg.eigvalsh(Mf).astype(float)[:d - rank]).max())    # (NumPy's eigh is used by the converter)
      if ev[d - rank] < 1e-3 * ev[-1] or noise > 0.1 * tol32:
        continue                                      # rank not clear-cut at the code's own tolerance (rounding noise of the null
                                                      # eigenvalues within a factor 10 of the tolerance: either verdict is legitimate)
      ctx.count('float32_psd', 1)
      oc, L = outcome(lambda: components_from_metric(Mf.copy()))
      if oc != 'ok' or not np.allclose(np.asarray(L, dtype=float).T.dot(L), Mf, rtol=0, atol=1e-4 * ev[-1]):
        ctx.fail_input('array_dtype', 'float32 matrix that is PSD up to single-precision rounding: components_from_metric ' +
                       (oc if oc != 'ok' else 'returns L with L^T L != M'), dict(matrix=Mf.tolist(), rank=rank))
      oc, M = outcome(lambda: _initialize_metric_mahalanobis(inp_arr, Mf.copy(), strict_pd=False))
      if oc != 'ok':
        ctx.fail_input('array_dtype', 'float32 array that is PSD up to single-precision rounding rejected as init: ' + oc, dict(matrix=Mf.tolist(), rank=rank))
      oc, M = outcome(lambda: _initialize_metric_mahalanobis(inp_arr, Mf.copy(), strict_pd=True))
      if oc != 'LinAlgError':
        ctx.fail_input('array_dtype', 'singular float32 array with strict_pd: expected LinAlgError, got ' + oc, dict(matrix=Mf.tolist(), rank=rank))
  # ---- 5. transformation initialisers
    y = data['y']
    if rng.random() < 0.5:
      y = fits.encode_labels(rng, data)['y']        # the selection rule counts classes, whatever their names
    ncls = data['n_classes']
    for nc in range(1, d + 1):
      oc, L = outcome(lambda: _initialize_components(nc, X, y, init='identity'))
      ctx.count('init_components', 1)
      if oc != 'ok' or not np.array_equal(L, np.eye(nc, d)):
        ctx.fail_input('init_components', "'identity' is not the truncated identity", dict(nc=nc, d=d))
      seed = int(rng.integers(0, 1000))
      oc, L1 = outcome(lambda: _initialize_components(nc, X, y, init='random', random_state=seed))
      oc, L2 = outcome(lambda: _initialize_components(nc, X, y, init='random', random_state=seed))
      ctx.count('init_components', 1)
      if oc != 'ok' or L1.shape != (nc, d) or not np.array_equal(L1, L2):
        ctx.fail_input('init_components', "'random' has the wrong shape or is not reproducible", dict(nc=nc, d=d))
      oc, Lp = outcome(lambda: _initialize_components(nc, X, y, init='pca', random_state=0))
      ctx.count('init_components', 1)
      if oc != 'ok' or Lp.shape != (nc, d) or not np.allclose(Lp.dot(Lp.T), np.eye(nc), atol=1e-8):
        ctx.fail_input('init_components', "'pca' does not give nc orthonormal rows", dict(nc=nc, d=d))
      expect = _auto_select_init(True, d, len(X), nc, ncls)
      oc, La = outcome(lambda: _initialize_components(nc, X, y, init='auto', random_state=0))
      oc2, Le = outcome(lambda: _initialize_components(nc, X, y, init=expect, random_state=0))
      ctx.count('init_components', 1)
      if oc != 'ok' or oc2 != 'ok' or La.shape != (nc, d) or not np.array_equal(La, Le):
        ctx.fail_input('init_components', "'auto' does not follow the selection rule", dict(nc=nc, d=d, ncls=ncls, expect=expect))
      A = fits.grid(rng.standard_normal((nc, d)), 4)
      A0 = A.copy()
      oc, L = outcome(lambda: _initialize_components(nc, X, y, init=A))
      ctx.count('init_components', 1)
      if oc != 'ok' or not np.array_equal(L, A0) or L is A or not np.array_equal(A, A0):
        ctx.fail_input('init_components', 'an array init is not used as given (as a copy)', dict(nc=nc, d=d))
    for bad, what in ((np.ones((d, d + 1)), 'wrong input dimensionality'), (np.ones((d + 1, d)), 'more rows than columns'),
                      (np.ones((max(d - 1, 1), d)) if d > 1 else np.ones((2, 1)), 'n_components mismatch')):
      oc, L = outcome(lambda: _initialize_components(d, X, y, init=bad))
      ctx.count('init_components', 1)
      if oc != 'ValueError':
        ctx.fail_input('init_components', 'array init with %s accepted (got %s)' % (what, oc), dict(d=d, shape=list(bad.shape)))
    oc, L = outcome(lambda: _initialize_components(1, X, data['yreg'], init='lda', has_classes=False))
    if oc != 'ValueError':
      ctx.fail_input('init_components', "'lda' accepted for regression targets", dict(d=d))
  ctx.sample(recs[0])
  ctx.sample([r for r in recs if r['kind'] == 'cfm'][0] if any(r['kind'] == 'cfm' for r in recs) else recs[-1])
  if ok:
    res = ctx.run_cases('c20', HEADER, terms, per_file=150)
    for r, rec in zip(res, recs):
      ctx.count('correspondence_' + rec['kind'], 1)
      if r is False:
        ctx.count('correspondence_' + rec['kind'], 0, failures=1)
        if rec['kind'] == 'cfm':
          ctx.fail_input('components_from_metric', 'L^T L differs from M (exact rational check)', dict(M=rec['M']), observed=rec['L'])
        elif rec['kind'] in ('init_cov', 'init_cov_inverse'):
          ctx.fail_input('init_metric', "'covariance' is not the (pseudo-)inverse covariance of the distinct points", rec)
        elif rec['kind'] == 'init_random_spd':
          ctx.fail_input('init_metric', "'random' is not symmetric positive definite", rec)
        else:
          ctx.break_tie('correspondence', 'c20_' + rec['kind'], "model and implementation disagree on %s" % rec)


def replay(payload):
  from metric_learn._util import components_from_metric
  bad = 0
  for f in payload.get('failing_inputs', []):
    i = f['input']
    if 'M' in i and f['sub_check'] == 'components_from_metric':
      M = np.array(i['M'])
      oc, L = outcome(lambda: components_from_metric(M))
      print('replay:', oc)
      bad += 1
  return 1 if bad else 0
