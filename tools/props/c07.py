"""C07 -- constraints generated from labels respect the labels."""
import warnings
import numpy as np
from vcore import glist, gzlist, gnlist, gbool

HEADER = """From Coq Require Import List ZArith Bool.
From ML Require Import Constraints CaseDefs.
Import ListNotations.
"""


class LogRS(np.random.RandomState):
  """records the outputs of the top-level randint / choice calls"""

  def __init__(self, seed):
    super().__init__(seed)
    self.log = []
    self.depth = 0

  def randint(self, *a, **k):
    self.depth += 1
    try:
      r = super().randint(*a, **k)
    finally:
      self.depth -= 1
    if self.depth == 0:
      self.log.append(('randint', np.atleast_1d(np.asarray(r)).tolist()))
    return r

  def choice(self, *a, **k):
    self.depth += 1
    try:
      r = super().choice(*a, **k)
    finally:
      self.depth -= 1
    if self.depth == 0:
      self.log.append(('choice', np.atleast_1d(np.asarray(r)).tolist()))
    return r


def gen_labels(rng):
  n = int(rng.integers(2, 41))
  ncls = int(rng.integers(1, 6))
  probs = rng.dirichlet(np.ones(ncls) * rng.choice([0.3, 1.0, 5.0]))
  y = rng.choice(ncls, size=n, p=probs)
  if rng.random() < 0.3:
    y = y * int(rng.integers(1, 4)) + int(rng.integers(0, 3))       # non-contiguous label values
  unk = rng.random(n) < rng.choice([0.0, 0.2, 0.5])
  y = np.where(unk, -1, y)
  if rng.random() < 0.3:
    y = np.where(unk, rng.choice([-1, -2, -7], size=n), y)          # every negative value means "unknown", not only -1
  return y


def gpairs(ps):
  return glist(["(%d, %d)" % (a, b) for a, b in ps])


def gtrip(ts):
  return glist(["(%d, %d, %d)" % (a, b, c) for a, b, c in ts])


def iters_from_log(log):
  iters = []
  for kind, vals in log:
    if kind == 'randint':
      iters.append((list(vals), []))
    else:
      if not iters:
        return None
      iters[-1][1].extend(vals)
  return iters


def giters(iters):
  return glist(["(%s, %s)" % (gnlist(a), gnlist(c)) for a, c in iters])


def pair_property(y, a, b, same, n):
  """C07's clauses for pairs, directly on the implementation's output"""
  a, b = np.asarray(a), np.asarray(b)
  if len(a) != len(b) or len(a) > n:
    return 'more pairs than requested'
  if len(a) and (a.min() < 0 or b.min() < 0 or a.max() >= len(y) or b.max() >= len(y)):
    return 'index outside the caller array'
  if np.any(y[a] < 0) or np.any(y[b] < 0):
    return 'a pair contains a point with unknown label'
  if same and (np.any(a == b) or np.any(y[a] != y[b])):
    return 'positive pair joins identical points or different labels'
  if (not same) and np.any(y[a] == y[b]):
    return 'negative pair joins equal labels'
  if len(set(zip(a.tolist(), b.tolist()))) != len(a):
    return 'a pair is repeated'
  return None


def run(ctx):
  from metric_learn.constraints import Constraints
  import metric_learn.constraints as mc_mod
  thorough = ctx.tier == 'thorough'
  rng = ctx.rng
  ctx.rule = ("label vectors of length 2..40 over 1..5 classes (unbalanced, singleton classes, non-contiguous label "
              "values) with unknown labels (-1) at arbitrary positions; n_constraints from 1 to beyond the number of existing "
              "pairs; chunk_size 1..4, n_chunks up to and beyond the feasible number; k_genuine, k_impostor 1..5 on integer "
              "grid points with duplicates.  The implementation runs with a logging RandomState; the Coq model replays the "
              "recorded random outputs and must reproduce the implementation's constraints exactly (pairs as sets, chunks "
              "and triplets exactly).  non-trivial = at least one constraint produced; distinct = distinct (labels, "
              "parameters, stream).")
  ctx.trusted = ["text pins tools/translate_pins.py (Constraints)", "Coq 8.16.1 kernel + vm_compute", "hand-written model Model/Constraints.v tied to the code by replaying the recorded random stream",
                 "oracle: numpy RandomState.randint/choice return values in range / members of their argument",
                 "oracle: scikit-learn NearestNeighbors (tables checked per run: right class, not the point itself; nearest-ness by brute force in the harness)",
                 "harness decodes the recorded stream (class bookkeeping for chunks, index frames for k-NN)"]
  ok = ctx.build_property()
  terms, recs = [], []
  N = 1500 if thorough else 260
  for it in range(N):
    y = gen_labels(rng)
    if it in (0, 3, 6, 9, 12, 15):
      y = np.array([3, 3, -1, 7, 7, -1, 9])      # tiny classes: fewer pairs exist than are asked for below
    known = np.flatnonzero(y >= 0)
    kind = it % 3
    if kind == 0:
      # ---------------- pairs
      if len(known) == 0:
        continue
      same = bool(rng.random() < 0.5)
      n = int(rng.integers(1, 30))
      if it in (0, 3, 6, 9, 12, 15):
        same, n = bool(it % 2 == 0), 12
      seed = int(rng.integers(0, 2 ** 31 - 1))
      rs = LogRS(seed)
      c = Constraints(y)
      with warnings.catch_warnings(record=True) as w:
        warnings.simplefilter('always')
        try:
          ab = c._pairs(n, same_label=same, random_state=rs)
        except Exception as ex:
          ctx.fail_input('pairs', '_pairs raises ' + type(ex).__name__, dict(labels=y.tolist(), n=n, same=same, seed=seed))
          continue
      warned = any('Only generated' in str(x.message) for x in w)
      a, b = (ab[0], ab[1]) if len(ab) == 2 and np.ndim(ab) == 2 else (np.array([], int), np.array([], int))
      iters = iters_from_log(rs.log)
      ps = list(zip(np.asarray(a).tolist(), np.asarray(b).tolist()))
      terms.append("(c07_pairs %s %d%%nat %s %s %s %s)" % (gzlist(y), n, gbool(same), giters(iters), gpairs(ps), gbool(warned)))
      recs.append(dict(kind='pairs', y=y, n=n, same=same, seed=seed, a=a, b=b, warned=warned))
      ctx.seen(('pairs', y.tolist(), n, same, seed), len(ps) > 0)
      # same integer seed reproduces the same constraints
      ab2 = Constraints(y)._pairs(n, same_label=same, random_state=np.random.RandomState(seed)) if False else None
      ctx.sample(dict(kind='pairs', labels=y.tolist(), n_constraints=n, same_label=same, seed=seed, pairs=ps[:6],
                      stream=[(k, v[:6]) for k, v in rs.log[:3]]), limit=2)
    elif kind == 1:
      # ---------------- chunks
      chunk_size = int(rng.integers(1, 5))
      uniq = [u for u in np.unique(y) if u >= 0]
      sizes = [int(np.sum(y == u)) for u in uniq]
      maxc = sum(s // chunk_size for s in sizes)
      n_chunks = int(rng.integers(1, max(2, maxc + 3)))
      seed = int(rng.integers(0, 2 ** 31 - 1))
      rs = LogRS(seed)
      try:
        with warnings.catch_warnings():
          warnings.simplefilter('ignore')
          ch = Constraints(y).chunks(n_chunks=n_chunks, chunk_size=chunk_size, random_state=rs)
        raised = None
      except ValueError as ex:
        ch, raised = None, ex
      except Exception as ex:
        ctx.fail_input('chunks', 'chunks raises ' + type(ex).__name__, dict(labels=y.tolist(), n_chunks=n_chunks, chunk_size=chunk_size, seed=seed))
        continue
      # decode the stream into Drop / Take steps (bookkeeping of class sizes)
      steps = []
      rem = list(sizes)
      ev = list(rs.log)
      idx = 0
      okdec = raised is None
      while okdec and idx < n_chunks and rem:
        if len(rem) == 1:
          cpos = 0
        else:
          if not ev or ev[0][0] != 'randint':
            okdec = False
            break
          cpos = ev.pop(0)[1][0]
        if cpos >= len(rem):
          okdec = False
          break
        if rem[cpos] < chunk_size:
          steps.append("Drop %d" % cpos)
          del rem[cpos]
          continue
        if not ev or ev[0][0] != 'choice':
          okdec = False
          break
        ii = ev.pop(0)[1]
        steps.append("Take %d %s" % (cpos, gnlist(ii)))
        rem[cpos] -= chunk_size
        idx += 1
      if raised is None and (not okdec or ev):
        ctx.break_tie('correspondence', 'c07_chunks', "recorded random stream does not fit the loop structure: %s" % dict(
            labels=y.tolist(), n_chunks=n_chunks, chunk_size=chunk_size, seed=seed))
        continue
      impl = "None" if ch is None else "(Some %s)" % gzlist(ch)
      terms.append("(c07_chunks %s %d%%nat %d%%nat %s %s)" % (gzlist(y), n_chunks, chunk_size,
                                                            glist(["(" + s + ")" for s in steps]), impl))
      recs.append(dict(kind='chunks', y=y, n_chunks=n_chunks, chunk_size=chunk_size, seed=seed, ch=ch, maxc=maxc))
      ctx.seen(('chunks', y.tolist(), n_chunks, chunk_size, seed), ch is not None)
      ctx.hist('chunks_outcome', 'ValueError' if ch is None else 'ok')
    else:
      # ---------------- k-NN triplets
      uniq, cnt = np.unique(y[known], return_counts=True) if len(known) else (np.array([]), np.array([]))
      if len(uniq) < 2 or cnt.min() < 2:
        continue
      d = int(rng.integers(1, 4))
      X = rng.integers(-3, 4, size=(len(y), d)).astype(float)    # duplicates are likely
      kg, ki = int(rng.integers(1, 6)), int(rng.integers(1, 6))
      tables = []
      Orig = mc_mod.NearestNeighbors

      class LogNN(Orig):
        def kneighbors(self, X=None, n_neighbors=None, return_distance=True):
          r = super().kneighbors(X=X, n_neighbors=n_neighbors, return_distance=return_distance)
          tables.append(np.array(r))
          return r
      try:
        mc_mod.NearestNeighbors = LogNN
        with warnings.catch_warnings():
          warnings.simplefilter('ignore')
          trip = Constraints(y).generate_knntriplets(X, kg, ki)
      except Exception as ex:
        ctx.fail_input('knn', 'generate_knntriplets raises ' + type(ex).__name__,
                       dict(labels=y.tolist(), X=X.tolist(), k_genuine=kg, k_impostor=ki), observed=str(ex)[:200])
        continue
      finally:
        mc_mod.NearestNeighbors = Orig
      kl = y[known]
      cls = []
      okt = len(tables) == 2 * len(uniq)
      for i, u in enumerate(uniq):
        if not okt:
          break
        gen_indx = np.flatnonzero(kl == u)
        imp_indx = np.flatnonzero(kl != u)
        gn = gen_indx[tables[2 * i]]
        im = imp_indx[tables[2 * i + 1]]
        cls.append("(%s, %s, %s)" % (gnlist(gen_indx), glist([gnlist(r) for r in gn]), glist([gnlist(r) for r in im])))
      if not okt:
        ctx.break_tie('correspondence', 'c07_knn', 'unexpected number of neighbour searches')
        continue
      terms.append("(c07_knn %s %s %s)" % (gzlist(y), glist(cls), gtrip(trip.tolist())))
      recs.append(dict(kind='knn', y=y, X=X, kg=kg, ki=ki, trip=trip))
      ctx.seen(('knn', y.tolist(), X.tolist(), kg, ki), len(trip) > 0)
      ctx.sample(dict(kind='knn', labels=y.tolist(), k_genuine=kg, k_impostor=ki, triplets=trip[:4].tolist()), limit=4)
    ctx.hist('kind', ['pairs', 'chunks', 'knn'][kind])
    ctx.hist('n_unknown', int(np.sum(y < 0)))

  def falsify(rec):
    y = rec['y']
    ctx.count('falsifier', 1)
    if rec['kind'] == 'pairs':
      r = pair_property(y, rec['a'], rec['b'], rec['same'], rec['n'])
      if r is None and rec['warned'] != (len(rec['a']) < rec['n']):
        r = ('%d of the %d requested pairs were returned and no warning was issued' % (len(rec['a']), rec['n'])) if not rec['warned'] \
            else 'a warning was issued although the requested number of pairs was returned'
      if r is None:
        # determinism: the same integer seed reproduces the same constraints
        with warnings.catch_warnings():
          warnings.simplefilter('ignore')
          ab2 = Constraints(y)._pairs(rec['n'], same_label=rec['same'], random_state=np.random.RandomState(rec['seed']))
        if not (np.array_equal(np.asarray(ab2[0]) if len(ab2) == 2 else [], rec['a'])):
          r = 'same seed gives different pairs'
      if r:
        ctx.fail_input('pairs', r, dict(labels=y.tolist(), n=rec['n'], same=rec['same'], seed=rec['seed']),
                       observed=[np.asarray(rec['a']).tolist(), np.asarray(rec['b']).tolist()])
        return True
    elif rec['kind'] == 'chunks':
      ch = rec['ch']
      r = None
      if ch is None:
        if rec['maxc'] >= rec['n_chunks']:
          r = 'ValueError although enough chunks exist'
      else:
        if rec['maxc'] < rec['n_chunks']:
          r = 'no ValueError although the chunks cannot be formed'
        ids = sorted(set(ch[ch >= 0].tolist()))
        if r is None and ids != list(range(rec['n_chunks'])):
          r = 'not exactly n_chunks chunks'
        for k in ids:
          m = np.flatnonzero(ch == k)
          if r is None and (len(m) != rec['chunk_size'] or len(set(y[m].tolist())) != 1 or y[m[0]] < 0):
            r = 'a chunk has the wrong size or mixes classes / unknown labels'
        if r is None and np.any(ch[y < 0] != -1):
          r = 'a point with unknown label is in a chunk'
      if r:
        ctx.fail_input('chunks', r, dict(labels=y.tolist(), n_chunks=rec['n_chunks'], chunk_size=rec['chunk_size'], seed=rec['seed']),
                       observed=None if ch is None else ch.tolist())
        return True
    else:
      X, trip = rec['X'], rec['trip']
      r = None
      if len(trip) and (trip.min() < 0 or trip.max() >= len(y)):
        r = 'index outside the caller array'
      elif len(trip) and np.any(y[trip] < 0):
        r = 'a triplet names a point with unknown label (indices are not in the caller frame)'
      elif len(trip):
        a, b, c = trip[:, 0], trip[:, 1], trip[:, 2]
        if np.any(a == b) or np.any(y[a] != y[b]) or np.any(y[a] == y[c]):
          r = 'triplet classes are wrong'
        elif len(set(map(tuple, trip.tolist()))) != len(trip):
          r = 'a triplet is repeated'
        else:
          # b among the k_genuine nearest same-class points of a, c among the k_impostor nearest others (tie tolerant)
          for aa in np.unique(a):
            sc = np.flatnonzero((y == y[aa]) & (np.arange(len(y)) != aa))
            oc = np.flatnonzero((y != y[aa]) & (y >= 0))
            dsc = np.sum((X[sc] - X[aa]) ** 2, axis=1)
            doc = np.sum((X[oc] - X[aa]) ** 2, axis=1)
            kg = min(rec['kg'], len(sc))
            ki = min(rec['ki'], len(oc))
            bs = np.unique(b[a == aa])
            cs = np.unique(c[a == aa])
            if len(bs) != kg or len(cs) != ki:
              r = 'wrong number of genuine/impostor neighbours for anchor %d' % aa
              break
            if np.any(np.sum((X[bs] - X[aa]) ** 2, axis=1) > np.sort(dsc)[kg - 1]) or \
               np.any(np.sum((X[cs] - X[aa]) ** 2, axis=1) > np.sort(doc)[ki - 1]):
              r = 'a neighbour is not among the k nearest'
              break
            if np.sum(a == aa) != kg * ki:
              r = 'not every combination exactly once'
              break
          known_a = set(np.flatnonzero(y >= 0).tolist())
          if r is None and set(a.tolist()) != known_a:
            r = 'not every labelled point is an anchor'
      if r:
        ctx.fail_input('knn', r, dict(labels=y.tolist(), X=X.tolist(), k_genuine=rec['kg'], k_impostor=rec['ki']),
                       observed=trip[:10].tolist())
        return True
    return False

  found = 0
  if ok:
    res = ctx.run_cases('c07', HEADER, terms, per_file=100)
    for r, rec in zip(res, recs):
      ctx.count('correspondence_' + rec['kind'], 1)
      if r is False:
        if falsify(rec):
          found += 1
        else:
          ctx.count('correspondence_' + rec['kind'], 0, failures=1)
          ctx.break_tie('correspondence', 'c07_' + rec['kind'],
                        "model and implementation disagree on %s" % {k: (v.tolist() if isinstance(v, np.ndarray) else v)
                                                                      for k, v in rec.items()})
  for rec in recs:
    if found > 5:
      break
    if falsify(rec):
      found += 1
  # positive_negative_pairs end to end: equals the two _pairs calls, same_length truncates both
  for _ in range(60 if thorough else 15):
    y = gen_labels(rng)
    if np.sum(y >= 0) < 2:
      continue
    n = int(rng.integers(1, 20))
    seed = int(rng.integers(0, 2 ** 31 - 1))
    with warnings.catch_warnings():
      warnings.simplefilter('ignore')
      try:
        a, b, c, d = Constraints(y).positive_negative_pairs(n, same_length=True, random_state=seed)
        a2, b2, c2, d2 = Constraints(y).positive_negative_pairs(n, same_length=False, random_state=seed)
      except Exception:
        continue
    ctx.count('same_length', 1)
    okk = (len(a) == len(b) == len(c) == len(d) == min(len(a2), len(c2)) and
           set(zip(a.tolist(), b.tolist())) <= set(zip(a2.tolist(), b2.tolist())) and
           set(zip(c.tolist(), d.tolist())) <= set(zip(c2.tolist(), d2.tolist())) and
           pair_property(y, a, b, True, n) is None and pair_property(y, c, d, False, n) is None)
    if not okk:
      ctx.fail_input('same_length', 'same_length does not give equally many sound pairs',
                     dict(labels=y.tolist(), n=n, seed=seed))

  # the helper object carries no state between calls: every generator called again on the SAME Constraints object with the same
  # integer seed (and after calls of the other generators) returns what a fresh object returns
  for _ in range(40 if thorough else 12):
    y = gen_labels(rng)
    known = y[y >= 0]
    if len(known) < 4 or len(np.unique(known)) < 2:
      continue
    seed = int(rng.integers(0, 2 ** 31 - 1))
    n = int(rng.integers(1, 15))
    cs = 2
    counts = np.bincount(known)
    nch = int(max(1, min(3, np.sum(counts // cs))))
    X = np.asarray(rng.standard_normal((len(y), 2)))

    def calls(c):
      out = []
      with warnings.catch_warnings():
        warnings.simplefilter('ignore')
        for f in (lambda: c.chunks(n_chunks=nch, chunk_size=cs, random_state=seed),
                  lambda: c.positive_negative_pairs(n, random_state=seed),
                  lambda: c.generate_knntriplets(X, 1, 1)):
          try:
            r = f()
            out.append([np.asarray(v).tolist() for v in r] if isinstance(r, tuple) else np.asarray(r).tolist())
          except Exception as ex:
            out.append('raises ' + type(ex).__name__)
      return out
    shared = Constraints(y)
    first, second, third = calls(shared), calls(shared), calls(shared)
    fresh = calls(Constraints(y))
    ctx.count('stateless_helper', 1)
    if not (first == fresh and second == fresh and third == fresh):
      which = [nm for nm, a, b, c2 in zip(('chunks', 'positive_negative_pairs', 'generate_knntriplets'), second, third, fresh) if a != c2 or b != c2]
      ctx.fail_input('stateless_helper', 'calling %s again on the same Constraints object (same seed) gives another result than a fresh object' % ', '.join(which or ['a generator']),
                     dict(labels=y.tolist(), seed=seed, n_chunks=nch, chunk_size=cs, n_constraints=n), observed=second, expected=fresh)


def replay(payload):
  from metric_learn.constraints import Constraints
  bad = 0
  for f in payload.get('failing_inputs', []):
    i = f['input']
    y = np.array(i['labels'])
    if f['sub_check'] == 'knn':
      with warnings.catch_warnings():
        warnings.simplefilter('ignore')
        t = Constraints(y).generate_knntriplets(np.array(i['X']), i['k_genuine'], i['k_impostor'])
      b = bool(len(t) and (t.max() >= len(y) or np.any(y[np.clip(t, 0, len(y) - 1)] < 0)))
      print('replay knn: names unlabeled point:', b)
      bad += b
  return 1 if bad else 0
