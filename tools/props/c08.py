"""C08 -- supervised variants equal the base learner run on label-derived constraints."""
import warnings
import numpy as np
import fits

PAIRS = {'ITML_Supervised': 'ITML', 'MMC_Supervised': 'MMC', 'SDML_Supervised': 'SDML'}
SUP_ONLY = ('n_constraints', 'num_constraints', 'n_chunks', 'chunk_size', 'num_chunks', 'k_genuine', 'k_impostor', 'weights')


def base_of(name, kw):
  import metric_learn
  bkw = {k: v for k, v in kw.items() if k not in SUP_ONLY}
  if name in PAIRS:
    return getattr(metric_learn, PAIRS[name])(**bkw)
  if name == 'LSML_Supervised':
    return metric_learn.LSML(**bkw)
  if name == 'RCA_Supervised':
    bkw.pop('random_state', None)
    return metric_learn.RCA(**bkw)
  if name == 'SCML_Supervised':
    return metric_learn.SCML(**bkw)


def via_constraints(name, kw, X, y):
  """the documented pipeline, written out against the public Constraints helper"""
  from metric_learn.constraints import Constraints, wrap_pairs
  seed = kw.get('random_state')
  base = base_of(name, kw)
  with warnings.catch_warnings():
    warnings.simplefilter('ignore')
    if name in PAIRS or name == 'LSML_Supervised':
      n = kw.get('n_constraints')
      if n is None:
        n = 20 * len(np.unique(y)) ** 2
      if name == 'LSML_Supervised':
        pos_neg = Constraints(y).positive_negative_pairs(n, same_length=True, random_state=seed)
        base._fit(X[np.column_stack(pos_neg)], weights=kw.get('weights')) if False else \
            base.fit(X[np.column_stack(pos_neg)], weights=kw.get('weights'))
        used = np.unique(np.column_stack(pos_neg))
        cons = ('pairs', pos_neg)
      else:
        pos_neg = Constraints(y).positive_negative_pairs(n, random_state=seed)
        pairs, yp = wrap_pairs(X, pos_neg)
        base._fit(pairs, yp)          # the pairs learner's fit additionally calibrates a threshold
        used = np.unique(np.concatenate(pos_neg))
        cons = ('pairs', pos_neg)
    elif name == 'RCA_Supervised':
      chunks = Constraints(y).chunks(n_chunks=kw['n_chunks'], chunk_size=kw['chunk_size'], random_state=seed)
      base.fit(X, chunks)
      used = np.flatnonzero(chunks >= 0)
      cons = ('chunks', chunks)
    else:
      trip = Constraints(y).generate_knntriplets(X, kw['k_genuine'], kw['k_impostor'])
      if kw.get('basis', 'lda') == 'lda':
        # the lda basis is built from (X, y) by the supervised class itself
        sup = fits.make_estimator(name, kw)
        sup.preprocessor_ = None
        # ... from the labelled points alone (documented pipeline: unlabelled points take no part)
        basis, n_basis = sup._generate_bases_LDA(X[np.asarray(y) >= 0], np.asarray(y)[np.asarray(y) >= 0])
        base.set_params(basis=basis, n_basis=None)
        base._fit(X[trip], basis, n_basis)
      else:
        base.fit(X[trip])
      used = np.unique(trip)
      cons = ('triplets', trip)
  return base, used, cons


def label_derived(cons, y):
  """the tuples must be what the labels say: similar = equal known labels, dissimilar = different known labels"""
  kind, c = cons
  y = np.asarray(y)
  if kind == 'pairs':
    a, b, cc, d = [np.asarray(v, dtype=int) for v in c]
    if np.any(y[a] != y[b]):
      return 'a similar pair joins different labels'
    if np.any(y[cc] == y[d]):
      return 'a dissimilar pair joins equal labels'
  elif kind == 'chunks':
    for k in range(int(c.max()) + 1):
      if len(np.unique(y[c == k])) > 1:
        return 'a chunk mixes labels'
  else:
    c = np.asarray(c, dtype=int)
    if np.any(y[c[:, 0]] != y[c[:, 1]]) or np.any(y[c[:, 0]] == y[c[:, 2]]):
      return 'a triplet is not (anchor, same label, other label)'
  return None


def run(ctx):
  thorough = ctx.tier == 'thorough'
  rng = ctx.rng
  ctx.rule = ("6 supervised estimators x {default, explicit n_constraints / n_chunks / chunk_size / k_genuine / k_impostor} x "
              "integer seeds x label layouts {fully labelled, unknown labels (-1) at random positions, at the front, at the "
              "back} x {distinct samples, a few samples repeated within a class}: components_ of X_Supervised.fit(X, y) must be bit-identical to the base learner fitted on the tuples "
              "that the public Constraints helper derives from y with the same random_state; no constraint may use a point "
              "whose label is -1; the derived tuples agree with the labels (similar = equal known labels, dissimilar = different).  non-trivial = unknown labels present or non-default parameters.")
  ctx.trusted = ["Coq 8.16.1 kernel", "translator tools/translate_supervised.py (canonical statement spelling)",
                 "C07's model of Constraints (re-exported clauses)", "determinism of the solvers (C17)"]
  ctx.build_property(gen_needed=['Src_supervised'])
  layouts = ['full', 'random_unknown', 'front_unknown', 'back_unknown']
  reps = 8 if thorough else 2
  for name in ['ITML_Supervised', 'MMC_Supervised', 'SDML_Supervised', 'LSML_Supervised', 'RCA_Supervised', 'SCML_Supervised']:
    for rep in range(reps):
      for layout in layouts:
        ncls = int(rng.integers(2, 4))
        sizes = [int(rng.integers(7, 12)) for _ in range(ncls)]
        if name == 'SCML_Supervised' and rep % 2 == 1:
          sizes = [5] + [int(rng.integers(14, 20)) for _ in range(ncls - 1)]     # one small class, the others large
        if name in ('ITML_Supervised', 'MMC_Supervised', 'SDML_Supervised', 'LSML_Supervised') and layout == 'full' and rep == 0:
          # a small training set: the default number of constraints (20 * n_classes^2 = 180) exceeds the number of pairs of points
          ncls, sizes = 3, [5, 5, 5]
          ctx.hist('small_training_set', name)
        data = fits.make_data(rng, n_classes=ncls, n_per_class=sizes)
        X, y = data['X'], data['y'].copy()
        if layout == 'full' and rep == 0:
          y = 3 * y + 1                                     # gapped label names (deterministic case, with the default n_constraints below)
          ctx.hist('label_names', 'gapped (3y+1)')
        elif rng.random() < 0.5:
          y = fits.encode_labels(rng, data)['y'].copy()     # class labels are names: 1-based, tens, gapped
          ctx.hist('label_names', 'renamed')
        n = len(y)
        # repeated samples (the same row more than once within a class), as in iris
        dup = bool(rng.random() < 0.5)
        if dup:
          X = X.copy()
          for _ in range(int(rng.integers(2, 5))):
            c = int(rng.choice(np.unique(y)))
            i, j = rng.choice(np.flatnonzero(y == c), size=2, replace=False)
            X[j] = X[i]
          data = dict(data)
          data['X'] = X
        ctx.hist('repeated_rows', dup)
        if layout == 'random_unknown':
          y[rng.random(n) < 0.25] = -1
        elif layout == 'front_unknown':
          y[:n // 5] = -1
        elif layout == 'back_unknown':
          y[-(n // 5):] = -1
        for c in np.unique(y[y >= 0]):
          if np.sum(y == c) < 4:
            y[y == c] = -1
        if len(np.unique(y[y >= 0])) < 2:
          continue
        # the type the labels are held in is immaterial (same names, -1 still means unknown)
        ydt = [np.int64, np.int32, np.float64, np.int8, np.float32][(rep + 2 * layouts.index(layout)) % 5]
        if np.abs(y).max() < 120:
          y = y.astype(ydt)
          ctx.hist('label_dtype', np.dtype(ydt).name)
        kw = fits.base_kwargs(name, data)
        kw['random_state'] = int(rng.integers(0, 1000))
        variant = int(rng.integers(0, 2))
        if name == 'RCA_Supervised':
          cs = int(rng.integers(2, 4))
          feasible = int(sum(np.sum(y == c) // cs for c in np.unique(y[y >= 0])))    # more is a documented ValueError (C07)
          kw.update(n_chunks=max(1, min(int(rng.integers(3, 6)), feasible)), chunk_size=cs)
        elif name == 'SCML_Supervised':
          kw.update(k_genuine=int(rng.integers(1, 4)), k_impostor=int(rng.integers(1, 5)),
                    basis=['lda', 'triplet_diffs'][variant])
          if rep % 2 == 1:
            # more neighbours than the small class can supply (clipped for that class only, with a warning)
            kw.update(k_genuine=int(rng.integers(5, 8)), k_impostor=int(rng.integers(8, 13)))
          if variant == 0:
            # more LDA bases than 2 * (labelled samples) * min(n_classes - 1, d) - 1 is a documented ValueError
            nk = int(np.sum(y >= 0))
            cap = nk * 2 * min(len(np.unique(y[y >= 0])) - 1, X.shape[1]) - 1
            kw['n_basis'] = int(min(kw.get('n_basis') or cap, cap))
        elif layout == 'full' and (variant == 0 or rep == 0):
          kw['n_constraints'] = None      # the documented default 20 * n_classes^2 (fully labelled data only)
        else:
          kw['n_constraints'] = int(rng.integers(8, 40))
        if name in ('ITML_Supervised', 'LSML_Supervised', 'MMC_Supervised') and (rep + layouts.index(layout)) % 2 == 0:
          # a data-dependent prior: it is computed by the base learner from the points that appear in the constraints
          kw['init' if name == 'MMC_Supervised' else 'prior'] = 'covariance'
          ctx.hist('prior', name + ': covariance')
        kw = fits.sdml_fix_balance(name, kw, data)
        if name == 'SDML_Supervised':
          kw['balance_param'] = min(kw['balance_param'], 2.0 ** -12)
        ctx.count('supervised_vs_base', 1)
        ctx.seen((name, layout, rep, variant), layout != 'full' or variant == 1)
        ctx.hist('layout', layout)
        exs = []
        for side in (lambda: fits.make_estimator(name, kw).fit(X, y), lambda: via_constraints(name, kw, X, y)):
          try:
            with warnings.catch_warnings():
              warnings.simplefilter('ignore')
              side()
            exs.append(None)
          except Exception as ex0:
            exs.append(type(ex0).__name__)
        if dup and exs[0] is not None and exs[0] == exs[1]:
          ctx.count('supervised_vs_base', 0, skipped=1)      # both sides reject the same (collapsed) tuples
          continue
        try:
          with warnings.catch_warnings():
            warnings.simplefilter('ignore')
            sup = fits.make_estimator(name, kw).fit(X, y)
            base, used, cons = via_constraints(name, kw, X, y)
        except Exception as ex:
          ctx.fail_input('supervised_vs_base', '%s: pipeline raises %s' % (name, type(ex).__name__),
                         dict(estimator=name, layout=layout, y=y.tolist(), params={k: repr(v)[:40] for k, v in kw.items()}),
                         observed=str(ex)[:200])
          continue
        inp = dict(estimator=name, layout=layout, X=X.tolist(), y=y.tolist(), params={k: repr(v)[:40] for k, v in kw.items()})
        if np.any(y[used] < 0):
          ctx.fail_input('unknown_never_constrained', name + ': a constraint uses a point whose label is unknown', inp,
                         observed=[int(i) for i in used if y[i] < 0])
        bad = label_derived(cons, y)
        ctx.count('label_derived', 1)
        if bad is not None:
          ctx.fail_input('label_derived', name + ': ' + bad, inp, observed=[np.asarray(v).tolist() for v in cons[1]] if cons[0] == 'pairs'
                         else np.asarray(cons[1]).tolist())
        if not np.array_equal(sup.components_, base.components_, equal_nan=True):
          ctx.fail_input('supervised_vs_base', name + ' with %s labels: metric differs from the base learner on Constraints-derived tuples' % (
              'unknown' if layout != 'full' else 'complete'), inp,
              observed=np.asarray(sup.components_).tolist(), expected=np.asarray(base.components_).tolist())
        ctx.sample(dict(estimator=name, layout=layout, y=y.tolist()[:12], params={k: repr(v)[:30] for k, v in kw.items()}), limit=4)
        # "the learned metric is the one obtained from the labelled points' constraints alone": the unlabelled rows may hold
        # anything.  (Dropping those rows is NOT compared: the helper draws among index sets, whose iteration order depends on
        # the index values, so another index frame legitimately gives other, equally valid, constraints.)
        if layout != 'full':
          unk = y < 0
          X2 = X.copy()
          X2[unk] = fits.grid(X[unk] * 3.0 + rng.standard_normal((int(unk.sum()), X.shape[1])) * 5.0, 4)
          ctx.count('unlabelled_irrelevant', 1)
          try:
            with warnings.catch_warnings():
              warnings.simplefilter('ignore')
              moved = fits.make_estimator(name, kw).fit(X2, y)
          except Exception as ex:
            ctx.fail_input('unlabelled_irrelevant', '%s: fit with other unlabelled rows raises %s' % (name, type(ex).__name__),
                           inp, observed=str(ex)[:200])
          else:
            tolc = 1e-9 * (1 + (np.abs(sup.components_).max() if np.size(sup.components_) else 0.0))     # SCML may keep no basis: shape (0, d)
            if moved.components_.shape != sup.components_.shape or (np.size(sup.components_) and np.abs(moved.components_ - sup.components_).max() > tolc):
              ctx.fail_input('unlabelled_irrelevant', name + ': changing the coordinates of the unlabelled points changes the learned metric', inp,
                             observed=np.asarray(moved.components_).tolist(), expected=np.asarray(sup.components_).tolist())
        # metric obtained from the labelled points alone: drop the unknown rows, replay the same constraints as coordinates
        if layout != 'full' and name in PAIRS:
          from metric_learn.constraints import Constraints, wrap_pairs
          with warnings.catch_warnings():
            warnings.simplefilter('ignore')
            pn = Constraints(y).positive_negative_pairs(kw['n_constraints'], random_state=kw['random_state'])
            pairs, yp = wrap_pairs(X, pn)
            keep = np.flatnonzero(y >= 0)
            remap = -np.ones(n, dtype=int)
            remap[keep] = np.arange(len(keep))
            pn2 = [remap[a] for a in pn]
            pairs2, yp2 = wrap_pairs(X[keep], pn2)
          ctx.count('labelled_subarray', 1)
          if min(a.min() for a in pn2 if len(a)) < 0 or not np.array_equal(pairs, pairs2):
            ctx.fail_input('unknown_never_constrained', name + ': tuples are not those of the labelled sub-array', inp)


def replay(payload):
  print('replay: re-run ./check C08 with VERIF_SEED=%s' % payload.get('seed'))
  return 1
