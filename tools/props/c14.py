"""C14 -- MMC returns a PSD matrix that satisfies its similarity budget."""
import warnings
import numpy as np
import fits
from vcore import qdy, gmat, glist, gvec
from props.c20 import HEADER


def fit_observed(name, kw, data):
  import metric_learn
  from metric_learn import mmc as mmc_mod
  seen = {}
  orig = mmc_mod._initialize_metric_mahalanobis

  def spy(*a, **k):
    r = orig(*a, **k)
    seen['A_init'] = np.array(r)
    return r
  est = getattr(metric_learn, name)(**kw)
  try:
    mmc_mod._initialize_metric_mahalanobis = spy
    with warnings.catch_warnings():
      warnings.simplefilter('ignore')
      est.fit(*fits.fit_args(name, data))
  finally:
    mmc_mod._initialize_metric_mahalanobis = orig
  return est, seen.get('A_init')


def first_projection_converges(A0, vs, max_proj, eps=0.01):
  """the property's hypothesis `max_proj large enough for one projection to converge`, decided by an
  independent evaluation of the documented alternating projection (half-space, then PSD cone)"""
  d = A0.shape[0]
  A = A0.copy()
  w = np.einsum('ij,ik->jk', vs, vs).ravel()
  t = w.dot(A.ravel()) / 100.0
  wn = np.linalg.norm(w)
  w1, t1 = w / wn, t / wn
  for it in range(max_proj):
    x0 = A.ravel()
    if w.dot(x0) > t:
      A = (x0 + (t1 - w1.dot(x0)) * w1).reshape(d, d)
    l, V = np.linalg.eigh((A + A.T) / 2)
    A = np.dot(V * np.maximum(0, l[None, :]), V.T)
    if (w.dot(A.ravel()) - t) / t < eps:
      return it + 1
  return None


def projection_errors(A0, vs, n):
  """the relative budget violation (fDC2 - t) / t after each of the first n steps of the documented alternating projection"""
  d = A0.shape[0]
  A = A0.copy()
  w = np.einsum('ij,ik->jk', vs, vs).ravel()
  t = w.dot(A.ravel()) / 100.0
  wn = np.linalg.norm(w)
  w1, t1 = w / wn, t / wn
  out = []
  for it in range(n):
    x0 = A.ravel()
    if w.dot(x0) > t:
      A = (x0 + (t1 - w1.dot(x0)) * w1).reshape(d, d)
    l, V = np.linalg.eigh((A + A.T) / 2)
    A = np.dot(V * np.maximum(0, l[None, :]), V.T)
    out.append((w.dot(A.ravel()) - t) / t)
  return out


def similar_diffs(name, kw, data):
  X = data['X']
  if name == 'MMC':
    P, y = X[data['pairs_idx']], data['ypairs']
  else:
    from metric_learn.constraints import Constraints, wrap_pairs
    with warnings.catch_warnings():
      warnings.simplefilter('ignore')
      pn = Constraints(data['y']).positive_negative_pairs(kw['n_constraints'], random_state=kw['random_state'])
    P, y = wrap_pairs(X, pn)
  return P[y == 1][:, 0] - P[y == 1][:, 1]


def run(ctx):
  thorough = ctx.tier == 'thorough'
  rng = ctx.rng
  ctx.rule = ("MMC and MMC_Supervised x init in {identity, covariance, random, SPD array} x max_iter x tol, max_proj=10000, "
              "diagonal in {False, True} (diagonal_c in 0.1, 1, 10): full variant: fitted M is PSD (exact LDL^T of M + 1e-9 "
              "max|M| I) and sum over similar pairs of v^T M v <= 1.01 * t with t = (sum v^T A_init v)/100 recomputed on "
              "rationals from the pairs and the initial matrix the implementation started from; the initial matrix is the "
              "documented one; the same with max_proj just above what the first projection needs (similar pairs along one direction); diagonal variant: M diagonal with non-negative entries, or ValueError, never NaN.")
  ctx.trusted = ["translator tools/translate_mmc.py + tools/pynum.py / Base/NPNum.v (budget, half-space step, exit test), text pins (all of _BaseMMC)", "Coq 8.16.1 kernel + vm_compute", "model Model/MMC.v (outer loop over abstract oracles)",
                 "oracle: numpy eigh inside the projection"]
  ok = ctx.build_property(gen_needed=['Src_mmc'])
  terms, recs = [], []
  n = 60 if thorough else 14
  for i in range(n):
    name = ['MMC', 'MMC_Supervised'][i % 2]
    data = fits.make_data(rng, d=int(rng.integers(2, 6)))
    d = data['d']
    initk = ['identity', 'covariance', 'random', 'array'][i // 2 % 4]
    diagonal = (i % 7 == 6)
    units = [1.0, 2.0 ** -10, 1.0, 2.0 ** -14, 2.0 ** 8][i % 5]     # the 1% budget test is relative: it does not depend on the unit
    data = dict(data, X=data['X'] * units)
    ctx.hist('units.log2', int(np.log2(units)))
    kw = dict(max_iter=int(rng.choice([1, 3, 10, 40])), max_proj=20000, tol=float(rng.choice([1e-3, 1e-6, 1e-3, 0.05, 0.1, 0.3])),      # the 1% projection tolerance does not depend on tol
              init=initk if initk != 'array' else fits.spd_array(rng, d), random_state=int(rng.integers(0, 100)),
              diagonal=diagonal, diagonal_c=float(rng.choice([0.1, 1.0, 10.0])))
    if name == 'MMC_Supervised':
      kw['n_constraints'] = int(rng.integers(8, 30))
    opt = {k: (v if not isinstance(v, np.ndarray) else 'ndarray') for k, v in kw.items()}
    inp = dict(estimator=name, params=opt, X=data['X'].tolist(), y=data['y'].tolist())
    ctx.count('fit_runs', 1)
    ctx.hist('init', initk)
    ctx.hist('diagonal', diagonal)
    try:
      est, A_init = fit_observed(name, kw, data)
    except ValueError as ex:
      if diagonal:
        ctx.hist('diagonal_outcome', 'ValueError')
        continue
      ctx.fail_input('fit_runs', name + ' raises ValueError', inp, observed=str(ex)[:200])
      continue
    except Exception as ex:
      ctx.fail_input('fit_runs', '%s raises %s' % (name, type(ex).__name__), inp, observed=str(ex)[:200])
      continue
    M = est.get_mahalanobis_matrix()
    if not np.isfinite(M).all():
      ctx.fail_input('no_nan', 'fit returns a matrix with NaN / inf', inp)
      continue
    from metric_learn._util import _initialize_metric_mahalanobis
    vs = similar_diffs(name, kw, data)
    if diagonal:
      terms.append("(c14_diag %s)" % gmat(M, qdy))
      recs.append(dict(kind='diag', inp=inp, M=M))
      ctx.hist('diagonal_outcome', 'returned')
    else:
      if A_init is None:
        ctx.break_tie('correspondence', 'c14_observe', 'initial matrix not observed')
        continue
      # A_init observed at return of the initialiser is mutated in place by the solver (self.A_): recompute it
      with warnings.catch_warnings():
        warnings.simplefilter('ignore')
        src = fits.fit_args(name, data)[0] if name == 'MMC' else None
      if name == 'MMC':
        A0 = _initialize_metric_mahalanobis(src, kw['init'], random_state=kw['random_state'])
      else:
        from metric_learn.constraints import Constraints, wrap_pairs
        with warnings.catch_warnings():
          warnings.simplefilter('ignore')
          pn = Constraints(data['y']).positive_negative_pairs(kw['n_constraints'], random_state=kw['random_state'])
          P, _ = wrap_pairs(data['X'], pn)
          A0 = _initialize_metric_mahalanobis(P, kw['init'], random_state=kw['random_state'])
      # the iterations start from the documented initial matrix (C20 certifies the initialiser itself)
      ctx.count('starts_from_init', 1)
      doc = np.eye(d) if initk == 'identity' else kw['init'] if initk == 'array' else A0
      if not np.array_equal(A_init, A0) or not np.array_equal(A0, doc):
        ctx.fail_input('starts_from_init', 'the iterations do not start from the documented initial matrix (init=%s)' % initk, inp,
                       observed=A_init.tolist(), expected=np.asarray(doc).tolist())
      nproj = first_projection_converges(A0, vs, kw['max_proj'])
      if nproj is None or nproj > 0.9 * kw['max_proj']:
        ctx.count('certificate_full', 1, skipped=1)
        ctx.hist('hypothesis', 'first projection does not converge within max_proj: skipped')
        continue
      ctx.hist('hypothesis', 'first projection converges')
      terms.append("(c14_full %s %s %s)" % (gmat(M, qdy), gmat(A0, qdy), gmat(vs, qdy)))
      recs.append(dict(kind='full', inp=inp, M=M, A0=A0, vs=vs))
    ctx.seen((name, repr(sorted(opt.items())), i), True)
    ctx.sample(dict(estimator=name, params=opt, M=M.tolist()), limit=3)
  # ---- small projection budgets: max_proj just large enough for ONE projection to converge (the property's
  # hypothesis), decided by the independent evaluation above with a 10% margin; similar pairs that all differ along
  # one direction make the first projection cheap while later ones need more steps
  from metric_learn import MMC
  for i in range(30 if thorough else 10):
    d = int(rng.integers(2, 5))
    npos, nneg = int(rng.integers(3, 9)), int(rng.integers(4, 10))
    X = fits.grid(rng.standard_normal((2 * (npos + nneg), d)) * 2.0, 6)
    if i % 3 != 2:
      u = fits.grid(rng.standard_normal(d), 4)
      if not np.any(u):
        u[0] = 1.0
      for j in range(npos):
        X[2 * j + 1] = X[2 * j] + float(rng.choice([0.5, 1.0, 1.5, -2.0])) * u
    pairs = X.reshape(-1, 2, d)
    yy = np.array([1] * npos + [-1] * nneg)
    initk = ['identity', 'array'][i % 2]
    A0 = np.eye(d) if initk == 'identity' else fits.spd_array(rng, d)
    vs = pairs[:npos, 0] - pairs[:npos, 1]
    need = first_projection_converges(np.array(A0, dtype=float), vs, 400)
    ctx.count('small_max_proj', 1)
    if need is None:
      ctx.count('small_max_proj', 0, skipped=1)
      continue
    mp = int(np.ceil(need / 0.9)) + int(rng.integers(1, 4))
    if i % 2 == 0:
      # exactly the number of steps the first projection needs (the smallest max_proj of the property's hypothesis), when the
      # exit test is decided with a margin of 1e-4 at that step and at the one before (so rounding cannot move it)
      errs = projection_errors(np.array(A0, dtype=float), vs, need)
      if errs[need - 1] < 0.01 * (1 - 1e-4) and (need == 1 or errs[need - 2] > 0.01 * (1 + 1e-4)):
        mp = need
        ctx.hist('small_max_proj.exact', True)
    kw = dict(max_iter=int(rng.choice([5, 30, 100])), max_proj=mp, init=A0 if initk == 'array' else 'identity', tol=1e-3)
    opt = {k: (v if not isinstance(v, np.ndarray) else 'ndarray') for k, v in kw.items()}
    inp = dict(estimator='MMC', params=opt, pairs=pairs.tolist(), y=yy.tolist(), init=np.asarray(A0).tolist(),
               steps_needed_by_first_projection=need)
    ctx.hist('small_max_proj.max_proj', mp)
    try:
      with warnings.catch_warnings():
        warnings.simplefilter('ignore')
        e = MMC(**kw).fit(pairs, yy)
    except Exception as ex:
      ctx.fail_input('fit_runs', 'MMC raises %s' % type(ex).__name__, inp, observed=str(ex)[:200])
      continue
    M = e.get_mahalanobis_matrix()
    terms.append("(c14_full %s %s %s)" % (gmat(M, qdy), gmat(np.array(A0, dtype=float), qdy), gmat(vs, qdy)))
    recs.append(dict(kind='full', inp=inp, M=M, A0=np.array(A0, dtype=float), vs=vs))
  # ---- many constraints: more than 10000 similar pairs (a count that is no multiple of a round block size), listed group by group;
  # the budget is that of ALL of them
  for npos_big in ((10300,) if not thorough else (10300, 21200)):
    rb = np.random.default_rng(ctx.seed + 909)
    d = 3
    scale = np.repeat([0.5, 1.0, 3.0], [npos_big - 2 * (npos_big // 3), npos_big // 3, npos_big // 3])[:, None]
    base = rb.standard_normal((npos_big, d)) * 3
    pos = np.stack([base, base + rb.standard_normal((npos_big, d)) * scale], axis=1)
    neg = np.stack([rb.standard_normal((400, d)) * 3, rb.standard_normal((400, d)) * 3 + 4], axis=1)
    pairs = np.vstack([pos, neg])
    yy = np.r_[np.ones(npos_big, dtype=int), -np.ones(400, dtype=int)]
    ctx.count('many_constraints', 1)
    inp = dict(estimator='MMC', n_similar=npos_big, n_dissimilar=400, generator='default_rng(seed + 909): similar pairs listed in three groups of spread 0.5 / 1 / 3', max_iter=5)
    try:
      with warnings.catch_warnings():
        warnings.simplefilter('ignore')
        e = MMC(max_iter=5).fit(pairs, yy)
    except Exception as ex:
      ctx.fail_input('fit_runs', 'MMC on %d similar pairs raises %s' % (npos_big, type(ex).__name__), inp, observed=str(ex)[:200])
      continue
    Mb = e.get_mahalanobis_matrix()
    vb = pos[:, 0] - pos[:, 1]
    fSb = float(np.einsum('ij,jk,ik->', vb, Mb, vb))
    tb = float(np.einsum('ij,ij->', vb, vb)) / 100
    if first_projection_converges(np.eye(d), vb, 10000) is None:
      ctx.count('many_constraints', 0, skipped=1)
    elif np.linalg.eigvalsh((Mb + Mb.T) / 2).min() < -1e-9 * np.abs(Mb).max() or fSb > 1.01 * tb * (1 + 1e-9):
      ctx.fail_input('budget', 'similarity budget exceeded over the full list of %d similar pairs: sum_S d^2 = %.6g t' % (npos_big, fSb / tb), inp, observed=fSb / tb)
  # ---- diagonal variant started from a matrix that is not diagonal (covariance / random / array): the learned matrix is
  # diagonal with non-negative entries whatever the initial matrix held; a NaN is reported by ValueError, nothing else is raised
  from metric_learn.exceptions import NonPSDError
  for j in range(32 if thorough else 16):
    name = ['MMC', 'MMC_Supervised'][j % 2]
    data = fits.make_data(rng, d=int(rng.integers(2, 5)))
    d = data['d']
    initk = ['covariance', 'random', 'array', 'singular array'][j // 2 % 4]
    sing = np.diag([1.0] + [0.0] * (d - 1)) if j % 4 < 2 else np.zeros((d, d))     # PSD, singular: legal for MMC's init
    kw = dict(max_iter=int(rng.choice([3, 10, 40])),
              init=initk if initk in ('covariance', 'random') else (fits.spd_array(rng, d) + 1.0 if initk == 'array' else sing),
              random_state=int(rng.integers(0, 100)), diagonal=True, diagonal_c=float([1000.0, 100.0, 10.0, 1.0][j // 6 % 4]))
    if name == 'MMC_Supervised':
      kw['n_constraints'] = int(rng.integers(8, 30))
    opt = {k: (v if not isinstance(v, np.ndarray) else v.tolist()) for k, v in kw.items()}
    inp = dict(estimator=name, params=opt, X=data['X'].tolist(), y=data['y'].tolist())
    ctx.count('diagonal_from_full_init', 1)
    try:
      with warnings.catch_warnings():
        warnings.simplefilter('ignore')
        est = fits.fit(name, kw, data)
    except (NonPSDError, np.linalg.LinAlgError) as ex:
      ctx.fail_input('diagonal_nonneg', 'diagonal MMC raises %s (its matrix is diagonal and non-negative by construction)' % type(ex).__name__, inp)
      continue
    except ValueError:
      ctx.hist('diagonal_outcome', 'ValueError')
      continue
    except Exception as ex:
      ctx.fail_input('fit_runs', '%s raises %s' % (name, type(ex).__name__), inp, observed=str(ex)[:200])
      continue
    M = est.get_mahalanobis_matrix()
    ctx.hist('diagonal_outcome', 'returned')
    off = M - np.diag(np.diag(M))
    if not np.isfinite(M).all() or np.abs(off).max() > 0 or np.diag(M).min() < 0:
      ctx.fail_input('diagonal_nonneg', 'diagonal MMC started from a non-diagonal matrix returns a matrix that is not diagonal with non-negative entries',
                     inp, observed=M.tolist())
  # ---- all pair differences on one line in R^3 (a legal pair set): the ascent direction of the first cycle has norm zero
  from metric_learn import MMC as _MMC
  u0 = np.array([1.0, 2.0, -1.0])
  ts0 = np.array([0.0, 1.0, 3.0, 4.0, 7.0, 9.0])
  Xl0 = 5.0 + ts0[:, None] * u0
  pl0 = np.array([[Xl0[0], Xl0[1]], [Xl0[2], Xl0[3]], [Xl0[0], Xl0[4]], [Xl0[1], Xl0[5]]])
  ctx.count('collinear_pairs', 1)
  try:
    with warnings.catch_warnings():
      warnings.simplefilter('ignore')
      Mc = _MMC().fit(pl0, [1, 1, -1, -1]).get_mahalanobis_matrix()
    if not np.isfinite(Mc).all() or np.linalg.eigvalsh((Mc + Mc.T) / 2).min() < -1e-9 * np.abs(Mc).max():
      ctx.fail_input('psd', 'MMC on collinear pair differences returns a matrix that is not finite / PSD', dict(pairs=pl0.tolist()), observed=Mc.tolist())
  except Exception as ex:
    ctx.fail_input('fit_runs', 'MMC().fit on pairs whose points lie on one line of R^3 raises %s' % type(ex).__name__,
                   dict(pairs=pl0.tolist(), y=[1, 1, -1, -1]), observed=str(ex)[:120])
  if ok:
    res = ctx.run_cases('c14', HEADER, terms, per_file=10)
    for r, rec in zip(res, recs):
      ctx.count('certificate_' + rec['kind'], 1)
      if r is False:
        M = rec['M']
        if rec['kind'] == 'diag':
          ctx.fail_input('diagonal_nonneg', 'diagonal MMC returns a matrix that is not diagonal with non-negative entries', rec['inp'],
                         observed=M.tolist())
        else:
          fS = float(np.einsum('ij,jk,ik->', rec['vs'], M, rec['vs']))
          t = float(np.einsum('ij,jk,ik->', rec['vs'], rec['A0'], rec['vs'])) / 100
          if np.linalg.eigvalsh((M + M.T) / 2).min() < -1e-9 * np.abs(M).max():
            ctx.fail_input('psd', 'learned M is not positive semi-definite', rec['inp'], observed=M.tolist())
          elif np.abs(M - rec['A0']).max() <= 1e-12 * np.abs(M).max():
            ctx.fail_input('budget', 'fit returns the initial matrix (no feasible iterate was kept)', rec['inp'], observed=fS / t)
          else:
            ctx.fail_input('budget', 'similarity budget exceeded: sum_S d^2 = %.6g t' % (fS / t), rec['inp'], observed=fS / t)
  else:
    # the Coq side did not build (e.g. the translated source changed): the same certificate evaluated in binary64
    for rec in recs:
      M = rec['M']
      ctx.count('certificate_np_' + rec['kind'], 1)
      if rec['kind'] == 'diag':
        if np.abs(M - np.diag(np.diag(M))).max() > 0 or np.diag(M).min() < 0:
          ctx.fail_input('diagonal_nonneg', 'diagonal MMC returns a matrix that is not diagonal with non-negative entries', rec['inp'], observed=M.tolist())
        continue
      fS = float(np.einsum('ij,jk,ik->', rec['vs'], M, rec['vs']))
      t = float(np.einsum('ij,jk,ik->', rec['vs'], rec['A0'], rec['vs'])) / 100
      if np.linalg.eigvalsh((M + M.T) / 2).min() < -1e-9 * np.abs(M).max():
        ctx.fail_input('psd', 'learned M is not positive semi-definite', rec['inp'], observed=M.tolist())
      elif np.abs(M - rec['A0']).max() <= 1e-12 * np.abs(M).max():
        ctx.fail_input('budget', 'fit returns the initial matrix (no feasible iterate was kept)', rec['inp'], observed=fS / t)
      elif fS > 1.01 * t * (1 + 1e-9):
        ctx.fail_input('budget', 'similarity budget exceeded: sum_S d^2 = %.6g t' % (fS / t), rec['inp'], observed=fS / t)


def replay(payload):
  print('replay: re-run ./check C14 with VERIF_SEED=%s' % payload.get('seed'))
  return 1
