"""C16 -- threshold calibration picks an optimal cut-off for the chosen criterion."""
import ast
import itertools
import os
import warnings
import numpy as np
import fits
from props import metric_common as mc
from props.c20 import HEADER
from props.c04 import host
from vcore import qdy, qopt, glist, REPO

BETAS = [0.0, 0.5, 1.0, 2.0]
RATES = [0.0, 0.25, 0.5, 0.75, 1.0]


def gdata(dist, y):
  return glist(["(%s, %s)" % (qdy(d), 'true' if yy == 1 else 'false') for d, yy in zip(dist, y)])


def calibrate(est, dist, y, strategy, **kw):
  """1-D points: pair ([0], [d]) has learned distance exactly d under components_ = [[1.]]"""
  P = np.zeros((len(dist), 2, 1))
  P[:, 1, 0] = dist
  with warnings.catch_warnings():
    warnings.simplefilter('ignore')
    est.calibrate_threshold(P, np.asarray(y), strategy=strategy, **kw)
  return float(est.threshold_), P


def metrics(dist, y, t):
  pred = dist <= t
  pos, neg = (y == 1), (y == -1)
  tp, fp = int(np.sum(pred & pos)), int(np.sum(pred & neg))
  tn, fn = int(np.sum(~pred & neg)), int(np.sum(~pred & pos))
  return tp, fp, tn, fn


def fbeta(tp, fp, fn, beta):
  if tp == 0:
    return 0.0
  b2 = beta * beta
  return (1 + b2) * tp / ((1 + b2) * tp + b2 * fn + fp)


def brute(dist, y, strategy, thr, beta=1.0, min_rate=None):
  """the property text: no distance threshold does better.  Returns None or a description."""
  cands = sorted(set(dist.tolist())) + [min(dist) - 1.0]
  P, N = int(np.sum(y == 1)), int(np.sum(y == -1))
  tp, fp, tn, fn = metrics(dist, y, thr)
  for c in cands:
    tp2, fp2, tn2, fn2 = metrics(dist, y, c)
    if strategy == 'accuracy':
      if tp2 + tn2 > tp + tn:
        return "threshold %r is correct on %d pairs, chosen %r only on %d" % (c, tp2 + tn2, thr, tp + tn)
    elif strategy == 'f_beta':
      if fbeta(tp2, fp2, fn2, beta) > fbeta(tp, fp, fn, beta) + 1e-9:
        return "threshold %r has F-beta %r, chosen %r only %r" % (c, fbeta(tp2, fp2, fn2, beta), thr, fbeta(tp, fp, fn, beta))
    elif strategy == 'max_tpr':
      if tn * 1.0 / N < min_rate - 1e-12:
        return "chosen threshold %r has tnr %r < min_rate" % (thr, tn / N)
      if tn2 / N >= min_rate + 1e-12 * (min_rate > 0) and tp2 > tp:
        return "threshold %r is admissible with tpr %d/%d, chosen %r only %d/%d" % (c, tp2, P, thr, tp, P)
    elif strategy == 'max_tnr':
      if tp * 1.0 / P < min_rate - 1e-12:
        return "chosen threshold %r has tpr %r < min_rate" % (thr, tp / P)
      if tp2 / P >= min_rate + 1e-12 * (min_rate > 0) and tn2 > tn:
        return "threshold %r is admissible with tnr %d/%d, chosen %r only %d/%d" % (c, tn2, N, thr, tn, N)
  return None


def site_of(strategy, dist, y):
  tied = len(set(dist.tolist())) < len(dist)
  return "%s: %s" % (strategy, "validation set with tied distances" if tied else "validation set without ties")


def multisets(maxsize, values):
  syms = [(v, l) for v in values for l in (1, -1)]
  for k in range(2, maxsize + 1):
    for ms in itertools.combinations_with_replacement(syms, k):
      labs = set(l for _, l in ms)
      if labs == {1, -1}:
        yield ms


def validation_checks(ctx):
  """_validate_calibration_params: invalid values -> ValueError, before any fitting work"""
  import metric_learn
  tree = ast.parse(open(os.path.join(REPO, 'metric_learn', 'base_metric.py')).read())
  for name in ('ITML', 'MMC', 'SDML'):
    f = {'ITML': 'itml', 'MMC': 'mmc', 'SDML': 'sdml'}[name]
    t = ast.parse(open(os.path.join(REPO, 'metric_learn', f + '.py')).read())
    ok = False
    for n in t.body:
      if isinstance(n, ast.ClassDef) and n.name == name:
        for m in n.body:
          if isinstance(m, ast.FunctionDef) and m.name == 'fit':
            body = [s for s in m.body if not (isinstance(s, ast.Expr) and isinstance(s.value, ast.Constant))]
            calls = [ast.unparse(s) for s in body]
            iv = [i for i, c in enumerate(calls) if '_validate_calibration_params' in c]
            ifit = [i for i, c in enumerate(calls) if 'self._fit(' in c]
            ok = bool(iv) and bool(ifit) and iv[0] < ifit[0] and all(
                isinstance(body[j], ast.Assign) and 'calibration_params' in calls[j] for j in range(iv[0]))
    ctx.count('validation_precedes_fit', 1)
    if not ok:
      ctx.break_tie('translator', 'fit of ' + name, "_validate_calibration_params is not called before _fit")
  rng = np.random.default_rng(5)
  data = fits.make_data(rng, d=2)
  bad = [dict(strategy='weird'), dict(strategy='max_tpr'), dict(strategy='max_tpr', min_rate=1.5),
         dict(strategy='max_tnr', min_rate=-0.1), dict(strategy='max_tnr', min_rate='a'),
         dict(strategy='f_beta', beta=None), dict(strategy='f_beta', beta='x'), dict(strategy='max_tpr', min_rate=None)]
  # not numbers in [0, 1]: NaN, infinities, values just outside, non-real and non-scalar values; unknown strategies
  for strat in ('max_tpr', 'max_tnr'):
    for v in (float('nan'), float('inf'), float('-inf'), 1.0000001, -1e-9, 2, -1, '0.5', [0.5], 0.5j):
      bad.append(dict(strategy=strat, min_rate=v))
  bad += [dict(strategy='f_beta', beta=[1.0]), dict(strategy='f_beta', beta=1j), dict(strategy=None), dict(strategy='Accuracy'),
          dict(strategy='max_fpr', min_rate=0.5)]
  for name in ('ITML', 'MMC', 'SDML'):
    est0 = host(name, 2)
    for b in bad:
      ctx.count('invalid_params_rejected', 2)
      P, y = fits.fit_args(name, data)
      calls = []
      orig = type(est0)._fit

      def spy(self, *a, **k):
        calls.append(1)
        return orig(self, *a, **k)
      try:
        type(est0)._fit = spy
        e = getattr(metric_learn, name)()
        try:
          with warnings.catch_warnings():
            warnings.simplefilter('ignore')
            e.fit(P, y, calibration_params=b)
          ctx.fail_input('invalid_params_rejected', 'fit accepts invalid calibration_params', dict(estimator=name, params=b))
        except ValueError:
          if calls:
            ctx.fail_input('invalid_params_rejected', 'invalid calibration_params rejected only after fitting',
                           dict(estimator=name, params=b))
        except Exception as ex:
          ctx.fail_input('invalid_params_rejected', 'invalid calibration_params raise ' + type(ex).__name__,
                         dict(estimator=name, params=b))
      finally:
        type(est0)._fit = orig
      try:
        with warnings.catch_warnings():
          warnings.simplefilter('ignore')
          est0.calibrate_threshold(P, y, **b)
        ctx.fail_input('invalid_params_rejected', 'calibrate_threshold accepts invalid parameters', dict(estimator=name, params=b))
      except ValueError:
        pass
      except Exception as ex:
        ctx.fail_input('invalid_params_rejected', 'calibrate_threshold: invalid parameters raise ' + type(ex).__name__,
                       dict(estimator=name, params=b))


def classified_validation_cases(ctx):
  """the translated _validate_calibration_params (gen/Src_calib.v, the definition C16_source is about) evaluated in Coq on
  classified arguments against the outcome of the function itself, over a grid of strategies and option values"""
  import math
  from metric_learn.base_metric import _PairsClassifierMixin
  from vcore import qdy

  def cls(v):
    if v is None:
      return 'ANone'
    if isinstance(v, (int, float)):
      if isinstance(v, float) and math.isnan(v):
        return 'ANan'
      if isinstance(v, float) and math.isinf(v):
        return '(AInf %s)' % ('true' if v > 0 else 'false')
      return '(ANum %s)' % qdy(float(v))
    return 'AOther'
  smap = {'accuracy': 'SAccuracy', 'f_beta': 'SFbeta', 'max_tpr': 'SMaxTpr', 'max_tnr': 'SMaxTnr'}
  vals = [None, 0, 1, 0.5, 2, -1, 1.0000001, -1e-9, float('nan'), float('inf'), float('-inf'), '0.5', [0.5], 0.5j, np.float64(0.25), True,
          np.float32(0.5), np.int64(1)]
  terms, recs = [], []
  for st in ('accuracy', 'f_beta', 'max_tpr', 'max_tnr', 'weird', None, 'Accuracy'):
    for mr in vals:
      for b in (vals if st == 'f_beta' else [1.0, None]):
        try:
          _PairsClassifierMixin._validate_calibration_params(st, mr, b)
          ok_impl = True
        except ValueError:
          ok_impl = False
        except Exception as ex:
          ctx.fail_input('invalid_params_rejected', '_validate_calibration_params raises ' + type(ex).__name__,
                         dict(strategy=repr(st), min_rate=repr(mr), beta=repr(b)))
          continue
        terms.append("(Bool.eqb (src_validate_calibration_params %s %s %s) %s)" % (smap.get(st, 'SOther'), cls(mr), cls(b), 'true' if ok_impl else 'false'))
        recs.append(dict(strategy=repr(st), min_rate=repr(mr), beta=repr(b), implementation_returns=ok_impl))
  header = HEADER + "\nFrom ML Require Import Calibrate CalibArgs.\nFrom MLgen Require Import Src_calib.\n"
  res = ctx.run_cases('c16_validate', header, terms, per_file=400)
  for r, rec in zip(res, recs):
    ctx.count('validation_translated_vs_code', 1)
    if r is False:
      ctx.fail_input('invalid_params_rejected', 'the translated _validate_calibration_params and the function itself disagree (the function %s)'
                     % ('returns' if rec['implementation_returns'] else 'raises ValueError'), rec)


def run(ctx):
  thorough = ctx.tier == 'thorough'
  rng = ctx.rng
  maxsize = 6 if thorough else 5
  ctx.rule = ("exhaustive: every labelled multiset (both labels present) of size <= %d over integer distances {0,1,2,3} "
              "(ties, conflicting duplicates, zero distance), in a random order, x {accuracy, f_beta (beta in 0, 1/2, 1, 2), "
              "max_tpr and max_tnr (min_rate in 0, 1/4, 1/2, 3/4, 1)}; plus random multisets up to size 40 with heavy ties; plus multisets of distinct but almost tied distances "
              "(gaps 2^-40 relative .. 2^-31 absolute). "
              "threshold_ of the implementation compared exactly with the Coq model evaluated on rationals (f_beta: value of "
              "the criterion at the implementation's threshold vs. the model's optimum). non-trivial = at least two distinct "
              "distances; distinct = distinct (strategy, parameter, ordered data)." % maxsize)
  ctx.trusted = ["text pins tools/translate_pins.py (calibrate_threshold, _validate_calibration_params)", "Coq 8.16.1 kernel + vm_compute", "hand-written model Model/Calibrate.v tied to the code by this correspondence",
                 "oracles: sklearn roc_curve / precision_recall_curve (inside the implementation; the model states what the "
                 "documented result must be)", "harness"]
  ok = ctx.build_property(gen_needed=['Src_calib'])
  ests = [host(n, 2) for n in ('ITML', 'MMC', 'SDML')]
  for e in ests:
    e.components_ = np.array([[1.0]])
  terms, recs = [], []

  def add(dist, y, k):
    est = ests[k % 3]
    for strategy, params in ([('accuracy', {})] + [('f_beta', dict(beta=b)) for b in BETAS] +
                             [('max_tpr', dict(min_rate=r)) for r in RATES] + [('max_tnr', dict(min_rate=r)) for r in RATES]):
      try:
        thr, _ = calibrate(est, dist, y, strategy, **params)
      except Exception as ex:
        ctx.fail_input('calibrate_runs', strategy + ': calibrate_threshold raises ' + type(ex).__name__,
                       dict(dist=dist.tolist(), y=y.tolist(), strategy=strategy, params=params), observed=str(ex)[:200])
        continue
      if strategy == 'accuracy':
        t = "c16_accuracy %s %s" % (gdata(dist, y), qopt(thr) if thr != -np.inf else "None")
      elif strategy == 'f_beta':
        t = "c16_fbeta %s %s %s" % (qdy(params['beta']), gdata(dist, y), qopt(thr))
      else:
        t = "c16_%s %s %s %s" % (strategy, qdy(params['min_rate']), gdata(dist, y), qopt(thr))
      terms.append("(" + t + ")")
      recs.append(dict(dist=dist, y=y, strategy=strategy, params=params, thr=thr, estimator=type(est).__name__))
      ctx.seen((strategy, tuple(params.items()), dist.tolist(), y.tolist()), len(set(dist.tolist())) > 1)
      ctx.hist('strategy', strategy)
    ctx.hist('size', len(dist))

  k = 0
  for ms in multisets(maxsize, [0.0, 1.0, 2.0, 3.0]):
    perm = rng.permutation(len(ms))
    dist = np.array([ms[i][0] for i in perm])
    y = np.array([ms[i][1] for i in perm])
    add(dist, y, k)
    k += 1
  for _ in range(300 if thorough else 40):
    n = int(rng.integers(6, 41))
    dist = rng.integers(0, int(rng.integers(2, 8)), size=n).astype(float)
    y = np.where(rng.random(n) < rng.uniform(0.2, 0.8), 1, -1)
    y[0], y[1] = 1, -1
    add(dist, y, k)
    k += 1
  # distinct distances that are almost tied (relative gap 2^-40 .. 2^-21, absolute gap 2^-31): a cut between them is realisable
  near = np.array([0.0, 2.0 ** -31, 2.0 ** -30, 1.0, 1 + 2.0 ** -30, 1 + 2.0 ** -21, 2.0, 2 * (1 + 2.0 ** -40), 3.0])
  for _ in range(200 if thorough else 40):
    n = int(rng.integers(3, 11))
    dist = near[rng.integers(0, len(near), size=n)]
    y = np.where(rng.random(n) < 0.5, 1, -1)
    y[0], y[1] = 1, -1
    add(dist, y, k)
    ctx.hist('stream', 'near_ties')
    k += 1
  # very large distances (multiples of 2^57, beyond the range where d + 1 != d): rejecting every pair must remain realisable
  for _ in range(120 if thorough else 30):
    n = int(rng.integers(2, 9))
    dist = rng.integers(1, 6, size=n).astype(float) * 2.0 ** 57
    y = np.where(rng.random(n) < 0.4, 1, -1)
    y[0], y[1] = 1, -1
    if _ % 3 == 0:
      y[np.argmin(dist)] = -1          # the closest pair is dissimilar: rejecting all is often the optimum
    if not (np.any(y == 1) and np.any(y == -1)):
      y[int(np.argmax(dist))] = 1
      y[int(np.argmin(dist))] = -1
    if not (np.any(y == 1) and np.any(y == -1)):
      continue
    add(dist, y, k)
    ctx.hist('stream', 'huge_distances')
    k += 1
  ctx.sample(dict(dist=recs[0]['dist'].tolist(), y=recs[0]['y'].tolist(), strategy=recs[0]['strategy'], impl_threshold=recs[0]['thr']))
  ctx.sample(dict(dist=recs[-1]['dist'].tolist(), y=recs[-1]['y'].tolist(), strategy=recs[-1]['strategy'],
                  params=recs[-1]['params'], impl_threshold=recs[-1]['thr']))

  def falsify(rec, sub):
    r = brute(rec['dist'], rec['y'], rec['strategy'], rec['thr'], **rec['params'])
    ctx.count('falsifier', 1)
    if r is not None:
      ctx.fail_input(sub, site_of(rec['strategy'], rec['dist'], rec['y']),
                     dict(dist=rec['dist'].tolist(), y=rec['y'].tolist(), strategy=rec['strategy'],
                          params=rec['params'], estimator=rec['estimator']),
                     observed=rec['thr'], expected=r)
      return True
    return False

  nfound = 0
  if ok:
    res = ctx.run_cases('c16', HEADER, terms, per_file=1500)
    for r, rec in zip(res, recs):
      ctx.count('correspondence_exact', 1)
      if r is False:
        if falsify(rec, 'optimal_threshold'):
          nfound += 1
        else:
          ctx.count('correspondence_exact', 0, failures=1)
          ctx.break_tie('correspondence', 'c16', "model and implementation choose different thresholds on %s" % dict(
              dist=rec['dist'].tolist(), y=rec['y'].tolist(), strategy=rec['strategy'], params=rec['params'], impl=rec['thr']))
  if not ctx.property_ok or thorough or nfound == 0:
    for rec in recs:
      if falsify(rec, 'optimal_threshold'):
        nfound += 1
        if nfound > 20:
          break
  # through fit(..., calibration_params=...)
  data = fits.make_data(np.random.default_rng(ctx.seed + 3), d=2)
  import metric_learn
  for name in ('ITML', 'MMC', 'SDML'):
    for strategy, params in (('accuracy', {}), ('f_beta', dict(beta=1.0)), ('max_tpr', dict(min_rate=0.5)), ('max_tnr', dict(min_rate=0.5))):
      kw = fits.sdml_fix_balance(name, fits.base_kwargs(name, data), data)
      est = fits.make_estimator(name, kw)
      P, y = fits.fit_args(name, data)
      with warnings.catch_warnings():
        warnings.simplefilter('ignore')
        est.fit(P, y, calibration_params=dict(strategy=strategy, **params))
        dist = est.pair_distance(P)
      ctx.count('through_fit', 1)
      r = brute(dist, y, strategy, float(est.threshold_), **params)
      if r is not None:
        ctx.fail_input('optimal_threshold', site_of(strategy, dist, y) + ' (through fit)',
                       dict(estimator=name, strategy=strategy, params=params, dist=dist.tolist(), y=y.tolist()), expected=r)
  # in-range option values in the number types a caller holds them in: Python ints (0, 1, 2), and numpy.float64 values as
  # produced by np.linspace / np.sqrt (a float subclass): accepted, and the threshold is the one the plain float gives
  rngp = np.random.default_rng(ctx.seed + 11)
  for name in ('ITML', 'MMC'):
    est = host(name, 2)
    est.components_ = np.array([[1.0]])
    for rep in range(6 if thorough else 2):
      nn = int(rngp.integers(6, 14))
      dist = rngp.integers(0, 6, size=nn).astype(float)
      yv = np.where(rngp.random(nn) < 0.5, 1, -1)
      yv[0], yv[1] = 1, -1
      for strategy, key, plain, typed in (('max_tpr', 'min_rate', 0.5, np.float64(0.5)), ('max_tnr', 'min_rate', 0.25, np.linspace(0, 1, 5)[1]),
                                          ('max_tnr', 'min_rate', 1.0, 1), ('max_tpr', 'min_rate', 0.0, 0),
                                          ('f_beta', 'beta', 2.0, 2), ('f_beta', 'beta', 0.5, np.float64(0.5)),
                                          ('f_beta', 'beta', float(np.sqrt(2)), np.sqrt(2))):
        ctx.count('parameter_number_types', 1)
        ctx.hist('parameter_type', type(typed).__name__)
        inp = dict(estimator=name, strategy=strategy, params={key: repr(typed)}, param_type=type(typed).__name__, dist=dist.tolist(), y=yv.tolist())
        try:
          t_plain, _ = calibrate(est, dist, yv, strategy, **{key: plain})
          t_typed, _ = calibrate(est, dist, yv, strategy, **{key: typed})
        except Exception as ex:
          ctx.fail_input('parameter_number_types', 'calibrate_threshold(strategy=%s, %s=%r of type %s) raises %s: no threshold is calibrated' % (
              strategy, key, typed, type(typed).__name__, type(ex).__name__), inp, observed=str(ex)[:200])
          continue
        if t_plain != t_typed:
          ctx.fail_input('parameter_number_types', 'the calibrated threshold depends on the number type of %s' % key, inp,
                         observed=t_typed, expected=t_plain)
  validation_checks(ctx)
  if ctx.property_ok:
    classified_validation_cases(ctx)


def replay(payload):
  bad = 0
  for f in payload.get('failing_inputs', []):
    i = f['input']
    if 'dist' not in i or 'strategy' not in i:
      continue
    est = host(i.get('estimator', 'ITML'), 2)
    est.components_ = np.array([[1.0]])
    dist, y = np.array(i['dist'], dtype=float), np.array(i['y'])
    thr, _ = calibrate(est, dist, y, i['strategy'], **i.get('params', {}))
    r = brute(dist, y, i['strategy'], thr, **i.get('params', {}))
    print('replay:', r)
    bad += r is not None
  return 1 if bad else 0
