"""C13 -- SDML minimises the documented sparse LogDet objective."""
import warnings
import numpy as np
import fits
from vcore import qdy, gmat, gvec
from props.c20 import HEADER


def fit_observed(name, kw, data):
  import metric_learn
  from metric_learn import sdml as sm
  cap = {}
  og, oi = sm.graphical_lasso, sm._initialize_metric_mahalanobis

  def spy_g(emp_cov, **k):
    r = og(emp_cov, **k)
    cap['S'] = np.array(emp_cov)
    cap['M'] = np.array(r[1])
    cap['alpha'] = k.get('alpha')
    return r

  def spy_i(*a, **k):
    r = oi(*a, **k)
    cap['prior_inv'] = np.array(r[1])
    cap['pairs'] = np.array(a[0])
    return r
  est = getattr(metric_learn, name)(**kw)
  try:
    sm.graphical_lasso, sm._initialize_metric_mahalanobis = spy_g, spy_i
    with warnings.catch_warnings(record=True) as wrn:
      warnings.simplefilter('always')
      est.fit(*fits.fit_args(name, data))
    cap['not_converged'] = any('did not converge' in str(x.message) for x in wrn)
  finally:
    sm.graphical_lasso, sm._initialize_metric_mahalanobis = og, oi
  return est, cap


def objective(S, M, alpha):
  sign, ld = np.linalg.slogdet(M)
  off = np.abs(M).sum() - np.abs(np.diag(M)).sum()
  return float(np.sum(S * M) - ld + alpha * off)


def run(ctx):
  thorough = ctx.tier == 'thorough'
  rng = ctx.rng
  ctx.rule = ("SDML and SDML_Supervised x prior in {identity, covariance, random, SPD array} x sparsity_param in {0.01, 0.1, "
              "0.5} x balance_param chosen so that the graphical-lasso input is positive definite: (a) the matrix handed to "
              "the solver equals M0^-1 + balance * sum y_i v_i v_i^T recomputed on exact rationals from the pairs, labels, "
              "balance_param and prior inverse, and M0^-1 is the inverse of the documented prior (identity; covariance of the distinct "
              "training points; the given array); (b) KKT certificate of the returned M (M^-1 by exact Gauss-Jordan, residual "
              "tolerance 5e-3 max|S|); (c) M SPD; (d) no objective decrease along +-eps coordinate directions; failure "
              "clause: a non-PD input ends in RuntimeError or a certified-SPD M.")
  ctx.trusted = ["translator tools/translate_sdml.py + tools/pynum.py / Base/NPNum.v (solver input, raising condition), text pins (_BaseSDML._fit, _pseudo_inverse_from_eig)", "Coq 8.16.1 kernel + vm_compute", "model Model/SDML.v", "oracle: scikit-learn graphical lasso (certified per run)",
                 "concavity of logdet (stationary => optimal) not mechanised"]
  ok = ctx.build_property(gen_needed=['Src_sdml'])
  terms, recs = [], []
  n = 60 if thorough else 14
  import json as _json, os as _os
  corpus = _json.load(open(_os.path.join(_os.path.dirname(_os.path.dirname(_os.path.dirname(_os.path.abspath(__file__)))), 'corpus', 'C13_nonconverged.json')))
  for i in range(-1, n):
    if i == -1:
      # corpus case (listed finding): positive definite solver input on which scikit-learn's solver does not converge
      name = corpus['estimator']
      Xc, yc = np.array(corpus['X']), np.array(corpus['y'])
      data = dict(X=Xc, y=yc, d=Xc.shape[1], n=len(Xc), n_classes=len(np.unique(yc)), pairs_idx=np.zeros((1, 2), dtype=int),
                  ypairs=np.array([1]))
      d = data['d']
      prior = 'random'
      kw = dict(corpus['params'])
    else:
      name = ['SDML', 'SDML_Supervised'][i % 3 == 2]
      data = fits.make_data(rng, d=int(rng.integers(2, 6)))
      d = data['d']
      prior = ['identity', 'covariance', 'random', 'array'][i % 4]
      if prior == 'covariance' and i % 8 == 1:
        # features recorded in a very small unit: with the covariance prior the whole solver input is of the order
        # of units^2 (the problem is the same one up to that factor)
        data = dict(data, X=data['X'] * 2.0 ** -18)
        ctx.hist('units', '2^-18 (covariance prior)')
      if i % 8 == 4 and name == 'SDML':
        # a training set of exactly one (similar) pair
        data = dict(data, pairs_idx=data['pairs_idx'][data['ypairs'] == 1][:1], ypairs=np.array([1]))
        ctx.hist('n_pairs', 1)
      big = prior == 'array' and i % 8 == 3
      if big:
        # features recorded in a large unit with a prior expressed in the same unit (e.g. an inverse covariance): its
        # eigenvalues are of the order 1e-9
        data = dict(data, X=data['X'] * 2.0 ** 15)
        ctx.hist('units', '2^15 (array prior of the order 2^-30)')
      kw = fits.base_kwargs(name, data)
      kw.update(prior=prior if prior != 'array' else (fits.spd_array(rng, d) * (2.0 ** -30 if big else 1.0)), sparsity_param=float(rng.choice([0.01, 0.1, 0.5, 3.0, 20.0])),
                random_state=int(rng.integers(0, 100)))
      kw = fits.sdml_fix_balance(name, kw, data)
    opt = {k: (v if not isinstance(v, np.ndarray) else 'ndarray') for k, v in kw.items()}
    inp = dict(estimator=name, params=opt, X=data['X'].tolist(), y=data['y'].tolist(), pairs_idx=data['pairs_idx'].tolist(),
               ypairs=data['ypairs'].tolist())
    ctx.count('fit_runs', 1)
    ctx.hist('prior', prior)
    try:
      est, cap = fit_observed(name, kw, data)
    except Exception as ex:
      ctx.fail_input('fit_runs', '%s raises %s although the solver input is positive definite' % (name, type(ex).__name__), inp,
                     observed=str(ex)[:200])
      continue
    if 'S' not in cap and 'prior_inv' in cap and 'pairs' in cap:
      # fit returned without calling the solver: the matrix it returns must still minimise the documented objective.  S is
      # rebuilt from the documented formula; optimality by the sub-gradient conditions (S - M^-1 = 0 on the diagonal - the
      # penalty leaves it alone -, |S - M^-1| <= alpha where M is zero, = -alpha sign(M) elsewhere)
      Pq = cap['pairs']
      ypq = data['ypairs'] if name == 'SDML' else None
      Mq = est.get_mahalanobis_matrix()
      if ypq is not None and len(ypq) == len(Pq):
        vq = Pq[:, 0] - Pq[:, 1]
        Sq = cap['prior_inv'] + float(kw['balance_param']) * (vq.T * ypq).dot(vq)
        Gq = Sq - np.linalg.inv(Mq)
        aq = float(kw['sparsity_param'])
        off = ~np.eye(len(Mq), dtype=bool)
        viol = max(np.abs(np.diag(Gq)).max(),
                   np.max(np.where(off & (Mq == 0), np.maximum(np.abs(Gq) - aq, 0), 0)),
                   np.max(np.where(off & (Mq != 0), np.abs(Gq + aq * np.sign(Mq)), 0)))
        ctx.count('kkt', 1)
        if viol > 5e-3 * np.abs(Sq).max():
          ctx.fail_input('kkt', 'fit returned without calling the solver and the matrix it returns is not a minimiser of the documented objective', inp,
                         observed=dict(M=Mq.tolist(), S=Sq.tolist(), largest_violation_of_the_optimality_conditions=float(viol)))
          continue
    if 'S' not in cap or 'prior_inv' not in cap:
      ctx.break_tie('correspondence', 'c13_observe', 'solver call not observed')
      continue
    P = cap['pairs']
    if name == 'SDML':
      yp = data['ypairs']
    else:
      from metric_learn.constraints import Constraints, wrap_pairs
      with warnings.catch_warnings():
        warnings.simplefilter('ignore')
        pn = Constraints(data['y']).positive_negative_pairs(kw['n_constraints'], random_state=kw['random_state'])
      _, yp = wrap_pairs(data['X'], pn)
    diffs = P[:, 0] - P[:, 1]
    # M0 is what the prior option says (independent evaluation; 'random' is covered by C20)
    ctx.count('prior_is_documented', 1)
    Pinv = cap['prior_inv']
    if prior == 'identity':
      doc = np.eye(d)
    elif prior == 'covariance':
      uniq = np.unique(P.reshape(-1, d), axis=0)        # the distinct training points
      doc = np.atleast_2d(np.cov(uniq, rowvar=False))
      ctx.hist('covariance_prior.points_shared_between_pairs', bool(len(uniq) < 2 * len(np.unique(P, axis=0))))
    elif prior == 'array':
      doc = np.linalg.inv(np.asarray(kw['prior'], dtype=float))
    else:
      doc = None
    if doc is not None and np.abs(Pinv - doc).max() > 1e-8 * np.abs(doc).max():
      ctx.fail_input('prior_is_documented', "M0^-1 is not the inverse of the documented '%s' prior" % prior, inp,
                     observed=Pinv.tolist(), expected=doc.tolist())
    S, M, alpha = cap['S'], cap['M'], float(kw['sparsity_param'])
    if cap['alpha'] != kw['sparsity_param']:
      ctx.fail_input('solver_call', 'sparsity_param is not what the solver receives as alpha', inp, observed=cap['alpha'])
    Mret = est.get_mahalanobis_matrix()
    if np.abs(Mret - M).max() > 1e-9 * np.abs(M).max():
      ctx.fail_input('solver_call', 'the learned matrix is not the solver output', inp)
    terms.append("(c13_case %d%%nat %s %s %s %s %s %s %s)" % (d, gmat(cap['prior_inv'], qdy), qdy(kw['balance_param']), qdy(alpha),
                                                          gvec(yp, qdy), gmat(diffs, qdy), gmat(S, qdy), gmat(M, qdy)))
    recs.append(dict(inp=inp, S=S, M=M, alpha=alpha, prior_inv=cap['prior_inv'], diffs=diffs, yp=yp, bal=kw['balance_param'],
                     not_converged=cap.get('not_converged', False)))
    # (d) necessary condition: no decrease along +-eps coordinate directions
    f0 = objective(S, M, alpha)
    worst = 0.0
    for a in range(d):
      for b in range(a, d):
        for sgn in (1, -1):
          E = np.zeros((d, d))
          E[a, b] = E[b, a] = sgn * 1e-4
          if np.linalg.eigvalsh(M + E).min() > 0:
            worst = min(worst, objective(S, M + E, alpha) - f0)
    ctx.count('no_descent_direction', 1)
    if cap.get('not_converged'):
      worst = 0.0      # reported through the KKT certificate with its own site
    # the solver stops at a dual gap of 1e-4: a first-order decrease of (KKT residual tolerance) x (step) is within its accuracy
    thr = 2 * 5e-3 * float(np.abs(S).max()) * 1e-4 + 1e-9
    if float(np.abs(S).max()) < 1e-6:
      # tiny-unit lane: the first-order bound above vanishes with |S|, but the solver's stopping rule is an ABSOLUTE dual gap
      # of 1e-4 in objective units, so a decrease below that is within the solver tolerance the property allows
      thr = max(thr, 1.5e-4)
    if worst < -thr:
      ctx.fail_input('no_descent_direction', 'the documented objective decreases along a coordinate direction at the returned M', inp,
                     observed=worst)
    ctx.seen((name, repr(sorted(opt.items())), i), bool(np.any(np.abs(M - np.diag(np.diag(M))) > 0)))
    ctx.sample(dict(estimator=name, params=opt, M=M.tolist()), limit=3)
  if ok:
    res = ctx.run_cases('c13', HEADER, terms, per_file=8)
    for r, rec in zip(res, recs):
      ctx.count('certificate', 1)
      if r is False:
        S, M = rec['S'], rec['M']
        Sdoc = rec['prior_inv'] + rec['bal'] * (rec['diffs'].T * rec['yp']).dot(rec['diffs'])
        if np.abs(S - Sdoc).max() > 1e-9 * np.abs(Sdoc).max():
          ctx.fail_input('solver_input', 'the matrix handed to the graphical lasso is not M0^-1 + balance_param * sum y_i v_i v_i^T',
                         rec['inp'], observed=S.tolist(), expected=Sdoc.tolist())
        elif np.linalg.eigvalsh((M + M.T) / 2).min() <= 0:
          ctx.fail_input('result_spd', 'returned M is not symmetric positive definite', rec['inp'], observed=M.tolist())
        elif rec['not_converged']:
          ctx.fail_input('kkt', 'the graphical-lasso solver did not converge (ConvergenceWarning) and fit returns its last iterate, which is not a minimiser',
                         rec['inp'], observed=M.tolist())
        else:
          ctx.fail_input('kkt', 'returned M violates the optimality conditions of the documented objective', rec['inp'],
                         observed=M.tolist())
  # failure clause: a solver input that is not positive definite -> RuntimeError, or a finite SPD matrix
  from metric_learn import SDML
  nfc = 160 if thorough else 64
  for rep in range(nfc):
    mixed = rep >= (nfc // 8)
    if not mixed:
      data = fits.make_data(rng, d=int(rng.integers(2, 5)))
      P, y = fits.fit_args('SDML', data)
      bp, sp = float(rng.choice([5.0, 50.0])), 0.01
    else:
      # a handful of pairs, one feature recorded in much smaller units than the others (a dissimilar pair dominates
      # along it): the solver's output then has eigenvalues that are negative only in the last bits of the largest
      d = int(rng.integers(2, 4))
      npos, nneg = int(rng.integers(1, 3)), int(rng.integers(1, 3))
      P = np.round(rng.standard_normal((npos + nneg, 2, d)), 2)
      y = np.array([1] * npos + [-1] * nneg)
      P[:, :, int(rng.integers(0, d))] *= float(2.0 ** int(rng.integers(24, 31)))
      bp, sp = 0.5, float(rng.choice([0.01, 0.3]))
    ctx.hist('failure_clause.mixed_units', mixed)
    ctx.count('failure_clause', 1)
    try:
      with warnings.catch_warnings():
        warnings.simplefilter('ignore')
        e = SDML(balance_param=bp, sparsity_param=sp).fit(P, y)
      M = e.get_mahalanobis_matrix()
      L = np.asarray(e.components_)
      if (not np.isfinite(M).all() or np.linalg.eigvalsh((M + M.T) / 2).min() < -1e-10 * np.abs(M).max()
          or L.shape[0] != L.shape[1] or not (np.linalg.svd(L, compute_uv=False).min() > 0)):     # singular: not positive DEFINITE
        ctx.fail_input('failure_clause', 'fit returns a matrix that is not finite and positive definite instead of raising RuntimeError',
                       dict(pairs=P.tolist(), y=y.tolist(), balance_param=bp, sparsity_param=sp), observed=M.tolist())
      ctx.hist('failure_clause', 'returned SPD')
    except RuntimeError:
      ctx.hist('failure_clause', 'RuntimeError')
    except Exception as ex:
      ctx.fail_input('failure_clause', 'non-PD solver input ends in %s instead of RuntimeError' % type(ex).__name__,
                     dict(pairs=P.tolist(), y=y.tolist()), observed=str(ex)[:200])


def replay(payload):
  print('replay: re-run ./check C13 with VERIF_SEED=%s' % payload.get('seed'))
  return 1
