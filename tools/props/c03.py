"""C03 -- fit on well-formed input yields a valid Mahalanobis model of the right shape."""
import warnings
import numpy as np
import fits
from vcore import qdy, gmat, gbool
from props.c20 import HEADER


def run(ctx):
  thorough = ctx.tier == 'thorough'
  ctx.rule = ("17 estimators x documented option values (init / prior / basis / embedding_type x k / n_components in 1..d; "
              "diagonal MMC excluded) x well-formed class-structured data on a 2^-10 grid (2 <= d <= 5, >= 4d samples, >= 2 "
              "classes with >= 4 members, label-consistent tuples; class labels and chunk ids 0..C-1 or renamed 1-based / gapped): fit returns self, components_ is a finite real float "
              "array of the documented shape, n_features_in_ = d, transform maps (n, d) to (n, k), M is symmetric and PSD "
              "(exact LDL^T of M + 1e-9 max|M| I on rationals); LFDA over embedding_type x n_components; each estimator fitted a second time on data of another dimensionality (everything follows the last fit). distinct = distinct (estimator, options, data).")
  ctx.trusted = ["Coq 8.16.1 kernel + vm_compute", "shape rule and PSD certificate checkers in Model/CaseDefs.v",
                 "that every solver returns such an L is explored, not proved"]
  ok = ctx.build_property()
  terms, recs = [], []
  refitted = set()
  nrounds = 3 if thorough else 1
  for rnd in range(nrounds):
    for name, kw, data in fits.zoo_specs(ctx.rng, variants=True):
      d = data['d']
      if ctx.rng.random() < 0.5:
        data = fits.encode_labels(ctx.rng, data)     # class labels / chunk ids are names: 1-based, gapped, ...
      ctx.hist('label_encoding', data.get('label_encoding', '0..C-1'))
      est = fits.make_estimator(name, kw)
      opt = {k: (v if not isinstance(v, np.ndarray) else 'ndarray%s' % (v.shape,)) for k, v in kw.items()}
      ctx.count('fit_runs', 1)
      ctx.hist('estimator', name)
      try:
        with warnings.catch_warnings():
          warnings.simplefilter('ignore')
          r = est.fit(*fits.fit_args(name, data))
      except Exception as ex:
        site = "%s(%s) raises %s" % (name, ", ".join("%s=%s" % (k, (v if not isinstance(v, np.ndarray) else 'ndarray'))
                                                     for k, v in kw.items() if k in ('basis', 'init', 'prior', 'embedding_type')),
                                    type(ex).__name__)
        ctx.fail_input('fit_runs', site, dict(estimator=name, params=opt, X=data['X'].tolist()), observed=str(ex)[:200])
        continue
      L = np.asarray(est.components_)
      nc = kw.get('n_components')
      lowrank = name in ('SCML', 'SCML_Supervised')
      X = data['X']
      inp = dict(estimator=name, params=opt, X=X.tolist(), y=data['y'].tolist())
      if L.dtype.kind != 'f':
        ctx.fail_input('components_real', "%s(n_components=%s): components_ has dtype %s" % (name, 'k<d' if nc and nc < d else nc, L.dtype),
                       inp, observed=str(L.dtype))
        continue
      if L.ndim != 2 or not np.isfinite(L).all():
        ctx.fail_input('components_real', name + ': components_ is not a finite 2-D array', inp, observed=str(L.shape))
        continue
      with warnings.catch_warnings():
        warnings.simplefilter('ignore')
        T = est.transform(X)
        M = est.get_mahalanobis_matrix()
      terms.append("(c03_case %s %d%%nat %s %d%%nat %d%%nat %s %s %s %d%%nat %d%%nat %d%%nat %d%%nat %s)" % (
          "None" if nc is None else "(Some %d%%nat)" % nc, d, gbool(lowrank), L.shape[0], L.shape[1],
          gbool(L.dtype.kind == 'f'), gbool(np.isfinite(L).all()), gbool(r is est),
          int(getattr(est, 'n_features_in_', -1)) if getattr(est, 'n_features_in_', -1) >= 0 else 0,
          X.shape[0], T.shape[0], T.shape[1] if T.ndim == 2 else 0, gmat(M, qdy)))
      recs.append(dict(inp=inp, shape=L.shape, nfi=getattr(est, 'n_features_in_', None), tshape=T.shape, M=M, self=r is est))
      # the same object fitted again on data of another dimensionality: everything follows the LAST fit
      if not any(isinstance(v, np.ndarray) for v in kw.values()) and kw.get('n_components') is None and name not in refitted:
        refitted.add(name)
        for _ in range(2):
          data2 = fits.make_data(ctx.rng)
          if data2['d'] != d:
            break
        ctx.count('refit', 1)
        try:
          with warnings.catch_warnings():
            warnings.simplefilter('ignore')
            kw2 = fits.sdml_fix_balance(name, {k: v for k, v in kw.items() if k != 'balance_param'}, data2)
            est.set_params(**{k: v for k, v in kw2.items() if k == 'balance_param'})
            r2 = est.fit(*fits.fit_args(name, data2))
            T2 = est.transform(data2['X'])
        except Exception as ex:
          ctx.fail_input('refit', '%s: fitting the same object again on other data raises %s' % (name, type(ex).__name__),
                         dict(estimator=name, params=opt, d_first=d, d_second=data2['d']), observed=str(ex)[:200])
          continue
        d2 = data2['d']
        L2 = np.asarray(est.components_)
        why = []
        if getattr(est, 'n_features_in_', None) != d2:
          why.append('n_features_in_ is %r after a fit on %d features (first fit: %d features)' % (getattr(est, 'n_features_in_', None), d2, d))
        if L2.ndim != 2 or L2.shape[1] != d2 or L2.shape[0] > d2 or (L2.shape[0] < d2 and not lowrank):
          why.append('components_ has shape %s' % (L2.shape,))
        if T2.shape != (len(data2['X']), L2.shape[0]):
          why.append('transform output has shape %s' % (T2.shape,))
        if r2 is not est:
          why.append('fit does not return self')
        if why:
          ctx.fail_input('refit', name + ' fitted twice: ' + '; '.join(why),
                         dict(estimator=name, params=opt, d_first=d, d_second=d2, X_second=data2['X'].tolist()))
      ctx.seen((name, repr(sorted(opt.items())), rnd), True)
      ctx.sample(dict(estimator=name, params=opt, components_shape=list(L.shape)), limit=5)
  # ---- an SPD array given in single precision (kept as such: the solver then iterates in float32 and its result is PSD only up to
  # float32 rounding): fit still returns a finite model of the right shape, for several iteration budgets
  # corpus: finding F25 (a single-precision prior made ITML iterate in float32 and drift out of the PSD cone: NonPSDError)
  import json, os
  cpath = os.path.join(os.path.dirname(os.path.dirname(os.path.dirname(os.path.abspath(__file__)))), 'corpus', 'F25_itml_float32_prior.json')
  c25 = json.load(open(cpath))
  from metric_learn import ITML_Supervised
  ctx.count('corpus_F25', 1)
  try:
    with warnings.catch_warnings():
      warnings.simplefilter('ignore')
      e25 = ITML_Supervised(prior=np.array(c25['prior'], dtype=np.float32), max_iter=30, n_constraints=28, random_state=0).fit(
          np.array(c25['X']), np.array(c25['y']))
    M25 = e25.get_mahalanobis_matrix()
    w25 = np.linalg.eigvalsh((M25 + M25.T) / 2)
    if not np.isfinite(M25).all() or w25.min() < -1e-10 * max(1.0, np.abs(w25).max()):
      ctx.fail_input('valid_model', 'ITML_Supervised with a float32 SPD prior: M is not PSD', dict(corpus='corpus/F25_itml_float32_prior.json'),
                     observed=w25.tolist())
  except Exception as ex:
    ctx.fail_input('fit_runs', 'ITML_Supervised with an SPD prior of dtype float32 raises %s' % type(ex).__name__,
                   dict(corpus='corpus/F25_itml_float32_prior.json', estimator='ITML_Supervised', max_iter=30, n_constraints=28, random_state=0),
                   observed=str(ex)[:200])
  for name in ('MMC', 'MMC_Supervised', 'ITML', 'LSML'):
    for rep in range(4 if thorough else 2):
      data = fits.make_data(ctx.rng, d=int(ctx.rng.integers(2, 5)))
      d0 = data['d']
      Bi = ctx.rng.integers(-2, 3, size=(d0, d0)).astype(float)
      arr = (Bi.T.dot(Bi) + 2 * np.eye(d0)).astype(np.float32)
      for mi in (3, 5, 10, 30):
        kw = dict(fits.base_kwargs(name, data), max_iter=mi)
        kw['init' if name.startswith('MMC') else 'prior'] = arr
        ctx.count('float32_array_option', 1)
        try:
          with warnings.catch_warnings():
            warnings.simplefilter('ignore')
            est = fits.fit(name, kw, data)
        except Exception as ex:
          ctx.fail_input('fit_runs', '%s with an SPD array of dtype float32 (max_iter=%d) raises %s' % (name, mi, type(ex).__name__),
                         dict(estimator=name, array=arr.tolist(), max_iter=mi, X=data['X'].tolist()), observed=str(ex)[:200])
          continue
        L = np.asarray(est.components_)
        if L.shape != (d0, d0) or L.dtype.kind != 'f' or not np.isfinite(L).all():
          ctx.fail_input('components_real', '%s with a float32 SPD array: components_ is not a finite float array of shape (d, d)' % name,
                         dict(estimator=name, array=arr.tolist(), max_iter=mi), observed=str((L.shape, str(L.dtype))))
  # ---- data-dependent priors of the tuple learners on features in a small unit (2^-20 ~ 1e-6: covariances of the order 1e-12,
  # their inverses 1e12): the prior is the (pseudo-)inverse covariance whatever the unit, and fit returns a finite model
  for name in ('ITML', 'ITML_Supervised', 'LSML', 'LSML_Supervised', 'MMC'):
    data = fits.make_data(ctx.rng, d=int(ctx.rng.integers(2, 5)))
    data_s = dict(data, X=data['X'] * 2.0 ** -20)
    kw = dict(fits.base_kwargs(name, data_s), max_iter=5)
    kw['init' if name == 'MMC' else 'prior'] = 'covariance'
    ctx.count('units', 1)
    try:
      with warnings.catch_warnings():
        warnings.simplefilter('ignore')
        est = fits.fit(name, kw, data_s)
      Ls = np.asarray(est.components_)
      if Ls.shape != (data['d'], data['d']) or Ls.dtype.kind != 'f' or not np.isfinite(Ls).all():
        ctx.fail_input('components_real', '%s with a covariance prior on data in units of 2^-20: components_ is not a finite real (d, d) array' % name,
                       dict(estimator=name, X=data_s['X'].tolist()), observed=str((Ls.shape, str(Ls.dtype))))
    except Exception as ex:
      ctx.fail_input('fit_runs', "%s with the 'covariance' prior raises %s on data in units of 2^-20" % (name, type(ex).__name__),
                     dict(estimator=name, params={k: str(v)[:30] for k, v in kw.items()}, units=2.0 ** -20, X=data_s['X'].tolist(), y=data['y'].tolist()),
                     observed=str(ex)[:200])
  # ---- the unit the features are measured in: the same well-formed data in units of 2^6, 2^10 and 2^-10 still give a
  # finite model of the right shape (transformation learners and closed forms; the tuple solvers' units are C11-C15's)
  for name, kw, data in fits.zoo_specs(ctx.rng, variants=False, names=['NCA', 'MLKR', 'LMNN', 'LFDA', 'Covariance', 'RCA', 'RCA_Supervised']):
    for c in (2.0 ** 6, 2.0 ** 10, 2.0 ** -10):
      for init in ((None, 'identity', 'pca', 'random') if name in ('NCA', 'MLKR', 'LMNN') else (None,)):
        kw2 = dict(kw)
        if init is not None:
          kw2['init'] = init
        if name in ('NCA', 'MLKR', 'LMNN'):
          kw2['max_iter'] = 8
        data_c = dict(data)
        data_c['X'] = data['X'] * c
        ctx.count('units', 1)
        try:
          with warnings.catch_warnings():
            warnings.simplefilter('ignore')
            est = fits.make_estimator(name, kw2)
            est.fit(*fits.fit_args(name, data_c))
        except Exception as ex:
          ctx.fail_input('fit_runs', '%s raises %s on data in units of 2^%d' % (name, type(ex).__name__, int(np.log2(c))),
                         dict(estimator=name, params={k: str(v)[:30] for k, v in kw2.items()}, units=c, X=data_c['X'].tolist(), y=data['y'].tolist()),
                         observed=str(ex)[:200])
          continue
        L = np.asarray(est.components_)
        if L.ndim != 2 or L.shape[1] != data['d'] or L.shape[0] > data['d'] or L.dtype.kind != 'f' or not np.isfinite(L).all():
          ctx.fail_input('components_real', '%s on data in units of 2^%d: components_ is not a finite real array of the right shape' % (name, int(np.log2(c))),
                         dict(estimator=name, units=c, X=data_c['X'].tolist()), observed=str(L.shape))
  if ok:
    res = ctx.run_cases('c03', HEADER, terms, per_file=40)
    for r, rec in zip(res, recs):
      ctx.count('valid_model', 1)
      if r is False:
        # say which clause failed (python side, same rules)
        d = len(rec['inp']['X'][0])
        M = rec['M']
        why = []
        nc = rec['inp']['params'].get('n_components')
        k = rec['shape'][0]
        if rec['shape'][1] != d or (nc is not None and k != nc) or (nc is None and k > d) or \
           (nc is None and k < d and not rec['inp']['estimator'].startswith('SCML')):
          why.append('components_ has shape %s' % (rec['shape'],))
        if rec['nfi'] != d:
          why.append('n_features_in_ is %r' % rec['nfi'])
        if tuple(rec['tshape']) != (len(rec['inp']['X']), k):
          why.append('transform output has shape %s' % (rec['tshape'],))
        if not rec['self']:
          why.append('fit does not return self')
        if np.abs(M - M.T).max() > 1e-12 * np.abs(M).max():
          why.append('M is not symmetric')
        if np.linalg.eigvalsh((M + M.T) / 2).min() < -1e-9 * np.abs(M).max():
          why.append('M is not PSD')
        if why:
          ctx.fail_input('valid_model', rec['inp']['estimator'] + ': ' + '; '.join(why), rec['inp'])
        else:
          ctx.count('valid_model', 0, failures=1)
          ctx.break_tie('correspondence', 'c03', "certificate rejects the fitted model of %s %s" % (rec['inp']['estimator'], rec['inp']['params']))


def replay(payload):
  print('replay: re-run ./check C03 with VERIF_SEED=%s' % payload.get('seed'))
  return 1
