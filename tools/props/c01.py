"""C01 -- the learned distance is a finite pseudo-metric."""
import numpy as np
from props import metric_common as mc


def _triples(rec, rng):
  pts = rec['pts']
  d = pts.shape[-1]
  out = []
  for p in pts:
    z = pts[int(rng.integers(0, len(pts))), int(rng.integers(0, 2))]
    out.append((p[0], p[1], z))
    out.append((p[0], p[0].copy(), p[1]))
  return out


def falsify_rec(ctx, rec, sub):
  est = rec.get('est') or mc.host(rec['L'].shape[1])
  for trip in _triples(rec, ctx.rng):
    r = mc.falsify_metric(est, rec['L'], trip)
    ctx.count('falsifier', 1)
    if r is not None:
      ctx.fail_input(sub, 'metric axioms on pair_distance/get_metric/pair_score: ' + r[0],
                     dict(estimator=rec.get('estimator', 'components_ assigned'), L=rec['L'].tolist(),
                          x=trip[0].tolist(), y=trip[1].tolist(), z=trip[2].tolist()),
                     observed=r[1], expected=r[0])
      return True
  return False


def run(ctx):
  thorough = ctx.tier == 'thorough'
  ctx.rule = ("exact lane: random k x d dyadic L (entries m/4, all ranks incl. zero rows/zero matrix), integer "
              "points scaled by 2^e, e in {-332,-64,0,64,332}; implementation outputs compared bit-exactly with the "
              "translated definitions evaluated on binary64 in Coq. tolerance lane: components_ of real fits of the "
              "17 estimators, query pairs = training rows, duplicates, far points, magnitudes 1e-100..1e100; "
              "implementation distance d vs exact rational squared distance q: |d^2-q| <= 1e-12*bound. "
              "falsifier streams: the above plus rank-deficient real-valued L with points that differ (almost) only "
              "along the null space of L (distances ~ 0). "
              "non-trivial = L != 0 and the two points differ; distinct = distinct (L, pairs).")
  ctx.trusted = ["Coq 8.16.1 kernel + vm_compute", "translator tools/translate_query.py + idiom table coq/Base/NP.v",
                 "binary64 rounding is not modelled in the theorems (real-number statement); finiteness is checked on the implementation only",
                 "harness passes identical numbers to both sides (hex floats / exact dyadic rationals)"]
  ok = ctx.build_property(gen_needed=['Src_query'], case_libs=('Model/CaseDefs.vo', 'Model/CaseDefsQuery.vo'))
  n_exact = 3000 if thorough else 400
  terms, recs = mc.exact_cases(ctx, n_exact, 'C01')
  tterms, trecs = mc.tol_cases(ctx, 'C01', variants=thorough)
  if thorough:
    for _ in range(2):
      a, b = mc.tol_cases(ctx, 'C01', variants=False)
      tterms += a
      trecs += b
  if ok:
    for lane, tt, rr in (('exact', terms, recs), ('tolerance', tterms, trecs)):
      res = ctx.run_cases('c01_' + lane, mc.HEADER, tt, per_file=100 if lane == 'exact' else 12)
      for r, rec in zip(res, rr):
        ctx.count('correspondence_' + lane, 1)
        if r is False:
          if not falsify_rec(ctx, rec, 'correspondence_' + lane):
            ctx.count('correspondence_' + lane, 0, failures=1)
            ctx.break_tie('correspondence', 'c01_' + lane,
                          "model and implementation disagree on %s" % dict(
                              estimator=rec.get('estimator'), L=rec['L'].tolist(), pairs=rec['pts'].tolist()))
  mc.container_lane(ctx, 12 if thorough else 3, 'containers')
  # the property oracle itself, on the implementation (defence in depth; also the search for a replay)
  # points named by indicators into a preprocessor that holds them in a narrow / unsigned integer type
  import warnings
  from metric_learn import Covariance
  rng = ctx.rng
  for i in range(120 if thorough else 30):
    d = int(rng.integers(2, 6))
    k = int(rng.integers(1, d + 1))
    L = rng.integers(-8, 9, size=(k, d)) / 4.0
    bt = ['uint8', 'int16', 'uint16', 'int8'][i % 4]
    hi = 120 if bt == 'int8' else 250
    bank = rng.integers(0, hi, size=(8, d))
    with warnings.catch_warnings():
      warnings.simplefilter('ignore')
      eb = Covariance(preprocessor=bank.astype(bt)).fit(np.arange(6))
      eb.components_ = L
      a, b, c = [int(v) for v in rng.choice(8, size=3, replace=False)]
      dd = lambda p, q: float(eb.pair_distance(np.array([[p, q]]))[0])
      dab, dba, dbc, dac, daa = dd(a, b), dd(b, a), dd(b, c), dd(a, c), dd(a, a)
      sab = float(eb.pair_score(np.array([[a, b]]))[0])
    ctx.count('falsifier_integer_bank', 1)
    why = None
    if not all(np.isfinite(v) and v >= 0 for v in (dab, dba, dbc, dac, daa)):
      why = 'not finite / negative'
    elif daa != 0.0:
      why = 'd(x,x) != 0'
    elif dab != dba:
      why = 'd(x,y) != d(y,x)'
    elif dac > dab + dbc + 1e-9 * (dab + dbc):
      why = 'triangle inequality'
    elif sab != -dab:
      why = 'pair_score != -pair_distance'
    if why:
      ctx.fail_input('metric_axioms', 'metric axioms on pair_distance with indicators into a %s preprocessor: %s' % (bt, why),
                     dict(L=L.tolist(), bank=bank.tolist(), dtype=bt, indicators=[a, b, c]), observed=[dab, dba, dbc, dac, daa])
      break
  srecs = mc.scaled_L_cases(ctx.rng, 160 if thorough else 32)
  ctx.count('falsifier_scaled_L_records', len(srecs))
  for rec in srecs:
    if falsify_rec(ctx, rec, 'metric_axioms'):
      break
  frecs = mc.float32_cases(ctx.rng, 200 if thorough else 40)
  ctx.count('falsifier_float32_records', len(frecs))
  for rec in frecs:
    if falsify_rec(ctx, rec, 'metric_axioms'):
      break
  nrecs = mc.nullspace_cases(ctx.rng, 400 if thorough else 60)
  ctx.count('falsifier_nullspace_records', len(nrecs))
  for rec in recs[:(len(recs) if thorough or not ctx.property_ok else 150)] + trecs + nrecs:
    if falsify_rec(ctx, rec, 'metric_axioms'):
      break


def replay(payload):
  bad = 0
  for f in payload.get('failing_inputs', []):
    inp = f['input']
    L = np.array(inp['L'], dtype=float)
    est = mc.host(L.shape[1])
    r = mc.falsify_metric(est, L, (np.array(inp['x']), np.array(inp['y']), np.array(inp['z'])))
    print('replay:', r)
    bad += r is not None
  return 1 if bad else 0
