"""C09 -- closed-form learners compute their documented formula."""
import warnings
import numpy as np
import scipy.linalg
import fits
from vcore import qdy, gmat, gzlist
from props.c20 import HEADER


def lfda_scatters(X, y, k):
  """the documented pairwise definition (Sugiyama 2007): local between / within class scatter"""
  n, d = X.shape
  Slw = np.zeros((d, d))
  Slb = np.zeros((d, d))
  A = np.zeros((n, n))
  classes = np.unique(y)
  nc_of = {c: int(np.sum(y == c)) for c in classes}
  for c in classes:
    idx = np.flatnonzero(y == c)
    Xc = X[idx]
    D = np.sum((Xc[:, None, :] - Xc[None, :, :]) ** 2, axis=2)
    kc = min(k, len(idx) - 1)
    sigma = np.sqrt(np.sort(D, axis=1)[:, kc])       # distance to the kc-th nearest same-class neighbour
    with np.errstate(divide='ignore', invalid='ignore'):
      Ac = np.exp(-D / np.outer(sigma, sigma))
    Ac[np.outer(sigma, sigma) == 0] = 0
    A[np.ix_(idx, idx)] = Ac
  for i in range(n):
    for j in range(n):
      diff = (X[i] - X[j])[:, None]
      if y[i] == y[j]:
        nc = nc_of[y[i]]
        wlw = A[i, j] / nc
        wlb = A[i, j] * (1.0 / n - 1.0 / nc)
      else:
        wlw = 0.0
        wlb = 1.0 / n
      Slw += 0.5 * wlw * diff.dot(diff.T)
      Slb += 0.5 * wlb * diff.dot(diff.T)
  return Slb, Slw


def check_lfda(est, X, y, k, dim, etype):
  Slb, Slw = lfda_scatters(X, y, k)
  lam, V = scipy.linalg.eigh(Slb, Slw)
  order = np.argsort(-lam)
  lam, V = lam[order], V[:, order]
  L = np.asarray(est.components_)
  if L.shape != (dim, X.shape[1]):
    return 'components_ has shape %s' % (L.shape,)
  scale = np.abs(Slb).max() + np.abs(Slw).max()
  gaps_ok = dim == len(lam) or abs(lam[dim - 1] - lam[dim]) > 1e-6 * (abs(lam[0]) + 1e-300)
  if etype in ('plain', 'weighted'):
    for r in range(dim):
      v = L[r]
      if np.linalg.norm(v) == 0:
        return 'a component is zero'
      ray = float(v.dot(Slb).dot(v) / v.dot(Slw).dot(v))
      if abs(ray - lam[r]) > 1e-6 * (abs(lam[0]) + 1e-300):
        return 'row %d is not the generalised eigenvector with the %d-th largest eigenvalue (Rayleigh quotient %.6g, expected %.6g)' % (r, r + 1, ray, lam[r])
      res = Slb.dot(v) - ray * Slw.dot(v)
      if np.linalg.norm(res) > 1e-6 * scale * np.linalg.norm(v):
        return 'row %d is not a generalised eigenvector of the local scatter matrices' % r
      if etype == 'weighted':
        nrm = float(v.dot(Slw).dot(v))
        if abs(nrm - lam[r]) > 1e-6 * (abs(lam[0]) + 1e-300):
          return 'weighted embedding: row %d is not scaled by sqrt(eigenvalue)' % r
      else:
        nrm = float(v.dot(Slw).dot(v))
        if abs(nrm - 1) > 1e-6:
          return 'plain embedding: row %d is not the (S_w-normalised) eigenvector' % r
  else:
    if not np.allclose(L.dot(L.T), np.eye(dim), atol=1e-8):
      return 'orthonormalized embedding: rows are not orthonormal'
    # orthonormalisation of the eigenvectors taken in decreasing order of eigenvalue: for every j the first j
    # rows span the j leading generalised eigenvectors (decided wherever the j-th and (j+1)-th eigenvalues differ)
    for j in range(1, dim + 1):
      gap = j == len(lam) or abs(lam[j - 1] - lam[j]) > 1e-6 * (abs(lam[0]) + 1e-300)
      if not gap:
        continue
      Q, _ = np.linalg.qr(V[:, :j])
      Pref = Q.dot(Q.T)
      Pimp = L[:j].T.dot(L[:j])
      if np.abs(Pref - Pimp).max() > 1e-6:
        return ('orthonormalized embedding: rows do not span the leading generalised eigenvectors' if j == dim else
                'orthonormalized embedding: the first %d rows do not span the %d leading generalised eigenvectors' % (j, j))
  return None


def run(ctx):
  from metric_learn import Covariance, RCA, LFDA
  thorough = ctx.tier == 'thorough'
  rng = ctx.rng
  ctx.rule = ("Covariance: X on a 2^-4 grid incl. singular cases (duplicated / collinear columns, d = 1): Penrose equations of "
              "M against the exact covariance on rationals. RCA: chunk layouts with unbalanced chunks, unchunked (-1) points and chunk ids with gaps, "
              "n_components in 1..d: L C_inner L^T = I_k on rationals with the exact within-chunk covariance; reduced case: rows "
              "span the directions with the smallest within/total variance ratio. LFDA: classes of unequal size (some smaller "
              "than k), k in 1..d-1 and beyond, three embedding types, n_components 1..d: rows are generalised eigenvectors of "
              "the PAIRWISE-defined local scatter matrices with the leading eigenvalues, in decreasing order, scaled per "
              "embedding_type (independent O(n^2) evaluation).")
  ctx.trusted = ["translator tools/translate_rca.py + tools/pynum.py / Base/NPNum.v (reduced branch of RCA.fit; tools/translate_lfda.py: the local-scatter statement of LFDA.fit; _chunk_mean_centering and the np.cov(bias=1) statement, whose idioms nn_ne_zs / nn_mask / nn_isub_rows_where / nn_mean_rows / cov 0 are compared with the code's own functions on exact rationals per run), text pins tools/translate_pins.py (Covariance / RCA / LFDA)", "Coq 8.16.1 kernel + vm_compute", "certificate checkers in Model/CaseDefs.v (exact rationals)",
                 "oracles: scipy pinvh / eigh / eigsh, numpy cov", "LFDA reference is an independent NumPy evaluation (exp), not a Coq model",
                 "completeness of the spectrum (leading eigenvectors) is certified per instance, not proved"]
  ok = ctx.build_property(gen_needed=['Src_rca', 'Src_lfda'])
  terms, recs = [], []
  n = 60 if thorough else 12
  for i in range(n):
    d = int(rng.integers(1, 6))
    if i == 3:
      d = 1                                    # with mode 3 below: a single constant feature
    m = int(rng.integers(max(4 * d, 5), 4 * d + 12))
    X = fits.grid(rng.standard_normal((m, d)) * 2, 4)
    mode = i % 4
    if mode == 1 and d >= 2:
      X[:, -1] = X[:, 0]                       # duplicated column: singular covariance
    elif mode == 2 and d >= 3:
      X[:, -1] = X[:, 0] + 2 * X[:, 1]         # collinear column
    elif mode == 3 and i % 8 == 3:
      X[:, 0] = X[0, 0]                        # a constant feature (for d = 1: the zero covariance, whose pseudo-inverse is 0)
    ctx.count('covariance_fits', 1)
    try:
      with warnings.catch_warnings():
        warnings.simplefilter('ignore')
        e = Covariance().fit(X)
    except Exception as ex:
      ctx.fail_input('covariance', 'Covariance.fit raises %s' % type(ex).__name__, dict(X=X.tolist()), observed=str(ex)[:200])
      continue
    M = e.get_mahalanobis_matrix()
    if not np.all(np.isfinite(M)):
      ctx.fail_input('covariance', 'M is not finite' + (' (singular case)' if (mode in (1, 2) or (mode == 3 and i % 8 == 3)) else ''),
                     dict(X=X.tolist()), observed=str(M.tolist()))
      continue
    terms.append("(c09_covariance %s %s)" % (gmat(X, qdy), gmat(M, qdy)))
    recs.append(dict(kind='covariance', X=X, M=M, singular=mode in (1, 2) or (mode == 3 and i % 8 == 3)))
    ctx.seen(('cov', X.tolist()), True)
    ctx.hist('covariance', 'singular' if (mode in (1, 2) and d >= 2) else 'full rank')
  # features measured in very different units: M(X S) = S^-1 M(X) S^-1 for S = diag(2^k) (exact scalings; the covariance stays
  # comfortably full rank in binary64: variance ratios up to 2^32)
  for i in range(n):
    d = int(rng.integers(2, 6))
    m = 6 * d + 4
    X = fits.grid(rng.standard_normal((m, d)), 6)
    ks = rng.integers(-8, 9, size=d)
    ks[int(rng.integers(0, d))] = 8
    ks[(int(np.argmax(ks)) + 1) % d] = -8 if i % 2 == 0 else int(ks[(int(np.argmax(ks)) + 1) % d])
    S = 2.0 ** ks
    ctx.count('covariance_units', 1)
    try:
      with warnings.catch_warnings():
        warnings.simplefilter('ignore')
        M1 = Covariance().fit(X).get_mahalanobis_matrix()
        # (every second time the same numbers held in single precision: they are exactly representable, and the covariance,
        # its rank decision and its inverse are those of the numbers, not of the type that holds them)
        Xs = (X * S).astype(np.float32) if i % 2 == 1 else X * S
        ctx.hist('covariance_units.dtype', str(Xs.dtype))
        Ms = np.asarray(Covariance().fit(Xs).get_mahalanobis_matrix(), dtype=float)
    except Exception as ex:
      ctx.fail_input('covariance', 'Covariance.fit raises %s' % type(ex).__name__, dict(X=(X * S).tolist()), observed=str(ex)[:200])
      continue
    want = M1 / np.outer(S, S)
    scale = np.sqrt(np.outer(np.diag(want), np.diag(want)))
    if not np.all(np.isfinite(Ms)) or np.max(np.abs(Ms - want) / scale) > 1e-3:
      ctx.fail_input('covariance', 'M is not the inverse of the sample covariance when the features are in very different units (full-rank covariance)',
                     dict(X=(X * S).tolist(), exponents=ks.tolist()), observed=Ms.tolist(), expected=want.tolist())
  for i in range(n):
    data = fits.make_data(rng, d=int(rng.integers(2, 6)))
    X, d = data['X'], data['d']
    X = fits.grid(X, 4)
    if i % 4 == 1:
      X = X * 2.0 ** -17                # features in a small unit (within-chunk covariances of the order 1e-10): the problem is the same
      ctx.hist('rca.units', '2^-17')
    chunks = data['chunks']
    nchunks = int(chunks.max()) + 1
    chunks_given = chunks
    if i % 2 == 0:
      chunks_given = fits.encode_labels(rng, data)['chunks']     # chunk ids are names: gaps are legal
      ctx.hist('rca.chunk_ids', 'gapped')
    if i % 3 != 2:
      keep = chunks >= 0                       # every point belongs to a chunk (no -1 entry)
      X, chunks, chunks_given = np.ascontiguousarray(X[keep]), chunks[keep], chunks_given[keep]
      ctx.hist('rca.unchunked_points', 'none')
    else:
      ctx.hist('rca.unchunked_points', 'some')
    nc = [None] + list(range(1, d + 1))
    dim = nc[int(rng.integers(0, len(nc)))]
    if i % 3 == 0 and d >= 2:
      dim = int(rng.integers(1, d))            # reduced case
    if i % 4 == 1:
      dim = [None, d][(i // 4) % 2]            # small units: without reduction (the whole inverse square root is used)
    X_before = X.copy()
    ctx.count('rca_fits', 1)
    try:
      with warnings.catch_warnings():
        warnings.simplefilter('ignore')
        e = RCA(n_components=dim).fit(X, chunks_given)
    except Exception as ex:
      ctx.fail_input('rca', 'RCA.fit raises %s' % type(ex).__name__, dict(X=X.tolist(), chunks=chunks_given.tolist(), n_components=dim),
                     observed=str(ex)[:200])
      continue
    L = np.asarray(e.components_)
    if not np.array_equal(X, X_before):
      ctx.fail_input('rca', 'RCA.fit modifies the training array', dict(X=X_before.tolist(), chunks=chunks_given.tolist(), n_components=dim))
      X = X_before
    if L.dtype.kind != 'f':
      ctx.fail_input('rca', 'RCA(n_components<d): components_ is not a real array', dict(n_components=dim), observed=str(L.dtype))
      continue
    terms.append("(c09_rca %s %s %d%%nat %s)" % (gmat(X, qdy), gzlist(chunks), nchunks, gmat(L, qdy)))
    recs.append(dict(kind='rca', X=X, chunks=chunks_given, L=L, dim=dim))
    if ctx.property_ok:
      # the translated _chunk_mean_centering + np.cov(bias=1) (gen/Src_rca.v, the definitions C09_rca_within_chunk is about),
      # evaluated on exact rationals with the chunk ids as given, against what the code's own functions return on this input
      try:
        from metric_learn import rca as rca_mod
        with warnings.catch_warnings():
          warnings.simplefilter('ignore')
          _, cd = rca_mod._chunk_mean_centering(X.copy(), np.asanyarray(chunks_given, dtype=int))
          C_impl = np.atleast_2d(np.cov(cd, rowvar=0, bias=1))
      except Exception:
        C_impl = None
      if C_impl is not None and np.all(np.isfinite(C_impl)):
        terms.append("(c09_rca_src %s %s %s)" % (gmat(X, qdy), gzlist(chunks_given), gmat(C_impl, qdy)))
        recs.append(dict(kind='rca_src', X=X, chunks=chunks_given, C=C_impl))
    ctx.seen(('rca', X.tolist(), chunks.tolist(), dim), True)
    ctx.hist('rca.n_components', dim)
    if dim is not None and dim < d:
      # retained directions: smallest within-chunk / total variance ratio
      mask = chunks >= 0
      Xc = X[mask].copy()
      for c in range(nchunks):
        mm = chunks[mask] == c
        Xc[mm] -= Xc[mm].mean(axis=0)
      Cin = Xc.T.dot(Xc) / len(Xc)
      Ctot = np.cov(X[mask], rowvar=0)
      lam, V = scipy.linalg.eigh(Cin, Ctot)
      ctx.count('rca_subspace', 1)
      if dim < len(lam) and abs(lam[dim] - lam[dim - 1]) > 1e-6 * abs(lam[-1]):
        # distances only see span(rows of L): compare the projector of M's range (w.r.t. the C_in inner product)
        A = V[:, :dim]
        Mref = A.dot(np.linalg.inv(A.T.dot(Cin).dot(A))).dot(A.T)
        Mimp = L.T.dot(L)
        if np.abs(Mref - Mimp).max() > 1e-6 * np.abs(Mref).max():
          ctx.fail_input('rca', 'reduced RCA does not retain the directions maximising total-to-within-chunk variance',
                         dict(X=X.tolist(), chunks=chunks_given.tolist(), n_components=dim), observed=Mimp.tolist(), expected=Mref.tolist())
  # LFDA
  for i in range(40 if thorough else 9):
    ncls = int(rng.integers(2, 4))
    d = int(rng.integers(2, 5))
    sizes = [int(rng.integers(3, 9)) for _ in range(ncls)]
    sizes[0] = int(rng.integers(6, 12))
    if i % 3 == 1:
      sizes.append(1)                  # a class with a single point (no same-class neighbour; it still counts between classes)
      ncls += 1
      ctx.hist('lfda.singleton_class', True)
    data = fits.make_data(rng, d=d, n_classes=ncls, n_per_class=sizes)
    X, y = data['X'], data['y']
    if i % 4 == 2:
      # integer-typed features of large magnitude (nanosecond timings, byte counts): column sums exceed 2^32
      X = np.round(X * 2.0 ** 28).astype([np.int64, np.int32][(i // 4) % 2] if np.abs(X).max() * 2.0 ** 28 < 2.0 ** 31 else np.int64)
      ctx.hist('lfda.integer_features', str(X.dtype))
    k = int(rng.integers(1, d + 2))
    etype = ['weighted', 'orthonormalized', 'plain'][i % 3]
    dim = int(rng.integers(1, d + 1))
    keff = min(7, d - 1) if k is None else (d - 1 if k >= d else k)
    ctx.count('lfda_fits', 1)
    inp = dict(X=X.tolist(), y=y.tolist(), k=k, embedding_type=etype, n_components=dim)
    try:
      with warnings.catch_warnings():
        warnings.simplefilter('ignore')
        e = LFDA(n_components=dim, k=k, embedding_type=etype).fit(X, y)
    except Exception as ex:
      ctx.fail_input('lfda', 'LFDA.fit raises %s' % type(ex).__name__, inp, observed=str(ex)[:200])
      continue
    r = check_lfda(e, np.asarray(X, dtype=float), y, keff, dim, etype)
    ctx.seen(('lfda', X.tolist(), y.tolist(), k, etype, dim), True)
    ctx.hist('lfda.embedding', etype)
    if r is not None:
      small = min(sizes) - 1 < keff
      ctx.fail_input('lfda', 'LFDA components are not the documented generalised eigenvectors'
                     + (' (a class smaller than k is present)' if small else ''), inp, observed=r)
  ctx.sample(dict(kind='covariance', X=recs[0]['X'].tolist()[:4], M=recs[0]['M'].tolist()))
  if ok:
    header = HEADER
    if any(r['kind'] == 'rca_src' for r in recs):
      header = HEADER + ("""
From ML Require Import LinAlg NPNum.
From MLgen Require Import Src_rca.
Definition c09_rca_src (X : list (list Q)) (chunks : list Z) (C : list (list Q)) : bool :=
  mclose (Qred (tol_1e6 * qmaxabs C)) (@rca_inner_cov QOps X chunks) C.
""")
    res = ctx.run_cases('c09', header, terms, per_file=10)
    for r, rec in zip(res, recs):
      ctx.count('certificate_' + rec['kind'], 1)
      if r is False:
        if rec['kind'] == 'covariance':
          ctx.fail_input('covariance', 'M is not the (pseudo-)inverse of the sample covariance' + (' (singular case)' if rec['singular'] else ''),
                         dict(X=rec['X'].tolist()), observed=rec['M'].tolist())
        elif rec['kind'] == 'rca_src':
          ctx.fail_input('rca_src', 'the within-chunk covariance returned by _chunk_mean_centering + np.cov is not the value of the translated source (gen/Src_rca.v) on exact rationals',
                         dict(X=rec['X'].tolist(), chunks=rec['chunks'].tolist()), observed=rec['C'].tolist())
        else:
          ctx.fail_input('rca', 'the within-chunk covariance of the transformed data is not the identity',
                         dict(X=rec['X'].tolist(), chunks=rec['chunks'].tolist(), n_components=rec['dim']), observed=rec['L'].tolist())


def replay(payload):
  print('replay: re-run ./check C09 with VERIF_SEED=%s' % payload.get('seed'))
  return 1
