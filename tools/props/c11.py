"""C11 -- ITML returns the optimum of its LogDet program (KKT certificate)."""
import sys
import warnings
import numpy as np
import fits
from vcore import fhex, qdy, glist, gvec, gmat, gbool
from props.c20 import HEADER


def fit_observed(name, kw, data, bounds=None):
  """fit ITML / ITML_Supervised and read the solver's locals at the return of _fit"""
  import metric_learn
  from metric_learn import itml as itml_mod
  cap = {}
  prior_seen = {}
  orig_init = itml_mod._initialize_metric_mahalanobis

  def spy_init(*a, **k):
    r = orig_init(*a, **k)
    prior_seen['A0'] = np.array(r)
    return r

  def prof(frame, event, arg):
    if event == 'return' and frame.f_code.co_name == '_fit' and frame.f_code.co_filename.endswith('itml.py'):
      for k in ('_lambda', 'pos_bhat', 'neg_bhat', 'A', 'pos_vv', 'neg_vv', 'it'):
        if k in frame.f_locals:
          v = frame.f_locals[k]
          cap[k] = np.array(v) if isinstance(v, np.ndarray) else v
  est = getattr(metric_learn, name)(**kw)
  args = fits.fit_args(name, data)
  try:
    itml_mod._initialize_metric_mahalanobis = spy_init
    sys.setprofile(prof)
    with warnings.catch_warnings():
      warnings.simplefilter('ignore')
      if bounds is not None:
        est.fit(*args, bounds=bounds)
      else:
        est.fit(*args)
  finally:
    sys.setprofile(None)
    itml_mod._initialize_metric_mahalanobis = orig_init
  return est, cap, prior_seen.get('A0')


def certificate_np(M, M0, vs, ys, lams, tol=1e-6):
  """the property's first sentence, directly on the implementation's numbers"""
  if np.abs(M - M.T).max() > 1e-9 * np.abs(M).max():
    return 'M is not symmetric'
  if np.linalg.eigvalsh((M + M.T) / 2).min() <= 0:
    return 'M is not positive definite'
  if np.any(lams < 0):
    return 'a dual variable lambda_i is negative'
  B = np.linalg.inv(M0) + sum(y * l * np.outer(v, v) for v, y, l in zip(vs, ys, lams))
  if np.abs(M.dot(B) - np.eye(len(M))).max() > tol:
    return 'M^-1 - M0^-1 is not sum_i y_i lambda_i v_i v_i^T'
  return None


def run(ctx):
  thorough = ctx.tier == 'thorough'
  rng = ctx.rng
  ctx.rule = ("ITML and ITML_Supervised x prior in {identity, covariance, random, SPD array} x gamma in {0.1, 1, 10, inf} x default "
              "/ explicit bounds (either order) x max_iter in 1..200, d in 2..5, up to 40 pairs: (a) the Coq model re-runs the projections on "
              "binary64 from the prior the implementation started from, the same pair differences and bounds_, for n_iter_+1 "
              "sweeps, and must reproduce A, lambda and the slack bounds (1e-6); (b) exact-rational certificate on the "
              "implementation's own M and lambda: M SPD (LDL^T), lambda >= 0, M (M0^-1 + sum y_i lambda_i v_i v_i^T) = I; "
              "(c) priors that satisfy all bounds are returned unchanged.  non-trivial = at least one lambda_i > 0.")
  ctx.trusted = ["Coq 8.16.1 kernel + vm_compute", "hand-written model Model/ITML.v tied by the binary64 re-run",
                 "solver locals read with sys.setprofile (no source change)",
                 "KKT => unique optimum of the LogDet problem (strict convexity) is not mechanised"]
  ok = ctx.build_property()
  terms, recs = [], []
  n = 80 if thorough else 16
  for i in range(n):
    name = ['ITML', 'ITML_Supervised'][i % 4 == 3]
    data = fits.make_data(rng, d=int(rng.integers(2, 6)))
    d = data['d']
    prior = ['identity', 'covariance', 'random', 'array'][i % 4 if name == 'ITML' else int(rng.integers(0, 4))]
    gam = [0.1, 1.0, 10.0, np.inf][int(rng.integers(0, 4))]
    kw = dict(gamma=gam, max_iter=int(rng.choice([1, 2, 5, 20, 200])), prior=prior if prior != 'array' else fits.spd_array(rng, d),
              random_state=int(rng.integers(0, 100)), tol=1e-3)
    if name == 'ITML_Supervised':
      kw['n_constraints'] = int(rng.integers(5, 20))
    bounds = None
    if rng.random() < 0.5:
      bounds = np.array([float(rng.choice([0.25, 0.5, 1.0])), float(rng.choice([3.0, 6.0]))])
      if rng.random() < 0.3:
        bounds = bounds[::-1].copy()     # loose specification: similar pairs within u, dissimilar beyond l, u > l
        ctx.hist('bounds', 'explicit, bounds[0] > bounds[1]')
    opt = {k: (v if not isinstance(v, np.ndarray) else 'ndarray') for k, v in kw.items()}
    opt['bounds'] = None if bounds is None else bounds.tolist()
    ctx.count('fit_runs', 1)
    ctx.hist('prior', prior)
    ctx.hist('gamma', gam)
    try:
      est, cap, A0 = fit_observed(name, kw, data, bounds)
    except Exception as ex:
      ctx.fail_input('fit_runs', '%s raises %s' % (name, type(ex).__name__), dict(estimator=name, params=opt), observed=str(ex)[:200])
      continue
    need = ('_lambda', 'pos_bhat', 'neg_bhat', 'A', 'pos_vv', 'neg_vv')
    if any(k not in cap for k in need) or A0 is None:
      ctx.break_tie('correspondence', 'c11_observe', 'could not read the solver state of ' + name)
      continue
    vs = np.vstack([cap['pos_vv'], cap['neg_vv']])
    ys = np.array([1] * len(cap['pos_vv']) + [-1] * len(cap['neg_vv']))
    lams = cap['_lambda']
    bh = np.concatenate([cap['pos_bhat'], cap['neg_bhat']])
    M = est.get_mahalanobis_matrix()
    sweeps = int(est.n_iter_) + 1
    lo, hi = float(est.bounds_[0]), float(est.bounds_[1])
    inp = dict(estimator=name, params=opt, X=data['X'].tolist(), pairs_idx=data['pairs_idx'].tolist(), y=data['ypairs'].tolist())
    cond = float(np.linalg.cond(M))
    if cond > 1e7 or lo < 1e-6:
      # e.g. a default lower bound of 0 (replaced by 1e-9): the certificate's residual is dominated by rounding
      ctx.count('certificate', 1, skipped=1)
      ctx.hist('skipped_ill_conditioned', 'cond>1e7 or bounds_[0]<1e-6')
      continue
    r = certificate_np(M, A0, vs, ys, lams)
    ctx.count('certificate', 1)
    if r is not None:
      ctx.fail_input('certificate', r, inp, observed=dict(M=M.tolist(), lam=lams.tolist()))
    gvs = glist(["(%s, %s)" % (gvec(v), gbool(y == 1)) for v, y in zip(vs, ys)])
    gq = glist(["(%s, %s)" % (gvec(v, qdy), gbool(y == 1)) for v, y in zip(vs, ys)])
    terms.append("(c11_run %s %s %s %s %s %d%%nat %s %s %s)" % (
        "None" if np.isinf(gam) else "(Some %s)" % fhex(gam), gmat(A0), gvs, fhex(lo), fhex(hi), sweeps,
        gmat(cap['A']), gvec(lams), gvec(bh)))
    recs.append(dict(kind='run', inp=inp, sweeps=sweeps))
    terms.append("(c11_certificate %d%%nat %s %s %s %s)" % (d, gmat(M, qdy), gmat(A0, qdy), gq, gvec(lams, qdy)))
    recs.append(dict(kind='certificate', inp=inp))
    ctx.seen((name, repr(sorted(opt.items())), i), bool(np.any(lams > 0)))
    ctx.hist('sweeps', sweeps)
    ctx.sample(dict(estimator=name, params=opt, sweeps=sweeps, lam=lams[:5].tolist()), limit=4)
  # priors that already satisfy all bounds are returned unchanged
  from metric_learn import ITML
  for rep in range(10 if thorough else 3):
    data = fits.make_data(rng, d=int(rng.integers(2, 5)))
    P, y = fits.fit_args('ITML', data)
    prior = fits.spd_array(rng, data['d'])
    v = P[:, 0] - P[:, 1]
    dist = np.sqrt(np.einsum('ij,jk,ik->i', v, prior, v))
    lo = float(np.max(dist[y == 1]) ** 2 * 2)      # every positive pair has wtw <= lo
    hi = float(np.min(dist[y == -1]) ** 2 / 2)     # every negative pair has wtw >= hi
    ctx.count('prior_returned', 1)
    with warnings.catch_warnings():
      warnings.simplefilter('ignore')
      e = ITML(prior=prior, max_iter=50).fit(P, y, bounds=np.array([lo, hi]))
    M = e.get_mahalanobis_matrix()
    if np.abs(M - prior).max() > 1e-9 * np.abs(prior).max():
      ctx.fail_input('prior_returned', 'the prior satisfies all bounds but is not returned unchanged',
                     dict(prior=prior.tolist(), bounds=[lo, hi], pairs=P.tolist(), y=y.tolist()), observed=M.tolist())
  if ok:
    res = ctx.run_cases('c11', HEADER, terms, per_file=4, timeout=1200)
    for r, rec in zip(res, recs):
      ctx.count('correspondence_' + rec['kind'], 1)
      if r is False:
        ctx.count('correspondence_' + rec['kind'], 0, failures=1)
        if rec['kind'] == 'certificate':
          ctx.fail_input('certificate', 'exact-rational certificate (SPD, lambda >= 0, M B = I) fails', rec['inp'])
        else:
          ctx.break_tie('correspondence', 'c11_run', "re-running the documented projections gives another state than %s %s (%d sweeps)" % (
              rec['inp']['estimator'], rec['inp']['params'], rec['sweeps']))


def replay(payload):
  print('replay: re-run ./check C11 with VERIF_SEED=%s' % payload.get('seed'))
  return 1
