"""C11 -- ITML returns the optimum of its LogDet program (KKT certificate)."""
import sys
import warnings
import numpy as np
import fits
from vcore import fhex, qdy, glist, gvec, gmat, gbool
from props.c20 import HEADER


def fit_observed(name, kw, data, bounds=None):
  """fit ITML / ITML_Supervised and read the solver's locals at the return of _fit"""
  import metric_learn
  from metric_learn import itml as itml_mod
  cap = {}
  prior_seen = {}
  orig_init = itml_mod._initialize_metric_mahalanobis

  def spy_init(*a, **k):
    r = orig_init(*a, **k)
    prior_seen['A0'] = np.array(r)
    return r

  def prof(frame, event, arg):
    if event == 'return' and frame.f_code.co_name == '_fit' and frame.f_code.co_filename.endswith('itml.py'):
      for k in ('_lambda', 'pos_bhat', 'neg_bhat', 'A', 'pos_vv', 'neg_vv', 'it'):
        if k in frame.f_locals:
          v = frame.f_locals[k]
          cap[k] = np.array(v) if isinstance(v, np.ndarray) else v
  est = getattr(metric_learn, name)(**kw)
  args = fits.fit_args(name, data)
  try:
    itml_mod._initialize_metric_mahalanobis = spy_init
    sys.setprofile(prof)
    with warnings.catch_warnings():
      warnings.simplefilter('ignore')
      try:
        if bounds is not None:
          est.fit(*args, bounds=bounds)
        else:
          est.fit(*args)
      except Exception as ex:
        ex.solver_state = cap          # the locals of _fit are read also when it is left by an exception
        raise
  finally:
    sys.setprofile(None)
    itml_mod._initialize_metric_mahalanobis = orig_init
  return est, cap, prior_seen.get('A0')


def certificate_np(M, M0, vs, ys, lams, tol=1e-6):
  """the property's first sentence, directly on the implementation's numbers"""
  if np.abs(M - M.T).max() > 1e-9 * np.abs(M).max():
    return 'M is not symmetric'
  if np.linalg.eigvalsh((M + M.T) / 2).min() <= 0:
    return 'M is not positive definite'
  if np.any(lams < 0):
    return 'a dual variable lambda_i is negative'
  B = np.linalg.inv(M0) + sum(y * l * np.outer(v, v) for v, y, l in zip(vs, ys, lams))
  if np.abs(M.dot(B) - np.eye(len(M))).max() > tol:
    return 'M^-1 - M0^-1 is not sum_i y_i lambda_i v_i v_i^T'
  return None


def kkt_residual(A, lams, bh, vs, ys):
  """largest relative violation of: lambda_i = 0 and bound met, or v^T A v = slack-adjusted bound"""
  q = np.einsum('ij,jk,ik->i', vs, A, vs)
  r = 0.0
  for qi, li, bi, yi in zip(q, lams, bh, ys):
    if li > 0:
      r = max(r, abs(qi - bi) / bi)
    else:
      r = max(r, max(0.0, (qi - bi) if yi == 1 else (bi - qi)) / bi)
  return float(r)


def run(ctx):
  thorough = ctx.tier == 'thorough'
  rng = ctx.rng
  ctx.rule = ("ITML and ITML_Supervised x prior in {identity, covariance, random, SPD array} x gamma in {0.1, 1, 10, inf} x default "
              "/ explicit bounds (either order) x max_iter in 1..200, d in 2..5, up to 40 pairs: (a) the Coq model re-runs the projections on "
              "binary64 from the prior the implementation started from, the same pair differences and bounds_, for n_iter_+1 "
              "sweeps, and must reproduce A, lambda and the slack bounds (1e-6); the model's loop with the code's stopping test and the same tol / max_iter must stop after the same number of sweeps; features in units 2^-10 .. 2^17 (bounds, priors scaled accordingly), tol in 1e-3 .. 1e-9; (b) exact-rational certificate on the "
              "implementation's own M and lambda: M SPD (LDL^T), lambda >= 0, M (M0^-1 + sum y_i lambda_i v_i v_i^T) = I; "
              "(c) priors that satisfy all bounds are returned unchanged.  non-trivial = at least one lambda_i > 0.")
  ctx.trusted = ["translator tools/translate_itml.py + tools/pynum.py / Base/NPNum.v (update blocks, gamma_proj, stopping test; loop headers hand-written in Proofs/C11Src.v), text pins (public fit wrappers)", "Coq 8.16.1 kernel + vm_compute", "hand-written model Model/ITML.v tied by the binary64 re-run",
                 "solver locals read with sys.setprofile (no source change)",
                 "KKT => unique optimum of the LogDet problem (strict convexity) is not mechanised"]
  ok = ctx.build_property(gen_needed=['Src_itml'])
  terms, recs = [], []
  n = 96 if thorough else 24
  for i in range(n):
    name = ['ITML', 'ITML_Supervised'][i % 4 == 3]
    data = fits.make_data(rng, d=int(rng.integers(2, 6)))
    d = data['d']
    # the unit the features are measured in (squared distances, bounds and dual variables scale with units^2)
    prior = ['identity', 'covariance', 'random', 'array'][i % 4 if name == 'ITML' else int(rng.integers(0, 4))]
    force_layout = None
    if name == 'ITML' and i % 8 == 5:
      prior = 'array'                    # plain ITML with an array prior, Fortran-ordered and C-ordered in turn
      force_layout = ['F', 'C'][(i // 8) % 2]
    # the unit the features are measured in.  With a prior expressed in the same units (covariance, or a given
    # array scaled by 1/units^2) learned distances and bounds are unit-free; with a fixed prior (identity, random)
    # squared distances scale with units^2 and so must explicit bounds: large units are then drawn only together
    # with explicit bounds (the default bounds are percentiles of the unsquared Euclidean distances, which for data
    # in large units lie orders of magnitude below the squared distances they are compared with: the rank-one
    # downdates then cancel catastrophically in binary64, outside any rounding guarantee)
    explicit = bool(rng.random() < 0.7)
    scaled_prior = prior in ('covariance', 'array')
    choices = [1.0, 2.0 ** -10, 2.0 ** 7, 2.0 ** 14, 2.0 ** 17, 2.0 ** 20] if (scaled_prior or explicit) else [1.0, 1.0, 2.0 ** -10, 2.0 ** 4]
    tiny = explicit and not scaled_prior and i % 5 == 1      # features in units of 2^-20 (squared distances of the order 1e-12) with bounds in that unit
    units = float(choices[int(rng.integers(0, len(choices)))])
    if tiny:
      units = 2.0 ** -20
    data = dict(data)
    data['X'] = data['X'] * units
    ctx.hist('units', units)
    if name == 'ITML' and i % 3 == 2:
      # constraints listed more than once (k copies of a constraint are k constraints: each has its own dual variable)
      pi, yp = data['pairs_idx'], data['ypairs']
      again = rng.integers(0, len(pi), size=max(2, len(pi) // 3))
      data['pairs_idx'] = np.concatenate([pi, pi[again]])
      data['ypairs'] = np.concatenate([yp, yp[again]])
      ctx.hist('repeated_constraints', True)
    gam = [0.1, 1.0, 10.0, np.inf, float('inf')][int(rng.integers(0, 5))]
    if tiny and np.isinf(gam):
      gam = 1.0   # infinity as numpy's constant and as another float object (e.g. after unpickling)
    kw = dict(gamma=gam, max_iter=int(rng.choice([1, 2, 5, 20, 200])),
              prior=prior if prior != 'array' else fits.spd_array(rng, d) / units ** 2,
              random_state=int(rng.integers(0, 100)), tol=float([1e-3, 1e-3, 1e-6, 1e-9][int(rng.integers(0, 4))]))
    if force_layout is not None:
      kw['prior'] = np.asfortranarray(kw['prior']) if force_layout == 'F' else np.ascontiguousarray(kw['prior'])
      ctx.hist('array_prior_layout', force_layout)
    if name == 'ITML_Supervised':
      kw['n_constraints'] = int(rng.integers(5, 20))
    bounds = None
    if explicit:
      bounds = np.array([float(rng.choice([0.25, 0.5, 1.0])), float(rng.choice([3.0, 6.0]))]) * (1.0 if scaled_prior else units ** 2)
      if rng.random() < 0.3:
        bounds = bounds[::-1].copy()     # loose specification: similar pairs within u, dissimilar beyond l, u > l
        ctx.hist('bounds', 'explicit, bounds[0] > bounds[1]')
    opt = {k: (v if not isinstance(v, np.ndarray) else 'ndarray') for k, v in kw.items()}
    opt['bounds'] = None if bounds is None else bounds.tolist()
    ctx.count('fit_runs', 1)
    ctx.hist('prior', prior)
    ctx.hist('gamma', gam)
    try:
      est, cap, A0 = fit_observed(name, kw, data, bounds)
    except Exception as ex:
      Ax = getattr(ex, 'solver_state', {}).get('A')
      # (only with hard constraints, gamma = inf: with a finite gamma the slack keeps every step bounded and a failure is reported)
      from_converter = np.isinf(gam) and (type(ex).__name__ == 'NonPSDError' or 'should be symmetric' in str(ex))
      if from_converter and Ax is not None and not np.isfinite(Ax).all():
        # hard constraints (gamma = inf) that cannot be met with bounds in another unit than the prior: the iterate overflows
        ctx.count('fit_runs', 0, skipped=1)
        ctx.hist('skipped_ill_conditioned', 'iterate overflowed (gamma = inf, bounds and prior in different units)')
        continue
      if from_converter and Ax is not None:
        ev = np.linalg.eigvalsh((Ax + Ax.T) / 2)
        if ev[-1] > 0 and abs(ev[0]) <= 1e-10 * ev[-1]:
          # the iterate is positive definite in exact arithmetic (C11_partial) but numerically singular (hard constraints that
          # cannot all be met drive an eigenvalue to 0): its smallest eigenvalue is rounding noise, outside any rounding guarantee
          ctx.count('fit_runs', 0, skipped=1)
          ctx.hist('skipped_ill_conditioned', 'numerically singular iterate (|lambda_min| <= 1e-10 lambda_max): NonPSDError')
          continue
      ctx.fail_input('fit_runs', '%s raises %s' % (name, type(ex).__name__), dict(estimator=name, params=opt), observed=str(ex)[:200])
      continue
    need = ('_lambda', 'pos_bhat', 'neg_bhat', 'A', 'pos_vv', 'neg_vv')
    if any(k not in cap for k in need) or A0 is None:
      ctx.break_tie('correspondence', 'c11_observe', 'could not read the solver state of ' + name)
      continue
    vs = np.vstack([cap['pos_vv'], cap['neg_vv']])
    ys = np.array([1] * len(cap['pos_vv']) + [-1] * len(cap['neg_vv']))
    # M0 is what the prior option says (independent evaluation): identity / inverse covariance of the DISTINCT training points /
    # the given array ('random' is C20's).  The points are recovered from the estimator's own tuples for the supervised variant.
    ctx.count('prior_is_documented', 1)
    doc = None
    if prior == 'identity':
      doc = np.eye(d)
    elif prior == 'array':
      doc = np.asarray(kw['prior'], dtype=float)
    elif prior == 'covariance' and name == 'ITML':
      Pts = np.unique(np.vstack(fits.fit_args(name, data)[0]), axis=0)
      doc = np.linalg.pinv(np.atleast_2d(np.cov(Pts, rowvar=False)))
    if doc is not None and np.abs(A0 - doc).max() > 1e-7 * np.abs(doc).max():
      ctx.fail_input('prior_is_documented', "the matrix the iterations start from is not the documented '%s' prior" % prior,
                     dict(estimator=name, params=opt, X=data['X'].tolist(), pairs_idx=data['pairs_idx'].tolist(), bounds=None if bounds is None else np.asarray(bounds).tolist()),
                     observed=np.asarray(A0).tolist(), expected=doc.tolist())
    lams = cap['_lambda']
    bh = np.concatenate([cap['pos_bhat'], cap['neg_bhat']])
    M = est.get_mahalanobis_matrix()
    sweeps = int(est.n_iter_) + 1
    lo, hi = float(est.bounds_[0]), float(est.bounds_[1])
    inp = dict(estimator=name, params=opt, X=data['X'].tolist(), pairs_idx=data['pairs_idx'].tolist(), y=data['ypairs'].tolist())
    cond = float(np.linalg.cond(M))
    if cond > 1e5 or lo < 1e-6 * hi:       # (the residual of M B = I grows like cond * eps * number of rank-one updates * growth of the dual variables: 1.2e-6 was met at cond 3e5 with 68 updates and dual variables of 4e6, against the tolerance 1e-6; the binary64 re-run of the model still covers these runs)
      # e.g. a default lower bound of 0 (replaced by 1e-9): the certificate's residual is dominated by rounding
      ctx.count('certificate', 1, skipped=1)
      ctx.hist('skipped_ill_conditioned', 'cond>1e5 or bounds_[0]<1e-6*bounds_[1]')
      continue
    # the certificate multiplies M by M0^-1 + sum y lambda v v^T: the terms of that sum are known to 1 ulp each, so the residual
    # of M B = I carries |M| * (|M0^-1| + sum lambda |v|^2) * eps whatever the solver did; beyond 1e-7 nothing can be concluded
    # at the tolerance 1e-6 (large dual variables: many sweeps over repeated or nearly parallel constraints)
    amp = float(np.abs(M).max() * (np.abs(np.linalg.inv(A0)).max() + float(np.sum(lams * np.einsum('ij,ij->i', vs, vs)))))
    if amp * 2.2e-16 * 8 > 1e-7:
      ctx.count('certificate', 1, skipped=1)
      ctx.hist('skipped_ill_conditioned', '|M| (|M0^-1| + sum lambda |v|^2) eps > 1e-8: rounding of the dual variables alone exceeds the tolerance')
      continue
    r = certificate_np(M, A0, vs, ys, lams)
    ctx.count('certificate', 1)
    if r is not None:
      ctx.fail_input('certificate', r, inp, observed=dict(M=M.tolist(), lam=lams.tolist()))
    gvs = glist(["(%s, %s)" % (gvec(v), gbool(y == 1)) for v, y in zip(vs, ys)])
    gq = glist(["(%s, %s)" % (gvec(v, qdy), gbool(y == 1)) for v, y in zip(vs, ys)])
    terms.append("(c11_run %s %s %s %s %s %d%%nat %s %s %s)" % (
        "None" if np.isinf(gam) else "(Some %s)" % fhex(gam), gmat(A0), gvs, fhex(lo), fhex(hi), sweeps,
        gmat(cap['A']), gvec(lams), gvec(bh)))
    recs.append(dict(kind='run', inp=inp, sweeps=sweeps))
    terms.append("(c11_certificate %d%%nat %s %s %s %s)" % (d, gmat(M, qdy), gmat(A0, qdy), gq, gvec(lams, qdy)))
    recs.append(dict(kind='certificate', inp=inp))
    # the stopping rule: the model's loop stops after the same number of sweeps
    terms.append("(c11_stop %s %s %s %s %s %s %d%%nat %d%%nat)" % (
        "None" if np.isinf(gam) else "(Some %s)" % fhex(gam), gmat(A0), gvs, fhex(lo), fhex(hi), fhex(kw['tol']),
        kw['max_iter'], int(est.n_iter_)))
    recs.append(dict(kind='stop', inp=inp, sweeps=sweeps, state=(cap['A'], lams, bh, vs, ys), tol=kw['tol'], max_iter=kw['max_iter']))
    # converged clause on the implementation's own numbers: when the loop stopped before the budget with a small
    # tol, every constraint is inactive (lambda = 0, slack-adjusted bound met) or tight, up to 1000 tol
    if int(est.n_iter_) < kw['max_iter'] - 1 and kw['tol'] <= 1e-6:
      ctx.count('converged_kkt', 1)
      r = kkt_residual(cap['A'], lams, bh, vs, ys)
      if r > 1e3 * kw['tol']:
        ctx.fail_input('converged_kkt', 'the solver reports convergence (n_iter_ < max_iter - 1) but a constraint is neither inactive nor tight',
                       inp, observed=dict(n_iter=int(est.n_iter_), relative_residual=r, tol=kw['tol']))
    ctx.seen((name, repr(sorted(opt.items())), i), bool(np.any(lams > 0)))
    ctx.hist('sweeps', sweeps)
    ctx.sample(dict(estimator=name, params=opt, sweeps=sweeps, lam=lams[:5].tolist()), limit=4)
  # ---- the same problem expressed in other units (a power of two, so that every operation of the solver scales
  # exactly): same number of sweeps, M scales by 1 / units^2, and a run that reports convergence is inactive-or-tight
  for rep in range(12 if thorough else 5):
    data = fits.make_data(rng, d=int(rng.integers(2, 5)))
    d = data['d']
    gam = [0.5, 4.0, 1.0, np.inf, float('inf')][rep % 5]          # every value in every run: the slack enters the step only for gamma != 1
    P0 = fits.spd_array(rng, d)
    use_cov = bool(rng.random() < 0.4)
    tol = float([1e-6, 1e-6, 1e-3, 1e-6, 1e-3][rep % 5])
    b0 = np.array([float(rng.choice([0.5, 1.0])), float(rng.choice([3.0, 6.0]))])
    runs = {}
    for u in (1.0, 2.0 ** 14, 2.0 ** 20, 2.0 ** -12):
      du = dict(data)
      du['X'] = data['X'] * u
      fixed_prior = (rep % 5 == 2)       # identity prior: the matrix is unit-free when the BOUNDS are given in the data's squared unit
      kw = dict(gamma=gam, max_iter=300, tol=tol,
                prior='identity' if fixed_prior else ('covariance' if use_cov else np.ascontiguousarray(P0) / u ** 2))
      try:
        est, cap, A0 = fit_observed('ITML', kw, du, b0.copy() * (u ** 2 if fixed_prior else 1.0))      # learned distances, hence bounds, are unit-free
      except Exception as ex:
        runs[u] = ('raises ' + type(ex).__name__, None, None)
        continue
      vs = np.vstack([cap['pos_vv'], cap['neg_vv']])
      ys = np.array([1] * len(cap['pos_vv']) + [-1] * len(cap['neg_vv']))
      bh = np.concatenate([cap['pos_bhat'], cap['neg_bhat']])
      runs[u] = (int(est.n_iter_), est.get_mahalanobis_matrix() * (1.0 if fixed_prior else u ** 2), kkt_residual(cap['A'], cap['_lambda'], bh, vs, ys))
    ctx.count('units', 1)
    ref = runs[1.0]
    inp = dict(estimator='ITML', X=data['X'].tolist(), pairs_idx=data['pairs_idx'].tolist(), y=data['ypairs'].tolist(),
               gamma=gam, tol=tol, max_iter=300, bounds=b0.tolist(), prior='covariance' if use_cov else P0.tolist())
    if isinstance(ref[0], str) or np.linalg.cond(ref[1]) > 1e7:
      ctx.count('units', 0, skipped=1)
      continue
    # the run in units of 1: when it reports convergence with a small tol, every constraint is inactive or tight
    if ref[0] < 299 and tol <= 1e-6:
      ctx.count('converged_kkt', 1)
      if ref[2] > 1e3 * tol:
        ctx.fail_input('converged_kkt', 'the solver reports convergence (n_iter_ < max_iter - 1) but a constraint is neither inactive nor tight',
                       inp, observed=dict(n_iter=ref[0], relative_residual=ref[2], tol=tol))
    for u, got in runs.items():
      if u == 1.0:
        continue
      if isinstance(got[0], str):
        ctx.fail_input('units', 'ITML %s on the data expressed in other units (fits in units of 1)' % got[0], dict(inp, units=u))
      elif got[0] != ref[0] or np.abs(got[1] - ref[1]).max() > 1e-6 * np.abs(ref[1]).max():
        early = got[0] < ref[0] and got[0] < 299
        if early and got[2] > 10 * max(ref[2], tol):
          ctx.fail_input('converged_kkt', 'on the same problem in other units the solver reports convergence earlier, at a point where a constraint is neither inactive nor tight',
                         dict(inp, units=u), observed=dict(n_iter=got[0], relative_residual=got[2]),
                         expected=dict(n_iter=ref[0], relative_residual=ref[2]))
        else:
          ctx.fail_input('units', 'the learned matrix is not the same metric when the problem is expressed in other units',
                         dict(inp, units=u), observed=dict(n_iter=got[0], M_times_units2=got[1].tolist()),
                         expected=dict(n_iter=ref[0], M=ref[1].tolist()))
  # priors that already satisfy all bounds are returned unchanged
  from metric_learn import ITML
  for rep in range(10 if thorough else 3):
    data = fits.make_data(rng, d=int(rng.integers(2, 5)))
    P, y = fits.fit_args('ITML', data)
    prior = fits.spd_array(rng, data['d'])
    v = P[:, 0] - P[:, 1]
    dist = np.sqrt(np.einsum('ij,jk,ik->i', v, prior, v))
    lo = float(np.max(dist[y == 1]) ** 2 * 2)      # every positive pair has wtw <= lo
    hi = float(np.min(dist[y == -1]) ** 2 / 2)     # every negative pair has wtw >= hi
    ctx.count('prior_returned', 1)
    with warnings.catch_warnings():
      warnings.simplefilter('ignore')
      e = ITML(prior=prior, max_iter=50).fit(P, y, bounds=np.array([lo, hi]))
    M = e.get_mahalanobis_matrix()
    if np.abs(M - prior).max() > 1e-9 * np.abs(prior).max():
      ctx.fail_input('prior_returned', 'the prior satisfies all bounds but is not returned unchanged',
                     dict(prior=prior.tolist(), bounds=[lo, hi], pairs=P.tolist(), y=y.tolist()), observed=M.tolist())
  # the container / number type of explicit bounds is immaterial: integer-valued bounds given as Python ints, an integer
  # array or floats give the same bounds_ and the same M; a bound of 0 is the documented 1e-9 whatever its type (F28)
  for rep in range(6 if thorough else 2):
    data = fits.make_data(rng, d=int(rng.integers(2, 5)))
    P, y = fits.fit_args('ITML', data)
    hi = int(rng.integers(2, 8))
    for lo in (0, 1):
      ref = None
      for form, b in (('float list', [float(lo), float(hi)]), ('int list', [lo, hi]), ('int64 array', np.array([lo, hi], dtype=np.int64)),
                      ('int32 array', np.array([lo, hi], dtype=np.int32)), ('float array', np.array([lo, hi], dtype=float))):
        ctx.count('bounds_types', 1)
        ctx.hist('bounds.type', form)
        inp = dict(estimator='ITML', bounds=[lo, hi], bounds_given_as=form, max_iter=20, pairs=P.tolist(), y=y.tolist())
        try:
          with warnings.catch_warnings():
            warnings.simplefilter('ignore')
            e = ITML(max_iter=20).fit(P, y, bounds=b)
        except Exception as ex:
          ctx.fail_input('bounds_types', 'ITML.fit with bounds %s given as %s raises %s' % ([lo, hi], form, type(ex).__name__), inp,
                         observed=str(ex)[:200])
          continue
        got = (np.asarray(e.bounds_, dtype=float), e.get_mahalanobis_matrix())
        want_b = np.array([1e-9 if lo == 0 else float(lo), float(hi)])
        if not np.array_equal(got[0], want_b):
          ctx.fail_input('bounds_types', 'bounds_ is not the documented one (0 replaced by 1e-9) for bounds given as %s' % form, inp,
                         observed=got[0].tolist(), expected=want_b.tolist())
        if ref is None:
          ref = got
        elif not np.allclose(got[1], ref[1], rtol=1e-9, atol=1e-12 * np.abs(ref[1]).max()):
          ctx.fail_input('bounds_types', 'the learned matrix depends on the type the bounds are given in (%s vs float list)' % form, inp,
                         observed=got[1].tolist(), expected=ref[1].tolist())
  if ok:
    res = ctx.run_cases('c11', HEADER, terms, per_file=4, timeout=1200)
    for r, rec in zip(res, recs):
      ctx.count('correspondence_' + rec['kind'], 1)
      if r is False:
        ctx.count('correspondence_' + rec['kind'], 0, failures=1)
        if rec['kind'] == 'certificate':
          ctx.fail_input('certificate', 'exact-rational certificate (SPD, lambda >= 0, M B = I) fails', rec['inp'])
        elif rec['kind'] == 'stop':
          A_, l_, b_, v_, y_ = rec['state']
          r = kkt_residual(A_, l_, b_, v_, y_)
          if rec['sweeps'] < rec['max_iter'] and r > 1e3 * max(rec['tol'], 1e-12) and r > 1e-2:
            ctx.fail_input('converged_kkt', 'the solver stopped before max_iter although the documented stopping test is not met, at a point where a constraint is neither inactive nor tight',
                           rec['inp'], observed=dict(sweeps=rec['sweeps'], relative_residual=r, tol=rec['tol']))
          else:
            ctx.break_tie('correspondence', 'c11_stop', "the documented stopping rule stops after another number of sweeps than %s %s (%d sweeps)" % (
                rec['inp']['estimator'], rec['inp']['params'], rec['sweeps']))
        else:
          ctx.break_tie('correspondence', 'c11_run', "re-running the documented projections gives another state than %s %s (%d sweeps)" % (
              rec['inp']['estimator'], rec['inp']['params'], rec['sweeps']))


def replay(payload):
  print('replay: re-run ./check C11 with VERIF_SEED=%s' % payload.get('seed'))
  return 1
