"""C04 -- tuple classifiers decide exactly by comparing learned distances."""
import warnings
import numpy as np
import fits
from props import metric_common as mc
from vcore import fhex, qdy, glist, gvec, gmat, gtup, gzlist

_hosts = {}


def host(name, d):
  """a fitted ITML/MMC/SDML/SCML/LSML whose components_ are then assigned"""
  key = (name, d)
  if key not in _hosts:
    rng = np.random.default_rng(1000 + d)
    data = fits.make_data(rng, d=max(d, 2) if name in ('SDML',) else d if d >= 2 else 2)
    if data['d'] != d:
      # learners that need >= 2 features are fitted in 2-D; only the mixin code is exercised afterwards
      pass
    kw = fits.sdml_fix_balance(name, fits.base_kwargs(name, data), data)
    _hosts[key] = fits.fit(name, kw, data)
  return _hosts[key]


def gen(rng):
  d = int(rng.integers(1, 6))
  k = int(rng.integers(1, d + 1))
  L = rng.integers(-4, 5, size=(k, d)).astype(float)
  if rng.random() < 0.15:
    L[0] = 0
  return d, k, L


def pts(rng, n, m, d):
  T = rng.integers(-8, 9, size=(n, m, d)).astype(float)
  return T


def falsify_pairs(est, P, thr):
  with warnings.catch_warnings():
    warnings.simplefilter('ignore')
    dist = est.pair_distance(P)
    dec = est.decision_function(P)
    est.set_threshold(thr)
    pred = est.predict(P)
  if not np.array_equal(dec, -dist):
    return 'decision_function != -pair_distance'
  if not np.array_equal(pred, np.where(dist <= est.threshold_, 1, -1)):
    return 'predict != (distance <= threshold_)'
  return None


def falsify_trip(est, T):
  with warnings.catch_warnings():
    warnings.simplefilter('ignore')
    dab = est.pair_distance(T[:, [0, 1]])
    dac = est.pair_distance(T[:, [0, 2]])
    dec = est.decision_function(T)
    pred = est.predict(T)
    sc = est.score(T)
    sw = est.decision_function(T[:, [0, 2, 1]])
  if not np.array_equal(dec, dac - dab):
    return 'decision_function != d(a,c) - d(a,b)'
  if not np.array_equal(pred, np.where(dab < dac, 1, -1)):
    return 'predict != (d(a,b) < d(a,c))'
  if abs(sc - np.mean(pred == 1)) > 1e-12:
    return 'score != fraction predicted +1'
  if not np.array_equal(sw, -dec):
    return 'swapping b and c does not negate the decision function'
  return None


def falsify_quad(est, Q):
  with warnings.catch_warnings():
    warnings.simplefilter('ignore')
    dab = est.pair_distance(Q[:, [0, 1]])
    dcd = est.pair_distance(Q[:, [2, 3]])
    dec = est.decision_function(Q)
    pred = est.predict(Q)
    sw = est.decision_function(Q[:, [2, 3, 0, 1]])
  if not np.array_equal(dec, dcd - dab):
    return 'decision_function != d(c,d) - d(a,b)'
  if not np.array_equal(pred, np.sign(dcd - dab)):
    return 'predict != sign(d(c,d) - d(a,b))'
  if not np.array_equal(sw, -dec):
    return 'swapping the pairs does not negate the decision function'
  return None


def brute_auc(dist, y):
  pos, neg = dist[y == 1], dist[y == -1]
  s = 0.0
  for p in pos:
    s += np.sum(p < neg) + 0.5 * np.sum(p == neg)
  return s / (len(pos) * len(neg))


def run(ctx):
  thorough = ctx.tier == 'thorough'
  rng = ctx.rng
  ctx.rule = ("integer L (entries -4..4, zero rows allowed) assigned as components_ of fitted ITML/MMC/SDML (pairs), SCML "
              "(triplets), LSML (quadruplets); integer points in [-8,8]; ties forced: identical points, equal distances, "
              "threshold exactly on a distance and one ulp below/above, thresholds from set_threshold and "
              "calibrate_threshold; all outputs compared exactly (floats bit-exact, predictions as integers) with the "
              "translated definitions on binary64; ROC-AUC vs Mann-Whitney count on exact rational squared distances; "
              "representation lane: the same tuples as list / int64 / int8 / Fortran / strided / transposed view / indices of a "
              "float64 or int16 preprocessor give identical decisions. "
              "non-trivial = L != 0 and at least two distinct distances; distinct = distinct (L, tuples, threshold).")
  ctx.trusted = ["Coq 8.16.1 kernel + vm_compute", "translator tools/translate_query.py + idiom table coq/Base/NP.v",
                 "oracle: sklearn.metrics.roc_auc_score (validated against the Mann-Whitney count each run)",
                 "that no estimator class overrides the mixin methods is checked dynamically by the harness"]
  ok = ctx.build_property(gen_needed=['Src_query'], case_libs=('Model/CaseDefs.vo', 'Model/CaseDefsClf.vo'))
  import metric_learn
  from metric_learn import base_metric as bm
  # the concrete classes use the mixin methods (no override)
  for nm, mixin in (('ITML', bm._PairsClassifierMixin), ('MMC', bm._PairsClassifierMixin), ('SDML', bm._PairsClassifierMixin),
                    ('SCML', bm._TripletsClassifierMixin), ('LSML', bm._QuadrupletsClassifierMixin)):
    cls = getattr(metric_learn, nm)
    for meth in ('predict', 'decision_function', 'score'):
      ctx.count('mixin_not_overridden', 1)
      if getattr(cls, meth) is not getattr(mixin, meth):
        ctx.break_tie('translator', 'Src_query', "%s.%s is not the mixin's method" % (nm, meth))
    for meth in ('pair_distance', 'pair_score', 'transform', 'get_metric', 'get_mahalanobis_matrix', 'score_pairs'):
      if getattr(cls, meth) is not getattr(bm.MahalanobisMixin, meth):
        ctx.break_tie('translator', 'Src_query', "%s.%s is not MahalanobisMixin's method" % (nm, meth))
  n = 1500 if thorough else 250
  terms, recs = [], []
  for i in range(n):
    d, k, L = gen(rng)
    kind = ['pairs', 'trip', 'quad'][i % 3]
    if kind == 'pairs':
      name = ['ITML', 'MMC', 'SDML'][(i // 3) % 3]
      est = host(name, max(d, 2))
      est.components_ = L
      P = pts(rng, int(rng.integers(2, 7)), 2, d)
      if rng.random() < 0.3:
        P[0, 1] = P[0, 0]
      if rng.random() < 0.3 and len(P) > 1:
        P[1] = P[0][::-1]
      y = np.where(rng.random(len(P)) < 0.5, 1, -1)
      y[0], y[-1] = 1, -1
      with warnings.catch_warnings():
        warnings.simplefilter('ignore')
        dist = est.pair_distance(P)
        mode = int(rng.integers(0, 6))
        j = int(rng.integers(0, len(P)))
        if mode == 0:
          thr = float(dist[j])
        elif mode == 1:
          thr = float(np.nextafter(dist[j], -np.inf))
        elif mode == 2:
          thr = float(np.nextafter(dist[j], np.inf))
        elif mode == 3:
          est.calibrate_threshold(P, y)
          thr = float(est.threshold_)
        elif mode == 4:
          thr = float(rng.integers(0, 30))
        else:
          thr = float(rng.standard_normal() * 10)
        if mode != 3:
          est.set_threshold(thr)
          if est.threshold_ != thr:
            ctx.fail_input('set_threshold', 'set_threshold does not store the value', dict(thr=thr), est.threshold_, thr)
        dec = est.decision_function(P)
        pred = est.predict(P)
        auc = est.score(P, y)
      ctx.hist('threshold_mode', ['on_distance', 'ulp_below', 'ulp_above', 'calibrated', 'integer', 'random'][mode])
      terms.append("(c04_pairs_exact %s %s %s %s %s && c04_auc %s %s %s %s)" % (
          gmat(L), fhex(thr), gtup(P), gvec(dec), gzlist(pred), gmat(L, qdy), gtup(P, qdy), gzlist(y), qdy(auc)))
      rec = dict(kind=kind, estimator=name, L=L, T=P, thr=thr, y=y)
      nontriv = bool(np.any(L != 0) and len(set(dist.tolist())) > 1)
      ctx.sample(dict(kind='pairs', estimator=name, L=L.tolist(), pairs=P.tolist(), threshold=thr,
                      impl_predict=pred.tolist(), impl_auc=float(auc)), limit=3)
    elif kind == 'trip':
      est = host('SCML', max(d, 2))
      est.components_ = L
      T = pts(rng, int(rng.integers(1, 6)), 3, d)
      if rng.random() < 0.4:
        T[0, 2] = 2 * T[0, 0] - T[0, 1]          # d(a,b) == d(a,c) exactly
      if rng.random() < 0.2:
        T[-1, 1] = T[-1, 0]
      with warnings.catch_warnings():
        warnings.simplefilter('ignore')
        dec, pred, sc = est.decision_function(T), est.predict(T), est.score(T)
      terms.append("(c04_trip_exact %s %s %s %s %s)" % (gmat(L), gtup(T), gvec(dec), gzlist(pred), fhex(sc)))
      rec = dict(kind=kind, estimator='SCML', L=L, T=T)
      nontriv = bool(np.any(L != 0) and np.any(dec != 0))
      ctx.sample(dict(kind='triplets', L=L.tolist(), triplets=T.tolist(), impl_decision=dec.tolist(),
                      impl_predict=pred.tolist()), limit=5)
    else:
      est = host('LSML', max(d, 2))
      est.components_ = L
      T = pts(rng, int(rng.integers(1, 6)), 4, d)
      if rng.random() < 0.4:
        T[0, 2:] = T[0, :2] + 1.0               # equal distances
      with warnings.catch_warnings():
        warnings.simplefilter('ignore')
        dec, pred, sc = est.decision_function(T), est.predict(T), est.score(T)
      terms.append("(c04_quad_exact %s %s %s %s %s)" % (gmat(L), gtup(T), gvec(dec), gzlist(pred), fhex(sc)))
      rec = dict(kind=kind, estimator='LSML', L=L, T=T)
      nontriv = bool(np.any(L != 0) and np.any(dec != 0))
    ctx.seen((kind, L.tolist(), rec['T'].tolist(), rec.get('thr')), nontriv)
    ctx.hist('kind', kind)
    recs.append(rec)

  def falsify(rec):
    est = host(rec['estimator'], max(rec['L'].shape[1], 2))
    est.components_ = rec['L']
    ctx.count('falsifier', 1)
    if rec['kind'] == 'pairs':
      r = falsify_pairs(est, rec['T'], rec['thr'])
      if r is None:
        with warnings.catch_warnings():
          warnings.simplefilter('ignore')
          a = est.score(rec['T'], rec['y'])
          b = brute_auc(est.pair_distance(rec['T']), rec['y'])
        if abs(a - b) > 1e-12:
          r = 'score != ROC-AUC of the decision function (pair counting)'
    elif rec['kind'] == 'trip':
      r = falsify_trip(est, rec['T'])
    else:
      r = falsify_quad(est, rec['T'])
    if r is not None:
      ctx.fail_input('decision_rule', rec['kind'] + ': ' + r,
                     dict(kind=rec['kind'], estimator=rec['estimator'], L=rec['L'].tolist(), tuples=rec['T'].tolist(),
                          threshold=rec.get('thr'), y=None if 'y' not in rec else rec['y'].tolist()), expected=r)
      return True
    return False

  if ok:
    res = ctx.run_cases('c04', mc.HEADER.replace('CaseDefsQuery', 'CaseDefsClf'), terms, per_file=60)
    for r, rec in zip(res, recs):
      ctx.count('correspondence_exact', 1)
      if r is False and not falsify(rec):
        ctx.count('correspondence_exact', 0, failures=1)
        ctx.break_tie('correspondence', 'c04', "model and implementation disagree on %s" % dict(
            kind=rec['kind'], L=rec['L'].tolist(), tuples=rec['T'].tolist(), thr=rec.get('thr')))
  for rec in recs:
    if falsify(rec):
      break
  # features with a large common offset relative to their spread (timestamps, identifiers) and real-valued L: the decisions
  # are functions of the DISTANCES (differences are exact here), so an exact mirror tie d(a,b) = d(a,c) decides -1 / 0
  for j in range(120 if thorough else 40):
    d = int(rng.integers(2, 6))
    k = int(rng.integers(1, d + 1))
    L = rng.standard_normal((k, d))
    off = float([2.0 ** 30, 2.0 ** 40, 2.0 ** 20, 0.0][j % 4]) * (1.0 + np.arange(d))
    m = 3 if j % 2 == 0 else 4
    T = off + rng.integers(-64, 65, size=(int(rng.integers(2, 7)), m, d)) / 8.0
    if m == 3:
      T[0, 2] = 2 * T[0, 0] - T[0, 1]            # mirror tie (exactly representable)
      rec = dict(kind='trip', estimator='SCML', L=L, T=T)
    else:
      T[0, 3] = T[0, 2] + (T[0, 0] - T[0, 1])    # d(c,d) = d(a,b) exactly
      rec = dict(kind='quad', estimator='LSML', L=L, T=T)
    ctx.hist('offset_lane', '%s offset 2^%d' % (rec['kind'], 0 if off[0] == 0 else int(np.log2(off[0]))))
    est = host(rec['estimator'], d)
    est.components_ = L
    with warnings.catch_warnings():
      warnings.simplefilter('ignore')
      dec0, pred0 = est.decision_function(T)[0], est.predict(T)[0]
    if dec0 != 0.0 or (m == 3 and pred0 != -1) or (m == 4 and pred0 != 0):
      ctx.fail_input('decision_rule', rec['kind'] + ': tuple with exactly equal distances is not decided as a tie (decision %r, prediction %r)' % (float(dec0), int(pred0)),
                     dict(kind=rec['kind'], estimator=rec['estimator'], L=L.tolist(), tuples=T.tolist()))
      break
    if falsify(rec):
      break
  representation_lane(ctx, recs[:(400 if thorough else 90)])


def representation_lane(ctx, recs):
  """the same tuples as list / int64 / Fortran-ordered / strided arrays, and as indices of a preprocessor, must give
  the same decisions (all numbers are small integers: every variant is exact)"""
  from metric_learn._util import ArrayIndexer
  for rec in recs:
    est = host(rec['estimator'], max(rec['L'].shape[1], 2))
    est.components_ = rec['L']
    T = rec['T']
    if rec['kind'] == 'pairs':
      est.set_threshold(rec['thr'])
    n, m, d = T.shape
    big = np.zeros((2 * n, m, 2 * d))
    big[::2, :, ::2] = T
    pool, inv = np.unique(T.reshape(-1, d), axis=0, return_inverse=True)
    idx = np.asarray(inv).reshape(n, m)
    variants = [('list', T.tolist(), None), ('int64', T.astype(np.int64), None), ('int8', T.astype(np.int8), None),
                ('fortran', np.asfortranarray(T), None), ('strided', big[::2, :, ::2], None),
                ('transposed view', np.ascontiguousarray(T.transpose(2, 1, 0)).transpose(2, 1, 0), None),
                ('indices + float64 preprocessor', idx, pool), ('indices + int16 preprocessor', idx.astype(np.int32), pool.astype(np.int16))]
    # indicators counted from the end (X[-1] is the last point), alone and mixed with ordinary ones
    variants.append(('negative indices + float64 preprocessor', idx - len(pool), pool))
    variants.append(('mixed-sign indices + float64 preprocessor', np.where(idx % 2 == 0, idx, idx - len(pool)), pool))
    shifted = pool - pool.min()            # the same points after a common translation (decisions depend on differences only)
    if shifted.max() <= 255:
      # unsigned / narrow stores: every negative coordinate difference would wrap if it were taken in the store's own type
      variants.append(('indices + uint8 preprocessor', idx, shifted.astype(np.uint8)))
      variants.append(('indices + uint16 preprocessor (int8 indices)', idx.astype(np.int8) if idx.max() < 128 else idx, shifted.astype(np.uint16)))
    if np.abs(pool).max() <= 127:
      variants.append(('indices + int8 preprocessor', idx, pool.astype(np.int8)))
    extra = (rec['y'],) if rec['kind'] == 'pairs' else ()
    with warnings.catch_warnings():
      warnings.simplefilter('ignore')
      ref = (est.decision_function(T), est.predict(T), est.score(T, *extra))
    for nm, Tv, pre in variants:
      ctx.count('representation', 1)
      ctx.hist('representation', nm)
      try:
        est.preprocessor_ = None if pre is None else ArrayIndexer(pre)
        with warnings.catch_warnings():
          warnings.simplefilter('ignore')
          got = (est.decision_function(Tv), est.predict(Tv), est.score(Tv, *extra))
      except Exception as ex:
        ctx.fail_input('representation', '%s given as %s raise %s' % (rec['kind'], nm, type(ex).__name__),
                       dict(kind=rec['kind'], estimator=rec['estimator'], L=rec['L'].tolist(), tuples=T.tolist(), representation=nm),
                       observed=str(ex)[:200])
        continue
      finally:
        est.preprocessor_ = None
      if not (np.array_equal(got[0], ref[0]) and np.array_equal(got[1], ref[1]) and got[2] == ref[2]):
        ctx.fail_input('representation', '%s given as %s are classified differently' % (rec['kind'], nm),
                       dict(kind=rec['kind'], estimator=rec['estimator'], L=rec['L'].tolist(), tuples=T.tolist(), representation=nm,
                            threshold=rec.get('thr')),
                       observed=[np.asarray(g).tolist() for g in got], expected=[np.asarray(g).tolist() for g in ref])


def replay(payload):
  bad = 0
  for f in payload.get('failing_inputs', []):
    i = f['input']
    if 'tuples' not in i:
      continue
    est = host(i['estimator'], max(len(i['L'][0]), 2))
    est.components_ = np.array(i['L'], dtype=float)
    T = np.array(i['tuples'], dtype=float)
    r = (falsify_pairs(est, T, i['threshold']) if i['kind'] == 'pairs' else
         falsify_trip(est, T) if i['kind'] == 'trip' else falsify_quad(est, T))
    print('replay:', r)
    bad += r is not None
  return 1 if bad else 0
