"""C06 -- malformed input is always rejected; equivalent array-likes are equivalent."""
import itertools
import warnings
import numpy as np
import fits
from vcore import glist, gnlist

HEADER = """From Coq Require Import List ZArith Bool.
From ML Require Import Validate CaseDefs.
Import ListNotations.
"""

KINDS = ['KFloat', 'KInt', 'KBool', 'KComplex', 'KObjNum', 'KObjNone', 'KStr']
YFORMS = ['YNone', 'YPm1', 'YOtherNum', 'YNan', 'YStr', 'Y2D']


def build_array(shape, kind, nonfinite, rng, pos=0, what=np.nan):
  n = int(np.prod(shape)) if len(shape) else 1
  base = (np.arange(n) % 7 + 1.0).reshape(shape) if len(shape) else np.float64(3.0)
  if kind == 'KFloat':
    a = np.array(base, dtype=float)
    if nonfinite and a.size:
      flat = a.reshape(-1)
      flat[[0, a.size // 2, a.size - 1][pos % 3]] = what
  elif kind == 'KInt':
    a = np.array(base, dtype=np.int64)
  elif kind == 'KBool':
    a = np.array(base, dtype=float) > 3
  elif kind == 'KComplex':
    a = np.array(base, dtype=float) + 1j
  elif kind == 'KObjNum':
    a = np.array(base, dtype=float).astype(object)
  elif kind == 'KObjNone':
    a = np.array(base, dtype=float).astype(object)
    if a.size:
      a.reshape(-1)[0] = None
  elif kind == 'KStr':
    a = np.array(['a', 'bc', 'd'])[np.array(base, dtype=int) % 3] if len(shape) else np.array('a')
  return a


def build_y(yform, n, dlen=0):
  m = max(n + dlen, 0)
  if yform == 'YNone':
    return None
  if yform == 'YPm1':
    return np.where(np.arange(m) % 2 == 0, 1, -1)
  if yform == 'YOtherNum':
    return np.arange(m) % 3
  if yform == 'YNan':
    y = np.where(np.arange(m) % 2 == 0, 1.0, -1.0)
    if m:
      y[m // 2] = np.nan
    return y
  if yform == 'YStr':
    return np.array(['a', 'b', 'c'])[np.arange(m) % 3]
  if yform == 'Y2D':
    return np.ones((m, 2))


def gdesc(shape, kind, nonfinite):
  return "{| ndim := %d; shape := %s; kind := %s; nonfinite := %s |}" % (
      len(shape), gnlist(shape), kind, 'true' if nonfinite else 'false')


def outcome(f):
  from metric_learn.exceptions import PreprocessorError
  try:
    with warnings.catch_warnings():
      warnings.simplefilter('ignore')
      r = f()
    return 0, r, None
  except ValueError as e:
    return 1, None, e
  except PreprocessorError as e:
    return 2, None, e
  except Exception as e:
    return 3, None, e


def outcome_in_child(f):
  """outcome of a call that may take the interpreter down with it (e.g. a non-integer size handed to compiled code): run in a
  forked child; returns (class, None, description) with class 4 = the process died (signal / abnormal exit), 5 = no answer in 5 min"""
  import multiprocessing as mp
  m = mp.get_context('fork')
  rd, wr = m.Pipe(False)

  def target():
    oc, _, ex = outcome(f)
    wr.send((oc, None if ex is None else '%s: %s' % (type(ex).__name__, str(ex)[:150])))
  p = m.Process(target=target)
  p.start()
  p.join(300)
  if p.exitcode is None:
    p.kill()
    return 5, None, 'no answer within 300 s'
  if p.exitcode != 0 or not rd.poll(1):
    return 4, None, 'the interpreter died (exit status %s: signal %s)' % (p.exitcode, -p.exitcode if p.exitcode < 0 else '-')
  oc, desc = rd.recv()
  return oc, None, desc


def validator_lane(ctx, thorough):
  """the model of check_input against metric_learn._util.check_input on the descriptor grammar"""
  from metric_learn._util import check_input
  rng = ctx.rng
  terms, recs = [], []
  shapes = {0: [()], 1: [(0,), (3,)], 2: [(0, 3), (3, 0), (3, 2), (1, 1), (4, 3)],
            3: [(0, 2, 3), (3, 2, 0), (3, 1, 2), (3, 2, 2), (3, 3, 2), (3, 4, 2), (3, 5, 2), (4, 0, 2)],
            4: [(2, 2, 2, 2)]}
  Xpre = np.arange(40.0).reshape(10, 4)

  def raising(idx):
    raise RuntimeError("preprocessor failure")
  cases = []
  for nd in range(5):
    for shape in shapes[nd]:
      for kind in KINDS:
        for nf in ([False, True] if kind == 'KFloat' else [False]):
          for yform in YFORMS:
            for dlen in ([0, -1, 1] if yform in ('YPm1', 'YOtherNum') else [0]):
              for ty in ('classic', 'tuples'):
                for ts in ([None] if ty == 'classic' else [None, 2, 3, 4]):
                  cases.append((shape, kind, nf, yform, dlen, ty, ts, 'none'))
  # indicators through a preprocessor (array-like / raising callable)
  for shape in [(3,), (0,), (3, 2), (3, 3), (3, 4), (2, 2, 2)]:
    for mode in ('array', 'raising', 'array_nonfinite', 'callable_nonfinite'):
      for yform in ('YNone', 'YPm1', 'YOtherNum'):
        for ty in ('classic', 'tuples'):
          for ts in ([None] if ty == 'classic' else [None, 2, 3]):
            cases.append((shape, 'KInt', False, yform, 0, ty, ts, mode))
  if not thorough:
    idx = rng.permutation(len(cases))[:2500]
    cases = [cases[i] for i in sorted(idx)]
  for (shape, kind, nf, yform, dlen, ty, ts, mode) in cases:
    if (kind == 'KObjNone' or nf) and int(np.prod(shape)) == 0:
      continue      # an empty array holds no None / NaN
    pos = int(rng.integers(0, 3))
    what = [np.nan, np.inf, -np.inf][int(rng.integers(0, 3))]
    arr = build_array(shape, kind, nf, rng, pos, what)
    if mode != 'none':
      arr = (np.arange(int(np.prod(shape))) % 10).reshape(shape)
    n0 = shape[0] if len(shape) else 0
    y = build_y(yform, n0, dlen)
    if mode == 'none':
      pre, gpre = None, "None"
    elif mode == 'array':
      from metric_learn._util import ArrayIndexer
      pre = ArrayIndexer(Xpre)
      fshape = tuple(shape) + (4,)
      gpre = "(Some (Ok %s))" % gdesc(fshape, 'KFloat', False)
    elif mode in ('array_nonfinite', 'callable_nonfinite'):
      # the points the preprocessor forms are not finite (a callable returning them, or an array holding them)
      if int(np.prod(shape)) == 0:
        continue
      from metric_learn._util import ArrayIndexer
      Xbad = Xpre.copy()
      Xbad[int(arr.ravel()[pos % arr.size]), pos] = what
      pre = (lambda idx, Xbad=Xbad: Xbad[np.asarray(idx)])
      if mode == 'array_nonfinite':
        # an array preprocessor that is written to after it was wrapped
        store = Xpre.copy()
        pre = ArrayIndexer(store)
        holder = [v for v in vars(pre).values() if isinstance(v, np.ndarray) and v.shape == store.shape]
        if not holder:
          continue
        holder[0][...] = Xbad
      fshape = tuple(shape) + (4,)
      gpre = "(Some (Ok %s))" % gdesc(fshape, 'KFloat', True)
    else:
      pre, gpre = raising, "(Some (Raise PreprocessorError))"
    oc, r, ex = outcome(lambda: check_input(arr, y, preprocessor=pre, type_of_inputs=ty, tuple_size=ts))
    if r is not None:
      out_arr = r[0] if isinstance(r, tuple) else r
      ondim, oshape = out_arr.ndim, list(out_arr.shape)
    else:
      ondim, oshape = 0, []
    gy = "{| yf := %s; ylen := %d |}" % (yform, 0 if y is None else len(y))
    terms.append("(c06_case %s %s %s %s %s default_opts %d%%nat %d%%nat %s)" % (
        gdesc(shape, kind, nf), gy, gpre, 'Classic' if ty == 'classic' else 'Tuples',
        "None" if ts is None else "(Some %d%%nat)" % ts, oc, ondim, gnlist(oshape)))
    recs.append(dict(shape=list(shape), kind=kind, nonfinite=bool(nf), yform=yform, dlen=dlen, type=ty, tuple_size=ts,
                     pre=mode, impl_outcome=['returned', 'ValueError', 'PreprocessorError', 'other:' + type(ex).__name__][oc],
                     message=None if ex is None else str(ex)[:120]))
    ctx.seen((shape, kind, nf, yform, dlen, ty, ts, mode), True)
    ctx.hist('validator.outcome', recs[-1]['impl_outcome'])
    ctx.hist('validator.ndim', len(shape))
    if oc == 3:
      ctx.fail_input('outcome_class', 'check_input raises %s on %s input' % (type(ex).__name__, kind if kind != 'KFloat' else 'float'),
                     recs[-1], observed=str(ex)[:200], expected='ValueError')
  ctx.sample(recs[0])
  ctx.sample(recs[len(recs) // 2])
  return terms, recs


METHODS = ['transform', 'pair_distance', 'pair_score', 'score_pairs', 'predict', 'decision_function', 'score',
           'calibrate_threshold', 'fit']


def malformations(d, t):
  """(name, builder(kind) -> array, is_well_formed) for a method whose data argument is formed tuples
  of size t (t = 0: points)"""
  out = []
  good_shape = (4, d) if t == 0 else (4, t, d)
  nd_good = len(good_shape)
  out.append(('well_formed', good_shape, 'KFloat', False, True))
  out.append(('well_formed_int', good_shape, 'KInt', False, True))
  for nd in range(0, 5):
    if nd != nd_good:
      shp = {0: (), 1: (d,), 2: (4, d), 3: (4, 2, d), 4: (2, 2, 2, d)}[nd]
      out.append(('ndim_%d' % nd, shp, 'KFloat', False, False))
  if t:
    for tt in range(1, 6):
      if tt != t:
        out.append(('tuple_size_%d' % tt, (4, tt, d), 'KFloat', False, False))
    out.append(('zero_features', (4, t, 0), 'KFloat', False, False))
    out.append(('zero_samples', (0, t, d), 'KFloat', False, False))
    out.append(('features_plus_1', (4, t, d + 1), 'KFloat', False, False))
    out.append(('features_minus_1', (4, t, d - 1), 'KFloat', False, False))
  else:
    out.append(('zero_features', (4, 0), 'KFloat', False, False))
    out.append(('zero_samples', (0, d), 'KFloat', False, False))
    out.append(('features_plus_1', (4, d + 1), 'KFloat', False, False))
    out.append(('features_minus_1', (4, d - 1), 'KFloat', False, False))
  out.append(('nonfinite', good_shape, 'KFloat', True, False))
  out.append(('object_none', good_shape, 'KObjNone', False, False))
  out.append(('strings', good_shape, 'KStr', False, False))
  out.append(('complex', good_shape, 'KComplex', False, False))
  return out


def estimator_lane(ctx, thorough):
  """the property oracle on the 17 estimators: malformed -> ValueError, never another outcome"""
  rng = ctx.rng
  for name, kw, data in fits.zoo_specs(np.random.default_rng(ctx.seed + 11), variants=False):
    d = data['d']
    try:
      est = fits.fit(name, kw, data)
    except Exception as ex:
      ctx.count('estimator_fit_failed', 1)
      continue
    ts = fits.TUPLE_SIZE.get(name, 0)
    for meth in METHODS:
      if meth in ('predict', 'decision_function', 'score', 'calibrate_threshold') and not ts:
        continue
      if meth == 'calibrate_threshold' and ts != 2:
        continue
      if meth == 'fit':
        kind_t = {'pairs': 2, 'triplets': 3, 'quads': 4}.get(fits.KIND[name], 0)
        t_arg = kind_t
      elif meth == 'transform':
        t_arg = 0
      elif meth in ('pair_distance', 'pair_score', 'score_pairs'):
        t_arg = 2
      else:
        t_arg = ts
      mals = malformations(d, t_arg)
      if not thorough:
        keep = [m for m in mals if m[0].startswith('well')] + [mals[i] for i in rng.permutation(len(mals))[:6]]
        mals = keep
      for mname, shape, kind, nf, wf in mals:
        if meth == 'fit' and mname in ('features_plus_1', 'features_minus_1'):
          continue     # fit defines the feature count
        if meth == 'fit' and mname.startswith('well'):
          continue     # fits of well-formed data are exercised by C03
        arr = build_array(shape, kind, nf, rng, int(rng.integers(0, 3)), [np.nan, np.inf, -np.inf][int(rng.integers(0, 3))])
        n0 = shape[0] if len(shape) else 0
        ypm = np.where(np.arange(n0) % 2 == 0, 1, -1) if n0 else np.array([])
        if meth == 'fit':
          k = fits.KIND[name]
          if k == 'unsup':
            call = lambda: fits.make_estimator(name, kw).fit(arr)
          elif k in ('class', 'chunks'):
            call = lambda: fits.make_estimator(name, kw).fit(arr, np.arange(n0) % 2)
          elif k == 'reg':
            call = lambda: fits.make_estimator(name, kw).fit(arr, np.arange(n0) * 1.0)
          elif k == 'pairs':
            call = lambda: fits.make_estimator(name, kw).fit(arr, ypm)
          else:
            call = lambda: fits.make_estimator(name, kw).fit(arr)
        elif meth == 'score':
          call = (lambda: est.score(arr, ypm)) if ts == 2 else (lambda: est.score(arr))
        elif meth == 'calibrate_threshold':
          call = lambda: est.calibrate_threshold(arr, ypm)
        else:
          call = lambda: getattr(est, meth)(arr)
        oc, r, ex = outcome(call)
        ctx.count('estimator_methods', 1)
        ctx.seen((name, meth, mname), True)
        ctx.hist('method', meth)
        inp = dict(estimator=name, method=meth, malformation=mname, shape=list(shape), kind=kind)
        if wf and oc != 0:
          ctx.fail_input('outcome_class', '%s.%s rejects well-formed input (%s)' % (name, meth, mname), inp,
                         observed="%s: %s" % (type(ex).__name__, str(ex)[:150]))
        elif (not wf) and oc == 0:
          ctx.fail_input('outcome_class', '%s: %s accepted by %s' % (mname, 'malformed input', meth), inp, observed='returned')
        elif (not wf) and oc != 1:
          ctx.fail_input('outcome_class', '%s: %s raises %s instead of ValueError' % (mname, meth, type(ex).__name__), inp,
                         observed=str(ex)[:150])
    # indices through a preprocessor (callable, or an array written to after fit) that forms non-finite points
    n = len(data['X'])
    for meth in METHODS:
      if meth in ('predict', 'decision_function', 'score', 'calibrate_threshold') and not ts:
        continue
      if meth == 'calibrate_threshold' and ts != 2:
        continue
      for pmode in ('callable', 'array_written_after_fit'):
        what = [np.nan, np.inf, -np.inf][int(rng.integers(0, 3))]
        Xbad = np.array(data['X'], dtype=float)
        bad_row = int(rng.integers(0, n))
        Xbad[bad_row, int(rng.integers(0, d))] = what
        t_arg = (0 if meth == 'transform' else 2 if meth in ('pair_distance', 'pair_score', 'score_pairs') else ts)
        if meth == 'fit':
          kind = fits.KIND[name]
          t_arg = {'pairs': 2, 'triplets': 3, 'quads': 4}.get(kind, 0)
        m = 6
        idx = rng.integers(0, n, size=(m,) if t_arg == 0 else (m, t_arg))
        idx.ravel()[int(rng.integers(0, idx.size))] = bad_row
        ypm = np.where(np.arange(m) % 2 == 0, 1, -1)
        try:
          with warnings.catch_warnings():
            warnings.simplefilter('ignore')
            if meth == 'fit':
              if pmode != 'callable':
                continue
              kwb = dict(kw)
              kwb['preprocessor'] = (lambda ii, Xbad=Xbad: Xbad[np.asarray(ii)])
              kind = fits.KIND[name]
              if kind in ('unsup', 'class', 'reg', 'chunks'):
                args = fits.fit_args(name, data)
                ii = np.arange(n)
                call = lambda: fits.make_estimator(name, kwb).fit(ii, *args[1:])
              elif kind == 'pairs':
                call = lambda: fits.make_estimator(name, kwb).fit(idx, ypm)
              else:
                call = lambda: fits.make_estimator(name, kwb).fit(idx)
            else:
              kwb = dict(kw)
              if pmode == 'callable':
                kwb['preprocessor'] = (lambda ii, Xbad=Xbad: Xbad[np.asarray(ii)])
                good = dict(data)
                eb = fits.make_estimator(name, kwb).fit(*fits.fit_args(name, data))
              else:
                store = np.array(data['X'], dtype=float)
                kwb['preprocessor'] = store
                eb = fits.make_estimator(name, kwb).fit(*fits.fit_args(name, data))
                store[:] = Xbad
              if meth == 'score':
                call = (lambda: eb.score(idx, ypm)) if ts == 2 else (lambda: eb.score(idx))
              elif meth == 'calibrate_threshold':
                call = lambda: eb.calibrate_threshold(idx, ypm)
              else:
                call = lambda: getattr(eb, meth)(idx)
        except Exception:
          ctx.count('estimator_fit_failed', 1)
          continue
        oc, r, ex = outcome(call)
        ctx.count('estimator_methods', 1)
        ctx.seen((name, meth, 'nonfinite_through_preprocessor', pmode), True)
        if oc != 1:
          ctx.fail_input('outcome_class', 'non-finite points formed by a preprocessor (%s): %s %s' % (
                             pmode, meth, 'returned' if oc == 0 else 'raises ' + type(ex).__name__),
                         dict(estimator=name, method=meth, preprocessor=pmode, value=str(what), indices=np.asarray(idx).tolist()),
                         observed=None if ex is None else str(ex)[:150])
    # labels
    if fits.KIND[name] == 'pairs':
      P, y = fits.fit_args(name, data)
      frac = y.astype(float)
      frac[int(np.flatnonzero(y == 1)[0])] = 1.5            # a single label that is not +-1 but truncates to it
      for lname, yy in (('labels_0_2', np.where(y == 1, 2, 0)), ('labels_nan', np.where(np.arange(len(y)) == 1, np.nan, y.astype(float))),
                        ('labels_str', np.array(['a', 'b'])[(y == 1).astype(int)]), ('labels_short', y[:-1]), ('labels_long', np.r_[y, 1]),
                        ('labels_one_1.5', frac), ('labels_-1.9_1.25', np.where(y == 1, 1.25, -1.9)),
                        ('labels_numeric_strings', np.array(['-1', '1'])[(y == 1).astype(int)])):
        oc, r, ex = outcome(lambda: fits.make_estimator(name, kw).fit(P, yy))
        ctx.count('estimator_methods', 1)
        if oc != 1:
          ctx.fail_input('outcome_class', 'pairs learner fit with %s: %s' % (lname, 'returned' if oc == 0 else 'raises ' + type(ex).__name__),
                         dict(estimator=name, labels=lname), observed=None if ex is None else str(ex)[:150])
      # calibrate_threshold validates its labels whatever the strategy
      for strat, skw in (('accuracy', {}), ('f_beta', dict(beta=float([0.5, 1., 2.][int(rng.integers(0, 3))]))),
                         ('max_tpr', dict(min_rate=0.5)), ('max_tnr', dict(min_rate=0.5))):
        for lname, yy in (('labels_0_1', np.where(y == 1, 1, 0)), ('labels_1_2', np.where(y == 1, 2, 1)),
                          ('labels_-2_2', 2 * y), ('labels_0_2', np.where(y == 1, 2, 0)),
                          ('labels_nan', np.where(np.arange(len(y)) == 1, np.nan, y.astype(float))),
                          ('labels_str', np.array(['a', 'b'])[(y == 1).astype(int)]),
                          ('labels_one_1.5', frac), ('labels_-1.9_1.25', np.where(y == 1, 1.25, -1.9)),
                          ('labels_short', y[:-1]), ('labels_long', np.r_[y, 1]), ('well_formed', y)):
          oc, r, ex = outcome(lambda: est.calibrate_threshold(P, yy, strategy=strat, **skw))
          ctx.count('estimator_methods', 1)
          ctx.seen((name, 'calibrate_threshold', strat, lname), True)
          if lname == 'well_formed':
            if oc != 0:
              ctx.fail_input('outcome_class', 'calibrate_threshold(strategy=%s) rejects well-formed labels' % strat,
                             dict(estimator=name, strategy=strat), observed=None if ex is None else str(ex)[:150])
          elif oc != 1:
            ctx.fail_input('outcome_class', 'calibrate_threshold(strategy=%s) with %s: %s' % (
                               strat, lname, 'returned' if oc == 0 else 'raises ' + type(ex).__name__),
                           dict(estimator=name, strategy=strat, labels=lname, y=[str(v) for v in yy[:6]]),
                           observed=None if ex is None else str(ex)[:150])
      # score validates its labels too (roc_auc_score alone accepts any two-valued vector)
      for lname, yy in (('labels_0_1', np.where(y == 1, 1, 0)), ('labels_1_2', np.where(y == 1, 2, 1)), ('labels_-2_2', 2 * y),
                        ('labels_float_1.5', np.where(y == 1, 1.5, -1.0)),
                        ('labels_nan', np.where(np.arange(len(y)) == 1, np.nan, y.astype(float))),
                        ('labels_str', np.array(['a', 'b'])[(y == 1).astype(int)]),
                        ('labels_short', y[:-1]), ('labels_long', np.r_[y, 1]), ('well_formed', y), ('well_formed_list', y.tolist())):
        oc, r, ex = outcome(lambda: est.score(P, yy))
        ctx.count('estimator_methods', 1)
        ctx.seen((name, 'score', lname), True)
        if lname.startswith('well_formed'):
          if oc != 0:
            ctx.fail_input('outcome_class', 'score rejects well-formed labels', dict(estimator=name, labels=lname),
                           observed=None if ex is None else str(ex)[:150])
        elif oc != 1:
          ctx.fail_input('outcome_class', 'score with %s: %s' % (lname, 'returned' if oc == 0 else 'raises ' + type(ex).__name__),
                         dict(estimator=name, method='score', labels=lname, y=[str(v) for v in yy[:6]]),
                         observed=None if ex is None else str(ex)[:150])
    if fits.KIND[name] in ('class', 'reg', 'chunks'):
      X, y = fits.fit_args(name, data)
      for lname, yy in (('labels_short', y[:-1]), ('labels_long', np.r_[y, y[:1]])):
        oc, r, ex = outcome(lambda: fits.make_estimator(name, kw).fit(X, yy))
        ctx.count('estimator_methods', 1)
        if oc != 1:
          ctx.fail_input('outcome_class', 'fit with %s: %s' % (lname, 'returned' if oc == 0 else 'raises ' + type(ex).__name__),
                         dict(estimator=name, labels=lname), observed=None if ex is None else str(ex)[:150])
    # n_components outside [1, n_features]
    import inspect, metric_learn
    if 'n_components' in inspect.signature(getattr(metric_learn, name).__init__).parameters:
      for nc in (0, -1, d + 1, 0.5, 0.999, d + 0.5, np.float64(0.25)):
        kw2 = dict(kw)
        kw2['n_components'] = nc
        if isinstance(nc, (int, np.integer)):
          oc, r, ex = outcome(lambda: fits.fit(name, kw2, data))
        else:
          oc, r, ex = outcome_in_child(lambda: fits.fit(name, kw2, data))     # a fractional size may crash compiled code
        ctx.count('estimator_methods', 1)
        if oc == 4:
          ctx.fail_input('outcome_class', 'n_components=%s: %s' % (nc, ex), dict(estimator=name, n_components=float(nc), d=d), observed=ex)
        elif oc != 1:
          ctx.fail_input('outcome_class', 'n_components=%s: %s' % (nc if nc <= 1 else 'd+%s' % (nc - d),
                                                                 'returned' if oc == 0 else 'raises ' + (ex.split(':')[0] if isinstance(ex, str) else type(ex).__name__)),
                         dict(estimator=name, n_components=float(nc) if not isinstance(nc, (int, np.integer)) else int(nc), d=d), observed=None if ex is None else str(ex)[:150])


def knn_ambiguous(X, y, kg, ki):
  """True when the k nearest same-class / other-class neighbours of some point are not determined (distance ties):
  any choice among tied neighbours is a correct k-NN answer, so two runs may legitimately differ"""
  X = np.asarray(X, dtype=float)
  D = ((X[:, None, :] - X[None, :, :]) ** 2).sum(axis=2)
  for i in range(len(X)):
    same = np.flatnonzero((y == y[i]) & (np.arange(len(X)) != i))
    other = np.flatnonzero((y != y[i]) & (y >= 0))
    for idx, k in ((same, kg), (other, ki)):
      ds = np.sort(D[i, idx])
      if k < len(ds) and ds[k - 1] == ds[k]:
        return True
  return False


def equivalence_lane(ctx, thorough):
  """fit on list / integer-typed / Fortran-ordered / strided copies of the same (integer-valued) numbers, formed or
  given as indicators of a preprocessor that holds them"""
  for name, kw, data0 in fits.zoo_specs(np.random.default_rng(ctx.seed + 17), variants=False):
    for shifted in (False, True):
      data = dict(data0)
      data['X'] = np.round(data0['X'] * 4)            # integer-valued features
      if shifted:
        data['X'] = data['X'] - data['X'].min()       # non-negative: also valid as unsigned / narrow types
      data['yreg'] = np.round(data0['yreg'] * 4)
      if len(np.unique(data['X'], axis=0)) != len(data['X']) or data['X'].max() > 120:
        continue
      kw = fits.sdml_fix_balance(name, fits.base_kwargs(name, data), data)
      args = fits.fit_args(name, data)
      if name == 'SCML_Supervised' and knn_ambiguous(data['X'], data['y'], kw['k_genuine'], kw['k_impostor']):
        ctx.count('equivalent_arraylikes', 1, skipped=1)
        ctx.hist('equivalence.skipped', 'SCML_Supervised: tied k-NN distances on the integer grid')
        continue
      try:
        ref = fits.fit(name, kw, data).components_
      except Exception:
        ctx.count('equivalence_fit_failed', 1)
        continue
      A = args[0]
      X = data['X']
      key = {'pairs': 'pairs_idx', 'triplets': 'trip_idx', 'quads': 'quad_idx'}.get(fits.KIND[name])
      idx = data[key] if key else np.arange(len(X))
      big = np.zeros(tuple(2 * s for s in A.shape))
      big[tuple(slice(None, None, 2) for _ in A.shape)] = A
      if not shifted:
        variants = [('list', A.tolist(), None), ('int64', A.astype(np.int64), None), ('int32', A.astype(np.int32), None),
                    ('fortran', np.asfortranarray(A), None), ('strided', big[tuple(slice(None, None, 2) for _ in A.shape)], None),
                    ('indices+float64 preprocessor', idx, X), ('indices+int64 preprocessor', idx, X.astype(np.int64))]
      else:
        variants = [(np.dtype(t).name, A.astype(t), None) for t in (np.uint8, np.int8, np.uint16, np.int16, np.uint64)]
        variants += [('indices+%s preprocessor' % np.dtype(t).name, idx, X.astype(t)) for t in (np.uint8, np.int16)]
        variants += [('indices+uint8 callable preprocessor', idx, (lambda Z: (lambda i: Z[np.asarray(i)]))(X.astype(np.uint8)))]
      for vn, Av, pre in variants:
        ctx.count('equivalent_arraylikes', 1)
        ctx.hist('equivalence.representation', vn)
        kwv = dict(kw)
        if pre is not None:
          kwv['preprocessor'] = pre
        try:
          with warnings.catch_warnings():
            warnings.simplefilter('ignore')
            got = fits.make_estimator(name, kwv).fit(Av, *args[1:]).components_
        except Exception as ex:
          ctx.fail_input('equivalent_arraylikes', 'fit on %s data raises %s' % (vn, type(ex).__name__),
                         dict(estimator=name, representation=vn), observed=str(ex)[:200])
          continue
        same = got.shape == ref.shape and (ref.size == 0 or np.allclose(   # SCML may keep no basis element: (0, d)
            got, ref, rtol=1e-7, atol=1e-9 * (np.abs(ref).max() + 1e-300), equal_nan=True))
        if not same:
          ctx.fail_input('equivalent_arraylikes', 'fit on %s data gives a different model' % vn,
                         dict(estimator=name, representation=vn, X=np.asarray(X).tolist()),
                         observed=np.asarray(got).tolist(), expected=ref.tolist())


def run(ctx):
  thorough = ctx.tier == 'thorough'
  ctx.rule = ("validator lane: descriptor grammar {ndim 0..4 with empty/non-empty axes and tuple sizes 1..5} x 7 element kinds "
              "(float, int, bool, complex, object numbers, object with None, strings) x NaN/+inf/-inf at first/middle/last "
              "position x label forms {none, +-1, other numbers, NaN, strings, 2-D, length n-1 / n+1} x type_of_inputs x "
              "tuple_size x {no preprocessor, array preprocessor on indicators, raising callable}: outcome class and returned "
              "shape of metric_learn._util.check_input vs the Coq model (%s). estimator lane: 17 fitted estimators x "
              "{fit, transform, pair_distance, pair_score, score_pairs, predict, decision_function, score, "
              "calibrate_threshold} x malformations: outcome must be ValueError, well-formed must return. equivalence lane: "
              "fit on list/int64/int32/Fortran/strided copies and, for non-negative values, uint8/int8/uint16/int16/uint64 copies of "
              "integer-valued float64 data, formed or as indicators of a preprocessor holding the float64/int64/uint8/int16 copy." % ("complete enumeration" if thorough else "random 2500-case sample of the full grammar"))
  ctx.trusted = ["text pins tools/translate_pins.py (check_input family)", "Coq 8.16.1 kernel + vm_compute", "hand-written model Model/Validate.v tied to the code by the enumeration",
                 "oracle model of scikit-learn check_array/check_X_y (sk_bad, y_bad), validated on the same grammar",
                 "translator tools/translate_query.py for the per-method validation table"]
  ok = ctx.build_property(gen_needed=['Src_query', 'Src_psd'])
  terms, recs = validator_lane(ctx, thorough)
  if ok:
    res = ctx.run_cases('c06', HEADER, terms, per_file=800)
    for r, rec in zip(res, recs):
      ctx.count('correspondence_validator', 1)
      if r is False:
        ctx.count('correspondence_validator', 0, failures=1)
        if rec['impl_outcome'].startswith('other'):
          continue   # already reported with the concrete input
        ctx.break_tie('correspondence', 'c06_validator', "model and check_input disagree on %s" % rec)
  estimator_lane(ctx, thorough)
  equivalence_lane(ctx, thorough)


def replay(payload):
  print('replay: re-run ./check C06 (inputs are descriptors of the enumerated grammar)')
  return 1
