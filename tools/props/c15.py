"""C15 -- SCML learns a non-negative combination of its basis by the documented scheme."""
import warnings
import numpy as np
import fits
from vcore import fhex, qdy, glist, gvec, gmat, gnlist
from props.c07 import LogRS
from props.c20 import HEADER


def gtrip(T):
  return glist(["(%s, %s, %s)" % (gvec(t[0]), gvec(t[1]), gvec(t[2])) for t in T])


def fit_observed(name, kw, data):
  """fit with a logging random state; capture the basis and the weights handed to the components builder"""
  import metric_learn
  from metric_learn import scml as scml_mod
  cap = {}
  orig = scml_mod._BaseSCML._components_from_basis_weights

  def spy(self, basis, w):
    cap['basis'] = np.array(basis)
    cap['w'] = np.array(w)
    return orig(self, basis, w)
  rs = LogRS(kw.get('random_state', 0))
  kw2 = dict(kw)
  kw2['random_state'] = rs
  est = getattr(metric_learn, name)(**kw2)
  wrn = []
  try:
    scml_mod._BaseSCML._components_from_basis_weights = spy
    with warnings.catch_warnings(record=True) as w:
      warnings.simplefilter('always')
      est.fit(*fits.fit_args(name, data))
      wrn = [str(x.message) for x in w]
  finally:
    scml_mod._BaseSCML._components_from_basis_weights = orig
  batches = None
  for kind, vals in rs.log:
    if kind == 'randint' and len(vals) and isinstance(vals[0], list):
      batches = vals
  return est, cap, batches, wrn


def fit_plain(name, kw, data):
  """fit with the integer seed itself; capture basis and weights"""
  import metric_learn
  from metric_learn import scml as scml_mod
  cap = {}
  orig = scml_mod._BaseSCML._components_from_basis_weights

  def spy(self, basis, w):
    cap['basis'] = np.array(basis)
    cap['w'] = np.array(w)
    return orig(self, basis, w)
  try:
    scml_mod._BaseSCML._components_from_basis_weights = spy
    with warnings.catch_warnings():
      warnings.simplefilter('ignore')
      getattr(metric_learn, name)(**kw).fit(*fits.fit_args(name, data))
  finally:
    scml_mod._BaseSCML._components_from_basis_weights = orig
  return cap


def triplet_points(name, kw, data):
  X = data['X']
  if name == 'SCML':
    return X[data['trip_idx']]
  from metric_learn.constraints import Constraints
  with warnings.catch_warnings():
    warnings.simplefilter('ignore')
    t = Constraints(data['y']).generate_knntriplets(X, kw['k_genuine'], kw['k_impostor'])
  return X[t]


def reference_weights(B, T, batches, gamma, beta, output_iter, batch_size=None):
  """the documented scheme, evaluated independently in NumPy on the recorded mini-batches: adaptive dual averaging with
  negative trimming, checkpoints at iterations output_iter, 2*output_iter, ... <= max_iter, lowest objective wins
  (the first one among equals).  Returns (weights, smallest hinge margin met)"""
  dd = np.square((T[:, 0] - T[:, 1]).dot(B.T)) - np.square((T[:, 0] - T[:, 2]).dot(B.T))
  nt, nb = dd.shape
  w = np.zeros(nb)
  avg = np.zeros(nb)
  ada = np.zeros(nb)
  best, best_w = np.inf, np.zeros(nb)
  margin = np.inf
  for it, idx in enumerate(batches):
    idx = np.asarray(idx, dtype=int)
    sl = 1 + dd[idx].dot(w)
    margin = min(margin, float(np.abs(sl).min()))
    g = dd[idx[sl > 0]].sum(axis=0) / (len(idx) if batch_size is None else batch_size)
    avg = (it * avg + g) / (it + 1)
    ada = np.sqrt(ada ** 2 + g ** 2)
    w = -(it + 1) / (gamma * (0.001 + ada)) * np.minimum(avg + beta, 0)
    if (it + 1) % output_iter == 0:
      sl = 1 + dd.dot(w)
      margin = min(margin, float(np.abs(sl).min()))
      obj = np.sum(w) * beta + np.sum(sl[sl > 0]) / nt
      if obj < best:
        best, best_w = obj, w.copy()
  return best_w, margin


def run(ctx):
  thorough = ctx.tier == 'thorough'
  rng = ctx.rng
  ctx.rule = ("SCML and SCML_Supervised x basis in {triplet_diffs, lda (supervised), array} x n_basis, beta, gamma, batch_size "
              "1..10, max_iter <= 300, output_iter in {1, 7, 50, max_iter} x integer seeds: the Coq model re-runs the whole "
              "loop on binary64 from the basis in use and the recorded mini-batch indices; the weights handed to the "
              "components builder must agree (1e-7 relative), be >= 0, and M must equal sum_i w_i b_i b_i^T on exact "
              "rationals; runs in which a hinge test comes within 1e-6 of zero are counted as skipped_ill_conditioned.  "
              "non-trivial = at least one active basis element.")
  ctx.trusted = ["translator tools/translate_scml.py + tools/pynum.py / Base/NPNum.v (one iteration, checkpoint test and objective; loop header hand-written in Proofs/C15Src.v), text pins (basis generation, components builder)", "Coq 8.16.1 kernel + vm_compute", "hand-written model Model/SCML.v tied by the re-run",
                 "oracles: basis generators (eigh / KMeans / LDA): post-condition n_basis unit-norm rows checked per run",
                 "binary64 rounding: model and implementation may sum in different orders (tolerance 1e-7)"]
  ok = ctx.build_property(gen_needed=['Src_scml'])
  terms, recs, kinds = [], [], []
  n = 72 if thorough else 18
  for i in range(n):
    name = ['SCML', 'SCML_Supervised'][i % 2]
    data = fits.make_data(rng, d=int(rng.integers(2, 5)))
    d = data['d']
    max_iter = int(rng.choice([40, 120, 300]))
    out_iter = int(rng.choice([1, 7, 50, max_iter]))
    out_iter = min(out_iter, max_iter)
    noisy = (name == 'SCML' and i % 6 == 4)
    if noisy:
      # inconsistent triplets (anchor, positive and negative drawn at random among the points) and a short run: checkpoints
      # at which every weight is zero occur and can be the best ones (objective exactly 1)
      data = dict(data)
      npts = len(data['X'])
      tri = np.array([rng.choice(npts, size=3, replace=False) for _ in range(40)])
      data['trip_idx'] = tri
      max_iter, out_iter = 200, 50
      ctx.hist('noisy_triplets', True)
    easy = (name == 'SCML' and i % 6 == 2)
    if easy:
      # triplets that a few steps satisfy with a margin (two tight, well separated groups): checkpoints without any violated
      # triplet occur early; the documented scheme goes on (the averaged sub-gradient keeps shrinking the weights, and with
      # them beta * sum(w)), so the best checkpoint is a later one
      data = dict(data)
      cen = np.zeros((2, d))
      cen[1, 0] = 10.0
      lab = np.repeat([0, 1], 10)
      Xe = fits.grid(cen[lab] + 0.3 * rng.standard_normal((20, d)), 6)
      a = rng.integers(0, 20, size=30)
      ppos = np.array([rng.choice(np.flatnonzero((lab == lab[k]) & (np.arange(20) != k))) for k in a])
      pneg = np.array([rng.choice(np.flatnonzero(lab != lab[k])) for k in a])
      data['X'] = Xe
      data['trip_idx'] = np.column_stack([a, ppos, pneg])
      max_iter, out_iter = 300, 7
      ctx.hist('easy_triplets', True)
    if name == 'SCML' and not noisy and not easy and rng.random() < 0.5:
      # few triplets (still >= n_features): mini-batches are drawn with replacement, so batch_size may exceed their number
      data = dict(data)
      m = int(rng.integers(d, 10))
      data['trip_idx'] = data['trip_idx'][rng.permutation(len(data['trip_idx']))[:m]]
      few = m
    else:
      few = None
    kw = dict(max_iter=max_iter, output_iter=out_iter,
              batch_size=int(rng.integers(1, 14)) if (few is None or rng.random() < 0.3) else few + int(rng.integers(1, 6)),
              beta=float(rng.choice([1e-5, 1e-3])) if not easy else 1e-3,
              gamma=float(rng.choice([5e-3, 5e-2, 0.5, 0.5, 1e10, 1e12])) if not easy else 5e-3,      # the weights scale as 1 / gamma: down to 1e-12 and below
              n_basis=int(rng.integers(d + 1, 5 * d)), random_state=int(rng.integers(0, 1000)))
    bkind = ['triplet_diffs', 'lda', 'array'][int(rng.integers(0, 3))]
    if name == 'SCML' and bkind == 'lda':
      bkind = 'triplet_diffs'
    if bkind == 'array':
      if rng.random() < 0.4:
        kw['n_basis'] = int(rng.integers(1, d + 1))      # fewer basis elements than features: low-rank transformation
        ctx.hist('array_basis_smaller_than_d', True)
      B = rng.standard_normal((kw['n_basis'], d))
      kw['basis'] = B / np.linalg.norm(B, axis=1)[:, None]
      kw['n_basis'] = None
    else:
      kw['basis'] = bkind
    if name == 'SCML_Supervised':
      kw.update(k_genuine=2, k_impostor=3)
    ctx.count('fit_runs', 1)
    ctx.hist('basis', bkind)
    opt = {k: (v if not isinstance(v, np.ndarray) else 'ndarray') for k, v in kw.items()}
    try:
      est, cap, batches, wrn = fit_observed(name, kw, data)
    except Exception as ex:
      ctx.fail_input('fit_runs', '%s(basis=%s) raises %s' % (name, bkind, type(ex).__name__),
                     dict(estimator=name, params=opt), observed=str(ex)[:200])
      continue
    if 'w' not in cap or batches is None:
      ctx.break_tie('correspondence', 'c15_observe', 'could not observe the weights / batches of %s' % name)
      continue
    Bz, wv = cap['basis'], cap['w'].ravel()
    T = triplet_points(name, kw, data)
    L = np.asarray(est.components_)
    M = est.get_mahalanobis_matrix()
    inp = dict(estimator=name, params=opt, X=data['X'].tolist(), y=data['y'].tolist())
    # documented post-conditions, directly on the implementation
    n_active = int(np.sum(wv > 0))
    if np.any(wv < 0):
      ctx.fail_input('weights_nonneg', 'a learned basis weight is negative', inp, observed=wv.tolist())
    if bkind != 'array':
      nb = kw['n_basis']
      if Bz.shape != (nb, d) or np.abs(np.sum(Bz ** 2, axis=1) - 1).max() > 1e-9:
        ctx.fail_input('basis_unit_rows', 'generated basis does not have n_basis unit-norm rows', inp, observed=list(Bz.shape))
    lowrank = n_active < d
    warned = any('reduces the dimension' in m for m in wrn)
    if L.shape != ((n_active if lowrank else d), d) or lowrank != warned:
      ctx.fail_input('lowrank_shape', 'components_ shape / low-rank warning do not follow the number of active bases', inp,
                     observed=dict(shape=list(L.shape), n_active=n_active, warned=warned))
    # the scheme "for the given random_state": with an INTEGER seed the mini-batches are the first draw of a fresh
    # RandomState(seed): randint(0, n_triplets, size=(max_iter, batch_size)); the weights must be those of the documented
    # scheme on exactly these batches (sub-gradient averaged over batch_size)
    seed = int(kw['random_state'])
    bref = np.random.RandomState(seed).randint(low=0, high=len(T), size=(kw['max_iter'], kw['batch_size']))
    try:
      cap2 = fit_plain(name, kw, data)
      wref, margin = reference_weights(cap2['basis'], T, bref, kw['gamma'], kw['beta'], out_iter, batch_size=kw['batch_size'])
      ctx.count('seeded_scheme', 1)
      ctx.hist('n_triplets<batch_size', len(T) < kw['batch_size'])
      if margin > 1e-6 and not np.allclose(wref, cap2['w'].ravel(), rtol=1e-6, atol=1e-9 * (np.abs(wref).max() + 1e-300)):
        ctx.fail_input('documented_scheme', 'with an integer random_state the weights are not those of the documented scheme on the '
                       'mini-batches RandomState(seed).randint(n_triplets, size=(max_iter, batch_size))', dict(inp, n_triplets=len(T)),
                       observed=cap2['w'].ravel().tolist(), expected=wref.tolist())
    except Exception as ex:
      ctx.fail_input('fit_runs', '%s(basis=%s) with an integer seed raises %s' % (name, bkind, type(ex).__name__),
                     dict(estimator=name, params=opt), observed=str(ex)[:200])
    terms.append("(Nat.eqb (c15_run %s %s %d%%nat %d%%nat %s %s %s %s) 0)" % (
        fhex(kw['gamma']), fhex(kw['beta']), kw['batch_size'], out_iter, gmat(Bz), gtrip(T),
        glist([gnlist(b) for b in batches]), gvec(wv)))
    kinds.append('run')
    recs.append(dict(inp=inp, w=wv, kind='run', B=Bz, T=T, batches=batches, gamma=kw['gamma'], beta=kw['beta'], out_iter=out_iter))
    terms.append("(Nat.eqb (c15_run %s %s %d%%nat %d%%nat %s %s %s %s) 2)" % (
        fhex(kw['gamma']), fhex(kw['beta']), kw['batch_size'], out_iter, gmat(Bz), gtrip(T),
        glist([gnlist(b) for b in batches]), gvec(wv)))
    kinds.append('skipflag')
    recs.append(dict(inp=inp, kind='skipflag'))
    terms.append("(c15_metric %d%%nat %s %s %s)" % (d, gvec(wv, qdy), gmat(Bz, qdy), gmat(M, qdy)))
    kinds.append('metric')
    recs.append(dict(inp=inp, w=wv, kind='metric'))
    ctx.seen((name, repr(sorted(opt.items()))), n_active > 0)
    ctx.sample(dict(estimator=name, params=opt, n_active=n_active, best_w=wv[:6].tolist()), limit=4)
  # ---- 'lda' bases with very few elements (fewer than classes - 1: the library only warns): still n_basis unit-norm rows
  from metric_learn import SCML_Supervised as _SS
  rl = np.random.default_rng(ctx.seed + 51)
  Xl = fits.grid(rl.standard_normal((100, 5)) + np.repeat(np.eye(5) * 3, 20, axis=0), 6)
  yl = np.repeat(np.arange(5), 20)
  for nb in ((2, 3, 4, 7) if thorough else (2, 3)):
    ctx.count('lda_small_n_basis', 1)
    got = {}
    orig_fit = _SS._fit
    def spy_fit(self, triplets, basis=None, n_basis=None):
      got['basis'] = None if basis is None else np.array(basis)
      return orig_fit(self, triplets, basis, n_basis)
    try:
      _SS._fit = spy_fit
      with warnings.catch_warnings():
        warnings.simplefilter('ignore')
        _SS(basis='lda', n_basis=nb, k_genuine=2, k_impostor=2, max_iter=20, output_iter=10, random_state=1).fit(Xl, yl)
    except Exception as ex:
      ctx.fail_input('basis_unit_rows', "SCML_Supervised(basis='lda', n_basis=%d) on 5 classes raises %s" % (nb, type(ex).__name__),
                     dict(n_basis=nb, n_classes=5, n_features=5, X='grid(default_rng(VERIF_SEED + 51).standard_normal((100, 5)) + 3 * class axis, 6)'),
                     observed=str(ex)[:200])
      continue
    finally:
      _SS._fit = orig_fit
    Bz = got.get('basis')
    if Bz is None or Bz.shape != (nb, 5) or np.abs(np.sum(Bz ** 2, axis=1) - 1).max() > 1e-9:
      ctx.fail_input('basis_unit_rows', "generated 'lda' basis does not have n_basis = %d unit-norm rows" % nb, dict(n_basis=nb),
                     observed=None if Bz is None else list(Bz.shape))
  # ---- a basis supplied as an array of integer type holds the same numbers as its float copy: same weights, same metric
  from metric_learn import SCML as _SCML
  for i in range(12 if thorough else 4):
    data = fits.make_data(rng, d=int(rng.integers(2, 5)))
    d = data['d']
    T = data['X'][data['trip_idx']]
    E = np.eye(d)
    Bi = np.vstack([E] + [E[a] - E[b] for a in range(d) for b in range(a + 1, d)] + [E[a] + E[b] for a in range(d) for b in range(a + 1, d)])
    kwb = dict(max_iter=120, output_iter=30, batch_size=5, beta=1e-5, gamma=5e-3, random_state=int(rng.integers(0, 100)))
    ctx.count('integer_basis', 1)
    try:
      with warnings.catch_warnings():
        warnings.simplefilter('ignore')
        ref = _SCML(basis=Bi.astype(float), **kwb).fit(T)
        outs = [(dt, _SCML(basis=Bi.astype(dt), **kwb).fit(T)) for dt in ('int64', 'int32', 'float32')]
    except Exception as ex:
      ctx.fail_input('fit_runs', 'SCML with an integer-valued basis array raises %s' % type(ex).__name__, dict(basis=Bi.tolist()), observed=str(ex)[:200])
      continue
    Mr = ref.get_mahalanobis_matrix()
    for dt, e in outs:
      M = e.get_mahalanobis_matrix()
      if M.shape != Mr.shape or np.abs(M - Mr).max() > 1e-5 * (np.abs(Mr).max() + 1e-300) + 1e-12:
        ctx.fail_input('documented_scheme', 'a basis array of type %s learns another metric than the same numbers as float64' % dt,
                       dict(basis=Bi.tolist(), dtype=dt, triplets=T.tolist(), params=kwb), observed=M.tolist(), expected=Mr.tolist())
  # ---- fewer basis elements than features, every one of them useful (rows = normalised anchor-to-impostor differences):
  # when ALL supplied bases stay active the transformation still has that many rows, with the warning
  from metric_learn import SCML
  for i in range(24 if thorough else 8):
    data = fits.make_data(rng, d=int(rng.integers(3, 6)))
    d = data['d']
    T = data['X'][data['trip_idx']]
    nb = int(rng.integers(1, d))
    dirs = (T[:, 0] - T[:, 2])[rng.permutation(len(T))[:nb]]
    B = dirs / np.linalg.norm(dirs, axis=1)[:, None]
    kw = dict(basis=B, n_basis=None, beta=1e-5, gamma=float(rng.choice([5e-3, 5e-2])), max_iter=int(rng.choice([100, 300])),
              output_iter=50, batch_size=int(rng.integers(2, 11)), random_state=int(rng.integers(0, 1000)))
    ctx.count('lowrank_all_active', 1)
    try:
      est, cap, batches, wrn = fit_observed('SCML', kw, data)
    except Exception as ex:
      ctx.fail_input('fit_runs', 'SCML(basis=array with %d < n_features rows) raises %s' % (nb, type(ex).__name__),
                     dict(estimator='SCML', basis=B.tolist()), observed=str(ex)[:200])
      continue
    wv = cap['w'].ravel()
    n_active = int(np.sum(wv > 0))
    ctx.hist('lowrank_all_active.all_active', n_active == nb)
    L = np.asarray(est.components_)
    warned = any('reduces the dimension' in m for m in wrn)
    if L.shape != (n_active, d) or not warned:
      ctx.fail_input('lowrank_shape', 'components_ shape / low-rank warning do not follow the number of active bases',
                     dict(estimator='SCML', basis=B.tolist(), X=data['X'].tolist(), triplets_idx=data['trip_idx'].tolist(),
                          params={k: v for k, v in kw.items() if k != 'basis'}),
                     observed=dict(shape=list(L.shape), n_active=n_active, n_basis=nb, warned=warned))
  # ---- a long run (more iterations than any 16-bit table of draws holds): the mini-batch of EVERY iteration is the fresh seeded
  # draw of the documented scheme; a single checkpoint at the end
  rl = np.random.default_rng(ctx.seed + 313)
  dl = fits.make_data(rl, d=3)
  dl = dict(dl, trip_idx=np.array([rl.choice(len(dl['X']), size=3, replace=False) for _ in range(40)]))   # inconsistent triplets: every batch matters to the end
  Bl = rl.standard_normal((6, 3))
  Bl = Bl / np.linalg.norm(Bl, axis=1)[:, None]
  kwl = dict(basis=Bl, n_basis=None, beta=1e-5, gamma=5e-3, max_iter=66000, output_iter=66000, batch_size=4, random_state=int(rl.integers(0, 1000)))
  ctx.count('long_run', 1)
  try:
    capl = fit_plain('SCML', kwl, dl)
    Tl = triplet_points('SCML', kwl, dl)
    brefl = np.random.RandomState(kwl['random_state']).randint(low=0, high=len(Tl), size=(kwl['max_iter'], kwl['batch_size']))
    wl, marginl = reference_weights(capl['basis'], Tl, brefl, kwl['gamma'], kwl['beta'], kwl['output_iter'], batch_size=kwl['batch_size'])
    if marginl > 1e-9 and not np.allclose(wl, capl['w'].ravel(), rtol=1e-5, atol=1e-8 * (np.abs(wl).max() + 1e-300)):
      ctx.fail_input('documented_scheme', 'a run of 66000 iterations does not end with the weights of the documented scheme on the mini-batches '
                     'RandomState(seed).randint(n_triplets, size=(max_iter, batch_size))', dict(estimator='SCML', params={k: (v if not isinstance(v, np.ndarray) else v.tolist()) for k, v in kwl.items()},
                                                                                             X=dl['X'].tolist(), trip_idx=dl['trip_idx'].tolist()),
                     observed=capl['w'].ravel().tolist(), expected=wl.tolist())
  except Exception as ex:
    ctx.fail_input('fit_runs', 'SCML(max_iter=66000) raises %s' % type(ex).__name__, dict(estimator='SCML'), observed=str(ex)[:200])
  if ok:
    res = ctx.run_cases('c15', HEADER, terms, per_file=6, timeout=1200)
    skipped = set()
    for i, (r, rec) in enumerate(zip(res, recs)):
      if rec['kind'] == 'skipflag' and r is True:
        skipped.add(i - 1)
    for i, (r, rec) in enumerate(zip(res, recs)):
      if rec['kind'] == 'skipflag':
        continue
      if rec['kind'] == 'run':
        if i in skipped:
          ctx.count('correspondence_rerun', 1, skipped=1)
          continue
        ctx.count('correspondence_rerun', 1)
        if r is False:
          ctx.count('correspondence_rerun', 0, failures=1)
          # search for a failing input: the property's own statement, evaluated independently on the same mini-batches
          wref, margin = reference_weights(rec['B'], rec['T'], rec['batches'], rec['gamma'], rec['beta'], rec['out_iter'])
          ctx.count('falsifier', 1)
          if margin > 1e-6 and not np.allclose(wref, rec['w'], rtol=1e-6, atol=1e-9 * (np.abs(wref).max() + 1e-300)):
            ctx.fail_input('documented_scheme', 'the weights are not those of the documented dual-averaging scheme at the best '
                           'checkpoint (output_iter, 2*output_iter, ... <= max_iter)', rec['inp'],
                           observed=rec['w'].tolist(), expected=wref.tolist())
            continue
          ctx.break_tie('correspondence', 'c15_run', "re-running the documented scheme gives other weights than %s %s" % (
              rec['inp']['estimator'], rec['inp']['params']))
      else:
        ctx.count('correspondence_metric', 1)
        if r is False:
          ctx.fail_input('metric_is_weighted_basis_sum', 'M differs from sum_i w_i b_i b_i^T (or a weight is negative)', rec['inp'],
                         observed=rec['w'].tolist())


def replay(payload):
  print('replay: re-run ./check C15 with VERIF_SEED=%s' % payload.get('seed'))
  return 1
