"""C17 -- fitting is deterministic, side-effect free and history independent."""
import copy
import hashlib
import pickle
import warnings
import numpy as np
import fits


def digest(obj):
  """bytes-level fingerprint of every array reachable in obj"""
  if isinstance(obj, np.ndarray):
    return ('nd', obj.dtype.str, obj.shape, hashlib.sha1(np.ascontiguousarray(obj).tobytes()).hexdigest())
  if isinstance(obj, (list, tuple)):
    return tuple(digest(x) for x in obj)
  if isinstance(obj, dict):
    return tuple((k, digest(v)) for k, v in sorted(obj.items()))
  if isinstance(obj, (int, float, str, bool)) or obj is None:
    return obj
  return repr(type(obj))


def state_of(est, name, data):
  X = data['X']
  P = X[data['pairs_idx'][:6]]
  out = dict(components=np.array(est.components_), n_features_in=getattr(est, 'n_features_in_', None))
  with warnings.catch_warnings():
    warnings.simplefilter('ignore')
    out['dist'] = est.pair_distance(P)
  if hasattr(est, 'threshold_'):
    out['threshold'] = est.threshold_
  return out


def same_state(a, b, rounding=False):
  """bit-identical, except with rounding=True (models computed by ARPACK's implicitly restarted Lanczos iteration, whose restart
  vectors come from a generator internal to the library: two runs agree to rounding - 1e-9 relative here - and in sign)"""
  if set(a) != set(b):
    return 'different attributes'
  for k in a:
    if rounding and k in ('components', 'dist'):
      x, y = np.asarray(a[k], dtype=float), np.asarray(b[k], dtype=float)
      if x.shape != y.shape:
        return k + ' differs (shapes %s, %s)' % (x.shape, y.shape)
      if not np.allclose(x, y, rtol=1e-9, atol=1e-9 * (np.abs(y).max() + 1e-300)):
        return k + ' differs (max abs difference %.3g, largest entry %.3g)' % (np.abs(x - y).max(), np.abs(y).max())
      continue
    if k == 'n_features_in':
      if a[k] != b[k]:
        return 'n_features_in_ differs (%r vs %r)' % (a[k], b[k])
    elif not np.array_equal(np.asarray(a[k]), np.asarray(b[k]), equal_nan=True):
      x, y = np.asarray(a[k], dtype=float), np.asarray(b[k], dtype=float)
      return k + ' differs' + (' (max abs difference %.3g, largest entry %.3g)' % (np.abs(x - y).max(), np.abs(y).max()) if x.shape == y.shape else ' (shapes %s, %s)' % (x.shape, y.shape))
  return None


def extra_fit_args(name, data, rng):
  """optional array arguments of fit (bounds, weights) as fresh arrays"""
  if name in ('ITML', 'ITML_Supervised') and rng.random() < 0.6:
    return dict(bounds=np.array([0.0, 3.0]) if rng.random() < 0.5 else np.array([0.5, 4.0]))
  if name == 'LSML' and rng.random() < 0.6:
    m = len(data['quad_idx'])
    w = rng.uniform(0.5, 2.0, size=m)
    return dict(weights=w)
  return {}


def array_params(name, data, rng):
  """array-valued hyper-parameters (init / prior); the key is always set so that a later
  set_params never leaves an array of another dimensionality behind"""
  d = data['d']
  out = {}
  if name in ('LMNN', 'NCA', 'MLKR'):
    out['init'] = fits.grid(rng.standard_normal((d, d)), 4) if rng.random() < 0.5 else 'auto'
  if name in ('ITML', 'ITML_Supervised', 'LSML', 'LSML_Supervised', 'SDML', 'SDML_Supervised'):
    out['prior'] = fits.spd_array(rng, d) if rng.random() < 0.4 else ['identity', 'covariance'][int(rng.integers(0, 2))]
  if name in ('MMC', 'MMC_Supervised'):
    out['init'] = fits.spd_array(rng, d) if rng.random() < 0.4 else ['identity', 'covariance'][int(rng.integers(0, 2))]
  return out


def run_history(ctx, name, rng, nsets, length):
  datasets = [fits.make_data(rng, d=int(rng.integers(2, 6))) for _ in range(nsets)]
  if name == 'RCA':
    # half of the data sets are passed without their unchunked points (every row belongs to a chunk)
    datasets = [dict(dd, all_chunked=bool(k % 2 == 0)) for k, dd in enumerate(datasets)]
  for data in datasets:      # memory layout in which the training array is handed to fit (a fresh array per call)
    data['layout'] = fits.LAYOUTS[int(rng.integers(0, len(fits.LAYOUTS)))]
    ctx.hist('layout', data['layout'])
  kws = []
  for data in datasets:
    kw = fits.base_kwargs(name, data)
    kw.update(array_params(name, data, rng))
    if name == 'LFDA':
      # legal: a k beyond n_features - 1 is clipped for THIS fit (with a warning); the key is always present, so that
      # set_params before each fit also resets it
      kw['k'] = int(data['d'] + rng.integers(0, 4)) if rng.random() < 0.6 else None
    if name in ('LFDA', 'RCA'):
      # the dimension-reducing branches (iterative / generalised eigen-solvers) in about half of the data sets; the key is always
      # present, so that set_params before each fit also resets it
      kw['n_components'] = int(rng.integers(1, data['d'])) if (data['d'] >= 2 and rng.random() < 0.6) else None
      ctx.hist('n_components_below_d', '%s: %s' % (name, kw['n_components'] is not None))
    kws.append(fits.sdml_fix_balance(name, kw, data))
  # hyper-parameters that depend on the data (n_basis, balance_param ...) are set by set_params before each fit
  est = fits.make_estimator(name, kws[0])
  ops = []
  closures = []
  last = None
  for step in range(length):
    k = int(rng.integers(0, nsets))
    data = datasets[k]
    kind = rng.choice(['fit', 'fit', 'query', 'get_metric', 'get_M', 'set_threshold', 'calibrate', 'clone', 'pickle'])
    if step == length - 1 or last is None:
      kind = 'fit'
    try:
      with warnings.catch_warnings():
        warnings.simplefilter('ignore')
        if kind == 'fit':
          est.set_params(**kws[k])
          args = fits.fit_args(name, data)
          extra = extra_fit_args(name, data, rng)
          before = digest((args, extra, {p: v for p, v in est.get_params().items() if isinstance(v, np.ndarray)}))
          plain_before = {p: (id(v), repr(v)) for p, v in est.get_params().items() if not isinstance(v, np.ndarray)}
          argcopy = (copy.deepcopy(args), copy.deepcopy(extra))
          r = est.fit(*args, **extra)
          after = digest((args, extra, {p: v for p, v in est.get_params().items() if isinstance(v, np.ndarray)}))
          plain_after = {p: (id(v), repr(v)) for p, v in est.get_params().items() if not isinstance(v, np.ndarray)}
          ctx.count('hyperparameters_unmodified', 1)
          if plain_before != plain_after:
            changed = sorted(p for p in plain_before if plain_before[p] != plain_after.get(p))
            ctx.fail_input('arguments_unmodified', 'fit changes the hyper-parameter(s) %s' % ', '.join(changed),
                           dict(estimator=name, before={p: plain_before[p][1] for p in changed}, n_features=int(data['d'])),
                           observed={p: plain_after[p][1] for p in changed})
          ctx.count('arguments_unmodified', 1)
          if before != after:
            what = 'fit modifies its arguments or array-valued hyper-parameters'
            for key in extra:
              if digest(extra[key]) != digest(argcopy[1][key]):
                what = 'fit modifies the caller\'s `%s` array' % key
            ctx.fail_input('arguments_unmodified', what,
                           dict(estimator=name, extra={k2: np.asarray(v).tolist() for k2, v in argcopy[1].items()}),
                           observed={k2: np.asarray(v).tolist() for k2, v in extra.items()})
          if r is not est:
            ctx.fail_input('fit_returns_self', name + '.fit does not return self', dict(estimator=name))
          last = (k, extra and {k2: np.array(v) for k2, v in argcopy[1].items()})
          ops.append(('fit', k))
        elif kind == 'query':
          X = data if False else datasets[last[0]]['X']
          s0 = digest(vars(est).get('components_'))
          a = X[:4].copy()
          est.transform(a)
          est.pair_distance(X[datasets[last[0]]['pairs_idx'][:3]])
          ctx.count('queries_preserve_state', 1)
          if digest(vars(est).get('components_')) != s0 or digest(a) != digest(X[:4]):
            ctx.fail_input('queries_preserve_state', 'a query method changes the fitted state or its argument', dict(estimator=name))
          ops.append(('query',))
        elif kind == 'get_metric':
          f = est.get_metric()
          X = datasets[last[0]]['X']
          closures.append((f, X[0].copy(), X[1].copy(), f(X[0], X[1])))
          ops.append(('get_metric',))
        elif kind == 'get_M':
          M = est.get_mahalanobis_matrix()
          M0 = M.copy()
          M[:] = 7.0                     # mutating the returned matrix must not affect the estimator
          ctx.count('returned_matrix_independent', 1)
          if not np.array_equal(est.get_mahalanobis_matrix(), M0, equal_nan=True):
            ctx.fail_input('returned_matrix_independent', 'mutating get_mahalanobis_matrix() changes the estimator', dict(estimator=name))
          ops.append(('get_M',))
        elif kind == 'set_threshold' and name in ('ITML', 'MMC', 'SDML'):
          est.set_threshold(float(rng.uniform(0, 5)))
          ops.append(('set_threshold',))
        elif kind == 'calibrate' and name in ('ITML', 'MMC', 'SDML'):
          dd = datasets[last[0]]
          P, y = fits.fit_args(name, dd)
          est.calibrate_threshold(P, y, strategy='f_beta', beta=1.0)
          ops.append(('calibrate',))
        elif kind == 'clone':
          from sklearn.base import clone
          try:
            clone(est)
          except RuntimeError as ex:
            if 'constructor either does not set or modifies parameter' in str(ex) and ('pickle',) in ops:
              ctx.fail_input('clone_after_pickle', 'clone of an unpickled estimator raises RuntimeError (deprecated-alias sentinel compared by identity)',
                             dict(estimator=name, ops=ops + [('clone',)]), observed=str(ex)[-120:])
            else:
              raise
          ops.append(('clone',))
        elif kind == 'pickle':
          est = pickle.loads(pickle.dumps(est))
          ops.append(('pickle',))
    except Exception as ex:
      ctx.fail_input('history_runs', '%s: %s raises %s' % (name, kind, type(ex).__name__),
                     dict(estimator=name, ops=ops, op=kind), observed=str(ex)[:200])
      return
  # reference: a fresh estimator with the same parameters fitted once on the last data
  k, extra = last
  data = datasets[k]
  with warnings.catch_warnings():
    warnings.simplefilter('ignore')
    ref = fits.make_estimator(name, kws[k]).fit(*fits.fit_args(name, data), **(extra or {}))
    again = fits.make_estimator(name, kws[k]).fit(*fits.fit_args(name, data), **(extra or {}))
  ctx.count('history_independent', 1)
  ctx.seen((name, tuple(ops)), len([o for o in ops if o[0] == 'fit']) > 1)
  ctx.hist('history_length', len(ops))
  arpack = name == 'LFDA' and kws[k].get('n_components') is not None
  r = same_state(state_of(est, name, data), state_of(ref, name, data), rounding=arpack)
  d_true = data['d']
  if r is None and getattr(est, 'n_features_in_', None) != d_true:
    r = 'n_features_in_ is %r but the last fit saw %d features' % (getattr(est, 'n_features_in_', None), d_true)
  if r is not None:
    site = ('n_features_in_ does not follow the last fit' if 'n_features_in' in r else 'final model differs from a fresh fit: ' + r)
    ctx.fail_input('history_independent', site,
                   dict(estimator=name, ops=ops, dims=[dd['d'] for dd in datasets],
                        tuple_size=fits.TUPLE_SIZE.get(name)), observed=r)
  ctx.count('deterministic', 1)
  r2 = same_state(state_of(ref, name, data), state_of(again, name, data), rounding=arpack)
  if r2 is not None:
    ctx.fail_input('deterministic', 'two fresh fits with the same integer random_state differ: ' + r2, dict(estimator=name))
  # closures handed out earlier still compute what they computed then
  for f, u, v, val in closures:
    ctx.count('closure_snapshot', 1)
    with warnings.catch_warnings():
      warnings.simplefilter('ignore')
      try:
        now = f(u, v)
      except Exception as ex:
        now = ex
    if not (isinstance(now, float) or isinstance(now, np.floating)) or now != val:
      ctx.fail_input('closure_snapshot', 'a function returned by get_metric changed after later operations', dict(estimator=name, ops=ops))
  ctx.sample(dict(estimator=name, ops=ops, dims=[dd['d'] for dd in datasets]), limit=5)


def array_param_lane(ctx):
  """array-valued hyper-parameters (prior / init) in every memory layout and dtype a caller may pass: fit leaves the array
  and get_params untouched, and fitting again (same object, and a clone taken AFTER the first fit) gives the same model"""
  from sklearn.base import clone
  rng = np.random.default_rng(ctx.seed + 77)
  targets = [('ITML', 'prior'), ('ITML_Supervised', 'prior'), ('MMC', 'init'), ('MMC_Supervised', 'init'),
             ('LSML', 'prior'), ('LSML_Supervised', 'prior'), ('SDML', 'prior'), ('SDML_Supervised', 'prior'),
             ('LMNN', 'init'), ('NCA', 'init'), ('MLKR', 'init')]
  for name, pname in targets:
    data = fits.make_data(rng, d=int(rng.integers(2, 5)))
    d = data['d']
    B = fits.grid(rng.standard_normal((d, d)), 4)
    A0 = B.T.dot(B) + np.eye(d) if pname == 'prior' or name.startswith('MMC') else fits.grid(rng.standard_normal((d, d)), 4)
    for lay in ('C', 'F', 'strided', 'float32'):
      A = fits.relayout(A0, lay) if lay != 'float32' else A0.astype(np.float32)
      kw = fits.base_kwargs(name, data)
      kw[pname] = A
      try:
        kw = fits.sdml_fix_balance(name, kw, data)
      except Exception:
        continue
      ctx.count('array_parameters', 1)
      ctx.seen((name, pname, lay), True)
      before = digest(A)
      try:
        with warnings.catch_warnings():
          warnings.simplefilter('ignore')
          est = fits.make_estimator(name, kw).fit(*fits.fit_args(name, data))
          first = np.array(est.components_)
          same_obj = est.get_params()[pname] is A
          after = digest(A)
          second = np.array(est.fit(*fits.fit_args(name, data)).components_)
          third = np.array(clone(est).fit(*fits.fit_args(name, data)).components_)
      except Exception as ex:
        ctx.fail_input('array_parameters', '%s(%s=<%s array>): fit / refit / clone raises %s' % (name, pname, lay, type(ex).__name__),
                       dict(estimator=name, parameter=pname, layout=lay), observed=str(ex)[:200])
        continue
      inp = dict(estimator=name, parameter=pname, layout=lay, array=np.asarray(A0).tolist(), X=data['X'].tolist())
      if before != after or not same_obj:
        ctx.fail_input('arguments_unmodified', 'fit modifies the array passed as `%s` (layout %s)' % (pname, lay), inp,
                       observed=np.asarray(A).tolist())
      elif not (np.array_equal(first, second, equal_nan=True) and np.array_equal(first, third, equal_nan=True)):
        ctx.fail_input('history_independent', 'fitting again / fitting a clone taken after the first fit gives another model (%s=<%s array>)' % (pname, lay), inp)


def index_args(name, data):
  """the training call of `name` with indicators (indices into a preprocessor holding data['X'])"""
  k = fits.KIND[name]
  n = len(data['X'])
  if k == 'unsup':
    return (np.arange(n),)
  if k == 'class':
    return (np.arange(n), data['y'])
  if k == 'reg':
    return (np.arange(n), data['yreg'])
  if k == 'chunks':
    return (np.arange(n), data['chunks'])
  if k == 'pairs':
    return (data['pairs_idx'], data['ypairs'])
  return (data['trip_idx' if k == 'triplets' else 'quad_idx'],)


def preprocessor_history_lane(ctx):
  """the preprocessor is a hyper-parameter like any other: after set_params(preprocessor=B) a fit with indicators learns from
  B's points -- the same model as a fresh estimator constructed with B -- whatever was fitted before, through pickle too"""
  from sklearn.base import clone
  for ni, name in enumerate(fits.NAMES):
    rng = np.random.default_rng([ctx.seed, 77, ni])
    data = fits.make_data(rng, d=int(rng.integers(2, 5)))
    A = data['X']
    B = fits.grid(A * 1.5 + rng.standard_normal(A.shape), 6)        # other points under the same indicators
    dataB = dict(data, X=B)
    kw = fits.sdml_fix_balance(name, fits.base_kwargs(name, dataB), dataB)
    kw = fits.sdml_fix_balance(name, kw, data) if name.startswith('SDML') and False else kw
    args = index_args(name, data)
    for hist in ('array->array', 'array->list', 'array->pickle->array', 'callable->array', 'array->reversed view of it', 'reversed view->its base array'):
      ctx.count('preprocessor_history', 1)
      try:
        with warnings.catch_warnings():
          warnings.simplefilter('ignore')
          first = (lambda idx: A[idx]) if hist.startswith('callable') else A
          if hist == 'reversed view->its base array':
            first = B[::-1]                    # a view sharing the memory of the array that replaces it
          est = fits.make_estimator(name, dict(kw, preprocessor=first)).fit(*args)
          if 'pickle' in hist:
            est = pickle.loads(pickle.dumps(est))
          second = B.tolist() if hist.endswith('list') else B
          if hist == 'array->reversed view of it':
            second = A[::-1]                   # other points under the same indicators, in the same memory
          est.set_params(preprocessor=second)
          est.fit(*args)
          fresh = fits.make_estimator(name, dict(kw, preprocessor=second)).fit(*args)
          cl = clone(est).fit(*args)
      except Exception as ex:
        ctx.fail_input('preprocessor_history', '%s: history %s raises %s' % (name, hist, type(ex).__name__),
                       dict(estimator=name, history=hist), observed=str(ex)[:200])
        continue
      if hist == 'array->array' and fits.KIND[name] in ('pairs', 'triplets', 'quads') and hasattr(est, 'predict'):
        # query methods answer from the FITTED state: after set_params(preprocessor=<other array>) without a refit, a call of
        # predict / decision_function / score must not change what pair_distance / transform return for the same indicators
        try:
          with warnings.catch_warnings():
            warnings.simplefilter('ignore')
            e2 = fits.make_estimator(name, dict(kw, preprocessor=A)).fit(*args)
            pidx = np.asarray(args[0])[:4, :2]
            d0, t0 = e2.pair_distance(pidx), e2.transform(np.arange(3))
            e2.set_params(preprocessor=B)
            e2.predict(np.asarray(args[0])[:4])
            e2.decision_function(np.asarray(args[0])[:4])
            d1, t1 = e2.pair_distance(pidx), e2.transform(np.arange(3))
            # a pickle round trip and a deep copy are the identity on the FITTED state, also while the hyper-parameter
            # `preprocessor` already names other points (set_params without a refit)
            import copy
            for how, e3 in (('pickle round trip', pickle.loads(pickle.dumps(e2))), ('copy.deepcopy', copy.deepcopy(e2))):
              d3, t3 = e3.pair_distance(pidx), e3.transform(np.arange(3))
              ctx.count('queries_preserve_state', 1)
              if not (np.array_equal(d0, d3) and np.array_equal(t0, t3)):
                ctx.fail_input('queries_preserve_state', '%s: fit on indicators, set_params(preprocessor=<other array>) without a refit, %s: the copy answers queries on indicators from other points than the original' % (name, how),
                               dict(estimator=name, A=A.tolist(), B=B.tolist(), history='fit(indices; preprocessor=A), set_params(preprocessor=B), ' + how + ', pair_distance(indices)'),
                               observed=np.asarray(d3).tolist(), expected=np.asarray(d0).tolist())
          ctx.count('queries_preserve_state', 1)
          if not (np.array_equal(d0, d1) and np.array_equal(t0, t1)):
            ctx.fail_input('queries_preserve_state', '%s: after set_params(preprocessor=<other array>), predict / decision_function change what pair_distance / transform answer (the fitted preprocessor is replaced by a query)' % name,
                           dict(estimator=name, A=A.tolist(), B=B.tolist()), observed=np.asarray(d1).tolist(), expected=np.asarray(d0).tolist())
        except Exception as ex:
          ctx.fail_input('preprocessor_history', '%s: queries after set_params(preprocessor=...) raise %s' % (name, type(ex).__name__),
                         dict(estimator=name), observed=str(ex)[:200])
      for other, what in ((fresh, 'a fresh estimator constructed with the new preprocessor'), (cl, 'a clone')):
        if not np.array_equal(np.asarray(est.components_), np.asarray(other.components_), equal_nan=True):
          ctx.fail_input('preprocessor_history', '%s: fit, set_params(preprocessor=<other array>), fit with the same indicators learns another model than %s (history %s)' % (name, what, hist),
                         dict(estimator=name, history=hist, A=A.tolist(), B=np.asarray(second).tolist()))
          break


def seed_type_lane(ctx):
  """an integer seed is a seed whatever integer type holds it (an element of np.arange, np.int32 ...): the supervised learners
  are deterministic under it and learn the model of the same Python int, whatever the state of numpy's global generator"""
  rng = np.random.default_rng([ctx.seed, 91])
  for name in ('ITML_Supervised', 'LSML_Supervised', 'MMC_Supervised', 'SDML_Supervised', 'RCA_Supervised', 'SCML_Supervised'):
    data = fits.make_data(rng, d=int(rng.integers(2, 5)))
    kw0 = fits.sdml_fix_balance(name, fits.base_kwargs(name, data), data)
    sd = int(rng.integers(0, 1000))
    args = fits.fit_args(name, data)
    ctx.count('seed_types', 1)
    try:
      with warnings.catch_warnings():
        warnings.simplefilter('ignore')
        ref = np.asarray(fits.make_estimator(name, dict(kw0, random_state=sd)).fit(*args).components_)
        outs = []
        for k, typed in enumerate((np.int64(sd), np.int32(sd), np.arange(sd, sd + 1)[0], np.int64(sd))):
          np.random.seed(1000 + k)          # the global stream is in another state each time
          outs.append((type(typed).__name__, np.asarray(fits.make_estimator(name, dict(kw0, random_state=typed)).fit(*args).components_)))
    except Exception as ex:
      ctx.fail_input('seed_types', '%s with a numpy integer random_state raises %s' % (name, type(ex).__name__), dict(estimator=name, seed=sd),
                     observed=str(ex)[:200])
      continue
    for tn, got in outs:
      if got.shape != ref.shape or not np.array_equal(got, ref, equal_nan=True):
        ctx.fail_input('seed_types', '%s: random_state=%s(%d) does not learn the model of random_state=%d (the fit depends on the global generator: not deterministic)' % (name, tn, sd, sd),
                       dict(estimator=name, seed=sd, seed_type=tn, X=data['X'].tolist(), y=data['y'].tolist()), observed=got.tolist(), expected=ref.tolist())
        break


def run(ctx):
  thorough = ctx.tier == 'thorough'
  ctx.rule = ("random operation sequences (length 3..8) over {fit(data_i), set_params, set_threshold, calibrate_threshold, "
              "transform/pair_distance, get_metric, get_mahalanobis_matrix (+ in-place mutation of the result), clone, "
              "pickle round trip} on each of the 17 estimators with 2-3 datasets of different n and d; after the final fit "
              "the state (components_, threshold_, n_features_in_, probe distances) must be bit-identical to a fresh "
              "estimator fitted once; bytes of every array argument / array hyper-parameter hashed before and after; "
              "earlier closures re-evaluated.  non-trivial = at least two fits in the history.")
  ctx.trusted = ["Coq 8.16.1 kernel", "translator tools/translate_prepare.py, tools/translate_query.py (closure fact)",
                 "determinism of numpy/scipy/scikit-learn kernels for equal inputs (explored, PYTHONHASHSEED fixed)",
                 "argument immutability is an aliasing property: explored by hashing bytes, not modelled"]
  ctx.build_property(gen_needed=['Src_prepare', 'Src_query'])
  array_param_lane(ctx)
  reps = 12 if thorough else 2
  for name in fits.NAMES:
    for r in range(reps):
      rng = np.random.default_rng([ctx.seed, fits.NAMES.index(name), r])
      run_history(ctx, name, rng, nsets=int(rng.integers(2, 4)), length=int(rng.integers(3, 9)))
  preprocessor_history_lane(ctx)
  seed_type_lane(ctx)
  # a wide data set (520 x 90, overlapping classes, 2 components): scikit-learn's PCA then uses its RANDOMIZED solver, so the
  # 'pca' initialisation draws random numbers -- with an integer random_state two fits and a clone still agree
  from sklearn.base import clone as _clone
  import metric_learn as _ml
  from metric_learn._util import _initialize_components
  rngw = np.random.default_rng([ctx.seed, 79])
  Xw = rngw.standard_normal((520, 90))
  yw = rngw.integers(0, 3, size=520)
  for seed in (0, 11):
    ctx.count('wide_data_pca_init', 1)
    with warnings.catch_warnings():
      warnings.simplefilter('ignore')
      A1 = _initialize_components(2, Xw, yw, init='pca', random_state=seed)
      np.random.seed(12345 + seed)            # (the global generator is in another state on the second call)
      A2 = _initialize_components(2, Xw, yw, init='pca', random_state=seed)
    if not np.array_equal(A1, A2):
      ctx.fail_input('history_independent', "init='pca' with an integer random_state is not reproducible on wide data (randomized PCA solver)",
                     dict(shape=[520, 90], n_components=2, random_state=seed, data='np.random.default_rng([VERIF_SEED, 79]).standard_normal((520, 90))'),
                     observed=float(np.abs(A1 - A2).max()))
  for name in ('NCA', 'MLKR') if thorough else ('NCA',):
    ctx.count('wide_data_pca_init', 1)
    with warnings.catch_warnings():
      warnings.simplefilter('ignore')
      tgt = yw if name == 'NCA' else Xw[:, 0] + 0.1 * yw
      e1 = getattr(_ml, name)(init='pca', n_components=2, max_iter=2, random_state=0).fit(Xw, tgt)
      c1 = np.array(e1.components_)
      np.random.seed(777)
      c2 = np.array(e1.fit(Xw, tgt).components_)
      c3 = np.array(_clone(e1).fit(Xw, tgt).components_)
    if not (np.array_equal(c1, c2) and np.array_equal(c1, c3)):
      ctx.fail_input('history_independent', "%s(init='pca', n_components=2, random_state=0) on 520 x 90 data: a second fit / a clone learns another model" % name,
                     dict(estimator=name, shape=[520, 90]), observed=[float(np.abs(c1 - c2).max()), float(np.abs(c1 - c3).max())])
  # what a query hands out is the caller's to modify: writing into the returned matrix / embedding changes nothing
  for ni, name in enumerate(fits.NAMES):
    rng = np.random.default_rng([ctx.seed, 78, ni])
    data = fits.make_data(rng, d=int(rng.integers(2, 5)))
    for variant in ((dict(diagonal=True),) if name in ('MMC', 'MMC_Supervised') else ()) + (dict(),):
      kw = fits.sdml_fix_balance(name, dict(fits.base_kwargs(name, data), **variant), data)
      ctx.count('returned_matrix_independent', 1)
      try:
        with warnings.catch_warnings():
          warnings.simplefilter('ignore')
          est = fits.fit(name, kw, data)
          before = pickle.dumps(est)
          L0 = np.array(est.components_)
          M = est.get_mahalanobis_matrix()
          M0 = M.copy()
          M[...] = 7.0
          T = est.transform(data['X'][:3])
          T[...] = -3.0
          M1 = est.get_mahalanobis_matrix()
          same = np.array_equal(M1, M0, equal_nan=True) and np.array_equal(est.components_, L0, equal_nan=True) and pickle.dumps(est) == before
      except ValueError:
        continue                     # (the diagonal MMC variant may legitimately raise)
      except Exception as ex:
        ctx.fail_input('history_runs', '%s: get_mahalanobis_matrix / transform raises %s' % (name, type(ex).__name__), dict(estimator=name), observed=str(ex)[:200])
        continue
      if not same:
        ctx.fail_input('returned_matrix_independent', '%s: writing into the matrix returned by get_mahalanobis_matrix (or into the embedding returned by transform) changes the estimator' % name,
                       dict(estimator=name, params={k: str(v)[:30] for k, v in kw.items()}), observed=np.asarray(M1).tolist(), expected=M0.tolist())
  # pickle round trip followed by clone, for every estimator (listed finding: deprecated-alias sentinel)
  from sklearn.base import clone
  import metric_learn
  for name in fits.NAMES:
    ctx.count('clone_after_pickle', 1)
    e = pickle.loads(pickle.dumps(getattr(metric_learn, name)()))
    try:
      with warnings.catch_warnings():
        warnings.simplefilter('ignore')
        clone(e)
    except RuntimeError as ex:
      if 'constructor either does not set or modifies parameter' in str(ex):
        ctx.fail_input('clone_after_pickle', 'clone of an unpickled estimator raises RuntimeError (deprecated-alias sentinel compared by identity)',
                       dict(estimator=name, ops=[('pickle',), ('clone',)]), observed=str(ex)[-120:])
      else:
        ctx.fail_input('clone_after_pickle', 'clone after pickle raises: ' + str(ex)[-100:], dict(estimator=name))
  # every fit argument kind: lists for weights / bounds
  from metric_learn import LSML, ITML
  rng = np.random.default_rng(ctx.seed + 1)
  data = fits.make_data(rng, d=3)
  Q = data['X'][data['quad_idx']]
  for kind, w in (('list', [1.0] * len(Q)), ('int array', np.ones(len(Q), dtype=int)), ('float array', np.ones(len(Q)) * 2.5)):
    ctx.count('arguments_unmodified', 1)
    w0 = copy.deepcopy(w)
    try:
      with warnings.catch_warnings():
        warnings.simplefilter('ignore')
        LSML(max_iter=5).fit(Q, weights=w)
    except Exception as ex:
      ctx.fail_input('fit_argument_kinds', 'LSML.fit(weights=<%s>) raises %s' % (kind, type(ex).__name__),
                     dict(estimator='LSML', weights_kind=kind), observed=str(ex)[:200])
      continue
    if digest(np.asarray(w)) != digest(np.asarray(w0)):
      ctx.fail_input('arguments_unmodified', "fit modifies the caller's `weights` array", dict(estimator='LSML', weights_kind=kind),
                     observed=np.asarray(w).tolist()[:5], expected=np.asarray(w0).tolist()[:5])
  P, y = data['X'][data['pairs_idx']], data['ypairs']
  for kind, b in (('list', [0.0, 3.0]), ('array', np.array([0.0, 3.0])), ('tuple', (0.5, 3.0))):
    ctx.count('arguments_unmodified', 1)
    b0 = copy.deepcopy(b)
    try:
      with warnings.catch_warnings():
        warnings.simplefilter('ignore')
        ITML(max_iter=5).fit(P, y, bounds=b)
    except Exception as ex:
      ctx.fail_input('fit_argument_kinds', 'ITML.fit(bounds=<%s>) raises %s' % (kind, type(ex).__name__), dict(bounds_kind=kind),
                     observed=str(ex)[:200])
      continue
    if digest(np.asarray(b)) != digest(np.asarray(b0)):
      ctx.fail_input('arguments_unmodified', "fit modifies the caller's `bounds` array", dict(estimator='ITML', bounds_kind=kind),
                     observed=np.asarray(b).tolist(), expected=np.asarray(b0).tolist())


def replay(payload):
  from metric_learn import Covariance, ITML
  bad = 0
  for f in payload.get('failing_inputs', []):
    if f['sub_check'] == 'history_independent' and 'n_features_in_' in f['site']:
      e = Covariance().fit(np.random.RandomState(0).randn(10, 3)).fit(np.random.RandomState(0).randn(10, 5))
      b = e.n_features_in_ != 5
      print('replay: Covariance fitted on 3-d then 5-d data: n_features_in_ =', e.n_features_in_)
      bad += b
  return 1 if bad else 0
