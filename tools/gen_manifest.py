"""writes MANIFEST.json from the table below (run by hand when a check is added)"""
import json, os

CLAIMED = {
  'C01': dict(section='4 C01', technique='Coq proof (R) of metric axioms for the Gallina translated from base_metric.py; exact-lane vm_compute correspondence (binary64, bit-exact) + exact-rational tolerance lane',
              text='Theorem C01_holds (Properties/C01.v): for every k x d real L and all points, the translated pair_distance / get_metric / pair_score satisfy non-negativity, d(x,x)=0, symmetry, triangle inequality, closure = distance (squared flag = square), score = -distance. The translator regenerates the Gallina from /repo on every run, so the theorem is re-checked against the current source; the idiom table is validated bit-exactly against NumPy on dyadic inputs and against exact rationals on real fits of all 17 estimators. Finiteness is explored on the implementation, not proved.',
              note='trusted: Coq kernel, vm_compute, Reals axioms (sig_not_dec, sig_forall_dec, functional_extensionality_dep), translator + NP.v idiom table, harness; binary64 rounding not modelled in the theorem'),
  'C02': dict(section='4 C02', technique='Coq proof (R) that all views equal the quadratic form of M=L^T L for the translated query API; exact-lane and rational correspondence; representation-equivalence differential',
              text='Theorem C02_holds: squared distance = quadratic form of get_mahalanobis_matrix(), distance = Euclidean distance of transformed points, get_metric plain/squared, transform rows = L x_i with shape (n,k), M is d x d, entrywise symmetric and PSD, score_pairs = pair_distance; all about the Gallina regenerated from base_metric.py. Tie: bit-exact exact lane, rational tolerance lane on real fits, and bit-identical outputs across list/int/Fortran/strided/index representations.',
              note='as C01'),
  'C04': dict(section='4 C04', technique='Coq proof (R) of the decision rules for the Gallina translated from the three classifier mixins; bit-exact exact-lane correspondence with forced ties; ROC-AUC oracle validated against Mann-Whitney in exact rationals',
              text='Theorem C04_holds: translated pairs predict = +1 iff distance <= threshold (else -1), decision = -distance, monotone in threshold and distance, set_threshold stores its argument, score = roc_auc_score(y, decision); triplets predict +1 iff d(a,b) < d(a,c), decision = d(a,c)-d(a,b), swap negates, score = fraction of +1; quadruplets predict sign(d(c,d)-d(a,b)), swap negates. Tie: translator + bit-exact comparison on integer data with ties (threshold on / one ulp around a distance, equal distances, identical points, calibrated thresholds).',
              note='as C01; roc_auc_score is an oracle validated per run against the Mann-Whitney count'),
  'C18': dict(section='4 C18', technique='Coq proof by reflection over the constructor table translated from every __init__ (MRO flattened), parametric in the value type; exhaustive dynamic enumeration',
              text='Theorem C18_holds (axiom-free): for all 17 constructors as translated from the source on this run, every non-deprecated parameter is stored as the identical object (get_params returns it, for any value type), deprecated aliases map onto their documented replacement with a FutureWarning and no other deprecated parameter exists, set_params/get_params round-trip, every query method starts with check_is_fitted. Tie: translator (a dropped or defaulted argument is structurally visible) + exhaustive enumeration of every parameter with sentinel/array/callable values, NotFittedError on every query method, pickle round trip bit-identical.',
              note='trusted: Coq kernel, vm_compute, translator tools/translate_init.py, scikit-learn BaseEstimator introspection semantics (oracle validated by the enumeration); no axioms'),
  'C16': dict(section='4 C16', technique='Coq proof (R, nat counts) of optimality of the calibration model over all real thresholds; exhaustive exact-lane correspondence of the model with calibrate_threshold',
              text='Theorem C16_holds: for every finite validation set and EVERY real threshold, the model threshold is at least as good for accuracy, F-beta (any beta), max_tpr and max_tnr (admissible and maximal), and an admissible cut-off always exists. Tie: the model (Model/Calibrate.v, evaluated on exact rationals) reproduces threshold_ exactly on every labelled multiset up to size 5 (quick) / 6 (thorough) over 4 distance values x 15 strategy/parameter settings (~16k cases), plus random larger sets, through calibrate_threshold and through fit(calibration_params); invalid parameters rejected before fitting.',
              note='trusted: Coq kernel, vm_compute, Reals axioms; the model is hand-written and tied by the exhaustive correspondence; sklearn roc_curve / precision_recall_curve are inside the implementation side'),
  'C07': dict(section='4 C07', technique='Coq proof (axiom-free, lists/integers) for every random stream; correspondence by replaying the recorded RandomState outputs through the model',
              text='Theorem C07_partial: for every label vector and every sequence of random outputs, pairs are sound (distinct points, known labels, same/different class), duplicate-free, at most n_constraints, warning flag iff fewer; chunks have known homogeneous classes, ids < n_chunks, exactly chunk_size members, ValueError iff infeasible; k-NN triplets are exactly all combinations, each once, and in the caller frame carry known labels of the right classes for any neighbour tables with the documented contents. Not mechanised (checked per run): chunk disjointness and that exactly n_chunks are formed. Tie: the implementation runs with a logging RandomState / NearestNeighbors, the Coq model replays the stream and must reproduce the output exactly.',
              note='trusted: Coq kernel, vm_compute, model Model/Constraints.v, numpy RandomState and scikit-learn NearestNeighbors contracts (oracles, certified per run), harness stream decoding; no axioms'),
  'C06': dict(section='4 C06', technique='Coq proof (axiom-free) of totality/soundness/completeness of the check_input model against the documented form; exhaustive enumeration of the descriptor grammar against check_input and the 17 estimators',
              text='Theorem C06_holds: the model of check_input (dimension dispatch, preprocessor, scikit-learn checks as oracle model, tuple size, pair labels) only ever returns, raises ValueError, or wraps a failing preprocessor; what it returns has the documented form; well-formed formed data is accepted unchanged and malformed formed data raises ValueError; n_components is accepted iff in [1, n_features]; every predict-time method validates its argument with the documented tuple size (table translated from the source). Tie: outcome class and returned shape of metric_learn._util.check_input on the whole descriptor grammar (6.6k cases thorough / 2.5k sample quick) equal the model; 17 estimators x 9 methods x malformations give ValueError; list/int/Fortran/strided training data give the same model.',
              note='trusted: Coq kernel, vm_compute, hand-written model Model/Validate.v, oracle model of scikit-learn validators (validated per run), translator for the method table; no axioms'),
  'C05': dict(section='4 C05', technique='Coq proof (axiom-free) that column-wise preprocessing then stacking forms the tuples, and that validation of indicators+preprocessor equals validation of formed data; bit-identical differential on all estimators and methods',
              text='Theorem C05_holds: preprocess_tuples with a pointwise preprocessor equals map (map pre1) for every width; ArrayIndexer is X[idx]; check_input on indicators with a preprocessor equals check_input on the formed array (so every downstream value is equal); formed data never consults the preprocessor; a preprocessor exception surfaces as PreprocessorError; every translated method passes preprocessor=self.preprocessor_. Tie: for all 17 estimators, fit and every query method on indices (int8..int64, list, repeats, arbitrary order) through ndarray / list / callable preprocessors give bit-identical models and outputs to formed data; counting and raising callables.',
              note='trusted: Coq kernel, hand-written models Model/Preproc.v and Model/Validate.v, numpy fancy indexing (oracle); no axioms'),
  'C17': dict(section='4 C17', technique='Coq proof (axiom-free) of history independence for the estimator state machine whose n_features_in_ rule and closure-capture fact are translated from the source; bit-exact history differential on all 17 estimators',
              text='Theorem C17_partial: for an arbitrary learner solve(params, data), after any operation sequence ending in fit(d) the components, threshold and n_features_in_ equal those of a fresh clone fitted once, n_features_in_ is the last-axis size of d; query/get_metric/clone/pickle operations preserve the state; only set_params changes parameters; a get_metric closure is a snapshot. The two rules the proof needs (n_features_in_ recorded on every fit from the last axis; closure captures a copy) are re-extracted from base_metric.py on every run. Partial: determinism of each solver and non-mutation of arguments are explored, not proved: random histories (fit on datasets of different n and d, set_params, set_threshold, calibrate, queries, get_metric, in-place mutation of the returned matrix, clone, pickle) must end bit-identical to a fresh fit; bytes of all array arguments hashed before/after.',
              note='trusted: Coq kernel, translators translate_prepare.py / translate_query.py; determinism of numpy/scipy/scikit-learn kernels and absence of aliasing are explored (PYTHONHASHSEED fixed), not modelled; one KNOWN-FINDING (clone after pickle)'),
  'C08': dict(section='4 C08', technique='Coq proof that the translated supervised fit pipelines equal the documented ones (reflexivity on generated data) + re-exported C07 clauses; bit-identical differential against the base learner on Constraints-derived tuples',
              text='Theorem C08_holds (axiom-free): the statement-by-statement pipeline of every *_Supervised.fit, extracted from the source on this run, is the documented one (prepare inputs, Constraints(y) with random_state=self.random_state and default 20*n_classes^2, tuple formation, delegation to the base _fit with the same hyper-parameters); constraints never involve a point with unknown label, for every random stream. Tie: components_ of each supervised fit is bit-identical to the base learner fitted on the tuples the public Constraints helper derives from y (with and without -1 labels at random/front/back positions, default and explicit parameters, integer seeds).',
              note='trusted: Coq kernel, translator translate_supervised.py (canonical spelling of statements), C07 model'),
  'C20': dict(section='4 C20', technique='Coq proof (R) of the eigenvalue sign test specification, the diagonal/eigen conversion algebra for any eigen-oracle output, PSD-ness of non-negative outer-product sums and the auto-init rule; bit-exact / exhaustive / exact-rational correspondence with _util.py',
              text='Theorem C20_partial: _check_sdp_from_eigen model: ValueError iff tol<0, NonPSDError iff an eigenvalue < -tol, definite iff no eigenvalue within tol of zero; diagonal branch squares to max(0,m_ii); eigen branch gives L^T L = V diag(max(0,w)) V^T for ANY (w,V), = V diag(w) V^T when w>=0; distance depends only on L^T L; non-negative outer-product sums are PSD; auto-init rule by exhaustive case analysis. Tie: sign test compared bit-exactly on binary64 (boundary cases at 0.5/0.99/1/1.01/2 x tol), auto rule exhaustively, components_from_metric exception classes and L^T L = M on exact rationals, initialisers (identity / covariance via Penrose equations vs exact covariance of distinct points / random reproducible and SPD by exact LDL^T / array checks / strict-PD rejection) and transformation inits. Not mechanised: Cholesky branch and pseudo-inverse equations (certified per run).',
              note='trusted: Coq kernel, vm_compute, Reals axioms, model Model/PSDConv.v, eigh/cholesky/pinvh/make_spd_matrix/PCA/LDA as oracles certified per run'),
  'C03': dict(section='4 C03', technique='Coq proof (R) that any real L induces a symmetric PSD M and shape-correct transform for the translated query API, n_components range theorem; exploration of all documented option values with exact-rational PSD certificates',
              text='Theorem C03_partial: for every k x d real L (any rank) the translated get_mahalanobis_matrix is d x d, entrywise symmetric and PSD and transform maps n points to n rows of length k; n_components accepted iff in [1, n_features] (n_features_in_ and fit-returns-self: C17). PARTIAL: that each solver returns a finite real float array of the documented shape is explored, not proved: 17 estimators x documented option values (~150 fits quick, x3 thorough), each fitted model checked in Coq on exact rationals (shape rule, dtype, n_features_in_, transform shape, symmetric, LDL^T-certified PSD).',
              note='trusted: Coq kernel, vm_compute, Reals axioms, translator for the query API; solver outputs explored'),
  'C15': dict(section='4 C15', technique='Coq proof (R) of weight non-negativity for every batch sequence, PSD of the weighted basis sum and the low-rank factorisation; binary64 re-run of the whole dual-averaging loop in Coq against the implementation',
              text='Theorem C15_partial: for every basis, triplet set, mini-batch sequence and iteration count the current and best-checkpoint weights of the model loop are >= 0 (gamma, delta > 0); sum_i w_i b_i b_i^T is PSD; the low-rank transformation sqrt(w_i) b_i over active rows factors M and has as many rows as active weights. Tie: the Coq model re-runs the documented scheme on binary64 from the basis in use and the recorded batch indices and must reproduce (1e-7) the weights handed to the components builder; M = sum w b b^T on exact rationals; shape/warning rule; unit-norm generated bases. Not mechanised: first-minimum checkpoint selection (covered by the re-run).',
              note='trusted: Coq kernel, vm_compute, Reals axioms, model Model/SCML.v, basis generators as oracles; rounding-order differences absorbed by tolerance, ill-conditioned runs skipped and counted'),
}

NOT_YET = {}

def main():
  props = [json.loads(l) for l in open('/verif/properties.jsonl')]
  checks = []
  na = []
  for p in props:
    pid = p['id']
    if pid in CLAIMED:
      c = CLAIMED[pid]
      checks.append(dict(
        property_id=pid,
        quick_cmd="./check %s --tier quick" % pid,
        thorough_cmd="./check %s --tier thorough" % pid,
        evidence_file="/verif/evidence/%s.json" % pid,
        replay_cmd_template="./check %s --replay {path}" % pid,
        engine="coq-proof+correspondence",
        level_claimed=dict(category='proof', text=c['text'], design_ref='DESIGN.md section ' + c['section']),
        level_note=c['note'],
        technique=c['technique']))
    else:
      na.append(dict(property_id=pid, reason=NOT_YET.get(pid, 'check not built yet in this round (Coq model and tie planned: see DESIGN.md section 4); not claimed until it is quiet on the unchanged tree')))
  m = dict(
    version=1,
    setup_cmd="cd /verif && ./check setup",
    hooks=dict(guard="METRIC_LEARN_VERIF", enable="no source hooks: observation is by wrapping module attributes, subclassing RandomState and sys.setprofile from the harness", 
               baseline_off_cmd="cd /repo && /venv/bin/python -m pytest -ra -q -p no:cacheprovider --timeout=900 --continue-on-collection-errors",
               source_commits=[], add_only=True),
    engines=[dict(name="coq-proof+correspondence", path="/verif/coq", serves_properties=[c['property_id'] for c in checks],
                  kind_free_text="Coq 8.16.1 development (Base/Model/Proofs/Properties) + Python ast translator (tools/translate*.py) regenerating coq/gen/Src_*.v from /repo on every run + vm_compute case files comparing model and implementation")],
    checks=checks,
    notes="Known findings: /verif/known_findings.json. Every check: ./check <id> [--tier quick|thorough]; VERIF_SEED honoured.",
    not_applicable=na)
  json.dump(m, open('/verif/MANIFEST.json', 'w'), indent=1)
  print(len(checks), 'checks;', len(na), 'not claimed')

if __name__ == '__main__':
  main()
