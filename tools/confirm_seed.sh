#!/bin/bash
# usage: confirm_seed.sh <out_dir_with_patch_and_demo> <scratch_worktree>
# confirms a candidate seeded change: demo passes on the clean tree, fails with the patch, pinned suite still passes
out=$1; wt=$2
export OMP_NUM_THREADS=2 OPENBLAS_NUM_THREADS=2 PYTHONHASHSEED=0
res=$out/confirm.txt; : > $res
git -C $wt checkout -q -- . ; git -C $wt checkout -q --detach main 2>>$res
echo "tree=$(git -C $wt rev-parse --short HEAD)" >> $res
(cd $out && PYTHONPATH=$wt timeout 300 /venv/bin/python demo.py > demo_clean.log 2>&1); echo "demo_clean_rc=$?" >> $res
if ! git -C $wt apply --check $out/patch.diff 2>>$res; then echo "patch_applies=no" >> $res; exit 1; fi
git -C $wt apply $out/patch.diff
(cd $out && PYTHONPATH=$wt timeout 300 /venv/bin/python demo.py > demo_patched.log 2>&1); echo "demo_patched_rc=$?" >> $res
/venv/bin/python /verif/tools/suite_check.py $wt >> $res 2>&1; echo "suite_rc=$?" >> $res
git -C $wt checkout -q -- .
git -C $wt status --short >> $res
cat $res
