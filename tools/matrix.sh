#!/bin/bash
# usage: tools/matrix.sh [seeds...]  -- every stored seeded change against the check of its own property, on a private
# copy of the repository ($VP_RUN_REPO when started by `vp run --with-repo`, else a scratch worktree), for the given seeds
HERE=$(cd "$(dirname "$0")/.." && pwd)
seeds=${@:-0 1}
if [ -n "$VP_RUN_REPO" ]; then R=$VP_RUN_REPO; else R=/tmp/matrix_repo_$$; git -C /repo worktree add -q --detach $R; fi
export VERIF_REPO=$R
cd $HERE && ./check setup > /dev/null 2>&1 || { echo "setup failed"; exit 2; }
for sd in $seeds; do
  [ -n "$ONLY" ] && break
  echo "## unchanged tree, seed $sd"
  for c in C01 C02 C03 C04 C05 C06 C07 C08 C09 C10 C11 C12 C13 C14 C15 C16 C17 C18 C19 C20; do
    out=$(VERIF_SEED=$sd ./check $c 2>&1 | grep -E "VIOLATION|KNOWN-FINDING|Traceback" | cut -c1-160 | tail -1)
    [ -n "$out" ] && echo "unchanged $c seed=$sd :: $out"
  done
done
for d in $HERE/seeded/*/; do
  n=$(basename $d); prop=$(python3 -c "import json;print(json.load(open('$d/meta.json'))['property'].split()[0])")
  if [ -n "$ONLY" ] && ! echo " $ONLY " | grep -q " $n "; then continue; fi
  if grep -q '"neutralised_by"' $d/meta.json; then echo "$n $prop :: skipped (neutralised by a later repair of /repo: see meta.json)"; continue; fi
  git -C $R checkout -q -- . ; git -C $R apply $d/patch.diff || { echo "$n: patch does not apply"; continue; }
  for sd in $seeds; do
    out=$(VERIF_SEED=$sd ./check $prop 2>&1 | grep -E "VIOLATION|Traceback" | sed 's/replay=.*replays\//replay=/' | cut -c1-120 | tail -1)
    echo "$n $prop seed=$sd :: ${out:-MISSED}"
  done
  git -C $R checkout -q -- .
done
[ -z "$VP_RUN_REPO" ] && git -C /repo worktree remove --force $R
