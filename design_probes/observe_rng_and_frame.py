import numpy as np, sys, warnings
warnings.simplefilter('ignore')
from metric_learn import ITML, ITML_Supervised, SCML_Supervised, RCA_Supervised
from metric_learn.constraints import Constraints
class LogRS(np.random.RandomState):
    def __init__(self, seed):
        super().__init__(seed); self.log=[]
    def randint(self,*a,**k):
        r=super().randint(*a,**k); self.log.append(('randint',a,k,np.asarray(r).tolist())); return r
    def choice(self,*a,**k):
        r=super().choice(*a,**k); self.log.append(('choice',len(a[0]) if hasattr(a[0],'__len__') else a[0],np.asarray(r).tolist())); return r
y=np.array([0,0,1,1,-1,2,2,0])
rs=LogRS(5)
out=Constraints(y).positive_negative_pairs(4, random_state=rs)
print([o.tolist() for o in out]); print(len(rs.log), rs.log[:3])
ref=Constraints(y).positive_negative_pairs(4, random_state=5)
print('same as int seed:', all(np.array_equal(a,b) for a,b in zip(out,ref)))
# setprofile frame locals
X=np.random.RandomState(0).randn(30,2); yy=np.repeat([0,1,2],10)
captured={}
def prof(frame, event, arg):
    if event=='return' and frame.f_code.co_name=='_fit' and 'itml' in frame.f_code.co_filename:
        captured.update({k:frame.f_locals[k] for k in ('_lambda','pos_bhat','neg_bhat','A') if k in frame.f_locals})
sys.setprofile(prof)
m=ITML_Supervised(random_state=LogRS(1), n_constraints=10, max_iter=5).fit(X,yy)
sys.setprofile(None)
print({k:np.asarray(v).shape for k,v in captured.items()}, m.n_iter_)
# KMeans with subclass
try:
    SCML_Supervised(random_state=LogRS(0), n_basis=10, max_iter=50, output_iter=10).fit(X,yy); print('SCML_S with LogRS ok')
except Exception as e: print('SCML_S LogRS', type(e).__name__, e)
RCA_Supervised(n_chunks=4,chunk_size=2,random_state=LogRS(0)).fit(X,yy); print('RCA_S ok')
