import numpy as np, warnings, traceback
warnings.simplefilter('ignore')
from metric_learn import *
from metric_learn.constraints import Constraints, wrap_pairs
rs=np.random.RandomState(0)
# RCA complex
n,d=40,3
X=rs.randn(n,d); y=np.repeat([0,1,2,3],10)
c=Constraints(y)
chunks=c.chunks(n_chunks=8,chunk_size=3,random_state=0)
r=RCA(n_components=2).fit(X,chunks)
print('RCA imag max', np.abs(r.components_.imag).max(), r.components_.dtype)
# knn triplets frame
yy=np.array([-1,0,0,0,1,1,1,-1,0,1])
XX=rs.randn(10,2)
t=Constraints(yy).generate_knntriplets(XX,1,1)
print('triplets idx',t.tolist()); print('labels of idx', yy[t].tolist())
# ITML bounds mutation
pn=c.positive_negative_pairs(30, random_state=1); pairs,yp=wrap_pairs(X,pn)
b=np.array([0.,3.]); ITML(max_iter=2).fit(pairs,yp,bounds=b); print('bounds after',b)
# LSML weights
pn2=c.positive_negative_pairs(30, same_length=True, random_state=1)
quads=X[np.column_stack(pn2)]
w=np.ones(len(quads))*2.0
LSML(max_iter=2).fit(quads,weights=w); print('weights after', w[:3])
try: LSML(max_iter=2).fit(quads,weights=[1.0]*len(quads))
except Exception as e: print('list weights', type(e).__name__, e)
try: LSML(max_iter=2).fit(quads,weights=np.ones(len(quads),dtype=int))
except Exception as e: print('int weights', type(e).__name__, str(e)[:80])
# refit n_features_in_
m=Covariance().fit(X); m.fit(rs.randn(30,5)); print('nfi after refit', m.n_features_in_, m.components_.shape)
# SCML_S gamma
print(SCML_Supervised(gamma=0.7).get_params()['gamma'])
