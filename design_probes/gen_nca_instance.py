import numpy as np, sys
from scipy.special import logsumexp
n,d,k=5,2,2
rs=np.random.RandomState(0)
X=np.round(rs.randn(n,d)*4)/4; y=np.array([0,0,1,1,0])
L=np.round(rs.randn(k,d)*4)/4
def loss_grad(A):
    Xe=X@A.T
    D=((Xe[:,None,:]-Xe[None,:,:])**2).sum(-1); np.fill_diagonal(D,np.inf)
    P=np.exp(-D-logsumexp(-D,axis=1)[:,None]); mask=y[:,None]==y[None,:]
    mp=P*mask; p=mp.sum(1,keepdims=True); loss=p.sum()
    W=mp-P*p; Ws=W+W.T; np.fill_diagonal(Ws,-W.sum(0))
    return loss, 2*(Xe.T@Ws)@X
loss,grad=loss_grad(L)
def q(v):
    from fractions import Fraction
    f=Fraction(float(v)).limit_denominator(10**12); return f"({f.numerator}/{f.denominator})"
def lexpr(i,j,r): # entry of L + t*E on coordinate (a,b)
    return f"l{i}{j}"
# objective as function of t along direction E=e_{a b}
a,b=0,1
def Lsym(i,j): 
    base=q(L[i,j]); return f"({base} + t)" if (i,j)==(a,b) else base
def emb(i,r): return " + ".join(f"{Lsym(r,c)} * {q(X[i,c])}" for c in range(d))
def dist(i,j): return " + ".join(f"(({emb(i,r)}) - ({emb(j,r)}))*(({emb(i,r)}) - ({emb(j,r)}))" for r in range(k))
def e(i,j): return f"exp (- ({dist(i,j)}))"
terms=[]
for i in range(n):
    num=" + ".join(e(i,j) for j in range(n) if j!=i and y[j]==y[i]) or "0"
    den=" + ".join(e(i,j) for j in range(n) if j!=i)
    terms.append(f"(({num}) / ({den}))")
obj=" + ".join(terms)
print(f"""From Coq Require Import Reals.
From Interval Require Import Tactic.
From Coquelicot Require Import Coquelicot.
Open Scope R_scope.
Definition obj (t : R) : R := {obj}.
Goal Rabs (obj 0 - {q(loss)}) <= 1/1000000000.
Proof. unfold obj. interval with (i_prec 80). Qed.
Goal exists dd, is_derive obj 0 dd /\\ Rabs (dd - {q(grad[a,b])}) <= 1/10000000.
Proof. eexists. split.
 - unfold obj. auto_derive. 
   repeat split; try (apply Rgt_not_eq; repeat apply Rplus_lt_0_compat; apply exp_pos).
   reflexivity.
 - interval with (i_prec 80).
Qed.
""")
