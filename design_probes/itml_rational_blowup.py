from fractions import Fraction as F
import sys, time
def run(nsweeps, pos, neg, d=2, gamma=F(1), b=(F(1),F(4))):
    A=[[F(int(i==j)) for j in range(d)] for i in range(d)]
    lam=[F(0)]*(len(pos)+len(neg)); bh_p=[b[0]]*len(pos); bh_n=[b[1]]*len(neg)
    gp=gamma/(gamma+1)
    def quad(v): return sum(v[i]*A[i][j]*v[j] for i in range(d) for j in range(d))
    def upd(v,beta):
        Av=[sum(A[i][j]*v[j] for j in range(d)) for i in range(d)]
        for i in range(d):
            for j in range(d): A[i][j]+=beta*Av[i]*Av[j]
    for s in range(nsweeps):
        for i,v in enumerate(pos):
            p=quad(v); al=min(lam[i], gp*(1/p-1/bh_p[i])); lam[i]-=al
            beta=al/(1-al*p); bh_p[i]=1/((1/bh_p[i])+al/gamma); upd(v,beta)
        for i,v in enumerate(neg):
            p=quad(v); k=i+len(pos); al=min(lam[k], gp*(1/bh_n[i]-1/p)); lam[k]-=al
            beta=-al/(1+al*p); bh_n[i]=1/((1/bh_n[i])-al/gamma); upd(v,beta)
        bits=max(x.numerator.bit_length()+x.denominator.bit_length() for r in A for x in r)
        print('sweep',s+1,'bits',bits, flush=True)
pos=[[F(3),F(1)],[F(2),F(-1)]]; neg=[[F(1),F(1)/2],[F(-1),F(2)]]
t=time.time(); run(4,pos,neg); print(time.time()-t)
