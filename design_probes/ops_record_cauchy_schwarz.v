From Coq Require Import List ZArith PrimFloat Uint63 QArith Reals Lra Lia Psatz.
Import ListNotations.

Record Ops := { T : Type; o0 : T; oadd : T -> T -> T; osub : T -> T -> T; omul : T -> T -> T;
                odiv : T -> T -> T; osqrt : T -> T; oleb : T -> T -> bool }.

Section Generic.
  Context (O : Ops).
  Notation t := (T O).
  Fixpoint vdot (u v : list t) : t :=
    match u, v with
    | a :: u', b :: v' => oadd O (omul O a b) (vdot u' v')
    | _, _ => o0 O
    end.
  Definition vsub (u v : list t) := map (fun p => osub O (fst p) (snd p)) (combine u v).
  Definition mvmul (L : list (list t)) (x : list t) := map (fun r => vdot r x) L.
  Definition dist (L : list (list t)) (x y : list t) :=
    let e := mvmul L (vsub y x) in osqrt O (vdot e e).
End Generic.

Definition FOps : Ops := {| T := float; o0 := 0%float; oadd := PrimFloat.add; osub := PrimFloat.sub;
   omul := PrimFloat.mul; odiv := PrimFloat.div; osqrt := PrimFloat.sqrt; oleb := PrimFloat.leb |}.

Definition Rleb (x y : R) : bool := if Rle_dec x y then true else false.
Definition ROps : Ops := {| T := R; o0 := 0%R; oadd := Rplus; osub := Rminus; omul := Rmult;
   odiv := Rdiv; osqrt := sqrt; oleb := Rleb |}.

Eval vm_compute in dist FOps [[0x1.8p+0; 0x1p-1]; [0x0p+0; 0x1p+1]]%float [1; 2]%float [3; 0x1.4p+2]%float.

Open Scope R_scope.

Lemma vdot_nonneg u : 0 <= vdot ROps u u.
Proof. induction u as [|a u IH]; cbn in *; nra. Qed.
Lemma cs : forall u v : list R, (vdot ROps u v)^2 <= vdot ROps u u * vdot ROps v v.
Proof.
  induction u as [|a u IH]; intros [|b v]; cbn.
  - nra. - nra.
  - pose proof (vdot_nonneg u). cbn in *. nra.
  - specialize (IH v).
    pose proof (vdot_nonneg u) as Hu. pose proof (vdot_nonneg v) as Hv.
    cbn in *.
    set (s := vdot ROps u v) in *. set (p := vdot ROps u u) in *. set (q := vdot ROps v v) in *.
    assert (H2: 2*a*b*s <= a*a*q + b*b*p).
    { assert (0 <= a*a*q+b*b*p) by nra.
      destruct (Rle_dec 0 (a*b*s)).
      - assert (Hk: (a*b)^2 * s^2 <= (a*b)^2 * (p*q)) by (apply Rmult_le_compat_l; [apply pow2_ge_0 | exact IH]).
        pose proof (pow2_ge_0 (a*a*q - b*b*p)).
        assert ((2*a*b*s)^2 <= (a*a*q+b*b*p)^2) by nra. nra.
      - nra. }
    nra.
Qed.
Print Assumptions cs.
