From Coq Require Import Reals.
From Interval Require Import Tactic.
From Coquelicot Require Import Coquelicot.
Open Scope R_scope.
Definition e (l a b : R) := exp (- (l * (a - b)) * (l * (a - b))).
Definition obj (l : R) := 
  e l 0 1 / (e l 0 1 + e l 0 3) + e l 1 0 / (e l 1 0 + e l 1 3).

(* instance check of a derivative: |obj'(3/4) - 0.7232| <= 1e-3 *)
Goal exists d, is_derive obj (3/4) d /\ Rabs (d - 7232/10000) <= 1/1000.
Proof.
  eexists. split.
  - unfold obj, e. auto_derive.
    repeat split; try (apply Rgt_not_eq; apply Rplus_lt_0_compat; apply exp_pos).
    reflexivity.
  - interval with (i_prec 60).
Qed.
