import numpy as np, warnings, itertools
warnings.simplefilter('ignore')
from metric_learn import ITML
from sklearn.metrics import fbeta_score
# Build an estimator with identity components in 1-D so distance = |a-b|
class Fake(ITML):
    pass
m=Fake(); m.preprocessor_=None; m.components_=np.eye(1)
def run(dists, labels, **kw):
    pairs=np.array([[[0.],[d]] for d in dists]); y=np.array(labels)
    m.calibrate_threshold(pairs,y,**kw)
    pred=m.predict(pairs)
    return m.threshold_, pred
def metrics(pred,y,strategy,beta=1.,min_rate=None):
    y=np.array(y)
    tp=((pred==1)&(y==1)).sum(); tn=((pred==-1)&(y==-1)).sum()
    P=(y==1).sum(); N=(y==-1).sum()
    if strategy=='accuracy': return (tp+tn)/len(y)
    if strategy=='f_beta':
        fp=((pred==1)&(y==-1)).sum(); fn=P-tp
        den=(1+beta**2)*tp+beta**2*fn+fp
        return 0. if den==0 else (1+beta**2)*tp/den
    if strategy=='max_tpr': return (tp/P) if tn/N>=min_rate else -1
    if strategy=='max_tnr': return (tn/N) if tp/P>=min_rate else -1
def brute(dists,labels,strategy,**kw):
    best=-1
    ds=sorted(set(dists))
    cands=[ds[0]-1]+ds
    for t in cands:
        pred=np.where(np.array(dists)<=t,1,-1)
        best=max(best,metrics(pred,labels,strategy,**kw))
    return best
rs=np.random.RandomState(1)
bad={}
for trial in range(3000):
    n=rs.randint(2,8)
    dists=list(rs.randint(0,4,size=n).astype(float))
    labels=list(rs.choice([-1,1],size=n))
    if len(set(labels))<2: continue
    for strat,kw in [('accuracy',{}),('f_beta',{'beta':1.0}),('f_beta',{'beta':0.5}),('max_tpr',{'min_rate':0.5}),('max_tnr',{'min_rate':0.5}),('max_tpr',{'min_rate':0.0}),('max_tnr',{'min_rate':1.0})]:
        try:
            thr,pred=run(dists,labels,strategy=strat,**kw)
        except Exception as e:
            bad.setdefault((strat,str(kw),'EXC '+type(e).__name__),(dists,labels,str(e)[:80])); continue
        got=metrics(pred,labels,strat,**{k:v for k,v in kw.items()})
        exp=brute(dists,labels,strat,**kw)
        if got<exp-1e-12:
            key=(strat,str(kw))
            if key not in bad or len(bad[key][0])>len(dists): bad[key]=(dists,labels,thr,got,exp)
for k,v in bad.items(): print(k,v)
