From Coq Require Import List Reals Lra Psatz Lia.
Import ListNotations.
Open Scope R_scope.

(* R-instance written directly for the probe *)
Fixpoint vdot (u v : list R) : R :=
  match u, v with a :: u', b :: v' => a * b + vdot u' v' | _, _ => 0 end.
Fixpoint vadd (u v : list R) : list R :=
  match u, v with a :: u', b :: v' => (a + b) :: vadd u' v' | _, _ => [] end.
Fixpoint vscale (c : R) (u : list R) : list R :=
  match u with a :: u' => c * a :: vscale c u' | [] => [] end.
Definition mvmul (A : list (list R)) (x : list R) := map (fun r => vdot r x) A.
Definition wfv (d : nat) (x : list R) := length x = d.
Definition wfm (k d : nat) (A : list (list R)) := length A = k /\ Forall (wfv d) A.

Lemma vdot_comm u : forall v, vdot u v = vdot v u.
Proof. induction u as [|a u IH]; intros [|b v]; simpl; auto. rewrite IH; ring. Qed.
Lemma vdot_vadd_r u : forall v w, length v = length w -> vdot u (vadd v w) = vdot u v + vdot u w.
Proof. induction u as [|a u IH]; intros [|b v] [|c w] H; simpl in *; try lra; try discriminate.
  rewrite IH by lia. ring. Qed.
Lemma vdot_vscale_r c u : forall v, vdot u (vscale c v) = c * vdot u v.
Proof. induction u as [|a u IH]; intros [|b v]; simpl; try lra. rewrite IH. ring. Qed.
Lemma vadd_length u : forall v, length u = length v -> length (vadd u v) = length u.
Proof. induction u; intros [|b v] H; simpl in *; auto; try discriminate. Qed.
Lemma vscale_length c u : length (vscale c u) = length u.
Proof. induction u; simpl; auto. Qed.
Lemma mvmul_length A x : length (mvmul A x) = length A.
Proof. apply map_length. Qed.

Lemma mvmul_vadd A : forall x y, length x = length y -> mvmul A (vadd x y) = vadd (mvmul A x) (mvmul A y).
Proof. induction A as [|r A IH]; intros; simpl; auto. rewrite vdot_vadd_r by auto.
  f_equal. apply IH; auto. Qed.
Lemma mvmul_vscale A c x : mvmul A (vscale c x) = vscale c (mvmul A x).
Proof. induction A as [|r A IH]; simpl; auto. rewrite vdot_vscale_r, IH. reflexivity. Qed.

(* symmetric operator: (A x) . y = x . (A y) on wf vectors *)
Definition symop d A := forall x y, wfv d x -> wfv d y -> vdot (mvmul A x) y = vdot x (mvmul A y).

(* rank-one updated operators, in action form *)
Definition upA A v beta (y : list R) := vadd (mvmul A y) (vscale (beta * vdot (mvmul A v) y) (mvmul A v)).
Definition upB B v alpha (x : list R) := vadd (mvmul B x) (vscale (- alpha * vdot v x) v).

Lemma vadd_vscale_cancel : forall x w (c : R), length x = length w -> c = 0 -> vadd x (vscale c w) = x.
Proof. induction x as [|a x IH]; intros [|b w] c H Hc; simpl in *; auto; try discriminate.
  f_equal. subst; ring. apply IH; auto. Qed.

Lemma cancel2 : forall x w (c1 c2 : R), length x = length w -> c1 + c2 = 0 ->
  vadd (vadd x (vscale c1 w)) (vscale c2 w) = x.
Proof. induction x as [|a x IH]; intros [|b w] c1 c2 H Hc; simpl in *; auto; try discriminate.
  f_equal. nra. apply IH; auto. Qed.

Theorem sherman_morrison d A B v alpha beta :
  wfm d d A -> wfm d d B -> wfv d v -> symop d A ->
  (forall x, wfv d x -> mvmul A (mvmul B x) = x) ->
  beta * (1 - alpha * vdot v (mvmul A v)) = alpha ->
  forall x, wfv d x -> upA A v beta (upB B v alpha x) = x.
Proof.
  intros [HA _] [HB _] Hv Hs Hinv Hb x Hx. unfold upA, upB, wfv in *.
  assert (LB: length (mvmul B x) = d) by (rewrite mvmul_length; auto).
  rewrite mvmul_vadd by (rewrite vscale_length; lia).
  rewrite mvmul_vscale, Hinv by auto.
  rewrite vdot_vadd_r by (rewrite vscale_length; lia).
  rewrite vdot_vscale_r.
  assert (E1: vdot (mvmul A v) (mvmul B x) = vdot v x).
  { rewrite Hs by (unfold wfv; auto). rewrite Hinv; auto. }
  rewrite E1. rewrite (vdot_comm (mvmul A v) v).
  set (p := vdot v (mvmul A v)) in *. set (s := vdot v x).
  (* x + (-alpha s) Av + beta (s - alpha s p) Av = x *)
  assert (LAv: length (mvmul A v) = d) by (rewrite mvmul_length; auto).
  apply cancel2; try lia. clearbody p s. replace (beta * (s + - alpha * s * p)) with (s * (beta * (1 - alpha * p))) by ring. rewrite Hb. ring.
Qed.

Definition qf A x := vdot x (mvmul A x).
Definition PSDop d A := forall x, wfv d x -> 0 <= qf A x.
Definition PDop d A := forall x, wfv d x -> (exists i, nth i x 0 <> 0) -> 0 < qf A x.

Lemma vdot_vadd_l u : forall v w, length u = length v -> vdot (vadd u v) w = vdot u w + vdot v w.
Proof. intros. rewrite vdot_comm, vdot_vadd_r by auto. rewrite (vdot_comm w u), (vdot_comm w v). ring. Qed.
Lemma vdot_vscale_l c u v : vdot (vscale c u) v = c * vdot u v.
Proof. rewrite vdot_comm, vdot_vscale_r, vdot_comm. ring. Qed.

(* quadratic form along a line *)
Lemma qf_line d A x v t : wfm d d A -> symop d A -> wfv d x -> wfv d v ->
  qf A (vadd x (vscale t v)) = qf A x + 2 * t * vdot x (mvmul A v) + t * t * qf A v.
Proof.
  intros [HA _] Hs Hx Hv. unfold qf, wfv in *.
  rewrite mvmul_vadd by (rewrite vscale_length; lia).
  rewrite mvmul_vscale.
  rewrite vdot_vadd_l by (rewrite vscale_length; lia).
  rewrite !vdot_vadd_r by (rewrite vscale_length, !mvmul_length; lia).
  rewrite !vdot_vscale_l, !vdot_vscale_r.
  assert (E: vdot v (mvmul A x) = vdot x (mvmul A v)).
  { rewrite <- Hs by (unfold wfv; auto). apply vdot_comm. }
  rewrite E. ring.
Qed.

(* generalised Cauchy-Schwarz for a symmetric PSD operator *)
Lemma gcs d A x v : wfm d d A -> symop d A -> PSDop d A -> wfv d x -> wfv d v ->
  (vdot x (mvmul A v))^2 <= qf A x * qf A v.
Proof.
  intros HA Hs Hp Hx Hv.
  pose proof (Hp x Hx) as Px. pose proof (Hp v Hv) as Pv.
  set (b := vdot x (mvmul A v)) in *. set (p := qf A v) in *. set (q := qf A x) in *.
  destruct (Req_dec p 0) as [Hp0|Hp0].
  - (* p = 0: need b = 0 *)
    assert (forall t, 0 <= q + 2*t*b) as Hl.
    { intro t. assert (W: wfv d (vadd x (vscale t v))) by (unfold wfv in *; rewrite vadd_length; rewrite ?vscale_length; lia).
      pose proof (Hp _ W) as H. rewrite (qf_line d) in H by auto. fold b p q in H. rewrite Hp0 in H. lra. }
    destruct (Req_dec b 0) as [->|Hb]. { rewrite Hp0. lra. }
    exfalso. specialize (Hl (- (q + 1) / (2*b))). 
    replace (2 * (- (q + 1) / (2 * b)) * b) with (-(q+1)) in Hl by (field; auto). lra.
  - assert (0 < p) by lra.
    assert (W: wfv d (vadd x (vscale (- b / p) v))) by (unfold wfv in *; rewrite vadd_length; rewrite ?vscale_length; lia).
    pose proof (Hp _ W) as H1. rewrite (qf_line d) in H1 by auto. fold b p q in H1.
    replace (q + 2 * (- b / p) * b + - b / p * (- b / p) * p) with (q - b*b/p) in H1 by (field; lra).
    assert (b*b/p <= q) by lra.
    assert (b*b <= q*p). { apply (Rmult_le_compat_r p) in H0; [|lra]. replace (b*b/p*p) with (b*b) in H0 by (field; lra). lra. }
    nra.
Qed.

(* PD preserved by A' y = A y + beta (Av . y) Av when beta * p > -1 *)
Definition qfup A v beta y := qf A y + beta * (vdot (mvmul A v) y)^2.
Lemma downdate_pos d A v beta y : wfm d d A -> symop d A -> PSDop d A -> wfv d v -> wfv d y ->
  -1 < beta * qf A v -> 0 < qf A y -> 0 < qfup A v beta y.
Proof.
  intros HA Hs Hp Hv Hy Hb Hq. unfold qfup.
  pose proof (gcs d A y v HA Hs Hp Hy Hv) as C.
  assert (E: vdot (mvmul A v) y = vdot y (mvmul A v)) by apply vdot_comm. rewrite E.
  set (b := vdot y (mvmul A v)) in *. set (p := qf A v) in *. set (q := qf A y) in *.
  pose proof (Hp v Hv) as Pv. fold p in Pv.
  destruct (Rle_dec 0 beta). { nra. }
  assert (beta * b^2 >= beta * (q * p)) by nra.
  nra.
Qed.
Print Assumptions downdate_pos.
