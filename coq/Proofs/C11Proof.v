(* C11: the ITML projections keep A symmetric positive definite, keep a two-sided inverse B with
   B = B_0 + sum_i y_i lambda_i v_i v_i^T, keep lambda >= 0 and the slack bounds positive --
   for every prior, every constraint set and every number of sweeps. *)
From Coq Require Import List Arith Bool Reals Lra Psatz Lia.
From ML Require Import Ops Vec NP VecR MatR PSD LinAlg ITML.
Import ListNotations.
Open Scope R_scope.

Notation cstrR := (@cstr ROps).
Notation dualR := (@dual ROps).
Notation stR := (@st ROps).
Notation updateR := (@update ROps).

Lemma omin_Rmin (a b : R) : @omin ROps a b = Rmin a b.
Proof. unfold omin. cbn. destruct (Rleb a b) eqn:E.
  - apply Rleb_true in E. rewrite Rmin_left; auto.
  - apply Rleb_false in E. rewrite Rmin_right; lra. Qed.

Lemma vscale_vscale (a b : R) (v : Rv) : vscaleR a (vscaleR b v) = vscaleR (a * b) v.
Proof. induction v as [|x v IH]; cbn; auto. f_equal; auto. rsimp. ring. Qed.

(* ------------------------------------------------------------------ rank-one step, core *)
Section Core.
  Variables (d : nat) (A B : Rm) (v : Rv).
  Hypotheses (HA : wfmR d d A) (HB : wfmR d d B) (Hv : wfvR d v).
  Hypotheses (Hs : symop d A) (Hp : PDop d A).
  Hypothesis Hinv : forall x, wfvR d x -> mvmulR A (mvmulR B x) = x.

  Definition newA (beta : R) : Rm := maddR A (outerR (mvmulR A v) (vscaleR beta (mvmulR A v))).
  Definition newB (alpha : R) : Rm := maddR B (mscaleR (- alpha) (outerR v v)).

  Lemma Av_wf : wfvR d (mvmulR A v).
  Proof. unfold wfv. rewrite mvmul_length. apply HA. Qed.

  Lemma outerAv_wfm beta : wfmR d d (outerR (mvmulR A v) (vscaleR beta (mvmulR A v))).
  Proof.
    apply outer_wfm_kd; [apply Av_wf|]. pose proof Av_wf as W. unfold wfv in *. rewrite vscale_length. exact W.
  Qed.
  Lemma outervv_wfm : wfmR d d (outerR v v).
  Proof. apply outer_wfm_kd; auto. Qed.

  Lemma newA_wfm beta : wfmR d d (newA beta).
  Proof. unfold newA. apply madd_wfm; auto. apply outerAv_wfm. Qed.
  Lemma newB_wfm alpha : wfmR d d (newB alpha).
  Proof. unfold newB. apply madd_wfm; auto. apply mscale_wfm. apply outervv_wfm. Qed.

  Lemma newA_action beta y : mvmulR (newA beta) y = upA A v beta y.
  Proof.
    unfold newA, upA. rewrite (mvmul_madd_kd d d) by (auto; apply outerAv_wfm).
    rewrite mvmul_outer, vdot_vscale_l. reflexivity.
  Qed.
  Lemma newB_action alpha x : mvmulR (newB alpha) x = upB B v alpha x.
  Proof.
    unfold newB, upB. rewrite (mvmul_madd_kd d d) by (auto; apply mscale_wfm; apply outervv_wfm).
    rewrite mvmul_mscale, mvmul_outer, vscale_vscale. reflexivity.
  Qed.

  Lemma newA_sym beta : symop d (newA beta).
  Proof.
    intros x y Hx Hy. rewrite !newA_action. unfold upA.
    pose proof Av_wf as W. unfold wfv in *.
    rewrite vdot_vadd_l by (rewrite vscale_length, !mvmul_length; destruct HA; rcong).
    rewrite vdot_vadd_r by (rewrite vscale_length, !mvmul_length; destruct HA; rcong).
    rewrite vdot_vscale_l, vdot_vscale_r, (Hs x y) by auto.
    rewrite (vdot_comm x (mvmulR A v)). rsimp. ring.
  Qed.

  Lemma newA_qf beta y : wfvR d y ->
    qf (newA beta) y = qf A y + beta * (vdotR (mvmulR A v) y)^2.
  Proof.
    intro Hy. unfold qf. rewrite newA_action. unfold upA.
    pose proof Av_wf as W. unfold wfv in *.
    rewrite vdot_vadd_r by (rewrite vscale_length, !mvmul_length; destruct HA; rcong).
    rewrite vdot_vscale_r, (vdot_comm y (mvmulR A v)). rsimp. ring.
  Qed.

  (* the step: any (alpha, beta) with beta (1 - alpha p) = alpha and 1 - alpha p > 0 *)
  Lemma rank_one_step alpha beta :
    0 < vsumsqR v ->
    0 < 1 - alpha * vdotR v (mvmulR A v) ->
    beta * (1 - alpha * vdotR v (mvmulR A v)) = alpha ->
    wfmR d d (newA beta) /\ wfmR d d (newB alpha) /\ symop d (newA beta) /\ PDop d (newA beta) /\
    (forall x, wfvR d x -> mvmulR (newA beta) (mvmulR (newB alpha) x) = x).
  Proof.
    intros Hv0 Hden Hb.
    split; [apply newA_wfm|]. split; [apply newB_wfm|]. split; [apply newA_sym|]. split.
    - intros y Hy Hy0. rewrite newA_qf by auto.
      apply (update_pos d A v beta y); auto.
      pose proof (Hp v Hv Hv0) as Pp. unfold qf in *.
      set (p := vdotR v (mvmulR A v)) in *. clearbody p.
      assert (E: beta = alpha / (1 - alpha * p)) by (field_simplify_eq; [lra | lra]).
      rewrite E. 
      assert (alpha / (1 - alpha * p) * p = (alpha * p) / (1 - alpha * p)) by (field; lra).
      rewrite H. apply Rmult_lt_reg_r with (r := 1 - alpha * p); auto.
      replace (alpha * p / (1 - alpha * p) * (1 - alpha * p)) with (alpha * p) by (field; lra). lra.
    - intros x Hx. rewrite newB_action, newA_action.
      apply (sherman_morrison d A B v alpha beta); auto.
  Qed.
End Core.

(* ------------------------------------------------------------------ scalar facts about the step sizes *)
Lemma alpha_pos_ok (lam gp p b : R) : 0 <= lam -> 0 < gp <= 1 -> 0 < p -> 0 < b ->
  let alpha := Rmin lam (gp * (1 / p - 1 / b)) in
  alpha <= lam /\ 0 < 1 - alpha * p.
Proof.
  intros Hl [Hg1 Hg2] Hp Hb alpha. split; [apply Rmin_l|].
  assert (Ha: alpha <= gp * (1 / p - 1 / b)) by apply Rmin_r.
  assert (E: gp * (1 / p - 1 / b) * p = gp * (1 - p / b)) by (field; lra).
  assert (alpha * p <= gp * (1 - p / b)) by (rewrite <- E; apply Rmult_le_compat_r; lra).
  assert (0 < p / b) by (apply Rdiv_lt_0_compat; auto).
  nra.
Qed.

Lemma alpha_neg_ok (lam gp p b : R) : 0 <= lam -> 0 < gp <= 1 -> 0 < p -> 0 < b ->
  let alpha := Rmin lam (gp * (1 / b - 1 / p)) in
  alpha <= lam /\ 0 < 1 - (- alpha) * p.
Proof.
  intros Hl [Hg1 Hg2] Hp Hb alpha. split; [apply Rmin_l|].
  assert (E: gp * (1 / b - 1 / p) * p = gp * (p / b - 1)) by (field; lra).
  assert (0 < p / b) by (apply Rdiv_lt_0_compat; auto).
  unfold alpha. destruct (Rle_dec lam (gp * (1 / b - 1 / p))).
  - rewrite Rmin_left by auto. nra.
  - rewrite Rmin_right by lra. nra.
Qed.

Lemma bhat_pos_ok (lam gm p b : R) : 0 <= lam -> 0 < gm -> 0 < p -> 0 < b ->
  let alpha := Rmin lam (gm / (gm + 1) * (1 / p - 1 / b)) in
  0 < 1 / b + alpha / gm.
Proof.
  intros Hl Hg Hp Hb alpha.
  assert (0 < 1 / b) by (apply Rdiv_lt_0_compat; lra).
  assert (0 < 1 / p) by (apply Rdiv_lt_0_compat; lra).
  unfold alpha. destruct (Rle_dec lam (gm / (gm + 1) * (1 / p - 1 / b))).
  - rewrite Rmin_left by auto. assert (0 <= lam / gm) by (apply Rle_mult_inv_pos; auto). lra.
  - rewrite Rmin_right by lra.
    replace (1 / b + gm / (gm + 1) * (1 / p - 1 / b) / gm)
      with ((gm / (gm + 1)) * (1 / b) + (1 / (gm + 1)) * (1 / p)) by (field; lra).
    assert (0 < gm / (gm + 1)) by (apply Rdiv_lt_0_compat; lra).
    assert (0 < 1 / (gm + 1)) by (apply Rdiv_lt_0_compat; lra).
    nra.
Qed.

Lemma bhat_neg_ok (lam gm p b : R) : 0 <= lam -> 0 < gm -> 0 < p -> 0 < b ->
  let alpha := Rmin lam (gm / (gm + 1) * (1 / b - 1 / p)) in
  0 < 1 / b - alpha / gm.
Proof.
  intros Hl Hg Hp Hb alpha.
  assert (0 < 1 / b) by (apply Rdiv_lt_0_compat; lra).
  assert (0 < 1 / p) by (apply Rdiv_lt_0_compat; lra).
  assert (Ha: alpha <= gm / (gm + 1) * (1 / b - 1 / p)) by apply Rmin_r.
  assert (alpha / gm <= gm / (gm + 1) * (1 / b - 1 / p) / gm).
  { unfold Rdiv at 1 3. apply Rmult_le_compat_r; [apply Rlt_le, Rinv_0_lt_compat; auto | exact Ha]. }
  replace (gm / (gm + 1) * (1 / b - 1 / p) / gm) with ((1 / (gm + 1)) * (1 / b) - (1 / (gm + 1)) * (1 / p)) in H1 by (field; lra).
  assert (0 < 1 / (gm + 1) < 1).
  { split; [apply Rdiv_lt_0_compat; lra|]. apply Rmult_lt_reg_r with (r := gm + 1); [lra|].
    replace (1 / (gm + 1) * (gm + 1)) with 1 by (field; lra). lra. }
  nra.
Qed.

(* ------------------------------------------------------------------ one projection of the model *)
Record inv_ok (d : nat) (A B : Rm) : Prop := {
  iA : wfmR d d A; iB : wfmR d d B; iS : symop d A; iP : PDop d A;
  iI : forall x, wfvR d x -> mvmulR A (mvmulR B x) = x }.
Definition dual_ok (du : dualR) : Prop := 0 <= lam du /\ 0 < bhat du.
Definition gamma_ok (g : option R) : Prop := match g with None => True | Some gm => 0 < gm end.
Definition sg (c : cstrR) : R := if cpos c then 1 else -1.

Lemma gamma_proj_range g : gamma_ok g -> 0 < @gamma_proj ROps g <= 1.
Proof. destruct g as [gm|]; cbn; intro H; [|lra].
  split; [apply Rdiv_lt_0_compat; lra|].
  apply Rmult_le_reg_r with (r := gm + 1); [lra|].
  replace (gm / (gm + 1) * (gm + 1)) with gm by (field; lra). lra. Qed.

Theorem update_step d (A B : Rm) (g : option R) (c : cstrR) (du : dualR) :
  inv_ok d A B -> wfvR d (cv c) -> 0 < vsumsqR (cv c) -> dual_ok du -> gamma_ok g ->
  exists B',
    inv_ok d (fst (updateR g c A du)) B' /\ dual_ok (snd (updateR g c A du)) /\
    forall x, wfvR d x ->
      mvmulR B' x = vaddR (mvmulR B x)
        (vscaleR ((sg c * lam (snd (updateR g c A du)) - sg c * lam du) * vdotR (cv c) x) (cv c)).
Proof.
  intros [HA HB Hs Hp Hi] Hv Hv0 [Hl Hb] Hg.
  pose proof (Hp (cv c) Hv Hv0) as Pp. unfold qf in Pp.
  pose proof (gamma_proj_range g Hg) as Hgp.
  unfold update, sg. destruct (cpos c) eqn:Ec; cbn [fst snd lam bhat].
  - (* similar pair *)
    set (p := vdotR (cv c) (mvmulR A (cv c))) in *.
    set (gp := @gamma_proj ROps g) in *.
    set (alpha := @omin ROps (lam du) (@omul ROps gp (@osub ROps (@inv ROps p) (@inv ROps (bhat du))))).
    assert (Ea: alpha = Rmin (lam du) (gp * (1 / p - 1 / bhat du))) by (unfold alpha; rewrite omin_Rmin; reflexivity).
    destruct (alpha_pos_ok (lam du) gp p (bhat du) Hl Hgp Pp Hb) as [A1 A2]. rewrite <- Ea in A1, A2.
    set (beta := @odiv ROps alpha (@osub ROps (o1 ROps) (@omul ROps alpha p))).
    assert (Eb: beta * (1 - alpha * p) = alpha) by (unfold beta; cbn; field; lra).
    destruct (rank_one_step d A B (cv c) HA HB Hv Hs Hp Hi alpha beta Hv0 A2 Eb) as [R1 [R2 [R3 [R4 R5]]]].
    exists (newB B (cv c) alpha). split; [constructor; auto|]. split.
    + split; cbn [lam bhat osub ROps]; [lra|].
      unfold inv. cbn [odiv oadd o1 ROps].
      apply Rdiv_lt_0_compat; [lra|].
      destruct g as [gm|]; cbn [over_gamma odiv o0 ROps].
      * rewrite Ea. unfold gp. cbn [gamma_proj odiv oadd o1 ROps]. apply bhat_pos_ok; auto.
      * assert (0 < 1 / bhat du) by (apply Rdiv_lt_0_compat; lra). lra.
    + intros x Hx. rewrite (newB_action d B (cv c) HB Hv). unfold upB. cbn [lam osub ROps]. f_equal. f_equal. rsimp. ring.
  - (* dissimilar pair *)
    set (p := vdotR (cv c) (mvmulR A (cv c))) in *.
    set (gp := @gamma_proj ROps g) in *.
    set (alpha := @omin ROps (lam du) (@omul ROps gp (@osub ROps (@inv ROps (bhat du)) (@inv ROps p)))).
    assert (Ea: alpha = Rmin (lam du) (gp * (1 / bhat du - 1 / p))) by (unfold alpha; rewrite omin_Rmin; reflexivity).
    destruct (alpha_neg_ok (lam du) gp p (bhat du) Hl Hgp Pp Hb) as [A1 A2]. rewrite <- Ea in A1, A2.
    set (beta := @odiv ROps (@oopp ROps alpha) (@oadd ROps (o1 ROps) (@omul ROps alpha p))).
    assert (Eb: beta * (1 - (- alpha) * p) = - alpha) by (unfold beta; cbn; field; lra).
    destruct (rank_one_step d A B (cv c) HA HB Hv Hs Hp Hi (- alpha) beta Hv0 A2 Eb) as [R1 [R2 [R3 [R4 R5]]]].
    exists (newB B (cv c) (- alpha)). split; [constructor; auto|]. split.
    + split; cbn [lam bhat osub ROps]; [lra|].
      unfold inv. cbn [odiv osub o1 ROps].
      apply Rdiv_lt_0_compat; [lra|].
      destruct g as [gm|]; cbn [over_gamma odiv o0 ROps].
      * rewrite Ea. unfold gp. cbn [gamma_proj odiv oadd o1 ROps]. apply bhat_neg_ok; auto.
      * assert (0 < 1 / bhat du) by (apply Rdiv_lt_0_compat; lra). lra.
    + intros x Hx. rewrite (newB_action d B (cv c) HB Hv). unfold upB. cbn [lam osub ROps]. f_equal. f_equal. rsimp. ring.
Qed.

(* ------------------------------------------------------------------ sweeps *)
Notation sweep_auxR := (@sweep_aux ROps).
Notation sweepR := (@sweep ROps).
Notation runR := (@run ROps).

(* sum_i y_i lambda_i (v_i . x) (v_i . y): the bilinear form of sum_i y_i lambda_i v_i v_i^T *)
Fixpoint Sb (cs : list cstrR) (ds : list dualR) (x y : Rv) : R :=
  match cs, ds with
  | c :: cs', du :: ds' => sg c * lam du * vdotR (cv c) x * vdotR (cv c) y + Sb cs' ds' x y
  | _, _ => 0
  end.

Definition cstr_ok (d : nat) (c : cstrR) : Prop := wfvR d (cv c) /\ 0 < vsumsqR (cv c).

Lemma sweep_aux_inv d (g : option R) : gamma_ok g -> forall cs (A B : Rm) ds (Fb : Rv -> Rv -> R),
  Forall (cstr_ok d) cs -> inv_ok d A B -> Forall dual_ok ds -> length ds = length cs ->
  (forall x y, wfvR d x -> wfvR d y -> vdotR y (mvmulR B x) = Fb x y + Sb cs ds x y) ->
  exists B',
    inv_ok d (fst (sweep_auxR g cs A ds)) B' /\
    Forall dual_ok (snd (sweep_auxR g cs A ds)) /\
    length (snd (sweep_auxR g cs A ds)) = length cs /\
    (forall x y, wfvR d x -> wfvR d y ->
       vdotR y (mvmulR B' x) = Fb x y + Sb cs (snd (sweep_auxR g cs A ds)) x y).
Proof.
  intros Hg. induction cs as [|c cs IH]; intros A B ds Fb Hcs Hinv Hds Hlen HB.
  - destruct ds; [|discriminate]. cbn [sweep_aux fst snd]. exists B.
    split; [exact Hinv|]. split; [constructor|]. split; [reflexivity|]. exact HB.
  - destruct ds as [|du ds]; [discriminate|]. inversion Hcs as [|? ? [Hc1 Hc2] Hcs']; subst.
    inversion Hds as [|? ? Hdu Hds']; subst.
    destruct (update_step d A B g c du Hinv Hc1 Hc2 Hdu Hg) as [B1 [I1 [D1 E1]]].
    cbn [sweep_aux]. destruct (updateR g c A du) as [A1 du1] eqn:EU. cbn [fst snd] in *.
    set (Fb1 := fun x y => Fb x y + sg c * lam du1 * vdotR (cv c) x * vdotR (cv c) y).
    assert (HB1: forall x y, wfvR d x -> wfvR d y -> vdotR y (mvmulR B1 x) = Fb1 x y + Sb cs ds x y).
    { intros x y Hx Hy. rewrite E1 by auto.
      rewrite vdot_vadd_r.
      - rewrite vdot_vscale_r, HB by auto. unfold Fb1. cbn [Sb]. rewrite (vdot_comm y (cv c)). rsimp. ring.
      - rewrite mvmul_length, vscale_length. destruct Hinv as [_ [HB1' _] _ _ _]. unfold wfv in *. rcong. }
    destruct (IH A1 B1 ds Fb1 Hcs' I1 Hds' ltac:(cbn in Hlen; lia) HB1) as [B2 [I2 [D2 [L2 E2]]]].
    destruct (sweep_auxR g cs A1 ds) as [A2 ds2] eqn:ES. cbn [fst snd] in *.
    exists B2. split; auto. split; [constructor; auto|]. split; [cbn; lia|].
    intros x y Hx Hy. rewrite E2 by auto. unfold Fb1. cbn [Sb]. rsimp. ring.
Qed.

Definition st_ok (d : nat) (cs : list cstrR) (B0b : Rv -> Rv -> R) (s : stR) : Prop :=
  exists B, inv_ok d (A s) B /\ Forall dual_ok (duals s) /\ length (duals s) = length cs /\
    (forall x y, wfvR d x -> wfvR d y -> vdotR y (mvmulR B x) = B0b x y + Sb cs (duals s) x y).

Lemma sweep_ok d g cs B0b s : gamma_ok g -> Forall (cstr_ok d) cs ->
  st_ok d cs B0b s -> st_ok d cs B0b (sweepR g cs s).
Proof.
  intros Hg Hcs [B [I [D [L E]]]].
  destruct (sweep_aux_inv d g Hg cs (A s) B (duals s) B0b Hcs I D L E) as [B' [I' [D' [L' E']]]].
  unfold sweep. destruct (sweep_auxR g cs (A s) (duals s)) as [A1 ds1]. cbn [fst snd A duals] in *.
  exists B'. auto.
Qed.

(* every iteration budget *)
Theorem itml_invariant d g cs B0b : gamma_ok g -> Forall (cstr_ok d) cs ->
  forall n s, st_ok d cs B0b s -> st_ok d cs B0b (runR g cs n s).
Proof.
  intros Hg Hcs. induction n as [|n IH]; intros s Hs; cbn [run]; auto.
  apply IH. apply sweep_ok; auto.
Qed.

(* the initial state: prior A0 with a two-sided inverse B0, all duals zero, positive bounds *)
Lemma Sb_zero cs : forall (ds : list dualR) x y, Forall (fun du : dualR => lam du = 0) ds -> Sb cs ds x y = 0.
Proof. induction cs as [|c cs IH]; intros [|du ds] x y H; cbn; auto. inversion H; subst.
  rewrite H2, IH by auto. rsimp. ring. Qed.

Theorem itml_init_ok d (A0 B0 : Rm) cs lo hi : inv_ok d A0 B0 -> 0 < lo -> 0 < hi ->
  st_ok d cs (fun x y => vdotR y (mvmulR B0 x)) (@init ROps A0 cs lo hi).
Proof.
  intros I Hlo Hhi. exists B0. unfold init. cbn [A duals]. split; auto. split; [|split].
  - apply Forall_forall. intros du Hd. apply in_map_iff in Hd as [c [<- _]]. split; cbn; [lra|].
    destruct (cpos c); auto.
  - apply map_length.
  - intros x y Hx Hy. rewrite Sb_zero.
    + rsimp. lra.
    + apply Forall_forall. intros du Hd. apply in_map_iff in Hd as [c [<- _]]. reflexivity.
Qed.
