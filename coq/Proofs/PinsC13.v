(* Text-level tie of C13: the hand-written model / harness of this property was written from exactly these versions of the
   functions below (normalised source, digests regenerated from /repo on every run in gen/Src_pins.v; the text itself is in
   /verif/pins/).  A function that changes breaks this lemma; the check then looks for a failing input and reports the
   obligation with a diff.  Rewritten by `tools/translate_pins.py --update` after a repair of /repo. *)
From Coq Require Import String List.
From MLgen Require Import Src_pins.
Import ListNotations.
Open Scope string_scope.

Lemma pins_C13_ok :
  [ pin_sdml__BaseSDML__fit
  ; pin_util__pseudo_inverse_from_eig ] =
  [ "38c073aa31e4b34153521c2849d05ea2aa3faf0c5f7e9951f0b7e23381ac582c"   (* sdml.py: _BaseSDML._fit *)
  ; "ea7080406b5c9ab0b562ba0d881e96ee8eaa9da9ddee2b4a08ac688e2a3a910a"   (* _util.py: _pseudo_inverse_from_eig *) ].
Proof. reflexivity. Qed.
