(* Facts connecting the idiom table (Base/NP.v) and the generated query API
   (gen/Src_query.v) to the hand-written model (Model/Mahalanobis.v). *)
From Coq Require Import List ZArith Bool Reals Lra Lia.
From ML Require Import Ops Vec NP VecR MatR Mahalanobis MahalanobisR.
From MLgen Require Import Src_query.
Import ListNotations.
(* This file mentions only transform / pair_distance / pair_score / score_pairs / get_mahalanobis_matrix of the
   generated API: a change to get_metric or to a classifier mixin that the translator does not accept leaves it (and
   what depends on it alone) compiling. *)

(* generic (any carrier) *)
Lemma vsum_sq_vdot {O : Ops} (r : list (T O)) :
  vsum (map (fun a => omul O a a) r) = vdot r r.
Proof. induction r as [|a r IH]; cbn; auto. rewrite IH. reflexivity. Qed.

Lemma sum_sq_rows {O : Ops} (A : list (list (T O))) :
  np_sum_last_m (np_sq_m A) = map vsumsq A.
Proof. unfold np_sum_last_m, np_sq_m. rewrite map_map. apply map_ext.
  intro r. apply vsum_sq_vdot. Qed.

Lemma map2_map_map {A B C D} (f : B -> C -> D) (g h : A -> _) (l : list A) :
  map2 f (map g l) (map h l) = map (fun x => f (g x) (h x)) l.
Proof. induction l; cbn; auto. f_equal; auto. Qed.

(* the generated pair_distance is the model's distance on the two points of each tuple *)
Lemma src_pair_distance_eq {O : Ops} (L : list (list (T O))) P :
  Src_query.pair_distance L P = map (fun tp => dist L (nth 0 tp []) (nth 1 tp [])) P.
Proof.
  unfold Src_query.pair_distance, Src_query.transform, np_dotT_mm, np_sqrt_v, np_sub_mm, tup_col.
  rewrite sum_sq_rows, map2_map_map, !map_map. apply map_ext. intro tp. reflexivity.
Qed.

Lemma src_transform_eq {O : Ops} (L : list (list (T O))) X :
  Src_query.transform L X = Mahalanobis.transform L X.
Proof. reflexivity. Qed.

Lemma src_mahalanobis_eq {O : Ops} d (L : list (list (T O))) :
  Src_query.get_mahalanobis_matrix d L = Mahalanobis.mahalanobis d L.
Proof. reflexivity. Qed.

Lemma src_score_pairs_eq {O : Ops} (L : list (list (T O))) P :
  Src_query.score_pairs L P = Src_query.pair_distance L P.
Proof. reflexivity. Qed.

(* over R: -1 * x = - x *)
Open Scope R_scope.
Lemma src_pair_score_neg (L : Rm) P :
  @Src_query.pair_score ROps L P = map Ropp (@Src_query.pair_distance ROps L P).
Proof.
  unfold Src_query.pair_score, np_zmul_v. apply map_ext. intro a. cbn. lra.
Qed.

Lemma nth_map_dflt {A B} (f : A -> B) l i da db : (i < length l)%nat ->
  nth i (map f l) db = f (nth i l da).
Proof. intro H. rewrite (nth_indep _ db (f da)) by (rewrite map_length; auto). apply map_nth. Qed.

(* distance of one pair, read off the generated (translated) pair_distance *)
Definition d_src (L : Rm) (x y : Rv) : R := nth 0 (@Src_query.pair_distance ROps L [[x; y]]) 0.

Arguments d_src : simpl never.

Lemma d_src_dist L x y : d_src L x y = distR L x y.
Proof. unfold d_src. rewrite src_pair_distance_eq. reflexivity. Qed.

Lemma C01_batch (L : Rm) P :
  @Src_query.pair_distance ROps L P = map (fun tp => d_src L (nth 0 tp []) (nth 1 tp [])) P.
Proof. rewrite src_pair_distance_eq. apply map_ext. intro tp. rewrite d_src_dist. reflexivity. Qed.
