(* C19: the models only see the geometry of the data.
   Translation: every tuple learner's model takes the within-tuple differences as its input, and
   those are translation invariant; the documented NCA / MLKR / LMNN objectives only use
   |L(x_i - x_j)|^2.  Swap: replacing a difference v by -v changes nothing in ITML's projection,
   SDML's loss matrix, MMC's budget and LSML's hinge terms. *)
From Coq Require Import List Arith Bool ZArith Reals Lra Psatz Lia.
From ML Require Import Ops Vec NP VecR MatR LinAlg ITML SDML MMC LSML Objectives C11Proof C13Proof.
Import ListNotations.
Open Scope R_scope.

(* within-tuple differences are translation invariant *)
Theorem diff_translation (t x y : Rv) : length t = length x -> length x = length y ->
  vsubR (vaddR y t) (vaddR x t) = vsubR y x.
Proof. apply vsub_vadd_shift. Qed.

(* ... hence so is every squared learned distance, for every L *)
Theorem sqd_translation (L : Rm) (t x y : Rv) : length t = length x -> length x = length y ->
  @sqd ROps L (vaddR x t) (vaddR y t) = @sqd ROps L x y.
Proof. intros H1 H2. unfold sqd. rewrite vsub_vadd_shift by (auto; congruence). reflexivity. Qed.

(* v -> -v *)
Lemma mvmul_vneg_R (A : Rm) v : mvmulR A (vnegR v) = vnegR (mvmulR A v).
Proof. apply mvmul_vneg. Qed.
Lemma vdot_vneg_both (u v : Rv) : vdotR (vnegR u) (vnegR v) = vdotR u v.
Proof. rewrite vdot_vneg_l, vdot_vneg_r. rsimp. ring. Qed.
Lemma quadform_vneg (A : Rm) v : quadformR A (vnegR v) = quadformR A v.
Proof. unfold quadform. rewrite mvmul_vneg, vdot_vneg_both. reflexivity. Qed.

Lemma vscale_vneg (b : R) : forall u : Rv, vscaleR b (vnegR u) = vnegR (vscaleR b u).
Proof. induction u as [|a u IH]; cbn; auto. f_equal; auto. rsimp. ring. Qed.
Lemma outer_vneg_both : forall (u w : Rv), outerR (vnegR u) (vnegR w) = outerR u w.
Proof.
  unfold outer. induction u as [|a u IH]; intros w; cbn; auto. f_equal; [|apply IH].
  clear. induction w as [|c w IHw]; cbn; auto. f_equal; auto. rsimp. ring.
Qed.

(* ITML: swapping the two points of a pair does not change the projection *)
Theorem itml_update_swap (g : option R) (v : Rv) (pos : bool) (A : Rm) (du : dualR) :
  updateR g (@Build_cstr ROps (vnegR v) pos) A du = updateR g (@Build_cstr ROps v pos) A du.
Proof.
  unfold update. cbn [cv cpos].
  rewrite !mvmul_vneg, !vdot_vneg_both, !vscale_vneg, !outer_vneg_both. reflexivity.
Qed.

(* MMC: the similarity budget sum_S v^T A v is unchanged; LSML / SDML: the distances d_M(v) are *)
Theorem budget_swap (A : Rm) (vs : Rm) : @fS ROps A (map vnegR vs) = @fS ROps A vs.
Proof. unfold fS. rewrite map_map. f_equal. apply map_ext. intro v. apply quadform_vneg. Qed.

Theorem lsml_hinge_swap (M : Rm) (q : @quad ROps) :
  @hinge ROps M {| qab := vnegR (qab q); qcd := vnegR (qcd q); qw := qw q |} = @hinge ROps M q.
Proof. unfold hinge, violated, dM. cbn [qab qcd]. rewrite !quadform_vneg. reflexivity. Qed.

(* NCA / MLKR / LMNN: the documented objectives are invariant under a common translation *)
Lemma nth_map_vadd (t : Rv) (X : Rm) i : nth i (map (fun x => vaddR x t) X) [] = vaddR (nth i X []) t.
Proof. exact (map_nth (fun x => vaddR x t) X [] i). Qed.

Theorem kern_translation (ex : R -> R) (L X : Rm) (t : Rv) i :
  Forall (fun x => length x = length t) X ->
  @kern ROps ex L (map (fun x => vaddR x t) X) i = @kern ROps ex L X i.
Proof.
  intro HX. unfold kern. rewrite map_length, nth_map_vadd.
  assert (G: forall s (Y : Rm), Forall (fun x => length x = length t) Y ->
    map (fun jx : nat * Rv => if Nat.eqb (fst jx) i then @o0 ROps else ex (@oopp ROps (@sqd ROps L (vaddR (nth i X []) t) (snd jx))))
        (combine (seq s (length Y)) (map (fun x => vaddR x t) Y)) =
    map (fun jx : nat * Rv => if Nat.eqb (fst jx) i then @o0 ROps else ex (@oopp ROps (@sqd ROps L (nth i X []) (snd jx))))
        (combine (seq s (length Y)) Y)).
  { intros s Y. revert s. induction Y as [|x Y IH]; intros s HY; cbn; auto. inversion HY; subst.
    f_equal; [|apply IH; auto]. cbn [fst snd]. destruct (Nat.eqb s i) eqn:E; auto.
    destruct (Nat.lt_ge_cases i (length X)) as [Hi|Hi].
    - rewrite sqd_translation; auto. + rewrite Forall_forall in HX. symmetry. apply HX. apply nth_In; auto.
      + rewrite Forall_forall in HX. rewrite (HX (nth i X [])) by (apply nth_In; auto). auto.
    - rewrite (nth_overflow X) by auto. unfold sqd. cbn. reflexivity. }
  apply G; auto.
Qed.
