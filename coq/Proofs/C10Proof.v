From Coq Require Import List Arith Bool ZArith Reals Lra Psatz Lia.
From ML Require Import Ops Vec NP VecR MatR LinAlg Objectives.
Import ListNotations.
Open Scope R_scope.

(* the numerically stable form used by the code is the documented ratio:
   exp(-d_j - ln(sum_k exp(-d_k))) = exp(-d_j) / sum_k exp(-d_k) *)
Theorem softmax_logsumexp (a S : R) : 0 < S -> exp (a - ln S) = exp a / S.
Proof. intro HS. unfold Rminus. rewrite exp_plus, exp_Ropp, exp_ln by auto. reflexivity. Qed.

(* accepted LMNN iterates have non-increasing objective, for ANY objective and ANY trial oracle *)
Section Loop.
  Variable St : Type.
  Variable obj : St -> R.
  Notation first_okR := (@first_ok ROps St obj).
  Notation loopR := (@lmnn_loop ROps St obj).

  Lemma first_ok_le cur : forall trials s, first_okR cur trials = Some s -> obj s <= obj cur.
  Proof.
    induction trials as [|x more IH]; intros s H; cbn in H; [discriminate|].
    destruct (Rltb (obj cur) (obj x)) eqn:E.
    - apply IH; auto.
    - apply Rltb_false in E. inversion H; subst. exact E.
  Qed.

  Fixpoint chain_le (prev : R) (l : list St) : Prop :=
    match l with [] => True | s :: l' => obj s <= prev /\ chain_le (obj s) l' end.

  Theorem lmnn_accept_monotone : forall iters cur, chain_le (obj cur) (loopR cur iters).
  Proof.
    induction iters as [|trials more IH]; intros cur; cbn [lmnn_loop]; [exact I|].
    destruct (first_okR cur trials) as [s|] eqn:E; [|exact I].
    split; [apply (first_ok_le cur trials); auto | apply IH].
  Qed.

  Lemma chain_le_last prev : forall l s, chain_le prev l -> In s l -> obj s <= prev.
  Proof.
    intros l. revert prev. induction l as [|x l IH]; intros prev s H Hin; [destruct Hin|].
    destruct H as [H1 H2]. destruct Hin as [->|Hin]; auto. specialize (IH (obj x) s H2 Hin). lra.
  Qed.

  (* hence the returned transformation never has a worse objective than the initial one *)
  Theorem lmnn_result_le_init iters cur s : In s (loopR cur iters) -> obj s <= obj cur.
  Proof. intro H. apply (chain_le_last (obj cur) (loopR cur iters)); auto. apply lmnn_accept_monotone. Qed.

  (* with no optimiser iterations nothing is accepted: the result is the initialisation *)
  Theorem lmnn_zero_iter cur : loopR cur [] = [].
  Proof. reflexivity. Qed.
End Loop.

(* the softmax weights of one point are non-negative and sum to one: 0 <= p_i <= 1 *)
Lemma ratio_in_unit (s tot : R) : 0 <= s <= tot -> 0 < tot -> 0 <= s / tot <= 1.
Proof.
  intros [H1 H2] Ht. split.
  - apply Rmult_le_pos; auto. apply Rlt_le, Rinv_0_lt_compat; auto.
  - apply Rmult_le_reg_r with (r := tot); auto. replace (s / tot * tot) with s by (field; lra). lra.
Qed.
