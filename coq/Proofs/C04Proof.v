From Coq Require Import List ZArith Bool Reals Lra Lia.
From ML Require Import Ops Vec NP VecR MatR Mahalanobis MahalanobisR NPFacts.
From MLgen Require Import Src_query.
Import ListNotations.
Open Scope R_scope.

Notation p0 tp := (nth 0%nat tp (@nil R)).
Notation p1 tp := (nth 1%nat tp (@nil R)).
Notation p2 tp := (nth 2%nat tp (@nil R)).
Notation p3 tp := (nth 3%nat tp (@nil R)).

Definition pm1 (b : bool) : Z := if b then 1%Z else (-1)%Z.
Definition sgnR (x : R) : Z := if Rltb 0 x then 1%Z else if Rltb x 0 then (-1)%Z else 0%Z.

Lemma pair_score_map (L : Rm) P :
  @Src_query.pair_score ROps L P = map (fun tp => - d_src L (p0 tp) (p1 tp)) P.
Proof. rewrite src_pair_score_neg, C01_batch, map_map. reflexivity. Qed.

Lemma vsub_map_map {A} (f g : A -> R) l :
  vsubR (map f l) (map g l) = map (fun x => f x - g x) l.
Proof. induction l; cbn; auto. f_equal; auto. Qed.

(* ---- pairs ---- *)
Lemma pairs_decision_map (L : Rm) P :
  @Src_query.pairs_decision_function ROps L P = map (fun tp => - d_src L (p0 tp) (p1 tp)) P.
Proof. apply pair_score_map. Qed.

Lemma pairs_predict_map (L : Rm) thr P :
  @Src_query.pairs_predict ROps L thr P = map (fun tp => pm1 (Rleb (d_src L (p0 tp) (p1 tp)) thr)) P.
Proof.
  unfold Src_query.pairs_predict, np_pm1, np_le_vs, np_neg_v.
  rewrite pairs_decision_map, !map_map. apply map_ext. intro tp. cbn.
  rewrite Ropp_involutive. reflexivity.
Qed.

(* ---- triplets ---- *)
Lemma nth_firstn_lt {A} (l : list A) : forall n i d, (i < n)%nat -> nth i (firstn n l) d = nth i l d.
Proof. induction l as [|a l IH]; intros [|n] [|i] d H; cbn; auto; try lia. apply IH; lia. Qed.

Lemma triplets_decision_map (L : Rm) T :
  @Src_query.triplets_decision_function ROps L T =
  map (fun tp => d_src L (p0 tp) (p2 tp) - d_src L (p0 tp) (p1 tp)) T.
Proof.
  unfold Src_query.triplets_decision_function, np_sub_vv, tup_firstn, tup_pick.
  rewrite !pair_score_map, !map_map, vsub_map_map. apply map_ext. intro tp.
  rewrite (nth_firstn_lt tp 2 0), (nth_firstn_lt tp 2 1) by (repeat constructor). cbn [map nth]. rsimp; lra.
Qed.

Lemma triplets_predict_map (L : Rm) T :
  @Src_query.triplets_predict ROps L T =
  map (fun tp => pm1 (Rltb (d_src L (p0 tp) (p1 tp)) (d_src L (p0 tp) (p2 tp)))) T.
Proof.
  unfold Src_query.triplets_predict, np_pm1, np_gt_vs.
  rewrite triplets_decision_map, !map_map. apply map_ext. intro tp. cbn.
  f_equal. unfold Rltb. rsimp.
  destruct (Rlt_dec 0 (d_src L (p0 tp) (p2 tp) - d_src L (p0 tp) (p1 tp)));
  destruct (Rlt_dec (d_src L (p0 tp) (p1 tp)) (d_src L (p0 tp) (p2 tp))); auto; (rsimp; lra).
Qed.

(* ---- quadruplets ---- *)
Lemma nth_skipn2 {A} (l : list A) i d : nth i (skipn 2 l) d = nth (2 + i) l d.
Proof. destruct l as [|a [|b l]]; cbn; auto; destruct i; auto. Qed.

Lemma quadruplets_decision_map (L : Rm) Q :
  @Src_query.quadruplets_decision_function ROps L Q =
  map (fun tp => d_src L (p2 tp) (p3 tp) - d_src L (p0 tp) (p1 tp)) Q.
Proof.
  unfold Src_query.quadruplets_decision_function, np_sub_vv, tup_firstn, tup_skipn.
  rewrite !pair_score_map, !map_map, vsub_map_map. apply map_ext. intro tp.
  rewrite (nth_firstn_lt tp 2 0), (nth_firstn_lt tp 2 1) by (repeat constructor). rewrite !nth_skipn2. cbn [plus]. rsimp; lra.
Qed.

Lemma quadruplets_predict_map (L : Rm) Q :
  @Src_query.quadruplets_predict ROps L Q =
  map (fun tp => sgnR (d_src L (p2 tp) (p3 tp) - d_src L (p0 tp) (p1 tp))) Q.
Proof.
  unfold Src_query.quadruplets_predict, np_sign_v.
  rewrite quadruplets_decision_map, map_map. reflexivity.
Qed.

(* ---- score of a +-1 prediction vector ---- *)
Definition count_pos (zs : list Z) : nat := length (filter (Z.eqb 1) zs).

Lemma zsum_pm1 (bs : list bool) :
  zsum (map pm1 bs) = (2 * Z.of_nat (count_pos (map pm1 bs)) - Z.of_nat (length bs))%Z.
Proof.
  unfold count_pos. induction bs as [|b bs IH]; [reflexivity|].
  cbn [map zsum fold_right length filter]. fold (zsum (map pm1 bs)). rewrite IH.
  destruct b; cbn [pm1 Z.eqb Pos.eqb length]; lia.
Qed.

Lemma score_fraction (bs : list bool) : bs <> [] ->
  @np_mean_z ROps (map pm1 bs) / 2 + @ohalf ROps =
  INR (count_pos (map pm1 bs)) / INR (length bs).
Proof.
  intro Hne. unfold np_mean_z, ohalf. cbn [odiv oofZ o1 ROps]. rewrite map_length, zsum_pm1.
  assert (Hn: INR (length bs) <> 0). { apply not_0_INR. destruct bs; [contradiction|discriminate]. }
  rewrite minus_IZR, mult_IZR, <- !INR_IZR_INZ. field. exact Hn.
Qed.

(* ------------------------------------------------------------------ *)
Definition dd (L : Rm) (a b : Rv) := d_src L a b.

Section C04.
Variable L : Rm.
Variable auc : list Z -> Rv -> R.

Lemma PP (thr : R) P i : (i < length P)%nat ->
  nth i (@Src_query.pairs_predict ROps L thr P) 0%Z =
  pm1 (Rleb (d_src L (p0 (nth i P [])) (p1 (nth i P []))) thr).
Proof. intros Hi. rewrite pairs_predict_map.
  rewrite (nth_map_dflt _ P i [] 0%Z) by auto. reflexivity. Qed.
Lemma TP T i : (i < length T)%nat ->
  nth i (@Src_query.triplets_predict ROps L T) 0%Z =
  pm1 (Rltb (d_src L (p0 (nth i T [])) (p1 (nth i T []))) (d_src L (p0 (nth i T [])) (p2 (nth i T [])))).
Proof. intros Hi. rewrite triplets_predict_map.
  rewrite (nth_map_dflt _ T i [] 0%Z) by auto. reflexivity. Qed.

Lemma c04_pairs_decision : forall P,
  @Src_query.pairs_decision_function ROps L P = map (fun tp => - dd L (p0 tp) (p1 tp)) P.
Proof. apply pairs_decision_map. Qed.
Lemma c04_pairs_predict : forall (thr : R) P, @Src_query.pairs_predict ROps L thr P =
  map (fun tp => if Rleb (dd L (p0 tp) (p1 tp)) thr then 1%Z else (-1)%Z) P.
Proof. intros. rewrite pairs_predict_map. reflexivity. Qed.
Lemma c04_pairs_iff : forall (thr : R) P i, (i < length P)%nat ->
  (nth i (@Src_query.pairs_predict ROps L thr P) 0%Z = 1%Z <-> dd L (p0 (nth i P [])) (p1 (nth i P [])) <= thr) /\
  (nth i (@Src_query.pairs_predict ROps L thr P) 0%Z = (-1)%Z <-> thr < dd L (p0 (nth i P [])) (p1 (nth i P []))).
Proof.
  intros thr P i Hi. unfold dd. rewrite PP by auto. unfold pm1.
  destruct (Rleb _ _) eqn:E.
  - apply Rleb_true in E. split; split; intro H; auto; try discriminate. (rsimp; lra).
  - apply Rleb_false in E. split; split; intro H; auto; try discriminate. (rsimp; lra).
Qed.
Lemma c04_mono_thr : forall (t1 t2 : R) P i, (i < length P)%nat -> t1 <= t2 ->
  nth i (@Src_query.pairs_predict ROps L t1 P) 0%Z = 1%Z ->
  nth i (@Src_query.pairs_predict ROps L t2 P) 0%Z = 1%Z.
Proof.
  intros t1 t2 P i Hi Ht H1.
  apply (c04_pairs_iff t1 P i Hi) in H1. apply (c04_pairs_iff t2 P i Hi). (rsimp; lra).
Qed.
Lemma c04_mono_dist : forall (thr : R) P i j, (i < length P)%nat -> (j < length P)%nat ->
  dd L (p0 (nth i P [])) (p1 (nth i P [])) <= dd L (p0 (nth j P [])) (p1 (nth j P [])) ->
  nth j (@Src_query.pairs_predict ROps L thr P) 0%Z = 1%Z ->
  nth i (@Src_query.pairs_predict ROps L thr P) 0%Z = 1%Z.
Proof.
  intros thr P i j Hi Hj Hd H1.
  apply (c04_pairs_iff thr P j Hj) in H1. apply (c04_pairs_iff thr P i Hi). (rsimp; lra).
Qed.
Lemma c04_set_threshold : forall t : R, @Src_query.set_threshold ROps t = t.
Proof. reflexivity. Qed.
Lemma c04_pairs_score : forall P y,
  @Src_query.pairs_score ROps L auc P y = auc y (@Src_query.pairs_decision_function ROps L P).
Proof. reflexivity. Qed.
Lemma c04_trip_decision : forall T, @Src_query.triplets_decision_function ROps L T =
  map (fun tp => dd L (p0 tp) (p2 tp) - dd L (p0 tp) (p1 tp)) T.
Proof. apply triplets_decision_map. Qed.
Lemma c04_trip_iff : forall T i, (i < length T)%nat ->
  (nth i (@Src_query.triplets_predict ROps L T) 0%Z = 1%Z <->
     dd L (p0 (nth i T [])) (p1 (nth i T [])) < dd L (p0 (nth i T [])) (p2 (nth i T []))) /\
  (nth i (@Src_query.triplets_predict ROps L T) 0%Z = (-1)%Z <->
     dd L (p0 (nth i T [])) (p2 (nth i T [])) <= dd L (p0 (nth i T [])) (p1 (nth i T []))).
Proof.
  intros T i Hi. unfold dd. rewrite TP by auto. unfold pm1.
  destruct (Rltb _ _) eqn:E.
  - apply Rltb_true in E. split; split; intro H; auto; try discriminate. (rsimp; lra).
  - apply Rltb_false in E. split; split; intro H; auto; try discriminate. (rsimp; lra).
Qed.
Lemma c04_trip_swap : forall a b c, @Src_query.triplets_decision_function ROps L [[a; c; b]] =
  map Ropp (@Src_query.triplets_decision_function ROps L [[a; b; c]]).
Proof. intros a b c. rewrite !triplets_decision_map. cbn [map nth]. f_equal. rsimp; lra. Qed.
Lemma c04_trip_score : forall T, T <> [] -> @Src_query.triplets_score ROps L T =
  INR (count_pos (@Src_query.triplets_predict ROps L T)) / INR (length T).
Proof.
  intros T HT. unfold Src_query.triplets_score.
  rewrite triplets_predict_map.
  pose (bs := map (fun tp : list Rv => Rltb (d_src L (p0 tp) (p1 tp)) (d_src L (p0 tp) (p2 tp))) T).
  assert (Eb: map (fun tp : list Rv => pm1 (Rltb (d_src L (p0 tp) (p1 tp)) (d_src L (p0 tp) (p2 tp)))) T = map pm1 bs).
  { unfold bs. rewrite map_map. reflexivity. }
  rewrite Eb.
  assert (Hb: bs <> []) by (unfold bs; destruct T; [contradiction | discriminate]).
  pose proof (score_fraction bs Hb) as E. cbn [oadd odiv oofZ ROps] in *.
  assert (Hl: length bs = length T) by (unfold bs; apply map_length).
  rewrite Hl in E. exact E.
Qed.
Lemma c04_quad_decision : forall Q, @Src_query.quadruplets_decision_function ROps L Q =
  map (fun tp => dd L (p2 tp) (p3 tp) - dd L (p0 tp) (p1 tp)) Q.
Proof. apply quadruplets_decision_map. Qed.
Lemma c04_quad_predict : forall Q, @Src_query.quadruplets_predict ROps L Q =
  map (fun tp => sgnR (dd L (p2 tp) (p3 tp) - dd L (p0 tp) (p1 tp))) Q.
Proof. apply quadruplets_predict_map. Qed.
Lemma c04_quad_swap : forall a b c e, @Src_query.quadruplets_decision_function ROps L [[c; e; a; b]] =
  map Ropp (@Src_query.quadruplets_decision_function ROps L [[a; b; c; e]]).
Proof. intros a b c e. rewrite !quadruplets_decision_map. cbn [map nth]. f_equal. rsimp; lra. Qed.
End C04.
