(* Text-level tie of C20: the hand-written model / harness of this property was written from exactly these versions of the
   functions below (normalised source, digests regenerated from /repo on every run in gen/Src_pins.v; the text itself is in
   /verif/pins/).  A function that changes breaks this lemma; the check then looks for a failing input and reports the
   obligation with a diff.  Rewritten by `tools/translate_pins.py --update` after a repair of /repo. *)
From Coq Require Import String List.
From MLgen Require Import Src_pins.
Import ListNotations.
Open Scope string_scope.

Lemma pins_C20_ok :
  [ pin_util__components_from_metric
  ; pin_util__check_sdp_from_eigen
  ; pin_util__initialize_metric_mahalanobis
  ; pin_util__initialize_components
  ; pin_util__auto_select_init
  ; pin_util__pseudo_inverse_from_eig ] =
  [ "5e728c041fbb863b578fe3fb021dc1033ddfb0f77fbb88b5447e5d09020f7fc7"   (* _util.py: components_from_metric *)
  ; "66824983bb31dcc8731443dc08c0f12bf6fb86f516af6f26d5ed25a975f5dae4"   (* _util.py: _check_sdp_from_eigen *)
  ; "864e56fe3a6d03b12fea8677b29b2590e4778885d74bda922ed3d7d88927215e"   (* _util.py: _initialize_metric_mahalanobis *)
  ; "beeab2c7ef45b35ee1d01796d7469f24d9c683f757f925546a873d14c5e7f07e"   (* _util.py: _initialize_components *)
  ; "e405712975fdacc84c3034b85ca43e134f3f735a83dd8aed63bf025e62250984"   (* _util.py: _auto_select_init *)
  ; "ea7080406b5c9ab0b562ba0d881e96ee8eaa9da9ddee2b4a08ac688e2a3a910a"   (* _util.py: _pseudo_inverse_from_eig *) ].
Proof. reflexivity. Qed.
