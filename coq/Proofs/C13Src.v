(* C13, source level: the matrix that sdml.py hands to the graphical lasso and the condition under which it raises
   RuntimeError, as translated into gen/Src_sdml.v on every run.  Proved over R: the translated solver input
   prior_inv + balance_param * (diff.T * y).dot(diff) has the quadratic form of M0^-1 + balance * sum_i y_i v_i v_i^T
   (the model's emp_cov, the S of the documented objective), and the translated raising condition is the model's vetting. *)
From Coq Require Import String.
From Coq Require Import List Arith Bool Reals Lra Lia ZArith.
From ML Require Import Ops Vec NP VecR MatR LinAlg NPNum SDML C13Proof CovProof.
From MLgen Require Import Src_sdml.
Import ListNotations.
Open Scope R_scope.

(* (A^T B) x = A^T (B x) for n x d matrices A, B (n > 0) *)
Lemma dot_tm_action d (A B : Rm) (x : Rv) : A <> [] -> B <> [] -> Forall (wfvR d) A -> Forall (wfvR d) B -> length A = length B -> wfvR d x ->
  mvmulR (@nn_dot_tm ROps A B) x = mvmulR (transpR A) (mvmulR B x).
Proof.
  intros HneA HneB HA HB HL Hx. unfold nn_dot_tm, mmulg. unfold mvmul at 1. rewrite map_map.
  unfold mvmul at 1. apply map_ext_in. intros cj Hcj.
  rewrite (transp_is_fuel d A HneA HA) in Hcj.
  assert (Lc: length cj = length B).
  { pose proof (transp_fuel_rows d A HneA HA) as H. rewrite Forall_forall in H. rewrite (H cj Hcj). exact HL. }
  rewrite (transp_is_fuel d B HneB HB).
  assert (E: map (vdotR cj) (transp_fuelR d B) = mvmulR (transp_fuelR d B) cj).
  { unfold mvmul. apply map_ext. intro r. apply vdot_comm. }
  rewrite E. apply (transp_fuel_adjoint d B cj x HneB HB Hx Lc).
Qed.

Lemma scale_rows_wf d : forall (y : Rv) (X : Rm), Forall (wfvR d) X -> Forall (wfvR d) (@nn_scale_rows ROps y X).
Proof.
  unfold nn_scale_rows. induction y as [|a y IH]; intros [|r X] H; cbn; try constructor.
  - inversion H; subst. unfold wfv in *. rewrite vscale_length. assumption.
  - inversion H; subst. apply IH; auto.
Qed.
Lemma scale_rows_length : forall (y : Rv) (X : Rm), length y = length X -> length (@nn_scale_rows ROps y X) = length X.
Proof. unfold nn_scale_rows. induction y as [|a y IH]; intros [|r X] H; try discriminate; [reflexivity|]. cbn [map2 length]. f_equal. apply IH. cbn in H. lia. Qed.

(* sum_i y_i (v_i . x)^2 as the pairing of (diag(y) V) x with V x *)
Lemma wsq_as_dot : forall (y : Rv) (V : Rm) (x : Rv), length y = length V ->
  vdotR (mvmulR (@nn_scale_rows ROps y V) x) (mvmulR V x) = wsq y V x.
Proof.
  unfold nn_scale_rows. induction y as [|a y IH]; intros [|v V] x H; try discriminate; [reflexivity|].
  cbn [map2 mvmul map vdot wsq]. rewrite vdot_vscale_l.
  change (map (fun r => vdotR r x) (map2 vscaleR y V)) with (mvmulR (map2 vscaleR y V) x).
  change (map (fun r => vdotR r x) V) with (mvmulR V x).
  rewrite IH by (cbn in H; lia). cbn. ring.
Qed.

Theorem sdml_emp_cov_form d (P : Rm) (b : R) (ys : Rv) (diffs : Rm) (x : Rv) :
  wfmR d d P -> diffs <> [] -> Forall (wfvR d) diffs -> length ys = length diffs -> wfvR d x ->
  quadformR (@sdml_emp_cov ROps b P diffs ys) x = quadformR P x + b * wsq ys diffs x.
Proof.
  intros HP Hne Hd HL Hx. unfold sdml_emp_cov, nn_add_mm, nn_mul_sm.
  set (Sy := @nn_scale_rows ROps ys diffs).
  assert (HSy: Forall (wfvR d) Sy) by (apply scale_rows_wf; auto).
  assert (LSy: length Sy = length diffs) by (apply scale_rows_length; auto).
  assert (NSy: Sy <> []) by (intro E; rewrite E in LSy; destruct diffs; [contradiction | discriminate]).
  assert (Wl: wfmR d d (@nn_dot_tm ROps Sy diffs)).
  { unfold nn_dot_tm, mmulg. split.
    - rewrite map_length. rewrite (transp_is_fuel d Sy NSy HSy). apply transp_fuel_length; auto.
    - apply Forall_forall. intros r Hr. apply in_map_iff in Hr as [c [<- _]]. unfold wfv. rewrite map_length.
      rewrite (transp_is_fuel d diffs Hne Hd). apply transp_fuel_length; auto. }
  rewrite (quadform_madd d d) by (auto; apply mscale_wfm; auto).
  rewrite quadform_mscale. f_equal. f_equal.
  unfold quadform. rewrite (dot_tm_action d Sy diffs x NSy Hne HSy Hd LSy Hx).
  rewrite (transp_is_fuel d Sy NSy HSy). rewrite vdot_comm.
  rewrite (transp_fuel_adjoint d Sy (mvmulR diffs x) x NSy HSy Hx) by (rewrite mvmul_length; symmetry; exact LSy).
  rewrite vdot_comm. apply wsq_as_dot. exact HL.
Qed.

Theorem sdml_raises_vet raised not_spd not_finite :
  sdml_raises raised not_spd not_finite = false <-> vet raised not_spd not_finite = SdmlReturns.
Proof. unfold sdml_raises, vet. destruct raised, not_spd, not_finite; cbn; split; intro H; try discriminate; reflexivity. Qed.

Lemma sdml_skeleton_ok : sdml_skeleton =
  [ "diff = pairs[:, 0] - pairs[:, 1]"
  ; "_, prior_inv = _initialize_metric_mahalanobis(pairs, self.prior, return_inverse=True, strict_pd=True, matrix_name='prior', random_state=self.random_state)"
  ; "graphical_lasso(emp_cov, alpha=self.sparsity_param, verbose=self.verbose, cov_init=sigma0)"
  ; "quic(emp_cov, lam=self.sparsity_param, msg=self.verbose, Theta0=theta0, Sigma0=sigma0)"
  ; "raised_error = None"
  ; "w_mahalanobis, _ = np.linalg.eigh(M)"
  ; "not_spd = any(w_mahalanobis < 0.0)"
  ; "not_finite = not np.isfinite(M).all()"
  ; "except Exception: raised_error = e; not_spd = False; not_finite = False"
  ; "self.components_ = components_from_metric(np.atleast_2d(M))" ]%string.
Proof. reflexivity. Qed.
