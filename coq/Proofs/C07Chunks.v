(* C07, chunks: for every random stream accepted by the model. *)
From Coq Require Import List Arith Bool ZArith Lia.
From ML Require Import Constraints C07Pairs.
Import ListNotations.

Section Chunks.
  Variable labels : list Z.
  Variable chunk_size n_chunks : nat.

  (* a class list: all members are in range and carry one known label *)
  Definition hom (inds : list nat) : Prop :=
    exists z, (0 <= z)%Z /\ forall i, In i inds -> i < length labels /\ lab labels i = z.

  Lemma hom_filter f inds : hom inds -> hom (filter f inds).
  Proof. intros [z [Hz H]]. exists z. split; auto. intros i Hi. apply filter_In in Hi as [Hi _]. auto. Qed.
  Lemma hom_nil : hom [].
  Proof. exists 0%Z. split; [lia|]. intros i []. Qed.

  Lemma Forall_replace_nth {A} (P : A -> Prop) c x : forall l, Forall P l -> P x -> Forall P (replace_nth c x l).
  Proof. revert c. induction c as [|c IH]; intros [|y l] H Hx; cbn; auto; inversion H; subst; constructor; auto. Qed.
  Lemma Forall_remove_nth {A} (P : A -> Prop) c : forall l, Forall P l -> Forall P (remove_nth c l).
  Proof. induction c as [|c IH]; intros [|y l] H; cbn; auto; inversion H; subst; auto. Qed.
  Lemma Forall_nth_dflt {A} (P : A -> Prop) l c d : Forall P l -> P d -> P (nth c l d).
  Proof. intros H Hd. destruct (Nat.lt_ge_cases c (length l)) as [Hc|Hc].
    - rewrite Forall_forall in H. apply H. apply nth_In; auto.
    - rewrite nth_overflow; auto. Qed.

  (* what is known about the assignments made so far *)
  Definition acc_ok (idx : nat) (acc : list (nat * nat)) : Prop :=
    (forall p, In p acc -> snd p < idx /\ fst p < length labels /\ (0 <= lab labels (fst p))%Z) /\
    (forall p q, In p acc -> In q acc -> snd p = snd q -> lab labels (fst p) = lab labels (fst q)) /\
    (forall k, k < idx -> length (filter (fun p => Nat.eqb (snd p) k) acc) = chunk_size).

  Lemma filter_none {A} (f : A -> bool) l : (forall x, In x l -> f x = false) -> filter f l = [].
  Proof. induction l as [|a l IH]; intro H; cbn; auto. rewrite (H a (or_introl eq_refl)). apply IH. intros; apply H; right; auto. Qed.
  Lemma filter_all {A} (f : A -> bool) l : (forall x, In x l -> f x = true) -> filter f l = l.
  Proof. induction l as [|a l IH]; intro H; cbn; auto. rewrite (H a (or_introl eq_refl)). f_equal. apply IH. intros; apply H; right; auto. Qed.

  Lemma chunks_loop_inv : forall steps all_inds idx acc res,
    chunks_loop chunk_size n_chunks steps all_inds idx acc = Some res ->
    Forall hom all_inds -> acc_ok idx acc -> idx <= n_chunks ->
    exists idx', idx <= idx' <= n_chunks /\ acc_ok idx' res.
  Proof.
    induction steps as [|st more IH]; intros all_inds idx acc res H HA HK Hle; cbn [chunks_loop] in H.
    - destruct ((idx <? n_chunks) && negb (length all_inds =? 0)); [discriminate|]. inversion H; subst.
      exists idx. split; [lia | auto].
    - destruct ((idx <? n_chunks) && negb (length all_inds =? 0)) eqn:Eg; [|discriminate].
      apply andb_true_iff in Eg as [Eg _]. apply Nat.ltb_lt in Eg.
      destruct st as [c|c ii].
      + destruct ((c <? length all_inds) && (length (nth c all_inds []) <? chunk_size)); [|discriminate].
        apply (IH _ _ _ _ H); auto. apply Forall_remove_nth; auto.
      + destruct ((c <? length all_inds) && negb (length (nth c all_inds []) <? chunk_size) &&
                  (length ii =? chunk_size) && nodupb ii &&
                  forallb (fun i => memn i (nth c all_inds [])) ii) eqn:Ec; [|discriminate].
        apply andb_true_iff in Ec as [Ec E5]. apply andb_true_iff in Ec as [Ec E4].
        apply andb_true_iff in Ec as [Ec E3]. apply Nat.eqb_eq in E3.
        assert (Hc: hom (nth c all_inds [])) by (apply Forall_nth_dflt; [auto | apply hom_nil]).
        destruct Hc as [z [Hz Hh]].
        assert (Hii: forall i, In i ii -> i < length labels /\ lab labels i = z).
        { intros i Hi. rewrite forallb_forall in E5. apply Hh. apply memn_In. apply E5; auto. }
        destruct (IH _ _ _ _ H) as [idx' [L1 L2]].
        * apply Forall_replace_nth; auto. unfold remove_all. apply hom_filter. exists z. auto.
        * destruct HK as [K1 [K2 K3]]. split; [|split].
          -- intros p Hp. apply in_app_iff in Hp as [Hp|Hp].
             ++ destruct (K1 p Hp) as [A [B C]]. split; [lia | auto].
             ++ apply in_map_iff in Hp as [i [<- Hi]]. cbn. destruct (Hii i Hi) as [A B]. split; [lia|]. split; [auto | rewrite B; auto].
          -- intros p q Hp Hq Epq. apply in_app_iff in Hp as [Hp|Hp]; apply in_app_iff in Hq as [Hq|Hq].
             ++ apply K2; auto.
             ++ apply in_map_iff in Hq as [j [<- Hj]]. cbn in Epq. destruct (K1 p Hp). lia.
             ++ apply in_map_iff in Hp as [i [<- Hi]]. cbn in Epq. destruct (K1 q Hq). lia.
             ++ apply in_map_iff in Hp as [i [<- Hi]]. apply in_map_iff in Hq as [j [<- Hj]]. cbn.
                destruct (Hii i Hi) as [_ ->]. destruct (Hii j Hj) as [_ ->]. reflexivity.
          -- intros k Hk. rewrite filter_app, app_length.
             destruct (Nat.eq_dec k idx) as [->|Hne].
             ++ rewrite (filter_none _ acc), (filter_all _ (map _ ii)).
                ** cbn. rewrite map_length. exact E3.
                ** intros p Hp. apply in_map_iff in Hp as [i [<- _]]. cbn. apply Nat.eqb_refl.
                ** intros p Hp. destruct (K1 p Hp) as [A _]. apply Nat.eqb_neq. lia.
             ++ rewrite (filter_none _ (map _ ii)).
                ** cbn. rewrite Nat.add_0_r. apply K3. lia.
                ** intros p Hp. apply in_map_iff in Hp as [i [<- _]]. cbn. apply Nat.eqb_neq. lia.
        * lia.
        * exists idx'. split; [lia | auto].
  Qed.
End Chunks.

(* the class lists of np.unique are homogeneous *)
Lemma class_inds_hom labels : Forall (hom labels) (class_inds labels).
Proof.
  unfold class_inds. apply Forall_forall. intros inds Hi. apply in_map_iff in Hi as [c [<- Hc]].
  exists c. split.
  - unfold classes in Hc.
    assert (Hs: forall l x, In x (sort_z l) -> In x l).
    { induction l as [|y l IH]; cbn; auto. intros x Hx.
      assert (Hins: forall z l', In x (insert_z z l') -> x = z \/ In x l').
      { intros z l'. induction l' as [|w l' IH']; cbn; [intros [->|[]]; auto|].
        destruct (z <=? w)%Z; cbn; intros [->|H]; auto. destruct (IH' H); auto. }
      destruct (Hins _ _ Hx); [left; auto | right; apply IH; auto]. }
    apply Hs in Hc.
    assert (Hd: forall l x, In x (dedup_z l) -> In x l).
    { induction l as [|y l IH]; cbn; auto. intros x. destruct (existsb (Z.eqb y) l); cbn; intro H.
      - right; apply IH; auto. - destruct H; auto. }
    apply Hd in Hc. apply filter_In in Hc as [_ Hc]. apply Z.leb_le in Hc. exact Hc.
  - intros i Hi. apply filter_In in Hi as [H1 H2]. apply in_seq in H1. apply Z.eqb_eq in H2. split; [lia | auto].
Qed.

Theorem chunks_sound labels n_chunks chunk_size steps assign :
  chunks_model labels n_chunks chunk_size steps = ChunksOk assign ->
  n_chunks <= max_chunks labels chunk_size /\
  (* every assigned point is a labelled point of the caller's array, chunk ids are < n_chunks *)
  (forall p, In p assign -> snd p < n_chunks /\ fst p < length labels /\ (0 <= lab labels (fst p))%Z) /\
  (* members of one chunk share one known class *)
  (forall p q, In p assign -> In q assign -> snd p = snd q -> lab labels (fst p) = lab labels (fst q)).
Proof.
  unfold chunks_model. destruct (max_chunks labels chunk_size <? n_chunks) eqn:E; [discriminate|].
  apply Nat.ltb_ge in E.
  destruct (chunks_loop chunk_size n_chunks steps (class_inds labels) 0 []) as [a|] eqn:EL; [|discriminate].
  intro H; inversion H; subst; clear H.
  destruct (chunks_loop_inv labels chunk_size n_chunks steps _ 0 [] assign EL (class_inds_hom labels)) as [idx' [L1 [K1 [K2 K3]]]].
  - split; [|split]; [intros p [] | intros p q [] | intros k Hk; lia].
  - lia.
  - split; [auto|]. split; [|auto]. intros p Hp. destruct (K1 p Hp) as [A B]. split; [lia | auto].
Qed.

(* a chunk id that exists has exactly chunk_size members: every id below the number of chunks formed *)
Theorem chunks_sizes labels n_chunks chunk_size steps assign :
  chunks_model labels n_chunks chunk_size steps = ChunksOk assign ->
  exists formed, formed <= n_chunks /\
    (forall p, In p assign -> snd p < formed) /\
    (forall k, k < formed -> length (filter (fun p => Nat.eqb (snd p) k) assign) = chunk_size).
Proof.
  unfold chunks_model. destruct (max_chunks labels chunk_size <? n_chunks) eqn:E; [discriminate|].
  destruct (chunks_loop chunk_size n_chunks steps (class_inds labels) 0 []) as [a|] eqn:EL; [|discriminate].
  intro H; inversion H; subst; clear H.
  destruct (chunks_loop_inv labels chunk_size n_chunks steps _ 0 [] assign EL (class_inds_hom labels)) as [idx' [L1 [K1 [K2 K3]]]].
  - split; [|split]; [intros p [] | intros p q [] | intros k Hk; lia].
  - lia.
  - exists idx'. split; [lia|]. split; [|auto]. intros p Hp. apply K1; auto.
Qed.

Theorem chunks_infeasible labels n_chunks chunk_size steps :
  chunks_model labels n_chunks chunk_size steps = ChunksError <-> max_chunks labels chunk_size < n_chunks.
Proof.
  unfold chunks_model. destruct (max_chunks labels chunk_size <? n_chunks) eqn:E.
  - apply Nat.ltb_lt in E. split; auto.
  - apply Nat.ltb_ge in E. split; [|lia].
    destruct (chunks_loop chunk_size n_chunks steps (class_inds labels) 0 []); discriminate.
Qed.
