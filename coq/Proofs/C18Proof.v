From Coq Require Import List String Bool.
From ML Require Import InitModel.
Import ListNotations.
Open Scope string_scope.

Section Sound.
  Variable V : Type.
  Variable is_sentinel : V -> bool.
  Variable constv : string -> V.

  Definition defaults_deprecated (dep : list string) (env : string -> V) : Prop :=
    forall old, mem old dep = true -> is_sentinel (env old) = true.

  Lemma stores_param_sound dep p e env :
    stores_param dep p e = true -> defaults_deprecated dep env ->
    eval V is_sentinel constv env e = env p.
  Proof.
    induction e as [q|c|old e IH|old]; cbn; intros H D.
    - apply String.eqb_eq in H. subst. reflexivity.
    - discriminate.
    - apply andb_true_iff in H as [H1 H2]. rewrite (D old H1). apply IH; auto.
    - discriminate.
  Qed.

  Lemma In_nondeprecated c p :
    In p (cparams c) -> mem p (cdeprecated c) = false -> In p (nondeprecated c).
  Proof. intros H1 H2. unfold nondeprecated. apply filter_In. split; auto. rewrite H2. reflexivity. Qed.

  (* the property: every non-deprecated constructor parameter is stored untouched and
     get_params returns the identical object *)
  Theorem class_ok_sound c : class_ok c = true ->
    forall env, defaults_deprecated (cdeprecated c) env ->
    forall p, In p (cparams c) -> mem p (cdeprecated c) = false ->
      get_param V is_sentinel constv c env p = Some (env p).
  Proof.
    intros H env D p Hp Hd. unfold class_ok in H. apply andb_true_iff in H as [H _].
    rewrite forallb_forall in H. specialize (H p (In_nondeprecated c p Hp Hd)).
    unfold get_param. destruct (lookup p (cstores c)) as [e|]; [|discriminate].
    cbn. f_equal. apply (stores_param_sound (cdeprecated c)); auto.
  Qed.

  (* set_params(name = v) then get_params()[name] is v; other names unaffected *)
  Theorem set_get c env name : get_param V is_sentinel constv (set_param c name) env name = Some (env name).
  Proof. unfold get_param, set_param. cbn. rewrite String.eqb_refl. reflexivity. Qed.
  Theorem set_get_other c env name other : name <> other ->
    get_param V is_sentinel constv (set_param c name) env other = get_param V is_sentinel constv c env other.
  Proof. intro H. unfold get_param, set_param. cbn.
    destruct (String.eqb other name) eqn:E; [apply String.eqb_eq in E; congruence | reflexivity]. Qed.

  (* deprecated alias: passing the old name sets the new attribute to that object *)
  Theorem alias_ok_sound c old new : alias_ok c old new = true ->
    forall env, is_sentinel (env old) = false ->
      get_param V is_sentinel constv c env new = Some (env old).
  Proof.
    unfold alias_ok. intros H env Hs. apply andb_true_iff in H as [H _]. apply andb_true_iff in H as [_ H].
    unfold get_param. destruct (lookup new (cstores c)) as [[|?|o [n| | |]|]|]; try discriminate.
    cbn. rewrite andb_true_iff in H. destruct H as [Ho _]. apply String.eqb_eq in Ho. subst o.
    rewrite Hs. reflexivity.
  Qed.
  (* a deprecated parameter that was not used (it still equals the sentinel) is returned by get_params as the
     identical object: clone, which re-runs the constructor on get_params, passes its identity check whatever object the sentinel is *)
  Theorem sentinel_kept_sound c : sentinel_kept c = true ->
    forall env p, In p (cdeprecated c) -> is_sentinel (env p) = true ->
      get_param V is_sentinel constv c env p = Some (env p).
  Proof.
    intros H env p Hp Hs. unfold sentinel_kept in H. rewrite forallb_forall in H. specialize (H p Hp).
    unfold get_param. destruct (lookup p (cstores c)) as [[| | |q]|]; try discriminate.
    apply String.eqb_eq in H. subst q. cbn. rewrite Hs. reflexivity.
  Qed.
End Sound.
