(* The sample covariance of the executable model (Base/LinAlg.v: cov, built from transp / mmulg) is
   the covariance: along every direction x its quadratic form is the (n - ddof)-normalised sum of squared
   deviations of the projected samples.  Consequences used by C09 / C19: invariance under listing the
   samples in another order and under translation, scaling by c^2 under scaling of all features by c,
   and equivariance under any linear map of the features (rotations in particular). *)
From Coq Require Import List Arith Bool ZArith Reals Lra Lia Permutation.
From ML Require Import Ops Vec NP VecR MatR LinAlg PSDConv.
Import ListNotations.
Open Scope R_scope.

Notation transpR := (@transp ROps).
Notation transp_fuelR := (@transp_fuel ROps).
Notation covR := (@cov ROps).
Notation centerR := (@center ROps).
Notation colmeansR := (@colmeans ROps).
Notation vsumR := (@vsum ROps).
Notation hd0R := (@hd0 ROps).

(* ------------------------------------------------------------------ rows as head :: tail *)
Lemma vdot_hd_tl (r : Rv) x0 (xs : Rv) : vdotR r (x0 :: xs) = hd0R r * x0 + vdotR (tl r) xs.
Proof. destruct r as [|h t]; cbn; [destruct xs; cbn; lra | reflexivity]. Qed.

Lemma mvmul_cons_split (X : Rm) x0 (xs : Rv) :
  mvmulR X (x0 :: xs) = vaddR (vscaleR x0 (map hd0R X)) (mvmulR (map (@tl R) X) xs).
Proof.
  induction X as [|r X IH]; [reflexivity|].
  cbn [mvmul map vscale vadd]. fold (mvmulR X (x0 :: xs)). fold (mvmulR (map (@tl R) X) xs).
  rewrite IH, vdot_hd_tl. f_equal. cbn. rsimp. ring.
Qed.

Lemma mvmul_nil_r (X : Rm) : mvmulR X [] = vzero (length X).
Proof. induction X as [|r X IH]; cbn; auto. f_equal; auto. destruct r; reflexivity. Qed.

(* ------------------------------------------------------------------ the transpose is the adjoint *)
Lemma transp_fuel_adjoint : forall d (X : Rm) (c x : Rv),
  X <> [] -> Forall (wfvR d) X -> wfvR d x -> length c = length X ->
  vdotR (mvmulR (transp_fuelR d X) c) x = vdotR c (mvmulR X x).
Proof.
  induction d as [|d IH]; intros X c x Hne HX Hx Hc.
  - destruct x; [|discriminate]. rewrite mvmul_nil_r, vdot_vzero_r. reflexivity.
  - destruct x as [|x0 xs]; [discriminate|].
    assert (Hxs: wfvR d xs) by (unfold wfv in *; cbn [length] in Hx; rsimp; lia). clear Hx.
    destruct X as [|r0 X]; [contradiction|].
    inversion HX as [|? ? Hr0 HX']; subst.
    destruct r0 as [|h0 t0]; [discriminate|].
    set (Y := (h0 :: t0) :: X) in *.
    assert (ET: transp_fuelR (S d) Y = map hd0R Y :: transp_fuelR d (map (@tl R) Y)) by reflexivity.
    rewrite ET.
    assert (EM: forall (a : Rv) (T : Rm), mvmulR (a :: T) c = vdotR a c :: mvmulR T c) by reflexivity.
    rewrite EM.
    assert (EV: forall p (ps : Rv), vdotR (p :: ps) (x0 :: xs) = p * x0 + vdotR ps xs) by reflexivity.
    rewrite EV.
    rewrite (IH (map (@tl R) Y) c xs).
    + rewrite (mvmul_cons_split Y x0 xs).
      rewrite vdot_vadd_r, vdot_vscale_r.
      * rewrite (vdot_comm (map hd0R Y) c). rsimp. ring.
      * rewrite vscale_length, !map_length, mvmul_length, map_length. reflexivity.
    + discriminate.
    + apply Forall_forall. intros t Ht. apply in_map_iff in Ht as [r [<- Hr]].
      rewrite Forall_forall in HX. specialize (HX r Hr). unfold wfv in *. destruct r; cbn in *; [discriminate | lia].
    + exact Hxs.
    + rewrite map_length. exact Hc.
Qed.

Lemma transp_is_fuel d (X : Rm) : X <> [] -> Forall (wfvR d) X -> transpR X = transp_fuelR d X.
Proof. intros Hne HX. destruct X as [|r X]; [contradiction|]. inversion HX; subst. unfold transp. unfold wfv in *. rsimp. congruence. Qed.

Lemma transp_fuel_length : forall d (X : Rm), X <> [] -> Forall (wfvR d) X -> length (transp_fuelR d X) = d.
Proof.
  induction d as [|d IH]; intros X Hne HX; [reflexivity|].
  destruct X as [|r0 X]; [contradiction|]. inversion HX as [|? ? Hr0 HX']; subst.
  destruct r0 as [|h0 t0]; [discriminate|]. cbn [transp_fuel length]. f_equal. apply IH; [discriminate|].
  apply Forall_forall. intros t Ht. apply in_map_iff in Ht as [r [<- Hr]].
  rewrite Forall_forall in HX. specialize (HX r Hr). unfold wfv in *. destruct r; cbn in *; [discriminate | lia].
Qed.

Lemma transp_fuel_rows : forall d (X : Rm), X <> [] -> Forall (wfvR d) X ->
  Forall (wfvR (length X)) (transp_fuelR d X).
Proof.
  induction d as [|d IH]; intros X Hne HX; [constructor|].
  destruct X as [|r0 X]; [contradiction|]. inversion HX as [|? ? Hr0 HX']; subst.
  destruct r0 as [|h0 t0]; [discriminate|]. cbn [transp_fuel]. constructor.
  - unfold wfv. rewrite map_length. reflexivity.
  - assert (L: length (map (@tl R) ((h0 :: t0) :: X)) = length ((h0 :: t0) :: X)) by apply map_length.
    rewrite <- L. apply IH; [discriminate|].
    apply Forall_forall. intros t Ht. apply in_map_iff in Ht as [r [<- Hr]].
    rewrite Forall_forall in HX. specialize (HX r Hr). unfold wfv in *. destruct r; cbn in *; [discriminate | lia].
Qed.

(* X^T X acts as x |-> X^T (X x), and its quadratic form is |X x|^2 *)
Lemma gram_action d (X : Rm) (x : Rv) : X <> [] -> Forall (wfvR d) X -> wfvR d x ->
  mvmulR (@mmulg ROps (transpR X) X) x = mvmulR (transpR X) (mvmulR X x).
Proof.
  intros Hne HX Hx. unfold mmulg. unfold mvmul at 1. rewrite map_map.
  unfold mvmul at 1. apply map_ext_in. intros cj Hcj.
  rewrite (transp_is_fuel d X Hne HX) in *.
  assert (Lc: length cj = length X).
  { pose proof (transp_fuel_rows d X Hne HX) as H. rewrite Forall_forall in H. apply H. exact Hcj. }
  change (map (vdotR cj) (transp_fuelR d X)) with (map (fun r => vdotR cj r) (transp_fuelR d X)).
  assert (E: map (fun r => vdotR cj r) (transp_fuelR d X) = mvmulR (transp_fuelR d X) cj).
  { unfold mvmul. apply map_ext. intro r. apply vdot_comm. }
  rewrite E. rewrite (transp_fuel_adjoint d X cj x Hne HX Hx Lc). reflexivity.
Qed.

Lemma gram_quadform d (X : Rm) (x : Rv) : X <> [] -> Forall (wfvR d) X -> wfvR d x ->
  quadformR (@mmulg ROps (transpR X) X) x = vsumsqR (mvmulR X x).
Proof.
  intros Hne HX Hx. unfold quadform. rewrite (gram_action d X x Hne HX Hx).
  rewrite (transp_is_fuel d X Hne HX). rewrite vdot_comm.
  rewrite (transp_fuel_adjoint d X (mvmulR X x) x Hne HX Hx); [reflexivity | apply mvmul_length].
Qed.

(* ------------------------------------------------------------------ scalar statistics of a list *)
Definition rsum (l : Rv) : R := fold_right Rplus 0 l.
Definition rmean (l : Rv) : R := rsum l / INR (length l).
(* sum of squared deviations from the mean *)
Definition ssd (l : Rv) : R := rsum (map (fun p => (p - rmean l) ^ 2) l).

Lemma vsum_rsum (l : Rv) : vsumR l = rsum l.
Proof. induction l as [|a l IH]; cbn; auto; rewrite IH; reflexivity. Qed.
Lemma vsumsq_rsum (l : Rv) : vsumsqR l = rsum (map (fun p => p ^ 2) l).
Proof.
  unfold vsumsq. induction l as [|a l IH]; [reflexivity|].
  change (vdotR (a :: l) (a :: l)) with (a * a + vdotR l l). rewrite IH.
  change (rsum (map (fun p => p ^ 2) (a :: l))) with (a ^ 2 + rsum (map (fun p => p ^ 2) l)). rsimp. ring.
Qed.
Lemma rsum_perm (l l' : Rv) : Permutation l l' -> rsum l = rsum l'.
Proof. induction 1; unfold rsum in *; cbn; lra. Qed.
Lemma rsum_map_add (f g : R -> R) (l : Rv) : rsum (map (fun p => f p + g p) l) = rsum (map f l) + rsum (map g l).
Proof. induction l; unfold rsum in *; cbn; lra. Qed.
Lemma rsum_map_scale c (l : Rv) : rsum (map (fun p => c * p) l) = c * rsum l.
Proof. induction l; unfold rsum in *; cbn; lra. Qed.
Lemma rsum_map_const c (l : Rv) : rsum (map (fun _ => c) l) = INR (length l) * c.
Proof. induction l as [|a l IH]; [cbn; lra|]. cbn [map rsum fold_right length]. fold (rsum (map (fun _ => c) l)). rewrite IH, S_INR. ring. Qed.

Lemma ssd_perm (l l' : Rv) : Permutation l l' -> ssd l = ssd l'.
Proof.
  intro H. unfold ssd, rmean. rewrite (rsum_perm _ _ H), (Permutation_length H).
  apply rsum_perm. apply Permutation_map. exact H.
Qed.
Lemma rmean_shift t (l : Rv) : l <> [] -> rmean (map (fun p => p + t) l) = rmean l + t.
Proof.
  intro Hne. unfold rmean. rewrite map_length.
  replace (rsum (map (fun p => p + t) l)) with (rsum l + INR (length l) * t).
  - assert (INR (length l) <> 0) by (destruct l; [contradiction | apply not_0_INR; discriminate]). field; auto.
  - rewrite (rsum_map_add (fun p => p) (fun _ => t)), map_id, rsum_map_const. reflexivity.
Qed.
Lemma ssd_shift t (l : Rv) : l <> [] -> ssd (map (fun p => p + t) l) = ssd l.
Proof.
  intro Hne. unfold ssd. rewrite (rmean_shift t l Hne), map_map. f_equal. apply map_ext. intro p. ring.
Qed.
Lemma rmean_scale c (l : Rv) : rmean (map (fun p => c * p) l) = c * rmean l.
Proof. unfold rmean. rewrite map_length, rsum_map_scale. unfold Rdiv. ring. Qed.
Lemma ssd_scale c (l : Rv) : ssd (map (fun p => c * p) l) = c ^ 2 * ssd l.
Proof.
  unfold ssd. rewrite rmean_scale, map_map. rewrite <- rsum_map_scale, map_map. f_equal. apply map_ext. intro p. ring.
Qed.

(* ------------------------------------------------------------------ column means and centring, seen along a direction *)
Fixpoint all_ones (n : nat) : Rv := match n with 0%nat => [] | S n' => 1 :: all_ones n' end.
Lemma ones_length n : length (all_ones n) = n.
Proof. induction n; cbn; auto. Qed.
Lemma vdot_ones_r (c : Rv) : vdotR c (all_ones (length c)) = vsumR c.
Proof. induction c as [|a c IH]; cbn; auto. rsimp. rewrite IH. ring. Qed.
Lemma vdot_ones_l (c : Rv) : vdotR (all_ones (length c)) c = rsum c.
Proof. rewrite vdot_comm, vdot_ones_r. apply vsum_rsum. Qed.

Lemma colmeans_dot d (X : Rm) (x : Rv) : X <> [] -> Forall (wfvR d) X -> wfvR d x ->
  vdotR (colmeansR X) x = rmean (mvmulR X x).
Proof.
  intros Hne HX Hx. unfold colmeans, rmean. rewrite mvmul_length.
  rewrite (transp_is_fuel d X Hne HX).
  assert (E: map (fun c => @odiv ROps (vsumR c) (@oofZ ROps (Z.of_nat (length X)))) (transp_fuelR d X)
           = vscaleR (/ INR (length X)) (mvmulR (transp_fuelR d X) (all_ones (length X)))).
  { pose proof (transp_fuel_rows d X Hne HX) as Hr. revert Hr. generalize (transp_fuelR d X) as T.
    induction T as [|c T IH]; intro Hr; [reflexivity|]. inversion Hr as [|? ? Hc Hr']; subst.
    cbn [map mvmul vscale]. fold (mvmulR T (all_ones (length X))). rewrite (IH Hr'). f_equal.
    unfold wfv in Hc. rewrite <- Hc at 3. rewrite vdot_ones_r. cbn [odiv omul oofZ ROps]. rewrite <- INR_IZR_INZ. rsimp. unfold Rdiv. ring. }
  rsimp. rewrite E, vdot_vscale_l.
  rewrite (transp_fuel_adjoint d X (all_ones (length X)) x Hne HX Hx (ones_length _)).
  replace (all_ones (length X)) with (all_ones (length (mvmulR X x))) by (rewrite mvmul_length; reflexivity).
  rewrite vdot_ones_l. unfold Rdiv. ring.
Qed.

Lemma center_proj d (X : Rm) (x : Rv) : X <> [] -> Forall (wfvR d) X -> wfvR d x ->
  mvmulR (centerR X) x = map (fun p => p - rmean (mvmulR X x)) (mvmulR X x).
Proof.
  intros Hne HX Hx. unfold center. unfold mvmul at 1. rewrite map_map. unfold mvmul at 2. rewrite map_map.
  apply map_ext_in. intros r Hr.
  assert (Lm: length (colmeansR X) = d).
  { unfold colmeans. rewrite map_length, (transp_is_fuel d X Hne HX). apply transp_fuel_length; auto. }
  pose proof (proj1 (Forall_forall _ _) HX r Hr) as Hrr.
  rewrite vdot_vsub_l by (unfold wfv in *; rsimp; congruence).
  rewrite (colmeans_dot d X x Hne HX Hx). reflexivity.
Qed.

Lemma center_wf d (X : Rm) : X <> [] -> Forall (wfvR d) X -> Forall (wfvR d) (centerR X) /\ centerR X <> [].
Proof.
  intros Hne HX. assert (Lm: length (colmeansR X) = d).
  { unfold colmeans. rewrite map_length, (transp_is_fuel d X Hne HX). apply transp_fuel_length; auto. }
  split.
  - unfold center. apply Forall_forall. intros r Hr. apply in_map_iff in Hr as [r0 [<- Hr0]].
    rewrite Forall_forall in HX. specialize (HX r0 Hr0). unfold wfv in *. rewrite vsub_length; rsimp; congruence.
  - unfold center. destruct X; [contradiction | discriminate].
Qed.

(* ------------------------------------------------------------------ the covariance along a direction *)
Lemma mvmul_map_div (A : Rm) (N : R) (x : Rv) :
  mvmulR (map (map (fun a => @odiv ROps a N)) A) x = vscaleR (/ N) (mvmulR A x).
Proof.
  induction A as [|r A IH]; [reflexivity|]. cbn [map mvmul vscale]. fold (mvmulR A x).
  fold (mvmulR (map (map (fun a => @odiv ROps a N)) A) x). rewrite IH. f_equal.
  clear IH. revert x. induction r as [|a r IHr]; intros [|x0 xs]; cbn; rsimp; try ring.
  rewrite IHr. cbn. rsimp. unfold Rdiv. ring.
Qed.

Theorem cov_quadform d ddof (X : Rm) (x : Rv) : X <> [] -> Forall (wfvR d) X -> wfvR d x ->
  quadformR (covR ddof X) x = ssd (mvmulR X x) / INR (length X - ddof).
Proof.
  intros Hne HX Hx. destruct (center_wf d X Hne HX) as [Hc1 Hc2].
  unfold cov, quadform. rewrite mvmul_map_div, vdot_vscale_r.
  fold (quadformR (@mmulg ROps (transpR (centerR X)) (centerR X)) x).
  rewrite (gram_quadform d (centerR X) x Hc2 Hc1 Hx).
  rewrite (center_proj d X x Hne HX Hx). rewrite vsumsq_rsum, map_map.
  cbn [oofZ ROps]. rewrite <- INR_IZR_INZ. unfold ssd, Rdiv. rsimp. ring.
Qed.

(* ------------------------------------------------------------------ consequences *)
(* listing the samples in another order *)
Theorem cov_permutation d ddof (X X' : Rm) (x : Rv) : X <> [] -> Forall (wfvR d) X -> wfvR d x ->
  Permutation X X' -> quadformR (covR ddof X') x = quadformR (covR ddof X) x.
Proof.
  intros Hne HX Hx HP.
  assert (Hne': X' <> []) by (intro E; subst; apply Permutation_sym, Permutation_nil in HP; contradiction).
  assert (HX': Forall (wfvR d) X') by (eapply Permutation_Forall; eauto).
  rewrite (cov_quadform d ddof X' x Hne' HX' Hx), (cov_quadform d ddof X x Hne HX Hx).
  rewrite (Permutation_length HP). f_equal. symmetry. apply ssd_perm. unfold mvmul. apply Permutation_map. exact HP.
Qed.

(* translating all samples *)
Theorem cov_translation d ddof (X : Rm) (t x : Rv) : X <> [] -> Forall (wfvR d) X -> wfvR d x -> wfvR d t ->
  quadformR (covR ddof (map (fun r => vaddR r t) X)) x = quadformR (covR ddof X) x.
Proof.
  intros Hne HX Hx Ht.
  assert (Hne': map (fun r => vaddR r t) X <> []) by (destruct X; [contradiction | discriminate]).
  assert (HX': Forall (wfvR d) (map (fun r => vaddR r t) X)).
  { apply Forall_forall. intros r Hr. apply in_map_iff in Hr as [r0 [<- Hr0]]. rewrite Forall_forall in HX.
    specialize (HX r0 Hr0). unfold wfv in *. rewrite vadd_length; rsimp; congruence. }
  rewrite (cov_quadform d ddof _ x Hne' HX' Hx), (cov_quadform d ddof X x Hne HX Hx). rewrite map_length. f_equal.
  assert (E: mvmulR (map (fun r => vaddR r t) X) x = map (fun p => p + vdotR t x) (mvmulR X x)).
  { unfold mvmul. rewrite !map_map. apply map_ext_in. intros r Hr. rewrite Forall_forall in HX. specialize (HX r Hr).
    apply vdot_vadd_l. unfold wfv in *. rsimp. congruence. }
  rewrite E. apply ssd_shift. unfold mvmul. destruct X; [contradiction | discriminate].
Qed.

(* scaling every feature by c scales the covariance by c^2 *)
Theorem cov_scaling d ddof (X : Rm) (c : R) (x : Rv) : X <> [] -> Forall (wfvR d) X -> wfvR d x ->
  quadformR (covR ddof (map (vscaleR c) X)) x = c ^ 2 * quadformR (covR ddof X) x.
Proof.
  intros Hne HX Hx.
  assert (Hne': map (vscaleR c) X <> []) by (destruct X; [contradiction | discriminate]).
  assert (HX': Forall (wfvR d) (map (vscaleR c) X)).
  { apply Forall_forall. intros r Hr. apply in_map_iff in Hr as [r0 [<- Hr0]]. rewrite Forall_forall in HX.
    specialize (HX r0 Hr0). unfold wfv in *. rewrite vscale_length. exact HX. }
  rewrite (cov_quadform d ddof _ x Hne' HX' Hx), (cov_quadform d ddof X x Hne HX Hx). rewrite map_length.
  assert (E: mvmulR (map (vscaleR c) X) x = map (fun p => c * p) (mvmulR X x)).
  { unfold mvmul. rewrite !map_map. apply map_ext. intro r. apply vdot_vscale_l. }
  rewrite E, ssd_scale. unfold Rdiv. rsimp. ring.
Qed.

(* mapping every sample through a matrix Q (rotations in particular): cov(X Q^T) = Q cov(X) Q^T,
   stated along directions: the form at x is the old form at Q^T x *)
Theorem cov_linear_map d ddof (X Q : Rm) (x : Rv) : X <> [] -> Forall (wfvR d) X -> wfvR d x ->
  Q <> [] -> length Q = d -> Forall (wfvR d) Q ->
  quadformR (covR ddof (map (mvmulR Q) X)) x = quadformR (covR ddof X) (mvmulR (transpR Q) x).
Proof.
  intros Hne HX Hx HQne HQl HQ.
  assert (Hne': map (mvmulR Q) X <> []) by (destruct X; [contradiction | discriminate]).
  assert (HX': Forall (wfvR d) (map (mvmulR Q) X)).
  { apply Forall_forall. intros r Hr. apply in_map_iff in Hr as [r0 [<- Hr0]]. unfold wfv. rewrite mvmul_length. exact HQl. }
  assert (Hx': wfvR d (mvmulR (transpR Q) x)).
  { unfold wfv. rewrite mvmul_length, (transp_is_fuel d Q HQne HQ). apply transp_fuel_length; auto. }
  rewrite (cov_quadform d ddof _ x Hne' HX' Hx), (cov_quadform d ddof X _ Hne HX Hx'). rewrite map_length.
  assert (E: mvmulR (map (mvmulR Q) X) x = mvmulR X (mvmulR (transpR Q) x)).
  { unfold mvmul at 1. rewrite map_map. unfold mvmul at 2. apply map_ext_in. intros r Hr.
    pose proof (proj1 (Forall_forall _ _) HX r Hr) as Hrr.
    rewrite (transp_is_fuel d Q HQne HQ). rewrite (vdot_comm r).
    rewrite (transp_fuel_adjoint d Q x r HQne HQ Hrr); [apply vdot_comm | unfold wfv in Hx; rsimp; congruence]. }
  rewrite E. reflexivity.
Qed.

(* ------------------------------------------------------------------ Cholesky branch of components_from_metric *)
(* L = C^T: for any C, |L x|^2 = x . C (C^T x); so a factor C with C C^T = M gives L^T L = M *)
Theorem transp_factor_form d (C : Rm) (x : Rv) : C <> [] -> length C = d -> Forall (wfvR d) C -> wfvR d x ->
  vsumsqR (mvmulR (transpR C) x) = vdotR x (mvmulR C (mvmulR (transpR C) x)).
Proof.
  intros Hne HL HC Hx. unfold vsumsq. rewrite (transp_is_fuel d C Hne HC).
  apply (transp_fuel_adjoint d C x (mvmulR (transp_fuelR d C) x) Hne HC).
  - unfold wfv. rewrite mvmul_length. apply transp_fuel_length; auto.
  - unfold wfv in Hx. rsimp. congruence.
Qed.

Theorem cfm_chol_form d (C M : Rm) (x : Rv) : C <> [] -> length C = d -> Forall (wfvR d) C -> wfvR d x ->
  (forall y, wfvR d y -> mvmulR C (mvmulR (transpR C) y) = mvmulR M y) ->
  vsumsqR (mvmulR (@cfm_chol ROps C) x) = quadformR M x.
Proof.
  intros Hne HL HC Hx HM. unfold cfm_chol, quadform.
  rewrite (transp_factor_form d C x Hne HL HC Hx), (HM x Hx). reflexivity.
Qed.
