(* C19, rotations: the documented objectives of NCA, MLKR and LMNN take the same value at (L', Q X) as at (L, X)
   whenever L' Q = L -- in particular for L' = L Q^T with Q orthogonal: mapping all points through an orthogonal
   matrix and the transformation through its transpose changes nothing, so the set of optimal Mahalanobis matrices
   is mapped by M -> Q M Q^T.  Stated in action form (no matrix product needed): the hypothesis is
   forall x, L' (Q x) = L x. *)
From Coq Require Import List Arith Bool ZArith Reals Lra Lia.
From ML Require Import Ops Vec NP VecR MatR LinAlg Objectives.
Import ListNotations.
Open Scope R_scope.

Lemma in_seq0 i n : In i (seq 0 n) -> (i < n)%nat.
Proof. intro H. apply in_seq in H. destruct H as [_ H]. exact H. Qed.

Section Rot.
  Variables (d : nat) (L L' Q : Rm).
  Hypothesis HQ : forall x, wfvR d x -> mvmulR L' (mvmulR Q x) = mvmulR L x.
  Variable ex : R -> R.

  Notation rot := (map (mvmulR Q)).

  Lemma sqd_rot (x x' : Rv) : wfvR d x -> wfvR d x' ->
    @sqd ROps L' (mvmulR Q x) (mvmulR Q x') = @sqd ROps L x x'.
  Proof.
    intros Hx Hx'. unfold sqd.
    assert (E: length x = length x') by (transitivity d; [exact Hx | symmetry; exact Hx']).
    rewrite <- (mvmul_vsub Q x x' E). rewrite HQ; [reflexivity|].
    unfold wfv. rewrite (vsub_length x x' E). exact Hx.
  Qed.

  Lemma nth_rot (X : Rm) i : (i < length X)%nat -> nth i (rot X) [] = mvmulR Q (nth i X []).
  Proof.
    intro H. rewrite (nth_indep _ [] (mvmulR Q [])) by (rewrite map_length; exact H). apply map_nth.
  Qed.

  Lemma nth_wf (X : Rm) i : Forall (wfvR d) X -> (i < length X)%nat -> wfvR d (nth i X []).
  Proof. intros HX Hi. rewrite Forall_forall in HX. apply HX, nth_In, Hi. Qed.

  Lemma kern_rot (X : Rm) i : Forall (wfvR d) X -> (i < length X)%nat ->
    @kern ROps ex L' (rot X) i = @kern ROps ex L X i.
  Proof.
    intros HX Hi. unfold kern. rewrite map_length, (nth_rot X i Hi).
    pose proof (nth_wf X i HX Hi) as Hxi. set (xi := nth i X []) in *.
    assert (G: forall s (Y : Rm), Forall (wfvR d) Y ->
      map (fun jx : nat * Rv => if Nat.eqb (fst jx) i then @o0 ROps
                                 else ex (@oopp ROps (@sqd ROps L' (mvmulR Q xi) (snd jx))))
          (combine (seq s (length Y)) (rot Y)) =
      map (fun jx : nat * Rv => if Nat.eqb (fst jx) i then @o0 ROps
                                 else ex (@oopp ROps (@sqd ROps L xi (snd jx))))
          (combine (seq s (length Y)) Y)).
    { intros s Y. revert s. induction Y as [|x Y IH]; intros s HY; cbn; auto. inversion HY; subst.
      f_equal; [|apply IH; auto]. cbn [fst snd]. destruct (Nat.eqb s i); auto.
      rewrite sqd_rot; auto. }
    apply G; exact HX.
  Qed.

  Theorem nca_obj_rot (X : Rm) (y : list Z) : Forall (wfvR d) X ->
    @nca_obj ROps ex L' (rot X) y = @nca_obj ROps ex L X y.
  Proof.
    intro HX. unfold nca_obj. rewrite map_length. f_equal. apply map_ext_in.
    intros i Hi. apply in_seq0 in Hi. cbv zeta. rewrite (kern_rot X i HX Hi). reflexivity.
  Qed.

  Theorem mlkr_obj_rot (X : Rm) (y : Rv) : Forall (wfvR d) X ->
    @mlkr_obj ROps ex L' (rot X) y = @mlkr_obj ROps ex L X y.
  Proof.
    intro HX. unfold mlkr_obj. rewrite map_length. f_equal. apply map_ext_in.
    intros i Hi. apply in_seq0 in Hi. cbv zeta. rewrite (kern_rot X i HX Hi). reflexivity.
  Qed.

  Lemma sqd_nth_rot (X : Rm) i j : Forall (wfvR d) X -> (i < length X)%nat -> (j < length X)%nat ->
    @sqd ROps L' (nth i (rot X) []) (nth j (rot X) []) = @sqd ROps L (nth i X []) (nth j X []).
  Proof. intros HX Hi Hj. rewrite !nth_rot by auto. apply sqd_rot; apply nth_wf; auto. Qed.

  Theorem lmnn_obj_rot (reg : R) (X : Rm) (y : list Z) (targets : list (list nat)) :
    Forall (wfvR d) X -> Forall (Forall (fun j => (j < length X)%nat)) targets ->
    @lmnn_obj ROps reg L' (rot X) y targets = @lmnn_obj ROps reg L X y targets.
  Proof.
    intros HX HT. unfold lmnn_obj. rewrite map_length. cbv zeta.
    assert (Hin: forall it, In it (combine (seq 0 (length X)) targets) ->
              (fst it < length X)%nat /\ Forall (fun j => (j < length X)%nat) (snd it)).
    { intros [i js] H. split.
      - apply in_combine_l in H. apply in_seq0 in H. exact H.
      - apply in_combine_r in H. rewrite Forall_forall in HT. apply HT, H. }
    f_equal; f_equal; f_equal; apply map_ext_in; intros it Hit; destruct (Hin it Hit) as [Hi Hjs];
      f_equal; apply map_ext_in; intros j Hj; rewrite Forall_forall in Hjs; specialize (Hjs j Hj).
    - apply sqd_nth_rot; auto.
    - cbv zeta. f_equal. apply map_ext_in. intros l Hl. apply in_seq0 in Hl.
      destruct (Z.eqb _ _); auto. rewrite (sqd_nth_rot X (fst it) j HX Hi Hjs), (sqd_nth_rot X (fst it) l HX Hi Hl). reflexivity.
  Qed.
End Rot.
