(* C07, pairs: soundness of the rejection-sampling loop for every random stream. *)
From Coq Require Import List Arith Bool ZArith Lia.
From ML Require Import Constraints.
Import ListNotations.

Lemma memn_In x l : memn x l = true <-> In x l.
Proof. unfold memn. rewrite existsb_exists. split.
  - intros [y [Hy E]]. apply Nat.eqb_eq in E. subst. auto.
  - intro H. exists x. split; auto. apply Nat.eqb_refl. Qed.
Lemma eqp_eq p q : eqp p q = true <-> p = q.
Proof. destruct p, q. unfold eqp. cbn. rewrite andb_true_iff, !Nat.eqb_eq. split; [intros [-> ->]; auto | intro H; inversion H; auto]. Qed.
Lemma memp_In p l : memp p l = true <-> In p l.
Proof. unfold memp. rewrite existsb_exists. split.
  - intros [y [Hy E]]. apply eqp_eq in E. subst. auto.
  - intro H. exists p. split; auto. apply eqp_eq. reflexivity. Qed.

Lemma NoDup_snoc {A} (l : list A) x : NoDup l -> ~ In x l -> NoDup (l ++ [x]).
Proof.
  induction l as [|a l IH]; intros N H; cbn.
  - constructor; [tauto | constructor].
  - inversion N; subst. constructor.
    + rewrite in_app_iff. intros [H1|[H1|[]]]; [auto | subst; apply H; left; auto].
    + apply IH; auto. intro; apply H; right; auto.
Qed.

Section Pairs.
  Variables (kl : list Z) (same : bool).
  Definition good (p : nat * nat) : Prop :=
    fst p < length kl /\ snd p < length kl /\ partner_ok kl same (fst p) (snd p) = true.

  Lemma b_choices_spec a c : memn c (b_choices kl same a) = true ->
    c < length kl /\ partner_ok kl same a c = true.
  Proof. intro H. apply memn_In in H. unfold b_choices in H. apply filter_In in H as [H1 H2].
    apply in_seq in H1. split; [lia | auto]. Qed.

  Lemma add_u_good p ab : Forall good ab -> good p -> Forall good (add_u p ab).
  Proof. intros H Hp. unfold add_u. destruct (memp p ab); auto.
    apply Forall_app. split; auto. Qed.
  Lemma add_u_nodup p ab : NoDup ab -> NoDup (add_u p ab).
  Proof. intro H. unfold add_u. destruct (memp p ab) eqn:E; auto.
    assert (~ In p ab) by (intro HI; apply memp_In in HI; congruence).
    apply NoDup_snoc; auto. Qed.
  Lemma add_u_length p ab : length (add_u p ab) <= S (length ab).
  Proof. unfold add_u. destruct (memp p ab); [lia|]. rewrite app_length. cbn. lia. Qed.

  Lemma inner_inv : forall aidxs choices ab ab',
    inner kl same aidxs choices ab = Some ab' -> Forall good ab -> NoDup ab ->
    Forall good ab' /\ NoDup ab' /\ length ab' <= length ab + length aidxs.
  Proof.
    induction aidxs as [|a rest IH]; intros choices ab ab' H G N; cbn [inner] in H.
    - destruct choices; [|discriminate]. inversion H; subst. repeat split; auto. lia.
    - destruct (a <? length kl) eqn:Ea; cbn [negb] in H; [|discriminate]. apply Nat.ltb_lt in Ea.
      destruct (b_choices kl same a) as [|b0 bc] eqn:Eb.
      + destruct (IH _ _ _ H G N) as [I1 [I2 I3]]. repeat split; auto. cbn. lia.
      + destruct choices as [|c cs]; [discriminate|].
        destruct (memn c (b0 :: bc)) eqn:Ec; [|discriminate].
        rewrite <- Eb in Ec. destruct (b_choices_spec a c Ec) as [C1 C2].
        assert (Gp: good (a, c)) by (unfold good; cbn; auto).
        destruct (IH _ _ _ H (add_u_good _ _ G Gp) (add_u_nodup _ _ N)) as [I1 [I2 I3]].
        repeat split; auto. pose proof (add_u_length (a, c) ab). cbn. lia.
  Qed.

  Lemma outer_inv n : forall iters budget ab ab',
    outer kl same n iters budget ab = Some ab' -> Forall good ab -> NoDup ab -> length ab <= n ->
    Forall good ab' /\ NoDup ab' /\ length ab' <= n.
  Proof.
    induction iters as [|[aidxs choices] more IH]; intros budget ab ab' H G N Ln; cbn [outer] in H.
    - destruct ((0 <? budget) && (length ab <? n)); [discriminate|]. inversion H; subst. auto.
    - destruct ((0 <? budget) && (length ab <? n)) eqn:Eg; [|discriminate].
      apply andb_true_iff in Eg as [_ Eg]. apply Nat.ltb_lt in Eg.
      destruct (length aidxs =? n - length ab) eqn:El; cbn [negb] in H; [|discriminate]. apply Nat.eqb_eq in El.
      destruct (inner kl same aidxs choices ab) as [ab1|] eqn:Ei; [|discriminate].
      destruct (inner_inv _ _ _ _ Ei G N) as [I1 [I2 I3]].
      apply (IH _ _ _ H I1 I2). lia.
  Qed.
End Pairs.

(* ---- the known-label frame ---- *)
Lemma known_idx_spec labels i : In i (known_idx labels) <-> i < length labels /\ (0 <= lab labels i)%Z.
Proof. unfold known_idx. rewrite filter_In, in_seq, Z.leb_le. split; intros [H1 H2]; split; auto; lia. Qed.
Lemma known_idx_nodup labels : NoDup (known_idx labels).
Proof. unfold known_idx. apply NoDup_filter, seq_NoDup. Qed.
Lemma known_labels_length labels : length (known_labels labels) = length (known_idx labels).
Proof. unfold known_labels. apply map_length. Qed.
Lemma known_labels_nth labels j : j < length (known_idx labels) ->
  nth j (known_labels labels) 0%Z = lab labels (nth j (known_idx labels) 0).
Proof. intro H. unfold known_labels.
  rewrite (nth_indep _ 0%Z (lab labels 0)) by (rewrite map_length; auto). apply map_nth. Qed.

Definition pair_ok (labels : list Z) (same : bool) (p : nat * nat) : Prop :=
  fst p < length labels /\ snd p < length labels /\
  (0 <= lab labels (fst p))%Z /\ (0 <= lab labels (snd p))%Z /\
  (if same then fst p <> snd p /\ lab labels (fst p) = lab labels (snd p)
   else lab labels (fst p) <> lab labels (snd p)).

Theorem pairs_sound labels n same max_iter iters ps warn :
  pairs_model labels n same max_iter iters = Some (ps, warn) ->
  Forall (pair_ok labels same) ps /\ NoDup ps /\ length ps <= n /\
  (warn = true <-> length ps < n).
Proof.
  unfold pairs_model. intro H.
  destruct (outer (known_labels labels) same n iters max_iter []) as [ab|] eqn:E; [|discriminate].
  inversion H; subst; clear H.
  destruct (outer_inv (known_labels labels) same n iters max_iter [] ab E (Forall_nil _) (NoDup_nil _)) as [G [N L]];
    [cbn; lia|].
  set (kidx := known_idx labels). set (f := fun p : nat * nat => (nth (fst p) kidx 0, nth (snd p) kidx 0)).
  assert (Gf: forall p, In p ab -> fst p < length kidx /\ snd p < length kidx /\
            partner_ok (known_labels labels) same (fst p) (snd p) = true).
  { intros p Hp. rewrite Forall_forall in G. destruct (G p Hp) as [G1 [G2 G3]].
    rewrite known_labels_length in G1, G2. auto. }
  split; [|split; [|split]].
  - apply Forall_forall. intros q Hq. apply in_map_iff in Hq as [p [<- Hp]].
    destruct (Gf p Hp) as [G1 [G2 G3]]. unfold f, pair_ok. cbn [fst snd].
    assert (I1: In (nth (fst p) kidx 0) kidx) by (apply nth_In; auto).
    assert (I2: In (nth (snd p) kidx 0) kidx) by (apply nth_In; auto).
    apply known_idx_spec in I1 as [A1 A2]. apply known_idx_spec in I2 as [B1 B2].
    split; auto. split; auto. split; auto. split; auto.
    unfold partner_ok in G3. rewrite !known_labels_nth in G3 by auto. fold kidx in G3.
    destruct same.
    + apply andb_true_iff in G3 as [E1 E2]. apply Z.eqb_eq in E1. apply negb_true_iff, Nat.eqb_neq in E2.
      split; [|auto]. intro Heq. apply E2.
      apply (proj1 (NoDup_nth kidx 0) (known_idx_nodup labels)); auto.
    + apply negb_true_iff, Z.eqb_neq in G3. auto.
  - (* NoDup is preserved because the frame map is injective on in-range pairs *)
    clear - N Gf. unfold kidx in *. induction ab as [|p ab IH]; cbn; [constructor|].
    inversion N as [|? ? Hn N']; subst. constructor.
    + intro Hin. apply in_map_iff in Hin as [q [Eq Hq]]. apply Hn.
      destruct (Gf p (or_introl eq_refl)) as [P1 [P2 _]]. destruct (Gf q (or_intror Hq)) as [Q1 [Q2 _]].
      unfold f in Eq. inversion Eq as [[E1 E2]].
      pose proof (proj1 (NoDup_nth (known_idx labels) 0) (known_idx_nodup labels)) as Inj.
      apply Inj in E1; auto. apply Inj in E2; auto. destruct p, q; cbn in *; subst; auto.
    + apply IH; auto. intros q Hq. apply Gf. right; auto.
  - rewrite map_length. exact L.
  - rewrite map_length. apply Nat.ltb_lt.
Qed.
