(* C12, source level: _comparison_loss, _total_loss and _gradient of lsml.py as translated into
   gen/Src_lsml.v on every run are the model's (Model/LSML.v), on which the C12 clauses are proved.
   The quadruplet list of the model is the zip of the code's arrays w_, vab, vcd. *)
From Coq Require Import String.
From Coq Require Import List Arith Bool Reals Lra Lia.
From ML Require Import Ops Vec NP VecR MatR LinAlg NPNum LSML C12Proof CovProof.
From MLgen Require Import Src_lsml.
Import ListNotations.
Open Scope R_scope.

Notation quadR := (@quad ROps).

Fixpoint zipq (w : Rv) (vab vcd : Rm) : list quadR :=
  match w, vab, vcd with
  | w0 :: w', a :: ab', c :: cd' => @Build_quad ROps a c w0 :: zipq w' ab' cd'
  | _, _, _ => []
  end.

Lemma vsum_mul_vdot : forall a b : Rv, @vsum ROps (map2 (omul ROps) a b) = vdotR a b.
Proof. induction a as [|x a IH]; intros [|y b]; cbn; auto. rewrite IH. reflexivity. Qed.

(* np.sum(V.dot(M) * V, axis=1) is the vector of quadratic forms v^T M v *)
Lemma rows_quadform d (M : Rm) (V : Rm) : wfmR d d M -> Forall (wfvR d) V ->
  @nn_sum_rows ROps (@nn_mul_mm ROps (@nn_dot_mm ROps V M) V) = map (quadformR M) V.
Proof.
  intros [HL HM] HV. unfold nn_sum_rows, nn_mul_mm, nn_dot_mm, mmulg.
  induction V as [|r V IH]; [reflexivity|].
  pose proof (Forall_inv HV) as Hr. pose proof (Forall_inv_tail HV) as HV'. cbn [map map2]. f_equal; [|apply IH; auto].
  rewrite vsum_mul_vdot. unfold quadform.
  destruct M as [|m0 M'].
  - cbn in HL. subst d. destruct r; [reflexivity|discriminate].
  - replace (map (vdotR r) (transpR (m0 :: M'))) with (mvmulR (transpR (m0 :: M')) r).
    + rewrite (transp_is_fuel d (m0 :: M')) by (auto; discriminate).
      apply transp_fuel_adjoint; auto; try discriminate.
      unfold wfv in Hr. transitivity d; [exact Hr | symmetry; exact HL].
    + unfold mvmul. apply map_ext. intro row. apply vdot_comm.
Qed.

Lemma mask_false {A} (m : list bool) (l : list A) : Forall (fun b => b = false) m -> nn_mask m l = [].
Proof. revert l. induction m as [|b m IH]; intros [|x l] H; cbn; auto. inversion H; subst. apply IH; auto. Qed.

(* ---- comparison loss ---- *)
Definition mloss (w da dc : Rv) : R :=
  let viol := @nn_gt_vv ROps da dc in
  @nn_dot_vv ROps (nn_mask viol w)
    (@nn_square_v ROps (@nn_sub_vv ROps (@nn_sqrt_v ROps (nn_mask viol da)) (@nn_sqrt_v ROps (nn_mask viol dc)))).

Lemma mloss_model (M : Rm) : forall (w : Rv) (vab vcd : Rm), length w = length vab -> length vab = length vcd ->
  mloss w (map (quadformR M) vab) (map (quadformR M) vcd) = @comparison_loss ROps M (zipq w vab vcd).
Proof.
  unfold mloss, comparison_loss.
  induction w as [|w0 w IH]; intros [|a vab] [|c vcd] H1 H2; try discriminate; try reflexivity.
  cbn [map zipq nn_gt_vv map2 nn_mask]. cbn in H1, H2.
  specialize (IH vab vcd ltac:(lia) ltac:(lia)).
  unfold hinge at 1, violated, dM. cbn [qab qcd qw].
  destruct (oltb ROps (quadformR M c) (quadformR M a)).
  - cbn [nn_mask nn_sqrt_v map nn_sub_vv vsub nn_square_v nn_dot_vv vdot vsum].
    f_equal. exact IH.
  - etransitivity; [exact IH|]. cbn. rsimp.
    match goal with |- ?z = _ => generalize z end. intro z. rsimp. lra.
Qed.

Theorem src_comparison_loss_eq d (w : Rv) (M vab vcd : Rm) :
  wfmR d d M -> Forall (wfvR d) vab -> Forall (wfvR d) vcd -> length w = length vab -> length vab = length vcd ->
  @lsml_comparison_loss ROps w M vab vcd = @comparison_loss ROps M (zipq w vab vcd).
Proof.
  intros HM Hab Hcd H1 H2. unfold lsml_comparison_loss.
  rewrite (rows_quadform d M vab HM Hab), (rows_quadform d M vcd HM Hcd).
  apply (mloss_model M w vab vcd H1 H2).
Qed.

(* ---- total loss: np.sum(metric * prior_inv) is tr(M P); slogdet returns sign = 1 for a positive definite metric ---- *)
Lemma sum_mul_trace_prod : forall (M P : Rm), @nn_sum_m ROps (@nn_mul_mm ROps M P) = @trace_prod ROps M P.
Proof.
  unfold nn_sum_m, nn_mul_mm, trace_prod. induction M as [|r M IH]; intros [|s P]; cbn; auto.
  rewrite IH, vsum_mul_vdot. reflexivity.
Qed.

Theorem src_total_loss_eq d (w : Rv) (logdet : R) (M vab vcd P : Rm) :
  wfmR d d M -> Forall (wfvR d) vab -> Forall (wfvR d) vcd -> length w = length vab -> length vab = length vcd ->
  @lsml_total_loss ROps w 1 logdet M vab vcd P = @total_loss ROps M P logdet (zipq w vab vcd).
Proof.
  intros HM Hab Hcd H1 H2. unfold lsml_total_loss, total_loss.
  rewrite (src_comparison_loss_eq d w M vab vcd HM Hab Hcd H1 H2), sum_mul_trace_prod.
  cbn. rsimp. f_equal. ring.
Qed.

(* ---- gradient ---- *)
Lemma vscale_vadd_vscale (w a b : R) : forall u v : Rv,
  vscaleR w (vaddR (vscaleR a u) (vscaleR b v)) = vaddR (vscaleR (w * a) u) (vscaleR (w * b) v).
Proof. induction u as [|x u IH]; intros [|y v]; cbn; auto. rewrite IH. f_equal. rsimp. ring. Qed.

(* one pass of the loop body adds the model's term of that constraint (as linear maps) *)
Theorem src_grad_step_action d (G M : Rm) (q : quadR) (x : Rv) :
  wfmR d d G -> wfvR d (qab q) -> wfvR d (qcd q) -> wfvR d x ->
  mvmulR (@lsml_grad_step ROps G (qw q) (qab q) (@dM ROps M (qab q)) (qcd q) (@dM ROps M (qcd q))) x =
  vaddR (mvmulR G x) (mvmulR (@grad_term ROps M q) x) /\
  wfmR d d (@lsml_grad_step ROps G (qw q) (qab q) (@dM ROps M (qab q)) (qcd q) (@dM ROps M (qcd q))).
Proof.
  intros HG Ha Hc Hx. unfold lsml_grad_step, grad_term, nn_add_mm, nn_mul_sm, nn_outer.
  set (ca := osub ROps (oint 1) (osqrt ROps (odiv ROps (@dM ROps M (qcd q)) (@dM ROps M (qab q))))).
  set (cc := osub ROps (oint 1) (osqrt ROps (odiv ROps (@dM ROps M (qab q)) (@dM ROps M (qcd q))))).
  assert (Wa: wfmR d d (outerR (qab q) (qab q))) by (apply outer_wfm_kd; auto).
  assert (Wc: wfmR d d (outerR (qcd q) (qcd q))) by (apply outer_wfm_kd; auto).
  assert (W1: wfmR d d (maddR (mscaleR ca (outerR (qab q) (qab q))) (mscaleR cc (outerR (qcd q) (qcd q)))))
    by (apply madd_wfm; apply mscale_wfm; auto).
  split.
  - rewrite (mvmul_madd_kd d d) by (auto; apply mscale_wfm; auto).
    f_equal.
    rewrite mvmul_mscale.
    rewrite (mvmul_madd_kd d d) by (apply mscale_wfm; auto).
    rewrite (mvmul_madd_kd d d) by (apply mscale_wfm; auto).
    rewrite !mvmul_mscale, !mvmul_outer.
    fold ca cc.
    apply vscale_vadd_vscale.
  - apply madd_wfm; auto. apply mscale_wfm; auto.
Qed.

(* when every constraint holds under M the loop body is never entered: the gradient is P - M^-1 *)
Theorem src_gradient_satisfied d (w : Rv) (Minv M vab vcd P : Rm) :
  wfmR d d M -> Forall (wfvR d) vab -> Forall (wfvR d) vcd -> length w = length vab -> length vab = length vcd ->
  Forall (fun q => @violated ROps M q = false) (zipq w vab vcd) ->
  @lsml_gradient ROps w Minv M vab vcd P = map2 vsubR P Minv.
Proof.
  intros HM Hab Hcd H1 H2 Hsat. unfold lsml_gradient.
  rewrite (rows_quadform d M vab HM Hab), (rows_quadform d M vcd HM Hcd).
  assert (F: Forall (fun b => b = false) (@nn_gt_vv ROps (map (quadformR M) vab) (map (quadformR M) vcd))).
  { clear - H1 H2 Hsat. revert vab vcd H1 H2 Hsat.
    induction w as [|w0 w IH]; intros [|a vab] [|c vcd] H1 H2 Hs; try discriminate; cbn; constructor.
    - inversion Hs; subst. assumption.
    - cbn in H1, H2. inversion Hs; subst. apply (IH vab vcd); auto; lia. }
  rewrite !(mask_false _ _ F). reflexivity.
Qed.

Lemma lsml_skeleton_ok : lsml_skeleton =
  [ "vab = quadruplets[:, 0, :] - quadruplets[:, 1, :]"
  ; "vcd = quadruplets[:, 2, :] - quadruplets[:, 3, :]"
  ; "if vab.shape != vcd.shape:"
  ; "  raise"
  ; "if weights is None:"
  ; "  self.w_ = np.ones(vab.shape[0])"
  ; "else:"
  ; "  self.w_ = np.array(weights, dtype=float)"
  ; "self.w_ /= self.w_.sum()"
  ; "M, prior_inv = _initialize_metric_mahalanobis(quadruplets, self.prior, return_inverse=True, strict_pd=True, matrix_name='prior', random_state=self.random_state)"
  ; "step_sizes = np.logspace(-10, 0, 10)"
  ; "l_best = 0"
  ; "s_best = self._total_loss(M, vab, vcd, prior_inv)"
  ; "for it in range(1, self.max_iter + 1):"
  ; "  grad = self._gradient(M, vab, vcd, prior_inv)"
  ; "  grad_norm = scipy.linalg.norm(grad)"
  ; "  if grad_norm < self.tol:"
  ; "    break"
  ; "  M_best = None"
  ; "  for step_size in step_sizes:"
  ; "    step_size /= grad_norm"
  ; "    new_metric = M - step_size * grad"
  ; "    w, v = scipy.linalg.eigh(new_metric)"
  ; "    new_metric = v.dot((np.maximum(w, 1e-08) * v).T)"
  ; "    cur_s = self._total_loss(new_metric, vab, vcd, prior_inv)"
  ; "    if cur_s < s_best:"
  ; "      l_best = step_size"
  ; "      s_best = cur_s"
  ; "      M_best = new_metric"
  ; "  if M_best is None:"
  ; "    break"
  ; "  M = M_best"
  ; "self.n_iter_ = it"
  ; "self.components_ = components_from_metric(M)" ]%string.
Proof. reflexivity. Qed.

(* ---- the descent loop of _fit as translated: it is the model's search / descend, for any carrier ---- *)
Lemma src_try_fold_is_search {O : Ops} : forall (cands : list (T O * list (list (T O)))) s (Mb : option (list (list (T O)))),
  fold_left (@lsml_try O) cands (s, Mb) = @search O s Mb cands.
Proof.
  induction cands as [|[c Mc] cands IH]; intros s Mb; [reflexivity|].
  cbn [fold_left search]. unfold lsml_try at 2. destruct (oltb O c s); apply IH.
Qed.

Theorem src_descent_is_descend {O : Ops} : forall (iters : list (list (T O * list (list (T O))))) s M,
  @lsml_descent O s M iters = @descend O s M iters.
Proof.
  induction iters as [|cands iters IH]; intros s M; [reflexivity|].
  cbn [lsml_descent descend]. unfold lsml_iteration. rewrite src_try_fold_is_search.
  destruct (@search O s None cands) as [s' [M'|]]; [apply IH | reflexivity].
Qed.

(* ---- the whole gradient: the translated _gradient acts on every vector as the model's gradient ---- *)
Lemma vadd_comm_R : forall u v : Rv, vaddR u v = vaddR v u.
Proof. induction u as [|a u IH]; intros [|b v]; cbn; auto. rewrite IH. f_equal. rsimp. ring. Qed.
Lemma vadd_assoc_R : forall u v w : Rv, vaddR u (vaddR v w) = vaddR (vaddR u v) w.
Proof. induction u as [|a u IH]; intros [|b v] [|c w]; cbn; auto. rewrite IH. f_equal. rsimp. ring. Qed.

Lemma grad_term_wfm d (M : Rm) (q : quadR) : wfvR d (qab q) -> wfvR d (qcd q) -> wfmR d d (@grad_term ROps M q).
Proof. intros Ha Hc. unfold grad_term. apply madd_wfm; apply mscale_wfm; apply outer_wfm_kd; auto. Qed.

Lemma sub_mm_wfm d : forall (P Q : Rm), wfmR d d P -> wfmR d d Q -> wfmR d d (map2 vsubR P Q).
Proof.
  intros P Q [HP1 HP2] [HQ1 HQ2].
  assert (L: length P = length Q) by (transitivity d; [exact HP1 | symmetry; exact HQ1]).
  clear HQ1. split.
  - rewrite <- HP1. clear HP1 HP2 HQ2. revert Q L. induction P as [|p P IH]; intros [|q Q] L; cbn in *; try discriminate; auto.
  - clear HP1. revert Q L HQ2. induction P as [|p P IH]; intros [|q Q] L HQ2; cbn in *; try discriminate; try constructor.
    + inversion HP2; inversion HQ2; subst. unfold wfv in *. match goal with Hp : length p = d, Hq : length q = d |- _ => etransitivity; [apply vsub_length; transitivity d; [exact Hp | symmetry; exact Hq] | exact Hp] end.
    + inversion HP2; inversion HQ2; subst. apply IH; auto.
Qed.

(* the terms the violated constraints contribute along x, in the order of the constraints *)
Definition gterms (M : Rm) (x : Rv) (qs : list quadR) : list Rv :=
  map (fun q => mvmulR (@grad_term ROps M q) x) (filter (@violated ROps M) qs).

Lemma model_gradient_action d (M P Minv : Rm) (x : Rv) : wfmR d d P -> wfmR d d Minv -> wfvR d x ->
  forall qs : list quadR, Forall (fun q => wfvR d (qab q) /\ wfvR d (qcd q)) qs ->
  mvmulR (@gradient ROps d M P Minv qs) x = fold_right vaddR (mvmulR (map2 vsubR P Minv) x) (gterms M x qs) /\
  wfmR d d (@gradient ROps d M P Minv qs).
Proof.
  intros HP HI Hx. induction qs as [|q qs IH]; intro H.
  - cbn. split; [reflexivity | apply sub_mm_wfm; assumption].
  - inversion H as [|? ? [Ha Hc] H']; subst. destruct (IH H') as [E W].
    unfold gradient in *. cbn [fold_right]. unfold gterms. cbn [filter]. destruct (@violated ROps M q).
    + cbn [map fold_right]. split.
      * rewrite (mvmul_madd_kd d d) by (auto; apply grad_term_wfm; auto). rewrite E. reflexivity.
      * apply madd_wfm; [apply grad_term_wfm; auto | exact W].
    + split; assumption.
Qed.

Lemma src_loop_action d (M : Rm) (x : Rv) : wfvR d x ->
  forall (w : Rv) (vab vcd G : Rm), wfmR d d G -> Forall (wfvR d) vab -> Forall (wfvR d) vcd -> length w = length vab -> length vab = length vcd ->
  let viol := @nn_gt_vv ROps (map (quadformR M) vab) (map (quadformR M) vcd) in
  mvmulR (@lsml_grad_loop ROps G (nn_mask viol w) (nn_mask viol vab) (nn_mask viol (map (quadformR M) vab))
                          (nn_mask viol vcd) (nn_mask viol (map (quadformR M) vcd))) x =
  fold_left vaddR (gterms M x (zipq w vab vcd)) (mvmulR G x).
Proof.
  intros Hx. induction w as [|w0 w IH]; intros [|a vab] [|c vcd] G HG Hab Hcd L1 L2; cbn in L1, L2; try discriminate.
  - reflexivity.
  - cbv zeta. cbn [map nn_gt_vv map2 zipq]. unfold gterms. cbn [filter].
    inversion Hab as [|? ? Ha Hab']; inversion Hcd as [|? ? Hc Hcd']; subst.
    change (@violated ROps M (@Build_quad ROps a c w0)) with (oltb ROps (quadformR M c) (quadformR M a)).
    destruct (oltb ROps (quadformR M c) (quadformR M a)) eqn:E.
    + cbn [nn_mask lsml_grad_loop map fold_left].
      pose (q := @Build_quad ROps a c w0).
      destruct (src_grad_step_action d G M q x HG Ha Hc Hx) as [EA WA]. cbn [qw qab qcd q] in EA, WA. unfold dM in EA, WA.
      etransitivity; [apply (IH vab vcd _ WA Hab' Hcd'); lia|].
      f_equal. exact EA.
    + cbn [nn_mask]. apply (IH vab vcd G HG Hab' Hcd'); lia.
Qed.

Theorem src_gradient_action d (w : Rv) (Minv M vab vcd P : Rm) (x : Rv) :
  wfmR d d M -> wfmR d d P -> wfmR d d Minv -> Forall (wfvR d) vab -> Forall (wfvR d) vcd -> length w = length vab -> length vab = length vcd ->
  wfvR d x ->
  mvmulR (@lsml_gradient ROps w Minv M vab vcd P) x = mvmulR (@gradient ROps d M P Minv (zipq w vab vcd)) x.
Proof.
  intros HM HP HI Hab Hcd L1 L2 Hx. unfold lsml_gradient.
  rewrite (rows_quadform d M vab HM Hab), (rows_quadform d M vcd HM Hcd).
  unfold nn_sub_mm.
  etransitivity; [exact (src_loop_action d M x Hx w vab vcd (map2 vsubR P Minv) (sub_mm_wfm d P Minv HP HI) Hab Hcd L1 L2)|].
  assert (QW: Forall (fun q : quadR => wfvR d (qab q) /\ wfvR d (qcd q)) (zipq w vab vcd)).
  { clear - Hab Hcd. revert vab vcd Hab Hcd. induction w as [|w0 w IH]; intros [|a vab] [|c vcd] Ha Hc; cbn [zipq]; try constructor.
    - inversion Ha; inversion Hc; subst. split; assumption.
    - inversion Ha; inversion Hc; subst. apply IH; assumption. }
  rewrite (proj1 (model_gradient_action d M P Minv x HP HI Hx _ QW)).
  apply fold_symmetric; [intros; apply vadd_assoc_R | intros; apply vadd_comm_R].
Qed.
