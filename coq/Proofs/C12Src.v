(* C12, source level: _comparison_loss, _total_loss and _gradient of lsml.py as translated into
   gen/Src_lsml.v on every run are the model's (Model/LSML.v), on which the C12 clauses are proved.
   The quadruplet list of the model is the zip of the code's arrays w_, vab, vcd. *)
From Coq Require Import String.
From Coq Require Import List Arith Bool Reals Lra Lia.
From ML Require Import Ops Vec NP VecR MatR LinAlg NPNum LSML C12Proof CovProof.
From MLgen Require Import Src_lsml.
Import ListNotations.
Open Scope R_scope.

Notation quadR := (@quad ROps).

Fixpoint zipq (w : Rv) (vab vcd : Rm) : list quadR :=
  match w, vab, vcd with
  | w0 :: w', a :: ab', c :: cd' => @Build_quad ROps a c w0 :: zipq w' ab' cd'
  | _, _, _ => []
  end.

Lemma vsum_mul_vdot : forall a b : Rv, @vsum ROps (map2 (omul ROps) a b) = vdotR a b.
Proof. induction a as [|x a IH]; intros [|y b]; cbn; auto. rewrite IH. reflexivity. Qed.

(* np.sum(V.dot(M) * V, axis=1) is the vector of quadratic forms v^T M v *)
Lemma rows_quadform d (M : Rm) (V : Rm) : wfmR d d M -> Forall (wfvR d) V ->
  @nn_sum_rows ROps (@nn_mul_mm ROps (@nn_dot_mm ROps V M) V) = map (quadformR M) V.
Proof.
  intros [HL HM] HV. unfold nn_sum_rows, nn_mul_mm, nn_dot_mm, mmulg.
  induction V as [|r V IH]; [reflexivity|].
  pose proof (Forall_inv HV) as Hr. pose proof (Forall_inv_tail HV) as HV'. cbn [map map2]. f_equal; [|apply IH; auto].
  rewrite vsum_mul_vdot. unfold quadform.
  destruct M as [|m0 M'].
  - cbn in HL. subst d. destruct r; [reflexivity|discriminate].
  - replace (map (vdotR r) (transpR (m0 :: M'))) with (mvmulR (transpR (m0 :: M')) r).
    + rewrite (transp_is_fuel d (m0 :: M')) by (auto; discriminate).
      apply transp_fuel_adjoint; auto; try discriminate.
      unfold wfv in Hr. transitivity d; [exact Hr | symmetry; exact HL].
    + unfold mvmul. apply map_ext. intro row. apply vdot_comm.
Qed.

Lemma mask_false {A} (m : list bool) (l : list A) : Forall (fun b => b = false) m -> nn_mask m l = [].
Proof. revert l. induction m as [|b m IH]; intros [|x l] H; cbn; auto. inversion H; subst. apply IH; auto. Qed.

(* ---- comparison loss ---- *)
Definition mloss (w da dc : Rv) : R :=
  let viol := @nn_gt_vv ROps da dc in
  @nn_dot_vv ROps (nn_mask viol w)
    (@nn_square_v ROps (@nn_sub_vv ROps (@nn_sqrt_v ROps (nn_mask viol da)) (@nn_sqrt_v ROps (nn_mask viol dc)))).

Lemma mloss_model (M : Rm) : forall (w : Rv) (vab vcd : Rm), length w = length vab -> length vab = length vcd ->
  mloss w (map (quadformR M) vab) (map (quadformR M) vcd) = @comparison_loss ROps M (zipq w vab vcd).
Proof.
  unfold mloss, comparison_loss.
  induction w as [|w0 w IH]; intros [|a vab] [|c vcd] H1 H2; try discriminate; try reflexivity.
  cbn [map zipq nn_gt_vv map2 nn_mask]. cbn in H1, H2.
  specialize (IH vab vcd ltac:(lia) ltac:(lia)).
  unfold hinge at 1, violated, dM. cbn [qab qcd qw].
  destruct (oltb ROps (quadformR M c) (quadformR M a)).
  - cbn [nn_mask nn_sqrt_v map nn_sub_vv vsub nn_square_v nn_dot_vv vdot vsum].
    f_equal. exact IH.
  - etransitivity; [exact IH|]. cbn. rsimp.
    match goal with |- ?z = _ => generalize z end. intro z. rsimp. lra.
Qed.

Theorem src_comparison_loss_eq d (w : Rv) (M vab vcd : Rm) :
  wfmR d d M -> Forall (wfvR d) vab -> Forall (wfvR d) vcd -> length w = length vab -> length vab = length vcd ->
  @lsml_comparison_loss ROps w M vab vcd = @comparison_loss ROps M (zipq w vab vcd).
Proof.
  intros HM Hab Hcd H1 H2. unfold lsml_comparison_loss.
  rewrite (rows_quadform d M vab HM Hab), (rows_quadform d M vcd HM Hcd).
  apply (mloss_model M w vab vcd H1 H2).
Qed.

(* ---- total loss: np.sum(metric * prior_inv) is tr(M P); slogdet returns sign = 1 for a positive definite metric ---- *)
Lemma sum_mul_trace_prod : forall (M P : Rm), @nn_sum_m ROps (@nn_mul_mm ROps M P) = @trace_prod ROps M P.
Proof.
  unfold nn_sum_m, nn_mul_mm, trace_prod. induction M as [|r M IH]; intros [|s P]; cbn; auto.
  rewrite IH, vsum_mul_vdot. reflexivity.
Qed.

Theorem src_total_loss_eq d (w : Rv) (logdet : R) (M vab vcd P : Rm) :
  wfmR d d M -> Forall (wfvR d) vab -> Forall (wfvR d) vcd -> length w = length vab -> length vab = length vcd ->
  @lsml_total_loss ROps w 1 logdet M vab vcd P = @total_loss ROps M P logdet (zipq w vab vcd).
Proof.
  intros HM Hab Hcd H1 H2. unfold lsml_total_loss, total_loss.
  rewrite (src_comparison_loss_eq d w M vab vcd HM Hab Hcd H1 H2), sum_mul_trace_prod.
  cbn. rsimp. f_equal. ring.
Qed.

(* ---- gradient ---- *)
Lemma vscale_vadd_vscale (w a b : R) : forall u v : Rv,
  vscaleR w (vaddR (vscaleR a u) (vscaleR b v)) = vaddR (vscaleR (w * a) u) (vscaleR (w * b) v).
Proof. induction u as [|x u IH]; intros [|y v]; cbn; auto. rewrite IH. f_equal. rsimp. ring. Qed.

(* one pass of the loop body adds the model's term of that constraint (as linear maps) *)
Theorem src_grad_step_action d (G M : Rm) (q : quadR) (x : Rv) :
  wfmR d d G -> wfvR d (qab q) -> wfvR d (qcd q) -> wfvR d x ->
  mvmulR (@lsml_grad_step ROps G (qw q) (qab q) (@dM ROps M (qab q)) (qcd q) (@dM ROps M (qcd q))) x =
  vaddR (mvmulR G x) (mvmulR (@grad_term ROps M q) x) /\
  wfmR d d (@lsml_grad_step ROps G (qw q) (qab q) (@dM ROps M (qab q)) (qcd q) (@dM ROps M (qcd q))).
Proof.
  intros HG Ha Hc Hx. unfold lsml_grad_step, grad_term, nn_add_mm, nn_mul_sm, nn_outer.
  set (ca := osub ROps (oint 1) (osqrt ROps (odiv ROps (@dM ROps M (qcd q)) (@dM ROps M (qab q))))).
  set (cc := osub ROps (oint 1) (osqrt ROps (odiv ROps (@dM ROps M (qab q)) (@dM ROps M (qcd q))))).
  assert (Wa: wfmR d d (outerR (qab q) (qab q))) by (apply outer_wfm_kd; auto).
  assert (Wc: wfmR d d (outerR (qcd q) (qcd q))) by (apply outer_wfm_kd; auto).
  assert (W1: wfmR d d (maddR (mscaleR ca (outerR (qab q) (qab q))) (mscaleR cc (outerR (qcd q) (qcd q)))))
    by (apply madd_wfm; apply mscale_wfm; auto).
  split.
  - rewrite (mvmul_madd_kd d d) by (auto; apply mscale_wfm; auto).
    f_equal.
    rewrite mvmul_mscale.
    rewrite (mvmul_madd_kd d d) by (apply mscale_wfm; auto).
    rewrite (mvmul_madd_kd d d) by (apply mscale_wfm; auto).
    rewrite !mvmul_mscale, !mvmul_outer.
    fold ca cc.
    apply vscale_vadd_vscale.
  - apply madd_wfm; auto. apply mscale_wfm; auto.
Qed.

(* when every constraint holds under M the loop body is never entered: the gradient is P - M^-1 *)
Theorem src_gradient_satisfied d (w : Rv) (Minv M vab vcd P : Rm) :
  wfmR d d M -> Forall (wfvR d) vab -> Forall (wfvR d) vcd -> length w = length vab -> length vab = length vcd ->
  Forall (fun q => @violated ROps M q = false) (zipq w vab vcd) ->
  @lsml_gradient ROps w Minv M vab vcd P = map2 vsubR P Minv.
Proof.
  intros HM Hab Hcd H1 H2 Hsat. unfold lsml_gradient.
  rewrite (rows_quadform d M vab HM Hab), (rows_quadform d M vcd HM Hcd).
  assert (F: Forall (fun b => b = false) (@nn_gt_vv ROps (map (quadformR M) vab) (map (quadformR M) vcd))).
  { clear - H1 H2 Hsat. revert vab vcd H1 H2 Hsat.
    induction w as [|w0 w IH]; intros [|a vab] [|c vcd] H1 H2 Hs; try discriminate; cbn; constructor.
    - inversion Hs; subst. assumption.
    - cbn in H1, H2. inversion Hs; subst. apply (IH vab vcd); auto; lia. }
  rewrite !(mask_false _ _ F). reflexivity.
Qed.

Lemma lsml_skeleton_ok : lsml_skeleton =
  [ "vab = quadruplets[:, 0, :] - quadruplets[:, 1, :]"
  ; "vcd = quadruplets[:, 2, :] - quadruplets[:, 3, :]"
  ; "if vab.shape != vcd.shape:"
  ; "  raise"
  ; "if weights is None:"
  ; "  self.w_ = np.ones(vab.shape[0])"
  ; "else:"
  ; "  self.w_ = np.array(weights, dtype=float)"
  ; "self.w_ /= self.w_.sum()"
  ; "M, prior_inv = _initialize_metric_mahalanobis(quadruplets, self.prior, return_inverse=True, strict_pd=True, matrix_name='prior', random_state=self.random_state)"
  ; "step_sizes = np.logspace(-10, 0, 10)"
  ; "l_best = 0"
  ; "s_best = self._total_loss(M, vab, vcd, prior_inv)"
  ; "for it in range(1, self.max_iter + 1):"
  ; "  grad = self._gradient(M, vab, vcd, prior_inv)"
  ; "  grad_norm = scipy.linalg.norm(grad)"
  ; "  if grad_norm < self.tol:"
  ; "    break"
  ; "  M_best = None"
  ; "  for step_size in step_sizes:"
  ; "    step_size /= grad_norm"
  ; "    new_metric = M - step_size * grad"
  ; "    w, v = scipy.linalg.eigh(new_metric)"
  ; "    new_metric = v.dot((np.maximum(w, 1e-08) * v).T)"
  ; "    cur_s = self._total_loss(new_metric, vab, vcd, prior_inv)"
  ; "    if cur_s < s_best:"
  ; "      l_best = step_size"
  ; "      s_best = cur_s"
  ; "      M_best = new_metric"
  ; "  if M_best is None:"
  ; "    break"
  ; "  M = M_best"
  ; "self.n_iter_ = it"
  ; "self.components_ = components_from_metric(M)" ]%string.
Proof. reflexivity. Qed.

(* ---- the descent loop of _fit as translated: it is the model's search / descend, for any carrier ---- *)
Lemma src_try_fold_is_search {O : Ops} : forall (cands : list (T O * list (list (T O)))) s (Mb : option (list (list (T O)))),
  fold_left (@lsml_try O) cands (s, Mb) = @search O s Mb cands.
Proof.
  induction cands as [|[c Mc] cands IH]; intros s Mb; [reflexivity|].
  cbn [fold_left search]. unfold lsml_try at 2. destruct (oltb O c s); apply IH.
Qed.

Theorem src_descent_is_descend {O : Ops} : forall (iters : list (list (T O * list (list (T O))))) s M,
  @lsml_descent O s M iters = @descend O s M iters.
Proof.
  induction iters as [|cands iters IH]; intros s M; [reflexivity|].
  cbn [lsml_descent descend]. unfold lsml_iteration. rewrite src_try_fold_is_search.
  destruct (@search O s None cands) as [s' [M'|]]; [apply IH | reflexivity].
Qed.
