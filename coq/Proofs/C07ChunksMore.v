(* C07, chunks, continued: no point is put in two chunks, and exactly n_chunks chunks of chunk_size
   members are formed whenever the request is feasible -- for every random stream. *)
From Coq Require Import List Arith Bool ZArith Lia Permutation.
From ML Require Import Constraints C07Pairs C07Chunks.
Import ListNotations.

(* ------------------------------------------------------------------ list facts *)
Lemma NoDup_app_iff {A} (l1 l2 : list A) :
  NoDup (l1 ++ l2) <-> NoDup l1 /\ NoDup l2 /\ (forall x, In x l1 -> In x l2 -> False).
Proof.
  induction l1 as [|a l1 IH]; cbn.
  - split.
    + intro H. split; [constructor|]. split; [exact H|]. intros x [].
    + intros [_ [H _]]. exact H.
  - split.
    + intro H. inversion H as [|? ? Hn Hd]; subst. apply IH in Hd as [D1 [D2 D3]].
      split; [constructor; auto; intro Ha; apply Hn, in_or_app; auto|]. split; [auto|].
      intros x [->|Hx] Hy; [apply Hn, in_or_app; auto | eapply D3; eauto].
    + intros [H1 [H2 H3]]. inversion H1 as [|? ? Hn Hd]; subst. constructor.
      * intro Ha. apply in_app_or in Ha as [Ha|Ha]; [auto | apply (H3 a); auto].
      * apply IH. repeat split; auto. intros x Hx Hy. apply (H3 x); auto.
Qed.

Lemma NoDup_drop_mid {A} (a m r : list A) : NoDup (a ++ m ++ r) -> NoDup (a ++ r) /\ NoDup m.
Proof.
  intro H. apply NoDup_app_iff in H as [H1 [H2 H3]]. apply NoDup_app_iff in H2 as [H4 [H5 H6]].
  split; [|exact H4]. apply NoDup_app_iff. split; [auto|]. split; [auto|].
  intros x Hx Hy. apply (H3 x); auto. apply in_or_app. auto.
Qed.

Lemma concat_remove_nth {A} : forall c (l : list (list A)), c < length l ->
  Permutation (concat l) (nth c l [] ++ concat (remove_nth c l)).
Proof.
  induction c as [|c IH]; intros [|x l] H; cbn in *; try lia; [reflexivity|].
  rewrite (IH l) by lia. rewrite !app_assoc. apply Permutation_app_tail. apply Permutation_app_comm.
Qed.

Lemma concat_replace_nth {A} : forall c (x : list A) (l : list (list A)), c < length l ->
  Permutation (concat (replace_nth c x l)) (x ++ concat (remove_nth c l)).
Proof.
  induction c as [|c IH]; intros x [|y l] H; cbn in *; try lia; [reflexivity|].
  rewrite (IH x l) by lia. rewrite !app_assoc. apply Permutation_app_tail. apply Permutation_app_comm.
Qed.

Lemma remove_all_split (ii inds : list nat) : NoDup inds -> NoDup ii -> (forall i, In i ii -> In i inds) ->
  Permutation inds (ii ++ remove_all ii inds).
Proof.
  intros Hn Hi Hsub. apply NoDup_Permutation; auto.
  - apply NoDup_app_iff. split; [auto|]. split; [apply NoDup_filter; auto|].
    intros x Hx Hy. apply filter_In in Hy as [_ Hy]. apply negb_true_iff in Hy.
    assert (memn x ii = true) by (apply memn_In; auto). congruence.
  - intros x. rewrite in_app_iff. unfold remove_all. rewrite filter_In. split.
    + intro Hx. destruct (memn x ii) eqn:E; [left; apply memn_In; auto | right; split; auto].
    + intros [Hx|[Hx _]]; auto.
Qed.

Lemma remove_all_length (ii inds : list nat) : NoDup inds -> NoDup ii -> (forall i, In i ii -> In i inds) ->
  length (remove_all ii inds) = length inds - length ii.
Proof.
  intros Hn Hi Hsub. pose proof (Permutation_length (remove_all_split ii inds Hn Hi Hsub)) as H.
  rewrite app_length in H. lia.
Qed.

Lemma nodupb_NoDup : forall l, nodupb l = true -> NoDup l.
Proof.
  induction l as [|x l IH]; cbn; intro H; constructor; apply andb_true_iff in H as [H1 H2]; auto.
  intro Hx. apply memn_In in Hx. rewrite Hx in H1. discriminate.
Qed.

(* ------------------------------------------------------------------ potential: chunks still available *)
Definition pot (cs : nat) (l : list (list nat)) : nat := fold_right (fun s acc => length s / cs + acc) 0 l.

Lemma pot_remove_nth cs : forall c l, c < length l -> pot cs l = length (nth c l []) / cs + pot cs (remove_nth c l).
Proof. unfold pot. induction c as [|c IH]; intros [|x l] H; cbn in *; try lia. rewrite (IH l) by lia. lia. Qed.
Lemma pot_replace_nth cs : forall c x l, c < length l -> pot cs (replace_nth c x l) = length x / cs + pot cs (remove_nth c l).
Proof. unfold pot. induction c as [|c IH]; intros x [|y l] H; cbn in *; try lia. rewrite (IH x l) by lia. lia. Qed.
Lemma pot_nil_length cs l : length l = 0 -> pot cs l = 0.
Proof. destruct l; cbn; auto; discriminate. Qed.

Section More.
  Variable chunk_size n_chunks : nat.
  Hypothesis Hcs : 0 < chunk_size.

  Definition cnt (k : nat) (acc : list (nat * nat)) : nat := length (filter (fun p => Nat.eqb (snd p) k) acc).

  Lemma chunks_loop_more : forall steps all_inds idx acc res,
    chunks_loop chunk_size n_chunks steps all_inds idx acc = Some res ->
    NoDup (map fst acc ++ concat all_inds) ->
    n_chunks <= idx + pot chunk_size all_inds -> idx <= n_chunks ->
    (forall k, k < idx -> cnt k acc = chunk_size) -> (forall p, In p acc -> snd p < idx) ->
    NoDup (map fst res) /\ forall k, k < n_chunks -> cnt k res = chunk_size.
  Proof.
    induction steps as [|st more IH]; intros all_inds idx acc res H HN HP Hle HC HS; cbn [chunks_loop] in H.
    - destruct ((idx <? n_chunks) && negb (length all_inds =? 0)) eqn:Eg; [discriminate|]. inversion H; subst.
      split; [apply NoDup_app_iff in HN as [HN _]; exact HN|].
      intros k Hk. apply HC. apply andb_false_iff in Eg as [Eg|Eg].
      + apply Nat.ltb_ge in Eg. lia.
      + apply negb_false_iff, Nat.eqb_eq in Eg. rewrite (pot_nil_length _ _ Eg) in HP. lia.
    - destruct ((idx <? n_chunks) && negb (length all_inds =? 0)) eqn:Eg; [|discriminate].
      apply andb_true_iff in Eg as [Eg _]. apply Nat.ltb_lt in Eg.
      destruct st as [c|c ii].
      + destruct ((c <? length all_inds) && (length (nth c all_inds []) <? chunk_size)) eqn:Ec; [|discriminate].
        apply andb_true_iff in Ec as [E1 E2]. apply Nat.ltb_lt in E1. apply Nat.ltb_lt in E2.
        apply (IH _ _ _ _ H); auto.
        * assert (HN1: NoDup (map fst acc ++ nth c all_inds [] ++ concat (remove_nth c all_inds))).
          { eapply Permutation_NoDup; [|exact HN]. apply Permutation_app_head. apply concat_remove_nth; auto. }
          apply NoDup_drop_mid in HN1 as [HN1 _]. exact HN1.
        * rewrite (pot_remove_nth chunk_size c all_inds E1) in HP. rewrite (Nat.div_small _ _ E2) in HP. lia.
      + destruct ((c <? length all_inds) && negb (length (nth c all_inds []) <? chunk_size) &&
                  (length ii =? chunk_size) && nodupb ii &&
                  forallb (fun i => memn i (nth c all_inds [])) ii) eqn:Ec; [|discriminate].
        apply andb_true_iff in Ec as [Ec E5]. apply andb_true_iff in Ec as [Ec E4].
        apply andb_true_iff in Ec as [Ec E3]. apply andb_true_iff in Ec as [E1 E2].
        apply Nat.ltb_lt in E1. apply negb_true_iff, Nat.ltb_ge in E2. apply Nat.eqb_eq in E3.
        apply nodupb_NoDup in E4.
        assert (Hsub: forall i, In i ii -> In i (nth c all_inds [])).
        { intros i Hi. rewrite forallb_forall in E5. apply memn_In. apply E5; auto. }
        set (inds := nth c all_inds []) in *.
        set (R := concat (remove_nth c all_inds)).
        assert (HN1: NoDup (map fst acc ++ inds ++ R)).
        { eapply Permutation_NoDup; [|exact HN]. apply Permutation_app_head. apply concat_remove_nth; auto. }
        assert (Hinds: NoDup inds).
        { apply NoDup_drop_mid in HN1 as [_ HN1]. exact HN1. }
        pose proof (remove_all_split ii inds Hinds E4 Hsub) as Hperm.
        apply (IH _ _ _ _ H).
        * rewrite map_app, map_map. cbn [fst]. rewrite map_id.
          eapply Permutation_NoDup; [|exact HN1].
          rewrite <- app_assoc. apply Permutation_app_head.
          transitivity ((ii ++ remove_all ii inds) ++ R).
          -- apply Permutation_app_tail. exact Hperm.
          -- rewrite <- app_assoc. apply Permutation_app_head. symmetry.
             apply concat_replace_nth; auto.
        * rewrite (pot_replace_nth chunk_size c _ all_inds E1).
          rewrite (pot_remove_nth chunk_size c all_inds E1) in HP. fold inds in HP.
          rewrite (remove_all_length ii inds Hinds E4 Hsub), E3.
          assert (Hq: (length inds - chunk_size) / chunk_size = length inds / chunk_size - 1).
          { assert (E: length inds = (length inds - chunk_size) + 1 * chunk_size) by lia.
            rewrite E at 2. rewrite Nat.div_add by lia. lia. }
          assert (1 <= length inds / chunk_size).
          { apply Nat.div_le_lower_bound; lia. }
          lia.
        * lia.
        * intros k Hk. unfold cnt. rewrite filter_app, app_length.
          destruct (Nat.eq_dec k idx) as [->|Hne].
          -- rewrite (filter_none _ acc), (filter_all _ (map _ ii)).
             ++ cbn. rewrite map_length. exact E3.
             ++ intros p Hp. apply in_map_iff in Hp as [i [<- _]]. cbn. apply Nat.eqb_refl.
             ++ intros p Hp. pose proof (HS p Hp). apply Nat.eqb_neq. lia.
          -- rewrite (filter_none _ (map _ ii)).
             ++ cbn. rewrite Nat.add_0_r. apply HC. lia.
             ++ intros p Hp. apply in_map_iff in Hp as [i [<- _]]. cbn. apply Nat.eqb_neq. lia.
        * intros p Hp. apply in_app_iff in Hp as [Hp|Hp]; [pose proof (HS p Hp); lia|].
          apply in_map_iff in Hp as [i [<- _]]. cbn. lia.
  Qed.
End More.

(* ------------------------------------------------------------------ the class lists partition the labelled points *)
Lemma insert_z_In x y l : In y (insert_z x l) <-> y = x \/ In y l.
Proof.
  induction l as [|w l IH]; cbn; [split; intros [H|H]; auto; contradiction|].
  destruct (x <=? w)%Z; cbn; [split; intros [H|H]; auto|].
  rewrite IH. split; intros [H|[H|H]]; auto.
Qed.
Lemma insert_z_NoDup x l : ~ In x l -> NoDup l -> NoDup (insert_z x l).
Proof.
  induction l as [|w l IH]; cbn; intros Hx Hn; [constructor; auto|].
  destruct (x <=? w)%Z; [constructor; auto|].
  inversion Hn; subst. constructor.
  - rewrite insert_z_In. intros [->|H]; [apply Hx; left; auto | contradiction].
  - apply IH; auto.
Qed.
Lemma sort_z_In y l : In y (sort_z l) <-> In y l.
Proof. induction l as [|x l IH]; cbn; [tauto|]. rewrite insert_z_In, IH. split; intros [H|H]; auto. Qed.
Lemma sort_z_NoDup l : NoDup l -> NoDup (sort_z l).
Proof. induction l as [|x l IH]; cbn; intro H; [constructor|]. inversion H; subst. apply insert_z_NoDup; auto. rewrite sort_z_In. auto. Qed.
Lemma dedup_z_In y l : In y (dedup_z l) -> In y l.
Proof. induction l as [|x l IH]; cbn; auto. destruct (existsb (Z.eqb x) l); cbn; intro H; [right; auto | destruct H; auto]. Qed.
Lemma dedup_z_NoDup l : NoDup (dedup_z l).
Proof.
  induction l as [|x l IH]; cbn; [constructor|]. destruct (existsb (Z.eqb x) l) eqn:E; auto.
  constructor; auto. intro H. apply dedup_z_In in H.
  assert (existsb (Z.eqb x) l = true) by (apply existsb_exists; exists x; split; [auto | apply Z.eqb_refl]). congruence.
Qed.
Lemma classes_NoDup labels : NoDup (classes labels).
Proof. unfold classes. apply sort_z_NoDup, dedup_z_NoDup. Qed.

Lemma class_inds_NoDup labels : NoDup (concat (class_inds labels)).
Proof.
  unfold class_inds. generalize (classes_NoDup labels). generalize (classes labels) as cs.
  induction cs as [|c cs IH]; cbn; intro Hn; [constructor|]. inversion Hn; subst.
  apply NoDup_app_iff. split; [apply NoDup_filter, seq_NoDup|]. split; [auto|].
  intros i Hi Hj. apply filter_In in Hi as [_ Hi]. apply Z.eqb_eq in Hi.
  apply in_concat in Hj as [s [Hs Hj]]. apply in_map_iff in Hs as [c' [<- Hc']].
  apply filter_In in Hj as [_ Hj]. apply Z.eqb_eq in Hj. congruence.
Qed.

Lemma max_chunks_pot labels cs : max_chunks labels cs = pot cs (class_inds labels).
Proof. reflexivity. Qed.

(* ------------------------------------------------------------------ statements for a whole call *)
Theorem chunks_disjoint_exact labels n_chunks chunk_size steps assign :
  0 < chunk_size ->
  chunks_model labels n_chunks chunk_size steps = ChunksOk assign ->
  (* no point belongs to two chunks *)
  NoDup (map fst assign) /\
  (* every chunk id 0 .. n_chunks-1 has exactly chunk_size members *)
  (forall k, k < n_chunks -> length (filter (fun p => Nat.eqb (snd p) k) assign) = chunk_size).
Proof.
  intros Hcs. unfold chunks_model. destruct (max_chunks labels chunk_size <? n_chunks) eqn:E; [discriminate|].
  apply Nat.ltb_ge in E.
  destruct (chunks_loop chunk_size n_chunks steps (class_inds labels) 0 []) as [a|] eqn:EL; [|discriminate].
  intro H; inversion H; subst; clear H.
  apply (chunks_loop_more chunk_size n_chunks Hcs steps (class_inds labels) 0 [] assign EL).
  - cbn. apply class_inds_NoDup.
  - rewrite <- max_chunks_pot. lia.
  - lia.
  - intros k Hk. lia.
  - intros p [].
Qed.
