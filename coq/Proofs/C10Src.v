(* C10, source level: NCA._loss_grad_lbfgs as translated into gen/Src_nca.v on every run computes the value of the model
   Model/NCAGrad.v (nca_loss), about which C10_nca_gradient says that it is the documented objective.
   The mask is the one NCA.fit builds: mask_ij = (y_i == y_j). *)
From Coq Require Import String.
From Coq Require Import List Arith Bool Reals Lra Lia ZArith.
From ML Require Import Ops Vec NP VecR MatR LinAlg NPNum Objectives NCAGrad.
From MLgen Require Import Src_nca.
Import ListNotations.
Open Scope R_scope.

(* labels[:, np.newaxis] == labels[np.newaxis, :] *)
Definition label_mask (y : list Z) : list (list bool) :=
  map (fun i => map (fun j => Z.eqb (nth i y 0%Z) (nth j y 0%Z)) (seq 0 (length y))) (seq 0 (length y)).

(* ---- tabulated arrays ---- *)
Lemma nth_map_seq {A} (f : nat -> A) (dflt : A) : forall n s i, (i < n)%nat -> nth i (map f (seq s n)) dflt = f (s + i)%nat.
Proof.
  induction n as [|n IH]; intros s i H; [lia|]. destruct i as [|i]; cbn [seq map nth].
  - f_equal. lia.
  - rewrite IH by lia. f_equal. lia.
Qed.

Lemma tab_row {O : Ops} n m (f : nat -> nat -> T O) i : (i < n)%nat -> nth i (nn_tab n m f) [] = map (f i) (seq 0 m).
Proof. intro H. unfold nn_tab. rewrite (nth_map_seq (fun i => map (fun j => f i j) (seq 0 m)) [] n 0 i H). reflexivity. Qed.

Lemma tab_entry {O : Ops} n m (f : nat -> nat -> T O) i j : (i < n)%nat -> (j < m)%nat -> nn_entry (nn_tab n m f) i j = f i j.
Proof. intros Hi Hj. unfold nn_entry. rewrite tab_row by exact Hi. rewrite (nth_map_seq (f i) (o0 O) m 0 j Hj). reflexivity. Qed.

Lemma tab_length {O : Ops} n m (f : nat -> nat -> T O) : length (nn_tab n m f) = n.
Proof. unfold nn_tab. rewrite map_length, seq_length. reflexivity. Qed.

Lemma isum_ext (n : nat) (f g : nat -> R) : (forall i, (i < n)%nat -> f i = g i) -> @isum ROps n f = @isum ROps n g.
Proof. intro H. unfold isum. f_equal. apply map_ext_in. intros i Hi. apply in_seq in Hi. apply H. lia. Qed.

Lemma sum_rows_tab n m (f : nat -> nat -> R) :
  @nn_sum_v ROps (@nn_sum_rows ROps (@nn_tab ROps n m f)) = @isum ROps n (fun i => @isum ROps m (f i)).
Proof. unfold nn_sum_v, nn_sum_rows, nn_tab, isum. rewrite map_map. reflexivity. Qed.

(* ---- the embedding and the squared distances ---- *)
Section Stage.
  Variables (ex : R -> R) (k d : nat) (L X : Rm) (y : list Z).
  Hypotheses (HL : wfmR k d L) (HX : Forall (wfvR d) X) (Hy : length y = length X).
  Notation n := (length X).

  Lemma emb_row i : (i < n)%nat -> nth i (@nn_dot_mt ROps X L) [] = mvmulR L (@pt ROps X i).
  Proof.
    intro H. unfold nn_dot_mt, pt.
    rewrite (nth_indep _ [] (map (vdotR []) L)) by (rewrite map_length; exact H).
    rewrite (map_nth (fun r => map (vdotR r) L) X [] i). unfold mvmul. apply map_ext. intro r. apply vdot_comm.
  Qed.

  Lemma pt_wf i : (i < n)%nat -> wfvR d (@pt ROps X i).
  Proof. intro H. rewrite Forall_forall in HX. apply HX. unfold pt. apply nth_In. exact H. Qed.

  Lemma dist_entry i j : (i < n)%nat -> (j < n)%nat ->
    @nn_entry ROps (@nn_pairwise_sq ROps (@nn_dot_mt ROps X L)) i j = @qd ROps L X i j.
  Proof.
    intros Hi Hj. unfold nn_pairwise_sq.
    assert (EL: length (@nn_dot_mt ROps X L) = n) by (unfold nn_dot_mt; apply map_length).
    rewrite EL. rewrite tab_entry by assumption. rewrite !emb_row by assumption.
    unfold qd, sqd. rewrite mvmul_vsub; [reflexivity|].
    pose proof (pt_wf i Hi) as W1. pose proof (pt_wf j Hj) as W2. unfold wfv in *. congruence.
  Qed.

  Let D := @nn_pairwise_sq ROps (@nn_dot_mt ROps X L).
  Lemma D_length : length D = n.
  Proof. unfold D, nn_pairwise_sq. rewrite tab_length. unfold nn_dot_mt. apply map_length. Qed.

  (* the softmax with the diagonal excluded is the model's p_ij *)
  Lemma soft_entry i j : (i < n)%nat -> (j < n)%nat ->
    @nn_entry ROps (@nn_softmax_neg_offdiag ROps ex D) i j = @pp ROps ex L X i j.
  Proof.
    intros Hi Hj. unfold nn_softmax_neg_offdiag. rewrite D_length. rewrite tab_entry by assumption.
    unfold pp, Zs, ee. f_equal.
    - destruct (Nat.eqb j i); [reflexivity|]. unfold D. rewrite dist_entry by assumption. reflexivity.
    - change (vsum (map ?f (seq 0 n))) with (@isum ROps n f). apply isum_ext. intros q Hq.
      destruct (Nat.eqb q i); [reflexivity|]. unfold D. rewrite dist_entry by assumption. reflexivity.
  Qed.

  Let P := @nn_softmax_neg_offdiag ROps ex D.
  Lemma P_length : length P = n.
  Proof. unfold P, nn_softmax_neg_offdiag. rewrite tab_length. apply D_length. Qed.

  Lemma mask_entry i j : (i < n)%nat -> (j < n)%nat -> nth j (nth i (label_mask y) []) false = @same y i j.
  Proof.
    intros Hi Hj. unfold label_mask. rewrite Hy.
    rewrite (nth_map_seq (fun i0 => map (fun j0 => Z.eqb (nth i0 y 0%Z) (nth j0 y 0%Z)) (seq 0 n)) [] n 0 i Hi).
    rewrite (nth_map_seq (fun j0 => Z.eqb (nth (0 + i) y 0%Z) (nth j0 y 0%Z)) false n 0 j Hj).
    unfold same. cbn [Nat.add]. apply Z.eqb_sym.
  Qed.

  (* the value handed to the optimiser *)
  Theorem nca_src_loss : fst (@nca_src ROps ex L X (label_mask y)) = @nca_loss ROps ex L X y.
  Proof.
    unfold nca_src. cbn [fst]. fold D. fold P. unfold nn_mulmask. rewrite P_length.
    rewrite sum_rows_tab. unfold nca_loss, pin. apply isum_ext. intros i Hi. apply isum_ext. intros j Hj.
    rewrite mask_entry by assumption. unfold mp. destruct (same y i j); [|reflexivity].
    unfold P. apply soft_entry; assumption.
  Qed.
End Stage.

(* ---- the symmetrised weight matrix S of the gradient ---- *)
Lemma nth_map2 {A B C} (f : A -> B -> C) (da : A) (db : B) (dc : C) : forall (l1 : list A) (l2 : list B) i,
  (i < length l1)%nat -> (i < length l2)%nat -> nth i (map2 f l1 l2) dc = f (nth i l1 da) (nth i l2 db).
Proof.
  induction l1 as [|a l1 IH]; intros [|b l2] i H1 H2; cbn in *; try lia.
  destruct i as [|i]; [reflexivity|]. apply IH; lia.
Qed.
Lemma map2_length {A B C} (f : A -> B -> C) : forall (l1 : list A) (l2 : list B), length l1 = length l2 -> length (map2 f l1 l2) = length l1.
Proof. induction l1 as [|a l1 IH]; intros [|b l2] H; cbn in *; try lia. f_equal. apply IH. lia. Qed.
Lemma nth_vscale (c : R) : forall (a : Rv) j, nth j (vscaleR c a) 0 = c * nth j a 0.
Proof. induction a as [|x a IH]; intros [|j]; cbn; try ring. apply IH. Qed.
Lemma nth_vsub : forall (a b : Rv) j, length a = length b -> nth j (vsubR a b) 0 = nth j a 0 - nth j b 0.
Proof. induction a as [|x a IH]; intros [|y b] j H; cbn in *; try lia; [destruct j; ring|]. destruct j as [|j]; [reflexivity|]. apply IH. lia. Qed.
Lemma nth_vadd : forall (a b : Rv) j, length a = length b -> nth j (vaddR a b) 0 = nth j a 0 + nth j b 0.
Proof. induction a as [|x a IH]; intros [|y b] j H; cbn in *; try lia; [destruct j; ring|]. destruct j as [|j]; [reflexivity|]. apply IH. lia. Qed.
Lemma nth_vzero m j : nth j (@vzero ROps m) 0 = 0.
Proof. revert j. induction m as [|m IH]; intros [|j]; cbn; auto. Qed.
Lemma nth_vneg : forall (a : Rv) j, nth j (@nn_neg_v ROps a) 0 = - nth j a 0.
Proof. unfold nn_neg_v. induction a as [|x a IH]; intros [|j]; cbn; try ring. apply IH. Qed.

(* column sums of a list of rows of length m *)
Lemma sum_cols_nth m j : forall (Ws : Rm), Forall (fun r => length r = m) Ws ->
  nth j (@nn_sum_cols ROps m Ws) 0 = @vsum ROps (map (fun r => nth j r 0) Ws).
Proof.
  unfold nn_sum_cols. induction Ws as [|r Ws IH]; intro H; cbn [fold_right map vsum]; [apply nth_vzero|].
  inversion H as [|? ? Hr HW]; subst.
  assert (LW: length (fold_right vaddR (vzero (length r)) Ws) = length r).
  { clear IH H. induction Ws as [|q Ws IHq]; cbn; [apply vzero_length|].
    inversion HW as [|? ? Hq HW']; subst. specialize (IHq HW').
    rewrite vadd_length; [exact Hq | transitivity (length r); [exact Hq | symmetry; exact IHq]]. }
  rewrite nth_vadd by (symmetry; exact LW). specialize (IH HW). rsimp. rewrite IH. reflexivity.
Qed.
Lemma vsum_map_nth_rows (g : Rv -> R) : forall (Ws : Rm),
  @vsum ROps (map g Ws) = @isum ROps (length Ws) (fun i => g (nth i Ws [])).
Proof.
  unfold isum. intro Ws. f_equal.
  induction Ws as [|r Ws IH]; [reflexivity|]. cbn [length seq map nth]. f_equal.
  rewrite IH. rewrite <- seq_shift, map_map. reflexivity.
Qed.

Section StageS.
  Variables (ex : R -> R) (k d : nat) (L X : Rm) (y : list Z).
  Hypotheses (HL : wfmR k d L) (HX : Forall (wfvR d) X) (Hy : length y = length X).
  Notation n := (length X).
  Let D := @nn_pairwise_sq ROps (@nn_dot_mt ROps X L).
  Let P := @nn_softmax_neg_offdiag ROps ex D.
  Let Mk := @nn_mulmask ROps P (label_mask y).
  Let pv := @nn_sum_rows ROps Mk.
  Let W := @nn_sub_mm ROps Mk (@nn_scale_rows ROps pv P).

  Lemma Pn : length P = n. Proof. apply (P_length ex L X). Qed.
  Lemma Mkn : length Mk = n. Proof. unfold Mk, nn_mulmask. rewrite tab_length. apply Pn. Qed.
  Lemma P_row i : (i < n)%nat -> nth i P [] = map (fun j => @pp ROps ex L X i j) (seq 0 n).
  Proof.
    intro Hi. unfold P, nn_softmax_neg_offdiag, D. rewrite (D_length L X). rewrite tab_row by exact Hi.
    apply map_ext_in. intros j Hj. apply in_seq in Hj.
    pose proof (soft_entry ex d L X HX i j Hi ltac:(lia)) as E.
    unfold nn_softmax_neg_offdiag in E. rewrite (D_length L X) in E. rewrite tab_entry in E by (auto; lia). exact E.
  Qed.
  Lemma Mk_row i : (i < n)%nat -> nth i Mk [] = map (fun j => @mp ROps ex L X y i j) (seq 0 n).
  Proof.
    intro Hi. unfold Mk, nn_mulmask. rewrite Pn. rewrite tab_row by exact Hi.
    apply map_ext_in. intros j Hj. apply in_seq in Hj.
    rewrite (mask_entry X y Hy i j Hi ltac:(lia)). unfold mp. destruct (same y i j); [|reflexivity].
    apply (soft_entry ex d L X HX i j Hi). lia.
  Qed.
  Lemma pv_nth i : (i < n)%nat -> nth i pv 0 = @pin ROps ex L X y i.
  Proof.
    intro Hi. transitivity (@vsum ROps (nth i Mk [])).
    - unfold pv, nn_sum_rows. rewrite (nth_indep _ 0 (@vsum ROps [])) by (rewrite map_length, Mkn; exact Hi).
      apply (map_nth (@vsum ROps) Mk [] i).
    - rewrite Mk_row by exact Hi. reflexivity.
  Qed.
  Lemma pvn : length pv = n. Proof. unfold pv, nn_sum_rows. rewrite map_length. apply Mkn. Qed.

  Lemma W_entry i j : (i < n)%nat -> (j < n)%nat -> @nn_entry ROps W i j = @Wt ROps ex L X y i j.
  Proof.
    intros Hi Hj. unfold nn_entry, W, nn_sub_mm, nn_scale_rows.
    assert (LS: length (map2 vscaleR pv P) = n) by (rewrite map2_length; rewrite pvn; [reflexivity | symmetry; apply Pn]).
    rewrite (nth_map2 vsubR [] [] []) by (rewrite ?Mkn, ?LS; exact Hi).
    rewrite (nth_map2 vscaleR 0 [] []) by (rewrite ?pvn, ?Pn; exact Hi).
    rewrite Mk_row, P_row, pv_nth by exact Hi.
    rewrite nth_vsub by (rewrite vscale_length, !map_length; reflexivity).
    rewrite nth_vscale.
    rewrite 2!(nth_map_seq _ _ n 0 j Hj).
    unfold Wt. cbn [Nat.add osub omul ROps]. rsimp. ring.
  Qed.
  Lemma Wn : length W = n.
  Proof.
    unfold W, nn_sub_mm. rewrite map2_length; [apply Mkn|]. rewrite Mkn. unfold nn_scale_rows.
    rewrite map2_length; rewrite pvn; [reflexivity | symmetry; apply Pn].
  Qed.
  Lemma W_rows_len : Forall (fun r : Rv => length r = n) W.
  Proof.
    apply Forall_forall. intros r Hr. apply (In_nth _ _ []) in Hr as [i [Hi0 <-]]. assert (Hi: (i < n)%nat) by (rewrite <- Wn; exact Hi0).
    unfold W, nn_sub_mm, nn_scale_rows.
    assert (LS: length (map2 vscaleR pv P) = n) by (rewrite map2_length; rewrite pvn; [reflexivity | symmetry; apply Pn]).
    rewrite (nth_map2 vsubR [] [] []) by (rewrite ?Mkn, ?LS; exact Hi).
    rewrite (nth_map2 vscaleR 0 [] []) by (rewrite ?pvn, ?Pn; exact Hi).
    rewrite Mk_row, P_row by exact Hi.
    rewrite vsub_length; rewrite ?vscale_length, !map_length, seq_length; reflexivity.
  Qed.

  (* S = W + W^T off the diagonal, minus the column sums of W on it: the model's S *)
  Theorem S_entry i j : (i < n)%nat -> (j < n)%nat ->
    @nn_entry ROps (@nn_fill_diag ROps (@nn_add_m_mt ROps W) (@nn_neg_v ROps (@nn_sum_cols ROps n W))) i j = @St ROps ex L X y i j.
  Proof.
    intros Hi Hj. unfold nn_fill_diag, nn_add_m_mt. rewrite tab_length, Wn. rewrite tab_entry by assumption.
    unfold St. destruct (Nat.eqb i j) eqn:E.
    - apply Nat.eqb_eq in E. subst j. rewrite nth_vneg. cbn [oopp ROps]. f_equal.
      etransitivity; [apply (sum_cols_nth n i W W_rows_len)|].
      etransitivity; [apply (vsum_map_nth_rows (fun r => nth i r 0) W)|].
      transitivity (@isum ROps n (fun q => nth i (nth q W []) 0)); [f_equal; exact Wn|].
      apply isum_ext. intros q Hq. apply (W_entry q i Hq Hi).
    - rewrite tab_entry by assumption. rewrite !W_entry by assumption. reflexivity.
  Qed.
End StageS.

(* ---- (E^T S) X as a double sum of outer products ---- *)
From ML Require Import C10Grad CovProof MatAction.

Lemma vdot_isum : forall (a b : Rv) m, length a = m -> length b = m ->
  vdotR a b = rsumf (fun i => nth i a 0 * nth i b 0) (seq 0 m).
Proof.
  induction a as [|x a IH]; intros [|y b] m Ha Hb; cbn in *; subst; try discriminate; [reflexivity|].
  cbn [seq rsumf nth]. rewrite (IH b (length a)) by (auto; lia). f_equal.
  rewrite <- seq_shift. clear. induction (seq 0 (length a)) as [|i l IHl]; cbn; [reflexivity|]. rewrite IHl. reflexivity.
Qed.

Lemma mat_ext_action k d (M M' : Rm) : wfmR k d M -> wfmR k d M' ->
  (forall v, wfvR d v -> mvmulR M v = mvmulR M' v) -> M = M'.
Proof.
  intros [HL HM] [HL' HM'] H.
  assert (LM: length M = length M') by (transitivity k; [exact HL | symmetry; exact HL']).
  apply (nth_ext M M' [] []); [exact LM|]. intros a Ha.
  assert (Ha': (a < length M')%nat) by (rewrite <- LM; exact Ha).
  assert (R1: wfvR d (nth a M [])) by (rewrite Forall_forall in HM; apply HM, nth_In; exact Ha).
  assert (R2: wfvR d (nth a M' [])) by (rewrite Forall_forall in HM'; apply HM', nth_In; exact Ha').
  apply (nth_ext _ _ 0 0); [unfold wfv in R1, R2; transitivity d; [exact R1 | symmetry; exact R2]|]. intros b Hb.
  assert (Hbd: (b < d)%nat) by (unfold wfv in R1; rewrite <- R1; exact Hb).
  rewrite <- (vdot_unitv_r d b (nth a M []) R1 Hbd), <- (vdot_unitv_r d b (nth a M' []) R2 Hbd).
  assert (U: wfvR d (@unitv ROps d b)) by (unfold wfv; apply unitv_length).
  pose proof (H _ U) as E.
  transitivity (nth a (mvmulR M (unitv d b)) 0); [symmetry; apply (mvmul_nth M (unitv d b) a Ha)|].
  transitivity (nth a (mvmulR M' (unitv d b)) 0); [rewrite E; reflexivity | apply (mvmul_nth M' (unitv d b) a Ha')].
Qed.

Lemma nth_mvmul_msum k d m (f : nat -> Rm) (v : Rv) a : (forall i, In i (seq 0 m) -> wfmR k d (f i)) -> wfvR d v ->
  nth a (mvmulR (@msum ROps k d m f) v) 0 = rsumf (fun i => nth a (mvmulR (f i) v) 0) (seq 0 m).
Proof.
  intros H Hv. unfold msum. induction (seq 0 m) as [|i l IH]; cbn [fold_right rsumf].
  - rewrite mvmul_mzero. apply nth_vzero.
  - rewrite (mvmul_madd_kd k d); [| apply H; left; reflexivity | apply msum_list_wfm; intros j Hj; apply H; right; exact Hj].
    rewrite nth_vadd.
    + f_equal. apply IH. intros j Hj. apply H. right. exact Hj.
    + rewrite !mvmul_length. destruct (H i (or_introl eq_refl)) as [E1 _].
      destruct (msum_list_wfm k d l f (fun j Hj => H j (or_intror Hj))) as [E2 _].
      transitivity k; [exact E1 | symmetry; exact E2].
Qed.

Theorem dot_tm_mm_as_msum n k d (E S X : Rm) : (0 < n)%nat ->
  length E = n -> Forall (wfvR k) E -> wfmR n n S -> length X = n -> Forall (wfvR d) X ->
  @nn_dot_mm ROps (@nn_dot_tm ROps E S) X =
  @msum ROps k d n (fun i => @msum ROps k d n (fun j => mscaleR (@nn_entry ROps S i j) (outerR (nth i E []) (nth j X [])))).
Proof.
  intros Hn HEl HE [HSl HS] HXl HX.
  assert (NE: E <> []) by (intro Z; rewrite Z in HEl; cbn in HEl; lia).
  assert (NS: S <> []) by (intro Z; rewrite Z in HSl; cbn in HSl; lia).
  assert (NX: X <> []) by (intro Z; rewrite Z in HXl; cbn in HXl; lia).
  assert (TW: forall i j, In i (seq 0 n) -> In j (seq 0 n) ->
             wfmR k d (mscaleR (@nn_entry ROps S i j) (outerR (nth i E []) (nth j X [])))).
  { intros i j Hi Hj. apply in_seq in Hi. apply in_seq in Hj. apply mscale_wfm, outer_wfm_kd.
    - rewrite Forall_forall in HE. apply HE, nth_In. lia.
    - rewrite Forall_forall in HX. apply HX, nth_In. lia. }
  destruct (transp_rows_wf k E NE HE) as [TE1 TE2].
  apply (mat_ext_action k d).
  - (* wf of the product *)
    unfold nn_dot_mm, nn_dot_tm, mmulg. split.
    + rewrite !map_length. exact TE2.
    + apply Forall_forall. intros r Hr. apply in_map_iff in Hr as [c [<- _]]. unfold wfv. rewrite map_length.
      rewrite (transp_is_fuel d X NX HX). apply transp_fuel_length; auto.
  - apply msum_wfm. intros i Hi. apply msum_wfm. intros j Hj. apply TW; assumption.
  - intros v Hv.
    (* left: E^T (S (X v)) *)
    assert (P1: Forall (wfvR (length X)) (@nn_dot_tm ROps E S)).
    { unfold nn_dot_tm, mmulg. apply Forall_forall. intros r Hr. apply in_map_iff in Hr as [c [<- _]]. unfold wfv. rewrite map_length.
      rewrite (transp_is_fuel n S NS HS). rewrite (transp_fuel_length n S NS HS). symmetry. exact HXl. }
    unfold nn_dot_mm. rewrite (mmulg_action d (@nn_dot_tm ROps E S) X v NX HX P1 Hv).
    assert (Xv: wfvR n (mvmulR X v)) by (unfold wfv; rewrite mvmul_length; exact HXl).
    assert (QS: length S = length E) by (transitivity n; [exact HSl | symmetry; exact HEl]).
    assert (P2: Forall (wfvR (length S)) (transpR E)) by (rewrite QS; exact TE1).
    unfold nn_dot_tm. rewrite (mmulg_action n (transpR E) S (mvmulR X v) NS HS P2 Xv).
    set (z := mvmulR S (mvmulR X v)).
    assert (Lz: length z = n) by (unfold z; rewrite mvmul_length; exact HSl).
    assert (LL: length (mvmulR (transpR E) z) = k) by (rewrite mvmul_length; exact TE2).
    apply (nth_ext _ _ 0 0).
    + destruct (msum_wfm k d n _ (fun i Hi => msum_wfm k d n _ (fun j Hj => TW i j Hi Hj))) as [Q _].
      transitivity k; [exact LL|]. symmetry. etransitivity; [apply mvmul_length|]. exact Q.
    + intros a Ha0. assert (Ha: (a < k)%nat) by (rewrite <- LL; exact Ha0).
      rewrite (nth_mvmul_msum k d n _ v a) by (auto; intros i Hi; apply msum_wfm; intros j Hj; apply TW; assumption).
      (* entry a of E^T z through the adjoint with the a-th unit vector *)
      assert (Ua: wfvR k (@unitv ROps k a)) by (unfold wfv; apply unitv_length).
      rewrite <- (vdot_unitv_r k a (mvmulR (transpR E) z) LL Ha).
      rewrite (transp_is_fuel k E NE HE).
      rewrite (transp_fuel_adjoint k E z (@unitv ROps k a) NE HE Ua) by (transitivity n; [exact Lz | symmetry; exact HEl]).
      rewrite (vdot_isum z (mvmulR E (@unitv ROps k a)) n Lz) by (etransitivity; [apply mvmul_length | exact HEl]).
      apply rsumf_ext. intros i Hi. pose proof Hi as Hi'. apply in_seq in Hi'.
      rewrite (nth_mvmul_msum k d n _ v a) by (auto; intros j Hj; apply TW; assumption).
      (* z_i = sum_j S_ij (x_j . v); the lemmas are restated with the carrier written as R so that they rewrite *)
      assert (MN: forall (A : Rm) (x : Rv) (q : nat), (q < length A)%nat ->
                 @nth R q (mvmulR A x) 0 = vdotR (@nth (list R) q A []) x) by (intros; apply mvmul_nth; assumption).
      assert (VI: forall (u w : Rv), length u = n -> length w = n ->
                 vdotR u w = rsumf (fun q => @nth R q u 0 * @nth R q w 0) (seq 0 n)) by (intros; apply vdot_isum; assumption).
      assert (UV: forall (u : Rv), length u = k -> vdotR u (@unitv ROps k a) = @nth R a u 0)
        by (intros u Hu; apply (vdot_unitv_r k a u Hu Ha)).
      assert (SC: forall (c : R) (u : Rv) (q : nat), @nth R q (vscaleR c u) 0 = c * @nth R q u 0) by (intros; apply nth_vscale).
      unfold z. rsimp.
      rewrite (MN S (mvmulR X v) i) by (rewrite HSl; lia).
      assert (Ri: length (@nth (list R) i S []) = n) by (rewrite Forall_forall in HS; apply HS, nth_In; rewrite HSl; lia).
      rewrite (VI (@nth (list R) i S []) (mvmulR X v) Ri) by (etransitivity; [apply mvmul_length | exact HXl]).
      rewrite (MN E (@unitv ROps k a) i) by (rewrite HEl; lia).
      assert (Ei: length (@nth (list R) i E []) = k) by (rewrite Forall_forall in HE; apply HE, nth_In; rewrite HEl; lia).
      rewrite (UV (@nth (list R) i E []) Ei).
      rewrite <- rsumf_scal_r. apply rsumf_ext. intros j Hj. pose proof Hj as Hj'. apply in_seq in Hj'.
      rewrite mvmul_mscale, mvmul_outer, !SC. rewrite (MN X v j) by (rewrite HXl; lia).
      unfold nn_entry. rsimp. change (o0 ROps) with 0. ring.
Qed.

Lemma msum_ext k d m (f g : nat -> Rm) : (forall i, (i < m)%nat -> f i = g i) -> @msum ROps k d m f = @msum ROps k d m g.
Proof.
  intro H. unfold msum. assert (Q: forall i, In i (seq 0 m) -> f i = g i) by (intros i Hi; apply in_seq in Hi; apply H; lia).
  induction (seq 0 m) as [|i l IH]; cbn; [reflexivity|]. rewrite (Q i (or_introl eq_refl)). f_equal. apply IH. intros j Hj. apply Q. right. exact Hj.
Qed.

(* the gradient handed to the optimiser is the model's (about which C10_nca_gradient says that it is the derivative of the
   documented objective) *)
Theorem nca_src_grad (ex : R -> R) (k d : nat) (L X : Rm) (y : list Z) :
  wfmR k d L -> Forall (wfvR d) X -> (0 < length X)%nat -> length y = length X ->
  snd (@nca_src ROps ex L X (label_mask y)) = @nca_grad ROps ex k d L X y.
Proof.
  intros HL HX Hn Hy. unfold nca_src. cbn [snd].
  set (E := @nn_dot_mt ROps X L).
  set (D := @nn_pairwise_sq ROps E). set (P := @nn_softmax_neg_offdiag ROps ex D).
  set (Mk := @nn_mulmask ROps P (label_mask y)). set (pv := @nn_sum_rows ROps Mk).
  set (W := @nn_sub_mm ROps Mk (@nn_scale_rows ROps pv P)).
  unfold nn_mul_sm.
  match goal with |- mscaleR _ (nn_dot_mm (nn_dot_tm _ ?s) _) = _ => set (S := s) end.
  assert (EL: length E = length X) by (unfold E, nn_dot_mt; apply map_length).
  assert (EW: Forall (wfvR k) E).
  { unfold E, nn_dot_mt. apply Forall_forall. intros r Hr. apply in_map_iff in Hr as [x [<- _]]. unfold wfv. rewrite map_length. apply HL. }
  assert (SW: wfmR (length X) (length X) S).
  { assert (WL: length W = length X) by (apply (Wn ex L X y)).
    assert (AL: length (@nn_add_m_mt ROps W) = length X) by (unfold nn_add_m_mt; rewrite tab_length; exact WL).
    unfold S, nn_fill_diag. rewrite AL. unfold nn_tab. split.
    - rewrite map_length, seq_length. reflexivity.
    - apply Forall_forall. intros r Hr. apply in_map_iff in Hr as [i [<- _]]. unfold wfv. rewrite map_length, seq_length. reflexivity. }
  rewrite (dot_tm_mm_as_msum (length X) k d E S X Hn EL EW SW eq_refl HX).
  unfold nca_grad. f_equal.
  apply msum_ext. intros i Hi. apply msum_ext. intros j Hj. f_equal.
  - unfold S, W, pv, Mk, P, D, E. apply (S_entry ex d L X y HX Hy i j Hi Hj).
  - f_equal. unfold E. apply (emb_row L X i Hi).
Qed.

(* ================================================================== MLKR ================================================== *)
From MLgen Require Import Src_mlkr.

(* the symmetrisation step, for any W given by its entries *)
Lemma sym_fill_entry n (W : Rm) (Wf : nat -> nat -> R) :
  length W = n -> Forall (fun r : Rv => length r = n) W ->
  (forall i j, (i < n)%nat -> (j < n)%nat -> @nn_entry ROps W i j = Wf i j) ->
  forall i j, (i < n)%nat -> (j < n)%nat ->
  @nn_entry ROps (@nn_fill_diag ROps (@nn_add_m_mt ROps W) (@nn_neg_v ROps (@nn_sum_cols ROps n W))) i j =
  (if Nat.eqb i j then - @isum ROps n (fun q => Wf q j) else Wf i j + Wf j i).
Proof.
  intros HWn HWr HWe i j Hi Hj. subst n. unfold nn_fill_diag, nn_add_m_mt. rewrite tab_length. rewrite tab_entry by assumption.
  destruct (Nat.eqb i j) eqn:E.
  - apply Nat.eqb_eq in E. subst j. rewrite nth_vneg. cbn [oopp ROps]. f_equal.
    etransitivity; [apply (sum_cols_nth (length W) i W HWr)|].
    etransitivity; [apply (vsum_map_nth_rows (fun r => nth i r 0) W)|].
    apply isum_ext. intros q Hq. apply (HWe q i Hq Hi).
  - rewrite tab_entry by assumption. rewrite !HWe by assumption. reflexivity.
Qed.

Lemma vsum_map_nth_vec (g : R -> R) : forall (v : Rv), @vsum ROps (map g v) = @isum ROps (length v) (fun i => g (nth i v 0)).
Proof.
  unfold isum. intro v. f_equal. induction v as [|a v IH]; [reflexivity|]. cbn [length seq map nth]. f_equal.
  rewrite IH. rewrite <- seq_shift, map_map. reflexivity.
Qed.

Lemma isum_as_rsumf n (f : nat -> R) : @isum ROps n f = rsumf f (seq 0 n).
Proof. unfold isum. apply vsum_map_rsumf. Qed.

Ltac rwR H := let Q := fresh "Q" in pose proof H as Q; change (T ROps) with R in Q |- *; rewrite Q; clear Q.

Section StageM.
  Variables (ex : R -> R) (k d : nat) (L X : Rm) (yv : Rv).
  Hypotheses (HL : wfmR k d L) (HX : Forall (wfvR d) X) (Hy : length yv = length X).
  Notation n := (length X).
  Let D := @nn_pairwise_sq ROps (@nn_dot_mt ROps X L).
  Let P := @nn_softmax_neg_offdiag ROps ex D.
  Let yh := @nn_dot_mv ROps P yv.
  Let yd := @nn_sub_vv ROps yh yv.
  Let W := @nn_mul_mm ROps (@nn_scale_rows ROps yd P) (@nn_row_minus_col ROps yv yh).

  Lemma Pn_m : length P = n. Proof. apply (P_length ex L X). Qed.
  Lemma P_row_m i : (i < n)%nat -> nth i P [] = map (fun j => @pp ROps ex L X i j) (seq 0 n).
  Proof. intro Hi. apply (P_row ex d L X (map (fun _ => 0%Z) X) HX (map_length _ X) i Hi). Qed.
  Lemma yh_len : length yh = n. Proof. unfold yh, nn_dot_mv. etransitivity; [apply mvmul_length | apply Pn_m]. Qed.
  Lemma yh_nth i : (i < n)%nat -> nth i yh 0 = @yhat ROps ex L X yv i.
  Proof.
    intro Hi. unfold yh, nn_dot_mv.
    etransitivity; [apply (mvmul_nth P yv i); rwR Pn_m; exact Hi|].
    rwR (P_row_m i Hi).
    rewrite (vdot_isum _ yv n) by (rewrite ?map_length, ?seq_length; auto).
    unfold yhat. rewrite isum_as_rsumf. apply rsumf_ext. intros j Hj. apply in_seq in Hj.
    assert (Hj': (j < n)%nat) by (destruct Hj as [_ Hj']; exact Hj').
    rwR (nth_map_seq (fun j0 => @pp ROps ex L X i j0) 0 n 0 j Hj'). reflexivity.
  Qed.
  Lemma yhy : length yh = length yv. Proof. etransitivity; [apply yh_len | symmetry; exact Hy]. Qed.
  Lemma yd_len : length yd = n.
  Proof. unfold yd, nn_sub_vv. etransitivity; [apply vsub_length; apply yhy | apply yh_len]. Qed.
  Lemma yd_nth i : (i < n)%nat -> nth i yd 0 = @yhat ROps ex L X yv i - nth i yv 0.
  Proof.
    intro Hi. unfold yd, nn_sub_vv. etransitivity; [apply (nth_vsub yh yv i yhy)|].
    f_equal. apply (yh_nth i Hi).
  Qed.

  (* the cost handed to the optimiser *)
  Theorem mlkr_src_loss : fst (@mlkr_src ROps ex L X yv) = @mlkr_loss ROps ex L X yv.
  Proof.
    unfold mlkr_src. cbn [fst]. fold D. fold P. fold yh. fold yd. unfold nn_sum_v, nn_square_v.
    etransitivity; [apply (vsum_map_nth_vec (fun a => a * a) yd)|].
    transitivity (@isum ROps n (fun i => nth i yd 0 * nth i yd 0)); [f_equal; apply yd_len|].
    unfold mlkr_loss. apply isum_ext. intros i Hi. rwR (yd_nth i Hi). reflexivity.
  Qed.

  Lemma SR_len : length (@nn_scale_rows ROps yd P) = n.
  Proof.
    unfold nn_scale_rows. etransitivity; [apply map2_length | apply yd_len].
    etransitivity; [apply yd_len | symmetry; apply Pn_m].
  Qed.
  Lemma RC_len : length (@nn_row_minus_col ROps yv yh) = n.
  Proof. unfold nn_row_minus_col. etransitivity; [apply tab_length | apply yh_len]. Qed.
  Lemma W_len : length W = n.
  Proof.
    unfold W, nn_mul_mm. etransitivity; [apply map2_length | apply SR_len].
    etransitivity; [apply SR_len | symmetry; apply RC_len].
  Qed.
  Lemma W_row i : (i < n)%nat ->
    nth i W [] = map2 (omul ROps) (vscaleR (nth i yd 0) (nth i P [])) (map (fun j => osub ROps (nth j yv 0) (nth i yh 0)) (seq 0 n)).
  Proof.
    intro Hi. unfold W, nn_mul_mm.
    assert (H1: (i < length (@nn_scale_rows ROps yd P))%nat) by (rwR SR_len; exact Hi).
    assert (H2: (i < length (@nn_row_minus_col ROps yv yh))%nat) by (rwR RC_len; exact Hi).
    etransitivity; [apply (nth_map2 (map2 (omul ROps)) [] [] [] _ _ i H1 H2)|].
    apply f_equal2.
    - unfold nn_scale_rows. apply (nth_map2 vscaleR 0 [] []); [rwR yd_len | rwR Pn_m]; exact Hi.
    - unfold nn_row_minus_col.
      etransitivity; [apply tab_row; rwR yh_len; exact Hi|]. f_equal. f_equal. exact Hy.
  Qed.
  Lemma W_entry_m i j : (i < n)%nat -> (j < n)%nat -> @nn_entry ROps W i j = @Wm ROps ex L X yv i j.
  Proof.
    intros Hi Hj. unfold nn_entry. rwR (W_row i Hi). rwR (P_row_m i Hi).
    etransitivity; [apply (nth_map2 (omul ROps) 0 0 0); [rewrite vscale_length, map_length, seq_length | rewrite map_length, seq_length]; exact Hj|].
    rwR (nth_vscale (nth i yd 0) (map (fun j0 => @pp ROps ex L X i j0) (seq 0 n)) j).
    rwR (nth_map_seq (fun j0 => @pp ROps ex L X i j0) 0 n 0 j Hj).
    rwR (nth_map_seq (fun j0 => osub ROps (nth j0 yv 0) (nth i yh 0)) 0 n 0 j Hj).
    rwR (yd_nth i Hi). rwR (yh_nth i Hi).
    unfold Wm. cbn [Nat.add omul osub o0 ROps]. rsimp. ring.
  Qed.
  Lemma W_rows_len_m : Forall (fun r : Rv => length r = n) W.
  Proof.
    apply Forall_forall. intros r Hr. apply (In_nth _ _ []) in Hr. destruct Hr as [i [Hi0 Hr]]. subst r.
    assert (Hi: (i < n)%nat) by (rewrite <- W_len; exact Hi0).
    rwR (W_row i Hi). rwR (P_row_m i Hi).
    etransitivity; [apply map2_length; rewrite vscale_length, !map_length, !seq_length; reflexivity|].
    rewrite vscale_length, map_length, seq_length. reflexivity.
  Qed.

  Theorem S_entry_m i j : (i < n)%nat -> (j < n)%nat ->
    @nn_entry ROps (@nn_fill_diag ROps (@nn_add_m_mt ROps W) (@nn_neg_v ROps (@nn_sum_cols ROps n W))) i j = @Sm ROps ex L X yv i j.
  Proof.
    intros Hi Hj.
    etransitivity; [apply (sym_fill_entry n W (@Wm ROps ex L X yv) W_len W_rows_len_m W_entry_m i j Hi Hj)|].
    unfold Sm. destruct (Nat.eqb i j); reflexivity.
  Qed.
End StageM.

Theorem mlkr_src_grad (ex : R -> R) (k d : nat) (L X : Rm) (yv : Rv) :
  wfmR k d L -> Forall (wfvR d) X -> (0 < length X)%nat -> length yv = length X ->
  snd (@mlkr_src ROps ex L X yv) = @mlkr_grad ROps ex k d L X yv.
Proof.
  intros HL HX Hn Hy. unfold mlkr_src. cbn [snd].
  set (E := @nn_dot_mt ROps X L).
  unfold nn_mul_sm.
  match goal with |- mscaleR _ (nn_dot_mm (nn_dot_tm _ ?s) _) = _ => set (S := s) end.
  assert (EL: length E = length X) by (unfold E, nn_dot_mt; apply map_length).
  assert (EW: Forall (wfvR k) E).
  { unfold E, nn_dot_mt. apply Forall_forall. intros r Hr. apply in_map_iff in Hr as [x [<- _]]. unfold wfv. rewrite map_length. apply HL. }
  assert (SW: wfmR (length X) (length X) S).
  { unfold S, nn_fill_diag.
    match goal with |- context [nn_add_m_mt ?w] => assert (WL: length w = length X) by (apply (W_len ex L X yv Hy)) end.
    match goal with |- context [nn_add_m_mt ?w] => assert (AL: length (@nn_add_m_mt ROps w) = length X) by (unfold nn_add_m_mt; rewrite tab_length; exact WL) end.
    rewrite AL. unfold nn_tab. split.
    - rewrite map_length, seq_length. reflexivity.
    - apply Forall_forall. intros r Hr. apply in_map_iff in Hr as [i [<- _]]. unfold wfv. rewrite map_length, seq_length. reflexivity. }
  rewrite (dot_tm_mm_as_msum (length X) k d E S X Hn EL EW SW eq_refl HX).
  unfold mlkr_grad. f_equal.
  apply msum_ext. intros i Hi. apply msum_ext. intros j Hj. f_equal.
  - unfold S, E. apply (S_entry_m ex d L X yv HX Hy i j Hi Hj).
  - f_equal. unfold E. apply (emb_row L X i Hi).
Qed.

(* what MLKR.fit does with the loss: one L-BFGS-B call on it, result reshaped into components_ *)
Lemma mlkr_skeleton_ok : mlkr_skeleton =
  [ "res = minimize(self._loss, A.ravel(), (X, y), method='L-BFGS-B', jac=True, tol=self.tol, options=dict(maxiter=self.max_iter))"
  ; "self.components_ = res.x.reshape(A.shape)" ]%string.
Proof. reflexivity. Qed.
