(* Text-level tie of C14: the hand-written model / harness of this property was written from exactly these versions of the
   functions below (normalised source, digests regenerated from /repo on every run in gen/Src_pins.v; the text itself is in
   /verif/pins/).  A function that changes breaks this lemma; the check then looks for a failing input and reports the
   obligation with a diff.  Rewritten by `tools/translate_pins.py --update` after a repair of /repo. *)
From Coq Require Import String List.
From MLgen Require Import Src_pins.
Import ListNotations.
Open Scope string_scope.

Lemma pins_C14_ok :
  [ pin_mmc__BaseMMC__fit
  ; pin_mmc__BaseMMC__fit_full
  ; pin_mmc__BaseMMC__fit_diag
  ; pin_mmc__BaseMMC__fD
  ; pin_mmc__BaseMMC__fD1
  ; pin_mmc__BaseMMC__fS1
  ; pin_mmc__BaseMMC__grad_projection
  ; pin_mmc__BaseMMC__D_objective
  ; pin_mmc__BaseMMC__D_constraint ] =
  [ "d6177c10fcf81878444d570422237c3837047220351535640ba7bf8a66368379"   (* mmc.py: _BaseMMC._fit *)
  ; "c17e7ba6fe50804e3f75b3449d52e52fff8c35b645d161b9976b7fd49e47f544"   (* mmc.py: _BaseMMC._fit_full *)
  ; "67b9d916b703ef0aca25257415d44f9072efb1ce29a380710cff7da76718b75f"   (* mmc.py: _BaseMMC._fit_diag *)
  ; "4b9c646ce9a305fe58eb96c84fd2d9d21872b237ed4fd78a942ae4b472245a16"   (* mmc.py: _BaseMMC._fD *)
  ; "697cd19c49a4ec0e761a431da96f810b62c26e483087378b5916c0c53a9cb8bb"   (* mmc.py: _BaseMMC._fD1 *)
  ; "d9704a945a289f4a31d70a2af199a430b1a89f40e1b0d732d960dd31223f1fe2"   (* mmc.py: _BaseMMC._fS1 *)
  ; "0360f0bcc0ea399c37f050df85bb7c09d51d8c475cf3d6ef0c509219ddd039ce"   (* mmc.py: _BaseMMC._grad_projection *)
  ; "00b0ad460a10168613284f9404a130614667e6ac543ac53d0681e9b5db26ebfd"   (* mmc.py: _BaseMMC._D_objective *)
  ; "9968562c85556da426269077323bd68d77bdf09f1018f645cb05bf6c8abd9d8c"   (* mmc.py: _BaseMMC._D_constraint *) ].
Proof. reflexivity. Qed.
