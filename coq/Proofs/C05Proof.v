From Coq Require Import List Arith Bool Lia.
From ML Require Import Preproc Validate C06Proof.
Import ListNotations.

Section Pre.
  Context {I P : Type}.
  Variables (di : I) (dp : P).
  Variable pre1 : I -> P.          (* what the preprocessor makes of ONE indicator *)

  Lemma map_nth_seq {A} (l : list A) (d : A) : map (fun i => nth i l d) (seq 0 (length l)) = l.
  Proof.
    induction l as [|a l IH]; cbn; auto. f_equal. rewrite <- seq_shift, map_map. exact IH.
  Qed.

  (* a preprocessor that forms points from indicators, indicator by indicator *)
  Theorem preprocess_tuples_form (pre : list I -> list P) width T :
    (forall l, pre l = map pre1 l) ->
    Forall (fun row => length row = width) T ->
    preprocess_tuples di dp pre width T = map (map pre1) T.
  Proof.
    intros Hpre Hw. unfold preprocess_tuples.
    assert (E: forall j, j < length T ->
      map (fun c => nth j c dp) (map (fun i => pre (icol di i T)) (seq 0 width)) = map pre1 (nth j T [])).
    { intros j Hj. rewrite map_map.
      assert (Hl: length (nth j T []) = width).
      { rewrite Forall_forall in Hw. apply Hw. apply nth_In; auto. }
      set (row := nth j T []) in *.
      replace (map pre1 row) with (map pre1 (map (fun i => nth i row di) (seq 0 (length row))))
        by (rewrite map_nth_seq; reflexivity).
      rewrite Hl, map_map.
      apply map_ext. intro i. rewrite Hpre. unfold icol. rewrite map_map.
      rewrite (nth_indep _ dp (pre1 (nth i [] di))) by (rewrite map_length; auto).
      unfold row. apply (map_nth (fun r => pre1 (nth i r di))). }
    replace (map (map pre1) T) with (map (map pre1) (map (fun j => nth j T []) (seq 0 (length T))))
      by (rewrite map_nth_seq; reflexivity).
    rewrite map_map.
    apply map_ext_in. intros j Hj. apply in_seq in Hj. apply E. lia.
  Qed.

  (* array-like preprocessors: X[indices], any order, repeats allowed *)
  Theorem indexer_pointwise (X : list P) idx : indexer dp X idx = map (fun i => nth i X dp) idx.
  Proof. reflexivity. Qed.
End Pre.

(* validation of indicators + preprocessor = validation of the formed data (same array, same checks) *)
Theorem indices_eq_formed di f y pre' ty ts o :
  ndim di = match ty with Classic => 1 | Tuples => 2 end ->
  ndim f = match ty with Classic => 2 | Tuples => 3 end ->
  dim di 0 = dim f 0 -> sk_bad_permissive di = false -> sk_bad_permissive f = false ->
  check_input di y (Some (Ok f)) ty ts o = check_input f y pre' ty ts o.
Proof.
  intros Hdi Hf Hn Pdi Pf. unfold check_input. rewrite Pdi, Pf, Hn.
  destruct (y_bad (dim f 0) y); [reflexivity|].
  destruct ty.
  - unfold check_input_classic. rewrite Hdi, Hf. cbn [Nat.eqb]. reflexivity.
  - unfold check_input_tuples. rewrite Hdi, Hf. cbn [Nat.eqb]. reflexivity.
Qed.

(* formed data never consults the preprocessor *)
Theorem formed_ignores_preprocessor f y p1 p2 ty ts o :
  ndim f = match ty with Classic => 2 | Tuples => 3 end ->
  check_input f y p1 ty ts o = check_input f y p2 ty ts o.
Proof.
  intro Hf. unfold check_input. destruct (sk_bad_permissive f); [reflexivity|].
  destruct (y_bad (dim f 0) y); [reflexivity|].
  destruct ty.
  - unfold check_input_classic. rewrite Hf. cbn [Nat.eqb]. reflexivity.
  - unfold check_input_tuples. rewrite Hf. cbn [Nat.eqb]. reflexivity.
Qed.

(* an exception inside the preprocessor surfaces as PreprocessorError *)
Theorem preprocessor_error_wrapped di y e ty ts o :
  ndim di = match ty with Classic => 1 | Tuples => 2 end ->
  sk_bad_permissive di = false -> y_bad (dim di 0) y = false ->
  check_input di y (Some (Raise e)) ty ts o = Raise PreprocessorError.
Proof.
  intros Hdi P Y. unfold check_input. rewrite P, Y.
  destruct ty.
  - unfold check_input_classic. rewrite Hdi. reflexivity.
  - unfold check_input_tuples. rewrite Hdi. reflexivity.
Qed.
