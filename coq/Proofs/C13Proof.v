From Coq Require Import List Arith Bool Reals Lra Psatz Lia.
From ML Require Import Ops Vec NP VecR MatR LinAlg SDML C20Proof.
Import ListNotations.
Open Scope R_scope.

(* the loss matrix is sum_i y_i v_i v_i^T: x^T loss x = sum_i y_i (v_i . x)^2 *)
Theorem loss_matrix_form d (ys : Rv) (diffs : Rm) x : Forall (wfvR d) diffs -> wfvR d x ->
  quadformR (@loss_matrix ROps d ys diffs) x = wsq ys diffs x.
Proof. intros. unfold loss_matrix. apply quadform_wgram; auto. Qed.

Theorem emp_cov_form d (P : Rm) (b : R) (ys : Rv) (diffs : Rm) x :
  wfmR d d P -> Forall (wfvR d) diffs -> wfvR d x ->
  quadformR (@emp_cov ROps d P b ys diffs) x = quadformR P x + b * wsq ys diffs x.
Proof.
  intros HP Hd Hx. unfold emp_cov.
  rewrite (quadform_madd d d); auto.
  - rewrite quadform_mscale, loss_matrix_form by auto. reflexivity.
  - apply mscale_wfm. unfold loss_matrix. apply wgram_wfm; auto.
Qed.

(* swapping the two points of a pair (v -> -v) does not change the loss matrix *)
Lemma wsq_neg_one (ys : Rv) (diffs : Rm) x k : 
  wsq ys (map (fun iv => if Nat.eqb (fst iv) k then vnegR (snd iv) else snd iv) (combine (seq 0 (length diffs)) diffs)) x
  = wsq ys diffs x.
Proof.
  generalize 0%nat as s. revert ys. induction diffs as [|v diffs IH]; intros [|y ys] s; cbn; auto.
  rewrite IH. destruct (Nat.eqb s k); [rewrite vdot_vneg_l|]; rsimp; ring.
Qed.

(* vetting: fit returns only a finite matrix whose tested eigenvalues are all >= 0 *)
Theorem vetting_spec raised not_spd not_finite :
  vet raised not_spd not_finite = SdmlReturns <-> raised = false /\ not_spd = false /\ not_finite = false.
Proof. unfold vet. destruct raised, not_spd, not_finite; cbn; split; try discriminate; try tauto; intros [? [? ?]]; discriminate. Qed.

(* the KKT checker (tol = 0) states exactly that 0 is in the sub-differential, entry by entry:
   off-diagonal: exists z in d(alpha |.|)(m) with (s - minv) + z = 0; diagonal: s - minv = 0 *)
Definition subdiff (alpha m z : R) : Prop :=
  (0 < m -> z = alpha) /\ (m < 0 -> z = - alpha) /\ (m = 0 -> - alpha <= z <= alpha).

Lemma sgn_cases (m : R) : (0 < m /\ @sgn ROps m = 1) \/ (m < 0 /\ @sgn ROps m = -1) \/ (m = 0 /\ @sgn ROps m = 0).
Proof.
  unfold sgn. cbn. destruct (Rltb 0 m) eqn:E1.
  - apply Rltb_true in E1. left; auto.
  - apply Rltb_false in E1. destruct (Rltb m 0) eqn:E2.
    + apply Rltb_true in E2. right; left; auto.
    + apply Rltb_false in E2. right; right. split; lra.
Qed.

Theorem kkt_entry_stationary (alpha s minv m : R) : 0 <= alpha ->
  (@kkt_entry ROps alpha 0 false s minv m = true <-> exists z, subdiff alpha m z /\ (s - minv) + z = 0) /\
  (@kkt_entry ROps alpha 0 true s minv m = true <-> s - minv = 0).
Proof.
  intro Ha. unfold kkt_entry, is_zero. rewrite !oabs_Rabs. cbn [oleb osub oadd omul o0 ROps].
  assert (AbsLe: forall r t : R, Rleb (Rabs r) t = true <-> - t <= r <= t).
  { intros r t. rewrite Rleb_true. unfold Rabs. destruct (Rcase_abs r); split; intro; lra. }
  split.
  - destruct (Rleb m 0 && Rleb 0 m) eqn:Ez.
    + apply andb_true_iff in Ez as [E1 E2]. apply Rleb_true in E1. apply Rleb_true in E2.
      assert (Hm: m = 0) by lra.
      rewrite AbsLe. split.
      * intro H. exists (- (s - minv)). split; [|lra]. unfold subdiff. repeat split; intros; try lra.
      * intros [z [[_ [_ H0]] Hz]]. specialize (H0 Hm). lra.
    + assert (Hm: m <> 0).
      { intro; subst. rewrite andb_false_iff in Ez. destruct Ez as [E|E]; apply Rleb_false in E; lra. }
      rewrite AbsLe. destruct (sgn_cases m) as [[Hp ->]|[[Hn ->]|[Hz _]]]; [| |contradiction].
      * split; [intro H; exists alpha; split; [unfold subdiff; repeat split; intros; lra | lra]
               | intros [z [[H1 _] Hz]]; rewrite (H1 Hp) in Hz; lra].
      * split; [intro H; exists (- alpha); split; [unfold subdiff; repeat split; intros; lra | lra]
               | intros [z [[_ [H2 _]] Hz]]; rewrite (H2 Hn) in Hz; lra].
  - rewrite AbsLe. split; intro; lra.
Qed.
