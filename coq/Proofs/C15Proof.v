From Coq Require Import List Arith Bool ZArith Reals Lra Lia Psatz.
From ML Require Import Ops Vec NP VecR MatR LinAlg SCML Mahalanobis MahalanobisR C20Proof.
Import ListNotations.
Open Scope R_scope.

Notation stateR := (@state ROps).
Notation paramsR := (@params ROps).

Lemma ofn_INR n : @ofn ROps n = INR n.
Proof. unfold ofn. cbn. symmetry. apply INR_IZR_INZ. Qed.

Lemma Forall_map2_any {A B C} (P : C -> Prop) (f : A -> B -> C) : forall l1 l2,
  (forall a b, P (f a b)) -> Forall P (map2 f l1 l2).
Proof. induction l1 as [|a l1 IH]; intros [|b l2] H; cbn; constructor; auto. Qed.
Lemma Forall_map2_r {A B C} (Q : B -> Prop) (P : C -> Prop) (f : A -> B -> C) : forall l1 l2,
  Forall Q l2 -> (forall a b, Q b -> P (f a b)) -> Forall P (map2 f l1 l2).
Proof. induction l1 as [|a l1 IH]; intros [|b l2] HQ H; cbn; constructor; inversion HQ; subst; auto. Qed.

Lemma omin_le0 (a : R) : @omin ROps a 0 <= 0.
Proof. unfold omin. cbn. destruct (Rleb a 0) eqn:E; [apply Rleb_true in E; lra | lra]. Qed.

(* every weight produced by a dual-averaging step is non-negative, whatever the batch, the
   triplets, the basis and the previous state *)
Theorem scml_step_nonneg (p : paramsR) D nb iter idx (s : stateR) :
  0 < gamma p -> 0 < delta p -> Forall (fun a => 0 <= a) (w (step p D nb iter idx s)).
Proof.
  intros Hg Hd. unfold step. cbn [w].
  apply (Forall_map2_r (fun ad => 0 <= ad)).
  - apply Forall_map2_any. intros a g. cbn [osqrt ROps]. apply sqrt_pos.
  - intros a ad Had. cbn [omul oopp odiv oadd o0 ROps]. rewrite ofn_INR.
    pose proof (omin_le0 (a + beta p)) as Hm. cbn [oadd ROps] in Hm.
    pose proof (pos_INR (S iter)) as Hk.
    assert (Hden: 0 < gamma p * (delta p + ad)) by nra.
    assert (0 <= INR (S iter) / (gamma p * (delta p + ad))).
    { apply Rmult_le_pos; auto. apply Rlt_le, Rinv_0_lt_compat; auto. }
    rsimp. nra.
Qed.

Definition state_ok (s : stateR) : Prop :=
  Forall (fun a => 0 <= a) (w s) /\
  match best s with Some (_, bw) => Forall (fun a => 0 <= a) bw | None => True end.

Lemma step_ok (p : paramsR) D nb iter idx s : 0 < gamma p -> 0 < delta p -> state_ok s ->
  state_ok (step p D nb iter idx s).
Proof.
  intros Hg Hd [Hw Hb]. split; [apply scml_step_nonneg; auto|].
  pose proof (scml_step_nonneg p D nb iter idx s Hg Hd) as Hn.
  unfold step in *. cbn [w best] in *.
  destruct (Nat.eqb (Nat.modulo (S iter) (output_iter p)) 0); [|exact Hb].
  destruct (best s) as [[bo bw]|]; [|exact Hn].
  match goal with |- match (if ?c then _ else _) with _ => _ end => destruct c end; [exact Hn | exact Hb].
Qed.

(* ... hence after any number of iterations, for any sequence of batches, the current weights and
   the best checkpoint's weights are non-negative *)
Theorem scml_run_nonneg (p : paramsR) D nb : forall batches iter s,
  0 < gamma p -> 0 < delta p -> state_ok s -> state_ok (run p D nb iter batches s).
Proof.
  induction batches as [|idx more IH]; intros iter s Hg Hd Hs; cbn [run]; auto.
  apply IH; auto. apply step_ok; auto.
Qed.

Lemma init_ok nb : state_ok (@init ROps nb).
Proof. split; [|exact I]. cbn. induction nb; cbn; constructor; auto; lra. Qed.

(* the metric sum_i w_i b_i b_i^T of non-negative weights is PSD (from MatR.wgram_psd), and the
   low-rank factor sqrt(w_i) b_i over the active rows reproduces it *)
Lemma wsq_active : forall (wv : Rv) (B : Rm) x, Forall (fun a => 0 <= a) wv ->
  vsumsqR (mvmulR (@lowrank_components ROps wv B) x) = wsq wv B x.
Proof.
  unfold lowrank_components, active_pairs.
  induction wv as [|a wv IH]; intros [|b B] x Hw; try reflexivity.
  inversion Hw as [|? ? Ha Hw']; subst. cbn [combine filter fst snd oltb o0 ROps wsq].
  destruct (Rltb 0 a) eqn:E.
  - cbn [map fst snd]. rewrite vsumsq_mvmul_cons. fold (@active_pairs ROps wv B).
    unfold active_pairs. rewrite IH by auto. rewrite vdot_vscale_l. cbn [osqrt ROps].
    replace ((sqrt a * vdotR b x)^2) with ((sqrt a * sqrt a) * (vdotR b x)^2) by (rsimp; ring).
    rewrite sqrt_sqrt by auto. reflexivity.
  - apply Rltb_false in E. assert (a = 0) by lra. subst. rewrite IH by auto. rsimp. lra.
Qed.

Theorem scml_lowrank_factor d (wv : Rv) (B : Rm) x : Forall (wfvR d) B -> wfvR d x ->
  Forall (fun a => 0 <= a) wv ->
  vsumsqR (mvmulR (@lowrank_components ROps wv B) x) = quadformR (wgramR d wv B) x.
Proof. intros HB Hx Hw. rewrite wsq_active, quadform_wgram; auto. Qed.

(* the number of rows of the low-rank factor is the number of active (positive) weights *)
Theorem scml_lowrank_rows (wv : Rv) (B : Rm) : length wv = length B ->
  length (@lowrank_components ROps wv B) = length (filter (fun a => Rltb 0 a) wv).
Proof.
  unfold lowrank_components, active_pairs. rewrite map_length.
  revert B. induction wv as [|a wv IH]; intros [|b B] H; try reflexivity; try discriminate.
  cbn [combine filter fst oltb o0 ROps]. destruct (Rltb 0 a); cbn [length]; rewrite IH; auto.
Qed.
