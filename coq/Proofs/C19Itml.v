(* C19, rotations, for a solver written in this repository: ITML.  If all pair differences are mapped through a matrix Q
   that preserves inner products and the prior A0 is mapped to A0' with A0' Q = Q A0 (A0' = Q A0 Q^T; the identity and the
   covariance prior are), then after every number of sweeps the dual variables and slack bounds are the same and the
   learned matrices are related in the same way, A' Q = Q A: learned distances between corresponding points are equal.
   Stated in action form (no matrix product). *)
From Coq Require Import List Arith Bool Reals Lra Lia.
From ML Require Import Ops Vec NP VecR MatR PSD LinAlg ITML C11Proof.
Import ListNotations.
Open Scope R_scope.

Section Rot.
  Variables (d : nat) (Q : Rm).
  Hypothesis HQwf : wfmR d d Q.
  Hypothesis HQdot : forall x y, wfvR d x -> wfvR d y -> vdotR (mvmulR Q x) (mvmulR Q y) = vdotR x y.

  Definition conjQ (A A' : Rm) : Prop := forall x, wfvR d x -> mvmulR A' (mvmulR Q x) = mvmulR Q (mvmulR A x).
  Definition rotc (c : cstrR) : cstrR := @Build_cstr ROps (mvmulR Q (cv c)) (cpos c).

  Lemma Qx_wf x : wfvR d (mvmulR Q x).
  Proof. unfold wfv. rewrite mvmul_length. apply HQwf. Qed.

  Lemma Ax_wf (A : Rm) x : wfmR d d A -> wfvR d (mvmulR A x).
  Proof. intro HA. unfold wfv. rewrite mvmul_length. apply HA. Qed.

  (* the quadratic form the solver calls wtw is preserved *)
  Lemma wtw_rot (A A' : Rm) v : wfmR d d A -> conjQ A A' -> wfvR d v ->
    vdotR (mvmulR Q v) (mvmulR A' (mvmulR Q v)) = vdotR v (mvmulR A v).
  Proof. intros HA HC Hv. rewrite (HC v Hv). apply HQdot; [exact Hv | apply Ax_wf, HA]. Qed.

  (* one rank-one update keeps the relation *)
  Lemma rank_one_rot (A A' : Rm) v beta : wfmR d d A -> wfmR d d A' -> conjQ A A' -> wfvR d v ->
    conjQ (maddR A (outerR (mvmulR A v) (vscaleR beta (mvmulR A v))))
          (maddR A' (outerR (mvmulR A' (mvmulR Q v)) (vscaleR beta (mvmulR A' (mvmulR Q v))))).
  Proof.
    intros HA HA' HC Hv x Hx.
    pose proof (Ax_wf A v HA) as HAv. pose proof (Ax_wf A' (mvmulR Q v) HA') as HAv'.
    rewrite (mvmul_madd_kd d d A' _ (mvmulR Q x) HA') by (apply outer_wfm_kd; [exact HAv' | unfold wfv; rewrite vscale_length; exact HAv']).
    rewrite (mvmul_madd_kd d d A _ x HA) by (apply outer_wfm_kd; [exact HAv | unfold wfv; rewrite vscale_length; exact HAv]).
    rewrite !mvmul_outer, !vdot_vscale_l, (HC x Hx), (HC v Hv).
    rewrite (HQdot (mvmulR A v) x HAv Hx).
    rewrite mvmul_vadd by (rewrite vscale_length, !mvmul_length; reflexivity).
    rewrite mvmul_vscale. reflexivity.
  Qed.

  Lemma update_rot (g : option R) (c : cstrR) (A A' : Rm) (du : dualR) :
    wfmR d d A -> wfmR d d A' -> conjQ A A' -> wfvR d (cv c) ->
    snd (updateR g (rotc c) A' du) = snd (updateR g c A du) /\
    conjQ (fst (updateR g c A du)) (fst (updateR g (rotc c) A' du)) /\
    wfmR d d (fst (updateR g c A du)) /\ wfmR d d (fst (updateR g (rotc c) A' du)).
  Proof.
    intros HA HA' HC Hv. unfold update, rotc. cbn [cv cpos].
    rewrite (wtw_rot A A' (cv c) HA HC Hv).
    pose proof (Ax_wf A (cv c) HA) as HAv. pose proof (Ax_wf A' (mvmulR Q (cv c)) HA') as HAv'.
    assert (W: forall (B : Rm) (u : Rv) b, wfmR d d B -> wfvR d u -> wfmR d d (maddR B (outerR u (vscaleR b u)))).
    { intros B u b HB Hu. apply madd_wfm; [exact HB|]. apply outer_wfm_kd; [exact Hu | unfold wfv; rewrite vscale_length; exact Hu]. }
    destruct (cpos c); cbn [fst snd]; (split; [reflexivity|]); (split; [apply rank_one_rot; auto|]); split; apply W; auto.
  Qed.

  Lemma sweep_aux_rot (g : option R) : forall (cs : list cstrR) (A A' : Rm) (ds : list dualR),
    wfmR d d A -> wfmR d d A' -> conjQ A A' -> Forall (fun c => wfvR d (cv c)) cs ->
    snd (sweep_auxR g (map rotc cs) A' ds) = snd (sweep_auxR g cs A ds) /\
    conjQ (fst (sweep_auxR g cs A ds)) (fst (sweep_auxR g (map rotc cs) A' ds)) /\
    wfmR d d (fst (sweep_auxR g cs A ds)) /\ wfmR d d (fst (sweep_auxR g (map rotc cs) A' ds)).
  Proof.
    induction cs as [|c cs IH]; intros A A' ds HA HA' HC Hcs; cbn [map sweep_aux].
    - cbn. auto.
    - destruct ds as [|du ds]; [cbn; auto|].
      inversion Hcs as [|? ? Hc Hcs']; subst.
      destruct (update_rot g c A A' du HA HA' HC Hc) as [E1 [E2 [E3 E4]]].
      destruct (updateR g c A du) as [A1 du1] eqn:U. destruct (updateR g (rotc c) A' du) as [A1' du1'] eqn:U'.
      cbn [fst snd] in *. subst du1'.
      destruct (IH A1 A1' ds E3 E4 E2 Hcs') as [F1 [F2 [F3 F4]]].
      destruct (sweep_auxR g cs A1 ds) as [A2 ds2] eqn:S. destruct (sweep_auxR g (map rotc cs) A1' ds) as [A2' ds2'] eqn:S'.
      cbn [fst snd] in *. subst ds2'. auto.
  Qed.

  Definition rel (s s' : stR) : Prop :=
    duals s' = duals s /\ conjQ (A s) (A s') /\ wfmR d d (A s) /\ wfmR d d (A s').

  Lemma sweep_rot (g : option R) (cs : list cstrR) (s s' : stR) : Forall (fun c => wfvR d (cv c)) cs ->
    rel s s' -> rel (sweepR g cs s) (sweepR g (map rotc cs) s').
  Proof.
    intros Hcs [Hd [HC [HA HA']]]. unfold sweep. rewrite Hd.
    destruct (sweep_aux_rot g cs (A s) (A s') (duals s) HA HA' HC Hcs) as [F1 [F2 [F3 F4]]].
    destruct (sweep_auxR g cs (A s) (duals s)) as [A2 ds2]. destruct (sweep_auxR g (map rotc cs) (A s') (duals s)) as [A2' ds2'].
    cbn [fst snd] in *. unfold rel. cbn [A duals]. auto.
  Qed.

  Theorem itml_rotation (g : option R) (cs : list cstrR) (A0 A0' : Rm) (lo hi : R) (n : nat) :
    Forall (fun c => wfvR d (cv c)) cs -> wfmR d d A0 -> wfmR d d A0' -> conjQ A0 A0' ->
    rel (runR g cs n (@init ROps A0 cs lo hi)) (runR g (map rotc cs) n (@init ROps A0' (map rotc cs) lo hi)).
  Proof.
    intros Hcs HA HA' HC.
    assert (H0: rel (@init ROps A0 cs lo hi) (@init ROps A0' (map rotc cs) lo hi)).
    { unfold rel, init. cbn [A duals]. rewrite map_map. auto. }
    revert H0. generalize (@init ROps A0 cs lo hi) (@init ROps A0' (map rotc cs) lo hi).
    induction n as [|n IH]; intros s s' H; cbn [run]; [exact H|].
    apply IH. apply sweep_rot; auto.
  Qed.

  (* learned squared distances between corresponding points coincide *)
  Corollary conj_distance (A A' : Rm) z : wfmR d d A -> conjQ A A' -> wfvR d z ->
    quadformR A' (mvmulR Q z) = quadformR A z.
  Proof. intros HA HC Hz. unfold quadform. apply wtw_rot; auto. Qed.
End Rot.
