From Coq Require Import List Arith Bool.
From ML Require Import Estimator.
Import ListNotations.

Section Hist.
  Variables (P D C T : Type) (solve : P -> D -> C) (calib : P -> D -> C -> T) (dshape : D -> list nat).
  Notation est := (est P C T).
  Notation op := (op P D T).
  Notation stepA := (step P D C T solve calib dshape Always LastAxis).
  Notation runA := (run P D C T solve calib dshape Always LastAxis).

  Lemma run_app (w : when_t) (a : axis_t) e ops1 ops2 :
    run P D C T solve calib dshape w a e (ops1 ++ ops2) =
    run P D C T solve calib dshape w a (run P D C T solve calib dshape w a e ops1) ops2.
  Proof. unfold run. apply fold_left_app. Qed.

  (* the fitted state after a final Fit depends only on the current parameters and that data *)
  Theorem last_fit_determines e ops d :
    let e1 := runA e ops in
    runA e (ops ++ [Fit P D T d]) =
      {| prm := prm _ _ _ e1; comps := Some (solve (prm _ _ _ e1) d);
         thr := Some (calib (prm _ _ _ e1) d (solve (prm _ _ _ e1) d));
         nfi := Some (last (dshape d) 0) |}.
  Proof. intro e1. rewrite run_app. reflexivity. Qed.

  (* ... hence equals what a fresh clone with the same parameters learns from d alone *)
  Corollary history_independent e ops d :
    let p := prm _ _ _ (runA e ops) in
    let a := runA e (ops ++ [Fit P D T d]) in
    let b := runA (fresh P C T p) [Fit P D T d] in
    comps _ _ _ a = comps _ _ _ b /\ thr _ _ _ a = thr _ _ _ b /\ nfi _ _ _ a = nfi _ _ _ b.
  Proof. intros p a b. unfold a. rewrite last_fit_determines. repeat split. Qed.

  (* query operations do not change the state; only SetParams changes the parameters *)
  Theorem queries_preserve_state (w : when_t) (ax : axis_t) e o :
    match o with Query _ _ _ | GetMetric _ _ _ | CloneOp _ _ _ | PickleRoundTrip _ _ _ => True | _ => False end ->
    step P D C T solve calib dshape w ax e o = e.
  Proof. destruct o; intro H; try contradiction; reflexivity. Qed.

  Theorem params_only_by_set_params (w : when_t) (ax : axis_t) e o :
    (forall p, o <> SetParams P D T p) -> prm _ _ _ (step P D C T solve calib dshape w ax e o) = prm _ _ _ e.
  Proof. intro H. destruct o; try reflexivity.
    - exfalso. apply (H p). reflexivity.
    - cbn. destruct (comps _ _ _ e); reflexivity. Qed.

  (* a get_metric closure keeps computing with the components it was created from *)
  Theorem get_metric_snapshot (w : when_t) (ax : axis_t) e ops :
    closure_components P C T true e (run P D C T solve calib dshape w ax e ops) = comps _ _ _ e.
  Proof. reflexivity. Qed.
End Hist.
