(* Text-level tie of C09: the hand-written model / harness of this property was written from exactly these versions of the
   functions below (normalised source, digests regenerated from /repo on every run in gen/Src_pins.v; the text itself is in
   /verif/pins/).  A function that changes breaks this lemma; the check then looks for a failing input and reports the
   obligation with a diff.  Rewritten by `tools/translate_pins.py --update` after a repair of /repo. *)
From Coq Require Import String List.
From MLgen Require Import Src_pins.
Import ListNotations.
Open Scope string_scope.

Lemma pins_C09_ok :
  [ pin_covariance__Covariance__fit
  ; pin_rca__chunk_mean_centering
  ; pin_rca__RCA__check_dimension
  ; pin_rca__RCA__fit
  ; pin_rca__inv_sqrtm
  ; pin_lfda__LFDA__fit
  ; pin_lfda__sum_outer
  ; pin_lfda__eigh ] =
  [ "4d750950ee63c1f581ecc42113cadd8c53da41a087c9a0d2c6886758c63dd726"   (* covariance.py: Covariance.fit *)
  ; "c85a702afae0b3a7c5eb021e8bedf0693bc15d3f9038379c89700722857e27c7"   (* rca.py: _chunk_mean_centering *)
  ; "31cb67bdae76ff48e936dfce9615c0e29b49fb6a8b6fd48ca8a21a4b9eb284c4"   (* rca.py: RCA._check_dimension *)
  ; "d248cc50e55f0d3ff8037994bdc1f0c0fabd757ec2443b78436ce145bc16d2d9"   (* rca.py: RCA.fit *)
  ; "0be98b4b952b2caaefbe22b92e2ec6942fec44d8ac370679763cea1ae958c4e2"   (* rca.py: _inv_sqrtm *)
  ; "9fea55bbd17833d1e96978e25a548d1318429c5bed048256a73119cfa5764f7e"   (* lfda.py: LFDA.fit *)
  ; "d4fc434fedbb0eca0b1fdd79203588f462f7e4a0dbc7de757da015246f65dd9c"   (* lfda.py: _sum_outer *)
  ; "d0819a539a6abe015e7a07178bbf0dd36e9cd711920df5db37c21ab78c8b3980"   (* lfda.py: _eigh *) ].
Proof. reflexivity. Qed.
