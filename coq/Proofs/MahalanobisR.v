From Coq Require Import List Arith Reals Lra Psatz Lia.
From ML Require Import Ops Vec VecR MatR Mahalanobis.
Import ListNotations.
Open Scope R_scope.

Notation distR := (@dist ROps).
Notation sqdistR := (@sqdist ROps).
Notation mahalanobisR := (@mahalanobis ROps).


Section Metric.
  Variables (k d : nat) (L : Rm).
  Hypothesis HL : wfmR k d L.

  Lemma sqdist_nonneg x y : 0 <= sqdistR L x y.
  Proof. apply vsumsq_nonneg. Qed.

  Lemma dist_nonneg x y : 0 <= distR L x y.
  Proof. apply sqrt_pos. Qed.

  Lemma dist_refl x : distR L x x = 0.
  Proof.
    unfold dist, sqdist. rewrite vsub_self, mvmul_vzero, vsumsq_vzero. apply sqrt_0.
  Qed.

  Lemma sqdist_sym x y : sqdistR L x y = sqdistR L y x.
  Proof.
    unfold sqdist. rewrite (vsub_anti x y), mvmul_vneg, vsumsq_vneg. reflexivity.
  Qed.

  Lemma dist_sym x y : distR L x y = distR L y x.
  Proof. unfold dist. rewrite sqdist_sym. reflexivity. Qed.

  Lemma dist_triangle x y z : wfvR d x -> wfvR d y -> wfvR d z ->
    distR L x z <= distR L x y + distR L y z.
  Proof.
    intros Hx Hy Hz. unfold dist, sqdist.
    rewrite (vsub_chain x y z) by rcong.
    rewrite mvmul_vadd by (rewrite !vsub_length; rcong).
    apply minkowski. rewrite !mvmul_length. reflexivity.
  Qed.

  Lemma metric_fun_eq_dist u v : @metric_fun ROps L u v false = distR L v u.
  Proof. reflexivity. Qed.

  Lemma metric_fun_sq_eq u v : @metric_fun ROps L u v true = sqdistR L v u.
  Proof. reflexivity. Qed.

  Lemma metric_fun_squared u v :
    @metric_fun ROps L u v true = (@metric_fun ROps L u v false)^2.
  Proof.
    rewrite metric_fun_eq_dist, metric_fun_sq_eq. unfold dist.
    cbn [pow]. rewrite Rmult_1_r, sqrt_sqrt; auto. apply sqdist_nonneg.
  Qed.

  Lemma dist_embedding x x' : wfvR d x -> wfvR d x' ->
    distR L x x' = @euclid ROps (mvmulR L x) (mvmulR L x').
  Proof.
    intros Hx Hx'. unfold dist, sqdist, euclid. rewrite mvmul_vsub by rcong. reflexivity.
  Qed.
End Metric.

(* M = L^T L as a sum of outer products of the rows *)
Lemma mahalanobis_cons d r (L : Rm) :
  mahalanobisR d (r :: L) = maddR (outerR r r) (mahalanobisR d L).
Proof. reflexivity. Qed.
Lemma mahalanobis_nil d : mahalanobisR d [] = @mzero ROps d d.
Proof. reflexivity. Qed.
Lemma vsumsq_mvmul_cons (r : Rv) (L : Rm) x :
  vsumsqR (mvmulR (r :: L) x) = (vdotR r x)^2 + vsumsqR (mvmulR L x).
Proof. unfold vsumsq, mvmul. cbn. rsimp. ring. Qed.

Lemma outer_wfm_d d (r : Rv) : wfvR d r -> wfmR d d (outerR r r).
Proof. intro Hr. unfold wfv in Hr. rewrite <- Hr. apply outer_wfm. Qed.

Lemma mahalanobis_wfm d : forall L, Forall (wfvR d) L -> wfmR d d (mahalanobisR d L).
Proof.
  induction L as [|r L IH]; intro H.
  - rewrite mahalanobis_nil. apply mzero_wfm.
  - rewrite mahalanobis_cons. inversion H as [|? ? Hr HL]; subst.
    apply madd_wfm; [apply outer_wfm_d; auto | apply IH; auto].
Qed.

Lemma sqdist_quadform_gen d : forall L x, Forall (wfvR d) L -> wfvR d x ->
  vsumsqR (mvmulR L x) = quadformR (mahalanobisR d L) x.
Proof.
  induction L as [|r L IH]; intros x H Hx.
  - rewrite mahalanobis_nil, quadform_mzero. reflexivity.
  - inversion H as [|? ? Hr HL]; subst.
    rewrite mahalanobis_cons, vsumsq_mvmul_cons.
    rewrite (quadform_madd d d); auto.
    + rewrite quadform_outer, <- IH by auto. reflexivity.
    + apply outer_wfm_d; auto.
    + apply mahalanobis_wfm; auto.
Qed.

Lemma mahalanobis_psd d L : Forall (wfvR d) L -> PSDop d (mahalanobisR d L).
Proof. intros H x Hx. rewrite <- sqdist_quadform_gen by auto. apply vsumsq_nonneg. Qed.

Lemma mahalanobis_sym d : forall L, Forall (wfvR d) L -> symop d (mahalanobisR d L).
Proof.
  induction L as [|r L IH]; intro H.
  - rewrite mahalanobis_nil. apply symop_mzero.
  - rewrite mahalanobis_cons. inversion H as [|? ? Hr HL]; subst. apply symop_madd.
    + apply outer_wfm_d; auto.
    + apply mahalanobis_wfm; auto.
    + unfold wfv in Hr. rewrite <- Hr. apply symop_outer.
    + apply IH; auto.
Qed.

Lemma sqdist_quadform k d L x x' : wfmR k d L -> wfvR d x -> wfvR d x' ->
  sqdistR L x x' = quadformR (mahalanobisR d L) (vsubR x' x).
Proof.
  intros [_ HL] Hx Hx'. unfold sqdist. apply sqdist_quadform_gen; auto.
  unfold wfv in *. rewrite vsub_length; rcong.
Qed.

(* any two factors of the same M give the same distance *)
Lemma factor_distance_unique d (L1 L2 : Rm) :
  Forall (wfvR d) L1 -> Forall (wfvR d) L2 ->
  (forall x, wfvR d x -> quadformR (mahalanobisR d L1) x = quadformR (mahalanobisR d L2) x) ->
  forall x x', wfvR d x -> wfvR d x' -> distR L1 x x' = distR L2 x x'.
Proof.
  intros H1 H2 E x x' Hx Hx'. unfold dist, sqdist.
  assert (W: wfvR d (vsubR x' x)) by (unfold wfv in *; rewrite vsub_length; rcong).
  rewrite !(sqdist_quadform_gen d) by auto. rewrite E by auto. reflexivity.
Qed.

Lemma transform_shape k d (L : Rm) X : wfmR k d L ->
  length (@transform ROps L X) = length X /\ Forall (wfvR k) (@transform ROps L X).
Proof.
  intros [HL _]. unfold transform. split. - apply map_length.
  - apply Forall_forall. intros r Hr. apply in_map_iff in Hr as [x [<- _]].
    unfold wfv. rewrite mvmul_length. exact HL.
Qed.
Lemma transform_rows (L : Rm) X i : (i < length X)%nat ->
  nth i (@transform ROps L X) [] = mvmulR L (nth i X []).
Proof.
  intro Hi. unfold transform.
  rewrite (nth_indep _ [] (mvmulR L [])) by (rewrite map_length; auto).
  apply map_nth.
Qed.
Lemma pair_score_neg (L : Rm) P : @pair_score ROps L P = map Ropp (@pair_distance ROps L P).
Proof. reflexivity. Qed.
