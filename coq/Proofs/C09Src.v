(* C09, source level: the dimension-reducing branch of RCA.fit as translated into gen/Src_rca.v on every run:
     reduced covariance  C' = A^T C A      (A.T.dot(inner_cov).dot(A), A = the selected directions, d x k)
     components          L  = W A^T        (_inv_sqrtm(C').dot(A.T), W the k x k oracle value)
   Proved over R, for EVERY choice of directions A and every W: row a of L is A w_a (w_a = row a of W) and
     l_a . (C l_b) = w_a . (C' w_b),
   so whenever the oracle whitens the reduced covariance (W C' W^T = I) the learned transformation whitens the
   within-chunk covariance on its k retained directions (L C L^T = I_k): "also after reduction to n_components". *)
From Coq Require Import String.
From Coq Require Import List Arith Bool Reals Lra Lia ZArith.
From ML Require Import Ops Vec NP VecR MatR LinAlg NPNum CovProof MatAction.
From MLgen Require Import Src_rca.
Import ListNotations.
Open Scope R_scope.

(* rows of W A^T *)
Lemma dot_mt_rows (W A : Rm) : @nn_dot_mt ROps W A = map (fun w => mvmulR A w) W.
Proof. unfold nn_dot_mt, mvmul. apply map_ext. intro w. apply map_ext. intro r. apply vdot_comm. Qed.

(* the reduced covariance is the covariance seen through the selected directions *)
Theorem rca_reduced_form d k (A C : Rm) (p q : Rv) :
  A <> [] -> length A = d -> Forall (wfvR k) A -> wfmR d d C -> wfvR k p -> wfvR k q ->
  vdotR (mvmulR A p) (mvmulR C (mvmulR A q)) = vdotR p (mvmulR (@rca_reduced_cov ROps A C) q).
Proof.
  intros Hne HL HA [HCL HC] Hp Hq. unfold rca_reduced_cov, nn_dot_mm, nn_dot_tm.
  destruct (transp_rows_wf k A Hne HA) as [HT HTL]. rsimp.
  assert (HCne: C <> []) by (intro E; rewrite E in HCL; cbn in HCL; destruct A; [contradiction | subst d; discriminate]).
  assert (HCrows: Forall (wfvR (length C)) (transpR A)) by (rewrite HCL, <- HL; exact HT).
  (* rows of (A^T C): k rows of length d = length A *)
  assert (HP1: Forall (wfvR (length A)) (@mmulg ROps (transpR A) C)).
  { unfold mmulg. apply Forall_forall. intros r Hr. apply in_map_iff in Hr as [c [<- _]]. unfold wfv. rewrite map_length.
    rewrite (transp_is_fuel d C HCne HC). rewrite (transp_fuel_length d C HCne HC). symmetry. exact HL. }
  rewrite (mmulg_action k (@mmulg ROps (transpR A) C) A q Hne HA HP1 Hq).
  assert (HAq: wfvR d (mvmulR A q)) by (unfold wfv; rewrite mvmul_length; exact HL).
  rewrite (mmulg_action d (transpR A) C (mvmulR A q) HCne HC HCrows HAq).
  set (z := mvmulR C (mvmulR A q)).
  assert (Hz: length z = length A) by (unfold z; rewrite mvmul_length, HCL; symmetry; exact HL).
  rewrite (transp_is_fuel k A Hne HA). rewrite (vdot_comm p).
  rewrite (transp_fuel_adjoint k A z p Hne HA Hp Hz). apply vdot_comm.
Qed.

(* hence: entry (a, b) of L C L^T is entry (a, b) of W C' W^T, for the translated components L = W A^T *)
Theorem rca_reduced_whitening d k (A C W : Rm) (a b : nat) :
  A <> [] -> length A = d -> Forall (wfvR k) A -> wfmR d d C -> Forall (wfvR k) W -> (a < length W)%nat -> (b < length W)%nat ->
  let L := @rca_reduced_components ROps W A in
  vdotR (nth a L []) (mvmulR C (nth b L [])) =
  vdotR (nth a W []) (mvmulR (@rca_reduced_cov ROps A C) (nth b W [])).
Proof.
  intros Hne HL HA HC HW Ha Hb L. unfold L, rca_reduced_components. rewrite dot_mt_rows.
  rewrite !(nth_indep _ [] (mvmulR A [])) by (rewrite map_length; assumption).
  rewrite !(map_nth (fun w => mvmulR A w) W []).
  rewrite Forall_forall in HW.
  apply (rca_reduced_form d k A C (nth a W []) (nth b W []) Hne HL HA HC); apply HW; apply nth_In; assumption.
Qed.

Lemma rca_skeleton_ok : rca_skeleton =
  [ "chunk_mask, chunked_data = _chunk_mean_centering(X, chunks)"
  ; "inner_cov = np.atleast_2d(np.cov(chunked_data, rowvar=0, bias=1))"
  ; "dim = self._check_dimension(np.linalg.matrix_rank(inner_cov), X)"
  ; "reduced: total_cov = np.cov(X[chunk_mask], rowvar=0)"
  ; "reduced: vals, vecs = scipy.linalg.eigh(inner_cov, total_cov)"
  ; "reduced: A = vecs[:, :dim]"
  ; "full: self.components_ = _inv_sqrtm(inner_cov).T" ]%string.
Proof. reflexivity. Qed.
