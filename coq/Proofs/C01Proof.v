From Coq Require Import List ZArith Bool Reals Lra Lia.
From ML Require Import Ops Vec NP VecR MatR Mahalanobis MahalanobisR NPFacts.
From MLgen Require Import Src_query.
Import ListNotations.
Open Scope R_scope.

Lemma src_metric_fun_eq {O : Ops} (L : list (list (T O))) u v sq :
  Src_query.metric_fun L u v sq = Mahalanobis.metric_fun L u v sq.
Proof. unfold Src_query.metric_fun, Mahalanobis.metric_fun. destruct sq; reflexivity. Qed.

Lemma C01_proof :
  forall (k d : nat) (L : Rm), wfmR k d L ->
    (forall P, @Src_query.pair_distance ROps L P =
               map (fun tp => d_src L (nth 0 tp []) (nth 1 tp [])) P) /\
    (forall x y, 0 <= d_src L x y) /\
    (forall x, d_src L x x = 0) /\
    (forall x y, d_src L x y = d_src L y x) /\
    (forall x y z, wfvR d x -> wfvR d y -> wfvR d z -> d_src L x z <= d_src L x y + d_src L y z) /\
    (forall u v, @Src_query.metric_fun ROps L u v false = d_src L u v) /\
    (forall u v, @Src_query.metric_fun ROps L u v true = (d_src L u v) ^ 2) /\
    (forall P, @Src_query.pair_score ROps L P = map Ropp (@Src_query.pair_distance ROps L P)).
Proof.
  intros k d L HL. repeat split.
  - apply C01_batch.
  - intros. rewrite d_src_dist. apply dist_nonneg.
  - intros. rewrite d_src_dist. apply dist_refl.
  - intros. rewrite !d_src_dist. apply dist_sym.
  - intros x y z Hx Hy Hz. rewrite !d_src_dist. apply (dist_triangle d L); auto.
  - intros. rewrite src_metric_fun_eq, metric_fun_eq_dist, d_src_dist. apply dist_sym.
  - intros. rewrite src_metric_fun_eq, metric_fun_squared, metric_fun_eq_dist, d_src_dist.
    rewrite (dist_sym L v u). reflexivity.
  - apply src_pair_score_neg.
Qed.

(* non-vacuity: a rank-one 2x3 L (rank-deficient), three distinct points *)
Definition exL : Rm := [[1; 2; 0]; [2; 4; 0]].
Example C01_nonvacuous : wfmR 2 3 exL /\ wfvR 3 [1; 0; 5] /\ wfvR 3 [0; 1; -2] /\ wfvR 3 [3; 3; 3].
Proof. repeat split; repeat constructor. Qed.
