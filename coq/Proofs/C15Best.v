(* C15: which iterate SCML returns.  The model evaluates the regularised hinge objective exactly at the
   iterations output_iter, 2*output_iter, ... <= max_iter, and keeps the FIRST of them that attains the
   smallest objective -- for every basis, triplet set, batch sequence and parameters. *)
From Coq Require Import List Arith Bool ZArith Reals Lra Lia.
From ML Require Import Ops Vec NP VecR SCML C15Proof.
Import ListNotations.
Open Scope R_scope.

Notation stepR := (@step ROps).
Notation runR := (@run ROps).
Notation objectiveR := (@objective ROps).

Definition cand := (R * Rv)%type.

(* how a checkpoint updates the best-so-far record: strict improvement only *)
Definition upd (b : option cand) (c : cand) : option cand :=
  match b with
  | None => Some c
  | Some (bo, bw) => if Rltb (fst c) bo then Some c else Some (bo, bw)
  end.
Definition sel (b : option cand) (cs : list cand) : option cand := fold_left upd cs b.

Definition is_checkpoint (p : paramsR) (k : nat) : bool := Nat.eqb (Nat.modulo k (output_iter p)) 0.

(* the checkpoints met by a run, in order *)
Fixpoint cps (p : paramsR) (D : Rm) (nb iter : nat) (batches : list (list nat)) (s : stateR) : list cand :=
  match batches with
  | [] => []
  | idx :: more =>
      let s' := stepR p D nb iter idx s in
      (if is_checkpoint p (S iter) then [(objectiveR p D (w s'), w s')] else [])
        ++ cps p D nb (S iter) more s'
  end.

Lemma best_step (p : paramsR) D nb iter idx (s : stateR) :
  best (stepR p D nb iter idx s) =
  if is_checkpoint p (S iter)
  then upd (best s) (objectiveR p D (w (stepR p D nb iter idx s)), w (stepR p D nb iter idx s))
  else best s.
Proof.
  unfold step, is_checkpoint. cbn [best w].
  destruct (Nat.eqb (Nat.modulo (S iter) (output_iter p)) 0); [|reflexivity].
  destruct (best s) as [[bo bw]|]; reflexivity.
Qed.

Lemma sel_app b l1 l2 : sel b (l1 ++ l2) = sel (sel b l1) l2.
Proof. unfold sel. apply fold_left_app. Qed.

Theorem run_best (p : paramsR) D nb : forall batches iter (s : stateR),
  best (runR p D nb iter batches s) = sel (best s) (cps p D nb iter batches s).
Proof.
  induction batches as [|idx more IH]; intros iter s; [reflexivity|].
  cbn [run cps]. rewrite IH, sel_app, best_step.
  destruct (is_checkpoint p (S iter)); reflexivity.
Qed.

(* r is the first element of the list P with the smallest objective *)
Definition first_min (P : list cand) (r : cand) : Prop :=
  exists pre post, P = pre ++ r :: post /\
    Forall (fun c => fst r < fst c) pre /\ Forall (fun c => fst r <= fst c) post.

Lemma first_min_step P r c : first_min P r ->
  exists r', upd (Some r) c = Some r' /\ first_min (P ++ [c]) r'.
Proof.
  intros [pre [post [E [H1 H2]]]]. destruct r as [ro rw]. cbn [upd].
  destruct (Rltb (fst c) ro) eqn:Hc.
  - apply Rltb_true in Hc. exists c. split; [reflexivity|].
    exists (pre ++ (ro, rw) :: post), []. split; [rewrite E; reflexivity|]. split; [|constructor].
    apply Forall_app. split.
    + eapply Forall_impl; [|exact H1]. cbn. intros a Ha. lra.
    + constructor; [cbn; lra|]. eapply Forall_impl; [|exact H2]. cbn. intros a Ha. lra.
  - apply Rltb_false in Hc. exists (ro, rw). split; [reflexivity|].
    exists pre, (post ++ [c]). split; [rewrite E, <- app_assoc; reflexivity|]. split; [exact H1|].
    apply Forall_app. split; [exact H2|]. constructor; [cbn; lra | constructor].
Qed.

Lemma sel_first_min : forall cs P r, first_min P r ->
  exists r', sel (Some r) cs = Some r' /\ first_min (P ++ cs) r'.
Proof.
  induction cs as [|c cs IH]; intros P r H.
  - exists r. rewrite app_nil_r. split; [reflexivity | exact H].
  - destruct (first_min_step P r c H) as [r1 [E1 H1]].
    destruct (IH (P ++ [c]) r1 H1) as [r' [E' H']].
    exists r'. split.
    + unfold sel in *. cbn [fold_left]. rewrite E1. exact E'.
    + rewrite <- app_assoc in H'. exact H'.
Qed.

Theorem sel_none_spec (cs : list cand) :
  match sel None cs with
  | None => cs = []
  | Some r => first_min cs r
  end.
Proof.
  destruct cs as [|c cs]; [reflexivity|].
  assert (H0: first_min [c] c) by (exists [], []; repeat split; constructor).
  destruct (sel_first_min cs [c] c H0) as [r' [E H]].
  unfold sel in *. cbn [fold_left upd]. rewrite E. exact H.
Qed.

(* the checkpoints are the iterates number k, for the multiples k of output_iter up to the budget *)
Definition iterate (p : paramsR) D nb iter (batches : list (list nat)) (s : stateR) (k : nat) : Rv :=
  w (runR p D nb iter (firstn (k - iter) batches) s).

Lemma cps_enum (p : paramsR) D nb : forall batches iter (s : stateR),
  cps p D nb iter batches s =
  map (fun k => (objectiveR p D (iterate p D nb iter batches s k), iterate p D nb iter batches s k))
      (filter (is_checkpoint p) (seq (S iter) (length batches))).
Proof.
  induction batches as [|idx more IH]; intros iter s; [reflexivity|].
  cbn [cps length seq filter].
  assert (E1: iterate p D nb iter (idx :: more) s (S iter) = w (stepR p D nb iter idx s)).
  { unfold iterate. replace (S iter - iter)%nat with 1%nat by lia. reflexivity. }
  assert (E2: map (fun k => (objectiveR p D (iterate p D nb iter (idx :: more) s k), iterate p D nb iter (idx :: more) s k))
                  (filter (is_checkpoint p) (seq (S (S iter)) (length more)))
            = cps p D nb (S iter) more (stepR p D nb iter idx s)).
  { rewrite IH. apply map_ext_in. intros k Hk. apply filter_In in Hk as [Hk _]. apply in_seq in Hk.
    assert (Ek: iterate p D nb iter (idx :: more) s k = iterate p D nb (S iter) more (stepR p D nb iter idx s) k).
    { unfold iterate. replace (k - iter)%nat with (S (k - S iter)) by lia. reflexivity. }
    rewrite Ek. reflexivity. }
  destruct (is_checkpoint p (S iter)); cbn [map app]; rewrite ?E1, E2; reflexivity.
Qed.

(* the statement for a whole fit: start at iteration 0 from the zero weights *)
Theorem scml_best_checkpoint (p : paramsR) (D : Rm) (nb : nat) (batches : list (list nat)) :
  let wk := iterate p D nb 0 batches (@init ROps nb) in
  let ks := filter (is_checkpoint p) (seq 1 (length batches)) in
  let candidates := map (fun k => (objectiveR p D (wk k), wk k)) ks in
  match best (runR p D nb 0 batches (@init ROps nb)) with
  | None => ks = []
  | Some r => first_min candidates r
  end.
Proof.
  intros wk ks candidates. rewrite run_best. cbn [best init]. rewrite cps_enum.
  change (sel None (map (fun k => (objectiveR p D (iterate p D nb 0 batches (@init ROps nb) k),
                                   iterate p D nb 0 batches (@init ROps nb) k))
                        (filter (is_checkpoint p) (seq 1 (length batches))))) with (sel None candidates).
  pose proof (sel_none_spec candidates) as H.
  destruct (sel None candidates) as [r|]; [exact H|].
  unfold candidates in H. destruct ks; [reflexivity | discriminate].
Qed.
