(* C09, source level: the local-scatter statement of LFDA.fit as translated into gen/Src_lfda.v,
     G = Xc.T.dot(A.sum(axis=0)[:, None] * Xc) - Xc.T.dot(A).dot(Xc).
   Proved over R: for every class block Xc (nc x d), every symmetric nc x nc affinity A and every direction x,
     x^T G x = 1/2 sum_ij A_ij (x . xc_i - x . xc_j)^2,
   the documented pairwise definition of the local scatter (C09_partial's identity, now stated for the matrix the code forms). *)
From Coq Require Import String.
From Coq Require Import List Arith Bool Reals Lra Lia ZArith.
From ML Require Import Ops Vec NP VecR MatR LinAlg NPNum CovProof MatAction C09Proof.
From MLgen Require Import Src_lfda.
Import ListNotations.
Open Scope R_scope.

Ltac rwR H := let Q := fresh "Q" in pose proof H as Q; change (T ROps) with R in Q |- *; rewrite Q; clear Q.

Lemma mmulg_rows_wf m (P Q : Rm) : Q <> [] -> Forall (wfvR m) Q -> Forall (wfvR m) (@mmulg ROps P Q).
Proof.
  intros Hne HQ. unfold mmulg. apply Forall_forall. intros r Hr. apply in_map_iff in Hr as [c [<- _]]. unfold wfv. rewrite map_length.
  rewrite (transp_is_fuel m Q Hne HQ). apply (transp_fuel_length m Q Hne HQ).
Qed.

Lemma map2_len {A B C} (f : A -> B -> C) : forall (l1 : list A) (l2 : list B), length l1 = length l2 -> length (map2 f l1 l2) = length l1.
Proof. induction l1 as [|a l1 IH]; intros [|b l2] H; cbn in *; try lia. f_equal. apply IH. lia. Qed.

Lemma mvmul_scale_rows (x : Rv) : forall (s : Rv) (X : Rm),
  mvmulR (@nn_scale_rows ROps s X) x = map2 Rmult s (mvmulR X x).
Proof.
  unfold nn_scale_rows. induction s as [|a s IH]; intros [|r X]; cbn; try reflexivity.
  f_equal; [apply vdot_vscale_l | apply IH].
Qed.

Lemma vdot_map2_mult : forall (s z : Rv), length s = length z -> vdotR (map2 Rmult s z) z = vdotR s (sqv z).
Proof.
  induction s as [|a s IH]; intros [|b z] H; cbn in *; try discriminate; [reflexivity|].
  rewrite IH by lia. cbn [oadd omul ROps]. rsimp. fold (sqv z). generalize (vdotR s (sqv z)). intro q. ring.
Qed.

Lemma scale_rows_wf d : forall (s : Rv) (X : Rm), Forall (wfvR d) X -> Forall (wfvR d) (@nn_scale_rows ROps s X).
Proof.
  unfold nn_scale_rows. induction s as [|a s IH]; intros [|r X] H; cbn; try constructor.
  - inversion H; subst. unfold wfv in *. rewrite vscale_length. assumption.
  - inversion H; subst. apply IH. assumption.
Qed.

Lemma scale_rows_length : forall (s : Rv) (X : Rm), length s = length X -> length (@nn_scale_rows ROps s X) = length X.
Proof. unfold nn_scale_rows. induction s as [|a s IH]; intros [|r X] H; cbn in *; try discriminate; [reflexivity|]. f_equal. apply IH. lia. Qed.

Lemma sum_cols_length n : forall (A : Rm), Forall (wfvR n) A -> length (@nn_sum_cols ROps n A) = n.
Proof.
  unfold nn_sum_cols. induction A as [|r A IH]; intro H; cbn; [apply vzero_length|].
  inversion H as [|? ? Hr H']; subst. unfold wfv in Hr.
  etransitivity; [apply vadd_length; etransitivity; [exact Hr | symmetry; apply (IH H')] | exact Hr].
Qed.

(* column sums against a vector: (A^T 1) . w = 1 . (A w) *)
Lemma sum_cols_dot n (w : Rv) : length w = n -> forall (A : Rm), Forall (wfvR n) A ->
  vdotR (@nn_sum_cols ROps n A) w = vdotR (ones (length A)) (mvmulR A w).
Proof.
  intros Hw. unfold nn_sum_cols. induction A as [|r A IH]; intro H; cbn [fold_right length mvmul map].
  - cbn. apply vdot_vzero_l.
  - inversion H as [|? ? Hr H']; subst. unfold wfv in Hr.
    pose proof (sum_cols_length (length w) A H') as Ls. unfold nn_sum_cols in Ls.
    rewrite vdot_vadd_l by (rewrite Ls; exact Hr). rewrite (IH H'). unfold ones. cbn [repeat vdot]. fold (mvmulR A w).
    cbn [oadd omul ROps]. rsimp. ring.
Qed.

Lemma mvmul_sub_mm d (x : Rv) : wfvR d x -> forall (P Q : Rm), Forall (wfvR d) P -> Forall (wfvR d) Q -> length P = length Q ->
  mvmulR (@nn_sub_mm ROps P Q) x = vsubR (mvmulR P x) (mvmulR Q x).
Proof.
  intros Hx. unfold nn_sub_mm. induction P as [|p P IH]; intros [|q Q] HP HQ HL; cbn in *; try discriminate; [reflexivity|].
  inversion HP as [|? ? Hp HP']; inversion HQ as [|? ? Hq HQ']; subst.
  f_equal; [|apply IH; auto; lia]. apply vdot_vsub_l. unfold wfv in *. rsimp. congruence.
Qed.

Theorem lfda_G_pairwise nc d (Xc A : Rm) (x : Rv) :
  Xc <> [] -> length Xc = nc -> Forall (wfvR d) Xc -> wfmR nc nc A -> symop nc A -> wfvR d x ->
  quadformR (@lfda_G ROps Xc A) x = / 2 * pairsum A (mvmulR Xc x).
Proof.
  intros Hne HL HX [HAL HA] Hsym Hx.
  set (z := mvmulR Xc x).
  assert (Hz: wfvR nc z) by (unfold wfv, z; rewrite mvmul_length; exact HL).
  assert (Hnc: (0 < nc)%nat) by (destruct Xc; [exfalso; apply Hne; reflexivity | subst nc; cbn; lia]).
  assert (HAne: A <> []) by (intro E; subst A; cbn in HAL; lia).
  destruct (transp_rows_wf d Xc Hne HX) as [HT HTL].
  set (s := @nn_sum_cols ROps (length A) A).
  assert (Ls: length s = nc) by (unfold s; rwR HAL; apply sum_cols_length; exact HA).
  set (B := @nn_scale_rows ROps s Xc).
  assert (LB: length B = nc) by (unfold B; rewrite scale_rows_length; [exact HL | rwR Ls; symmetry; exact HL]).
  assert (HB: Forall (wfvR d) B) by (apply scale_rows_wf; exact HX).
  assert (HBne: B <> []) by (intro E; rewrite E in LB; cbn in LB; lia).
  set (P := @mmulg ROps (transpR Xc) B).
  set (TA := @mmulg ROps (transpR Xc) A).
  set (Q := @mmulg ROps TA Xc).
  assert (HP: Forall (wfvR d) P) by (apply mmulg_rows_wf; assumption).
  assert (HQ: Forall (wfvR d) Q) by (apply mmulg_rows_wf; assumption).
  assert (LP: length P = length Q) by (unfold P, Q, TA, mmulg; rewrite !map_length; reflexivity).
  assert (HTA: Forall (wfvR (length Xc)) TA) by (rewrite HL; apply mmulg_rows_wf; assumption).
  (* the two products, applied to x *)
  assert (EP: mvmulR P x = mvmulR (transpR Xc) (map2 Rmult s z)).
  { unfold P. rewrite (mmulg_action d (transpR Xc) B x HBne HB); [| rwR LB; rewrite <- HL; exact HT | exact Hx].
    unfold B. rewrite mvmul_scale_rows. reflexivity. }
  assert (EQ: mvmulR Q x = mvmulR (transpR Xc) (mvmulR A z)).
  { unfold Q. rewrite (mmulg_action d TA Xc x Hne HX HTA Hx). fold z.
    unfold TA. rewrite (mmulg_action nc (transpR Xc) A z HAne HA); [reflexivity | rwR HAL; rewrite <- HL; exact HT | exact Hz]. }
  (* x . (Xc^T v) = v . (Xc x) *)
  assert (ADJ: forall v : Rv, length v = length Xc -> vdotR x (mvmulR (transpR Xc) v) = vdotR v z).
  { intros v Hv. rewrite vdot_comm. rewrite (transp_is_fuel d Xc Hne HX). apply (transp_fuel_adjoint d Xc v x Hne HX Hx Hv). }
  change (quadformR (@lfda_G ROps Xc A) x) with (vdotR x (mvmulR (@nn_sub_mm ROps P Q) x)).
  rewrite (mvmul_sub_mm d x Hx P Q HP HQ LP).
  rewrite vdot_vsub_r by (rewrite !mvmul_length; exact LP).
  rewrite EP, EQ.
  rewrite (ADJ (map2 Rmult s z)) by (rewrite map2_len; [etransitivity; [exact Ls | symmetry; exact HL] | etransitivity; [exact Ls | symmetry; exact Hz]]).
  rewrite (ADJ (mvmulR A z)) by (etransitivity; [apply mvmul_length | etransitivity; [exact HAL | symmetry; exact HL]]).
  rewrite vdot_map2_mult by (etransitivity; [exact Ls | symmetry; exact Hz]).
  rewrite <- (lfda_shortcut_eq_pairwise nc A z (conj HAL HA) Hsym Hz).
  f_equal; [|apply vdot_comm].
  (* column sums = row sums for a symmetric affinity *)
  unfold s. rwR HAL.
  assert (Lq: length (sqv z) = nc) by (unfold sqv; rewrite map_length; exact Hz).
  rewrite (sum_cols_dot nc (sqv z) Lq A HA). rwR HAL.
  rewrite (vdot_comm (sqv z)).
  symmetry. apply Hsym; [unfold wfv, ones; apply repeat_length | exact Lq].
Qed.

Lemma lfda_skeleton_ok : lfda_skeleton =
  [ "unique_classes, y = np.unique(y, return_inverse=True)"
  ; "tSb = np.zeros((d, d))"
  ; "tSw = np.zeros((d, d))"
  ; "loop: Xc = X[y == c]"
  ; "loop: nc = Xc.shape[0]"
  ; "loop: dist = pairwise_distances(Xc, metric='l2', squared=True)"
  ; "loop: kc = min(k, nc - 1)"
  ; "loop: sigma = np.sqrt(np.partition(dist, kc, axis=0)[kc, :])"
  ; "loop: local_scale = np.outer(sigma, sigma)"
  ; "loop: with np.errstate(divide='ignore', invalid='ignore'): A = np.exp(-dist / local_scale) A[local_scale == 0] = 0"
  ; "loop: tSb += G / n + (1 - nc / n) * Xc.T.dot(Xc) + _sum_outer(Xc) / n"
  ; "loop: tSw += G / nc"
  ; "after: tSb -= _sum_outer(X) / n + tSw"
  ; "after: tSb = (tSb + tSb.T) / 2"
  ; "after: tSw = (tSw + tSw.T) / 2" ]%string.
Proof. reflexivity. Qed.
