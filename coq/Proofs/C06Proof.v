From Coq Require Import List Arith Bool Lia.
From ML Require Import Validate.
Import ListNotations.

Ltac break_if :=
  repeat match goal with
  | H : context [if ?b then _ else _] |- _ => let E := fresh "E" in destruct b eqn:E
  | |- context [if ?b then _ else _] => let E := fresh "E" in destruct b eqn:E
  end.
Ltac break_match :=
  repeat match goal with
  | H : context [match ?x with _ => _ end] |- _ => let E := fresh "E" in destruct x eqn:E
  | |- context [match ?x with _ => _ end] => let E := fresh "E" in destruct x eqn:E
  end.

(* never an unrelated outcome *)
Theorem check_input_total d y pre ty ts o :
  (exists d', check_input d y pre ty ts o = Ok d') \/
  check_input d y pre ty ts o = Raise ValueError \/
  (check_input d y pre ty ts o = Raise PreprocessorError /\ exists e, pre = Some (Raise e)).
Proof.
  unfold check_input, check_input_classic, check_input_tuples.
  destruct (sk_bad_permissive d); [right; left; reflexivity|].
  destruct (y_bad (dim d 0) y); [right; left; reflexivity|].
  destruct ty.
  - destruct (Nat.eqb (ndim d) 1).
    + destruct pre as [[f|e]|]; [|right; right; split; [reflexivity | eauto] | right; left; reflexivity].
      destruct (sk_bad o f); [right; left; reflexivity|].
      destruct (negb (Nat.eqb (ndim f) 2)); [right; left; reflexivity | left; eauto].
    + destruct (Nat.eqb (ndim d) 2); [|right; left; reflexivity].
      destruct (sk_bad o d); [right; left; reflexivity|].
      destruct (negb (Nat.eqb (ndim d) 2)); [right; left; reflexivity | left; eauto].
  - assert (K: forall f, 
      (exists d', match (if sk_bad o f then Raise ValueError
           else if (0 <? ensure_min_features o) && (dim f 2 <? ensure_min_features o) then Raise ValueError
           else if negb (Nat.eqb (ndim f) 3) then Raise ValueError
           else match ts with Some t => if negb (Nat.eqb (dim f 1) t) then Raise ValueError else Ok f | None => Ok f end)
         with Raise e => Raise e
         | Ok d1 => match yf y with YNone => Ok d1 | YPm1 => Ok d1
                    | _ => if Nat.eqb (dim d1 1) 2 then Raise ValueError else Ok d1 end end = Ok d') \/
      match (if sk_bad o f then Raise ValueError
           else if (0 <? ensure_min_features o) && (dim f 2 <? ensure_min_features o) then Raise ValueError
           else if negb (Nat.eqb (ndim f) 3) then Raise ValueError
           else match ts with Some t => if negb (Nat.eqb (dim f 1) t) then Raise ValueError else Ok f | None => Ok f end)
         with Raise e => Raise e
         | Ok d1 => match yf y with YNone => Ok d1 | YPm1 => Ok d1
                    | _ => if Nat.eqb (dim d1 1) 2 then Raise ValueError else Ok d1 end end = Raise ValueError).
    { intro f. destruct (sk_bad o f); [right; reflexivity|].
      destruct ((0 <? ensure_min_features o) && (dim f 2 <? ensure_min_features o)); [right; reflexivity|].
      destruct (negb (Nat.eqb (ndim f) 3)); [right; reflexivity|].
      destruct ts as [t|].
      - destruct (negb (Nat.eqb (dim f 1) t)); [right; reflexivity|].
        destruct (yf y); try (left; eexists; reflexivity);
          destruct (Nat.eqb (dim f 1) 2); try (right; reflexivity); left; eexists; reflexivity.
      - destruct (yf y); try (left; eexists; reflexivity);
          destruct (Nat.eqb (dim f 1) 2); try (right; reflexivity); left; eexists; reflexivity. }
    destruct (Nat.eqb (ndim d) 2).
    + destruct pre as [[f|e]|]; [|right; right; split; [reflexivity | eauto] | right; left; reflexivity].
      destruct (K f) as [H|H]; [left; exact H | right; left; exact H].
    + destruct (Nat.eqb (ndim d) 3); [|right; left; reflexivity].
      destruct (K d) as [H|H]; [left; exact H | right; left; exact H].
Qed.

(* ---- soundness: what is returned has the documented form ---- *)
Lemma classic_sound d pre o d' : check_input_classic d pre o = Ok d' ->
  ndim d' = 2 /\ sk_bad o d' = false /\ (d' = d \/ pre = Some (Ok d')).
Proof.
  unfold check_input_classic. intro H.
  assert (K: forall f, (if sk_bad o f then Raise ValueError
            else if negb (Nat.eqb (ndim f) 2) then Raise ValueError else Ok f) = Ok d' ->
            d' = f /\ ndim f = 2 /\ sk_bad o f = false).
  { intros f Hf. destruct (sk_bad o f); [discriminate|].
    destruct (Nat.eqb (ndim f) 2) eqn:E; cbn in Hf; [|discriminate].
    apply Nat.eqb_eq in E. inversion Hf; subst. auto. }
  destruct (Nat.eqb (ndim d) 1).
  - destruct pre as [[f|e]|]; try discriminate. destruct (K f H) as [-> [A B]]. auto.
  - destruct (Nat.eqb (ndim d) 2); [|discriminate]. destruct (K d H) as [-> [A B]]. auto.
Qed.

Lemma tuples_sound d pre o ts d' : check_input_tuples d pre o ts = Ok d' ->
  ndim d' = 3 /\ sk_bad o d' = false /\ ensure_min_features o <= dim d' 2 /\
  (forall t, ts = Some t -> dim d' 1 = t) /\ (d' = d \/ pre = Some (Ok d')).
Proof.
  unfold check_input_tuples. intro H.
  assert (K: forall f, (if sk_bad o f then Raise ValueError
       else if (0 <? ensure_min_features o) && (dim f 2 <? ensure_min_features o) then Raise ValueError
       else if negb (Nat.eqb (ndim f) 3) then Raise ValueError
       else match ts with Some t => if negb (Nat.eqb (dim f 1) t) then Raise ValueError else Ok f | None => Ok f end) = Ok d' ->
     d' = f /\ ndim f = 3 /\ sk_bad o f = false /\ ensure_min_features o <= dim f 2 /\
     (forall t, ts = Some t -> dim f 1 = t)).
  { intros f Hf. destruct (sk_bad o f); [discriminate|].
    destruct ((0 <? ensure_min_features o) && (dim f 2 <? ensure_min_features o)) eqn:E1; [discriminate|].
    destruct (Nat.eqb (ndim f) 3) eqn:E2; cbn in Hf; [|discriminate]. apply Nat.eqb_eq in E2.
    assert (Hm: ensure_min_features o <= dim f 2).
    { apply andb_false_iff in E1 as [E1|E1]; [apply Nat.ltb_ge in E1; lia | apply Nat.ltb_ge in E1; lia]. }
    destruct ts as [t|].
    - destruct (Nat.eqb (dim f 1) t) eqn:E3; cbn in Hf; [|discriminate]. apply Nat.eqb_eq in E3.
      inversion Hf; subst. repeat split; auto. intros t' Ht; inversion Ht; auto.
    - inversion Hf; subst. repeat split; auto. intros t' Ht; discriminate. }
  destruct (Nat.eqb (ndim d) 2).
  - destruct pre as [[f|e]|]; try discriminate. destruct (K f H) as [-> [A [B [C D]]]]. auto 6.
  - destruct (Nat.eqb (ndim d) 3); [|discriminate]. destruct (K d H) as [-> [A [B [C D]]]]. auto 6.
Qed.

Lemma sk_ok_numeric o d : sk_bad o d = false ->
  is_numeric (kind d) = true /\ (force_finite o && nonfinite d) = false /\
  (0 < ndim d -> ensure_min_samples o <= dim d 0) /\ (ndim d = 2 -> ensure_min_features o <= dim d 1).
Proof.
  unfold sk_bad. intro H. apply orb_false_iff in H as [H H4]. apply orb_false_iff in H as [H H3].
  apply orb_false_iff in H as [H1 H2]. repeat split; auto.
  - unfold is_numeric. destruct (kind d); auto; discriminate.
  - intro Hn. apply andb_false_iff in H3 as [H3|H3]; [apply Nat.ltb_ge in H3; lia | apply Nat.ltb_ge in H3; lia].
  - intro Hn. rewrite Hn in H4. cbn in H4. apply Nat.ltb_ge in H4. lia.
Qed.

Theorem check_input_sound d y pre ty ts o d' :
  check_input d y pre ty ts o = Ok d' ->
  formed_ok ty ts o d' = true /\ labels_ok ty (dim d 0) (dim d' 1) y = true /\
  (d' = d \/ pre = Some (Ok d')).
Proof.
  unfold check_input. intro H.
  destruct (sk_bad_permissive d); [discriminate|].
  destruct (y_bad (dim d 0) y) eqn:Ey; [discriminate|].
  assert (Ly: forall tuple, (match yf y with YNone | YPm1 => true | _ => negb (Nat.eqb tuple 2) end = true) ->
              labels_ok Tuples (dim d 0) tuple y = true).
  { intros tuple Hy. unfold labels_ok, y_bad in *. destruct (yf y); auto; try discriminate;
    try (apply negb_false_iff in Ey; rewrite Ey; auto). }
  destruct ty.
  - destruct (classic_sound _ _ _ _ H) as [A [B C]]. destruct (sk_ok_numeric _ _ B) as [N1 [N2 [N3 N4]]].
    split; [|split; auto].
    + unfold formed_ok. rewrite N1, N2, A. cbn. apply andb_true_iff. split; apply Nat.leb_le; [apply N3; lia | apply N4; auto].
    + unfold labels_ok, y_bad in *. destruct (yf y); auto; try discriminate; try (apply negb_false_iff in Ey; rewrite Ey; auto).
  - destruct (check_input_tuples d pre o ts) as [d1|e] eqn:ET; [|discriminate].
    destruct (tuples_sound _ _ _ _ _ ET) as [A [B [C [D F]]]]. destruct (sk_ok_numeric _ _ B) as [N1 [N2 [N3 N4]]].
    assert (Hd: d' = d1 /\ (match yf y with YNone | YPm1 => true | _ => negb (Nat.eqb (dim d1 1) 2) end = true)).
    { destruct (yf y); try (inversion H; subst; auto; fail);
      destruct (Nat.eqb (dim d1 1) 2); try discriminate; inversion H; subst; auto. }
    destruct Hd as [-> Hy]. split; [|split; auto].
    unfold formed_ok. rewrite N1, N2, A. cbn.
    repeat (apply andb_true_iff; split); try (apply Nat.leb_le; auto); [apply N3; lia|].
    destruct ts as [t|]; auto. apply Nat.eqb_eq. apply D. reflexivity.
Qed.

(* ---- completeness on formed data: well-formed input is accepted unchanged ---- *)
Theorem check_input_complete d y pre ty ts o :
  formed_ok ty ts o d = true -> labels_ok ty (dim d 0) (dim d 1) y = true ->
  check_input d y pre ty ts o = Ok d.
Proof.
  unfold formed_ok, labels_ok. intros F L.
  apply andb_true_iff in F as [F F3]. apply andb_true_iff in F as [F1 F2]. apply negb_true_iff in F2.
  assert (P: sk_bad_permissive d = false) by (unfold sk_bad_permissive; destruct (kind d); auto; discriminate).
  assert (Y: y_bad (dim d 0) y = false).
  { unfold y_bad. destruct (yf y); auto; try discriminate.
    - apply Nat.eqb_eq in L. rewrite L. apply negb_false_iff, Nat.eqb_refl.
    - apply andb_true_iff in L as [L _]. apply Nat.eqb_eq in L. rewrite L. apply negb_false_iff, Nat.eqb_refl.
    - apply andb_true_iff in L as [L _]. apply Nat.eqb_eq in L. rewrite L. apply negb_false_iff, Nat.eqb_refl. }
  unfold check_input. rewrite P, Y. cbv beta iota.
  assert (KB: match kind d with KComplex | KObjNone | KStr => true | _ => false end = false)
    by (destruct (kind d); auto; discriminate).
  destruct ty.
  - apply andb_true_iff in F3 as [F3 F5]. apply andb_true_iff in F3 as [F3 F4].
    apply Nat.eqb_eq in F3. apply Nat.leb_le in F4. apply Nat.leb_le in F5.
    assert (S: sk_bad o d = false).
    { unfold sk_bad. rewrite KB, F2, F3.
      replace (dim d 0 <? ensure_min_samples o) with false by (symmetry; apply Nat.ltb_ge; lia).
      replace (dim d 1 <? ensure_min_features o) with false by (symmetry; apply Nat.ltb_ge; lia).
      reflexivity. }
    unfold check_input_classic.
    replace (Nat.eqb (ndim d) 1) with false by (rewrite F3; reflexivity).
    replace (Nat.eqb (ndim d) 2) with true by (rewrite F3; reflexivity).
    cbv beta iota. rewrite S. cbv beta iota.
    replace (Nat.eqb (ndim d) 2) with true by (rewrite F3; reflexivity). reflexivity.
  - apply andb_true_iff in F3 as [F3 F6]. apply andb_true_iff in F3 as [F3 F5]. apply andb_true_iff in F3 as [F3 F4].
    apply Nat.eqb_eq in F3. apply Nat.leb_le in F4. apply Nat.leb_le in F5.
    assert (S: sk_bad o d = false).
    { unfold sk_bad. rewrite KB, F2.
      replace (dim d 0 <? ensure_min_samples o) with false by (symmetry; apply Nat.ltb_ge; lia).
      replace (Nat.eqb (ndim d) 2) with false by (rewrite F3; reflexivity).
      rewrite andb_false_r. reflexivity. }
    assert (T: check_input_tuples d pre o ts = Ok d).
    { unfold check_input_tuples.
      replace (Nat.eqb (ndim d) 2) with false by (rewrite F3; reflexivity).
      replace (Nat.eqb (ndim d) 3) with true by (rewrite F3; reflexivity).
      cbv beta iota. rewrite S. cbv beta iota.
      replace (dim d 2 <? ensure_min_features o) with false by (symmetry; apply Nat.ltb_ge; lia).
      rewrite andb_false_r. cbv beta iota.
      replace (Nat.eqb (ndim d) 3) with true by (rewrite F3; reflexivity). cbv beta iota.
      destruct ts as [t|]; auto. rewrite F6. reflexivity. }
    rewrite T. destruct (yf y); try reflexivity; try discriminate;
      apply andb_true_iff in L as [_ L]; apply negb_true_iff in L; rewrite L; reflexivity.
Qed.

(* malformed formed data is rejected with ValueError (contrapositive packaging) *)
Corollary malformed_rejected d y ty ts o :
  (formed_ok ty ts o d && labels_ok ty (dim d 0) (dim d 1) y) = false ->
  (ndim d = match ty with Classic => 2 | Tuples => 3 end) ->
  check_input d y None ty ts o = Raise ValueError.
Proof.
  intros Hbad Hnd.
  destruct (check_input_total d y None ty ts o) as [[d' H]|[H|[_ [e He]]]]; [|exact H|discriminate].
  exfalso. destruct (check_input_sound _ _ _ _ _ _ _ H) as [A [B [C|C]]]; [|discriminate].
  subst d'. rewrite A, B in Hbad. discriminate.
Qed.

Theorem n_components_spec n nc k :
  check_n_components n nc = Ok k <-> (nc = None /\ k = n) \/ (nc = Some k /\ 1 <= k <= n).
Proof.
  unfold check_n_components. destruct nc as [c|].
  - destruct ((0 <? c) && (c <=? n)) eqn:E.
    + apply andb_true_iff in E as [E1 E2]. apply Nat.ltb_lt in E1. apply Nat.leb_le in E2.
      split; [intro H; inversion H; subst; right; split; auto; lia | intros [[H _]|[H _]]; [discriminate | inversion H; auto]].
    + split; [discriminate|]. intros [[H _]|[H [H1 H2]]]; [discriminate|]. inversion H; subst.
      apply andb_false_iff in E as [E|E]; [apply Nat.ltb_ge in E | apply Nat.leb_gt in E]; lia.
  - split; [intro H; inversion H; auto | intros [[_ ->]|[H _]]; [auto | discriminate]].
Qed.
