(* C19, LSML under an orthogonal change of coordinates: if M' acts on rotated vectors as the rotated M (M' (Q x) = Q (M x)), every
   learned squared distance, every hinge term and the comparison loss of the rotated quadruplets under M' equal those of the original
   quadruplets under M; through C12_source the same holds for the comparison loss as TRANSLATED from lsml.py on this run. *)
From Coq Require Import List Reals Lra.
From ML Require Import Ops Vec NP VecR MatR LinAlg LSML.
Import ListNotations.
Open Scope R_scope.

Notation quadR := (@quad ROps).

Definition rotq (Q : Rm) (q : quadR) : quadR := @Build_quad ROps (mvmulR Q (qab q)) (mvmulR Q (qcd q)) (qw q).

Section Rot.
  Variables (d : nat) (Q M M' : Rm).
  Hypothesis HD : forall x y, wfvR d x -> wfvR d y -> vdotR (mvmulR Q x) (mvmulR Q y) = vdotR x y.
  Hypothesis HM : forall x, wfvR d x -> wfvR d (mvmulR M x).
  Hypothesis HC : forall x, wfvR d x -> mvmulR M' (mvmulR Q x) = mvmulR Q (mvmulR M x).

  Lemma dM_rot (v : Rv) : wfvR d v -> @dM ROps M' (mvmulR Q v) = @dM ROps M v.
  Proof. intro Hv. unfold dM, quadform. rewrite (HC v Hv). apply HD; [exact Hv | apply HM; exact Hv]. Qed.

  Lemma hinge_rot (q : quadR) : wfvR d (qab q) -> wfvR d (qcd q) -> @hinge ROps M' (rotq Q q) = @hinge ROps M q.
  Proof.
    intros Ha Hc. unfold hinge, violated. cbn [rotq qab qcd]. rewrite (dM_rot _ Ha), (dM_rot _ Hc). reflexivity.
  Qed.

  Theorem comparison_loss_rot (qs : list quadR) : Forall (fun q => wfvR d (qab q) /\ wfvR d (qcd q)) qs ->
    @comparison_loss ROps M' (map (rotq Q) qs) = @comparison_loss ROps M qs.
  Proof.
    intro H. unfold comparison_loss. rewrite map_map. f_equal. apply map_ext_in. intros q Hq.
    rewrite Forall_forall in H. destruct (H q Hq) as [Ha Hc]. cbn [rotq qw]. rewrite (hinge_rot q Ha Hc). reflexivity.
  Qed.
End Rot.

(* ---- the comparison loss as translated from lsml.py (gen/Src_lsml.v), through C12Src.src_comparison_loss_eq ---- *)
From ML Require Import NPNum C12Src.
From MLgen Require Import Src_lsml.

Lemma zipq_rot (Q : Rm) : forall (w : Rv) (vab vcd : Rm),
  zipq w (map (mvmulR Q) vab) (map (mvmulR Q) vcd) = map (rotq Q) (zipq w vab vcd).
Proof.
  induction w as [|a w IH]; intros [|u vab] [|v vcd]; cbn [zipq map]; try reflexivity.
  rewrite IH. reflexivity.
Qed.

Lemma zipq_wf d : forall (w : Rv) (vab vcd : Rm), Forall (wfvR d) vab -> Forall (wfvR d) vcd ->
  Forall (fun q : quadR => wfvR d (qab q) /\ wfvR d (qcd q)) (zipq w vab vcd).
Proof.
  induction w as [|a w IH]; intros [|u vab] [|v vcd] Ha Hc; cbn [zipq]; try constructor.
  - inversion Ha; inversion Hc; subst. split; assumption.
  - inversion Ha; inversion Hc; subst. apply IH; assumption.
Qed.

Theorem src_comparison_loss_rotation d (Q M M' : Rm) (w : Rv) (vab vcd : Rm) :
  wfmR d d Q -> wfmR d d M -> wfmR d d M' ->
  (forall x y, wfvR d x -> wfvR d y -> vdotR (mvmulR Q x) (mvmulR Q y) = vdotR x y) ->
  (forall x, wfvR d x -> mvmulR M' (mvmulR Q x) = mvmulR Q (mvmulR M x)) ->
  Forall (wfvR d) vab -> Forall (wfvR d) vcd -> length w = length vab -> length vab = length vcd ->
  @lsml_comparison_loss ROps w M' (map (mvmulR Q) vab) (map (mvmulR Q) vcd) = @lsml_comparison_loss ROps w M vab vcd.
Proof.
  intros HQ HM HM' HD HC Ha Hc L1 L2.
  assert (RW: forall l : Rm, Forall (wfvR d) (map (mvmulR Q) l)).
  { intro l. apply Forall_forall. intros r Hr. apply in_map_iff in Hr as [x [<- _]]. unfold wfv. rewrite mvmul_length. apply HQ. }
  rewrite (src_comparison_loss_eq d w M' _ _ HM' (RW vab) (RW vcd)) by (rewrite ?map_length; assumption).
  rewrite (src_comparison_loss_eq d w M vab vcd HM Ha Hc L1 L2).
  rewrite zipq_rot.
  apply (comparison_loss_rot d Q M M' HD); [| exact HC | apply zipq_wf; assumption].
  intros x Hx. unfold wfv. rewrite mvmul_length. apply HM.
Qed.
