(* Q2R homomorphism: what the exact-rational certificate checkers compute on Q is what the theorems
   talk about on R.  Here: the LDL^T positive-definiteness test. *)
From Coq Require Import List Arith Bool ZArith QArith Qreduction Qreals Reals Lra Lia.
From ML Require Import Ops Vec NP VecR MatR PSD LinAlg Cert LDLSound.
Import ListNotations.

Definition q2v (v : list Q) : Rv := map Q2R v.
Definition q2m (M : list (list Q)) : Rm := map q2v M.

Lemma Q2R_red (q : Q) : Q2R (Qred q) = Q2R q.
Proof. apply Qeq_eqR. apply Qred_correct. Qed.

Lemma hom_sub (a b : Q) : Q2R (@osub QOps a b) = (Q2R a - Q2R b)%R.
Proof. change (@osub QOps a b) with (Qred (a - b)). rewrite Q2R_red. apply Q2R_minus. Qed.
Lemma hom_mul (a b : Q) : Q2R (@omul QOps a b) = (Q2R a * Q2R b)%R.
Proof. change (@omul QOps a b) with (Qred (a * b)). rewrite Q2R_red. apply Q2R_mult. Qed.
Lemma hom_div (a b : Q) : ~ (b == 0)%Q -> Q2R (@odiv QOps a b) = (Q2R a / Q2R b)%R.
Proof. intro H. change (@odiv QOps a b) with (Qred (a / b)). rewrite Q2R_red. apply Q2R_div. exact H. Qed.

Lemma hom_ltb0 (d : Q) : @oltb QOps 0%Q d = true -> (0 < Q2R d)%R /\ ~ (d == 0)%Q.
Proof.
  change (@oltb QOps 0%Q d) with (negb (Qle_bool d 0%Q)). intro H. apply negb_true_iff in H.
  assert (Hlt: (0 < d)%Q).
  { destruct (Qlt_le_dec 0%Q d) as [L|L]; auto. apply Qle_bool_iff in L. congruence. }
  split.
  - replace 0%R with (Q2R 0%Q) by (unfold Q2R; cbn; lra). apply Qlt_Rlt. exact Hlt.
  - intro E. rewrite E in Hlt. apply (Qlt_irrefl 0%Q). exact Hlt.
Qed.
Lemma hom_ltb0_false (d : Q) : @oltb QOps 0%Q d = false -> Rltb 0%R (Q2R d) = false.
Proof.
  change (@oltb QOps 0%Q d) with (negb (Qle_bool d 0%Q)). intro H. apply negb_false_iff in H. apply Qle_bool_iff in H.
  apply Rltb_false. replace 0%R with (Q2R 0%Q) by (unfold Q2R; cbn; lra). apply Qle_Rle. exact H.
Qed.

Lemma hom_hd0 (r : list Q) : Q2R (@hd0 QOps r) = @hd0 ROps (q2v r).
Proof. destruct r; [cbn; unfold Q2R; cbn; lra | reflexivity]. Qed.
Lemma hom_tl (r : list Q) : q2v (tl r) = tl (q2v r).
Proof. destruct r; reflexivity. Qed.
Lemma hom_vsub : forall (a b : list Q), q2v (@vsub QOps a b) = vsubR (q2v a) (q2v b).
Proof. induction a as [|x a IH]; intros [|y b]; cbn [vsub q2v map]; auto. rewrite hom_sub. cbn [osub ROps]. apply f_equal. apply IH. Qed.
Lemma hom_vscale (c : Q) : forall (a : list Q), q2v (@vscale QOps c a) = vscaleR (Q2R c) (q2v a).
Proof. induction a as [|x a IH]; cbn [vscale q2v map]; auto. rewrite hom_mul. cbn [omul ROps]. apply f_equal. apply IH. Qed.
Lemma hom_mapdiv (d : Q) : ~ (d == 0)%Q -> forall (a : list Q),
  q2v (map (fun x => @odiv QOps x d) a) = map (fun x => (x / Q2R d)%R) (q2v a).
Proof. intros Hd a. unfold q2v. rewrite !map_map. apply map_ext. intro x. apply hom_div; auto. Qed.

(* the factorisation succeeds on R whenever it succeeds on Q *)
Theorem hom_ldl : forall fuel (M : list (list Q)) l,
  @ldl_fuel QOps fuel M = Some l -> exists l', @ldl_fuel ROps fuel (q2m M) = Some l'.
Proof.
  induction fuel as [|f IH]; intros M l H.
  - cbn in *. destruct M; [eexists; reflexivity | discriminate].
  - destruct M as [|r rest]; [cbn; eexists; reflexivity|].
    cbn [ldl_fuel] in H. destruct (@oltb QOps (@o0 QOps) (@hd0 QOps r)) eqn:E; [|discriminate].
    destruct (hom_ltb0 _ E) as [Hpos Hnz].
    match type of H with context [ldl_fuel f ?S] => destruct (@ldl_fuel QOps f S) as [l0|] eqn:EL; [|discriminate] end.
    destruct (IH _ _ EL) as [l' Hl'].
    cbn [ldl_fuel q2m map]. fold (q2m rest). rewrite <- hom_hd0. cbn [oltb o0 ROps].
    assert (Et: Rltb 0 (Q2R (@hd0 QOps r)) = true) by (apply Rltb_true; exact Hpos). rewrite Et.
    assert (ES: q2m (map (fun ri => @vsub QOps (tl ri) (@vscale QOps (@hd0 QOps ri) (tl (map (fun a => @odiv QOps a (@hd0 QOps r)) r)))) rest)
              = map (fun ri : Rv => vsubR (tl ri) (vscaleR (@hd0 ROps ri) (tl (map (fun a => @odiv ROps a (Q2R (@hd0 QOps r))) (q2v r))))) (q2m rest)).
    { unfold q2m. rewrite !map_map. apply map_ext. intro ri.
      rewrite hom_vsub, hom_tl, hom_vscale, hom_hd0, hom_tl, hom_mapdiv by auto. reflexivity. }
    rewrite ES in Hl'. rsimp. rewrite Hl'. eexists. reflexivity.
Qed.

(* entrywise symmetry transfers *)
Lemma q2m_entry (M : list (list Q)) i j : ment (q2m M) i j = Q2R (nth j (nth i M []) 0%Q).
Proof.
  unfold ment, q2m, q2v.
  replace (@nil R) with (map Q2R (@nil Q)) by reflexivity. rewrite map_nth.
  replace 0%R with (Q2R 0%Q) by (unfold Q2R; cbn; lra). rewrite map_nth. reflexivity.
Qed.

Lemma qsymmb_symm n M : qsymmb n M = true -> symm n (q2m M).
Proof.
  intros H i j Hi Hj. unfold qsymmb in H. rewrite forallb_forall in H.
  specialize (H i ltac:(apply in_seq; lia)). rewrite forallb_forall in H.
  specialize (H j ltac:(apply in_seq; lia)). apply Qeq_bool_iff in H.
  rewrite !q2m_entry. apply Qeq_eqR. exact H.
Qed.

Lemma q2m_wfm n (M : list (list Q)) : @wfmb QOps n n M = true -> wfmR n n (q2m M).
Proof.
  intro H. apply (@wfmb_iff QOps n n M) in H. destruct H as [H1 H2]. split.
  - unfold q2m. rewrite map_length. exact H1.
  - unfold q2m. apply Forall_forall. intros r Hr. apply in_map_iff in Hr as [q [<- Hq]].
    rewrite Forall_forall in H2. unfold wfv, q2v in *. rewrite map_length. apply H2; auto.
Qed.

(* the certificate: well-formed, exactly symmetric, all LDL^T pivots positive  ==>  positive definite over R *)
Theorem cert_pd_sound n (M : list (list Q)) : cert_pd n M = true -> PDop n (q2m M).
Proof.
  unfold cert_pd. intro H. apply andb_true_iff in H as [H H3]. apply andb_true_iff in H as [H1 H2].
  destruct (@ldl_fuel QOps (S n) M) as [l|] eqn:E; [|discriminate].
  destruct (hom_ldl _ _ _ E) as [l' Hl'].
  apply (ldl_pd_sound n (q2m M) l'); [apply q2m_wfm; auto | apply qsymmb_symm; auto | exact Hl'].
Qed.
