(* Text-level tie of C07: the hand-written model / harness of this property was written from exactly these versions of the
   functions below (normalised source, digests regenerated from /repo on every run in gen/Src_pins.v; the text itself is in
   /verif/pins/).  A function that changes breaks this lemma; the check then looks for a failing input and reports the
   obligation with a diff.  Rewritten by `tools/translate_pins.py --update` after a repair of /repo. *)
From Coq Require Import String List.
From MLgen Require Import Src_pins.
Import ListNotations.
Open Scope string_scope.

Lemma pins_C07_ok :
  [ pin_constraints__Constraints___init
  ; pin_constraints__Constraints__positive_negative_pairs
  ; pin_constraints__Constraints__generate_knntriplets
  ; pin_constraints__Constraints__pairs
  ; pin_constraints__Constraints__chunks
  ; pin_constraints__comb
  ; pin_constraints__wrap_pairs ] =
  [ "acf00c1415b41102d7169743b28c9e063e06bc16ca333e2f7f76bf0f6ad0d073"   (* constraints.py: Constraints.__init__ *)
  ; "4e5e7bf3f452e6a3579760190b1d6332c524de6c0f75fe38fedd44e0506138cc"   (* constraints.py: Constraints.positive_negative_pairs *)
  ; "0ba6296b5abac17fd569427eb42db74916212fec2949d8d892c309f32255856a"   (* constraints.py: Constraints.generate_knntriplets *)
  ; "214be9c0ded1054bbf0b03ea9a8f76c02cc796d740b8dd71fd65913d33f97664"   (* constraints.py: Constraints._pairs *)
  ; "234469358f3a4825de1483e59850bf03072cda481fb41ded5d9de17df742eac9"   (* constraints.py: Constraints.chunks *)
  ; "ea5b73af5ef3a6192fe8085c6852dadf66851eb002693eba5a00fd41013b7d27"   (* constraints.py: comb *)
  ; "471a0308bb9b2c71ded2ab3b9e2a43978dbadaa2fe7dbb0555614b97f47e2bf0"   (* constraints.py: wrap_pairs *) ].
Proof. reflexivity. Qed.
