(* Matrix products on lists in action form: (P Q) x = P (Q x), rows of a transpose. *)
From Coq Require Import List Arith Bool Reals Lra Lia.
From ML Require Import Ops Vec NP VecR MatR LinAlg CovProof.
Import ListNotations.
Open Scope R_scope.

(* (P Q) x = P (Q x): Q is n x m with n > 0, the rows of P have length n *)
Lemma mmulg_action m (P Q : Rm) (x : Rv) : Q <> [] -> Forall (wfvR m) Q -> Forall (wfvR (length Q)) P -> wfvR m x ->
  mvmulR (@mmulg ROps P Q) x = mvmulR P (mvmulR Q x).
Proof.
  intros Hne HQ HP Hx. unfold mmulg. unfold mvmul at 1. rewrite map_map. unfold mvmul at 2.
  apply map_ext_in. intros r Hr. rewrite Forall_forall in HP. specialize (HP r Hr).
  rewrite (transp_is_fuel m Q Hne HQ).
  assert (E: map (vdotR r) (transp_fuelR m Q) = mvmulR (transp_fuelR m Q) r).
  { unfold mvmul. apply map_ext. intro c. apply vdot_comm. }
  rewrite E. apply (transp_fuel_adjoint m Q r x Hne HQ Hx HP).
Qed.

Lemma transp_rows_wf k (A : Rm) : A <> [] -> Forall (wfvR k) A -> Forall (wfvR (length A)) (transpR A) /\ length (transpR A) = k.
Proof.
  intros Hne HA. rewrite (transp_is_fuel k A Hne HA). split; [apply transp_fuel_rows | apply transp_fuel_length]; auto.
Qed.

