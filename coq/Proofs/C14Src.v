(* C14, source level: the budget, the half-space step and the exit test of the projection loop of mmc.py, as
   translated into gen/Src_mmc.v on every run.  Proved over R:
   - w . vec(A) is the sum over the similar pairs of d^T A d, for every d x d matrix A (so the translated t is one
     hundredth of that sum under the initial matrix);
   - the translated first-constraint step returns a point with w . x <= t (= t when it moves);
   - when the translated exit test holds, the sum over the similar pairs is below 1.01 t: the "1% projection
     tolerance" of the property.
   The eigenvalue clipping between the two (np.linalg.eigh) is the oracle of Model/MMC.v (clip_form_psd). *)
From Coq Require Import String.
From Coq Require Import List Arith Bool Reals Lra Lia ZArith.
From ML Require Import Ops Vec NP VecR MatR LinAlg NPNum MMC C14Proof.
From MLgen Require Import Src_mmc.
Import ListNotations.
Open Scope R_scope.

Lemma vdot_app : forall (a c b e : Rv), length a = length c ->
  vdotR (a ++ b) (c ++ e) = vdotR a c + vdotR b e.
Proof.
  induction a as [|x a IH]; intros [|y c] b e H; try discriminate.
  - cbn. lra.
  - cbn [app vdot]. rewrite IH by (cbn in H; lia). cbn. lra.
Qed.

Lemma vdot_zeros_l (z x : Rv) : Forall (fun a => a = 0) z -> vdotR z x = 0.
Proof. revert x. induction z as [|a z IH]; intros [|b x] H; cbn; auto. inversion H; subst. rewrite IH by auto. lra. Qed.

Lemma concat_mzero_zeros k d : Forall (fun a : R => a = 0) (concat (@mzero ROps k d)).
Proof.
  unfold mzero. induction k as [|k IH]; cbn; [constructor|]. apply Forall_app. split; [|exact IH].
  clear. induction d as [|d IH]; cbn; constructor; auto.
Qed.

Lemma concat_madd d : forall (P Q : Rm), Forall (wfvR d) P -> Forall (wfvR d) Q -> length P = length Q ->
  concat (maddR P Q) = vaddR (concat P) (concat Q).
Proof.
  induction P as [|p P IH]; intros [|q Q] HP HQ HL; try discriminate; [reflexivity|].
  inversion HP as [|? ? Hp HP']; inversion HQ as [|? ? Hq HQ']; subst.
  cbn [madd concat]. rewrite IH by (auto; cbn in HL; lia).
  clear - Hp Hq. unfold wfv in *. revert q d Hp Hq.
  induction p as [|a p IHp]; intros [|b q] d Hp Hq; cbn in *; try (subst; discriminate); auto.
  f_equal. destruct d; [discriminate|]. apply (IHp q d); lia.
Qed.

Lemma concat_length d : forall (P : Rm), Forall (wfvR d) P -> length (concat P) = (length P * d)%nat.
Proof. induction P as [|p P IH]; intro H; [reflexivity|]. inversion H; subst. cbn. rewrite app_length, IH by auto. unfold wfv in *. rsimp. nia. Qed.

(* vec(u v^T) . vec(A) = u . (A v) *)
Lemma ravel_outer_dot d (v : Rv) : wfvR d v -> forall (u : Rv) (A : Rm), Forall (wfvR d) A -> length u = length A ->
  vdotR (concat (outerR u v)) (concat A) = vdotR u (mvmulR A v).
Proof.
  intros Hv. induction u as [|a u IH]; intros [|r A] HA HL; try discriminate; [reflexivity|].
  inversion HA as [|? ? Hr HA']; subst.
  cbn [outer map concat mvmul vdot].
  rewrite vdot_app by (rewrite vscale_length; unfold wfv in *; rsimp; rewrite Hv, Hr; reflexivity).
  change (map (fun a0 => vscaleR a0 v) u) with (outerR u v).
  change (map (fun r0 => vdotR r0 v) A) with (mvmulR A v).
  rewrite IH by (auto; cbn in HL; lia). rewrite vdot_vscale_l, (vdot_comm v r). cbn. lra.
Qed.

Lemma einsum_wfm d : forall X : Rm, Forall (wfvR d) X -> wfmR d d (@nn_einsum_ij_ik_jk ROps d X X).
Proof.
  unfold nn_einsum_ij_ik_jk. induction X as [|x X IH]; intro H; cbn; [apply mzero_wfm|].
  inversion H; subst. apply madd_wfm; [apply outer_wfm_kd; auto | apply IH; auto].
Qed.

(* the weight vector of the source: w . vec(A) = sum over the similar pairs of d^T A d *)
Theorem mmc_w_is_fS d (X A : Rm) : Forall (wfvR d) X -> wfmR d d A ->
  vdotR (@nn_ravel ROps (@nn_einsum_ij_ik_jk ROps d X X)) (@nn_ravel ROps A) = @fS ROps A X.
Proof.
  intros HX [HL HA]. subst d. unfold nn_ravel, fS. induction X as [|x X IH]; cbn [map vsum].
  - unfold nn_einsum_ij_ik_jk. cbn. apply vdot_zeros_l. apply concat_mzero_zeros.
  - inversion HX as [|? ? Hx HX']; subst.
    unfold nn_einsum_ij_ik_jk. cbn [combine fold_right fst snd].
    pose proof (einsum_wfm (length A) X HX') as [EL EA].
    assert (OW: wfmR (length A) (length A) (outerR x x)) by (apply outer_wfm_kd; auto).
    destruct OW as [OL OA].
    set (E := @nn_einsum_ij_ik_jk ROps (length A) X X) in *.
    change (fold_right _ _ (combine X X)) with E.
    assert (LE: length (outerR x x) = length E) by (transitivity (length A); [exact OL | symmetry; exact EL]).
    rewrite (concat_madd (length A) (outerR x x) E OA EA LE).
    assert (LC: length (concat (outerR x x)) = length (concat E)).
    { transitivity ((length (outerR x x) * length A)%nat); [apply (concat_length (length A)); exact OA|].
      rewrite LE. symmetry. apply (concat_length (length A)). exact EA. }
    etransitivity; [apply vdot_vadd_l; exact LC|].
    apply f_equal2; [exact (ravel_outer_dot (length A) x Hx x A HA Hx) | exact (IH HX')].
Qed.

(* ---- the first-constraint step ---- *)
Lemma vdot_div_r (n : R) : forall w x : Rv, vdotR x (@nn_div_vs ROps w n) = vdotR x w / n.
Proof. unfold nn_div_vs. intros w x. revert w. induction x as [|a x IH]; intros [|b w]; cbn; try (unfold Rdiv; ring). rewrite IH. cbn. unfold Rdiv. ring. Qed.
Lemma vdot_div_l (n : R) (w x : Rv) : vdotR (@nn_div_vs ROps w n) x = vdotR w x / n.
Proof. rewrite vdot_comm, vdot_div_r, vdot_comm. reflexivity. Qed.

Theorem mmc_project1_budget (w x0 : Rv) (t : R) : length x0 = length w -> 0 < vdotR w w ->
  let n := @nn_norm_v ROps w in
  let x := @mmc_project1 ROps w t (@nn_div_vs ROps w n) (t / n) x0 in
  vdotR w x <= t /\ (t < vdotR w x0 -> vdotR w x = t) /\ length x = length w.
Proof.
  intros HL Hw n x. unfold x, mmc_project1, nn_dot_vv, nn_add_vv, nn_mul_sv.
  assert (Hn2: n * n = vdotR w w).
  { unfold n, nn_norm_v, vsumsq. cbn [osqrt ROps]. apply sqrt_def. lra. }
  assert (Hn: 0 < n).
  { unfold n, nn_norm_v, vsumsq. cbn [osqrt ROps]. apply sqrt_lt_R0. exact Hw. }
  cbn [oleb ROps]. destruct (Rleb (vdotR w x0) t) eqn:E.
  - apply Rleb_true in E. split; [exact E|]. split; [intro; lra | exact HL].
  - apply Rleb_false in E.
    assert (LL: length x0 = length (vscaleR (osub ROps (t / n) (vdotR (@nn_div_vs ROps w n) x0)) (@nn_div_vs ROps w n))).
    { rewrite vscale_length. unfold nn_div_vs. rewrite map_length. exact HL. }
    assert (EQ: vdotR w (vaddR x0 (vscaleR (osub ROps (t / n) (vdotR (@nn_div_vs ROps w n) x0)) (@nn_div_vs ROps w n))) = t).
    { rewrite vdot_vadd_r by exact LL. rewrite vdot_vscale_r, vdot_div_r, vdot_div_l. cbn [osub ROps].
      rewrite <- Hn2. rsimp. field. lra. }
    split; [rewrite EQ; lra|]. split; [intro; exact EQ|].
    rewrite vadd_length by exact LL. exact HL.
Qed.

(* ---- the exit test: relative violation of the budget below 1% ---- *)
Theorem mmc_satisfied_budget (w : Rv) (t : R) (A : Rm) : 0 < t ->
  @mmc_satisfied ROps w t A = true -> vdotR w (@nn_ravel ROps A) < (101 / 100) * t.
Proof.
  intros Ht H. unfold mmc_satisfied, nn_dot_vv in H. cbn [oltb ROps] in H. apply Rltb_true in H.
  cbn [odiv osub ROps] in H. unfold olit in H. cbn in H.
  set (f := vdotR w (@nn_ravel ROps A)) in *.
  assert (f - t < t * (1 / 100)).
  { apply Rmult_lt_reg_r with (r := / t); [apply Rinv_0_lt_compat; lra|].
    replace (t * (1 / 100) * / t) with (1 / 100) by (field; lra). exact H. }
  lra.
Qed.

Lemma mmc_skeleton_ok : mmc_skeleton =
  [ "num_dim = pairs.shape[2]"
  ; "eps = 0.01"
  ; "A = self.A_"
  ; "pos_pairs, neg_pairs = (pairs[y == 1], pairs[y == -1])"
  ; "pos_diff = pos_pairs[:, 0, :] - pos_pairs[:, 1, :]"
  ; "satisfy = False"
  ; "l, V = np.linalg.eigh((A + A.T) / 2)"
  ; "A[:] = np.dot(V * np.maximum(0, l[None, :]), V.T)" ]%string.
Proof. reflexivity. Qed.

(* ---- the outer accept / reject loop as translated (with its real step-size history): what fit returns ---- *)
Definition mmc_kept {O : Ops} (st : list (list (T O)) * list (list (T O)) * T O * list (list (T O))) : list (list (T O)) :=
  let '(_, A_old, _, _) := st in A_old.

Lemma mmc_cycle_kept {O : Ops} cycle st A sat op ob Mn :
  mmc_kept (@mmc_cycle O cycle st A sat op ob Mn) = mmc_kept st \/
  (sat = true /\ mmc_kept (@mmc_cycle O cycle st A sat op ob Mn) = A).
Proof.
  destruct st as [[[A0 Aold] alpha] Md]. unfold mmc_cycle.
  destruct (mmc_accept cycle sat op ob) eqn:E; cbn [mmc_kept]; [right | left; reflexivity].
  split; [|reflexivity]. unfold mmc_accept in E. apply andb_prop in E. exact (proj1 E).
Qed.

(* for every number of cycles, every projection / objective / direction / convergence oracle: the matrix kept at the end is the one
   kept at the start (the initial matrix) or a projected iterate whose `satisfy` flag was set *)
Theorem mmc_kept_feasible {O : Ops} : forall (orc : list (list (list (T O)) * bool * T O * T O * list (list (T O)) * bool)) cycle st,
  mmc_kept (@mmc_cycles O cycle st orc) = mmc_kept st \/
  exists A op ob Mn stop, In (A, true, op, ob, Mn, stop) orc /\ mmc_kept (@mmc_cycles O cycle st orc) = A.
Proof.
  induction orc as [|[[[[[A sat] op] ob] Mn] stop] orc IH]; intros cycle st; [left; reflexivity|].
  cbn [mmc_cycles].
  destruct (mmc_cycle_kept cycle st A sat op ob Mn) as [K|[-> K]].
  - destruct stop.
    + left. exact K.
    + destruct (IH (S cycle) (mmc_cycle cycle st A sat op ob Mn)) as [H|[A' [op' [ob' [Mn' [stop' [Hin H]]]]]]].
      * left. rewrite H. exact K.
      * right. exists A', op', ob', Mn', stop'. split; [right; exact Hin | exact H].
  - destruct stop.
    + right. exists A, op, ob, Mn, true. split; [left; reflexivity | exact K].
    + destruct (IH (S cycle) (mmc_cycle cycle st A true op ob Mn)) as [H|[A' [op' [ob' [Mn' [stop' [Hin H]]]]]]].
      * right. exists A, op, ob, Mn, false. split; [left; reflexivity | rewrite H; exact K].
      * right. exists A', op', ob', Mn', stop'. split; [right; exact Hin | exact H].
Qed.
