(* C11, the converged clause.
   (1) the loop as the code runs it (sweeps until the change of the dual variables is below tol, or the budget is
       exhausted) returns the state after exactly n_iter_ + 1 sweeps, n_iter_ < max_iter: every invariant proved
       for [run] holds for what fit returns;
   (2) a sweep that leaves every dual variable unchanged (the exact form of the stopping test, conv = 0) leaves the
       whole state unchanged, and then every constraint is either inactive -- lambda_i = 0 and its slack-adjusted
       bound satisfied -- or tight: v_i^T A v_i = xi_i.  These are the KKT conditions of the slack-regularised
       LogDet problem. *)
From Coq Require Import List Arith Bool Reals Lra Psatz Lia.
From ML Require Import Ops Vec NP VecR MatR PSD LinAlg ITML C11Proof C11Fixed.
Import ListNotations.
Open Scope R_scope.

(* ---------- (1) generic in the carrier ---------- *)
Lemma run_S {O : Ops} g cs n (s : @st O) : run g cs (S n) s = run g cs n (sweep g cs s).
Proof. reflexivity. Qed.

Lemma run_conv_is_run {O : Ops} g cs tol : forall budget it (s : @st O) lamold,
  (0 < budget)%nat ->
  exists k, (k < budget)%nat /\ snd (run_conv g cs tol budget it s lamold) = (it + k)%nat /\
            fst (run_conv g cs tol budget it s lamold) = run g cs (S k) s.
Proof.
  induction budget as [|b IH]; intros it s lamold Hb; [lia|].
  cbn [run_conv]. destruct (stops tol lamold (lams (sweep g cs s))) eqn:E.
  - exists 0%nat. cbn. split; [lia|]. split; [lia|reflexivity].
  - destruct b as [|b'].
    + exists 0%nat. cbn. split; [lia|]. split; [lia|reflexivity].
    + destruct (IH (S it) (sweep g cs s) (lams (sweep g cs s)) ltac:(lia)) as [k [Hk [Hn Hs]]].
      exists (S k). split; [lia|]. split; [rewrite Hn; lia|]. rewrite Hs. reflexivity.
Qed.

(* ---------- (2) over R ---------- *)
(* inactive or tight *)
Definition kkt (A : Rm) (c : cstrR) (du : dualR) : Prop :=
  let q := wtw A c in
  (lam du = 0 /\ (if cpos c then q <= bhat du else bhat du <= q)) \/ q = bhat du.

Lemma inv_le_inv (a b : R) : 0 < a -> 0 < b -> 1 / b <= 1 / a -> a <= b.
Proof.
  intros Ha Hb H. unfold Rdiv in H. rewrite !Rmult_1_l in H.
  destruct (Rle_or_lt a b) as [|Hlt]; auto. exfalso.
  pose proof (Rinv_lt_contravar b a (Rmult_lt_0_compat _ _ Hb Ha) Hlt). lra.
Qed.

Lemma inv_eq_inv (a b : R) : 0 < a -> 0 < b -> 1 / a = 1 / b -> a = b.
Proof.
  intros Ha Hb H. apply Rle_antisym; apply inv_le_inv; auto; lra.
Qed.

Lemma update_unchanged d (A : Rm) (g : option R) (c : cstrR) (du : dualR) :
  gamma_ok g -> wfmR d d A -> wfvR d (cv c) -> dual_ok du -> 0 < wtw A c ->
  lam (snd (updateR g c A du)) = lam du ->
  updateR g c A du = (A, du) /\ kkt A c du.
Proof.
  intros Hg [HA1 HA2] Hv [Hl Hb] Hq.
  pose proof (gamma_proj_range g Hg) as [Hgp _].
  unfold update, kkt, wtw in *. set (q := vdotR (cv c) (mvmulR A (cv c))) in *.
  destruct du as [l b]. cbn [lam bhat] in *.
  destruct (cpos c) eqn:Ec; cbn [snd lam bhat]; intro Hlam.
  - set (x := @omul ROps (@gamma_proj ROps g) (@osub ROps (@inv ROps q) (@inv ROps b))) in *.
    assert (Ea: @omin ROps l x = 0) by (cbn [osub ROps] in Hlam; lra).
    rewrite Ea.
    assert (Eb: @odiv ROps 0 (@osub ROps (o1 ROps) (@omul ROps 0 q)) = 0) by (cbn; field; lra).
    rewrite Eb. split.
    + f_equal.
      * apply (madd_outer0 d); auto; [unfold wfv; rewrite mvmul_length; exact HA1 | rewrite mvmul_length; reflexivity].
      * f_equal; [cbn [osub ROps]; lra|].
        unfold inv. destruct g as [gm|]; cbn [over_gamma odiv oadd o0 o1 ROps]; cbn in Hg; rsimp; field; lra.
    + rewrite omin_Rmin in Ea. unfold x, inv in Ea. cbn [omul osub odiv o1 ROps] in Ea.
      unfold Rmin in Ea. destruct (Rle_dec l _) as [Hle|Hgt].
      * left. split; [exact Ea|]. subst l. apply inv_le_inv; auto. nra.
      * right. apply inv_eq_inv; auto. nra.
  - set (x := @omul ROps (@gamma_proj ROps g) (@osub ROps (@inv ROps b) (@inv ROps q))) in *.
    assert (Ea: @omin ROps l x = 0) by (cbn [osub ROps] in Hlam; lra).
    rewrite Ea.
    assert (Eb: @odiv ROps (@oopp ROps 0) (@oadd ROps (o1 ROps) (@omul ROps 0 q)) = 0) by (cbn; field; lra).
    rewrite Eb. split.
    + f_equal.
      * apply (madd_outer0 d); auto; [unfold wfv; rewrite mvmul_length; exact HA1 | rewrite mvmul_length; reflexivity].
      * f_equal; [cbn [osub ROps]; lra|].
        unfold inv. destruct g as [gm|]; cbn [over_gamma odiv osub o0 o1 ROps]; cbn in Hg; rsimp; field; lra.
    + rewrite omin_Rmin in Ea. unfold x, inv in Ea. cbn [omul osub odiv o1 ROps] in Ea.
      unfold Rmin in Ea. destruct (Rle_dec l _) as [Hle|Hgt].
      * left. split; [exact Ea|]. subst l. apply inv_le_inv; auto. nra.
      * right. symmetry. apply inv_eq_inv; auto. nra.
Qed.

Lemma sweep_aux_unchanged d (A : Rm) (g : option R) :
  gamma_ok g -> wfmR d d A ->
  forall cs ds, Forall (fun c => wfvR d (cv c) /\ 0 < wtw A c) cs -> Forall dual_ok ds -> length ds = length cs ->
  map lam (snd (sweep_auxR g cs A ds)) = map lam ds ->
  sweep_auxR g cs A ds = (A, ds) /\ Forall2 (kkt A) cs ds.
Proof.
  intros Hg HA. induction cs as [|c cs IH]; intros [|du ds] Hc Hd HL Hlam; cbn in HL; try discriminate.
  - split; [reflexivity | constructor].
  - inversion Hc as [|? ? [Hw Hq] Hc']; inversion Hd as [|? ? Hdu Hd']; subst.
    cbn [sweep_aux] in *.
    destruct (updateR g c A du) as [A1 du1] eqn:Eu.
    destruct (sweep_auxR g cs A1 ds) as [A2 ds2] eqn:Es.
    cbn [snd map] in Hlam. injection Hlam as H1 H2.
    assert (Hu: lam (snd (updateR g c A du)) = lam du) by (rewrite Eu; exact H1).
    destruct (update_unchanged d A g c du Hg HA Hw Hdu Hq Hu) as [Efix Hk].
    rewrite Eu in Efix. injection Efix as -> ->.
    assert (Hrest: map lam (snd (sweep_auxR g cs A ds)) = map lam ds) by (rewrite Es; exact H2).
    destruct (IH ds Hc' Hd' ltac:(lia) Hrest) as [Efix2 Hk2].
    rewrite Es in Efix2. injection Efix2 as -> ->.
    split; [reflexivity | constructor; auto].
Qed.

Theorem itml_converged_kkt d (g : option R) (cs : list cstrR) (s : stR) :
  gamma_ok g -> wfmR d d (A s) ->
  Forall (fun c => wfvR d (cv c) /\ 0 < wtw (A s) c) cs -> Forall dual_ok (duals s) -> length (duals s) = length cs ->
  lams (sweepR g cs s) = lams s ->
  sweepR g cs s = s /\ Forall2 (kkt (A s)) cs (duals s).
Proof.
  intros Hg HA Hc Hd HL Hlam. destruct s as [Am ds]. unfold sweep, lams in *. cbn [A duals] in *.
  destruct (sweep_auxR g cs Am ds) as [A1 ds1] eqn:E.
  cbn [duals] in Hlam.
  assert (H: map lam (snd (sweep_auxR g cs Am ds)) = map lam ds) by (rewrite E; exact Hlam).
  destruct (sweep_aux_unchanged d Am g Hg HA cs ds Hc Hd HL H) as [Efix Hk].
  rewrite E in Efix. injection Efix as -> ->. split; auto.
Qed.

(* in a state reached by the solver (A positive definite, pairs not collapsed) the hypothesis on wtw holds *)
Lemma wtw_pos d (Am : Rm) (cs : list cstrR) : PDop d Am -> Forall (cstr_ok d) cs ->
  Forall (fun c => wfvR d (cv c) /\ 0 < wtw Am c) cs.
Proof.
  intros HP Hc. induction Hc as [|c cs [Hw Hn] _ IH]; constructor; auto.
  split; auto. unfold wtw. apply (HP (cv c) Hw Hn).
Qed.
