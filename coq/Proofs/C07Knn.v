(* C07, k-NN triplets: all combinations exactly once; caller-frame indices carry known labels. *)
From Coq Require Import List Arith Bool ZArith Lia FinFun.
From ML Require Import Constraints C07Pairs.
Import ListNotations.

Lemma comb_rows_In a b c : forall A B C,
  In (a, b, c) (comb_rows A B C) <->
  exists r, r < length A /\ r < length B /\ r < length C /\
            nth r A 0 = a /\ In b (nth r B []) /\ In c (nth r C []).
Proof.
  unfold comb_rows. induction A as [|a0 A IH]; intros B C.
  - cbn. split; [tauto | intros [r [H _]]; cbn in H; lia].
  - destruct B as [|bs B]; [cbn; split; [tauto | intros [r [_ [H _]]]; cbn in H; lia]|].
    destruct C as [|cs C]; [cbn; split; [tauto | intros [r [_ [_ [H _]]]]; cbn in H; lia]|].
    cbn [combine flat_map]. rewrite in_app_iff, IH. split.
    + intros [H|[r [H1 [H2 [H3 [H4 [H5 H6]]]]]]].
      * apply in_flat_map in H as [b' [Hb H]]. apply in_map_iff in H as [c' [E Hc]]. inversion E; subst.
        exists 0. cbn. repeat split; auto; lia.
      * exists (S r). cbn. repeat split; auto; lia.
    + intros [[|r] [H1 [H2 [H3 [H4 [H5 H6]]]]]]; cbn in *.
      * left. subst. apply in_flat_map. exists b. split; auto. apply in_map_iff. exists c. auto.
      * right. exists r. repeat split; auto; lia.
Qed.

Lemma NoDup_flat_map_disj {A B} (f : A -> list B) : forall l,
  NoDup l -> (forall x, In x l -> NoDup (f x)) ->
  (forall x y z, In x l -> In y l -> In z (f x) -> In z (f y) -> x = y) ->
  NoDup (flat_map f l).
Proof.
  induction l as [|a l IH]; intros N H1 H2; cbn; [constructor|].
  inversion N; subst.
  assert (Happ: forall (u v : list B), NoDup u -> NoDup v -> (forall z, In z u -> ~ In z v) -> NoDup (u ++ v)).
  { induction u as [|x u IHu]; intros v Nu Nv D; cbn; auto. inversion Nu; subst. constructor.
    - rewrite in_app_iff. intros [Hx|Hx]; [auto | apply (D x); [left; auto | auto]].
    - apply IHu; auto. intros z Hz. apply D. right; auto. }
  apply Happ.
  - apply H1. left; auto.
  - apply IH; auto. + intros; apply H1; right; auto. + intros x y z Hx Hy; apply H2; right; auto.
  - intros z Hz Hf. apply in_flat_map in Hf as [y [Hy Hzy]].
    assert (a = y) by (apply (H2 a y z); [left; auto | right; auto | auto | auto]). subst. auto.
Qed.

(* every combination appears exactly once when the anchors and each neighbour row are duplicate-free *)
Lemma comb_rows_nodup : forall A B C, NoDup A ->
  Forall (fun r => NoDup r) B -> Forall (fun r => NoDup r) C -> NoDup (comb_rows A B C).
Proof.
  unfold comb_rows. induction A as [|a A IH]; intros B C NA NB NC; [constructor|].
  destruct B as [|bs B]; [constructor|]. destruct C as [|cs C]; [constructor|].
  inversion NA; inversion NB; inversion NC; subst. cbn [combine flat_map].
  assert (Happ: forall (u v : list (nat*nat*nat)), NoDup u -> NoDup v -> (forall z, In z u -> ~ In z v) -> NoDup (u ++ v)).
  { induction u as [|x u IHu]; intros v Nu Nv D; cbn; auto. inversion Nu; subst. constructor.
    - rewrite in_app_iff. intros [Hx|Hx]; [auto | apply (D x); [left; auto | auto]].
    - apply IHu; auto. intros z Hz. apply D. right; auto. }
  apply Happ.
  - apply NoDup_flat_map_disj; auto.
    + intros b Hb. apply Injective_map_NoDup; auto. intros x y E; inversion E; auto.
    + intros x y z Hx Hy Hz1 Hz2. apply in_map_iff in Hz1 as [c1 [E1 _]]. apply in_map_iff in Hz2 as [c2 [E2 _]].
      subst. inversion E2; auto.
  - apply IH; auto.
  - intros [[a' b'] c'] Hz Hv. apply in_flat_map in Hz as [b0 [_ Hz]]. apply in_map_iff in Hz as [c0 [E _]].
    inversion E; subst. fold (comb_rows A B C) in Hv. apply comb_rows_In in Hv as [r [Hr1 [_ [_ [Hr4 _]]]]].
    match goal with H : ~ In a' A |- _ => apply H end. rewrite <- Hr4. apply nth_In; auto.
Qed.

(* soundness in the caller's frame for any neighbour tables with the documented contents *)
Theorem knn_class_sound labels (gen_indx : list nat) gen_neigh imp_neigh a b c :
  let kl := known_labels labels in let kidx := known_idx labels in
  (forall i, In i gen_indx -> i < length kidx) ->
  (* genuine neighbours: another known point of the same class; impostors: a known point of another class *)
  (forall r, r < length gen_indx -> forall j, In j (nth r gen_neigh []) ->
       j < length kidx /\ j <> nth r gen_indx 0 /\ nth j kl 0%Z = nth (nth r gen_indx 0) kl 0%Z) ->
  (forall r, r < length gen_indx -> forall j, In j (nth r imp_neigh []) ->
       j < length kidx /\ nth j kl 0%Z <> nth (nth r gen_indx 0) kl 0%Z) ->
  In (a, b, c) (map (knn_to_caller kidx) (knn_class gen_indx gen_neigh imp_neigh)) ->
  a < length labels /\ b < length labels /\ c < length labels /\
  (0 <= lab labels a)%Z /\ (0 <= lab labels b)%Z /\ (0 <= lab labels c)%Z /\
  a <> b /\ lab labels b = lab labels a /\ lab labels c <> lab labels a.
Proof.
  intros kl kidx Hg HG HI Hin. apply in_map_iff in Hin as [[[a0 b0] c0] [E Hin]].
  unfold knn_to_caller in E. inversion E; subst; clear E.
  unfold knn_class in Hin. apply comb_rows_In in Hin as [r [H1 [H2 [H3 [H4 [H5 H6]]]]]].
  destruct (HG r H1 b0 H5) as [B1 [B2 B3]]. destruct (HI r H1 c0 H6) as [C1 C2].
  rewrite H4 in *. assert (A1: a0 < length kidx) by (apply Hg; rewrite <- H4; apply nth_In; auto).
  assert (Ia: In (nth a0 kidx 0) kidx) by (apply nth_In; auto).
  assert (Ib: In (nth b0 kidx 0) kidx) by (apply nth_In; auto).
  assert (Ic: In (nth c0 kidx 0) kidx) by (apply nth_In; auto).
  apply known_idx_spec in Ia as [Xa Ya]. apply known_idx_spec in Ib as [Xb Yb]. apply known_idx_spec in Ic as [Xc Yc].
  unfold kl in *. rewrite !known_labels_nth in B3, C2 by auto. fold kidx in B3, C2.
  repeat split; auto.
  intro Heq. apply B2. symmetry. apply (proj1 (NoDup_nth kidx 0) (known_idx_nodup labels)); auto.
Qed.
