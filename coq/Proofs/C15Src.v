(* C15, source level: one iteration of scml.py's dual-averaging loop and the checkpoint objective, as translated into
   gen/Src_scml.v on every run, are the model's (Model/SCML.v), on which the C15 theorems are proved.
   Hand-written here (the documented meaning of the loop, part of the trusted translator): `for iter in range(max_iter)`
   runs the translated step on idx = rand_int[iter], and at the iterations where the translated checkpoint test holds
   evaluates the translated objective and keeps (obj, w) when obj < best_obj. *)
From Coq Require Import String.
From Coq Require Import List Arith Bool Reals Lra Lia ZArith.
From ML Require Import Ops Vec NP VecR MatR LinAlg NPNum SCML C15Proof.
From MLgen Require Import Src_scml.
Import ListNotations.
Open Scope R_scope.

Section SrcLoop.
  Context {O : Ops}.
  Notation t := (T O).
  Notation vec := (list t).
  Notation mat := (list (list t)).
  (* the loop of the source over the recorded mini-batches, on the model's state record *)
  Definition src_step (p : @params O) (D : mat) (nb : nat) (iter : nat) (idx : list nat) (s : @state O) : @state O :=
    let '(w1, avg1, ada1) := scml_step (gamma p) (beta p) (delta p) (batch_size p) nb D iter idx (w s) (avg s) (ada s) in
    let best1 :=
      if scml_is_checkpoint (output_iter p) iter then
        let obj := scml_objective (beta p) (length D) D w1 in
        match best s with
        | None => Some (obj, w1)                       (* best_obj = inf *)
        | Some (bo, bw) => if oltb O obj bo then Some (obj, w1) else Some (bo, bw)
        end
      else best s in
    {| w := w1; avg := avg1; ada := ada1; best := best1 |}.
  Fixpoint src_run (p : @params O) (D : mat) (nb : nat) (iter : nat) (batches : list (list nat)) (s : @state O) : @state O :=
    match batches with
    | [] => s
    | idx :: more => src_run p D nb (S iter) more (src_step p D nb iter idx s)
    end.
End SrcLoop.

(* ---- list lemmas ---- *)
Lemma mask_map_filter {A} (q : A -> bool) : forall l : list A, nn_mask (map q l) l = filter q l.
Proof. induction l as [|x l IH]; cbn; auto. destruct (q x); cbn; rewrite IH; reflexivity. Qed.

Lemma take_mask_filter {A B} (g : A -> B) (q : B -> bool) : forall idx : list A,
  map g (nn_mask (map (fun i => q (g i)) idx) idx) = filter q (map g idx).
Proof. induction idx as [|i idx IH]; cbn; auto. destruct (q (g i)); cbn; rewrite IH; reflexivity. Qed.

Lemma avg_form (c e : R) : forall a g : Rv,
  @nn_div_vs ROps (@nn_add_vv ROps (@nn_mul_sv ROps c a) g) e =
  map2 (fun x y => odiv ROps (oadd ROps (omul ROps c x) y) e) a g.
Proof. unfold nn_div_vs, nn_add_vv, nn_mul_sv. induction a as [|x a IH]; intros [|y g]; cbn; auto. f_equal. apply IH. Qed.

Lemma ada_form : forall a g : Rv,
  @nn_sqrt_v ROps (@nn_add_vv ROps (@nn_square_v ROps a) (@nn_square_v ROps g)) =
  map2 (fun x y => osqrt ROps (oadd ROps (omul ROps x x) (omul ROps y y))) a g.
Proof. unfold nn_sqrt_v, nn_add_vv, nn_square_v. induction a as [|x a IH]; intros [|y g]; cbn; auto. f_equal. apply IH. Qed.

Lemma w_form (e gm dl b : R) : forall av ad : Rv,
  @nn_mul_vv ROps (@nn_div_sv ROps (oopp ROps e) (@nn_mul_sv ROps gm (@nn_add_sv ROps dl ad)))
                  (@nn_minimum_vs ROps (@nn_add_vs ROps av b) (@oint ROps 0)) =
  map2 (fun a d => omul ROps (oopp ROps (odiv ROps e (omul ROps gm (oadd ROps dl d)))) (omin ROps (oadd ROps a b) (o0 ROps))) av ad.
Proof.
  unfold nn_mul_vv, nn_div_sv, nn_mul_sv, nn_add_sv, nn_minimum_vs, nn_add_vs.
  induction av as [|x av IH]; intros [|y ad]; try reflexivity.
  cbn [map map2 vscale]. f_equal; [|apply IH]. cbn. unfold Rdiv. ring.
Qed.

(* ---- one iteration ---- *)
Theorem scml_step_eq (p : paramsR) (D : Rm) nb iter idx (s : stateR) :
  let s' := @step ROps p D nb iter idx s in
  @scml_step ROps (gamma p) (beta p) (delta p) (batch_size p) nb D iter idx (w s) (avg s) (ada s) = (w s', avg s', ada s').
Proof.
  cbn zeta. unfold scml_step, step. cbn [w avg ada].
  set (g := fun i : nat => nth i D []).
  set (q := fun r : Rv => oltb ROps (o0 ROps) (oadd ROps (o1 ROps) (vdotR r (w s)))).
  assert (Erows: @nn_take_rows ROps
            (nn_mask (@nn_gt_vs ROps (@nn_add_sv ROps (@oint ROps 1) (@nn_dot_mv ROps (@nn_take_rows ROps idx D) (w s))) (@oint ROps 0)) idx) D
          = filter q (map g idx)).
  { unfold nn_take_rows at 1. fold g.
    replace (@nn_gt_vs ROps (@nn_add_sv ROps (@oint ROps 1) (@nn_dot_mv ROps (@nn_take_rows ROps idx D) (w s))) (@oint ROps 0))
      with (map (fun i => q (g i)) idx).
    - apply take_mask_filter.
    - unfold nn_gt_vs, nn_add_sv, nn_dot_mv, nn_take_rows, mvmul. rewrite !map_map. reflexivity. }
  rewrite Erows. clear Erows.
  replace (iter + 1)%nat with (S iter) by lia.
  change (@ofnat ROps) with (@ofn ROps).
  set (grad := @nn_div_vs ROps (@nn_sum_cols ROps nb (filter q (map g idx))) (ofn (batch_size p))).
  rewrite avg_form, ada_form, w_form.
  unfold grad, q, g. reflexivity.
Qed.

(* ---- the objective evaluated at a checkpoint ---- *)
Theorem scml_objective_eq (p : paramsR) (D : Rm) (wv : Rv) :
  @scml_objective ROps (beta p) (length D) D wv = @objective ROps p D wv.
Proof.
  unfold scml_objective, objective.
  set (slack := map (fun r => oadd ROps (o1 ROps) (vdotR r wv)) D).
  replace (@nn_add_sv ROps (@oint ROps 1) (@nn_dot_mv ROps D wv)) with slack
    by (unfold slack, nn_add_sv, nn_dot_mv, mvmul; rewrite map_map; reflexivity).
  unfold nn_gt_vs. change (@oint ROps 0) with (o0 ROps).
  rewrite (mask_map_filter (fun x => oltb ROps (o0 ROps) x) slack). reflexivity.
Qed.

Lemma scml_is_checkpoint_eq out iter : scml_is_checkpoint out iter = Nat.eqb (Nat.modulo (S iter) out) 0.
Proof. unfold scml_is_checkpoint. replace (iter + 1)%nat with (S iter) by lia. reflexivity. Qed.

Theorem src_step_eq (p : paramsR) (D : Rm) nb iter idx (s : stateR) : @src_step ROps p D nb iter idx s = @step ROps p D nb iter idx s.
Proof.
  unfold src_step. rewrite (scml_step_eq p D nb iter idx s). cbn zeta.
  rewrite scml_is_checkpoint_eq, scml_objective_eq. unfold step. cbn [w avg ada best]. reflexivity.
Qed.

Theorem src_run_eq (p : paramsR) (D : Rm) nb : forall batches iter (s : stateR),
  @src_run ROps p D nb iter batches s = @run ROps p D nb iter batches s.
Proof.
  induction batches as [|idx more IH]; intros iter s; [reflexivity|].
  cbn [src_run run]. rewrite src_step_eq. apply IH.
Qed.

Lemma scml_skeleton_ok : scml_skeleton =
  [ "dist_diff = self._compute_dist_diff(triplets, X, basis)"
  ; "n_triplets = triplets.shape[0]"
  ; "w = np.zeros((1, n_basis))"
  ; "avg_grad_w = np.zeros((1, n_basis))"
  ; "ada_grad_w = np.zeros((1, n_basis))"
  ; "delta = 0.001"
  ; "best_obj = np.inf"
  ; "rng = check_random_state(self.random_state)"
  ; "rand_int = rng.randint(low=0, high=n_triplets, size=(self.max_iter, self.batch_size))"
  ; "self.n_iter_ = iter"
  ; "self.components_ = self._components_from_basis_weights(basis, best_w)"
  ; "if obj < best_obj: best_obj = obj; best_w = w" ]%string.
Proof. reflexivity. Qed.

(* ---- _components_from_basis_weights as translated: the low-rank factor is the model's, and the matrix handed to
   components_from_metric in the full-rank case is sum_i w_i b_i b_i^T ---- *)
From ML Require Import CovProof MatAction.

Lemma src_lowrank_eq : forall (w : Rv) (B : Rm), length w = length B ->
  @scml_lowrank_components ROps B w = @lowrank_components ROps w B.
Proof.
  unfold scml_lowrank_components, scml_active, lowrank_components, active_pairs, nn_scale_rows, nn_sqrt_v, nn_gt_vs.
  induction w as [|a w IH]; intros [|b B] H; try discriminate; [reflexivity|].
  cbn [map nn_mask combine filter fst snd]. change (oltb ROps (oint 0) a) with (oltb ROps (o0 ROps) a).
  destruct (oltb ROps (o0 ROps) a); cbn [map map2 fst snd]; [f_equal|]; apply IH; cbn in H; lia.
Qed.

Lemma mvmul_scale_rows_R (x : Rv) : forall (s : Rv) (X : Rm), mvmulR (@nn_scale_rows ROps s X) x = map2 Rmult s (mvmulR X x).
Proof. unfold nn_scale_rows. induction s as [|a s IH]; intros [|r X]; cbn; try reflexivity. f_equal; [apply vdot_vscale_l | apply IH]. Qed.

Lemma active_wsq (x : Rv) : forall (w : Rv) (B : Rm), length w = length B -> Forall (fun a => 0 <= a) w ->
  let a := @scml_active ROps w in
  vdotR (map2 Rmult (nn_mask a w) (mvmulR (nn_mask a B) x)) (mvmulR (nn_mask a B) x) = wsq w B x.
Proof.
  unfold scml_active, nn_gt_vs. induction w as [|a w IH]; intros [|b B] H Hw; try discriminate; [reflexivity|].
  inversion Hw as [|? ? Ha Hw']; subst.
  assert (IHB := IH B ltac:(cbn in H; lia) Hw'). clear IH. cbv zeta in *.
  cbn [map nn_mask wsq]. change (oltb ROps (oint 0) a) with (Rltb 0 a).
  remember (map (fun x0 : T ROps => oltb ROps (oint 0) x0) w) as m eqn:Em.
  destruct (Rltb 0 a) eqn:E.
  - change (mvmulR (b :: nn_mask m B) x) with (vdotR b x :: mvmulR (nn_mask m B) x).
    cbn [map2 vdot]. rewrite IHB. cbn [oadd omul ROps]. rsimp.
    generalize (wsq w B x). generalize (vdotR b x). intros v q. change (a * v * v + q = a * v ^ 2 + q). ring.
  - apply Rltb_false in E. assert (a = 0) by lra. subst a. rewrite IHB. lra.
Qed.

Lemma mask_wf_R {A} (P : A -> Prop) : forall (m : list bool) (l : list A), Forall P l -> Forall P (nn_mask m l).
Proof.
  induction m as [|b m IH]; intros [|r l] H; cbn; try constructor.
  inversion H; subst. destruct b; [constructor; auto|]; apply IH; auto.
Qed.

Theorem src_fullrank_form d (w : Rv) (B : Rm) (x : Rv) :
  Forall (wfvR d) B -> wfvR d x -> length w = length B -> Forall (fun a => 0 <= a) w ->
  quadformR (@scml_fullrank_metric ROps B w) x = wsq w B x.
Proof.
  intros HB Hx HL Hw. unfold scml_fullrank_metric, nn_dot_tm.
  rewrite <- (active_wsq x w B HL Hw). cbv zeta. rsimp.
  remember (@scml_active ROps w) as a eqn:Ea.
  assert (LA: length (nn_mask a w) = length (nn_mask a B)).
  { clear - HL. revert B HL a. induction w as [|c w IH]; intros [|b B] H [|m0 m]; cbn in *; try discriminate; try reflexivity.
    destruct m0; cbn; [f_equal|]; apply IH; lia. }
  assert (HBa: Forall (wfvR d) (nn_mask a B)) by (apply mask_wf_R; exact HB).
  remember (nn_mask a B) as Ba eqn:EB. remember (nn_mask a w) as wa eqn:EW. clear EB EW Ea HL Hw HB.
  destruct Ba as [|r Br].
  - destruct wa; [|discriminate]. unfold quadform. cbn. destruct x; reflexivity.
  - assert (Hne: r :: Br <> []) by discriminate.
    set (S := @nn_scale_rows ROps wa (r :: Br)).
    assert (LS: length S = length (r :: Br)).
    { unfold S, nn_scale_rows. clear - LA. revert LA. generalize (r :: Br). induction wa as [|c wa IH]; intros [|b l] H; cbn in *; try discriminate; auto. }
    assert (HS: Forall (wfvR d) S).
    { unfold S, nn_scale_rows. clear - HBa. revert HBa. generalize (r :: Br). induction wa as [|c wa IH]; intros [|b l] H; cbn; try constructor.
      - inversion H; subst. unfold wfv in *. rewrite vscale_length. assumption.
      - inversion H; subst. apply IH. assumption. }
    assert (SN: S <> []) by (intro E; rewrite E in LS; discriminate).
    destruct (transp_rows_wf d (r :: Br) Hne HBa) as [HT HTL].
    unfold quadform.
    assert (HT': Forall (wfvR (length S)) (transpR (r :: Br))).
    { eapply Forall_impl; [|exact HT]. intros v Hv. unfold wfv in *. etransitivity; [exact Hv | symmetry; exact LS]. }
    rewrite (mmulg_action d (transpR (r :: Br)) S x SN HS HT' Hx).
    rewrite vdot_comm. rewrite (transp_is_fuel d (r :: Br) Hne HBa).
    rewrite (transp_fuel_adjoint d (r :: Br) (mvmulR S x) x Hne HBa Hx) by (rewrite mvmul_length; exact LS).
    unfold S. rewrite mvmul_scale_rows_R. reflexivity.
Qed.
