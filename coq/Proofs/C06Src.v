(* C06, source level: _check_n_components as translated into gen/Src_psd.v on every run (over the rationals: the option value may
   be any real number, e.g. 0.5).  It accepts exactly the values in [1, n_features]; on naturals it is the model of Model/Validate.v. *)
From Coq Require Import List Arith Bool ZArith QArith Lia.
From ML Require Import Validate.
From MLgen Require Import Src_psd.
Import ListNotations.
Open Scope Q_scope.

Theorem src_check_n_components_spec (n : Q) (nc : option Q) (k : Q) :
  src_check_n_components n nc = Some k <-> (nc = None /\ k = n) \/ (nc = Some k /\ inject_Z 1 <= k /\ k <= n).
Proof.
  unfold src_check_n_components. destruct nc as [q|].
  - destruct (Qle_bool (inject_Z 1) q) eqn:E1; destruct (Qle_bool q n) eqn:E2; cbn [andb]; split; intro H.
    + injection H as <-. right. split; [reflexivity|]. split; apply Qle_bool_iff; assumption.
    + destruct H as [[H _]|[H _]]; [discriminate | injection H as <-; reflexivity].
    + discriminate.
    + destruct H as [[H _]|[H [_ H2]]]; [discriminate|]. injection H as <-. apply Qle_bool_iff in H2. congruence.
    + discriminate.
    + destruct H as [[H _]|[H [H1 _]]]; [discriminate|]. injection H as <-. apply Qle_bool_iff in H1. congruence.
    + discriminate.
    + destruct H as [[H _]|[H [H1 _]]]; [discriminate|]. injection H as <-. apply Qle_bool_iff in H1. congruence.
  - split; intro H.
    + injection H as <-. left. split; reflexivity.
    + destruct H as [[_ ->]|[H _]]; [reflexivity | discriminate].
Qed.

Definition qnat (k : nat) : Q := inject_Z (Z.of_nat k).

Theorem src_check_n_components_model (n : nat) (nc : option nat) :
  src_check_n_components (qnat n) (option_map qnat nc) =
  match check_n_components n nc with Ok k => Some (qnat k) | Raise _ => None end.
Proof.
  unfold src_check_n_components, check_n_components, qnat. destruct nc as [k|]; cbn [option_map]; [|reflexivity].
  assert (E1: Qle_bool (inject_Z 1) (inject_Z (Z.of_nat k)) = (0 <? k)%nat).
  { destruct (Nat.ltb_spec 0 k).
    - apply Qle_bool_iff. rewrite <- Zle_Qle. lia.
    - destruct (Qle_bool (inject_Z 1) (inject_Z (Z.of_nat k))) eqn:E; [|reflexivity]. apply Qle_bool_iff in E. rewrite <- Zle_Qle in E. lia. }
  assert (E2: Qle_bool (inject_Z (Z.of_nat k)) (inject_Z (Z.of_nat n)) = (k <=? n)%nat).
  { destruct (Nat.leb_spec k n).
    - apply Qle_bool_iff. rewrite <- Zle_Qle. lia.
    - destruct (Qle_bool (inject_Z (Z.of_nat k)) (inject_Z (Z.of_nat n))) eqn:E; [|reflexivity]. apply Qle_bool_iff in E. rewrite <- Zle_Qle in E. lia. }
  rewrite E1, E2. destruct ((0 <? k)%nat && (k <=? n)%nat); reflexivity.
Qed.
