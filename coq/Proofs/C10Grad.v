(* C10: the gradient NCA hands to the optimiser is the derivative of the documented objective, for every number of
   points, every dimension, every k x d transformation (low rank included) and every direction.
   Model/NCAGrad.v holds the index-by-index model of the code's value and gradient; this file proves
     (a) nca_obj (the documented objective of Model/Objectives.v) = nca_loss (index form);
     (b) t |-> nca_loss (L + t E) is derivable at 0 with derivative <nca_grad L, E>_F  (Coquelicot's is_derive).  *)
From Coq Require Import List Arith Bool ZArith Reals Lra Lia.
From Coquelicot Require Import Coquelicot.
From ML Require Import Ops Vec NP VecR MatR LinAlg Objectives NCAGrad.
Import ListNotations.
Open Scope R_scope.

(* ------------------------------------------------------------------ finite sums over lists *)
Fixpoint rsumf {A} (f : A -> R) (l : list A) : R := match l with [] => 0 | a :: l' => f a + rsumf f l' end.

Lemma vsum_map_rsumf {A} (f : A -> R) (l : list A) : @vsum ROps (map f l) = rsumf f l.
Proof. induction l as [|a l IH]; cbn; [reflexivity | rewrite IH; reflexivity]. Qed.

Lemma rsumf_ext {A} (f g : A -> R) (l : list A) : (forall a, In a l -> f a = g a) -> rsumf f l = rsumf g l.
Proof.
  induction l as [|a l IH]; cbn; intro H; [reflexivity|].
  rewrite (H a (or_introl eq_refl)), IH; [reflexivity|]. intros b Hb. apply H. right; exact Hb.
Qed.

Lemma rsumf_plus {A} (f g : A -> R) (l : list A) : rsumf (fun a => f a + g a) l = rsumf f l + rsumf g l.
Proof. induction l as [|a l IH]; cbn; [lra | rewrite IH; lra]. Qed.

Lemma rsumf_minus {A} (f g : A -> R) (l : list A) : rsumf (fun a => f a - g a) l = rsumf f l - rsumf g l.
Proof. induction l as [|a l IH]; cbn; [lra | rewrite IH; lra]. Qed.

Lemma rsumf_scal {A} (c : R) (f : A -> R) (l : list A) : rsumf (fun a => c * f a) l = c * rsumf f l.
Proof. induction l as [|a l IH]; cbn; [lra | rewrite IH; lra]. Qed.

Lemma rsumf_scal_r {A} (c : R) (f : A -> R) (l : list A) : rsumf (fun a => f a * c) l = rsumf f l * c.
Proof. induction l as [|a l IH]; cbn; [lra | rewrite IH; lra]. Qed.

Lemma rsumf_opp {A} (f : A -> R) (l : list A) : rsumf (fun a => - f a) l = - rsumf f l.
Proof. induction l as [|a l IH]; cbn; [lra | rewrite IH; lra]. Qed.

Lemma rsumf_zero {A} (l : list A) : rsumf (fun _ => 0) l = 0.
Proof. induction l as [|a l IH]; cbn; [reflexivity | rewrite IH; lra]. Qed.

Lemma rsumf_div {A} (z : R) (f : A -> R) (l : list A) : rsumf (fun a => f a / z) l = rsumf f l / z.
Proof. unfold Rdiv. apply rsumf_scal_r. Qed.

Lemma rsumf_swap {A B} (f : A -> B -> R) (l : list A) (m : list B) :
  rsumf (fun a => rsumf (fun b => f a b) m) l = rsumf (fun b => rsumf (fun a => f a b) l) m.
Proof.
  induction l as [|a l IH]; cbn.
  - rewrite rsumf_zero. reflexivity.
  - rewrite IH, <- rsumf_plus. reflexivity.
Qed.

(* Kronecker delta over seq *)
Lemma rsumf_delta (g : nat -> R) (j : nat) : forall s n, (s <= j < s + n)%nat ->
  rsumf (fun i => if Nat.eqb i j then g i else 0) (seq s n) = g j.
Proof.
  intros s n. revert s. induction n as [|n IH]; intros s H; [lia|]. cbn [seq rsumf].
  destruct (Nat.eqb s j) eqn:E.
  - apply Nat.eqb_eq in E. subst s.
    rewrite (rsumf_ext _ (fun _ => 0)); [rewrite rsumf_zero; lra|].
    intros i Hi. apply in_seq in Hi. destruct (Nat.eqb i j) eqn:E2; [apply Nat.eqb_eq in E2; lia | reflexivity].
  - apply Nat.eqb_neq in E. rewrite IH by lia. lra.
Qed.

Lemma rsumf_pos {A} (f : A -> R) (l : list A) : (forall a, In a l -> 0 <= f a) -> forall b, In b l -> 0 < f b -> 0 < rsumf f l.
Proof.
  induction l as [|a l IH]; cbn; intros H b Hb Hpos; [contradiction|].
  assert (Hl: 0 <= rsumf f l).
  { clear -H. induction l as [|c l IHl]; cbn; [lra|].
    assert (0 <= f c) by (apply H; right; left; reflexivity).
    assert (0 <= rsumf f l); [apply IHl; intros x [Hx|Hx]; apply H; [left; exact Hx | right; right; exact Hx] | lra]. }
  destruct Hb as [->|Hb].
  - lra.
  - assert (0 <= f a) by (apply H; left; reflexivity).
    assert (0 < rsumf f l); [apply (IH (fun x Hx => H x (or_intror Hx)) b Hb Hpos) | lra].
Qed.

(* ------------------------------------------------------------------ calculus *)
Lemma is_derive_rsumf {A} (l : list A) (f : A -> R -> R) (df : A -> R) x :
  (forall a, In a l -> is_derive (f a) x (df a)) ->
  is_derive (fun t => rsumf (fun a => f a t) l) x (rsumf df l).
Proof.
  induction l as [|a l IH]; cbn; intros H.
  - apply (is_derive_const (V:=R_NormedModule) 0 x).
  - apply (is_derive_plus (V:=R_NormedModule) (f a) (fun t => rsumf (fun a0 => f a0 t) l) x (df a) (rsumf df l)).
    + apply H. left; reflexivity.
    + apply IH. intros b Hb. apply H. right; exact Hb.
Qed.

Lemma is_derive_expneg (q : R -> R) (dq : R) x : is_derive q x dq ->
  is_derive (fun t => exp (- q t)) x (- dq * exp (- q x)).
Proof.
  intro H. evar_last.
  apply (is_derive_comp (V:=R_NormedModule) exp (fun t => - q t) x (exp (- q x)) (- dq)).
  - apply is_derive_exp.
  - apply (is_derive_opp (V:=R_NormedModule) q x dq H).
  - cbn. unfold scal; cbn. unfold mult; cbn. ring.
Qed.

(* ------------------------------------------------------------------ the softmax objective along any family q_ij(t) *)
Section Softmax.
  Variable n : nat.
  Variable qf : nat -> nat -> R -> R.
  Variable dq : nat -> nat -> R.
  Variable m : nat -> nat -> bool.
  Notation idx := (seq 0 n).
  Hypothesis Hq : forall i j, In i idx -> In j idx -> is_derive (qf i j) 0 (dq i j).

  Definition ef (i j : nat) (t : R) : R := if Nat.eqb j i then 0 else exp (- qf i j t).
  Definition Zf (i : nat) (t : R) : R := rsumf (fun j => ef i j t) idx.
  Definition Nf (i : nat) (t : R) : R := rsumf (fun j => if m i j then ef i j t else 0) idx.
  Definition Ff (t : R) : R := rsumf (fun i => Nf i t / Zf i t) idx.
  Definition de (i j : nat) : R := if Nat.eqb j i then 0 else - dq i j * exp (- qf i j 0).
  Definition dZ (i : nat) : R := rsumf (de i) idx.
  Definition dN (i : nat) : R := rsumf (fun j => if m i j then de i j else 0) idx.

  Lemma ef_derive i j : In i idx -> In j idx -> is_derive (ef i j) 0 (de i j).
  Proof.
    intros Hi Hj. unfold ef, de. destruct (Nat.eqb j i).
    - apply (is_derive_const (V:=R_NormedModule) 0 0).
    - apply is_derive_expneg, Hq; auto.
  Qed.

  Lemma Zf_derive i : In i idx -> is_derive (Zf i) 0 (dZ i).
  Proof. intro Hi. unfold Zf, dZ. apply (is_derive_rsumf idx (fun j t => ef i j t) (de i)). intros j Hj. apply ef_derive; auto. Qed.

  Lemma Nf_derive i : In i idx -> is_derive (Nf i) 0 (dN i).
  Proof.
    intro Hi. unfold Nf, dN. apply (is_derive_rsumf idx (fun j t => if m i j then ef i j t else 0) (fun j => if m i j then de i j else 0)).
    intros j Hj. destruct (m i j); [apply ef_derive; auto | apply (is_derive_const (V:=R_NormedModule) 0 0)].
  Qed.

  Hypothesis HZ : forall i, In i idx -> Zf i 0 <> 0.

  Definition dFf : R := rsumf (fun i => (dN i * Zf i 0 - Nf i 0 * dZ i) / (Zf i 0) ^ 2) idx.

  Lemma Ff_derive : is_derive Ff 0 dFf.
  Proof.
    unfold Ff, dFf.
    apply (is_derive_rsumf idx (fun i t => Nf i t / Zf i t) (fun i => (dN i * Zf i 0 - Nf i 0 * dZ i) / (Zf i 0) ^ 2)).
    intros i Hi. apply is_derive_div; [apply Nf_derive, Hi | apply Zf_derive, Hi | apply HZ, Hi].
  Qed.

  (* the softmax probabilities and the weights of the code *)
  Definition Pv (i j : nat) : R := ef i j 0 / Zf i 0.
  Definition Piv (i : nat) : R := Nf i 0 / Zf i 0.
  Definition Wv (i j : nat) : R := (if m i j then Pv i j else 0) - Pv i j * Piv i.

  Lemma de_over_Z i j : de i j / Zf i 0 = - dq i j * Pv i j.
  Proof.
    unfold de, Pv, ef. destruct (Nat.eqb j i); unfold Rdiv; ring.
  Qed.

  Lemma dFf_form : dFf = - rsumf (fun i => rsumf (fun j => Wv i j * dq i j) idx) idx.
  Proof.
    unfold dFf. rewrite <- rsumf_opp. apply rsumf_ext. intros i Hi.
    pose proof (HZ i Hi) as Hz.
    replace ((dN i * Zf i 0 - Nf i 0 * dZ i) / Zf i 0 ^ 2) with (dN i / Zf i 0 - Piv i * (dZ i / Zf i 0))
      by (unfold Piv; field; exact Hz).
    unfold dN, dZ. rewrite <- !rsumf_div, <- rsumf_scal, <- rsumf_minus, <- rsumf_opp.
    apply rsumf_ext. intros j _. unfold Wv.
    destruct (m i j).
    - rewrite de_over_Z. ring.
    - unfold Rdiv at 1. rewrite Rmult_0_l, de_over_Z. ring.
  Qed.

  (* every row of the softmax sums to one, hence every row of W sums to zero *)
  Lemma Pv_row_sum i : In i idx -> rsumf (Pv i) idx = 1.
  Proof.
    intro Hi. unfold Pv. rewrite rsumf_div. fold (Zf i 0). field. apply HZ, Hi.
  Qed.

  Lemma Wv_row_sum i : In i idx -> rsumf (Wv i) idx = 0.
  Proof.
    intro Hi. unfold Wv. rewrite rsumf_minus, rsumf_scal_r, (Pv_row_sum i Hi).
    unfold Piv, Nf, Pv.
    rewrite <- rsumf_div. rewrite Rmult_1_l.
    rewrite (rsumf_ext (fun j => if m i j then ef i j 0 / Zf i 0 else 0) (fun j => (if m i j then ef i j 0 else 0) / Zf i 0)); [lra|].
    intros j _. destruct (m i j); [reflexivity | unfold Rdiv; ring].
  Qed.

  Lemma Wv_diag i : Wv i i = 0.
  Proof. unfold Wv, Pv, ef. rewrite Nat.eqb_refl. destruct (m i i); unfold Rdiv; ring. Qed.
End Softmax.

(* ------------------------------------------------------------------ the graph-Laplacian identity behind 2 (X L^T)^T S X *)
Section Laplacian.
  Variable n : nat.
  Variable W : nat -> nat -> R.
  Variable c : nat -> nat -> R.       (* c i j = (L x_i) . (E x_j) *)
  Notation idx := (seq 0 n).
  Hypothesis Hrow : forall i, In i idx -> rsumf (W i) idx = 0.

  Definition colsum (j : nat) : R := rsumf (fun k => W k j) idx.
  Definition Sv (i j : nat) : R := W i j + W j i - (if Nat.eqb i j then colsum j else 0).

  Lemma dsum_ext (f g : nat -> nat -> R) : (forall i j, In i idx -> In j idx -> f i j = g i j) ->
    rsumf (fun i => rsumf (fun j => f i j) idx) idx = rsumf (fun i => rsumf (fun j => g i j) idx) idx.
  Proof. intro H. apply rsumf_ext. intros i Hi. apply rsumf_ext. intros j Hj. apply H; auto. Qed.

  Lemma laplacian_identity :
    - rsumf (fun i => rsumf (fun j => W i j * (c i i - c i j - c j i + c j j)) idx) idx =
    rsumf (fun i => rsumf (fun j => Sv i j * c i j) idx) idx.
  Proof.
    (* left-hand side, split into four double sums *)
    assert (EL: rsumf (fun i => rsumf (fun j => W i j * (c i i - c i j - c j i + c j j)) idx) idx =
                rsumf (fun i => rsumf (W i) idx * c i i) idx
                - rsumf (fun i => rsumf (fun j => W i j * c i j) idx) idx
                - rsumf (fun i => rsumf (fun j => W i j * c j i) idx) idx
                + rsumf (fun i => rsumf (fun j => W i j * c j j) idx) idx).
    { rewrite <- !rsumf_minus, <- rsumf_plus. apply rsumf_ext. intros i _.
      rewrite <- rsumf_scal_r, <- !rsumf_minus, <- rsumf_plus. apply rsumf_ext. intros j _. ring. }
    rewrite EL.
    (* T1 = 0 *)
    rewrite (rsumf_ext (fun i => rsumf (W i) idx * c i i) (fun _ => 0)) by (intros i Hi; rewrite (Hrow i Hi); ring).
    rewrite rsumf_zero.
    (* T3: exchange the order and the names *)
    rewrite (rsumf_swap (fun i j => W i j * c j i) idx idx).
    (* T4 *)
    rewrite (rsumf_swap (fun i j => W i j * c j j) idx idx).
    rewrite (rsumf_ext (fun b => rsumf (fun a => W a b * c b b) idx) (fun b => colsum b * c b b))
      by (intros b _; unfold colsum; rewrite <- rsumf_scal_r; reflexivity).
    (* right-hand side *)
    assert (ER: rsumf (fun i => rsumf (fun j => Sv i j * c i j) idx) idx =
                rsumf (fun i => rsumf (fun j => W i j * c i j) idx) idx
                + rsumf (fun i => rsumf (fun j => W j i * c i j) idx) idx
                - rsumf (fun i => rsumf (fun j => if Nat.eqb i j then colsum j * c i j else 0) idx) idx).
    { rewrite <- rsumf_plus, <- rsumf_minus. apply rsumf_ext. intros i _.
      rewrite <- rsumf_plus, <- rsumf_minus. apply rsumf_ext. intros j _. unfold Sv.
      destruct (Nat.eqb i j); ring. }
    rewrite ER.
    rewrite (rsumf_swap (fun i j => if Nat.eqb i j then colsum j * c i j else 0) idx idx).
    rewrite (rsumf_ext (fun b => rsumf (fun a => if Nat.eqb a b then colsum b * c a b else 0) idx) (fun b => colsum b * c b b)).
    - lra.
    - intros b Hb. apply in_seq in Hb.
      rewrite (rsumf_delta (fun a => colsum b * c a b) b 0 n) by lia. reflexivity.
  Qed.
End Laplacian.

(* ------------------------------------------------------------------ the line L + t E *)
Definition line (L E : Rm) (t : R) : Rm := maddR L (mscaleR t E).

Lemma vsumsq_line : forall (a b : Rv) (t : R), length a = length b ->
  vsumsqR (vaddR a (vscaleR t b)) = vsumsqR a + 2 * t * vdotR a b + t * t * vsumsqR b.
Proof.
  unfold vsumsq. induction a as [|x a IH]; intros [|y b] t H; cbn in *; try discriminate; [ring|].
  rewrite (IH b t) by lia. rsimp. ring.
Qed.

Lemma sqd_line k d (L E : Rm) (x x' : Rv) (t : R) : wfmR k d L -> wfmR k d E ->
  @sqd ROps (line L E t) x x' =
  @sqd ROps L x x' + 2 * t * vdotR (mvmulR L (vsubR x x')) (mvmulR E (vsubR x x')) + t * t * @sqd ROps E x x'.
Proof.
  intros HL HE. unfold sqd, line.
  assert (HL': wfmR (length L) d L) by (destruct HL as [H1 H2]; split; auto).
  assert (HE': wfmR (length L) d (mscaleR t E)).
  { destruct HL as [H1 _]. replace (length L) with k. apply mscale_wfm. exact HE. }
  rewrite (mvmul_madd L (mscaleR t E) (vsubR x x') d HL' HE'), mvmul_mscale.
  apply vsumsq_line. rewrite !mvmul_length. transitivity k; [apply HL | symmetry; apply HE].
Qed.

Lemma sqd_line_derive k d (L E : Rm) (x x' : Rv) : wfmR k d L -> wfmR k d E ->
  is_derive (fun t => @sqd ROps (line L E t) x x') 0
            (2 * vdotR (mvmulR L (vsubR x x')) (mvmulR E (vsubR x x'))).
Proof.
  intros HL HE.
  apply (is_derive_ext (fun t => @sqd ROps L x x' + 2 * t * vdotR (mvmulR L (vsubR x x')) (mvmulR E (vsubR x x'))
                                 + t * t * @sqd ROps E x x')).
  - intro t. symmetry. apply (sqd_line k d); auto.
  - auto_derive; [trivial | ring].
Qed.

(* ------------------------------------------------------------------ Frobenius inner product *)
Notation frobR := (@frob ROps).

Lemma frob_mzero k d (E : Rm) : frobR (@mzero ROps k d) E = 0.
Proof.
  revert E. induction k as [|k IH]; intros [|e E]; cbn; try reflexivity.
  change (repeat (@vzero ROps d) k) with (@mzero ROps k d). rewrite IH, vdot_vzero_l. rsimp. ring.
Qed.

Lemma frob_mscale (s : R) (A : Rm) : forall E, frobR (mscaleR s A) E = s * frobR A E.
Proof.
  induction A as [|r A IH]; intros [|e E]; cbn; try (rsimp; ring).
  rewrite IH, vdot_vscale_l. rsimp. ring.
Qed.

Lemma frob_madd k d (A : Rm) : forall B E, wfmR k d A -> wfmR k d B ->
  frobR (maddR A B) E = frobR A E + frobR B E.
Proof.
  revert k. induction A as [|r A IH]; intros k [|s B] [|e E] [HA1 HA2] [HB1 HB2]; cbn in *; try (rsimp; ring); try (subst; discriminate).
  inversion HA2 as [|? ? Hr HA']; inversion HB2 as [|? ? Hs HB']; subst.
  rewrite vdot_vadd_l by (unfold wfv in *; transitivity d; [exact Hr | symmetry; exact Hs]).
  rewrite (IH (length A) B E); [rsimp; ring | split; auto | split; auto; injection HB1; auto].
Qed.

Lemma frob_outer (a x : Rv) : forall E, frobR (outerR a x) E = vdotR a (mvmulR E x).
Proof.
  induction a as [|ai a IH]; intros [|e E]; cbn; try reflexivity.
  unfold outer in IH. rewrite IH, vdot_vscale_l, (vdot_comm x e). reflexivity.
Qed.

Lemma msum_list_wfm k d (l : list nat) (f : nat -> Rm) : (forall i, In i l -> wfmR k d (f i)) ->
  wfmR k d (fold_right (fun i acc => maddR (f i) acc) (@mzero ROps k d) l).
Proof.
  induction l as [|i l IH]; cbn; intro H; [apply mzero_wfm|].
  apply madd_wfm; [apply H; left; reflexivity | apply IH; intros j Hj; apply H; right; exact Hj].
Qed.

Lemma msum_wfm k d n (f : nat -> Rm) : (forall i, In i (seq 0 n) -> wfmR k d (f i)) -> wfmR k d (@msum ROps k d n f).
Proof. intro H. unfold msum. apply msum_list_wfm, H. Qed.

Lemma frob_msum k d n (f : nat -> Rm) (E : Rm) : (forall i, In i (seq 0 n) -> wfmR k d (f i)) ->
  frobR (@msum ROps k d n f) E = rsumf (fun i => frobR (f i) E) (seq 0 n).
Proof.
  unfold msum. induction (seq 0 n) as [|i l IH]; cbn [fold_right rsumf]; intro H; [apply frob_mzero|].
  rewrite (frob_madd k d).
  - rewrite IH; [reflexivity | intros j Hj; apply H; right; exact Hj].
  - apply H. left; reflexivity.
  - apply msum_list_wfm. intros j Hj. apply H. right; exact Hj.
Qed.

(* ------------------------------------------------------------------ NCA: value and gradient of the code *)
Notation ptR := (@pt ROps).
Lemma oopp_form (a : R) : oopp ROps a = 0 + 0 - a.
Proof. change (- a = 0 + 0 - a). ring. Qed.
Lemma oadd_form (a b : R) : oadd ROps a b = a + b - 0.
Proof. change (a + b = a + b - 0). ring. Qed.

Section Main.
  Variables (k d : nat) (L E X : Rm) (y : list Z).
  Hypothesis HL : wfmR k d L.
  Hypothesis HE : wfmR k d E.
  Hypothesis HX : List.Forall (wfvR d) X.
  Hypothesis Hn : (2 <= length X)%nat.
  Notation n := (length X).
  Notation idx := (seq 0 n).

  Definition qfn (i j : nat) (t : R) : R := @qd ROps (line L E t) X i j.
  Definition av (i : nat) : Rv := mvmulR L (ptR X i).
  Definition bv (i : nat) : Rv := mvmulR E (ptR X i).
  Definition cc (i j : nat) : R := vdotR (av i) (bv j).
  Definition dqn (i j : nat) : R := 2 * (cc i i - cc i j - cc j i + cc j j).
  Definition msame (i j : nat) : bool := same y i j.

  Lemma in_idx i : In i idx -> (i < n)%nat.
  Proof. intro H. apply in_seq in H. destruct H as [_ H]. exact H. Qed.

  Lemma pt_wf i : In i idx -> wfvR d (ptR X i).
  Proof. intro Hi. unfold pt. rewrite Forall_forall in HX. apply HX, nth_In, in_idx, Hi. Qed.

  Lemma av_len i : length (av i) = k.
  Proof. unfold av. rewrite mvmul_length. apply HL. Qed.
  Lemma bv_len i : length (bv i) = k.
  Proof. unfold bv. rewrite mvmul_length. apply HE. Qed.

  Lemma qfn_derive i j : In i idx -> In j idx -> is_derive (qfn i j) 0 (dqn i j).
  Proof.
    intros Hi Hj. unfold qfn, qd.
    pose proof (pt_wf i Hi) as Wi. pose proof (pt_wf j Hj) as Wj.
    assert (El: length (ptR X i) = length (ptR X j)) by (transitivity d; [exact Wi | symmetry; exact Wj]).
    evar_last. apply (sqd_line_derive k d L E (ptR X i) (ptR X j) HL HE).
    rewrite !(mvmul_vsub _ _ _ El). fold (av i) (av j) (bv i) (bv j). unfold dqn, cc.
    rewrite vdot_vsub_l by (rewrite !av_len; reflexivity).
    rewrite !vdot_vsub_r by (rewrite !bv_len; reflexivity).
    ring.
  Qed.

  Lemma qfn_0 i j : qfn i j 0 = @qd ROps L X i j.
  Proof. unfold qfn, qd. rewrite (sqd_line k d L E _ _ 0 HL HE). ring. Qed.

  (* sums of the model are sums over seq *)
  Lemma isum_rsumf (f : nat -> R) : @isum ROps n f = rsumf f idx.
  Proof. unfold isum. apply vsum_map_rsumf. Qed.

  Lemma ee_ef (M : Rm) i j : @ee ROps exp M X i j = (if Nat.eqb j i then 0 else exp (- @qd ROps M X i j)).
  Proof. reflexivity. Qed.

  Lemma rsumf_if_div (b : nat -> bool) (f : nat -> R) (z : R) (l : list nat) :
    rsumf (fun j => if b j then f j / z else 0) l = rsumf (fun j => if b j then f j else 0) l / z.
  Proof.
    rewrite <- rsumf_div. apply rsumf_ext. intros j _. destruct (b j); [reflexivity | unfold Rdiv; ring].
  Qed.

  (* (a) the loss of the code along the line is the abstract softmax objective *)
  Lemma loss_Ff t : @nca_loss ROps exp (line L E t) X y = Ff n qfn msame t.
  Proof.
    unfold nca_loss, Ff. rewrite isum_rsumf. apply rsumf_ext. intros i _.
    unfold pin. rewrite isum_rsumf. unfold mp, pp. rewrite (rsumf_if_div (same y i)).
    unfold Zs. rewrite isum_rsumf. reflexivity.
  Qed.

  Lemma Zf_pos i : In i idx -> 0 < Zf n qfn i 0.
  Proof.
    intro Hi. pose proof (in_idx i Hi) as Hlt. unfold Zf.
    set (j := if Nat.eqb i 0 then 1%nat else 0%nat).
    assert (Hj: In j idx) by (apply in_seq; unfold j; destruct (Nat.eqb i 0); lia).
    assert (Hne: Nat.eqb j i = false).
    { unfold j. destruct (Nat.eqb i 0) eqn:E0; apply Nat.eqb_neq; [apply Nat.eqb_eq in E0 | apply Nat.eqb_neq in E0]; lia. }
    apply (rsumf_pos _ idx) with (b := j); auto.
    - intros a _. unfold ef. destruct (Nat.eqb a i); [lra | left; apply exp_pos].
    - unfold ef. rewrite Hne. apply exp_pos.
  Qed.

  (* the weights of the code are those of the abstract computation at t = 0 *)
  Lemma ef0_ee i j : ef qfn i j 0 = @ee ROps exp L X i j.
  Proof. unfold ef. rewrite ee_ef, qfn_0. reflexivity. Qed.

  Lemma Zf0_Zs i : Zf n qfn i 0 = @Zs ROps exp L X i.
  Proof. unfold Zf, Zs. rewrite isum_rsumf. apply rsumf_ext. intros j _. apply ef0_ee. Qed.

  Lemma Pv_pp i j : Pv n qfn i j = @pp ROps exp L X i j.
  Proof. unfold Pv, pp. rewrite ef0_ee, Zf0_Zs. reflexivity. Qed.

  Lemma Piv_pin i : Piv n qfn msame i = @pin ROps exp L X y i.
  Proof.
    unfold Piv, pin, Nf. rewrite isum_rsumf. unfold mp, pp, msame. rewrite (rsumf_if_div (same y i)).
    rewrite Zf0_Zs. f_equal. apply rsumf_ext. intros j _. rewrite ef0_ee. reflexivity.
  Qed.

  Lemma Wv_Wt i j : Wv n qfn msame i j = @Wt ROps exp L X y i j.
  Proof. unfold Wv, Wt, mp. rewrite Pv_pp, Piv_pin. unfold msame. destruct (same y i j); reflexivity. Qed.

  Lemma St_Sv i j : @St ROps exp L X y i j = Sv n (Wv n qfn msame) i j.
  Proof.
    unfold St, Sv, colsum. rewrite isum_rsumf.
    destruct (Nat.eqb i j) eqn:Eij.
    - apply Nat.eqb_eq in Eij. subst j. rewrite !Wv_diag.
      rewrite (rsumf_ext (fun k0 => @Wt ROps exp L X y k0 i) (fun k0 => Wv n qfn msame k0 i)) by (intros; symmetry; apply Wv_Wt).
      apply oopp_form.
    - rewrite !Wv_Wt. apply oadd_form.
  Qed.

  (* the Frobenius product of the code's gradient with a direction *)
  Lemma term_wfm i j : In i idx -> In j idx ->
    wfmR k d (mscaleR (@St ROps exp L X y i j) (outerR (mvmulR L (ptR X i)) (ptR X j))).
  Proof.
    intros Hi Hj. apply mscale_wfm, outer_wfm_kd; [apply av_len | apply pt_wf, Hj].
  Qed.

  Lemma grad_frob : frobR (@nca_grad ROps exp k d L X y) E =
    2 * rsumf (fun i => rsumf (fun j => @St ROps exp L X y i j * cc i j) idx) idx.
  Proof.
    unfold nca_grad. rewrite frob_mscale. replace (@oofZ ROps 2) with 2 by (cbn; lra).
    apply (f_equal (Rmult 2)).
    rewrite (frob_msum k d).
    - apply rsumf_ext. intros i Hi. rewrite (frob_msum k d).
      + apply rsumf_ext. intros j Hj. rewrite frob_mscale, frob_outer. reflexivity.
      + intros j Hj. apply term_wfm; auto.
    - intros i Hi. apply msum_wfm. intros j Hj. apply term_wfm; auto.
  Qed.

  (* (b) the derivative *)
  Theorem nca_gradient_is_derivative :
    is_derive (fun t => @nca_loss ROps exp (line L E t) X y) 0 (frobR (@nca_grad ROps exp k d L X y) E).
  Proof.
    apply (is_derive_ext (Ff n qfn msame)); [intro t; symmetry; apply loss_Ff|].
    assert (HZ: forall i, In i idx -> Zf n qfn i 0 <> 0).
    { intros i Hi. pose proof (Zf_pos i Hi). lra. }
    evar_last. apply (Ff_derive n qfn dqn msame qfn_derive HZ).
    rewrite (dFf_form n qfn dqn msame HZ), grad_frob.
    rewrite (rsumf_ext (fun i => rsumf (fun j => @St ROps exp L X y i j * cc i j) idx)
                       (fun i => rsumf (fun j => Sv n (Wv n qfn msame) i j * cc i j) idx))
      by (intros i _; apply rsumf_ext; intros j _; rewrite St_Sv; reflexivity).
    rewrite <- (laplacian_identity n (Wv n qfn msame) cc (Wv_row_sum n qfn msame HZ)).
    unfold dqn.
    rewrite (rsumf_ext (fun i => rsumf (fun j => Wv n qfn msame i j * (2 * (cc i i - cc i j - cc j i + cc j j))) idx)
                       (fun i => 2 * rsumf (fun j => Wv n qfn msame i j * (cc i i - cc i j - cc j i + cc j j)) idx)).
    - rewrite rsumf_scal. ring.
    - intros i _. rewrite <- rsumf_scal. apply rsumf_ext. intros j _. ring.
  Qed.
End Main.

(* ------------------------------------------------------------------ (a) the documented objective is the loss of the code *)
Lemma map_combine_seq {A B} (g : nat -> A -> B) (dflt : A) : forall (Y : list A) s,
  map (fun jx => g (fst jx) (snd jx)) (combine (seq s (length Y)) Y) =
  map (fun j => g j (nth (j - s) Y dflt)) (seq s (length Y)).
Proof.
  induction Y as [|x Y IH]; intro s; cbn [length seq combine map]; [reflexivity|].
  f_equal.
  - cbn. rewrite Nat.sub_diag. reflexivity.
  - rewrite (IH (S s)). apply map_ext_in. intros j Hj. apply in_seq in Hj.
    replace (j - s)%nat with (S (j - S s)) by lia. reflexivity.
Qed.

Lemma map_combine_map_seq {A B C} (f : nat -> A) (h : A -> B -> C) (dflt : B) : forall m (y : list B) s,
  length y = m ->
  map (fun ey => h (fst ey) (snd ey)) (combine (map f (seq s m)) y) =
  map (fun j => h (f j) (nth (j - s) y dflt)) (seq s m).
Proof.
  induction m as [|m IH]; intros [|b y] s H; cbn in H; try discriminate; cbn [seq map combine]; [reflexivity|].
  f_equal.
  - rewrite Nat.sub_diag. reflexivity.
  - rewrite (IH y (S s)) by lia. apply map_ext_in. intros j Hj. apply in_seq in Hj.
    replace (j - s)%nat with (S (j - S s)) by lia. reflexivity.
Qed.

Lemma kern_index (ex : R -> R) (L X : Rm) i :
  @kern ROps ex L X i = map (fun j => @ee ROps ex L X i j) (seq 0 (length X)).
Proof.
  unfold kern.
  etransitivity.
  { exact (map_combine_seq (fun j x => if Nat.eqb j i then @o0 ROps else ex (@oopp ROps (@sqd ROps L (nth i X []) x))) [] X 0). }
  apply map_ext. intro j. rewrite Nat.sub_0_r. reflexivity.
Qed.

Theorem nca_obj_is_loss (ex : R -> R) (L X : Rm) (y : list Z) : length y = length X ->
  @nca_obj ROps ex L X y = @nca_loss ROps ex L X y.
Proof.
  intro Hy. unfold nca_obj, nca_loss, isum. f_equal. apply map_ext. intro i. cbv zeta.
  rewrite kern_index.
  assert (Es: map (fun ey : R * Z => if Z.eqb (snd ey) (nth i y 0%Z) then fst ey else @o0 ROps)
                  (combine (map (fun j => @ee ROps ex L X i j) (seq 0 (length X))) y) =
              map (fun j => if Z.eqb (nth (j - 0) y 0%Z) (nth i y 0%Z) then @ee ROps ex L X i j else @o0 ROps) (seq 0 (length X))).
  { exact (map_combine_map_seq (fun j => @ee ROps ex L X i j)
             (fun e yj => if Z.eqb yj (nth i y 0%Z) then e else @o0 ROps) 0%Z (length X) y 0 Hy). }
  rsimp. rewrite Es. rewrite !vsum_map_rsumf. unfold pin, isum. rewrite vsum_map_rsumf. unfold mp, pp, Zs, isum, same.
  rewrite vsum_map_rsumf.
  rewrite (rsumf_ext (fun j => if Z.eqb (nth j y 0%Z) (nth i y 0%Z) then odiv ROps (@ee ROps ex L X i j) (rsumf (@ee ROps ex L X i) (seq 0 (length X))) else o0 ROps)
                     (fun j => (if Z.eqb (nth j y 0%Z) (nth i y 0%Z) then @ee ROps ex L X i j else 0) / rsumf (@ee ROps ex L X i) (seq 0 (length X)))).
  - rewrite rsumf_div. apply (f_equal (fun a => a / _)). apply rsumf_ext. intros j _. rewrite Nat.sub_0_r. reflexivity.
  - intros j _. destruct (Z.eqb _ _); [reflexivity | change (o0 ROps) with 0; unfold Rdiv; ring].
Qed.

Ltac ropsimp := change (omul ROps) with Rmult; change (odiv ROps) with Rdiv; change (osub ROps) with Rminus;
  change (oadd ROps) with Rplus; change (oopp ROps) with Ropp; change (o0 ROps) with 0; rsimp.

(* ================================================================== MLKR *)
(* leave-one-out kernel regression error along any family q_ij(t):  F = sum_i (sum_j y_j e_ij / sum_j e_ij - y_i)^2 *)
Section SoftmaxSq.
  Variable n : nat.
  Variable qf : nat -> nat -> R -> R.
  Variable dq : nat -> nat -> R.
  Variable yv : nat -> R.
  Notation idx := (seq 0 n).
  Hypothesis Hq : forall i j, In i idx -> In j idx -> is_derive (qf i j) 0 (dq i j).
  Hypothesis HZ : forall i, In i idx -> Zf n qf i 0 <> 0.

  Definition Ny (i : nat) (t : R) : R := rsumf (fun j => yv j * ef qf i j t) idx.
  Definition Fy (t : R) : R := rsumf (fun i => (Ny i t / Zf n qf i t - yv i) * (Ny i t / Zf n qf i t - yv i)) idx.
  Definition dNy (i : nat) : R := rsumf (fun j => yv j * de qf dq i j) idx.
  Definition ry (i : nat) : R := Ny i 0 / Zf n qf i 0.

  Lemma Ny_derive i : In i idx -> is_derive (Ny i) 0 (dNy i).
  Proof.
    intro Hi. unfold Ny, dNy.
    apply (is_derive_rsumf idx (fun j t => yv j * ef qf i j t) (fun j => yv j * de qf dq i j)).
    intros j Hj. apply is_derive_scal. apply (ef_derive n qf dq Hq i j Hi Hj).
  Qed.

  Definition dFy : R :=
    rsumf (fun i => 2 * (ry i - yv i) * ((dNy i * Zf n qf i 0 - Ny i 0 * dZ n qf dq i) / (Zf n qf i 0) ^ 2)) idx.

  Lemma Fy_derive : is_derive Fy 0 dFy.
  Proof.
    unfold Fy, dFy.
    apply (is_derive_rsumf idx (fun i t => (Ny i t / Zf n qf i t - yv i) * (Ny i t / Zf n qf i t - yv i))
             (fun i => 2 * (ry i - yv i) * ((dNy i * Zf n qf i 0 - Ny i 0 * dZ n qf dq i) / (Zf n qf i 0) ^ 2))).
    intros i Hi.
    assert (Hr: is_derive (fun t => Ny i t / Zf n qf i t - yv i) 0
                          ((dNy i * Zf n qf i 0 - Ny i 0 * dZ n qf dq i) / (Zf n qf i 0) ^ 2)).
    { evar_last.
      apply (is_derive_minus (V:=R_NormedModule) (fun t => Ny i t / Zf n qf i t) (fun _ => yv i) 0
               ((dNy i * Zf n qf i 0 - Ny i 0 * dZ n qf dq i) / (Zf n qf i 0) ^ 2) 0).
      - apply is_derive_div; [apply Ny_derive, Hi | apply (Zf_derive n qf dq Hq i Hi) | apply HZ, Hi].
      - apply (is_derive_const (V:=R_NormedModule) (yv i) 0).
      - unfold minus, plus, opp, zero; cbn. ring. }
    evar_last. apply (Derive.is_derive_mult _ _ 0 _ _ Hr Hr). unfold ry. ring.
  Qed.

  Definition Wy (i j : nat) : R := 2 * (Pv n qf i j * (ry i - yv i) * (yv j - ry i)).

  Lemma ry_sum i : ry i = rsumf (fun j => yv j * Pv n qf i j) idx.
  Proof.
    unfold ry, Ny, Pv. rewrite <- rsumf_div. apply rsumf_ext. intros j _. unfold Rdiv. ring.
  Qed.

  Lemma dFy_form : dFy = - rsumf (fun i => rsumf (fun j => Wy i j * dq i j) idx) idx.
  Proof.
    unfold dFy. rewrite <- rsumf_opp. apply rsumf_ext. intros i Hi.
    pose proof (HZ i Hi) as Hz.
    replace ((dNy i * Zf n qf i 0 - Ny i 0 * dZ n qf dq i) / Zf n qf i 0 ^ 2)
      with (dNy i / Zf n qf i 0 - ry i * (dZ n qf dq i / Zf n qf i 0)) by (unfold ry; field; exact Hz).
    unfold dNy, dZ. rewrite <- !rsumf_div, <- rsumf_scal, <- rsumf_minus, <- rsumf_scal, <- rsumf_opp.
    apply rsumf_ext. intros j _. unfold Wy.
    replace (yv j * de qf dq i j / Zf n qf i 0) with (yv j * (de qf dq i j / Zf n qf i 0)) by (unfold Rdiv; ring).
    rewrite (de_over_Z n qf dq). ring.
  Qed.

  Lemma Wy_row_sum i : In i idx -> rsumf (Wy i) idx = 0.
  Proof.
    intro Hi. unfold Wy. rewrite rsumf_scal.
    rewrite (rsumf_ext (fun j => Pv n qf i j * (ry i - yv i) * (yv j - ry i))
                       (fun j => (ry i - yv i) * (yv j * Pv n qf i j) - (ry i - yv i) * ry i * Pv n qf i j))
      by (intros j _; ring).
    rewrite rsumf_minus, !rsumf_scal, <- ry_sum, (Pv_row_sum n qf HZ i Hi). ring.
  Qed.

  Lemma Wy_diag i : Wy i i = 0.
  Proof. unfold Wy, Pv, ef. rewrite Nat.eqb_refl. unfold Rdiv. ring. Qed.
End SoftmaxSq.

Section MainMLKR.
  Variables (k d : nat) (L E X : Rm) (yv : Rv).
  Hypothesis HL : wfmR k d L.
  Hypothesis HE : wfmR k d E.
  Hypothesis HX : List.Forall (wfvR d) X.
  Hypothesis Hn : (2 <= length X)%nat.
  Notation n := (length X).
  Notation idx := (seq 0 n).
  Notation qfn' := (qfn L E X).
  Notation cc' := (cc L E X).
  Definition yfun (j : nat) : R := nth j yv 0.

  Lemma HZ' : forall i, In i idx -> Zf n qfn' i 0 <> 0.
  Proof. intros i Hi. pose proof (Zf_pos L E X Hn i Hi). lra. Qed.

  Lemma yhat_ratio (M : Rm) i :
    @yhat ROps exp M X yv i = rsumf (fun j => yfun j * @ee ROps exp M X i j) idx / @Zs ROps exp M X i.
  Proof.
    unfold yhat. rewrite (isum_rsumf X). rewrite <- rsumf_div. apply rsumf_ext. intros j _.
    unfold pp, yfun. ropsimp. unfold Rdiv. ring.
  Qed.

  Lemma mlkr_loss_Fy t : @mlkr_loss ROps exp (line L E t) X yv = Fy n qfn' yfun t.
  Proof.
    unfold mlkr_loss, Fy. rewrite (isum_rsumf X). apply rsumf_ext. intros i _. cbv zeta.
    rewrite yhat_ratio. unfold Zs. rewrite (isum_rsumf X). reflexivity.
  Qed.

  Lemma ry_yhat i : ry n qfn' yfun i = @yhat ROps exp L X yv i.
  Proof.
    rewrite yhat_ratio. unfold ry, Ny. rewrite (Zf0_Zs k d L E X HL HE).
    f_equal. apply rsumf_ext. intros j _. rewrite (ef0_ee k d L E X HL HE). reflexivity.
  Qed.

  Lemma Wy_Wm i j : Wy n qfn' yfun i j = 2 * @Wm ROps exp L X yv i j.
  Proof.
    unfold Wy, Wm. rewrite (Pv_pp k d L E X HL HE), ry_yhat. unfold yfun.
    ropsimp. ring.
  Qed.

  Lemma Sm_Sv i j : 2 * @Sm ROps exp L X yv i j = Sv n (Wy n qfn' yfun) i j.
  Proof.
    unfold Sm, Sv, colsum. rewrite (isum_rsumf X).
    destruct (Nat.eqb i j) eqn:Eij.
    - apply Nat.eqb_eq in Eij. subst j. rewrite !Wy_diag.
      rewrite (rsumf_ext (fun k0 => Wy n qfn' yfun k0 i) (fun k0 => 2 * @Wm ROps exp L X yv k0 i)) by (intros; apply Wy_Wm).
      rewrite rsumf_scal. ropsimp. ring.
    - rewrite !Wy_Wm. ropsimp. ring.
  Qed.

  Lemma term_wfm_m i j : In i idx -> In j idx ->
    wfmR k d (mscaleR (@Sm ROps exp L X yv i j) (outerR (mvmulR L (ptR X i)) (ptR X j))).
  Proof.
    intros Hi Hj. apply mscale_wfm, outer_wfm_kd; [apply (av_len k d L X HL) | apply (pt_wf d X HX), Hj].
  Qed.

  Lemma mlkr_grad_frob : frobR (@mlkr_grad ROps exp k d L X yv) E =
    4 * rsumf (fun i => rsumf (fun j => @Sm ROps exp L X yv i j * cc' i j) idx) idx.
  Proof.
    unfold mlkr_grad. rewrite frob_mscale. replace (@oofZ ROps 4) with 4 by (cbn; lra).
    apply (f_equal (Rmult 4)).
    rewrite (frob_msum k d).
    - apply rsumf_ext. intros i Hi. rewrite (frob_msum k d).
      + apply rsumf_ext. intros j Hj. rewrite frob_mscale, frob_outer. reflexivity.
      + intros j Hj. apply term_wfm_m; auto.
    - intros i Hi. apply msum_wfm. intros j Hj. apply term_wfm_m; auto.
  Qed.

  Theorem mlkr_gradient_is_derivative :
    is_derive (fun t => @mlkr_loss ROps exp (line L E t) X yv) 0 (frobR (@mlkr_grad ROps exp k d L X yv) E).
  Proof.
    apply (is_derive_ext (Fy n qfn' yfun)); [intro t; symmetry; apply mlkr_loss_Fy|].
    evar_last. apply (Fy_derive n qfn' (dqn L E X) yfun (qfn_derive k d L E X HL HE HX) HZ').
    rewrite (dFy_form n qfn' (dqn L E X) yfun HZ'), mlkr_grad_frob.
    replace (4 * rsumf (fun i => rsumf (fun j => @Sm ROps exp L X yv i j * cc' i j) idx) idx)
      with (2 * rsumf (fun i => rsumf (fun j => Sv n (Wy n qfn' yfun) i j * cc' i j) idx) idx).
    - rewrite <- (laplacian_identity n (Wy n qfn' yfun) cc' (Wy_row_sum n qfn' yfun HZ')).
      unfold dqn.
      rewrite (rsumf_ext (fun i => rsumf (fun j => Wy n qfn' yfun i j * (2 * (cc' i i - cc' i j - cc' j i + cc' j j))) idx)
                         (fun i => 2 * rsumf (fun j => Wy n qfn' yfun i j * (cc' i i - cc' i j - cc' j i + cc' j j)) idx)).
      + rewrite rsumf_scal. ring.
      + intros i _. rewrite <- rsumf_scal. apply rsumf_ext. intros j _. ring.
    - replace 4 with (2 * 2) by ring. rewrite Rmult_assoc. f_equal.
      rewrite <- rsumf_scal. apply rsumf_ext. intros i _. rewrite <- rsumf_scal. apply rsumf_ext. intros j _.
      rewrite <- Sm_Sv. ring.
  Qed.
End MainMLKR.

(* the documented MLKR objective (Model/Objectives.v) is the cost of the code *)
Lemma vdot_map_seq (f : nat -> R) : forall m (y : Rv) s, length y = m ->
  vdotR (map f (seq s m)) y = rsumf (fun j => f j * nth (j - s) y 0) (seq s m).
Proof.
  induction m as [|m IH]; intros [|b y] s H; cbn in H; try discriminate; cbn [seq map vdot rsumf]; [reflexivity|].
  rewrite (IH y (S s)) by lia. rewrite Nat.sub_diag. cbn [nth].
  ropsimp. f_equal.
  apply rsumf_ext. intros j Hj. apply in_seq in Hj. replace (j - s)%nat with (S (j - S s)) by lia. reflexivity.
Qed.

Theorem mlkr_obj_is_loss (ex : R -> R) (L X : Rm) (yv : Rv) : length yv = length X ->
  @mlkr_obj ROps ex L X yv = @mlkr_loss ROps ex L X yv.
Proof.
  intro Hy. unfold mlkr_obj, mlkr_loss, isum. f_equal. apply map_ext. intro i. cbv zeta.
  rewrite kern_index, (vdot_map_seq _ (length X) yv 0 Hy), vsum_map_rsumf.
  assert (Eh: @yhat ROps ex L X yv i =
              rsumf (fun j => @ee ROps ex L X i j * nth (j - 0) yv 0) (seq 0 (length X)) / rsumf (@ee ROps ex L X i) (seq 0 (length X))).
  { unfold yhat, isum. rewrite vsum_map_rsumf. rewrite <- rsumf_div. apply rsumf_ext. intros j _.
    unfold pp, Zs, isum. rewrite vsum_map_rsumf, Nat.sub_0_r.
    ropsimp. unfold Rdiv. ring. }
  rewrite Eh. reflexivity.
Qed.
