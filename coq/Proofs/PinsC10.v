(* Text-level tie of C10: the hand-written model / harness of this property was written from exactly these versions of the
   functions below (normalised source, digests regenerated from /repo on every run in gen/Src_pins.v; the text itself is in
   /verif/pins/).  A function that changes breaks this lemma; the check then looks for a failing input and reports the
   obligation with a diff.  Rewritten by `tools/translate_pins.py --update` after a repair of /repo. *)
From Coq Require Import String List.
From MLgen Require Import Src_pins.
Import ListNotations.
Open Scope string_scope.

Lemma pins_C10_ok :
  [ pin_nca__NCA__fit
  ; pin_nca__NCA__loss_grad_lbfgs
  ; pin_mlkr__MLKR__fit
  ; pin_mlkr__MLKR__loss
  ; pin_lmnn__LMNN__fit
  ; pin_lmnn__LMNN__loss_grad
  ; pin_lmnn__LMNN__select_targets
  ; pin_lmnn__LMNN__find_impostors
  ; pin_lmnn__inplace_paired_L2
  ; pin_lmnn__count_edges
  ; pin_lmnn__sum_outer_products ] =
  [ "48e6598a777a8251c522b0bf145d1ff094c221d81e75691e988aeb4c84b39ab5"   (* nca.py: NCA.fit *)
  ; "2b485d8402986af9a98df3add05492bfe685440db7be66dbf4b85bf0ef30ba95"   (* nca.py: NCA._loss_grad_lbfgs *)
  ; "15b4ad3da9fe24735863fc00ed1f378323985e535dde629631bd23d4ce261ba4"   (* mlkr.py: MLKR.fit *)
  ; "11270840318e61e94e84e4c4eb4a8dc9e8ec5e6773ece3bf94d42116406d2d49"   (* mlkr.py: MLKR._loss *)
  ; "d06e8efeefb4965af117d09005dbcfaeb001ab25743883f29c738d6d4456e3de"   (* lmnn.py: LMNN.fit *)
  ; "b500a19f239cb13458c88840c7194b3eba0994d5373c440e1cd340659cf653da"   (* lmnn.py: LMNN._loss_grad *)
  ; "3b7f1401f2ca715c1f858629f49bc3d8e08dadf19097072baaacc8d277e14d41"   (* lmnn.py: LMNN._select_targets *)
  ; "0b1d8eb9feaa63893db7fde6d85798136c5900ce6ecd326eace55cc95a9d77d4"   (* lmnn.py: LMNN._find_impostors *)
  ; "66cbfe25daa0b119c1bfa19691c1694392a3d22ade1eabc6b6f11e3ce0c599a7"   (* lmnn.py: _inplace_paired_L2 *)
  ; "6357f919d0e3814dc6549d4932ecb074e7db99bfe6a3290697339c9c442e40a3"   (* lmnn.py: _count_edges *)
  ; "6df4fc14bf2cd57f23be85dd84d765681a0a665e2f82941dff6024769b13a74e"   (* lmnn.py: _sum_outer_products *) ].
Proof. reflexivity. Qed.
