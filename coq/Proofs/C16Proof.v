From Coq Require Import List Arith Bool ZArith Reals Lra Lia.
From ML Require Import Ops Calibrate.
Import ListNotations.
Open Scope R_scope.

Notation sampleR := (@sample ROps).
Notation cutR := (@cut ROps).
Notation acceptsR := (@accepts ROps).
Notation accepts_cR := (@accepts_c ROps).

Notation cut_ofR := (@cut_of ROps).
Notation fbeta_ofR := (@fbeta_of ROps).
Notation tnr_geR := (@tnr_ge ROps).
Notation tpr_geR := (@tpr_ge ROps).
Notation calib_fbetaR := (@calib_fbeta ROps).
Notation calib_max_tprR := (@calib_max_tpr ROps).
Notation calib_max_tnrR := (@calib_max_tnr ROps).

Ltac rs := change (T ROps) with R in *.

(* ---------- counting depends only on the predicate's values on the data ---------- *)
Lemma count_ext {A} (f g : A -> bool) l : (forall x, In x l -> f x = g x) -> count f l = count g l.
Proof.
  unfold count. induction l as [|a l IH]; intro H; cbn; auto.
  rewrite (H a (or_introl eq_refl)). destruct (g a); cbn; rewrite IH; auto; intros; apply H; right; auto.
Qed.

Section Ext.
  Variables (data : list sampleR) (f g : sampleR -> bool).
  Hypothesis E : forall s, In s data -> f s = g s.
  Lemma tp_ext : tp_of f data = tp_of g data.
  Proof. unfold tp_of. apply count_ext. intros s Hs. rewrite (E s Hs). reflexivity. Qed.
  Lemma fp_ext : fp_of f data = fp_of g data.
  Proof. unfold fp_of. apply count_ext. intros s Hs. rewrite (E s Hs). reflexivity. Qed.
  Lemma tn_ext : tn_of f data = tn_of g data.
  Proof. unfold tn_of. apply count_ext. intros s Hs. rewrite (E s Hs). reflexivity. Qed.
  Lemma correct_ext : correct_of f data = correct_of g data.
  Proof. unfold correct_of. rewrite tp_ext, tn_ext. reflexivity. Qed.
  Lemma fbeta_ext beta : fbeta_ofR beta f data = fbeta_ofR beta g data.
  Proof. unfold fbeta_of. rewrite tp_ext, fp_ext. reflexivity. Qed.
  Lemma tnr_ge_ext r : tnr_geR r f data = tnr_geR r g data.
  Proof. unfold tnr_ge. rewrite tn_ext. reflexivity. Qed.
  Lemma tpr_ge_ext r : tpr_geR r f data = tpr_geR r g data.
  Proof. unfold tpr_ge. rewrite tp_ext. reflexivity. Qed.
End Ext.

(* ---------- predictions only change at data distances ---------- *)
Lemma maxle_some (thr : R) : forall ds m, @maxle ROps thr ds = Some m ->
  In m ds /\ m <= thr /\ (forall d, In d ds -> d <= thr -> d <= m).
Proof.
  induction ds as [|d ds IH]; intros m H; cbn in H; [discriminate|].
  destruct (@maxle ROps thr ds) as [m0|] eqn:E.
  - destruct (IH m0 eq_refl) as [I1 [I2 I3]].
    destruct (Rleb d thr) eqn:Ed.
    + apply Rleb_true in Ed. destruct (Rleb m0 d) eqn:Em; inversion H; subst.
      * apply Rleb_true in Em. split; [left; auto|]. split; auto.
        intros x [->|Hx] Hle; [lra|]. specialize (I3 x Hx Hle). lra.
      * apply Rleb_false in Em. split; [right; auto|]. split; auto.
        intros x [->|Hx] Hle; [lra|]. apply I3; auto.
    + apply Rleb_false in Ed. inversion H; subst. split; [right; auto|]. split; auto.
      intros x [->|Hx] Hle; [lra|]. apply I3; auto.
  - destruct (Rleb d thr) eqn:Ed; [|discriminate]. inversion H; subst.
    apply Rleb_true in Ed. split; [left; auto|]. split; auto.
    intros x [->|Hx] Hle; [lra|].
    exfalso. clear - E Hx Hle. revert E Hx. induction ds as [|y ds IH]; cbn; [tauto|].
    destruct (@maxle ROps thr ds); [destruct (Rleb y thr); [destruct (Rleb t y)|]; discriminate|].
    destruct (Rleb y thr) eqn:Ey; [discriminate|]. apply Rleb_false in Ey.
    intros _ [->|Hx]; [lra | apply IH; auto].
Qed.

Lemma maxle_none (thr : R) : forall ds, @maxle ROps thr ds = None -> forall d, In d ds -> thr < d.
Proof.
  induction ds as [|y ds IH]; cbn; [tauto|].
  destruct (@maxle ROps thr ds); [destruct (Rleb y thr); [destruct (Rleb t y)|]; discriminate|].
  destruct (Rleb y thr) eqn:Ey; [discriminate|]. apply Rleb_false in Ey.
  intros _ d [->|Hd]; [lra | apply IH; auto].
Qed.

Lemma cut_of_same (thr : R) (data : list sampleR) s : In s data ->
  accepts_cR (cut_ofR thr data) s = acceptsR thr s.
Proof.
  intro Hs. unfold cut_of. assert (Hd: In (fst s) (map fst data)) by (apply in_map; auto).
  destruct (@maxle ROps thr (map fst data)) as [m|] eqn:E; cbn.
  - destruct (maxle_some thr _ m E) as [_ [I2 I3]]. unfold accepts. cbn [oleb ROps].
    apply Bool.eq_true_iff_eq. rewrite !Rleb_true. split; intro H.
    + rs. lra.
    + apply I3; auto.
  - pose proof (maxle_none thr _ E _ Hd). unfold accepts. cbn [oleb ROps]. symmetry. apply Rleb_false. auto.
Qed.

(* ---------- the candidate list contains every data distance ---------- *)
Lemma insert_u_self (x : R) : forall l, In x (@insert_u ROps x l).
Proof.
  induction l as [|y l IH]; cbn; [left; auto|].
  destruct (Rltb x y) eqn:E1; [left; auto|]. destruct (Rltb y x) eqn:E2; [right; auto|].
  apply Rltb_false in E1. apply Rltb_false in E2. left. rs. lra.
Qed.
Lemma insert_u_keep (x y : R) : forall l, In y l -> In y (@insert_u ROps x l).
Proof.
  induction l as [|z l IH]; cbn; [tauto|]. intros H.
  destruct (Rltb x z); [right; auto|]. destruct (Rltb z x); [|auto].
  destruct H as [->|H]; [left; auto | right; auto].
Qed.
Lemma distinct_sorted_in (d : R) : forall ds, In d ds -> In d (@distinct_sorted ROps ds).
Proof.
  induction ds as [|y ds IH]; cbn; [tauto|]. intros [->|H]; [apply insert_u_self | apply insert_u_keep; auto].
Qed.
Lemma cut_of_candidate (thr : R) (data : list sampleR) : In (cut_ofR thr data) (candidates data).
Proof.
  unfold cut_of, candidates. destruct (@maxle ROps thr (map fst data)) as [m|] eqn:E; [|left; auto].
  right. apply in_map. apply distinct_sorted_in. apply (maxle_some thr _ m E).
Qed.

(* ---------- first-argmax is a maximiser and a member ---------- *)
Lemma argmax_nat_spec {A} (key : A -> nat) : forall l best,
  In (argmax_nat key best l) (best :: l) /\
  (forall x, In x (best :: l) -> (key x <= key (argmax_nat key best l))%nat).
Proof.
  induction l as [|y l IH]; intro best; cbn [argmax_nat].
  - split; [left; auto|]. intros x [->|[]]. lia.
  - destruct (Nat.ltb (key best) (key y)) eqn:E.
    + apply Nat.ltb_lt in E. destruct (IH y) as [I1 I2]. split.
      * right. exact I1.
      * intros x [->|Hx]; [|apply I2; auto]. specialize (I2 y (or_introl eq_refl)). lia.
    + apply Nat.ltb_ge in E. destruct (IH best) as [I1 I2]. split.
      * destruct I1 as [I1|I1]; [left; auto | right; right; auto].
      * intros x [->|[->|Hx]]; [apply I2; left; auto | | apply I2; right; auto].
        specialize (I2 best (or_introl eq_refl)). lia.
Qed.

Lemma argmax_t_spec {A} (key : A -> R) : forall l best,
  In (@argmax_t ROps A key best l) (best :: l) /\
  (forall x, In x (best :: l) -> key x <= key (@argmax_t ROps A key best l)).
Proof.
  induction l as [|y l IH]; intro best; cbn [argmax_t].
  - split; [left; auto|]. intros x [->|[]]. lra.
  - cbn [oltb ROps]. destruct (Rltb (key best) (key y)) eqn:E.
    + apply Rltb_true in E. destruct (IH y) as [I1 I2]. split.
      * right. exact I1.
      * intros x [->|Hx]; [|apply I2; auto]. specialize (I2 y (or_introl eq_refl)). lra.
    + apply Rltb_false in E. destruct (IH best) as [I1 I2]. split.
      * destruct I1 as [I1|I1]; [left; auto | right; right; auto].
      * intros x [->|[->|Hx]]; [apply I2; left; auto | | apply I2; right; auto].
        specialize (I2 best (or_introl eq_refl)). lra.
Qed.

(* ---------- optimality ---------- *)
Theorem calib_accuracy_optimal (data : list sampleR) (thr : R) :
  (correct_of (acceptsR thr) data <= correct_of (accepts_cR (calib_accuracy data)) data)%nat.
Proof.
  rewrite <- (correct_ext data (accepts_cR (cut_ofR thr data)) (acceptsR thr) (cut_of_same thr data)).
  unfold calib_accuracy.
  destruct (argmax_nat_spec (fun c : cutR => correct_of (accepts_cR c) data) (candidates data) RejectAll) as [_ H].
  apply (H (cut_ofR thr data)). right. apply cut_of_candidate.
Qed.

Lemma INR_ofnat n : @ofnat ROps n = INR n.
Proof. unfold ofnat. cbn. symmetry. apply INR_IZR_INZ. Qed.

Lemma fbeta_nonneg beta f (data : list sampleR) : 0 <= fbeta_ofR beta f data.
Proof.
  unfold fbeta_of. destruct (Nat.eqb (tp_of f data) 0) eqn:E; cbn; [lra|].
  apply Nat.eqb_neq in E. rewrite <- !INR_IZR_INZ. rs.
  assert (0 < INR (tp_of f data)) by (apply lt_0_INR; lia).
  pose proof (pos_INR (npos data)). pose proof (pos_INR (tp_of f data + fp_of f data)).
  assert (INR (tp_of f data) <= INR (tp_of f data + fp_of f data)) by (apply le_INR; lia).
  apply Rmult_le_pos; [nra|]. apply Rlt_le, Rinv_0_lt_compat. nra.
Qed.

Lemma tp_reject_all (data : list sampleR) : tp_of (accepts_cR RejectAll) data = 0%nat.
Proof. unfold tp_of, count. induction data; cbn; auto. Qed.
Lemma fbeta_reject_all (beta : R) (data : list sampleR) : fbeta_ofR beta (accepts_cR RejectAll) data = 0.
Proof. unfold fbeta_of. rewrite tp_reject_all. reflexivity. Qed.

Theorem calib_fbeta_optimal (beta : R) (data : list sampleR) (thr : R) :
  fbeta_ofR beta (acceptsR thr) data <= fbeta_ofR beta (accepts_cR (calib_fbetaR beta data)) data.
Proof.
  rewrite <- (fbeta_ext data (accepts_cR (cut_ofR thr data)) (acceptsR thr) (cut_of_same thr data)).
  pose proof (cut_of_candidate thr data) as Hc. unfold candidates in Hc.
  destruct Hc as [Hc|Hc].
  - rewrite <- Hc, fbeta_reject_all. apply fbeta_nonneg.
  - unfold calib_fbeta. destruct (map At (@distinct_sorted ROps (map fst data))) as [|c cs]; [destruct Hc|].
    destruct (argmax_t_spec (fun c : cutR => fbeta_ofR beta (accepts_cR c) data) cs c) as [_ H].
    apply (H (cut_ofR thr data)). exact Hc.
Qed.

Lemma reject_all_tn (data : list sampleR) : tn_of (accepts_cR RejectAll) data = nneg data.
Proof. unfold tn_of, nneg. apply count_ext. intros; reflexivity. Qed.

Theorem calib_max_tpr_optimal (r : R) (data : list sampleR) (thr : R) :
  tnr_geR r (acceptsR thr) data = true ->
  tnr_geR r (accepts_cR (calib_max_tprR r data)) data = true /\
  (tp_of (acceptsR thr) data <= tp_of (accepts_cR (calib_max_tprR r data)) data)%nat.
Proof.
  intro Hadm.
  rewrite <- (tnr_ge_ext data (accepts_cR (cut_ofR thr data)) (acceptsR thr) (cut_of_same thr data)) in Hadm.
  rewrite <- (tp_ext data (accepts_cR (cut_ofR thr data)) (acceptsR thr) (cut_of_same thr data)).
  unfold calib_max_tpr.
  assert (Hin: In (cut_ofR thr data) (filter (fun c : cutR => tnr_geR r (accepts_cR c) data) (candidates data))).
  { apply filter_In. split; [apply cut_of_candidate | exact Hadm]. }
  destruct (filter (fun c : cutR => tnr_geR r (accepts_cR c) data) (candidates data)) as [|c cs] eqn:EF; [destruct Hin|].
  destruct (argmax_nat_spec (fun c : cutR => tp_of (accepts_cR c) data) cs c) as [I1 I2]. split.
  - rewrite <- EF in I1. apply filter_In in I1. apply I1.
  - apply (I2 (cut_ofR thr data)). exact Hin.
Qed.

Theorem calib_max_tnr_optimal (r : R) (data : list sampleR) (thr : R) :
  tpr_geR r (acceptsR thr) data = true ->
  tpr_geR r (accepts_cR (calib_max_tnrR r data)) data = true /\
  (tn_of (acceptsR thr) data <= tn_of (accepts_cR (calib_max_tnrR r data)) data)%nat.
Proof.
  intro Hadm.
  rewrite <- (tpr_ge_ext data (accepts_cR (cut_ofR thr data)) (acceptsR thr) (cut_of_same thr data)) in Hadm.
  rewrite <- (tn_ext data (accepts_cR (cut_ofR thr data)) (acceptsR thr) (cut_of_same thr data)).
  unfold calib_max_tnr.
  assert (Hin: In (cut_ofR thr data) (filter (fun c : cutR => tpr_geR r (accepts_cR c) data) (candidates data))).
  { apply filter_In. split; [apply cut_of_candidate | exact Hadm]. }
  destruct (filter (fun c : cutR => tpr_geR r (accepts_cR c) data) (candidates data)) as [|c cs] eqn:EF; [destruct Hin|].
  destruct (argmax_nat_spec (fun c : cutR => tn_of (accepts_cR c) data) cs c) as [I1 I2]. split.
  - rewrite <- EF in I1. apply filter_In in I1. apply I1.
  - apply (I2 (cut_ofR thr data)). exact Hin.
Qed.

(* an admissible cut-off always exists when 0 <= r <= 1 (so the argmax is over a non-empty set) *)
Lemma reject_all_admissible_tnr (r : R) (data : list sampleR) : r <= 1 ->
  tnr_geR r (accepts_cR RejectAll) data = true.
Proof.
  intro Hr. unfold tnr_ge. rewrite reject_all_tn, INR_ofnat. cbn [oleb omul ROps]. apply Rleb_true.
  pose proof (pos_INR (nneg data)). nra.
Qed.
