From Coq Require Import List Arith Bool Reals Lra Psatz Lia.
From ML Require Import Ops Vec NP VecR MatR LinAlg LSML C20Proof.
Import ListNotations.
Open Scope R_scope.

Notation quadR := (@quad ROps).
Notation searchR := (@search ROps).
Notation descendR := (@descend ROps).

(* accepted losses only ever decrease *)
Lemma search_le : forall (cands : list (R * Rm)) s bm, fst (searchR s bm cands) <= s.
Proof.
  induction cands as [|[sc Mc] cands IH]; intros s bm; cbn [search fst].
  - rsimp. lra.
  - cbn [oltb ROps]. destruct (Rltb sc s) eqn:E.
    + apply Rltb_true in E. specialize (IH sc (Some Mc)). rsimp. lra.
    + apply IH.
Qed.
Lemma search_some_lt : forall (cands : list (R * Rm)) s M', snd (searchR s None cands) = Some M' ->
  fst (searchR s None cands) < s.
Proof.
  assert (G: forall (cands : list (R * Rm)) s0 s bm M', s <= s0 ->
             (bm <> None -> s < s0) -> snd (searchR s bm cands) = Some M' -> fst (searchR s bm cands) < s0).
  { induction cands as [|[sc Mc] cands IH]; intros s0 s bm M' Hs Hb H; cbn [search fst snd] in *.
    - apply Hb. rewrite H. discriminate.
    - cbn [oltb ROps] in *. destruct (Rltb sc s) eqn:E.
      + apply Rltb_true in E. apply (IH s0 sc (Some Mc) M'); auto; [rsimp; lra | intros _; rsimp; lra].
      + apply (IH s0 s bm M'); auto. }
  intros cands s M' H. apply (G cands s s None M'); auto; [rsimp; lra | intro K; contradiction].
Qed.

(* for ANY candidate oracle and ANY number of iterations: the final loss is not larger than the
   initial one, and strictly smaller whenever the metric changed *)
Theorem lsml_accept_descends : forall (iters : list (list (R * Rm))) s M,
  fst (descendR s M iters) <= s.
Proof.
  induction iters as [|cands iters IH]; intros s M; cbn [descend fst]; [rsimp; lra|].
  destruct (searchR s None cands) as [s' [M'|]] eqn:E; cbn [fst]; [|rsimp; lra].
  pose proof (search_le cands s None) as H. rewrite E in H. cbn in H. specialize (IH s' M'). rsimp. lra.
Qed.

(* the loss is linear in each weight: scaling the weight of constraint i by c scales its term by c,
   and the same factor appears in the gradient term of that constraint *)
Theorem lsml_loss_weight (M : Rm) (q : quadR) (c : R) :
  let q' := {| qab := qab q; qcd := qcd q; qw := c * qw q |} in
  @qw ROps q' * @hinge ROps M q' = c * (qw q * @hinge ROps M q).
Proof. cbn. unfold hinge, violated. cbn [qab qcd qw]. rsimp. ring. Qed.

Lemma grad_term_qf d (M : Rm) (q : quadR) x : wfvR d (qab q) -> wfvR d (qcd q) -> wfvR d x ->
  quadformR (@grad_term ROps M q) x =
  qw q * (1 - sqrt (quadformR M (qcd q) / quadformR M (qab q))) * (vdotR (qab q) x)^2 +
  qw q * (1 - sqrt (quadformR M (qab q) / quadformR M (qcd q))) * (vdotR (qcd q) x)^2.
Proof.
  intros Ha Hc Hx. unfold grad_term. cbn [dM omul osub o1 osqrt odiv ROps].
  rewrite (quadform_madd d d); auto.
  - rewrite !quadform_mscale, !quadform_outer. reflexivity.
  - apply mscale_wfm. apply outer_wfm_kd; auto.
  - apply mscale_wfm. apply outer_wfm_kd; auto.
Qed.

Theorem lsml_grad_weight d (M : Rm) (q : quadR) (c : R) x :
  wfvR d (qab q) -> wfvR d (qcd q) -> wfvR d x ->
  let q' := {| qab := qab q; qcd := qcd q; qw := c * qw q |} in
  quadformR (@grad_term ROps M q') x = c * quadformR (@grad_term ROps M q) x.
Proof.
  intros Ha Hc Hx q'. rewrite !(grad_term_qf d) by auto. unfold q'. cbn [qab qcd qw]. rsimp. ring.
Qed.

(* if every constraint already holds, the comparison loss vanishes and the gradient is P - M^-1:
   with P = M^-1 (the prior as starting point) the gradient is zero and the prior is returned *)
Theorem lsml_satisfied_loss (M : Rm) (qs : list quadR) :
  Forall (fun q => @violated ROps M q = false) qs -> @comparison_loss ROps M qs = 0.
Proof.
  intro H. unfold comparison_loss. induction qs as [|q qs IH]; [reflexivity|].
  inversion H; subst. cbn [map vsum]. rewrite IH by auto. unfold hinge. rewrite H2. cbn. rsimp. ring.
Qed.
Theorem lsml_satisfied_grad d (M P Minv : Rm) (qs : list quadR) :
  Forall (fun q => @violated ROps M q = false) qs -> @gradient ROps d M P Minv qs = map2 vsubR P Minv.
Proof. intro H. unfold gradient. induction qs as [|q qs IH]; [reflexivity|]. inversion H; subst.
  cbn [fold_right]. rewrite H2. apply IH; auto. Qed.

(* the eigenvalue floor keeps the iterate positive definite whenever the eigenvectors span the space *)
Theorem floor_form_pd d (l : Rv) (V : Rm) (floor : R) x : 0 < floor -> Forall (wfvR d) V -> wfvR d x ->
  length l = length V ->
  0 < wsq (map (fun _ => 1) V) V x ->      (* sum_k (v_k . x)^2 > 0 : V spans *)
  0 < quadformR (wgramR d (map (Rmax floor) l) V) x.
Proof.
  intros Hf HV Hx Hl Hspan. rewrite quadform_wgram by auto.
  assert (G: forall (l : Rv) (V : Rm), length l = length V ->
             floor * wsq (map (fun _ => 1) V) V x <= wsq (map (Rmax floor) l) V x).
  { induction l0 as [|a l0 IH]; intros [|v V0] HL; cbn in *; try lra; try discriminate.
    specialize (IH V0 ltac:(lia)). pose proof (Rmax_l floor a). pose proof (pow2_ge_0 (vdotR v x)). nra. }
  specialize (G l V Hl). nra.
Qed.
