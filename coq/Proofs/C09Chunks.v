(* C09, source level: _chunk_mean_centering and the within-chunk covariance of RCA.fit as translated into gen/Src_rca.v.
   Proved over R, for every data matrix, every chunk vector with labels in {-1} u [0, max] and every direction x:
   the quadratic form of the translated inner_cov along x is the mean, over the chunked points, of the squared deviation of the
   projection x . x_i from the mean projection of the point's own chunk -- the documented within-chunk covariance
   C = 1/N sum_j sum_i (x_ji - m_j)(x_ji - m_j)^T.  (The loop centres each chunk once; np.cov's own centring is then a no-op
   because the centred rows sum to zero.) *)
From Coq Require Import List Arith Bool Reals Lra Lia ZArith.
From ML Require Import Ops Vec NP VecR MatR LinAlg NPNum CovProof.
From MLgen Require Import Src_rca.
Import ListNotations.
Open Scope R_scope.

(* ---- the scalar shadow of the loop: what it does to the projections z_i = x . x_i ---- *)
Fixpoint sub_where (mask : list bool) (z : Rv) (m : R) : Rv :=
  match mask, z with
  | b :: mk, a :: z' => (if b then a - m else a) :: sub_where mk z' m
  | _, _ => z
  end.
Definition chunk_mean (labels : list Z) (z : Rv) (c : Z) : R := rmean (nn_mask (nn_eq_zs labels c) z).
Definition cstep (labels : list Z) (z : Rv) (c : Z) : Rv := sub_where (nn_eq_zs labels c) z (chunk_mean labels z c).
Definition zmem (l : Z) (cs : list Z) : bool := existsb (Z.eqb l) cs.
Fixpoint tgt (mu : Z -> R) (labels : list Z) (z : Rv) (cs : list Z) : Rv :=
  match labels, z with
  | l :: ls, a :: z' => (if zmem l cs then a - mu l else a) :: tgt mu ls z' cs
  | _, _ => z
  end.

Lemma zmem_app l cs c : zmem l (cs ++ [c]) = zmem l cs || Z.eqb l c.
Proof. unfold zmem. rewrite existsb_app. cbn. rewrite orb_false_r. reflexivity. Qed.

Lemma mask_tgt_fresh mu c cs : zmem c cs = false -> forall labels z,
  nn_mask (nn_eq_zs labels c) (tgt mu labels z cs) = nn_mask (nn_eq_zs labels c) z.
Proof.
  intros Hc. induction labels as [|l ls IH]; intros [|a z]; cbn; try reflexivity.
  destruct (Z.eqb l c) eqn:E.
  - apply Z.eqb_eq in E. subst l. rewrite Hc. f_equal. apply IH.
  - apply IH.
Qed.

Lemma sub_where_tgt mu c cs : zmem c cs = false -> forall labels z,
  sub_where (nn_eq_zs labels c) (tgt mu labels z cs) (mu c) = tgt mu labels z (cs ++ [c]).
Proof.
  intros Hc. induction labels as [|l ls IH]; intros [|a z]; cbn; try reflexivity.
  rewrite zmem_app. destruct (Z.eqb l c) eqn:E.
  - apply Z.eqb_eq in E. subst l. rewrite Hc. cbn. f_equal. apply IH.
  - rewrite orb_false_r. f_equal. apply IH.
Qed.

Lemma tgt_nil mu : forall labels z, tgt mu labels z [] = z.
Proof. induction labels as [|l ls IH]; intros [|a z]; cbn; try reflexivity. f_equal. apply IH. Qed.

Lemma nodup_app_l {A} : forall (l l' : list A), NoDup (l ++ l') -> NoDup l.
Proof.
  induction l as [|a l IH]; intros l' H; [constructor|]. cbn in H. inversion H as [|? ? Hn H']; subst.
  constructor; [intro Hin; apply Hn; apply in_or_app; left; exact Hin | apply (IH l' H')].
Qed.

Lemma NoDup_app_singleton (c : Z) : forall done, NoDup (done ++ [c]) -> zmem c done = false.
Proof.
  intros done H. unfold zmem. destruct (existsb (Z.eqb c) done) eqn:E; [|reflexivity].
  apply existsb_exists in E as [y [Hy Ey]]. apply Z.eqb_eq in Ey. subst y.
  exfalso. apply NoDup_remove_2 with (l := done) (l' := []) (a := c) in H. apply H. rewrite app_nil_r. exact Hy.
Qed.

(* the loop over distinct chunk ids, from the original projections z0 *)
Lemma fold_cstep (labels : list Z) (z0 : Rv) : forall cs done, NoDup (done ++ cs) ->
  fold_left (cstep labels) cs (tgt (chunk_mean labels z0) labels z0 done) = tgt (chunk_mean labels z0) labels z0 (done ++ cs).
Proof.
  induction cs as [|c cs IH]; intros done H; [rewrite app_nil_r; reflexivity|].
  cbn [fold_left].
  assert (Hc: zmem c done = false).
  { apply NoDup_app_singleton. replace (done ++ c :: cs) with ((done ++ [c]) ++ cs) in H by (rewrite <- app_assoc; reflexivity).
    apply nodup_app_l in H. exact H. }
  assert (E: cstep labels (tgt (chunk_mean labels z0) labels z0 done) c = tgt (chunk_mean labels z0) labels z0 (done ++ [c])).
  { unfold cstep. set (mu := chunk_mean labels z0).
    assert (M: chunk_mean labels (tgt mu labels z0 done) c = mu c) by (unfold chunk_mean at 1; rewrite (mask_tgt_fresh mu c done Hc); reflexivity).
    rewrite M. apply (sub_where_tgt mu c done Hc). }
  rewrite E. replace (done ++ c :: cs) with ((done ++ [c]) ++ cs) by (rewrite <- app_assoc; reflexivity).
  apply IH. rewrite <- app_assoc. exact H.
Qed.

(* ---- the centred projections sum to zero ---- *)
Lemma rsum_map_sub m (l : Rv) : rsum (map (fun a => a - m) l) = rsum l - INR (length l) * m.
Proof. induction l as [|a l IH]; [cbn; ring|]. cbn [map rsum fold_right length]. fold (rsum (map (fun a0 => a0 - m) l)). fold (rsum l). rewrite IH, S_INR. ring. Qed.

Lemma rsum_centered (l : Rv) : rsum (map (fun a => a - rmean l) l) = 0.
Proof.
  rewrite rsum_map_sub. unfold rmean. destruct l as [|a l]; [cbn; ring|].
  assert (INR (length (a :: l)) <> 0) by (apply not_0_INR; discriminate). field. exact H.
Qed.

Lemma mask_tgt_member mu c cs : zmem c cs = true -> forall labels z,
  nn_mask (nn_eq_zs labels c) (tgt mu labels z cs) = map (fun a => a - mu c) (nn_mask (nn_eq_zs labels c) z).
Proof.
  intros Hc. induction labels as [|l ls IH]; intros [|a z]; cbn; try reflexivity.
  destruct (Z.eqb l c) eqn:E.
  - apply Z.eqb_eq in E. subst l. rewrite Hc. cbn. f_equal. apply IH.
  - apply IH.
Qed.

Definition zsum (f : Z -> R) (cs : list Z) : R := rsum (map f cs).

Lemma zsum_indicator (l : Z) (a : R) : forall cs, NoDup cs -> In l cs -> zsum (fun c => if Z.eqb l c then a else 0) cs = a.
Proof.
  unfold zsum. induction cs as [|c cs IH]; intros ND Hin; [contradiction|].
  inversion ND as [|? ? Hn ND']; subst. cbn [map rsum fold_right]. fold (rsum (map (fun c0 => if Z.eqb l c0 then a else 0) cs)).
  destruct (Z.eqb l c) eqn:E.
  - apply Z.eqb_eq in E. subst c.
    assert (Z0: rsum (map (fun c0 => if Z.eqb l c0 then a else 0) cs) = 0).
    { clear - Hn. induction cs as [|c cs IH]; [reflexivity|]. cbn [map rsum fold_right].
      destruct (Z.eqb l c) eqn:E; [apply Z.eqb_eq in E; subst c; exfalso; apply Hn; left; reflexivity|].
      fold (rsum (map (fun c0 => if Z.eqb l c0 then a else 0) cs)). rewrite IH; [ring|]. intro H. apply Hn. right. exact H. }
    rewrite Z0. ring.
  - destruct Hin as [->|Hin]; [rewrite Z.eqb_refl in E; discriminate|]. rewrite (IH ND' Hin). ring.
Qed.

Lemma zsum_add (f g : Z -> R) cs : zsum (fun c => f c + g c) cs = zsum f cs + zsum g cs.
Proof. unfold zsum. induction cs as [|c cs IH]; cbn; [ring|]. fold (rsum (map (fun c0 => f c0 + g c0) cs)) (rsum (map f cs)) (rsum (map g cs)). rewrite IH. ring. Qed.

Lemma zsum_ext (f g : Z -> R) cs : (forall c, In c cs -> f c = g c) -> zsum f cs = zsum g cs.
Proof. intro H. unfold zsum. f_equal. apply map_ext_in. exact H. Qed.

Lemma zsum_zero cs : zsum (fun _ => 0) cs = 0.
Proof. unfold zsum. induction cs as [|c cs IH]; [reflexivity|]. cbn [map rsum fold_right]. fold (rsum (map (fun _ : Z => 0) cs)). rewrite IH. ring. Qed.

(* partition of a sum by labels *)
Lemma rsum_partition (cs : list Z) : NoDup cs -> forall (labels : list Z) (w : Rv), length labels = length w ->
  Forall (fun l => In l cs) labels -> rsum w = zsum (fun c => rsum (nn_mask (nn_eq_zs labels c) w)) cs.
Proof.
  intros ND. induction labels as [|l ls IH]; intros [|a w] HL HF; try discriminate.
  - rewrite (zsum_ext _ (fun _ => 0) cs) by (intros c _; reflexivity). rewrite zsum_zero. reflexivity.
  - inversion HF as [|? ? Hl HF']; subst. cbn [rsum fold_right]. fold (rsum w).
    rewrite (IH w) by (auto; cbn in HL; lia).
    rewrite <- (zsum_indicator l a cs ND Hl) at 1. rewrite <- zsum_add. apply zsum_ext. intros c Hc.
    cbn [nn_eq_zs map nn_mask]. fold (nn_eq_zs ls c). destruct (Z.eqb l c); cbn [rsum fold_right]; [reflexivity | ring].
Qed.

Lemma tgt_length mu cs : forall labels z, length (tgt mu labels z cs) = length z.
Proof. induction labels as [|l ls IH]; intros [|a z]; cbn; try reflexivity. f_equal. apply IH. Qed.

Theorem tgt_sum_zero (cs labels : list Z) (z : Rv) : NoDup cs -> length labels = length z -> Forall (fun l => In l cs) labels ->
  rsum (tgt (chunk_mean labels z) labels z cs) = 0.
Proof.
  intros ND HL HF.
  rewrite (rsum_partition cs ND labels _ (eq_sym (eq_trans (tgt_length _ _ _ _) (eq_sym HL))) HF).
  rewrite (zsum_ext _ (fun _ => 0) cs).
  - apply zsum_zero.
  - intros c Hc. assert (M: zmem c cs = true) by (unfold zmem; apply existsb_exists; exists c; split; [exact Hc | apply Z.eqb_refl]).
    rewrite (mask_tgt_member _ c cs M). unfold chunk_mean. apply rsum_centered.
Qed.

Lemma ssd_zero_sum (l : Rv) : rsum l = 0 -> ssd l = rsum (map (fun p => p ^ 2) l).
Proof.
  intro H. unfold ssd. assert (M: rmean l = 0) by (unfold rmean; rewrite H; unfold Rdiv; ring). rewrite M.
  f_equal. apply map_ext. intro p. ring.
Qed.

(* ---- the matrix loop projects onto the scalar loop ---- *)
Lemma mvmul_mask (x : Rv) : forall (mask : list bool) (A : Rm), mvmulR (nn_mask mask A) x = nn_mask mask (mvmulR A x).
Proof.
  induction mask as [|b mk IH]; intros [|r A]; cbn; try reflexivity.
  destruct b; cbn; [f_equal|]; apply IH.
Qed.

Lemma mask_wf {A} (P : A -> Prop) : forall (mask : list bool) (l : list A), Forall P l -> Forall P (nn_mask mask l).
Proof.
  induction mask as [|b mk IH]; intros [|r l] H; cbn; try constructor.
  inversion H; subst. destruct b; [constructor; auto|]; apply IH; auto.
Qed.

Lemma isub_none (v : Rv) : forall (mask : list bool) (A : Rm), nn_mask mask A = [] -> @nn_isub_rows_where ROps mask A v = A.
Proof.
  induction mask as [|b mk IH]; intros [|r A] H; cbn in *; try reflexivity.
  destruct b; [discriminate|]. f_equal. apply IH. exact H.
Qed.
Lemma sub_where_none (m : R) : forall (mask : list bool) (z : Rv), nn_mask mask z = [] -> sub_where mask z m = z.
Proof.
  induction mask as [|b mk IH]; intros [|a z] H; cbn in *; try reflexivity.
  destruct b; [discriminate|]. f_equal. apply IH. exact H.
Qed.

Lemma isub_proj d (x v : Rv) : wfvR d x -> wfvR d v -> forall (mask : list bool) (A : Rm), Forall (wfvR d) A ->
  mvmulR (@nn_isub_rows_where ROps mask A v) x = sub_where mask (mvmulR A x) (vdotR v x) /\
  Forall (wfvR d) (@nn_isub_rows_where ROps mask A v).
Proof.
  intros Hx Hv. induction mask as [|b mk IH]; intros [|r A] HA; cbn; try (split; [reflexivity | assumption]).
  inversion HA as [|? ? Hr HA']; subst. destruct (IH A HA') as [E W]. split.
  - cbn [mvmul map]. f_equal; [|exact E]. destruct b; [|reflexivity].
    apply vdot_vsub_l. unfold wfv in *. rsimp. congruence.
  - constructor; [|exact W]. destruct b; [|exact Hr]. unfold wfv in *.
    etransitivity; [apply vsub_length; transitivity d; [exact Hr | symmetry; exact Hv] | exact Hr].
Qed.

Lemma colmeans_length d (X : Rm) : X <> [] -> Forall (wfvR d) X -> length (colmeansR X) = d.
Proof. intros Hne HX. unfold colmeans. rewrite map_length, (transp_is_fuel d X Hne HX). apply transp_fuel_length; auto. Qed.

Lemma step_proj d (x : Rv) (labels : list Z) (c : Z) (A : Rm) : wfvR d x -> Forall (wfvR d) A ->
  mvmulR (@rca_center_step ROps labels A c) x = cstep labels (mvmulR A x) c /\ Forall (wfvR d) (@rca_center_step ROps labels A c).
Proof.
  intros Hx HA. unfold rca_center_step, cstep, chunk_mean, nn_mean_rows. cbv zeta.
  destruct (nn_mask (nn_eq_zs labels c) A) as [|r B] eqn:EB.
  - rewrite (isub_none _ _ _ EB). split; [|exact HA].
    rewrite sub_where_none; [reflexivity|]. rewrite <- mvmul_mask. rewrite EB. reflexivity.
  - assert (EB' : @nn_mask (list (T ROps)) (nn_eq_zs labels c) A = r :: B) by exact EB. rewrite ?EB'.
    assert (HB: Forall (wfvR d) (r :: B)) by (rewrite <- EB; apply mask_wf; exact HA).
    assert (Hne: r :: B <> []) by discriminate.
    pose proof (colmeans_length d (r :: B) Hne HB) as Lm.
    destruct (isub_proj d x (colmeansR (r :: B)) Hx Lm (nn_eq_zs labels c) A HA) as [E W]. split; [|exact W].
    rewrite E. f_equal. rewrite (colmeans_dot d (r :: B) x Hne HB Hx). rewrite <- EB, mvmul_mask. reflexivity.
Qed.

Lemma fold_proj d (x : Rv) (labels : list Z) : wfvR d x -> forall cs (A : Rm), Forall (wfvR d) A ->
  mvmulR (fold_left (@rca_center_step ROps labels) cs A) x = fold_left (cstep labels) cs (mvmulR A x).
Proof.
  intros Hx. induction cs as [|c cs IH]; intros A HA; [reflexivity|]. cbn [fold_left].
  destruct (step_proj d x labels c A Hx HA) as [E W]. rewrite (IH _ W), E. reflexivity.
Qed.

Lemma fold_wf d (labels : list Z) : forall cs (A : Rm), Forall (wfvR d) A -> Forall (wfvR d) (fold_left (@rca_center_step ROps labels) cs A).
Proof.
  induction cs as [|c cs IH]; intros A HA; [exact HA|]. cbn [fold_left]. apply IH.
  destruct A as [|r A'] eqn:EA.
  - unfold rca_center_step. destruct (nn_eq_zs labels c); cbn; constructor.
  - pose proof (Forall_inv HA) as Hr. unfold wfv in Hr.
    assert (Hx: wfvR d (@vzero ROps d)) by (unfold wfv; apply vzero_length).
    exact (proj2 (step_proj d (@vzero ROps d) labels c (r :: A') Hx HA)).
Qed.

Lemma isub_length (v : Rv) : forall (mask : list bool) (A : Rm), length (@nn_isub_rows_where ROps mask A v) = length A.
Proof. induction mask as [|b mk IHm]; intros [|r A]; cbn; try reflexivity. f_equal. apply IHm. Qed.

Lemma fold_length (labels : list Z) : forall cs (A : Rm), length (fold_left (@rca_center_step ROps labels) cs A) = length A.
Proof.
  induction cs as [|c cs IH]; intros A; [reflexivity|]. cbn [fold_left]. etransitivity; [apply IH|].
  unfold rca_center_step. apply isub_length.
Qed.

(* ---- labels and the range of the loop ---- *)
Lemma max_z_ge : forall (l : list Z) a, In a l -> (a <= nn_max_z l)%Z.
Proof.
  unfold nn_max_z. intros l. generalize (hd 0%Z l) as h. induction l as [|b l IH]; intros h a H; [contradiction|].
  cbn [fold_right]. destruct H as [->|H]; [lia|]. specialize (IH h a H). lia.
Qed.

Lemma zrange_in (n l : Z) : (0 <= l < n)%Z -> In l (nn_zrange n).
Proof. intro H. unfold nn_zrange. apply in_map_iff. exists (Z.to_nat l). split; [lia|]. apply in_seq. lia. Qed.

Lemma zrange_nodup (n : Z) : NoDup (nn_zrange n).
Proof. unfold nn_zrange. apply FinFun.Injective_map_NoDup; [intros a b H; lia | apply seq_NoDup]. Qed.

Lemma mask_in {A} : forall (mask : list bool) (l : list A) a, In a (nn_mask mask l) -> In a l.
Proof.
  induction mask as [|b mk IH]; intros [|r l] a H; cbn in *; try contradiction.
  destruct b; [destruct H as [->|H]; [left; reflexivity|]|]; right; apply IH; exact H.
Qed.

Lemma mask_ne_spec (c : Z) : forall (l : list Z) a, In a (nn_mask (nn_ne_zs l c) l) -> a <> c.
Proof.
  induction l as [|b l IH]; intros a H; cbn in *; [contradiction|].
  destruct (Z.eqb b c) eqn:E; cbn in H.
  - apply IH. exact H.
  - destruct H as [->|H]; [apply Z.eqb_neq; exact E | apply IH; exact H].
Qed.

Lemma mask_length2 {A B} : forall (mask : list bool) (l1 : list A) (l2 : list B), length l1 = length l2 ->
  length (nn_mask mask l1) = length (nn_mask mask l2).
Proof.
  induction mask as [|b mk IH]; intros [|a l1] [|c l2] H; cbn in *; try reflexivity; try discriminate.
  destruct b; cbn; [f_equal|]; apply IH; lia.
Qed.

(* ---- the theorem ---- *)
(* deviation of every projection from the mean projection of its own chunk *)
Fixpoint dev (mu : Z -> R) (labels : list Z) (z : Rv) : Rv :=
  match labels, z with
  | l :: ls, a :: z' => (a - mu l) :: dev mu ls z'
  | _, _ => z
  end.

Lemma tgt_all mu cs : forall labels z, Forall (fun l => In l cs) labels -> tgt mu labels z cs = dev mu labels z.
Proof.
  induction labels as [|l ls IH]; intros [|a z] H; cbn; try reflexivity. inversion H as [|? ? Hl H']; subst.
  assert (M: zmem l cs = true) by (unfold zmem; apply existsb_exists; exists l; split; [exact Hl | apply Z.eqb_refl]).
  rewrite M. f_equal. apply IH. exact H'.
Qed.

Theorem rca_inner_cov_is_within_chunk d (X : Rm) (chunks : list Z) (x : Rv) :
  Forall (wfvR d) X -> length chunks = length X -> wfvR d x -> Forall (fun c => (-1 <= c)%Z) chunks ->
  let mask := nn_ne_zs chunks (-1)%Z in
  let labels := nn_mask mask chunks in
  let z := mvmulR (nn_mask mask X) x in
  labels <> [] ->
  quadformR (@rca_inner_cov ROps X chunks) x =
  rsum (map (fun p => p ^ 2) (dev (chunk_mean labels z) labels z)) / INR (length labels).
Proof.
  intros HX HL Hx Hge mask labels z Hne.
  unfold rca_inner_cov, rca_chunk_mean_centering. cbn [snd]. fold mask. fold labels.
  set (K := (nn_max_z chunks + 1)%Z).
  set (Y := fold_left (@rca_center_step ROps labels) (nn_zrange K) (nn_mask mask X)).
  assert (HM: Forall (wfvR d) (nn_mask mask X)) by (apply mask_wf; exact HX).
  assert (HY: Forall (wfvR d) Y) by (apply fold_wf; exact HM).
  assert (LY: length Y = length labels).
  { unfold Y. rewrite fold_length. unfold labels. apply mask_length2. symmetry. exact HL. }
  assert (YN: Y <> []) by (intro E; rewrite E in LY; destruct labels; [apply Hne; reflexivity | discriminate]).
  assert (Lz: length labels = length z) by (unfold z; rewrite mvmul_length; unfold labels; apply mask_length2; exact HL).
  assert (InR: Forall (fun l => In l (nn_zrange K)) labels).
  { apply Forall_forall. intros l Hl. apply zrange_in. unfold K.
    pose proof (mask_ne_spec (-1)%Z chunks l Hl) as N1. pose proof (mask_in _ _ _ Hl) as Hc.
    pose proof (max_z_ge chunks l Hc) as Hm. rewrite Forall_forall in Hge. specialize (Hge l Hc). lia. }
  etransitivity; [exact (cov_quadform d 0 Y x YN HY Hx)|].
  apply f_equal2; [|rewrite Nat.sub_0_r; f_equal; exact LY].
  assert (EY: mvmulR Y x = tgt (chunk_mean labels z) labels z (nn_zrange K)).
  { unfold Y. rewrite (fold_proj d x labels Hx _ _ HM). fold z.
    rewrite <- (tgt_nil (chunk_mean labels z) labels z) at 1.
    apply (fold_cstep labels z (nn_zrange K) []). apply zrange_nodup. }
  rewrite EY. rewrite ssd_zero_sum by (apply tgt_sum_zero; [apply zrange_nodup | exact Lz | exact InR]).
  rewrite (tgt_all _ _ labels z InR). reflexivity.
Qed.
