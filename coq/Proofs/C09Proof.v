(* C09: LFDA's matrix shortcut equals the documented pairwise definition.
   For a direction u let z_i = x_i . u.  The code accumulates, per class,
        G = Xc^T diag(A 1) Xc - Xc^T A Xc,      u^T G u = sum_i (A 1)_i z_i^2 - z^T A z,
   the paper / docs define the local scatter by the pairwise sum 1/2 sum_ij A_ij (x_i - x_j)(x_i - x_j)^T,
        u^T ( . ) u = 1/2 sum_i sum_j A_ij (z_i - z_j)^2.
   They agree for every symmetric affinity A. *)
From Coq Require Import List Arith Reals Lra Psatz Lia.
From ML Require Import Ops Vec NP VecR MatR.
Import ListNotations.
Open Scope R_scope.

Definition sqv (z : Rv) : Rv := map (fun a => a * a) z.
Definition ones (n : nat) : Rv := repeat 1 n.
(* sum_j r_j (a - z_j)^2 *)
Definition rowpair (r z : Rv) (a : R) : R := @vsum ROps (@map2 R R R (fun aij zj => aij * (a - zj) * (a - zj)) r z).
(* sum_i sum_j A_ij (z_i - z_j)^2 *)
Definition pairsum (A : Rm) (z : Rv) : R := @vsum ROps (@map2 Rv R R (fun r zi => rowpair r z zi) A z).

Lemma vsumR_cons (a : R) (l : Rv) : @vsum ROps (a :: l) = a + @vsum ROps l.
Proof. reflexivity. Qed.

Lemma rowpair_expand : forall (r z : Rv) a, length r = length z ->
  rowpair r z a = a * a * @vsum ROps r - 2 * a * vdotR r z + vdotR r (sqv z).
Proof.
  unfold rowpair. induction r as [|x r IH]; intros [|y z] a H; cbn [map2 sqv map]; try discriminate.
  - cbn. rsimp. ring.
  - rewrite !vsumR_cons. rewrite IH by (cbn in H; lia). cbn [vdot]. cbn [oadd omul ROps]. unfold sqv. rsimp. ring.
Qed.

Lemma vsum_mvmul_cons (r : Rv) (A : Rm) w : @vsum ROps (mvmulR (r :: A) w) = vdotR r w + @vsum ROps (mvmulR A w).
Proof. reflexivity. Qed.

Lemma e1 zi zs r (A : Rm) : vdotR (sqv (zi :: zs)) (map (@vsum ROps) (r :: A)) =
  zi * zi * @vsum ROps r + vdotR (sqv zs) (map (@vsum ROps) A).
Proof. reflexivity. Qed.
Lemma e2 zi zs r (A : Rm) zf : vdotR (zi :: zs) (mvmulR (r :: A) zf) = zi * vdotR r zf + vdotR zs (mvmulR A zf).
Proof. reflexivity. Qed.

Lemma pairsum_expand (zf : Rv) : forall (A : Rm) (zs : Rv), length A = length zs ->
  Forall (fun r => length r = length zf) A ->
  @vsum ROps (@map2 Rv R R (fun r zi => rowpair r zf zi) A zs) =
  vdotR (sqv zs) (map (@vsum ROps) A) - 2 * vdotR zs (mvmulR A zf) + @vsum ROps (mvmulR A (sqv zf)).
Proof.
  induction A as [|r A IH]; intros [|zi zs] HL HF; try discriminate.
  - cbn. rsimp. ring.
  - inversion HF; subst. cbn [map2]. rewrite vsumR_cons, IH by (cbn in HL; auto; lia).
    rewrite rowpair_expand by auto. rewrite vsum_mvmul_cons, e1, e2. rsimp. ring.
Qed.

Lemma vsum_vdot_ones : forall (w : Rv), @vsum ROps w = vdotR (ones (length w)) w.
Proof. induction w as [|a w IH]; [reflexivity|].
  change (ones (length (a :: w))) with (1 :: ones (length w)).
  cbn [vsum vdot oadd omul ROps]. rewrite <- IH. rsimp. ring. Qed.

Lemma rowsums_mvmul_ones : forall (A : Rm) n, Forall (fun r => length r = n) A ->
  map (@vsum ROps) A = mvmulR A (ones n).
Proof.
  induction A as [|r A IH]; intros n H; cbn; auto. inversion H; subst. f_equal; [|apply IH; auto].
  rewrite vsum_vdot_ones, vdot_comm. reflexivity.
Qed.

(* the identity, for every symmetric n x n affinity *)
Theorem lfda_shortcut_eq_pairwise n (A : Rm) (z : Rv) :
  wfmR n n A -> symop n A -> wfvR n z ->
  vdotR (sqv z) (mvmulR A (ones n)) - vdotR z (mvmulR A z) = / 2 * pairsum A z.
Proof.
  intros [HA1 HA2] Hs Hz. unfold pairsum, wfv in *.
  assert (HF: Forall (fun r : Rv => length r = length z) A).
  { rewrite Forall_forall in *. intros r Hr. specialize (HA2 r Hr). rcong. }
  rewrite (pairsum_expand z A z) by (auto; rcong).
  rewrite (rowsums_mvmul_ones A n) by exact HA2.
  assert (Hsq: length (sqv z) = n) by (unfold sqv; rewrite map_length; auto).
  assert (Ho: length (ones n) = n) by (unfold ones; apply repeat_length).
  assert (E: @vsum ROps (mvmulR A (sqv z)) = vdotR (sqv z) (mvmulR A (ones n))).
  { rewrite vsum_vdot_ones. assert (EL: length (mvmulR A (sqv z)) = n) by (rewrite mvmul_length; rcong).
    rsimp. rewrite EL.
    transitivity (vdotR (mvmulR A (ones n)) (sqv z)); [symmetry; apply Hs; unfold wfv; auto | apply vdot_comm]. }
  rewrite E. rsimp. field.
Qed.
