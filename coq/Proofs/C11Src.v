(* C11, source level: the statements of itml.py's sweep loop, as translated into gen/Src_itml.v on
   every run, compute exactly the hand-written model Model/ITML.v on which the invariants are proved.

   What is generated: the two update blocks, gamma_proj, the stopping test, and the skeleton (set-up
   and post-loop statements as text).  What is written here by hand (the documented meaning of the loop
   headers, part of the trusted translator): `for i, v in enumerate(pos_vv)` / `... neg_vv` run the block
   once per constraint, in order, on that constraint's cells `_lambda[.]`, `*_bhat[.]`; `for it in
   range(max_iter)` runs the sweep and the stopping test at most max_iter times. *)
From Coq Require Import List Arith Bool Reals Lra Lia String.
From ML Require Import Ops Vec NP VecR MatR PSD LinAlg NPNum ITML C11Proof C11Conv CovProof.
From MLgen Require Import Src_itml.
Import ListNotations.
Open Scope R_scope.

Section SrcLoop.
  Context {O : Ops}.
  Notation t := (T O).
  Notation vec := (list t).
  Notation mat := (list (list t)).

  Definition pack (r : mat * t * t) : mat * @dual O :=
    let '(Am, l, b) := r in (Am, {| lam := l; bhat := b |}).
  (* one pass through the body of the positive / negative loop for constraint c *)
  Definition src_update (g : option t) (c : @cstr O) (Am : mat) (du : @dual O) : mat * @dual O :=
    pack (if cpos c then itml_pos_update g (itml_gamma_proj g) Am (cv c) (lam du) (bhat du)
          else itml_neg_update g (itml_gamma_proj g) Am (cv c) (lam du) (bhat du)).
  Fixpoint src_sweep_aux (g : option t) (cs : list (@cstr O)) (Am : mat) (ds : list (@dual O)) : mat * list (@dual O) :=
    match cs, ds with
    | c :: cs', du :: ds' =>
        let '(A1, du1) := src_update g c Am du in
        let '(A2, ds2) := src_sweep_aux g cs' A1 ds' in
        (A2, du1 :: ds2)
    | _, _ => (Am, [])
    end.
  Definition src_sweep (g : option t) (cs : list (@cstr O)) (s : @st O) : @st O :=
    let '(A1, ds1) := src_sweep_aux g cs (A s) (duals s) in {| A := A1; duals := ds1 |}.
  Fixpoint src_run (g : option t) cs (n : nat) (s : @st O) : @st O :=
    match n with 0%nat => s | S n' => src_run g cs n' (src_sweep g cs s) end.
  (* for it in range(max_iter): sweep; <stopping test>; lambdaold = _lambda.copy() *)
  Fixpoint src_run_conv (g : option t) cs (tol : t) (budget it : nat) (s : @st O) (lamold : vec) : @st O * nat :=
    match budget with
    | 0%nat => (s, pred it)
    | S b =>
        let s1 := src_sweep g cs s in
        if itml_stops tol (lams s1) lamold then (s1, it)
        else src_run_conv g cs tol b (S it) s1 (lams s1)
    end.
  Definition src_fit_loop (g : option t) cs (tol : t) (max_iter : nat) (A0 : mat) (lo hi : t) : @st O * nat :=
    let s0 := init A0 cs lo hi in src_run_conv g cs tol max_iter 0 s0 (lams s0).

  (* the stopping test of the source is the model's, on every carrier *)
  Lemma l1diff_src (a b : vec) : nn_sum_v (nn_abs_v (nn_sub_vv a b)) = l1diff a b.
  Proof.
    unfold nn_sum_v, nn_abs_v, nn_sub_vv, l1diff. f_equal.
    revert b. induction a as [|x a IH]; intros [|y b]; cbn; auto. f_equal. apply IH.
  Qed.
End SrcLoop.

(* the skeleton of _fit: which statements set the loop's state, and what is done with it afterwards *)
Lemma itml_skeleton_ok : itml_skeleton =
  [ "self.bounds_ = np.percentile(pairwise_distances(X), (5, 95))"
  ; "self.bounds_ = bounds"
  ; "self.bounds_[self.bounds_ == 0] = 1e-09"
  ; "A = _initialize_metric_mahalanobis(pairs, self.prior, self.random_state, strict_pd=True, matrix_name='prior')"
  ; "gamma = self.gamma"
  ; "pos_pairs, neg_pairs = (pairs[y == 1], pairs[y == -1])"
  ; "num_pos = len(pos_pairs)"
  ; "num_neg = len(neg_pairs)"
  ; "_lambda = np.zeros(num_pos + num_neg)"
  ; "lambdaold = np.zeros_like(_lambda)"
  ; "gamma_proj = 1.0 if gamma == np.inf else gamma / (gamma + 1.0)"
  ; "pos_bhat = np.zeros(num_pos) + self.bounds_[0]"
  ; "neg_bhat = np.zeros(num_neg) + self.bounds_[1]"
  ; "pos_vv = pos_pairs[:, 0, :] - pos_pairs[:, 1, :]"
  ; "neg_vv = neg_pairs[:, 0, :] - neg_pairs[:, 1, :]"
  ; "self.n_iter_ = it"
  ; "self.components_ = components_from_metric(A)" ]%string.
Proof. reflexivity. Qed.

Lemma itml_stops_eq (tol : R) (lam lamold : Rv) : @itml_stops ROps tol lam lamold = @stops ROps tol lamold lam.
Proof.
  unfold itml_stops, stops. rewrite l1diff_src.
  change (@nn_norm_v ROps) with (@l2norm ROps). change (@oint ROps 0) with (o0 ROps).
  destruct (oeqb ROps _ _); [reflexivity|]. destruct (oltb ROps _ _); reflexivity.
Qed.

(* v.dot(A).dot(v) = v . (A v) *)
Lemma wtw_src d (Am : Rm) (v : Rv) : wfmR d d Am -> wfvR d v ->
  @nn_dot_vv ROps (@nn_dot_vm ROps v Am) v = vdotR v (mvmulR Am v).
Proof.
  intros [HL HA] Hv. unfold nn_dot_vv, nn_dot_vm.
  destruct Am as [|r Am'].
  - cbn in HL. subst d. destruct v; [reflexivity | discriminate].
  - rewrite (transp_is_fuel d (r :: Am')) by (auto; discriminate).
    apply transp_fuel_adjoint; auto; try discriminate. unfold wfv in Hv. transitivity d; [exact Hv | symmetry; exact HL].
Qed.

Lemma src_update_eq d (g : option R) (c : cstrR) (Am : Rm) (du : dualR) :
  wfmR d d Am -> wfvR d (cv c) -> @src_update ROps g c Am du = updateR g c Am du.
Proof.
  intros HA Hv. unfold src_update, update, itml_pos_update, itml_neg_update.
  rewrite ?(wtw_src d Am (cv c) HA Hv).   (* v.dot(A).dot(v); the form v.dot(A.dot(v)) is the model's already *)
  destruct (cpos c); destruct g; reflexivity.
Qed.

Lemma src_sweep_aux_eq d (g : option R) : gamma_ok g -> forall cs (Am B : Rm) ds,
  Forall (cstr_ok d) cs -> inv_ok d Am B -> Forall dual_ok ds ->
  @src_sweep_aux ROps g cs Am ds = sweep_auxR g cs Am ds.
Proof.
  intros Hg. induction cs as [|c cs IH]; intros Am B ds Hcs Hinv Hds; [reflexivity|].
  destruct ds as [|du ds]; [reflexivity|].
  inversion Hcs as [|? ? [Hc1 Hc2] Hcs']; subst. inversion Hds as [|? ? Hdu Hds']; subst.
  cbn [src_sweep_aux sweep_aux].
  rewrite (src_update_eq d g c Am du (iA d Am B Hinv) Hc1).
  destruct (update_step d Am B g c du Hinv Hc1 Hc2 Hdu Hg) as [B1 [I1 [D1 _]]].
  destruct (updateR g c Am du) as [A1 du1]. cbn [fst snd] in *.
  rewrite (IH A1 B1 ds Hcs' I1 Hds'). reflexivity.
Qed.

Lemma src_sweep_eq d g cs B0b s : gamma_ok g -> Forall (cstr_ok d) cs -> st_ok d cs B0b s ->
  @src_sweep ROps g cs s = sweepR g cs s.
Proof.
  intros Hg Hcs [B [I [D _]]]. unfold src_sweep, sweep.
  rewrite (src_sweep_aux_eq d g Hg cs (A s) B (duals s) Hcs I D). reflexivity.
Qed.

Lemma src_run_eq d g cs B0b : gamma_ok g -> Forall (cstr_ok d) cs ->
  forall n s, st_ok d cs B0b s -> @src_run ROps g cs n s = runR g cs n s.
Proof.
  intros Hg Hcs. induction n as [|n IH]; intros s Hs; [reflexivity|].
  cbn [src_run run]. rewrite (src_sweep_eq d g cs B0b s Hg Hcs Hs).
  apply IH. apply sweep_ok; auto.
Qed.

Lemma src_run_conv_eq d g cs B0b tol : gamma_ok g -> Forall (cstr_ok d) cs ->
  forall budget it s lamold, st_ok d cs B0b s ->
  @src_run_conv ROps g cs tol budget it s lamold = @run_conv ROps g cs tol budget it s lamold.
Proof.
  intros Hg Hcs. induction budget as [|b IH]; intros it s lamold Hs; [reflexivity|].
  cbn [src_run_conv run_conv]. rewrite (src_sweep_eq d g cs B0b s Hg Hcs Hs), itml_stops_eq.
  destruct (stops tol lamold (lams (sweepR g cs s))); [reflexivity|].
  apply IH. apply sweep_ok; auto.
Qed.

(* the loop of the source, started from a symmetric positive definite prior with positive bounds, is the model's loop *)
Theorem src_fit_loop_eq d (g : option R) (cs : list cstrR) (A0 B0 : Rm) (lo hi tol : R) (max_iter : nat) :
  gamma_ok g -> Forall (cstr_ok d) cs -> inv_ok d A0 B0 -> 0 < lo -> 0 < hi ->
  @src_fit_loop ROps g cs tol max_iter A0 lo hi = @fit_loop ROps g cs tol max_iter A0 lo hi.
Proof.
  intros Hg Hcs Hinv Hlo Hhi. unfold src_fit_loop, fit_loop.
  apply (src_run_conv_eq d g cs (fun x y => vdotR y (mvmulR B0 x)) tol Hg Hcs).
  apply itml_init_ok; auto.
Qed.
