(* Text-level tie of C06: the hand-written model / harness of this property was written from exactly these versions of the
   functions below (normalised source, digests regenerated from /repo on every run in gen/Src_pins.v; the text itself is in
   /verif/pins/).  A function that changes breaks this lemma; the check then looks for a failing input and reports the
   obligation with a diff.  Rewritten by `tools/translate_pins.py --update` after a repair of /repo. *)
From Coq Require Import String List.
From MLgen Require Import Src_pins.
Import ListNotations.
Open Scope string_scope.

Lemma pins_C06_ok :
  [ pin_util__check_input
  ; pin_util__check_input_tuples
  ; pin_util__check_input_classic
  ; pin_util__check_tuple_size
  ; pin_util__check_y_valid_values_for_pairs
  ; pin_util__make_context
  ; pin_util__check_collapsed_pairs
  ; pin_util__validate_vector
  ; pin_util__check_n_components ] =
  [ "057c4922f7b098c979042814b1e70bb248a87ea296b5373566200e7f2d4837ba"   (* _util.py: check_input *)
  ; "475108776ead5e45ce2e914b6416b7f04bdae7619824b87bba9195094e8ab768"   (* _util.py: check_input_tuples *)
  ; "846e52a0888960ee1e89e1a9b375b5104c5c9ece914864ab3d979ba9bfed63ff"   (* _util.py: check_input_classic *)
  ; "39703ebe5cbb5c9d9fa4742c7f601b6cf6095b1835e0516c4bd91f43b29a0513"   (* _util.py: check_tuple_size *)
  ; "18db9b877fd433ab8893c190db6a08c0f1e0a14261fa053a92da14747156e9b6"   (* _util.py: check_y_valid_values_for_pairs *)
  ; "b00e7f6031dee6805d3541cdf9eb972fec6978606d76a06db3ab1f5c798a4113"   (* _util.py: make_context *)
  ; "805f2e611fead21a091035cfb6ca01cbd1cdebf224d620afa10501c7290b6854"   (* _util.py: check_collapsed_pairs *)
  ; "1507eaaa71aeca1f7ff142c2b3f322f1c641815d0339a2012c828002c73e3281"   (* _util.py: validate_vector *)
  ; "ce1982cfdc6c4e8c3ac8f598f037afc55d2dcde78b3473ce22d3494bd1d3b84b"   (* _util.py: _check_n_components *) ].
Proof. reflexivity. Qed.
