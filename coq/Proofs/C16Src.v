(* C16, source level: _validate_calibration_params as translated into gen/Src_calib.v on every run.  It returns (rather than raising
   ValueError) exactly for the documented options: a known strategy; for max_tpr / max_tnr a min_rate that is a number in [0, 1]
   (NaN, infinities, None and non-numbers are rejected); for f_beta a beta that is a number. *)
From Coq Require Import List Bool ZArith QArith.
From ML Require Import Calibrate CalibArgs.
From MLgen Require Import Src_calib.
Import ListNotations.

Definition rate_ok (a : pyarg) : Prop := exists q : Q, a = ANum q /\ (0 <= q)%Q /\ (q <= 1)%Q.

Lemma rate_ok_dec (a : pyarg) :
  (arg_is_none a || negb (arg_is_number a) || negb (arg_ge a 0) || negb (arg_le a 1)) = false <-> rate_ok a.
Proof.
  unfold rate_ok. destruct a as [|q| |p|]; cbn.
  - split; [discriminate | intros [q [H _]]; discriminate].
  - split.
    + intro H. apply orb_false_iff in H as [H1 H2]. apply negb_false_iff in H1, H2. apply Qle_bool_iff in H1, H2.
      exists q. split; [reflexivity|]. split; assumption.
    + intros [q' [E [H1 H2]]]. injection E as <-. apply orb_false_iff. split; apply negb_false_iff; apply Qle_bool_iff; assumption.
  - split; [discriminate | intros [q [H _]]; discriminate].
  - split; [destruct p; discriminate | intros [q [H _]]; discriminate].
  - split; [discriminate | intros [q [H _]]; discriminate].
Qed.

Lemma number_dec (b : pyarg) : (arg_is_none b || negb (arg_is_number b)) = false <-> arg_is_number b = true.
Proof. destruct b; cbn; split; intro H; try discriminate; reflexivity. Qed.

Theorem src_validate_spec (s : strategy) (min_rate beta : pyarg) :
  src_validate_calibration_params s min_rate beta = true <->
  s <> SOther /\
  ((s = SMaxTpr \/ s = SMaxTnr) -> rate_ok min_rate) /\
  (s = SFbeta -> arg_is_number beta = true).
Proof.
  unfold src_validate_calibration_params.
  pose proof (rate_ok_dec min_rate) as RD. pose proof (number_dec beta) as BD.
  destruct (arg_is_none min_rate || negb (arg_is_number min_rate) || negb (arg_ge min_rate 0) || negb (arg_le min_rate 1));
  destruct (arg_is_none beta || negb (arg_is_number beta));
  destruct s; cbn [strategy_mem existsb strategy_eqb negb andb orb];
  (split; [intro H; first [discriminate H | split; [discriminate | split; [intros [E|E]; first [discriminate E | apply RD; reflexivity] | intro E; first [discriminate E | apply BD; reflexivity]]]]
          | intros [H1 [H2 H3]]; try reflexivity;
            try (exfalso; apply H1; reflexivity);
            try (assert (X: true = false) by (apply RD; apply H2; (left; reflexivity) || (right; reflexivity)); discriminate X);
            try (assert (X: true = false) by (apply BD; apply H3; reflexivity); discriminate X)]).
Qed.
