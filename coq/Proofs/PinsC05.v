(* Text-level tie of C05: the hand-written model / harness of this property was written from exactly these versions of the
   functions below (normalised source, digests regenerated from /repo on every run in gen/Src_pins.v; the text itself is in
   /verif/pins/).  A function that changes breaks this lemma; the check then looks for a failing input and reports the
   obligation with a diff.  Rewritten by `tools/translate_pins.py --update` after a repair of /repo. *)
From Coq Require Import String List.
From MLgen Require Import Src_pins.
Import ListNotations.
Open Scope string_scope.

Lemma pins_C05_ok :
  [ pin_util__preprocess_tuples
  ; pin_util__preprocess_points
  ; pin_util__ArrayIndexer___init
  ; pin_util__ArrayIndexer___call
  ; pin_base_metric__BaseMetricLearner__check_preprocessor ] =
  [ "5d45f93c4f70be7c1b409745104b50c095dc3e8d7ab8f49d7f84c86f8de86b6f"   (* _util.py: preprocess_tuples *)
  ; "4c84b842ee240219dc24a55fde10031120f092ee08fa97c2ac76da79f73cbb8f"   (* _util.py: preprocess_points *)
  ; "aa1d197ef2e7252bdffe33547e82116d4db35ff87886aad89e17a1052691f760"   (* _util.py: ArrayIndexer.__init__ *)
  ; "a4b308f85536988f6b88ecdfb414a523f8b3f1cfa535be870a48cdf5aaa6b0d5"   (* _util.py: ArrayIndexer.__call__ *)
  ; "8380c6f42fa7998a2f0486093144f13fbe28f0e415c87ed7f78efcdbc1c4591a"   (* base_metric.py: BaseMetricLearner._check_preprocessor *) ].
Proof. reflexivity. Qed.
