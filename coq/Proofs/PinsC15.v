(* Text-level tie of C15: the hand-written model / harness of this property was written from exactly these versions of the
   functions below (normalised source, digests regenerated from /repo on every run in gen/Src_pins.v; the text itself is in
   /verif/pins/).  A function that changes breaks this lemma; the check then looks for a failing input and reports the
   obligation with a diff.  Rewritten by `tools/translate_pins.py --update` after a repair of /repo. *)
From Coq Require Import String List.
From MLgen Require Import Src_pins.
Import ListNotations.
Open Scope string_scope.

Lemma pins_C15_ok :
  [ pin_scml__BaseSCML__components_from_basis_weights
  ; pin_scml__BaseSCML__compute_dist_diff
  ; pin_scml__BaseSCML__to_index_points
  ; pin_scml__BaseSCML__initialize_basis
  ; pin_scml__BaseSCML__generate_bases_dist_diff
  ; pin_scml__SCML_Supervised__generate_bases_LDA ] =
  [ "c46fec33ace8d85563f8fc48ceeb055aa4f6587ccee109c1990ab5598fe4a723"   (* scml.py: _BaseSCML._components_from_basis_weights *)
  ; "cb3df7da90d88b5d900241eea790b4da265552fcdb8d8917220b994ae5282a6d"   (* scml.py: _BaseSCML._compute_dist_diff *)
  ; "744d04132d827f2e2e74601bbf748af3be112ae4082a0ad6ee9e89fa0b6fca19"   (* scml.py: _BaseSCML._to_index_points *)
  ; "314301b1b43592ac62524c1bb7add4f002d1000cec6c2422eb9f752709ed1e67"   (* scml.py: _BaseSCML._initialize_basis *)
  ; "20513858059a815c7dff6add021d457ae6e7c06178638be5985be9629391e8d7"   (* scml.py: _BaseSCML._generate_bases_dist_diff *)
  ; "bd351422dc660869e4b3f258a1e4f505fe7ef8eeaedbe1fdd45276c5d9516bec"   (* scml.py: SCML_Supervised._generate_bases_LDA *) ].
Proof. reflexivity. Qed.
