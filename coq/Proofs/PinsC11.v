(* Text-level tie of C11: the hand-written model / harness of this property was written from exactly these versions of the
   functions below (normalised source, digests regenerated from /repo on every run in gen/Src_pins.v; the text itself is in
   /verif/pins/).  A function that changes breaks this lemma; the check then looks for a failing input and reports the
   obligation with a diff.  Rewritten by `tools/translate_pins.py --update` after a repair of /repo. *)
From Coq Require Import String List.
From MLgen Require Import Src_pins.
Import ListNotations.
Open Scope string_scope.

Lemma pins_C11_ok :
  [ pin_itml__ITML__fit
  ; pin_itml__ITML_Supervised__fit ] =
  [ "db1c2f46284fd0e6a8dbe6c56b3d47c3538af5d895d96703fd19b59845fb1eed"   (* itml.py: ITML.fit *)
  ; "102fa31a75c03b147a563ef170638451752cfcadc756ad401bf48571db0bfcf6"   (* itml.py: ITML_Supervised.fit *) ].
Proof. reflexivity. Qed.
