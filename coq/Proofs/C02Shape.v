(* The part of C02 that concerns only transform and get_mahalanobis_matrix (used by C03 as well): shape of the
   embedding, and M = L^T L is d x d, symmetric and positive semi-definite for EVERY real k x d matrix L. *)
From Coq Require Import List ZArith Bool Reals Lra Lia.
From ML Require Import Ops Vec NP VecR MatR Mahalanobis MahalanobisR NPFacts.
From MLgen Require Import Src_query.
Import ListNotations.
Open Scope R_scope.

Notation M_src := (@Src_query.get_mahalanobis_matrix ROps).
Notation transform_src := (@Src_query.transform ROps).

Lemma C02_shape :
  forall (k d : nat) (L : Rm), wfmR k d L ->
    (forall X i, (i < length X)%nat -> nth i (transform_src L X) [] = mvmulR L (nth i X [])) /\
    (forall X, length (transform_src L X) = length X /\ Forall (wfvR k) (transform_src L X)) /\
    wfmR d d (M_src d L) /\
    (forall i j, (i < d)%nat -> (j < d)%nat ->
        nth i (nth j (M_src d L) []) 0 = nth j (nth i (M_src d L) []) 0) /\
    (forall x, wfvR d x -> 0 <= quadformR (M_src d L) x).
Proof.
  intros k d L HL. pose proof HL as [HL1 HL2].
  repeat split.
  - intros X i Hi. rewrite src_transform_eq. apply transform_rows; auto.
  - rewrite src_transform_eq. apply (transform_shape k d); auto.
  - rewrite src_transform_eq. apply (transform_shape k d); auto.
  - rewrite src_mahalanobis_eq. apply mahalanobis_wfm; auto.
  - rewrite src_mahalanobis_eq. apply mahalanobis_wfm; auto.
  - intros i j Hi Hj. rewrite src_mahalanobis_eq.
    apply (symop_entrywise d); auto.
    + apply mahalanobis_wfm; auto.
    + apply mahalanobis_sym; auto.
  - intros x Hx. rewrite src_mahalanobis_eq. apply mahalanobis_psd; auto.
Qed.
