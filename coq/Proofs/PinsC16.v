(* Text-level tie of C16: the hand-written model / harness of this property was written from exactly these versions of the
   functions below (normalised source, digests regenerated from /repo on every run in gen/Src_pins.v; the text itself is in
   /verif/pins/).  A function that changes breaks this lemma; the check then looks for a failing input and reports the
   obligation with a diff.  Rewritten by `tools/translate_pins.py --update` after a repair of /repo. *)
From Coq Require Import String List.
From MLgen Require Import Src_pins.
Import ListNotations.
Open Scope string_scope.

Lemma pins_C16_ok :
  [ pin_base_metric__PairsClassifierMixin__calibrate_threshold
  ; pin_base_metric__PairsClassifierMixin__validate_calibration_params ] =
  [ "769d78912bcd2e16fb7e880e4fa274e0d96b5a0bb9a75b57d4abdf1ea563a66c"   (* base_metric.py: _PairsClassifierMixin.calibrate_threshold *)
  ; "0b6f8c5fa607be8b24bed7cfb192cfc25c55cd61bf51b6ae86ef7cc974d13d92"   (* base_metric.py: _PairsClassifierMixin._validate_calibration_params *) ].
Proof. reflexivity. Qed.
