(* C11, second clause: a prior that already satisfies every bound is returned unchanged --
   for every number of sweeps the model's state is the initial one (A = A0, all lambda_i = 0). *)
From Coq Require Import List Arith Bool Reals Lra Psatz Lia.
From ML Require Import Ops Vec NP VecR MatR PSD LinAlg ITML C11Proof.
Import ListNotations.
Open Scope R_scope.

Lemma vadd_scale0 (r : Rv) : forall (w : Rv) a, length r = length w -> vaddR r (vscaleR a (vscaleR 0 w)) = r.
Proof.
  induction r as [|x r IH]; intros [|y w] a H; cbn in *; auto; try discriminate.
  f_equal; [rsimp; ring | apply IH; lia].
Qed.

Lemma madd_outer0 d (w : Rv) : wfvR d w -> forall (A : Rm) (u : Rv), length A = length u -> Forall (wfvR d) A ->
  maddR A (outerR u (vscaleR 0 w)) = A.
Proof.
  intros Hw. induction A as [|r A IH]; intros [|a u] HL HF; cbn in *; auto; try discriminate.
  inversion HF as [|? ? Hr HF']; subst. f_equal.
  - apply vadd_scale0. unfold wfv in *. rsimp. congruence.
  - apply IH; auto.
Qed.

(* the quadratic form the code calls wtw *)
Definition wtw (A : Rm) (c : cstrR) : R := vdotR (cv c) (mvmulR A (cv c)).
(* the bound is already met (wtw is positive because A0 is positive definite and the pair is not collapsed) *)
Definition met (A : Rm) (lo hi : R) (c : cstrR) : Prop :=
  0 < wtw A c /\ (if cpos c then wtw A c <= lo else hi <= wtw A c).

Definition d0 (c : cstrR) (lo hi : R) : dualR := @Build_dual ROps 0 (if cpos c then lo else hi).

Lemma update_fixed d (A : Rm) (g : option R) (c : cstrR) (lo hi : R) :
  gamma_ok g -> wfmR d d A -> wfvR d (cv c) -> 0 < lo -> 0 < hi -> met A lo hi c ->
  updateR g c A (d0 c lo hi) = (A, d0 c lo hi).
Proof.
  intros Hg [HA1 HA2] Hv Hlo Hhi [Hq Hm].
  pose proof (gamma_proj_range g Hg) as [Hgp _].
  unfold update, wtw, d0 in *. set (q := vdotR (cv c) (mvmulR A (cv c))) in *.
  destruct (cpos c) eqn:Ec; cbn [lam bhat].
  - set (x := @omul ROps (@gamma_proj ROps g) (@osub ROps (@inv ROps q) (@inv ROps lo))).
    assert (Hx: 0 <= x).
    { unfold x, inv. cbn [omul osub odiv o1 ROps]. apply Rmult_le_pos; [lra|].
      assert (1 / lo <= 1 / q); [|lra]. unfold Rdiv. rewrite !Rmult_1_l. apply Rinv_le_contravar; auto. }
    assert (Ea: @omin ROps 0 x = 0) by (rewrite omin_Rmin; apply Rmin_left; exact Hx).
    change (o0 ROps) with 0 in *. rsimp. rewrite Ea.
    assert (Eb: @odiv ROps 0 (@osub ROps (o1 ROps) (@omul ROps 0 q)) = 0) by (cbn; field; lra).
    rewrite Eb. f_equal.
    + apply (madd_outer0 d); auto; [unfold wfv; rewrite mvmul_length; exact HA1 | rewrite mvmul_length; reflexivity].
    + f_equal; [cbn [osub ROps]; lra|].
      unfold inv. destruct g as [gm|]; cbn [over_gamma odiv oadd o0 o1 ROps]; cbn in Hg; rsimp; field; lra.
  - set (x := @omul ROps (@gamma_proj ROps g) (@osub ROps (@inv ROps hi) (@inv ROps q))).
    assert (Hx: 0 <= x).
    { unfold x, inv. cbn [omul osub odiv o1 ROps]. apply Rmult_le_pos; [lra|].
      assert (1 / q <= 1 / hi); [|lra]. unfold Rdiv. rewrite !Rmult_1_l. apply Rinv_le_contravar; auto. }
    assert (Ea: @omin ROps 0 x = 0) by (rewrite omin_Rmin; apply Rmin_left; exact Hx).
    change (o0 ROps) with 0 in *. rsimp. rewrite Ea.
    assert (Eb: @odiv ROps (@oopp ROps 0) (@oadd ROps (o1 ROps) (@omul ROps 0 q)) = 0) by (cbn; field; lra).
    rewrite Eb. f_equal.
    + apply (madd_outer0 d); auto; [unfold wfv; rewrite mvmul_length; exact HA1 | rewrite mvmul_length; reflexivity].
    + f_equal; [cbn [osub ROps]; lra|].
      unfold inv. destruct g as [gm|]; cbn [over_gamma odiv osub o0 o1 ROps]; cbn in Hg; rsimp; field; lra.
Qed.

Definition duals0 (cs : list cstrR) (lo hi : R) : list dualR :=
  map (fun c : cstrR => d0 c lo hi) cs.

Lemma sweep_aux_fixed d (A : Rm) (g : option R) (lo hi : R) :
  gamma_ok g -> wfmR d d A -> 0 < lo -> 0 < hi ->
  forall cs, Forall (fun c => wfvR d (cv c)) cs -> Forall (met A lo hi) cs ->
  sweep_auxR g cs A (duals0 cs lo hi) = (A, duals0 cs lo hi).
Proof.
  intros Hg HA Hlo Hhi. induction cs as [|c cs IH]; intros Hw Hm; [reflexivity|].
  inversion Hw as [|? ? Hw1 Hw2]; inversion Hm as [|? ? Hm1 Hm2]; subst.
  cbn [duals0 map sweep_aux]. fold (duals0 cs lo hi).
  rewrite (update_fixed d A g c lo hi Hg HA Hw1 Hlo Hhi Hm1).
  rewrite (IH Hw2 Hm2). reflexivity.
Qed.

Theorem itml_prior_fixed d (A0 : Rm) (g : option R) (cs : list cstrR) (lo hi : R) (n : nat) :
  gamma_ok g -> wfmR d d A0 -> 0 < lo -> 0 < hi ->
  Forall (fun c => wfvR d (cv c)) cs -> Forall (met A0 lo hi) cs ->
  runR g cs n (@init ROps A0 cs lo hi) = @init ROps A0 cs lo hi.
Proof.
  intros Hg HA Hlo Hhi Hw Hm. induction n as [|n IH]; [reflexivity|].
  cbn [run]. replace (sweepR g cs (@init ROps A0 cs lo hi)) with (@init ROps A0 cs lo hi); [exact IH|].
  unfold sweep, init. cbn [A duals].
  change (map (fun c : cstrR => @Build_dual ROps (o0 ROps) (if cpos c then lo else hi)) cs) with (duals0 cs lo hi).
  rewrite (sweep_aux_fixed d A0 g lo hi Hg HA Hlo Hhi cs Hw Hm). reflexivity.
Qed.
