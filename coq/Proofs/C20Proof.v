From Coq Require Import List Arith Bool ZArith Reals Lra Lia Psatz.
From ML Require Import Ops Vec NP VecR MatR LinAlg PSDConv Mahalanobis MahalanobisR.
Import ListNotations.
Open Scope R_scope.

Notation check_sdpR := (@check_sdp ROps).

Lemma existsb_Rltb_l (w : Rv) (c : R) :
  existsb (fun a => Rltb a c) w = true <-> exists a, In a w /\ a < c.
Proof. rewrite existsb_exists. split; intros [a [H1 H2]]; exists a; split; auto; apply Rltb_true; auto. Qed.

Lemma oabs_Rabs (a : R) : @oabs ROps a = Rabs a.
Proof. unfold oabs. cbn. destruct (Rleb 0 a) eqn:E.
  - apply Rleb_true in E. rewrite Rabs_right; lra.
  - apply Rleb_false in E. rewrite Rabs_left; lra. Qed.

Lemma existsb_false_forall (f : R -> bool) (w : Rv) :
  existsb f w = false -> forall a, In a w -> f a = false.
Proof. intros H a Ha. destruct (f a) eqn:E; auto.
  assert (existsb f w = true) by (apply existsb_exists; eauto). congruence. Qed.

(* _check_sdp_from_eigen, exactly as written *)
Theorem sdp_check_spec (w : Rv) (tol : R) :
  (check_sdpR w tol = SdpValueError <-> tol < 0) /\
  (0 <= tol -> (check_sdpR w tol = SdpNonPSD <-> exists a, In a w /\ a < - tol)) /\
  (0 <= tol -> (check_sdpR w tol = SdpNotDefinite <->
                (forall a, In a w -> - tol <= a) /\ exists a, In a w /\ Rabs a <= tol)) /\
  (0 <= tol -> (check_sdpR w tol = SdpDefinite <->
                forall a, In a w -> - tol <= a /\ tol < Rabs a)).
Proof.
  unfold check_sdp. cbn [oltb oleb oopp o0 ROps].
  set (f1 := fun a : R => Rltb a (- tol)). set (f2 := fun a : R => Rleb (@oabs ROps a) tol).
  change (existsb (fun a : T ROps => Rltb a (- tol)) w) with (existsb f1 w).
  change (existsb (fun a : T ROps => Rleb (oabs ROps a) tol) w) with (existsb f2 w).
  assert (P1: existsb f1 w = true -> exists a, In a w /\ a < - tol).
  { intro H. apply existsb_exists in H as [a [H1 H2]]. exists a. split; auto. apply Rltb_true; auto. }
  assert (N1: existsb f1 w = false -> forall a, In a w -> - tol <= a).
  { intros H a Ha. apply (existsb_false_forall f1 w H) in Ha. apply Rltb_false in Ha. auto. }
  assert (P2: existsb f2 w = true -> exists a, In a w /\ Rabs a <= tol).
  { intro H. apply existsb_exists in H as [a [H1 H2]]. exists a. split; auto. apply Rleb_true in H2.
    rewrite oabs_Rabs in H2. auto. }
  assert (N2: existsb f2 w = false -> forall a, In a w -> tol < Rabs a).
  { intros H a Ha. apply (existsb_false_forall f2 w H) in Ha. apply Rleb_false in Ha. rewrite oabs_Rabs in Ha. auto. }
  destruct (Rltb tol 0) eqn:Et; [apply Rltb_true in Et | apply Rltb_false in Et];
  destruct (existsb f1 w) eqn:E1; destruct (existsb f2 w) eqn:E2;
  try (specialize (P1 eq_refl)); try (specialize (N1 eq_refl)); try (specialize (P2 eq_refl)); try (specialize (N2 eq_refl));
  (split; [split; [intro H; try discriminate; auto | intro H; try reflexivity; exfalso; lra]|]);
  (split; [intro Ht; split; [intro H; try discriminate; try (exfalso; lra); auto
                            | intro H; try reflexivity; exfalso; try lra;
                              try (destruct H as [a [Ha1 Ha2]]; specialize (N1 a Ha1); lra)]|]);
  (split; [intro Ht; split; [intro H; try discriminate; try (exfalso; lra); auto
                            | intro H; try reflexivity; exfalso; try lra;
                              try (destruct H as [Hn [a [Ha1 Ha2]]];
                                   try (destruct P1 as [b [Hb1 Hb2]]; specialize (Hn b Hb1); lra);
                                   try (specialize (N2 a Ha1); lra))]
          | intro Ht; split; [intro H; try discriminate; try (exfalso; lra); auto
                            | intro H; try reflexivity; exfalso; try lra;
                              try (destruct P1 as [b [Hb1 Hb2]]; destruct (H b Hb1); lra);
                              try (destruct P2 as [b [Hb1 Hb2]]; destruct (H b Hb1); lra)]]).
Qed.

Lemma omax_Rmax (a b : R) : @omax ROps a b = Rmax a b.
Proof. unfold omax. cbn. destruct (Rleb a b) eqn:E.
  - apply Rleb_true in E. rewrite Rmax_right; auto.
  - apply Rleb_false in E. rewrite Rmax_left; lra. Qed.

(* diagonal branch: the square of each returned entry is max(0, m_ii) (= m_ii when m_ii >= 0) *)
Theorem cfm_diag_sq (m : Rv) i : (i < length m)%nat ->
  (nth i (@cfm_diag ROps m) 0)^2 = Rmax 0 (nth i m 0).
Proof.
  intro H. unfold cfm_diag. rewrite (nth_indep _ 0 (sqrt (@omax ROps 0 0))) by (rewrite map_length; auto).
  rewrite (map_nth (fun a => sqrt (@omax ROps 0 a))). rewrite omax_Rmax. cbn [pow]. rewrite Rmult_1_r.
  apply sqrt_sqrt. apply Rmax_l.
Qed.

(* eigen branch: L = V^T * sqrt(max(0,w)) gives |L x|^2 = sum_k max(0,w_k) (v_k . x)^2, i.e.
   L^T L = V diag(max(0,w)) V^T, for ANY V and w *)
Lemma cfm_eigen_cons (wk : R) (w : Rv) (v : Rv) (V : Rm) :
  @cfm_eigen ROps (wk :: w) (v :: V) = vscaleR (sqrt (Rmax 0 wk)) v :: @cfm_eigen ROps w V.
Proof. unfold cfm_eigen. cbn [map2]. rewrite omax_Rmax. reflexivity. Qed.

Theorem cfm_eigen_form : forall (w : Rv) (V : Rm) x,
  vsumsqR (mvmulR (@cfm_eigen ROps w V) x) = wsq (map (Rmax 0) w) V x.
Proof.
  induction w as [|wk w IH]; intros [|v V] x; try reflexivity.
  rewrite cfm_eigen_cons, vsumsq_mvmul_cons, IH. cbn [map wsq].
  rewrite vdot_vscale_l.
  replace ((sqrt (Rmax 0 wk) * vdotR v x)^2) with ((sqrt (Rmax 0 wk) * sqrt (Rmax 0 wk)) * (vdotR v x)^2) by (rsimp; ring).
  rewrite sqrt_sqrt by apply Rmax_l. reflexivity.
Qed.

(* with w >= 0 that is exactly V diag(w) V^T, so if M = V diag(w) V^T then L^T L = M *)
Corollary cfm_eigen_psd d (w : Rv) (V : Rm) x : Forall (wfvR d) V -> wfvR d x ->
  Forall (fun a => 0 <= a) w ->
  vsumsqR (mvmulR (@cfm_eigen ROps w V) x) = quadformR (wgramR d w V) x.
Proof.
  intros HV Hx Hw. rewrite cfm_eigen_form, quadform_wgram by auto.
  f_equal. clear - Hw. induction w as [|a w IH]; cbn; auto. inversion Hw; subst.
  rewrite Rmax_right by auto. f_equal. apply IH; auto.
Qed.

(* _auto_select_init, exhaustive case analysis *)
Theorem auto_select_rule has_classes d n nc ncls :
  (auto_select_init has_classes d n nc ncls = InitLda <->
     has_classes = true /\ (Z.of_nat nc <= Z.min (Z.of_nat d) (ncls - 1))%Z) /\
  (auto_select_init has_classes d n nc ncls = InitPca <->
     ~ (has_classes = true /\ (Z.of_nat nc <= Z.min (Z.of_nat d) (ncls - 1))%Z) /\ (nc < Nat.min d n)%nat) /\
  (auto_select_init has_classes d n nc ncls = InitIdentity <->
     ~ (has_classes = true /\ (Z.of_nat nc <= Z.min (Z.of_nat d) (ncls - 1))%Z) /\ (Nat.min d n <= nc)%nat).
Proof.
  unfold auto_select_init.
  destruct has_classes; cbn [andb].
  - destruct (Z.of_nat nc <=? Z.min (Z.of_nat d) (ncls - 1))%Z eqn:E1.
    + apply Z.leb_le in E1. repeat split; try tauto; try discriminate; intros [H _]; exfalso; apply H; auto.
    + apply Z.leb_gt in E1. destruct (nc <? Nat.min d n) eqn:E2.
      * apply Nat.ltb_lt in E2. repeat split; try discriminate; try tauto; try lia; intros [_ H]; lia.
      * apply Nat.ltb_ge in E2. repeat split; try discriminate; try tauto; try lia; intros [_ H]; lia.
  - destruct (nc <? Nat.min d n) eqn:E2.
    + apply Nat.ltb_lt in E2. repeat split; try discriminate; try tauto; try lia; intros [H1 H2]; try discriminate; lia.
    + apply Nat.ltb_ge in E2. repeat split; try discriminate; try tauto; try lia; intros [H1 H2]; try discriminate; lia.
Qed.
