From Coq Require Import List Arith Bool Reals Lra Psatz Lia.
From ML Require Import Ops Vec NP VecR MatR LinAlg MMC C20Proof.
Import ListNotations.
Open Scope R_scope.

Section Outer.
  Variable M : Type.
  Variable project : M -> M * bool.
  Variable better : M -> M -> bool.
  Variables step_from retry_from : M -> nat -> M.
  Notation cycleM := (cycle M project better step_from retry_from).
  Notation cyclesM := (cycles M project better step_from retry_from).

  (* an iterate that the projection loop declared feasible *)
  Definition accepted (A_init X : M) : Prop := X = A_init \/ exists Y, project Y = (X, true).

  Lemma cycle_kept A_init c s : accepted A_init (kept M s) -> accepted A_init (kept M (cycleM c s)).
  Proof.
    intro H. unfold cycle. destruct (project (cur M s)) as [A1 sat] eqn:E.
    destruct (sat && (better A1 (kept M s) || Nat.eqb c 0)) eqn:Ec; cbn; auto.
    apply andb_true_iff in Ec as [Es _]. subst sat. right. exists (cur M s). exact E.
  Qed.

  Lemma cycles_kept A_init : forall n c s, accepted A_init (kept M s) -> accepted A_init (kept M (cyclesM c n s)).
  Proof. induction n as [|n IH]; intros c s H; cbn; auto. apply IH. apply cycle_kept; auto. Qed.

  (* whatever the number of cycles: fit returns the initial matrix or a projected, feasible iterate *)
  Theorem mmc_result_cases A_init n :
    accepted A_init (mmc_result M project better step_from retry_from A_init n).
  Proof. unfold mmc_result. apply cycles_kept. left. reflexivity. Qed.

  (* if the very first projection converges, the result is a projected feasible iterate *)
  Theorem mmc_first_cycle A_init n : snd (project A_init) = true -> (0 < n)%nat ->
    exists Y, project Y = (mmc_result M project better step_from retry_from A_init n, true).
  Proof.
    intros H0 Hn. destruct n as [|n]; [lia|]. unfold mmc_result. cbn [cycles].
    assert (K: exists Y, project Y = (kept M (cycleM 0 {| cur := A_init; kept := A_init |}), true)).
    { unfold cycle. cbn [cur kept]. destruct (project A_init) as [A1 sat] eqn:E. cbn in H0. subst sat.
      rewrite orb_true_r. cbn. exists A_init. exact E. }
    clear H0 Hn. revert K. generalize (cycleM 0 {| cur := A_init; kept := A_init |}). generalize 1%nat.
    induction n as [|n IH]; intros c s K; cbn; auto.
    apply IH. destruct K as [Y HY]. unfold cycle. destruct (project (cur M s)) as [A1 sat] eqn:E.
    destruct (sat && (better A1 (kept M s) || Nat.eqb c 0)) eqn:Ec; cbn.
    - apply andb_true_iff in Ec as [Es _]. subst sat. exists (cur M s). exact E.
    - exists Y. exact HY.
  Qed.
End Outer.

(* the PSD projection step yields a PSD matrix for ANY eigen-decomposition oracle output *)
Theorem clip_form_psd d (l : Rv) (V : Rm) : Forall (wfvR d) V -> PSDop d (@clip_form ROps d l V).
Proof.
  intro HV. unfold clip_form. apply wgram_psd; auto.
  apply Forall_forall. intros a Ha. apply in_map_iff in Ha as [b [<- _]]. rewrite omax_Rmax. apply Rmax_l.
Qed.

(* the diagonal variant only ever produces non-negative weights *)
Theorem diag_step_nonneg (w step : Rv) lambd : Forall (fun a => 0 <= a) (@diag_step ROps w step lambd).
Proof.
  unfold diag_step. revert step. induction w as [|a w IH]; intros [|s step]; cbn [map2]; constructor; auto.
  rewrite omax_Rmax. apply Rmax_l.
Qed.

(* budget = sum of squared learned distances over the similar pairs, for M = L^T L *)
Lemma fS_nonneg_psd d (A : Rm) vs : PSDop d A -> Forall (wfvR d) vs -> 0 <= @fS ROps A vs.
Proof.
  intros HP Hv. unfold fS. induction vs as [|v vs IH]; cbn; [lra|].
  inversion Hv; subst. specialize (IH H2). pose proof (HP v H1). cbn in *. rsimp. lra.
Qed.
