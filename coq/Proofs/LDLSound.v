(* Soundness of the exact LDL^T positive-definiteness test (Base/LinAlg.ldl_fuel) over R:
   if the successive Schur complements of a SYMMETRIC n x n matrix all have a positive pivot, the
   matrix is positive definite -- by the sum-of-squares identity
       x^T M x = d (x_0 + (r'.x')/d)^2 + x'^T S x'.
   A bug in the factorisation code can therefore only make the checker say "no". *)
From Coq Require Import List Arith Bool Reals Lra Psatz Lia.
From ML Require Import Ops Vec NP VecR MatR PSD LinAlg.
Import ListNotations.
Open Scope R_scope.

Notation ldlR := (@ldl_fuel ROps).
Notation hd0R := (@hd0 ROps).

Definition schur (d : R) (r' : Rv) (rest : Rm) : Rm :=
  map (fun ri => vsubR (tl ri) (vscaleR (hd0R ri) (map (fun a => a / d) r'))) rest.

(* linearity helpers on sums over rows *)
Lemma vdot_map_add (x : Rv) : forall (l : Rm) (f g : Rv -> R),
  vdotR x (map (fun r => f r + g r) l) = vdotR x (map f l) + vdotR x (map g l).
Proof. induction x as [|a x IH]; intros [|r l] f g; cbn; try lra. rewrite IH. rsimp. ring. Qed.
Lemma vdot_map_scale (x : Rv) (c : R) : forall (l : Rm) (f : Rv -> R),
  vdotR x (map (fun r => f r * c) l) = c * vdotR x (map f l).
Proof. induction x as [|a x IH]; intros [|r l] f; cbn; try lra. rewrite IH. rsimp. ring. Qed.
Lemma vdot_map_div (r' x : Rv) (d : R) : d <> 0 -> vdotR (map (fun a => a / d) r') x = vdotR r' x / d.
Proof. intro Hd. revert x. induction r' as [|a r' IH]; intros [|b x]; cbn; try (field; auto).
  rewrite IH. rsimp. field. auto. Qed.

(* rows of the form c_i :: s_i *)
Definition rows_ok (n : nat) (rest : Rm) : Prop := Forall (fun ri => length ri = S n) rest.

Lemma row_split n ri : length ri = S n -> ri = hd0R ri :: tl ri /\ length (tl ri) = n.
Proof. destruct ri as [|c s]; cbn; intro H; [discriminate|]. split; auto. Qed.

(* (1): x^T M x with M = (d :: r') :: rest and x = x0 :: x' *)
Lemma qf_cons n (d x0 : R) (r' x' : Rv) (rest : Rm) : rows_ok n rest ->
  qf ((d :: r') :: rest) (x0 :: x') =
  d * x0 * x0 + x0 * vdotR r' x' + x0 * vdotR x' (map hd0R rest) + qf (map (@tl R) rest) x'.
Proof.
  intro Hr. unfold qf.
  assert (E: mvmulR rest (x0 :: x') = map (fun ri => hd0R ri * x0 + vdotR (tl ri) x') rest).
  { unfold mvmul. apply map_ext_in. intros ri Hi. unfold rows_ok in Hr; rewrite Forall_forall in Hr.
    destruct (row_split n ri (Hr ri Hi)) as [E _]. rewrite E at 1. cbn. reflexivity. }
  change (mvmulR ((d :: r') :: rest) (x0 :: x')) with (vdotR (d :: r') (x0 :: x') :: mvmulR rest (x0 :: x')).
  rewrite E. cbn [vdot]. cbn [oadd omul ROps]. rsimp.
  rewrite (vdot_map_add x' rest (fun ri => hd0R ri * x0) (fun ri => vdotR (tl ri) x')).
  rewrite (vdot_map_scale x' x0 rest hd0R).
  unfold mvmul. rewrite map_map. rsimp. ring.
Qed.

(* (2): x'^T S x' *)
Lemma qf_schur n (d : R) (r' x' : Rv) (rest : Rm) : d <> 0 -> rows_ok n rest -> length r' = n -> length x' = n ->
  qf (schur d r' rest) x' = qf (map (@tl R) rest) x' - vdotR x' (map hd0R rest) * (vdotR r' x' / d).
Proof.
  intros Hd Hr Hl Hx. unfold qf, schur.
  assert (E: mvmulR (map (fun ri => vsubR (tl ri) (vscaleR (hd0R ri) (map (fun a => a / d) r'))) rest) x' =
             map (fun ri => vdotR (tl ri) x' + (- (vdotR r' x' / d)) * hd0R ri) rest).
  { unfold mvmul. rewrite map_map. apply map_ext_in. intros ri Hi. unfold rows_ok in Hr; rewrite Forall_forall in Hr.
    destruct (row_split n ri (Hr ri Hi)) as [_ Ht].
    rewrite vdot_vsub_l by (rewrite vscale_length, map_length; rcong).
    rewrite vdot_vscale_l, vdot_map_div by auto. rsimp. ring. }
  rewrite E. rsimp.
  rewrite (vdot_map_add x' rest (fun ri => vdotR (tl ri) x') (fun ri => - (vdotR r' x' / d) * hd0R ri)).
  replace (map (fun ri : Rv => - (vdotR r' x' / d) * hd0R ri) rest)
    with (map (fun ri : Rv => hd0R ri * (- (vdotR r' x' / d))) rest)
    by (apply map_ext; intro; rsimp; ring).
  rewrite (vdot_map_scale x' (- (vdotR r' x' / d)) rest hd0R).
  unfold mvmul. rewrite map_map. rsimp. ring.
Qed.

(* entrywise symmetry *)
Definition ment (M : Rm) (i j : nat) : R := nth j (nth i M []) 0.
Definition symm (n : nat) (M : Rm) : Prop := forall i j, (i < n)%nat -> (j < n)%nat -> ment M i j = ment M j i.

Lemma nth_vsub : forall (a b : Rv) j, length a = length b -> nth j (vsubR a b) 0 = nth j a 0 - nth j b 0.
Proof. induction a as [|x a IH]; intros [|y b] j H; try discriminate; destruct j; cbn; try lra; auto. Qed.
Lemma nth_vscale (c : R) : forall (a : Rv) j, nth j (vscaleR c a) 0 = c * nth j a 0.
Proof. induction a as [|x a IH]; intros [|j]; cbn; try lra; auto. Qed.
Lemma nth_map_div (d : R) : forall (a : Rv) j, nth j (map (fun x => x / d) a) 0 = nth j a 0 / d.
Proof. induction a as [|x a IH]; intros [|j]; cbn; try (unfold Rdiv; lra); auto. Qed.
Lemma nth_tl {A} (l : list A) j (d : A) : nth j (tl l) d = nth (S j) l d.
Proof. destruct l; cbn; auto. destruct j; auto. Qed.

(* the first column equals the first row, and the Schur complement is again symmetric *)
Lemma symm_col n (d : R) (r' : Rv) (rest : Rm) : length r' = n -> length rest = n ->
  symm (S n) ((d :: r') :: rest) -> map hd0R rest = r'.
Proof.
  intros Hl Hn Hs. apply (nth_ext _ _ 0 0); [rewrite map_length; rcong|].
  intros i Hi. rewrite map_length in Hi.
  rewrite (nth_indep _ 0 (hd0R [])) by (rewrite map_length; auto). rewrite map_nth.
  assert (Hi2: (S i < S n)%nat) by (rsimp; lia).
  specialize (Hs (S i) 0%nat Hi2 ltac:(lia)). unfold ment in Hs.
  change (nth (S i) ((d :: r') :: rest) []) with (nth i rest []) in Hs.
  change (nth 0 ((d :: r') :: rest) []) with (d :: r') in Hs.
  change (nth (S i) (d :: r') 0) with (nth i r' 0) in Hs.
  rewrite <- Hs. rsimp. destruct (nth i rest []); reflexivity.
Qed.

Lemma symm_schur n (d : R) (r' : Rv) (rest : Rm) : d <> 0 -> length r' = n -> length rest = n -> rows_ok n rest ->
  symm (S n) ((d :: r') :: rest) -> symm n (schur d r' rest).
Proof.
  intros Hd Hl Hn Hr Hs i j Hi Hj.
  assert (Hc: map hd0R rest = r') by (apply (symm_col n d r' rest); auto).
  assert (Ent: forall a b, (a < n)%nat -> (b < n)%nat ->
     ment (schur d r' rest) a b = ment ((d :: r') :: rest) (S a) (S b) - nth a r' 0 * (nth b r' 0 / d)).
  { intros a b Ha Hb. unfold ment, schur.
    rewrite (nth_indep _ [] ((fun ri => vsubR (tl ri) (vscaleR (hd0R ri) (map (fun x => x / d) r'))) [])) by (rewrite map_length; rsimp; lia).
    rsimp. rewrite (map_nth (fun ri : Rv => vsubR (tl ri) (vscaleR (hd0R ri) (map (fun x : R => x / d) r')))). cbn [nth].
    assert (Hra: length (nth a rest []) = S n) by (unfold rows_ok in Hr; rewrite Forall_forall in Hr; apply Hr; apply nth_In; rsimp; lia).
    destruct (row_split n _ Hra) as [_ Ht].
    rewrite nth_vsub by (rewrite vscale_length, map_length; rcong).
    rewrite nth_vscale, nth_map_div, nth_tl.
    assert (Hh: hd0R (nth a rest []) = nth a r' 0).
    { rewrite <- Hc. rewrite (nth_indep _ 0 (hd0R [])) by (rewrite map_length; rsimp; lia). rewrite map_nth. reflexivity. }
    rewrite Hh. reflexivity. }
  rewrite !Ent by auto. rewrite (Hs (S i) (S j)) by lia. rsimp. field. auto.
Qed.

Lemma schur_wfm n (d : R) (r' : Rv) (rest : Rm) : length r' = n -> length rest = n -> rows_ok n rest ->
  wfmR n n (schur d r' rest).
Proof.
  intros Hl Hn Hr. split; [unfold schur; rewrite map_length; auto|].
  unfold schur. apply Forall_forall. intros s Hs. apply in_map_iff in Hs as [ri [<- Hi]].
  unfold rows_ok in Hr; rewrite Forall_forall in Hr. destruct (row_split n ri (Hr ri Hi)) as [_ Ht].
  unfold wfv. rewrite vsub_length; [auto|]. rewrite vscale_length, map_length. rcong.
Qed.

(* the code's Schur complement is [schur] *)
Lemma ldl_step (f : nat) (d : R) (r' : Rv) (rest : Rm) : 0 < d ->
  ldlR (S f) ((d :: r') :: rest) =
  match ldlR f (schur d r' rest) with
  | Some l => Some ((map (fun a => a / d) (d :: r'), d) :: l)
  | None => None
  end.
Proof.
  intro Hd. cbn [ldl_fuel hd0]. cbn [oltb o0 ROps].
  assert (E: Rltb 0 d = true) by (apply Rltb_true; auto). rewrite E. reflexivity.
Qed.

Theorem ldl_pd_sound : forall n (M : Rm) l, wfmR n n M -> symm n M -> ldlR (S n) M = Some l -> PDop n M.
Proof.
  induction n as [|n IH]; intros M l [HM1 HM2] Hs Hl.
  - intros x Hx Hp. destruct x; [|discriminate]. unfold vsumsq in Hp. cbn in Hp. lra.
  - destruct M as [|r rest]; [discriminate|]. inversion HM2 as [|? ? Hr Hrest]; subst.
    destruct r as [|d r']; [discriminate|].
    assert (Lr: length r' = n) by (unfold wfv in Hr; cbn in Hr; rsimp; lia).
    assert (Ln: length rest = n) by (cbn in HM1; rsimp; lia).
    assert (Rk: rows_ok n rest) by (unfold rows_ok; rewrite Forall_forall in *; intros ri Hi; apply (Hrest ri Hi)).
    (* the pivot is positive, otherwise the factorisation stops *)
    assert (Hd: 0 < d).
    { cbn [ldl_fuel hd0 oltb o0 ROps] in Hl. destruct (Rltb 0 d) eqn:E; [apply Rltb_true; auto | discriminate]. }
    rewrite ldl_step in Hl by auto.
    destruct (ldlR (S n) (schur d r' rest)) as [l'|] eqn:El; [|discriminate].
    assert (HS: PDop n (schur d r' rest)).
    { apply (IH _ l'); auto; [apply schur_wfm; auto | apply symm_schur; auto; lra]. }
    assert (Hc: map hd0R rest = r') by (apply (symm_col n d r' rest); auto).
    intros x Hx Hp. destruct x as [|x0 x']; [discriminate|].
    assert (Lx: length x' = n) by (unfold wfv in Hx; cbn in Hx; rsimp; lia).
    rewrite (qf_cons n) by auto. rewrite Hc.
    pose proof (qf_schur n d r' x' rest ltac:(lra) Rk Lr Lx) as Q. rewrite Hc in Q.
    rewrite (vdot_comm x' r') in *.
    set (b := vdotR r' x') in *. set (q := qf (map (@tl R) rest) x') in *. set (qs := qf (schur d r' rest) x') in *.
    assert (Eid: d * x0 * x0 + x0 * b + x0 * b + q = d * (x0 + b / d) * (x0 + b / d) + qs).
    { rewrite Q. field. lra. }
    rewrite Eid.
    destruct (vsumsq_pos_or_zero x') as [Px|Zx].
    + pose proof (HS x' Lx Px) as Pq. fold qs in Pq. clearbody b q qs.
      assert (0 <= d * (x0 + b / d) * (x0 + b / d)) by (pose proof (Rle_0_sqr (x0 + b / d)); unfold Rsqr in *; nra).
      lra.
    + (* x' = 0: then b = 0, qs = 0 and x0 <> 0 *)
      pose proof (vsumsq_zero_all x' Zx) as Zall.
      assert (Zd: forall (u : Rv), vdotR u x' = 0).
      { intro u. clear - Zall. revert u. induction x' as [|a x' IHx]; intros [|c u]; cbn; auto.
        inversion Zall; subst. rewrite IHx by auto. rsimp. ring. }
      assert (b = 0) by (unfold b; apply Zd).
      assert (qs = 0).
      { unfold qs, qf. rewrite vdot_comm. apply Zd. }
      assert (Hx0: 0 < x0 * x0).
      { unfold vsumsq in Hp, Zx. cbn in Hp. unfold vsumsq in *. rsimp. nra. }
      clearbody b q qs. rewrite H, H0. rsimp. replace (x0 + 0 / d) with x0 by (field; lra). nra.
Qed.
