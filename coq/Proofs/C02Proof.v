From Coq Require Import List ZArith Bool Reals Lra Lia.
From ML Require Import Ops Vec NP VecR MatR Mahalanobis MahalanobisR NPFacts C01Proof C02Shape.
From MLgen Require Import Src_query.
Import ListNotations.
Open Scope R_scope.

Notation metric_src := (@Src_query.metric_fun ROps).

Lemma C02_proof :
  forall (k d : nat) (L : Rm), wfmR k d L ->
    (* squared distance = quadratic form of M = get_mahalanobis_matrix() *)
    (forall x x', wfvR d x -> wfvR d x' ->
        (d_src L x x')^2 = quadformR (M_src d L) (vsubR x' x)) /\
    (* distance = Euclidean distance between the transformed points *)
    (forall x x', wfvR d x -> wfvR d x' ->
        d_src L x x' = @euclid ROps (nth 0 (transform_src L [x]) []) (nth 0 (transform_src L [x']) [])) /\
    (* get_metric, plain and squared *)
    (forall u v, metric_src L u v false = d_src L u v) /\
    (forall u v, wfvR d u -> wfvR d v -> metric_src L u v true = quadformR (M_src d L) (vsubR u v)) /\
    (forall u v, metric_src L u v true = (metric_src L u v false)^2) /\
    (* transform is X -> X L^T: row i is L x_i, shape (n, k) *)
    (forall X i, (i < length X)%nat -> nth i (transform_src L X) [] = mvmulR L (nth i X [])) /\
    (forall X, length (transform_src L X) = length X /\ Forall (wfvR k) (transform_src L X)) /\
    (* M is d x d, symmetric (entrywise and as an operator) and positive semi-definite *)
    wfmR d d (M_src d L) /\
    (forall i j, (i < d)%nat -> (j < d)%nat ->
        nth i (nth j (M_src d L) []) 0 = nth j (nth i (M_src d L) []) 0) /\
    (forall x, wfvR d x -> 0 <= quadformR (M_src d L) x) /\
    (* deprecated score_pairs is pair_distance *)
    (forall P, @Src_query.score_pairs ROps L P = @Src_query.pair_distance ROps L P).
Proof.
  intros k d L HL. pose proof HL as [HL1 HL2].
  repeat split.
  - intros x x' Hx Hx'. rewrite d_src_dist, src_mahalanobis_eq.
    rewrite <- (sqdist_quadform k d L x x' HL Hx Hx').
    unfold dist. cbn [pow]. rewrite Rmult_1_r. apply sqrt_sqrt, sqdist_nonneg.
  - intros x x' Hx Hx'. rewrite d_src_dist. cbn [Src_query.transform np_dotT_mm map nth].
    apply (dist_embedding d L); auto.
  - intros. rewrite src_metric_fun_eq, metric_fun_eq_dist, d_src_dist. apply dist_sym.
  - intros u v Hu Hv. rewrite src_metric_fun_eq, metric_fun_sq_eq, src_mahalanobis_eq.
    apply (sqdist_quadform k d); auto.
  - intros. rewrite !src_metric_fun_eq. apply metric_fun_squared.
  - apply (C02_shape k d L HL).
  - apply (C02_shape k d L HL).
  - apply (C02_shape k d L HL).
  - apply (C02_shape k d L HL).
  - apply (C02_shape k d L HL).
  - apply (C02_shape k d L HL).
  - apply (C02_shape k d L HL).
Qed.
