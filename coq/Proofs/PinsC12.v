(* Text-level tie of C12: the hand-written model / harness of this property was written from exactly these versions of the
   functions below (normalised source, digests regenerated from /repo on every run in gen/Src_pins.v; the text itself is in
   /verif/pins/).  A function that changes breaks this lemma; the check then looks for a failing input and reports the
   obligation with a diff.  Rewritten by `tools/translate_pins.py --update` after a repair of /repo. *)
From Coq Require Import String List.
From MLgen Require Import Src_pins.
Import ListNotations.
Open Scope string_scope.

Lemma pins_C12_ok :
  [ pin_lsml__LSML__fit
  ; pin_lsml__LSML_Supervised__fit ] =
  [ "d7a9126a7cc971b9856feda4f988d5f2f095697d4b60cc40c727550a911d6ada"   (* lsml.py: LSML.fit *)
  ; "df5a1c8cacc9f2496a7959f0e1bfa07adbfe344aa3ff517efe2384acdffe5d5b"   (* lsml.py: LSML_Supervised.fit *) ].
Proof. reflexivity. Qed.
