(* C20, source level: _check_sdp_from_eigen and the two explicit branches of components_from_metric (_util.py), as translated
   into gen/Src_psd.v on every run, are the model's (Model/PSDConv.v), on which the C20 theorems are proved. *)
From Coq Require Import List Arith Bool Reals Lra Lia ZArith.
From ML Require Import Ops Vec NP VecR MatR LinAlg NPNum PSDConv C20Proof.
From MLgen Require Import Src_psd.
Import ListNotations.
Open Scope R_scope.

Lemma existsb_id_map {A} (p : A -> bool) (l : list A) : existsb (fun b => b) (map p l) = existsb p l.
Proof. induction l as [|a l IH]; cbn; auto. rewrite IH. reflexivity. Qed.

Lemma src_default_tol_eq (eps : R) (w : Rv) : @src_default_tol ROps eps w = @default_tol ROps eps w.
Proof.
  unfold src_default_tol, default_tol, ofnat. f_equal. f_equal.
  unfold nn_max_v, nn_abs_v, vmaxabs. induction w as [|a w IH]; [reflexivity|]. cbn [map fold_right]. f_equal. exact IH.
Qed.

Lemma check_core (w : Rv) (tol : R) :
  (if oltb ROps tol (@oint ROps 0) then SdpValueError else
   if @nn_any (@nn_lt_vs ROps w (oopp ROps tol)) then SdpNonPSD else
   if @nn_any (@nn_le_vs ROps (@nn_abs_v ROps w) tol) then SdpNotDefinite else SdpDefinite) = @check_sdp ROps w tol.
Proof.
  unfold check_sdp, nn_any, nn_lt_vs, nn_le_vs, nn_abs_v. rewrite !existsb_id_map.
  change (@oint ROps 0) with (o0 ROps).
  destruct (oltb ROps tol (o0 ROps)); [reflexivity|].
  destruct (existsb (fun a => oltb ROps a (oopp ROps tol)) w); [reflexivity|].
  replace (existsb (fun a => oleb ROps a tol) (map (oabs ROps) w)) with (existsb (fun a => oleb ROps (oabs ROps a) tol) w).
  - reflexivity.
  - clear. induction w as [|a w IH]; [reflexivity|]. cbn [existsb map]. rewrite IH. reflexivity.
Qed.

Theorem src_check_sdp_eq (eps : R) (w : Rv) (tol_arg : option R) :
  @src_check_sdp ROps eps w tol_arg =
  @check_sdp ROps w (match tol_arg with None => @default_tol ROps eps w | Some x => x end).
Proof.
  unfold src_check_sdp. cbn zeta. rewrite src_default_tol_eq. destruct tol_arg; apply check_core.
Qed.

Lemma omax_comm0 (a : R) : omax ROps a 0 = omax ROps 0 a.
Proof.
  unfold omax. cbn. destruct (Rleb a 0) eqn:E1; destruct (Rleb 0 a) eqn:E2; auto.
  - apply Rleb_true in E1, E2. lra.
  - apply Rleb_false in E1, E2. lra.
Qed.

Theorem src_cfm_diag_eq (m : Rv) : @src_cfm_diag ROps m = @cfm_diag ROps m.
Proof.
  unfold src_cfm_diag, cfm_diag, nn_sqrt_v, nn_maximum_vs. rewrite map_map. apply map_ext. intro a.
  change (@oint ROps 0) with 0. rewrite omax_comm0. reflexivity.
Qed.

Theorem src_cfm_eigen_eq : forall (w : Rv) (V : Rm), @src_cfm_eigen ROps w V = @cfm_eigen ROps w V.
Proof.
  unfold src_cfm_eigen, cfm_eigen, nn_scale_rows, nn_sqrt_v, nn_maximum_vs.
  induction w as [|a w IH]; intros [|v V]; cbn [map map2]; auto. rewrite IH. f_equal.
  change (@oint ROps 0) with 0. rewrite omax_comm0. reflexivity.
Qed.

(* _auto_select_init, as translated (integers as Z): on the sizes fit passes in it is the model's rule *)
Theorem src_auto_select_init_eq (hc : bool) (d n nc : nat) (ncls : Z) :
  src_auto_select_init hc (Z.of_nat d) (Z.of_nat n) (Z.of_nat nc) ncls = auto_select_init hc d n nc ncls.
Proof.
  unfold src_auto_select_init, auto_select_init.
  replace (Z.of_nat nc <? Z.min (Z.of_nat d) (Z.of_nat n))%Z with (nc <? Nat.min d n)%nat; [reflexivity|].
  rewrite <- Nat2Z.inj_min. destruct (Nat.ltb_spec nc (Nat.min d n)); symmetry; [apply Z.ltb_lt | apply Z.ltb_ge]; lia.
Qed.
