(* C18 -- constructor parameters round-trip.
   About gen/Src_init.v: the constructors of the 17 estimators, translated (MRO flattened,
   base-class __init__ calls inlined) from /repo/metric_learn/*.py on this run.
   V is an arbitrary type of Python objects: the theorem is parametric in the values, so it
   covers arrays, callables, anything.  A constructor-time guard (LFDA's embedding_type check)
   is a precondition: the statements speak about constructor calls that return. *)
From Coq Require Import List String Bool.
From ML Require Import InitModel C18Proof.
From MLgen Require Import Src_init Src_query.
Import ListNotations.
Open Scope string_scope.

Definition estimator_names : list string :=
  ["Covariance"; "LFDA"; "LMNN"; "NCA"; "MLKR"; "RCA"; "RCA_Supervised"; "ITML"; "ITML_Supervised";
   "MMC"; "MMC_Supervised"; "SDML"; "SDML_Supervised"; "LSML"; "LSML_Supervised"; "SCML"; "SCML_Supervised"].

(* documented deprecated aliases: (class, old parameter, replacement) *)
Definition documented_aliases : list (string * string * string) :=
  [("LMNN", "k", "n_neighbors");
   ("RCA_Supervised", "num_chunks", "n_chunks");
   ("ITML", "convergence_threshold", "tol");
   ("ITML_Supervised", "convergence_threshold", "tol");
   ("ITML_Supervised", "num_constraints", "n_constraints");
   ("MMC", "convergence_threshold", "tol");
   ("MMC_Supervised", "convergence_threshold", "tol");
   ("MMC_Supervised", "num_constraints", "n_constraints");
   ("SDML_Supervised", "num_constraints", "n_constraints");
   ("LSML_Supervised", "num_constraints", "n_constraints")].

(* query methods that must start by refusing an unfitted estimator *)
Definition guarded_methods : list string :=
  ["MahalanobisMixin.transform"; "MahalanobisMixin.pair_distance"; "MahalanobisMixin.get_metric";
   "MahalanobisMixin.get_mahalanobis_matrix"; "_PairsClassifierMixin.decision_function";
   "_PairsClassifierMixin.predict"; "_TripletsClassifierMixin.decision_function";
   "_QuadrupletsClassifierMixin.decision_function"].
Definition is_guarded (m : string) : bool :=
  existsb (fun f => match f with (w, k, _) => String.eqb w m && String.eqb k "check_is_fitted" end) query_facts.

Definition C18_statement : Prop :=
  map cname inits = estimator_names /\
  (* every non-deprecated parameter is stored untouched: get_params returns the identical object *)
  (forall c, In c inits ->
     forall (V : Type) (is_sentinel : V -> bool) (constv : string -> V) (env : string -> V),
       defaults_deprecated V is_sentinel (cdeprecated c) env ->
       forall p, In p (cparams c) -> mem p (cdeprecated c) = false ->
         get_param V is_sentinel constv c env p = Some (env p)) /\
  (* deprecated aliases map onto their replacement, with a FutureWarning *)
  (forall cn old new, In (cn, old, new) documented_aliases ->
     exists c, In c inits /\ cname c = cn /\ mem ("FutureWarning:" ++ old) (cwarns c) = true /\
       forall (V : Type) (is_sentinel : V -> bool) (constv : string -> V) (env : string -> V),
         is_sentinel (env old) = false -> get_param V is_sentinel constv c env new = Some (env old)) /\
  (* and no other parameter is deprecated *)
  (forall c, In c inits -> forall old, In old (cdeprecated c) ->
     exists new, In (cname c, old, new) documented_aliases) /\
  (* a deprecated parameter left at its default is returned as the identical object too (so clone's identity check
     passes for every constructor parameter, also when the sentinel string is a copy, e.g. after unpickling) *)
  (forall c, In c inits ->
     forall (V : Type) (is_sentinel : V -> bool) (constv : string -> V) (env : string -> V) p,
       In p (cdeprecated c) -> is_sentinel (env p) = true ->
       get_param V is_sentinel constv c env p = Some (env p)) /\
  (* set_params then get_params *)
  (forall c (V : Type) is_sentinel constv env name,
     get_param V is_sentinel constv (set_param c name) env name = Some (env name)) /\
  (* every query method refuses an unfitted estimator before anything else *)
  (forall m, In m guarded_methods -> is_guarded m = true).

Definition all_ok : bool :=
  forallb class_ok inits &&
  forallb (fun a => match a with (cn, old, new) =>
     existsb (fun c => String.eqb (cname c) cn && alias_ok c old new) inits end) documented_aliases &&
  forallb (fun c => forallb (fun old =>
     existsb (fun a => match a with (cn, o, _) => String.eqb cn (cname c) && String.eqb o old end)
             documented_aliases) (cdeprecated c)) inits &&
  forallb is_guarded guarded_methods && forallb sentinel_kept inits.

Lemma all_ok_true : all_ok = true.
Proof. vm_compute. reflexivity. Qed.

Theorem C18_holds : C18_statement.
Proof.
  pose proof all_ok_true as H. unfold all_ok in H.
  apply andb_true_iff in H as [H H5]. apply andb_true_iff in H as [H H4]. apply andb_true_iff in H as [H H3].
  apply andb_true_iff in H as [H1 H2].
  split; [vm_compute; reflexivity|]. split; [|split; [|split; [|split; [|split]]]].
  - intros c Hc V is_s constv env D p Hp Hd.
    rewrite forallb_forall in H1. apply (class_ok_sound V is_s constv c (H1 c Hc) env D p Hp Hd).
  - intros cn old new Ha. rewrite forallb_forall in H2. specialize (H2 _ Ha). cbv beta iota in H2.
    apply existsb_exists in H2 as [c [Hc Hk]]. apply andb_true_iff in Hk as [Hn Hk].
    exists c. split; [auto|]. split; [apply String.eqb_eq; auto|]. split.
    + unfold alias_ok in Hk. apply andb_true_iff in Hk as [_ Hw]. exact Hw.
    + intros V is_s constv env Hs. apply (alias_ok_sound V is_s constv c old new Hk env Hs).
  - intros c Hc old Ho. rewrite forallb_forall in H3. specialize (H3 c Hc).
    rewrite forallb_forall in H3. specialize (H3 old Ho).
    apply existsb_exists in H3 as [[[cn o] new] [Ha Hk]]. apply andb_true_iff in Hk as [E1 E2].
    apply String.eqb_eq in E1. apply String.eqb_eq in E2. subst. exists new. exact Ha.
  - intros c Hc V is_s constv env p Hp Hs. rewrite forallb_forall in H5.
    apply (sentinel_kept_sound V is_s constv c (H5 c Hc) env p Hp Hs).
  - intros. apply set_get.
  - intros m Hm. rewrite forallb_forall in H4. apply H4; auto.
Qed.
Print Assumptions C18_holds.

(* non-vacuity: the table is not empty and has deprecated and non-deprecated parameters *)
Example C18_nonvacuous :
  List.length inits = 17 /\
  existsb (fun c => negb (Nat.eqb (List.length (cdeprecated c)) 0) && negb (Nat.eqb (List.length (nondeprecated c)) 0)) inits = true.
Proof. split; vm_compute; reflexivity. Qed.
