(* C01 -- the learned distance is a finite pseudo-metric.
   Stated about gen/Src_query.v, i.e. about the Gallina that the translator emits
   from /repo/metric_learn/base_metric.py on this run.  Carrier: R.
   Finiteness is a floating-point notion and is covered by the correspondence lane only. *)
From Coq Require Import List Reals.
From ML Require Import Ops Vec VecR NPFacts C01Proof.
From MLgen Require Import Src_query.
Import ListNotations.
Open Scope R_scope.

Definition C01_statement : Prop :=
  forall (k d : nat) (L : Rm), wfmR k d L ->          (* any k x d transformation, any rank *)
    (* a batch of pairs is scored pair by pair *)
    (forall P, @Src_query.pair_distance ROps L P =
               map (fun tp => d_src L (nth 0 tp []) (nth 1 tp [])) P) /\
    (forall x y, 0 <= d_src L x y) /\
    (forall x, d_src L x x = 0) /\
    (forall x y, d_src L x y = d_src L y x) /\
    (forall x y z, wfvR d x -> wfvR d y -> wfvR d z -> d_src L x z <= d_src L x y + d_src L y z) /\
    (* the get_metric closure is the same distance (and its square when squared=True) *)
    (forall u v, @Src_query.metric_fun ROps L u v false = d_src L u v) /\
    (forall u v, @Src_query.metric_fun ROps L u v true = (d_src L u v) ^ 2) /\
    (* pair_score is exactly the negated distance *)
    (forall P, @Src_query.pair_score ROps L P = map Ropp (@Src_query.pair_distance ROps L P)).

Theorem C01_holds : C01_statement.
Proof. exact C01_proof. Qed.
Print Assumptions C01_holds.
