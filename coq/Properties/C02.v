(* C02 -- all views of the learned metric agree with M = L^T L.
   Stated about gen/Src_query.v (translated from base_metric.py on this run). Carrier: R. *)
From Coq Require Import List Reals.
From ML Require Import Ops Vec VecR Mahalanobis NPFacts C01Proof C02Shape C02Proof.
From MLgen Require Import Src_query.
Import ListNotations.
Open Scope R_scope.

Definition C02_statement : Prop :=
  forall (k d : nat) (L : Rm), wfmR k d L ->
    (forall x x', wfvR d x -> wfvR d x' ->
        (d_src L x x')^2 = quadformR (M_src d L) (vsubR x' x)) /\
    (forall x x', wfvR d x -> wfvR d x' ->
        d_src L x x' = @euclid ROps (nth 0 (transform_src L [x]) []) (nth 0 (transform_src L [x']) [])) /\
    (forall u v, metric_src L u v false = d_src L u v) /\
    (forall u v, wfvR d u -> wfvR d v -> metric_src L u v true = quadformR (M_src d L) (vsubR u v)) /\
    (forall u v, metric_src L u v true = (metric_src L u v false)^2) /\
    (forall X i, (i < length X)%nat -> nth i (transform_src L X) [] = mvmulR L (nth i X [])) /\
    (forall X, length (transform_src L X) = length X /\ Forall (wfvR k) (transform_src L X)) /\
    wfmR d d (M_src d L) /\
    (forall i j, (i < d)%nat -> (j < d)%nat ->
        nth i (nth j (M_src d L) []) 0 = nth j (nth i (M_src d L) []) 0) /\
    (forall x, wfvR d x -> 0 <= quadformR (M_src d L) x) /\
    (forall P, @Src_query.score_pairs ROps L P = @Src_query.pair_distance ROps L P).

Theorem C02_holds : C02_statement.
Proof. exact C02_proof. Qed.
Print Assumptions C02_holds.
