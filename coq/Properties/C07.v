(* C07 -- constraints generated from labels respect the labels.
   Model: Model/Constraints.v (integers and lists only; hand-written from constraints.py, tied to
   the code by replaying the recorded random stream: props/c07.py).  The random outputs are an
   ARGUMENT of the model, so every statement holds for every sequence of random outputs.
   Neighbour search (scikit-learn NearestNeighbors) is an oracle: the k-NN statement holds for any
   neighbour tables with the documented contents, which the harness certifies per run. *)
From Coq Require Import List Arith ZArith.
From ML Require Import Constraints C07Pairs C07Chunks C07ChunksMore C07Knn.
From ML Require Import PinsC07.
Import ListNotations.

Definition C07_statement : Prop :=
  (* positive / negative pairs *)
  (forall labels n same max_iter iters ps warn,
     pairs_model labels n same max_iter iters = Some (ps, warn) ->
     Forall (pair_ok labels same) ps /\ NoDup ps /\ length ps <= n /\ (warn = true <-> length ps < n)) /\
  (* chunks *)
  (forall labels n_chunks chunk_size steps assign,
     chunks_model labels n_chunks chunk_size steps = ChunksOk assign ->
     n_chunks <= max_chunks labels chunk_size /\
     (forall p, In p assign -> snd p < n_chunks /\ fst p < length labels /\ (0 <= lab labels (fst p))%Z) /\
     (forall p q, In p assign -> In q assign -> snd p = snd q -> lab labels (fst p) = lab labels (fst q))) /\
  (forall labels n_chunks chunk_size steps assign,
     chunks_model labels n_chunks chunk_size steps = ChunksOk assign ->
     exists formed, formed <= n_chunks /\ (forall p, In p assign -> snd p < formed) /\
       (forall k, k < formed -> length (filter (fun p => Nat.eqb (snd p) k) assign) = chunk_size)) /\
  (forall labels n_chunks chunk_size steps,
     chunks_model labels n_chunks chunk_size steps = ChunksError <-> max_chunks labels chunk_size < n_chunks) /\
  (* k-NN triplets: exactly the combinations, each once, sound in the caller's frame *)
  (forall a b c A B C, In (a, b, c) (comb_rows A B C) <->
     exists r, r < length A /\ r < length B /\ r < length C /\
               nth r A 0 = a /\ In b (nth r B []) /\ In c (nth r C [])) /\
  (forall A B C, NoDup A -> Forall (fun r => NoDup r) B -> Forall (fun r => NoDup r) C -> NoDup (comb_rows A B C)) /\
  (forall labels gen_indx gen_neigh imp_neigh a b c,
     (forall i, In i gen_indx -> i < length (known_idx labels)) ->
     (forall r, r < length gen_indx -> forall j, In j (nth r gen_neigh []) ->
        j < length (known_idx labels) /\ j <> nth r gen_indx 0 /\
        nth j (known_labels labels) 0%Z = nth (nth r gen_indx 0) (known_labels labels) 0%Z) ->
     (forall r, r < length gen_indx -> forall j, In j (nth r imp_neigh []) ->
        j < length (known_idx labels) /\
        nth j (known_labels labels) 0%Z <> nth (nth r gen_indx 0) (known_labels labels) 0%Z) ->
     In (a, b, c) (map (knn_to_caller (known_idx labels)) (knn_class gen_indx gen_neigh imp_neigh)) ->
     a < length labels /\ b < length labels /\ c < length labels /\
     (0 <= lab labels a)%Z /\ (0 <= lab labels b)%Z /\ (0 <= lab labels c)%Z /\
     a <> b /\ lab labels b = lab labels a /\ lab labels c <> lab labels a).

Theorem C07_partial : C07_statement.
Proof.
  exact (conj pairs_sound (conj chunks_sound (conj chunks_sizes (conj chunks_infeasible
        (conj comb_rows_In (conj comb_rows_nodup knn_class_sound)))))).
Qed.
Print Assumptions C07_partial.

(* chunks are pairwise disjoint, and a feasible request yields exactly n_chunks chunks of chunk_size members *)
Definition C07_chunks_partition_statement : Prop :=
  forall labels n_chunks chunk_size steps assign,
    0 < chunk_size ->
    chunks_model labels n_chunks chunk_size steps = ChunksOk assign ->
    NoDup (map fst assign) /\
    (forall k, k < n_chunks -> length (filter (fun p => Nat.eqb (snd p) k) assign) = chunk_size).

Theorem C07_chunks_partition : C07_chunks_partition_statement.
Proof. exact chunks_disjoint_exact. Qed.
Print Assumptions C07_chunks_partition.

Example C07_nonvacuous :
  pairs_model [0; -1; 0; 1; 1; -1]%Z 2 true 10 [([0; 2], [1; 3])] = Some ([(0, 2); (3, 4)], false).
Proof. vm_compute. reflexivity. Qed.

Example C07_chunks_nonvacuous :
  chunks_model [0; 0; 1; 1; 0]%Z 2 2 [Take 0 [0; 1]; Take 1 [2; 3]] = ChunksOk [(0, 0); (1, 0); (2, 1); (3, 1)].
Proof. vm_compute. reflexivity. Qed.

(* text-level tie: the functions this property's hand-written model and harness were written from are unchanged
   (digests regenerated from /repo on every run; Proofs/PinsC07.v) *)
Definition C07_source_pins := pins_C07_ok.
