(* C05 -- indices + preprocessor are interchangeable with formed points / tuples.
   Models: Model/Preproc.v (ArrayIndexer, preprocess_tuples) and Model/Validate.v (check_input);
   hand-written, tied to the code by the bit-identical differential of props/c05.py on all 17
   estimators and by C06's enumeration.  The per-method table (every data-taking method hands its
   argument to check_input with preprocessor=self.preprocessor_) is generated from the source. *)
From Coq Require Import List Arith Bool String.
From ML Require Import Preproc Validate C05Proof.
From ML Require Import PinsC05.
From MLgen Require Import Src_query.
Import ListNotations.

Open Scope string_scope.
Definition uses_own_preprocessor : bool :=
  forallb (fun f => match f with (w, k, v) =>
     negb (String.eqb k "check_input") ||
     (* the recorded call ends with preprocessor=self.preprocessor_ *)
     match index 0 "preprocessor=self.preprocessor_" v with Some _ => true | None => false end end) query_facts.
Close Scope string_scope.

Definition C05_statement : Prop :=
  (* tuples of indicators, expanded column by column and stacked back, are the tuples of formed points *)
  (forall (I P : Type) (di : I) (dp : P) (pre1 : I -> P) (pre : list I -> list P) width T,
     (forall l, pre l = map pre1 l) -> Forall (fun row => List.length row = width) T ->
     preprocess_tuples di dp pre width T = map (map pre1) T) /\
  (forall (P : Type) (dp : P) (X : list P) idx, indexer dp X idx = map (fun i => nth i X dp) idx) /\
  (* after forming, both calls validate the same array in the same way: every downstream value is equal *)
  (forall di f y pre' ty ts o,
     ndim di = match ty with Classic => 1 | Tuples => 2 end ->
     ndim f = match ty with Classic => 2 | Tuples => 3 end ->
     dim di 0 = dim f 0 -> sk_bad_permissive di = false -> sk_bad_permissive f = false ->
     check_input di y (Some (Ok f)) ty ts o = check_input f y pre' ty ts o) /\
  (* formed data: the preprocessor is not consulted *)
  (forall f y p1 p2 ty ts o, ndim f = match ty with Classic => 2 | Tuples => 3 end ->
     check_input f y p1 ty ts o = check_input f y p2 ty ts o) /\
  (* an exception raised inside a preprocessor surfaces as PreprocessorError *)
  (forall di y e ty ts o, ndim di = match ty with Classic => 1 | Tuples => 2 end ->
     sk_bad_permissive di = false -> y_bad (dim di 0) y = false ->
     check_input di y (Some (Raise e)) ty ts o = Raise PreprocessorError) /\
  uses_own_preprocessor = true.

Theorem C05_holds : C05_statement.
Proof.
  split; [intros; apply preprocess_tuples_form; auto|].
  split; [intros; reflexivity|].
  exact (conj indices_eq_formed (conj formed_ignores_preprocessor (conj preprocessor_error_wrapped (eq_refl true)))).
Qed.
Print Assumptions C05_holds.

Example C05_nonvacuous :
  preprocess_tuples 0 0 (map (fun i => 10 * i)) 3 [[1; 2; 3]; [3; 1; 1]] = [[10; 20; 30]; [30; 10; 10]].
Proof. reflexivity. Qed.

(* text-level tie: the functions this property's hand-written model and harness were written from are unchanged
   (digests regenerated from /repo on every run; Proofs/PinsC05.v) *)
Definition C05_source_pins := pins_C05_ok.
