(* C03 -- fit on well-formed input yields a valid Mahalanobis model of the right shape.
   PARTIAL.  Proved (for the translated query API, any real L of any rank and shape k x d):
   the induced M is d x d, symmetric and positive semi-definite; transform maps n points to n
   rows of length k; n_components is accepted exactly in [1, n_features]; the history theorem of
   C17 gives n_features_in_ = features of the last fit and fit-returns-the-estimator.
   NOT proved: that each of the 17 solvers returns a finite real float array of the documented
   shape -- a statement about 17 numerical programs, explored by props/c03.py over the product of
   documented option values, with an exact-rational PSD certificate per fitted model. *)
From Coq Require Import List Reals.
From ML Require Import Ops Vec VecR MatR PSD Cert Hom Mahalanobis Validate NPFacts C02Shape C06Proof.
From MLgen Require Import Src_query.
Import ListNotations.
Open Scope R_scope.

Definition C03_proved_part : Prop :=
  (forall (k d : nat) (L : Rm), wfmR k d L ->
     wfmR d d (M_src d L) /\
     (forall i j, (i < d)%nat -> (j < d)%nat -> nth i (nth j (M_src d L) []) 0 = nth j (nth i (M_src d L) []) 0) /\
     (forall x, wfvR d x -> 0 <= quadformR (M_src d L) x) /\
     (forall X, length (transform_src L X) = length X /\ Forall (wfvR k) (transform_src L X))) /\
  (forall n nc k, check_n_components n nc = Ok k <-> (nc = None /\ k = n) \/ (nc = Some k /\ (1 <= k <= n)%nat)) /\
  (* soundness of the exact-rational certificate used on every fitted model: a well-formed, exactly
     symmetric rational matrix whose successive Schur complements all have positive pivots is
     positive definite as a real matrix *)
  (forall n (M : list (list QArith_base.Q)), cert_pd n M = true -> PDop n (q2m M)).

Theorem C03_partial : C03_proved_part.
Proof.
  split.
  - intros k d L HL. destruct (C02_shape k d L HL) as [_ [H7 [H8 [H9 H10]]]].
    auto.
  - split; [exact n_components_spec | exact cert_pd_sound].
Qed.
Print Assumptions C03_partial.
