(* C09 -- closed-form learners compute their documented formula.
   PARTIAL.  Proved: LFDA's matrix shortcut  Xc^T diag(A 1) Xc - Xc^T A Xc  equals the documented
   pairwise definition  1/2 sum_ij A_ij (x_i - x_j)(x_i - x_j)^T  for every symmetric affinity A (as
   quadratic forms along any direction); any factor L of M gives the distance of M (so Covariance's
   and RCA's distances are determined by the covariance alone, whatever square root is returned).
   Certified per run on exact rationals (props/c09.py): Covariance's M satisfies the four Penrose
   equations against the exact sample covariance (singular cases included); RCA's components whiten
   the exact within-chunk covariance, L C L^T = I_k, and in the reduced case span the directions of
   smallest within/total variance ratio; LFDA's rows are generalised eigenvectors of the pairwise-defined
   local scatters with the leading eigenvalues in decreasing order, scaled per embedding_type.
   NOT mechanised: completeness of the generalised spectrum (that the selected eigenvectors are the
   leading ones) -- per-instance certificate. *)
From Coq Require Import List Reals ZArith.
From ML Require Import Ops Vec VecR MatR LinAlg Mahalanobis MahalanobisR C09Proof CovProof.
From ML Require Import PinsC09.
From ML Require Import NPNum C09Src C09Chunks C09Proof C09Lfda.
From MLgen Require Import Src_rca Src_lfda.
Import ListNotations.
Open Scope R_scope.

Definition C09_proved_part : Prop :=
  (forall n (A : Rm) (z : Rv), wfmR n n A -> symop n A -> wfvR n z ->
     vdotR (sqv z) (mvmulR A (ones n)) - vdotR z (mvmulR A z) = / 2 * pairsum A z) /\
  (forall d (L1 L2 : Rm), Forall (wfvR d) L1 -> Forall (wfvR d) L2 ->
     (forall x, wfvR d x -> quadformR (mahalanobisR d L1) x = quadformR (mahalanobisR d L2) x) ->
     forall x x', wfvR d x -> wfvR d x' -> distR L1 x x' = distR L2 x x').

Theorem C09_partial : C09_proved_part.
Proof. exact (conj lfda_shortcut_eq_pairwise factor_distance_unique). Qed.
Print Assumptions C09_partial.

(* the matrix Covariance (pseudo-)inverts is the sample covariance: along every direction x its quadratic form is the
   (n-1)-normalised sum of squared deviations of the projected samples x . x_i from their mean *)
Theorem C09_covariance_is_variance : forall d (X : Rm) (x : Rv), X <> [] -> Forall (wfvR d) X -> wfvR d x ->
  quadformR (covR 1 X) x = ssd (mvmulR X x) / INR (length X - 1).
Proof. intros d X x. exact (cov_quadform d 1 X x). Qed.
Print Assumptions C09_covariance_is_variance.

(* text-level tie: the functions this property's hand-written model and harness were written from are unchanged
   (digests regenerated from /repo on every run; Proofs/PinsC09.v) *)
Definition C09_source_pins := pins_C09_ok.

(* the translated source (gen/Src_rca.v), dimension-reducing branch of RCA.fit: for EVERY choice of directions A (d x k) and
   every k x k matrix W, entry (a, b) of L C L^T for the translated components L = W A^T is entry (a, b) of W C' W^T with the
   translated reduced covariance C' = A^T C A.  So whenever the inverse-square-root oracle whitens C' the learned
   transformation makes the within-chunk covariance of the transformed data the identity on the retained directions. *)
Definition C09_source_stmt : Prop :=
  forall d k (A C W : Rm) (a b : nat),
    A <> [] -> length A = d -> Forall (wfvR k) A -> wfmR d d C -> Forall (wfvR k) W -> (a < length W)%nat -> (b < length W)%nat ->
    let L := @rca_reduced_components ROps W A in
    vdotR (nth a L []) (mvmulR C (nth b L [])) =
    vdotR (nth a W []) (mvmulR (@rca_reduced_cov ROps A C) (nth b W [])).

Theorem C09_source : C09_source_stmt.
Proof. exact rca_reduced_whitening. Qed.
Print Assumptions C09_source.
Definition C09_source_skeleton := rca_skeleton_ok.

(* the translated source, within-chunk covariance: _chunk_mean_centering (mask of the chunked points, one centring pass per chunk
   id in range(chunks.max() + 1)) followed by np.cov(., rowvar=0, bias=1), as they read on this run.  For every data matrix, every
   chunk vector with entries in {-1} u [0, max] (at least one of them a chunk id) and every direction x, the quadratic form of the
   translated inner_cov along x is the mean over the chunked points of the squared deviation of x . x_i from the mean of x . x_j over
   the point's own chunk: the documented C = 1/N sum_j sum_i (x_ji - m_j)(x_ji - m_j)^T.  (Each chunk is centred exactly once, by its
   own mean - chunk ids are distinct in range(n_chunks) - and np.cov's own centring is a no-op since the centred rows sum to zero.) *)
Definition C09_rca_within_chunk_stmt : Prop :=
  forall d (X : Rm) (chunks : list Z) (x : Rv),
    Forall (wfvR d) X -> length chunks = length X -> wfvR d x -> Forall (fun c => (-1 <= c)%Z) chunks ->
    let mask := nn_ne_zs chunks (-1)%Z in
    let labels := nn_mask mask chunks in
    let z := mvmulR (nn_mask mask X) x in
    labels <> [] ->
    quadformR (@rca_inner_cov ROps X chunks) x =
    rsum (map (fun p => p ^ 2) (dev (chunk_mean labels z) labels z)) / INR (length labels).

Theorem C09_rca_within_chunk : C09_rca_within_chunk_stmt.
Proof. exact rca_inner_cov_is_within_chunk. Qed.
Print Assumptions C09_rca_within_chunk.

(* non-vacuity: four points in the plane, two chunks and one unchunked point *)
Example C09_rca_within_chunk_nonvacuous :
  Forall (wfvR 2) [[0; 0]; [2; 0]; [5; 5]; [1; 3]; [1; 5]] /\ Forall (fun c => (-1 <= c)%Z) [0; 0; -1; 1; 1]%Z /\
  nn_mask (nn_ne_zs [0; 0; -1; 1; 1]%Z (-1)%Z) [0; 0; -1; 1; 1]%Z = [0; 0; 1; 1]%Z.
Proof. split; [repeat constructor | split; [repeat constructor; discriminate | reflexivity]]. Qed.

(* the translated source, LFDA: the statement of LFDA.fit that forms the local scatter of one class,
   G = Xc.T.dot(A.sum(axis=0)[:, None] * Xc) - Xc.T.dot(A).dot(Xc), as it reads on this run (gen/Src_lfda.v).  For every class
   block Xc (nc x d, nc >= 1), every symmetric nc x nc affinity A and every direction x:  x^T G x = 1/2 sum_ij A_ij (x.xc_i - x.xc_j)^2,
   the documented pairwise definition.  The statements around it (affinity, accumulation into tSb / tSw) are pinned as lfda_skeleton. *)
Definition C09_lfda_source_stmt : Prop :=
  forall nc d (Xc A : Rm) (x : Rv),
    Xc <> [] -> length Xc = nc -> Forall (wfvR d) Xc -> wfmR nc nc A -> symop nc A -> wfvR d x ->
    quadformR (@lfda_G ROps Xc A) x = / 2 * pairsum A (mvmulR Xc x).

Theorem C09_lfda_source : C09_lfda_source_stmt.
Proof. exact lfda_G_pairwise. Qed.
Print Assumptions C09_lfda_source.
Definition C09_lfda_skeleton := lfda_skeleton_ok.

(* non-vacuity of C09_lfda_source: a class of two points in the plane and a symmetric affinity *)
Example C09_lfda_source_nonvacuous :
  let Xc : Rm := [[0; 0]; [1; 2]] in let A : Rm := [[1; / 2]; [/ 2; 1]] in
  Xc <> [] /\ length Xc = 2%nat /\ Forall (wfvR 2) Xc /\ wfmR 2 2 A /\ symop 2 A.
Proof.
  cbv zeta. split; [discriminate|]. split; [reflexivity|]. split; [repeat constructor|]. split; [split; [reflexivity | repeat constructor]|].
  intros x y Hx Hy. unfold wfv in *.
  destruct x as [|x1 [|x2 [|? ?]]]; try discriminate. destruct y as [|y1 [|y2 [|? ?]]]; try discriminate.
  cbn. ring.
Qed.
