(* C19 -- the learned distance depends on the data only through its geometry.
   PARTIAL.  Proved on the models (no new definitions): within-tuple differences and every squared
   learned distance are translation invariant (so are the documented NCA / MLKR / LMNN kernels);
   replacing a pair difference v by -v leaves ITML's projection step, MMC's similarity budget and
   LSML's hinge terms unchanged (SDML: C13Proof.wsq_neg_one).  NOT proved: sample-permutation,
   rotation and scaling equivariance of the closed-form learners and invariance of the optimum returned
   by external optimisers: these relations are checked on the real code by props/c19.py (bit-exact
   where the implementation only touches differences, toleranced otherwise). *)
From Coq Require Import List Reals.
From ML Require Import Ops Vec VecR MatR ITML MMC LSML Objectives C11Proof C19Proof.
Import ListNotations.
Open Scope R_scope.

Definition C19_proved_part : Prop :=
  (forall t x y : Rv, length t = length x -> length x = length y ->
     vsubR (vaddR y t) (vaddR x t) = vsubR y x) /\
  (forall (L : Rm) (t x y : Rv), length t = length x -> length x = length y ->
     @sqd ROps L (vaddR x t) (vaddR y t) = @sqd ROps L x y) /\
  (forall (ex : R -> R) (L X : Rm) (t : Rv) i, Forall (fun x => length x = length t) X ->
     @kern ROps ex L (map (fun x => vaddR x t) X) i = @kern ROps ex L X i) /\
  (forall (g : option R) (v : Rv) (pos : bool) (A : Rm) (du : dualR),
     updateR g (@Build_cstr ROps (vnegR v) pos) A du = updateR g (@Build_cstr ROps v pos) A du) /\
  (forall (A vs : Rm), @fS ROps A (map vnegR vs) = @fS ROps A vs) /\
  (forall (M : Rm) (q : @quad ROps),
     @hinge ROps M {| qab := vnegR (qab q); qcd := vnegR (qcd q); qw := qw q |} = @hinge ROps M q).

Theorem C19_partial : C19_proved_part.
Proof.
  exact (conj diff_translation (conj sqd_translation (conj kern_translation
        (conj itml_update_swap (conj budget_swap lsml_hinge_swap))))).
Qed.
Print Assumptions C19_partial.
