(* C19 -- the learned distance depends on the data only through its geometry.
   PARTIAL.  Proved on the models (no new definitions): within-tuple differences and every squared
   learned distance are translation invariant (so are the documented NCA / MLKR / LMNN kernels);
   replacing a pair difference v by -v leaves ITML's projection step, MMC's similarity budget and
   LSML's hinge terms unchanged (SDML: C13Proof.wsq_neg_one).  PROVED as well (C19_covariance): the sample covariance
   that Covariance inverts (and RCA / the 'covariance' priors are built from) is invariant under listing the
   samples in another order and under translation, is multiplied by c^2 when all features are multiplied by c,
   and is equivariant under every linear map of the features (rotations Q: cov(X Q^T) = Q cov(X) Q^T), all stated
   along arbitrary directions.  PROVED as well (C19_rotation_objectives): the documented objectives of NCA, MLKR and LMNN
   have the same value at (L', Q X) as at (L, X) whenever L' Q = L (L' = L Q^T for an orthogonal Q), for every kernel
   function, every label vector and every in-range table of target neighbours; (C19_itml_rotation): for ITML, a solver
   written in this repository, mapping every pair difference through an inner-product preserving Q and the prior A0 to A0'
   with A0' Q = Q A0 gives, after EVERY number of sweeps, the same dual variables and slack bounds and a learned matrix
   with A' Q = Q A (A' = Q A Q^T), hence equal learned distances between corresponding points.  NOT proved: that the (pseudo-)inverse and the whitening of RCA inherit these
   relations (eigen-solvers are oracles), rotation equivariance of LFDA / LSML / MMC and invariance
   of the optimum returned by external optimisers: these relations are checked on the real code by props/c19.py (bit-exact
   where the implementation only touches differences, toleranced otherwise). *)
From Coq Require Import List Reals.
From Coq Require Import Permutation Lra.
From ML Require Import Ops Vec VecR MatR LinAlg ITML MMC LSML Objectives C11Proof C19Proof C19Rot C19Itml CovProof C11Src.
Import ListNotations.
Open Scope R_scope.

Definition C19_proved_part : Prop :=
  (forall t x y : Rv, length t = length x -> length x = length y ->
     vsubR (vaddR y t) (vaddR x t) = vsubR y x) /\
  (forall (L : Rm) (t x y : Rv), length t = length x -> length x = length y ->
     @sqd ROps L (vaddR x t) (vaddR y t) = @sqd ROps L x y) /\
  (forall (ex : R -> R) (L X : Rm) (t : Rv) i, Forall (fun x => length x = length t) X ->
     @kern ROps ex L (map (fun x => vaddR x t) X) i = @kern ROps ex L X i) /\
  (forall (g : option R) (v : Rv) (pos : bool) (A : Rm) (du : dualR),
     updateR g (@Build_cstr ROps (vnegR v) pos) A du = updateR g (@Build_cstr ROps v pos) A du) /\
  (forall (A vs : Rm), @fS ROps A (map vnegR vs) = @fS ROps A vs) /\
  (forall (M : Rm) (q : @quad ROps),
     @hinge ROps M {| qab := vnegR (qab q); qcd := vnegR (qcd q); qw := qw q |} = @hinge ROps M q).

Theorem C19_partial : C19_proved_part.
Proof.
  exact (conj diff_translation (conj sqd_translation (conj kern_translation
        (conj itml_update_swap (conj budget_swap lsml_hinge_swap))))).
Qed.
Print Assumptions C19_partial.

(* the covariance matrix of the closed-form learners *)
Definition C19_covariance_statement : Prop :=
  (* its quadratic form along x is the normalised sum of squared deviations of the projected samples *)
  (forall d ddof (X : Rm) (x : Rv), X <> [] -> Forall (wfvR d) X -> wfvR d x ->
     quadformR (covR ddof X) x = ssd (mvmulR X x) / INR (length X - ddof)) /\
  (* order of the samples *)
  (forall d ddof (X X' : Rm) (x : Rv), X <> [] -> Forall (wfvR d) X -> wfvR d x -> Permutation X X' ->
     quadformR (covR ddof X') x = quadformR (covR ddof X) x) /\
  (* translation by t *)
  (forall d ddof (X : Rm) (t x : Rv), X <> [] -> Forall (wfvR d) X -> wfvR d x -> wfvR d t ->
     quadformR (covR ddof (map (fun r => vaddR r t) X)) x = quadformR (covR ddof X) x) /\
  (* scaling of all features by c *)
  (forall d ddof (X : Rm) (c : R) (x : Rv), X <> [] -> Forall (wfvR d) X -> wfvR d x ->
     quadformR (covR ddof (map (vscaleR c) X)) x = c ^ 2 * quadformR (covR ddof X) x) /\
  (* any linear map Q of the features, rotations in particular *)
  (forall d ddof (X Q : Rm) (x : Rv), X <> [] -> Forall (wfvR d) X -> wfvR d x ->
     Q <> [] -> length Q = d -> Forall (wfvR d) Q ->
     quadformR (covR ddof (map (mvmulR Q) X)) x = quadformR (covR ddof X) (mvmulR (transpR Q) x)).

Theorem C19_covariance : C19_covariance_statement.
Proof. exact (conj cov_quadform (conj cov_permutation (conj cov_translation (conj cov_scaling cov_linear_map)))). Qed.
Print Assumptions C19_covariance.

Example C19_covariance_nonvacuous :
  quadformR (covR 1 [[0; 0]; [2; 0]; [4; 0]]) [1; 0] = 4.
Proof. unfold quadform, cov, center, colmeans, mmulg, transp. cbn. lra. Qed.

(* rotations: the objectives that the gradient-based learners document depend on L and X only through L x_i - L x_j *)
Definition C19_rotation_objectives_stmt : Prop :=
  forall (d : nat) (L L' Q : Rm), (forall x, wfvR d x -> mvmulR L' (mvmulR Q x) = mvmulR L x) ->
  forall (ex : R -> R) (X : Rm), Forall (wfvR d) X ->
    (forall y, @nca_obj ROps ex L' (map (mvmulR Q) X) y = @nca_obj ROps ex L X y) /\
    (forall y, @mlkr_obj ROps ex L' (map (mvmulR Q) X) y = @mlkr_obj ROps ex L X y) /\
    (forall reg y targets, Forall (Forall (fun j => (j < length X)%nat)) targets ->
       @lmnn_obj ROps reg L' (map (mvmulR Q) X) y targets = @lmnn_obj ROps reg L X y targets).

Theorem C19_rotation_objectives : C19_rotation_objectives_stmt.
Proof.
  intros d L L' Q HQ ex X HX. split; [|split].
  - intro y. apply (nca_obj_rot d L L' Q HQ ex X y HX).
  - intro y. apply (mlkr_obj_rot d L L' Q HQ ex X y HX).
  - intros reg y targets HT. apply (lmnn_obj_rot d L L' Q HQ reg X y targets HX HT).
Qed.
Print Assumptions C19_rotation_objectives.

(* non-vacuity: the quarter turn Q = [[0,-1],[1,0]] with L = identity and L' = Q^T *)
Example C19_rotation_nonvacuous :
  forall x, wfvR 2 x -> mvmulR [[0; 1]; [-1; 0]] (mvmulR [[0; -1]; [1; 0]] x) = mvmulR [[1; 0]; [0; 1]] x.
Proof. intros [|a [|b [|? ?]]] H; try discriminate. cbn. f_equal; [|f_equal]; lra. Qed.

(* ITML under an orthogonal change of coordinates, after any number of sweeps *)
Definition C19_itml_rotation_stmt : Prop :=
  forall (d : nat) (Q : Rm), wfmR d d Q ->
    (forall x y, wfvR d x -> wfvR d y -> vdotR (mvmulR Q x) (mvmulR Q y) = vdotR x y) ->
  forall (g : option R) (cs : list cstrR) (A0 A0' : Rm) (lo hi : R) (n : nat),
    Forall (fun c : cstrR => wfvR d (cv c)) cs -> wfmR d d A0 -> wfmR d d A0' ->
    (forall x, wfvR d x -> mvmulR A0' (mvmulR Q x) = mvmulR Q (mvmulR A0 x)) ->
    let s := runR g cs n (@init ROps A0 cs lo hi) in
    let s' := runR g (map (rotc Q) cs) n (@init ROps A0' (map (rotc Q) cs) lo hi) in
    duals s' = duals s /\
    (forall x, wfvR d x -> mvmulR (A s') (mvmulR Q x) = mvmulR Q (mvmulR (A s) x)) /\
    (forall z, wfvR d z -> quadformR (A s') (mvmulR Q z) = quadformR (A s) z).

Theorem C19_itml_rotation : C19_itml_rotation_stmt.
Proof.
  intros d Q HQ HD g cs A0 A0' lo hi n Hcs HA HA' HC s s'.
  destruct (itml_rotation d Q HD g cs A0 A0' lo hi n Hcs HA HA' HC) as [E1 [E2 [E3 E4]]].
  split; [exact E1|]. split; [exact E2|].
  intros z Hz. apply (conj_distance d Q HD (A s) (A s') z E3 E2 Hz).
Qed.
Print Assumptions C19_itml_rotation.

(* the same for the loop of itml.py as TRANSLATED on this run (gen/Src_itml.v, through C11Src.src_run_eq): started from
   symmetric positive definite priors related by Q, with positive bounds and non-collapsed pairs, the source's iterates on
   the rotated problem are the rotated iterates, with the same dual variables and the same learned distances *)
Definition C19_itml_rotation_source_stmt : Prop :=
  forall (d : nat) (Q : Rm), wfmR d d Q ->
    (forall x y, wfvR d x -> wfvR d y -> vdotR (mvmulR Q x) (mvmulR Q y) = vdotR x y) ->
  forall (g : option R) (cs : list cstrR) (A0 A0' B0 B0' : Rm) (lo hi : R) (n : nat),
    gamma_ok g -> Forall (cstr_ok d) cs -> inv_ok d A0 B0 -> inv_ok d A0' B0' -> 0 < lo -> 0 < hi ->
    (forall x, wfvR d x -> mvmulR A0' (mvmulR Q x) = mvmulR Q (mvmulR A0 x)) ->
    let s := @src_run ROps g cs n (@init ROps A0 cs lo hi) in
    let s' := @src_run ROps g (map (rotc Q) cs) n (@init ROps A0' (map (rotc Q) cs) lo hi) in
    duals s' = duals s /\
    (forall x, wfvR d x -> mvmulR (A s') (mvmulR Q x) = mvmulR Q (mvmulR (A s) x)) /\
    (forall z, wfvR d z -> quadformR (A s') (mvmulR Q z) = quadformR (A s) z).

Theorem C19_itml_rotation_source : C19_itml_rotation_source_stmt.
Proof.
  intros d Q HQ HD g cs A0 A0' B0 B0' lo hi n Hg Hcs HI HI' Hlo Hhi HC s s'.
  assert (Hcs': Forall (cstr_ok d) (map (rotc Q) cs)).
  { apply Forall_forall. intros c Hc. apply in_map_iff in Hc as [c0 [<- Hc0]].
    rewrite Forall_forall in Hcs. destruct (Hcs c0 Hc0) as [W P]. split; cbn [rotc cv].
    - unfold wfv. rewrite mvmul_length. apply HQ.
    - unfold vsumsq in *. rewrite (HD (cv c0) (cv c0) W W). exact P. }
  assert (Hw: Forall (fun c : cstrR => wfvR d (cv c)) cs).
  { apply Forall_forall. intros c Hc. rewrite Forall_forall in Hcs. apply (Hcs c Hc). }
  unfold s, s'.
  rewrite (src_run_eq d g cs (fun x y => vdotR y (mvmulR B0 x)) Hg Hcs n _ (itml_init_ok d A0 B0 cs lo hi HI Hlo Hhi)).
  rewrite (src_run_eq d g (map (rotc Q) cs) (fun x y => vdotR y (mvmulR B0' x)) Hg Hcs' n _
             (itml_init_ok d A0' B0' (map (rotc Q) cs) lo hi HI' Hlo Hhi)).
  exact (C19_itml_rotation d Q HQ HD g cs A0 A0' lo hi n Hw (iA d A0 B0 HI) (iA d A0' B0' HI') HC).
Qed.
Print Assumptions C19_itml_rotation_source.

(* LSML under an orthogonal change of coordinates, for the comparison loss as TRANSLATED from lsml.py on this run
   (gen/Src_lsml.v): with Q orthogonal (it preserves dot products) and M' acting on rotated vectors as the rotated M, the loss of the
   rotated quadruplet differences under M' is the loss of the original ones under M - the hinge part of the objective LSML
   descends is invariant, so the rotated problem has the rotated solutions (the LogDet part is C19_covariance's kind of statement) *)
From ML Require Import NPNum C19Lsml.
From MLgen Require Import Src_lsml.
Definition C19_lsml_rotation_source_stmt : Prop :=
  forall d (Q M M' : Rm) (w : Rv) (vab vcd : Rm),
    wfmR d d Q -> wfmR d d M -> wfmR d d M' ->
    (forall x y, wfvR d x -> wfvR d y -> vdotR (mvmulR Q x) (mvmulR Q y) = vdotR x y) ->
    (forall x, wfvR d x -> mvmulR M' (mvmulR Q x) = mvmulR Q (mvmulR M x)) ->
    Forall (wfvR d) vab -> Forall (wfvR d) vcd -> length w = length vab -> length vab = length vcd ->
    @lsml_comparison_loss ROps w M' (map (mvmulR Q) vab) (map (mvmulR Q) vcd) = @lsml_comparison_loss ROps w M vab vcd.

Theorem C19_lsml_rotation_source : C19_lsml_rotation_source_stmt.
Proof. exact src_comparison_loss_rotation. Qed.
Print Assumptions C19_lsml_rotation_source.
