(* C04 -- tuple classifiers decide exactly by comparing learned distances.
   About gen/Src_query.v (translated from base_metric.py on this run). Carrier: R.
   [dd L a b] is the translated pair_distance of the single pair (a, b).
   roc_auc_score is an oracle (Section variable [auc]); that scikit-learn's function is the
   Mann-Whitney statistic is validated by the correspondence lane, not proved. *)
From Coq Require Import List ZArith Reals.
From ML Require Import Ops Vec VecR NPFacts C04Proof.
From MLgen Require Import Src_query.
Import ListNotations.
Open Scope R_scope.

Definition C04_statement : Prop :=
  forall (L : Rm) (auc : list Z -> Rv -> R),
    (* pairs *)
    (forall P, @Src_query.pairs_decision_function ROps L P = map (fun tp => - dd L (p0 tp) (p1 tp)) P) /\
    (forall (thr : R) P i, (i < length P)%nat ->
        (nth i (@Src_query.pairs_predict ROps L thr P) 0%Z = 1%Z <-> dd L (p0 (nth i P [])) (p1 (nth i P [])) <= thr) /\
        (nth i (@Src_query.pairs_predict ROps L thr P) 0%Z = (-1)%Z <-> thr < dd L (p0 (nth i P [])) (p1 (nth i P [])))) /\
    (forall (t1 t2 : R) P i, (i < length P)%nat -> t1 <= t2 ->
        nth i (@Src_query.pairs_predict ROps L t1 P) 0%Z = 1%Z ->
        nth i (@Src_query.pairs_predict ROps L t2 P) 0%Z = 1%Z) /\
    (forall (thr : R) P i j, (i < length P)%nat -> (j < length P)%nat ->
        dd L (p0 (nth i P [])) (p1 (nth i P [])) <= dd L (p0 (nth j P [])) (p1 (nth j P [])) ->
        nth j (@Src_query.pairs_predict ROps L thr P) 0%Z = 1%Z ->
        nth i (@Src_query.pairs_predict ROps L thr P) 0%Z = 1%Z) /\
    (forall t : R, @Src_query.set_threshold ROps t = t) /\
    (forall P y, @Src_query.pairs_score ROps L auc P y = auc y (@Src_query.pairs_decision_function ROps L P)) /\
    (* triplets: +1 exactly when d(a,b) < d(a,c); ties and identical points give -1 *)
    (forall T, @Src_query.triplets_decision_function ROps L T =
               map (fun tp => dd L (p0 tp) (p2 tp) - dd L (p0 tp) (p1 tp)) T) /\
    (forall T i, (i < length T)%nat ->
        (nth i (@Src_query.triplets_predict ROps L T) 0%Z = 1%Z <->
           dd L (p0 (nth i T [])) (p1 (nth i T [])) < dd L (p0 (nth i T [])) (p2 (nth i T []))) /\
        (nth i (@Src_query.triplets_predict ROps L T) 0%Z = (-1)%Z <->
           dd L (p0 (nth i T [])) (p2 (nth i T [])) <= dd L (p0 (nth i T [])) (p1 (nth i T [])))) /\
    (forall a b c, @Src_query.triplets_decision_function ROps L [[a; c; b]] =
                   map Ropp (@Src_query.triplets_decision_function ROps L [[a; b; c]])) /\
    (forall T, T <> [] -> @Src_query.triplets_score ROps L T =
        INR (count_pos (@Src_query.triplets_predict ROps L T)) / INR (length T)) /\
    (* quadruplets: sign of d(c,d) - d(a,b) *)
    (forall Q, @Src_query.quadruplets_decision_function ROps L Q =
               map (fun tp => dd L (p2 tp) (p3 tp) - dd L (p0 tp) (p1 tp)) Q) /\
    (forall Q, @Src_query.quadruplets_predict ROps L Q =
               map (fun tp => sgnR (dd L (p2 tp) (p3 tp) - dd L (p0 tp) (p1 tp))) Q) /\
    (forall a b c e, @Src_query.quadruplets_decision_function ROps L [[c; e; a; b]] =
                     map Ropp (@Src_query.quadruplets_decision_function ROps L [[a; b; c; e]])).

Theorem C04_holds : C04_statement.
Proof.
  intros L auc.
  exact (conj (c04_pairs_decision L) (conj (c04_pairs_iff L) (conj (c04_mono_thr L) (conj (c04_mono_dist L)
        (conj c04_set_threshold (conj (c04_pairs_score L auc) (conj (c04_trip_decision L) (conj (c04_trip_iff L)
        (conj (c04_trip_swap L) (conj (c04_trip_score L) (conj (c04_quad_decision L) (conj (c04_quad_predict L)
        (c04_quad_swap L))))))))))))).
Qed.
Print Assumptions C04_holds.

(* non-vacuity: a tie (distance == threshold) and a triplet with d(a,b) = d(a,c) *)
Example C04_nonvacuous :
  (1 < length [[[0;0];[3;4]]; [[1;1];[1;1]]])%nat /\ [[[0;0];[3;4];[4;3]]] <> (@nil (list Rv)).
Proof. split; [repeat constructor | discriminate]. Qed.
