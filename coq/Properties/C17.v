(* C17 -- fitting is deterministic, side-effect free and history independent.
   Model: Model/Estimator.v, an abstract state machine over an arbitrary learner [solve];
   the n_features_in_ recording rule is translated from _prepare_inputs (gen/Src_prepare.v)
   and the closure-capture fact from get_metric (gen/Src_query.v) on every run.
   PARTIAL: that each real solver is a function of (parameters, data) -- determinism with an
   integer random_state, no hidden state, no mutation of arguments -- cannot be stated over
   immutable values; it is explored bit-exactly by props/c17.py, not proved. *)
From Coq Require Import List Arith Bool String.
From ML Require Import Estimator C17Proof.
From MLgen Require Import Src_prepare Src_query.
Import ListNotations.

Open Scope string_scope.
Definition closure_copies : bool :=
  existsb (fun f => match f with (w, k, v) =>
     String.eqb w "MahalanobisMixin.get_metric" && String.eqb k "closure_captures_copy" && String.eqb v "yes" end)
  query_facts.
Close Scope string_scope.

Section S.
  Variables (P D C T : Type) (solve : P -> D -> C) (calib : P -> D -> C -> T) (dshape : D -> list nat).
  (* the state machine with the rules as the source has them *)
  Definition step_src := step P D C T solve calib dshape nfi_when nfi_axis.
  Definition run_src := run P D C T solve calib dshape nfi_when nfi_axis.

  Definition C17_statement : Prop :=
    (* after any history ending in fit(d): the model, threshold and n_features_in_ are those of a
       fresh clone fitted once on d; n_features_in_ is the feature count (last axis) of d *)
    (forall (e : est P C T) (ops : list (op P D T)) (d : D),
       let p := prm _ _ _ (run_src e ops) in
       let a := run_src e (ops ++ [Fit P D T d]) in
       let b := run_src (fresh P C T p) [Fit P D T d] in
       comps _ _ _ a = comps _ _ _ b /\ thr _ _ _ a = thr _ _ _ b /\ nfi _ _ _ a = nfi _ _ _ b /\
       nfi _ _ _ a = Some (last (dshape d) 0)) /\
    (* query methods, get_metric, clone, pickle do not change the fitted state or the parameters *)
    (forall e o, match o with Query _ _ _ | GetMetric _ _ _ | CloneOp _ _ _ | PickleRoundTrip _ _ _ => True | _ => False end ->
       step_src e o = e) /\
    (forall e o, (forall p, o <> SetParams P D T p) -> prm _ _ _ (step_src e o) = prm _ _ _ e) /\
    (* a function handed out by get_metric is unaffected by later operations *)
    (forall e ops, closure_components P C T closure_copies e (run_src e ops) = comps _ _ _ e).
End S.

Lemma rules_as_documented : nfi_when = Always /\ nfi_axis = LastAxis /\ closure_copies = true.
Proof. repeat split; reflexivity. Qed.

Theorem C17_partial : forall P D C T solve calib dshape, C17_statement P D C T solve calib dshape.
Proof.
  intros P D C T solve calib dshape. unfold C17_statement, step_src, run_src.
  destruct rules_as_documented as [-> [-> ->]].
  refine (conj _ (conj _ (conj _ _))).
  - intros e ops d. cbv zeta.
    destruct (history_independent P D C T solve calib dshape e ops d) as [A [B Cn]].
    refine (conj A (conj B (conj Cn _))). rewrite last_fit_determines. reflexivity.
  - intros e o H. apply queries_preserve_state; auto.
  - intros e o H. apply params_only_by_set_params; auto.
  - intros e ops. apply get_metric_snapshot.
Qed.
Print Assumptions C17_partial.

(* non-vacuity: two fits on data of different dimensionality *)
Example C17_nonvacuous :
  nfi _ _ _ (run nat (list nat) nat nat (fun p d => p + List.length d) (fun _ _ c => c) (fun d => d) Always LastAxis
               (fresh nat nat nat 1) [Fit _ _ _ [10; 3]; Query _ _ _; Fit _ _ _ [7; 2; 5]]) = Some 5.
Proof. reflexivity. Qed.
