(* C16 -- threshold calibration picks an optimal cut-off for the chosen criterion.
   Model: Model/Calibrate.v (hand-written from calibrate_threshold; tied to the code by the
   exhaustive exact-lane correspondence of props/c16.py).  Carrier: R; counts are nat.
   A validation set is any finite list of (distance, is_positive); thr ranges over ALL real
   thresholds, predictions are  distance <= thr. *)
From Coq Require Import List Reals.
From ML Require Import Ops Calibrate C16Proof.
From ML Require Import PinsC16.
Import ListNotations.
Open Scope R_scope.

Definition C16_statement : Prop :=
  forall (data : list sampleR),
    (* accuracy: no threshold classifies more validation pairs correctly *)
    (forall thr : R,
       (correct_of (acceptsR thr) data <= correct_of (accepts_cR (calib_accuracy data)) data)%nat) /\
    (* F-beta, any beta *)
    (forall beta thr : R,
       fbeta_ofR beta (acceptsR thr) data <= fbeta_ofR beta (accepts_cR (calib_fbetaR beta data)) data) /\
    (* max_tpr: among thresholds with true-negative rate >= r the chosen one is admissible and has the
       most true positives (tpr = tp / P with P fixed) *)
    (forall r thr : R, tnr_geR r (acceptsR thr) data = true ->
       tnr_geR r (accepts_cR (calib_max_tprR r data)) data = true /\
       (tp_of (acceptsR thr) data <= tp_of (accepts_cR (calib_max_tprR r data)) data)%nat) /\
    (* max_tnr, symmetric *)
    (forall r thr : R, tpr_geR r (acceptsR thr) data = true ->
       tpr_geR r (accepts_cR (calib_max_tnrR r data)) data = true /\
       (tn_of (acceptsR thr) data <= tn_of (accepts_cR (calib_max_tnrR r data)) data)%nat) /\
    (* the admissible set is never empty for r <= 1 *)
    (forall r : R, r <= 1 -> tnr_geR r (accepts_cR RejectAll) data = true).

Theorem C16_holds : C16_statement.
Proof.
  intro data.
  exact (conj (calib_accuracy_optimal data)
        (conj (fun beta thr => calib_fbeta_optimal beta data thr)
        (conj (fun r thr => calib_max_tpr_optimal r data thr)
        (conj (fun r thr => calib_max_tnr_optimal r data thr)
              (fun r => reject_all_admissible_tnr r data))))).
Qed.
Print Assumptions C16_holds.

(* non-vacuity: tied distances with conflicting labels and a zero distance *)
Example C16_nonvacuous : exists data : list sampleR,
  data = [(2, false); (3, true); (2, true); (0, true)] /\ npos data = 3%nat /\ nneg data = 1%nat.
Proof. eexists; split; [reflexivity|]. split; reflexivity. Qed.

(* text-level tie: the functions this property's hand-written model and harness were written from are unchanged
   (digests regenerated from /repo on every run; Proofs/PinsC16.v) *)
Definition C16_source_pins := pins_C16_ok.

(* the translated source (gen/Src_calib.v): _validate_calibration_params as it reads on this run, on classified arguments
   (Model/CalibArgs.v).  It returns instead of raising ValueError exactly when the strategy is one of the four documented ones, and,
   for max_tpr / max_tnr, min_rate is an int / float instance with 0 <= min_rate <= 1 (None, NaN, infinities, strings, lists,
   complex numbers are rejected), and, for f_beta, beta is an int / float instance. *)
From Coq Require Import QArith.
From ML Require Import CalibArgs C16Src.
From MLgen Require Import Src_calib.
Definition C16_source_stmt : Prop :=
  forall (s : strategy) (min_rate beta : pyarg),
    src_validate_calibration_params s min_rate beta = true <->
    s <> SOther /\ ((s = SMaxTpr \/ s = SMaxTnr) -> rate_ok min_rate) /\ (s = SFbeta -> arg_is_number beta = true).

Theorem C16_source : C16_source_stmt.
Proof. exact src_validate_spec. Qed.
Print Assumptions C16_source.

Example C16_source_examples :
  src_validate_calibration_params SMaxTpr ANan ANone = false /\
  src_validate_calibration_params SMaxTnr (ANum (1 # 2)%Q) AOther = true /\
  src_validate_calibration_params SFbeta ANone ANone = false /\
  src_validate_calibration_params SOther (ANum 0%Q) (ANum 1%Q) = false.
Proof. repeat split; reflexivity. Qed.
