(* C06 -- malformed input is always rejected; equivalent array-likes are equivalent.
   Model: Model/Validate.v mirrors check_input / check_input_tuples / check_input_classic /
   _check_n_components over array descriptors (hand-written, tied to the code by exhaustive
   enumeration of the descriptor grammar: props/c06.py); scikit-learn's check_array/check_X_y are an
   oracle model (sk_bad, y_bad) validated on the same grammar.  The per-method table is generated
   from base_metric.py on every run (gen/Src_query.v). *)
From Coq Require Import List Arith Bool String.
From ML Require Import Validate C06Proof.
From ML Require Import PinsC06.
From MLgen Require Import Src_query.
Import ListNotations.

Open Scope string_scope.
(* every predict-time method validates its data argument through check_input, with the documented
   tuple size and the estimator's own preprocessor *)
Definition method_table : list (string * string) :=
  [("MahalanobisMixin.transform", "arg=X;type='classic';tuple_size=None;preprocessor=self.preprocessor_");
   ("MahalanobisMixin.pair_distance", "arg=pairs;type='tuples';tuple_size=2;preprocessor=self.preprocessor_");
   ("_PairsClassifierMixin.decision_function", "arg=pairs;type='tuples';tuple_size=self._tuple_size;preprocessor=self.preprocessor_");
   ("_TripletsClassifierMixin.decision_function", "arg=triplets;type='tuples';tuple_size=self._tuple_size;preprocessor=self.preprocessor_");
   ("_QuadrupletsClassifierMixin.decision_function", "arg=quadruplets;type='tuples';tuple_size=self._tuple_size;preprocessor=self.preprocessor_")].
Definition validates (m : string * string) : bool :=
  existsb (fun f => match f with (w, k, v) =>
     String.eqb w (fst m) && String.eqb k "check_input" && String.eqb v (snd m) end) query_facts.
Close Scope string_scope.

Definition C06_statement : Prop :=
  (* never an unrelated exception: returned, ValueError, or a failing preprocessor wrapped *)
  (forall d y pre ty ts o,
     (exists d', check_input d y pre ty ts o = Ok d') \/
     check_input d y pre ty ts o = Raise ValueError \/
     (check_input d y pre ty ts o = Raise PreprocessorError /\ exists e, pre = Some (Raise e))) /\
  (* whatever is returned has the documented form (dimension, tuple size, minimum samples and
     features, numeric, finite, labels of pairs in {-1,+1}, matching lengths) *)
  (forall d y pre ty ts o d', check_input d y pre ty ts o = Ok d' ->
     formed_ok ty ts o d' = true /\ labels_ok ty (dim d 0) (dim d' 1) y = true /\
     (d' = d \/ pre = Some (Ok d'))) /\
  (* well-formed formed data is accepted unchanged, malformed formed data raises ValueError *)
  (forall d y pre ty ts o, formed_ok ty ts o d = true -> labels_ok ty (dim d 0) (dim d 1) y = true ->
     check_input d y pre ty ts o = Ok d) /\
  (forall d y ty ts o, (formed_ok ty ts o d && labels_ok ty (dim d 0) (dim d 1) y) = false ->
     ndim d = match ty with Classic => 2 | Tuples => 3 end ->
     check_input d y None ty ts o = Raise ValueError) /\
  (* n_components outside [1, n_features] is rejected *)
  (forall n nc k, check_n_components n nc = Ok k <-> (nc = None /\ k = n) \/ (nc = Some k /\ 1 <= k <= n)) /\
  (* structural: the per-method validation calls, as translated from the source on this run *)
  forallb validates method_table = true.

Theorem C06_holds : C06_statement.
Proof.
  exact (conj check_input_total (conj check_input_sound (conj check_input_complete
        (conj malformed_rejected (conj n_components_spec (eq_refl true)))))).
Qed.
Print Assumptions C06_holds.

Example C06_nonvacuous :
  check_input {| ndim := 3; shape := [4; 2; 3]; kind := KFloat; nonfinite := false |}
              {| yf := YPm1; ylen := 4 |} None Tuples (Some 2) default_opts
  = Ok {| ndim := 3; shape := [4; 2; 3]; kind := KFloat; nonfinite := false |} /\
  check_input {| ndim := 3; shape := [4; 3; 3]; kind := KFloat; nonfinite := false |}
              {| yf := YPm1; ylen := 4 |} None Tuples (Some 2) default_opts = Raise ValueError.
Proof. split; reflexivity. Qed.

(* text-level tie: the functions this property's hand-written model and harness were written from are unchanged
   (digests regenerated from /repo on every run; Proofs/PinsC06.v) *)
Definition C06_source_pins := pins_C06_ok.

(* the translated source (gen/Src_psd.v): _check_n_components as it reads on this run, over the rationals (the option may hold
   any real number): a value is returned iff the option is None (then n_features) or lies in [1, n_features]; 0.5 is rejected.
   On naturals it is the model's check_n_components, the one C06_holds and C03_partial speak of. *)
From Coq Require Import QArith.
From ML Require Import C06Src.
From MLgen Require Import Src_psd.
Definition C06_source_stmt : Prop :=
  (forall (n : Q) (nc : option Q) (k : Q),
     src_check_n_components n nc = Some k <-> (nc = None /\ k = n) \/ (nc = Some k /\ (inject_Z 1 <= k)%Q /\ (k <= n)%Q)) /\
  (forall (n : nat) (nc : option nat),
     src_check_n_components (qnat n) (option_map qnat nc) =
     match check_n_components n nc with Ok k => Some (qnat k) | Raise _ => None end).

Theorem C06_source : C06_source_stmt.
Proof. exact (conj src_check_n_components_spec src_check_n_components_model). Qed.
Print Assumptions C06_source.

Example C06_source_rejects_half : src_check_n_components (inject_Z 4) (Some (1 # 2)) = None.
Proof. reflexivity. Qed.
