(* C08 -- supervised variants equal the base learner run on label-derived constraints.
   gen/Src_supervised.v holds the fit pipeline of every *_Supervised class, statement by statement
   (canonical spelling), translated from the source on this run.  The theorem says it IS the
   documented pipeline: prepare inputs; draw constraints from y with Constraints and
   random_state=self.random_state (default n_constraints = 20 * n_classes^2); form tuples;
   delegate to the base algorithm's _fit with the same hyper-parameters.  Since the delegate is the
   very same function that the weakly-supervised class calls, "equal fitted metric" is then
   definitional; that the two really coincide bit for bit is checked by props/c08.py.
   The second part re-exports C07: constraints never involve a point whose label is unknown. *)
From Coq Require Import List String ZArith.
From ML Require Import Constraints C07Pairs C07Chunks C07Knn.
From MLgen Require Import Src_supervised.
Import ListNotations.
Open Scope string_scope.

Definition pairs_pipeline (base_fit : string) (extra : string) : list string :=
  ["X, y = self._prepare_inputs(X, y, ensure_min_samples=2)";
   "n_constraints = self.n_constraints";
   "if n_constraints is None: num_classes = len(np.unique(y)); n_constraints = 20 * num_classes ** 2";
   "c = Constraints(y)";
   "pos_neg = c.positive_negative_pairs(n_constraints, random_state=self.random_state)";
   "pairs, y = wrap_pairs(X, pos_neg)";
   "return " ++ base_fit ++ "._fit(self, pairs, y" ++ extra ++ ")"].

Definition documented_pipelines : list (string * list string) :=
  [("ITML_Supervised", pairs_pipeline "_BaseITML" ", bounds=bounds");
   ("MMC_Supervised", pairs_pipeline "_BaseMMC" "");
   ("SDML_Supervised", pairs_pipeline "_BaseSDML" "");
   ("LSML_Supervised",
     ["X, y = self._prepare_inputs(X, y, ensure_min_samples=2)";
      "n_constraints = self.n_constraints";
      "if n_constraints is None: num_classes = len(np.unique(y)); n_constraints = 20 * num_classes ** 2";
      "c = Constraints(y)";
      "pos_neg = c.positive_negative_pairs(n_constraints, same_length=True, random_state=self.random_state)";
      "return _BaseLSML._fit(self, X[np.column_stack(pos_neg)], weights=self.weights)"]);
   ("RCA_Supervised",
     ["X, y = self._prepare_inputs(X, y, ensure_min_samples=2)";
      "chunks = Constraints(y).chunks(n_chunks=self.n_chunks, chunk_size=self.chunk_size, random_state=self.random_state)";
      "warn-if: self.n_chunks * (self.chunk_size - 1) < X.shape[1]";
      "return RCA.fit(self, X, chunks)"]);
   ("SCML_Supervised",
     ["X, y = self._prepare_inputs(X, y, ensure_min_samples=2)";
      "known = y >= 0";
      "basis, n_basis = self._initialize_basis_supervised(X[known], y[known])";
      "guard: not isinstance(self.k_genuine, int)";
      "guard: not isinstance(self.k_impostor, int)";
      "constraints = Constraints(y)";
      "triplets = constraints.generate_knntriplets(X, self.k_genuine, self.k_impostor)";
      "triplets = X[triplets]";
      "return self._fit(triplets, basis, n_basis)"])].
Close Scope string_scope.

Definition C08_statement : Prop :=
  pipelines = documented_pipelines /\
  (* points with a negative (unknown) label contribute to no constraint, for every random stream *)
  (forall labels n same max_iter iters ps warn,
     pairs_model labels n same max_iter iters = Some (ps, warn) ->
     Forall (fun p => (0 <= lab labels (fst p))%Z /\ (0 <= lab labels (snd p))%Z) ps) /\
  (forall labels n_chunks chunk_size steps assign,
     chunks_model labels n_chunks chunk_size steps = ChunksOk assign ->
     forall p, In p assign -> (0 <= lab labels (fst p))%Z).

Theorem C08_holds : C08_statement.
Proof.
  split; [reflexivity|]. split.
  - intros labels n same max_iter iters ps warn H.
    destruct (pairs_sound _ _ _ _ _ _ _ H) as [G _]. rewrite Forall_forall in *.
    intros p Hp. destruct (G p Hp) as [_ [_ [A [B _]]]]. auto.
  - intros labels n_chunks chunk_size steps assign H p Hp.
    destruct (chunks_sound _ _ _ _ _ H) as [_ [K _]]. apply K; auto.
Qed.
Print Assumptions C08_holds.
