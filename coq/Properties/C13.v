(* C13 -- SDML minimises the documented sparse LogDet objective.
   Model: Model/SDML.v.  Proved: the matrix handed to the solver is M0^-1 + balance * sum_i y_i v_i v_i^T
   (as quadratic forms); the result vetting returns only when nothing was raised, no tested
   eigenvalue is negative and everything is finite; and the per-entry conditions evaluated by the
   certificate checker are EXACTLY "0 is in the sub-differential" of
      tr(S M) - logdet M + alpha ||M||_{1,off}     (S - M^-1 is the gradient of the smooth part).
   NOT mechanised: stationarity => global minimum (concavity of logdet); the graphical-lasso solver is
   an oracle whose output is certified per run on exact rationals (props/c13.py). *)
From Coq Require Import List Reals.
From ML Require Import Ops Vec VecR MatR LinAlg NPNum SDML C13Proof C13Src.
From MLgen Require Import Src_sdml.
From ML Require Import PinsC13.
Import ListNotations.
Open Scope R_scope.

Definition C13_statement : Prop :=
  (forall d (P : Rm) (b : R) (ys : Rv) (diffs : Rm) x, wfmR d d P -> Forall (wfvR d) diffs -> wfvR d x ->
     quadformR (@emp_cov ROps d P b ys diffs) x = quadformR P x + b * wsq ys diffs x) /\
  (forall raised not_spd not_finite,
     vet raised not_spd not_finite = SdmlReturns <-> raised = false /\ not_spd = false /\ not_finite = false) /\
  (forall alpha s minv m : R, 0 <= alpha ->
     (@kkt_entry ROps alpha 0 false s minv m = true <-> exists z, subdiff alpha m z /\ (s - minv) + z = 0) /\
     (@kkt_entry ROps alpha 0 true s minv m = true <-> s - minv = 0)).

Theorem C13_partial : C13_statement.
Proof. exact (conj emp_cov_form (conj vetting_spec kkt_entry_stationary)). Qed.
Print Assumptions C13_partial.

(* text-level tie: the functions this property's hand-written model and harness were written from are unchanged
   (digests regenerated from /repo on every run; Proofs/PinsC13.v) *)
Definition C13_source_pins := pins_C13_ok.

(* the translated source (gen/Src_sdml.v): the solver input of sdml.py has the quadratic form of
   M0^-1 + balance_param * sum_i y_i v_i v_i^T, and fit raises RuntimeError exactly when the model's vetting does *)
Definition C13_source_stmt : Prop :=
  (forall d (P : Rm) (b : R) (ys : Rv) (diffs : Rm) (x : Rv),
     wfmR d d P -> diffs <> [] -> Forall (wfvR d) diffs -> length ys = length diffs -> wfvR d x ->
     quadformR (@sdml_emp_cov ROps b P diffs ys) x = quadformR P x + b * wsq ys diffs x) /\
  (forall raised not_spd not_finite,
     sdml_raises raised not_spd not_finite = false <-> vet raised not_spd not_finite = SdmlReturns).

Theorem C13_source : C13_source_stmt.
Proof. exact (conj sdml_emp_cov_form sdml_raises_vet). Qed.
Print Assumptions C13_source.
Definition C13_source_skeleton := sdml_skeleton_ok.
